import UmProofs.BrokerScaleQuota
/-!
# C10 — `remove_slots_from_src` on a balanced cluster with `k` extra empty chunks
-/
namespace Um.Broker.Scale
open Um Um.Slots Um.Broker

theorem surplusChunks_append (P : OutParams) (A B : List Chunk) (i : Nat) :
    surplusChunks P (A ++ B) i = surplusChunks P A i + surplusChunks P B (i + A.length) := by
  induction A generalizing i with
  | nil => simp [surplusChunks]
  | cons a A ih =>
    simp only [List.cons_append, surplusChunks, ih, List.length_cons]
    have : i + 1 + A.length = i + (A.length + 1) := by omega
    rw [this]; omega

theorem surplusChunks_empty (P : OutParams) (B : List Chunk) (h : EmptyChunks B) (i : Nat) :
    surplusChunks P B i = 0 := by
  induction B generalizing i with
  | nil => rfl
  | cons b B ih =>
    obtain ⟨h0, h1⟩ := h b (by simp)
    simp only [surplusChunks, h0, h1, surplusHalf]
    rw [ih (fun ch hch => h ch (by simp [hch]))]

theorem srcOk_append (P : OutParams) (A B : List Chunk) (i : Nat) (hA : SrcOk P A i)
    (hB : SrcOk P B (i + A.length)) : SrcOk P (A ++ B) i := by
  induction A generalizing i with
  | nil => simpa using hB
  | cons a A ih =>
    obtain ⟨h0, h1, hr⟩ := hA
    refine ⟨h0, h1, ih (i + 1) hr ?_⟩
    have : i + 1 + A.length = i + (a :: A).length := by simp only [List.length_cons]; omega
    rw [this]; exact hB

theorem srcOk_empty (P : OutParams) (B : List Chunk) (h : EmptyChunks B) (i : Nat) : SrcOk P B i := by
  induction B generalizing i with
  | nil => trivial
  | cons b B ih =>
    obtain ⟨h0, h1⟩ := h b (by simp)
    refine ⟨?_, ?_, ih (fun ch hch => h ch (by simp [hch])) _⟩
    · intro rl hrl; rw [h0] at hrl; cases hrl
    · intro rl hrl; rw [h1] at hrl; cases hrl

theorem srcOk_full (P : OutParams) (m : Nat) (hm : 2 ≤ m) (A : List Chunk) (i : Nat) (h : FullChunks m A i)
    (hle : ∀ idx, (OutParams.srcFinal P) idx ≤ quota m idx) : SrcOk P A i := by
  induction A generalizing i with
  | nil => trivial
  | cons a A ih =>
    obtain ⟨⟨x, y, hx, hy, ax, ay, cx, cy⟩, hr⟩ := h
    refine ⟨?_, ?_, ih _ hr⟩
    · intro rl hrl; rw [hx] at hrl; cases hrl
      exact ⟨ax, by rw [cx]; exact hle _, by rw [cx]; exact quota_le m _ hm⟩
    · intro rl hrl; rw [hy] at hrl; cases hrl
      exact ⟨ay, by rw [cy]; exact hle _, by rw [cy]; exact quota_le m _ hm⟩

theorem surplus_full (P : OutParams) (m : Nat) (A : List Chunk) (i : Nat) (h : FullChunks m A i)
    (hle : ∀ idx, (OutParams.srcFinal P) idx ≤ quota m idx) :
    surplusChunks P A i + rangeSum (OutParams.srcFinal P) (i * 2) (A.length * 2) =
      rangeSum (quota m) (i * 2) (A.length * 2) := by
  induction A generalizing i with
  | nil => simp [surplusChunks, rangeSum, sumTo]
  | cons a A ih =>
    obtain ⟨⟨x, y, hx, hy, _, _, cx, cy⟩, hr⟩ := h
    have hlen : (a :: A).length * 2 = A.length * 2 + 2 := by simp only [List.length_cons]; omega
    rw [hlen, rangeSum_two_front, rangeSum_two_front]
    have hi : i * 2 + 2 = (i + 1) * 2 := by omega
    rw [hi]
    have := ih (i + 1) hr
    simp only [surplusChunks, hx, hy, surplusHalf, cx, cy, Nat.add_zero] at this ⊢
    have h1 := hle (i * 2)
    have h2 := hle (i * 2 + 1)
    omega

theorem srcDone_append (P : OutParams) (A B X : List Chunk) (i : Nat) (h : SrcDone P (A ++ B) X i) :
    ∃ A' B', X = A' ++ B' ∧ A'.length = A.length ∧ SrcDone P A A' i ∧ SrcDone P B B' (i + A.length) := by
  induction A generalizing X i with
  | nil => exact ⟨[], X, rfl, rfl, trivial, by simpa using h⟩
  | cons a A ih =>
    cases X with
    | nil => exact absurd h (by simp [SrcDone])
    | cons x X =>
      obtain ⟨hx, hr⟩ := h
      obtain ⟨A', B', rfl, hl, hA, hB⟩ := ih X (i + 1) hr
      refine ⟨x :: A', B', rfl, by simp [hl], ⟨hx, hA⟩, ?_⟩
      have : i + (a :: A).length = i + 1 + A.length := by simp only [List.length_cons]; omega
      rw [this]; exact hB

theorem srcDone_empty (P : OutParams) (B B' : List Chunk) (i : Nat) (he : EmptyChunks B)
    (h : SrcDone P B B' i) : B' = B := by
  induction B generalizing B' i with
  | nil =>
    cases B' with
    | nil => rfl
    | cons _ _ => exact absurd h (by simp [SrcDone])
  | cons b B ih =>
    cases B' with
    | nil => exact absurd h (by simp [SrcDone])
    | cons b' B' =>
      obtain ⟨⟨s0, s1, hb, h0, h1⟩, hr⟩ := h
      obtain ⟨e0, e1⟩ := he b (by simp)
      rw [e0] at h0; rw [e1] at h1
      simp only [HalfDone] at h0 h1
      subst h0; subst h1
      rw [ih B' (i + 1) (fun ch hch => he ch (by simp [hch])) hr, hb]
      congr 1
      cases b; simp_all

theorem srcDone_full (P : OutParams) (m m' : Nat) (A A' : List Chunk) (i : Nat) (hf : FullChunks m A i)
    (h : SrcDone P A A' i) (heq : ∀ idx, (OutParams.srcFinal P) idx = quota m' idx) : FullChunks m' A' i := by
  induction A generalizing A' i with
  | nil =>
    cases A' with
    | nil => trivial
    | cons _ _ => exact absurd h (by simp [SrcDone])
  | cons a A ih =>
    cases A' with
    | nil => exact absurd h (by simp [SrcDone])
    | cons a' A' =>
      obtain ⟨⟨x, y, hx, hy, _, _, _, _⟩, hfr⟩ := hf
      obtain ⟨⟨s0, s1, ha, h0, h1⟩, hr⟩ := h
      rw [hx] at h0; rw [hy] at h1
      obtain ⟨r0, rfl, c0, a0⟩ := h0
      obtain ⟨r1, rfl, c1, a1⟩ := h1
      refine ⟨⟨r0, r1, by rw [ha], by rw [ha], a0, a1, by rw [c0, heq], by rw [c1, heq]⟩, ih A' (i + 1) hfr hr⟩

theorem srcDone_noMigs (P : OutParams) (A A' : List Chunk) (i : Nat) (h : SrcDone P A A' i)
    (hn : NoMigs A) : NoMigs A' := by
  induction A generalizing A' i with
  | nil =>
    cases A' with
    | nil => exact hn
    | cons _ _ => exact absurd h (by simp [SrcDone])
  | cons a A ih =>
    cases A' with
    | nil => exact absurd h (by simp [SrcDone])
    | cons a' A' =>
      obtain ⟨⟨s0, s1, ha, _, _⟩, hr⟩ := h
      intro ch hch
      rcases List.mem_cons.mp hch with rfl | hch
      · rw [ha]; exact hn a (by simp)
      · exact ih A' (i + 1) hr (fun c hc => hn c (by simp [hc])) ch hch

theorem filter_full_nil (m : Nat) (A : List Chunk) (i : Nat) (h : FullChunks m A i) :
    A.filter (fun c => c.stable0.isNone && c.stable1.isNone) = [] := by
  induction A generalizing i with
  | nil => rfl
  | cons a A ih =>
    obtain ⟨⟨x, y, hx, _, _⟩, hr⟩ := h
    simp only [List.filter_cons, hx, Option.isNone_some, Bool.false_and, Bool.false_eq_true, if_false]
    exact ih (i + 1) hr

theorem filter_empty_length (A B : List Chunk) (m : Nat) (hf : FullChunks m A 0) (he : EmptyChunks B) :
    ((A ++ B).filter fun c => c.stable0.isNone && c.stable1.isNone).length = B.length := by
  have hB : B.filter (fun c => c.stable0.isNone && c.stable1.isNone) = B := by
    apply List.filter_eq_self.mpr
    intro c hc
    obtain ⟨h0, h1⟩ := he c hc
    simp [h0, h1]
  rw [List.filter_append, filter_full_nil m A 0 hf, hB]; rfl

/-- facts about the tasks a scale-out plan emits -/
structure OutPlan (n k e : Nat) (out : List MigSlots) : Prop where
  filled : ∀ j, j < k * 2 →
    recvBy (fun mm => (mm.dstChunk - n) * 2 + mm.dstPart) out j = quota ((n + k) * 2) (n * 2 + j)
  nothing_else : ∀ j, k * 2 ≤ j → recvBy (fun mm => (mm.dstChunk - n) * 2 + mm.dstPart) out j = 0
  shape : ∀ ms ∈ out, (∃ j, j < k * 2 ∧ ms.mm.dstChunk = n + j / 2 ∧ ms.mm.dstPart = j % 2) ∧
    ms.mm.srcPart < 2 ∧ ms.mm.srcChunk < n + k ∧ ms.mm.epoch = e ∧ compact ms.ranges = ms.ranges

/-- **the scale-out plan**: on a balanced cluster of `n` chunks followed by `k > 0` empty chunks
(`2(n+k) ≤ SLOT_NUM`) `remove_slots_from_src` does not panic, does not run out of fuel, leaves
source master `i` with exactly `quota (2(n+k)) i` slots and plans exactly `quota (2(n+k)) (2n+j)`
slots for destination master `j` -/
theorem removeSlotsFromSrc_balanced {cl : Cluster} {A B : List Chunk} {n k : Nat} (e : Nat)
    (hch : cl.chunks = A ++ B) (hA : A.length = n) (hB : B.length = k) (hn : 0 < n) (hk : 0 < k)
    (hfull : FullChunks (n * 2) A 0) (hempty : EmptyChunks B) (hM : (n + k) * 2 ≤ SLOT_NUM) :
    ∃ A' out, removeSlotsFromSrc cl e = R.ok (A' ++ B, out) ∧ A'.length = n ∧
      FullChunks ((n + k) * 2) A' 0 ∧ OutPlan n k e out ∧ (NoMigs A → NoMigs A') := by
  have hlen : cl.chunks.length = n + k := by rw [hch, List.length_append, hA, hB]
  let P : OutParams := ⟨e, SLOT_NUM / ((n + k) * 2),
    SLOT_NUM - SLOT_NUM / ((n + k) * 2) * ((n + k) * 2), k * 2, n * 2, n⟩
  have hsF : ∀ idx, (OutParams.srcFinal P) idx = quota ((n + k) * 2) idx := by
    intro idx; simp only [OutParams.srcFinal, quota, P, remainder_eq]
  have hneed : ∀ j, (OutParams.need P) j = quota ((n + k) * 2) (n * 2 + j) := by
    intro j; simp only [OutParams.need, quota, P, remainder_eq]
  have hav : 1 ≤ P.average := Nat.div_pos hM (by omega)
  have hle : ∀ idx, (OutParams.srcFinal P) idx ≤ quota (n * 2) idx := by
    intro idx; rw [hsF]; exact quota_anti (by omega) (by omega) idx
  -- the unfolded call
  have hcall : removeSlotsFromSrc cl e =
      (srcChunks P cl.chunks 0 { dstIdx := 0, curSlots := [], curNum := 0, out := [] } >>= fun r =>
        pure (r.1, r.2.out)) := by
    unfold removeSlotsFromSrc
    have hfl := filter_empty_length A B (n * 2) hfull hempty
    simp only [hch] at hlen ⊢
    simp only [hfl, hlen, hB]
    have h0 : ((n + k) * 2 == 0) = false := by simp; omega
    have h1 : n + k - k = n := by omega
    simp only [h0, h1, Bool.false_eq_true, if_false]
    rfl
  -- the loop
  have hst0 : StInv P { dstIdx := 0, curSlots := [], curNum := 0, out := [] } := by
    refine ⟨Nat.zero_le _, fun _ => (OutParams.need_pos P) hav 0, fun _ => ⟨rfl, rfl⟩, ?_⟩
    exact ⟨fun j hj => absurd hj (Nat.not_lt_zero j), by simp, fun j _ => by simp, fun ms hms => by cases hms⟩
  have hsurplus : surplusChunks P (A ++ B) 0 = (OutParams.total P) := by
    rw [surplusChunks_append, surplusChunks_empty P B hempty, Nat.add_zero]
    have h1 := surplus_full P (n * 2) A 0 hfull hle
    rw [hA] at h1
    have h2 : rangeSum (quota (n * 2)) (0 * 2) (n * 2) = SLOT_NUM := by
      have := sum_quota (n * 2) (by omega)
      unfold rangeSum; simpa using this
    have h3 := sum_quota ((n + k) * 2) (by omega)
    have h4 : (n + k) * 2 = n * 2 + k * 2 := by omega
    rw [h4, sumTo_split] at h3
    have h5 : rangeSum (OutParams.srcFinal P) (0 * 2) (n * 2) = sumTo (quota (n * 2 + k * 2)) (n * 2) := by
      unfold rangeSum
      apply sumTo_congr; intro i _; rw [hsF, h4]; simp
    have h6 : (OutParams.total P) = rangeSum (quota (n * 2 + k * 2)) (n * 2) (k * 2) := by
      unfold OutParams.total rangeSum
      apply sumTo_congr; intro j _; rw [hneed, h4]
    omega
  obtain ⟨chunks', st', hrun, hdone, hpost⟩ := srcChunks_spec P hav (A ++ B) 0 _
    (srcOk_append P A B 0 (srcOk_full P (n * 2) (by omega) A 0 hfull hle) (srcOk_empty P B hempty _))
    hst0 rfl (by rw [hsurplus]; simp [OutParams.given, sumTo])
  obtain ⟨A', B', rfl, hlA, hdA, hdB⟩ := srcDone_append P A B chunks' 0 hdone
  have hB' := srcDone_empty P B B' _ hempty hdB
  subst hB'
  -- every destination is filled
  have hgiven : (OutParams.given P) st' = (OutParams.total P) := by
    have := hpost.given; rw [hsurplus] at this; simpa [OutParams.given, sumTo] using this
  have hD : st'.dstIdx = P.dstMasterNum := by
    apply Classical.byContradiction
    intro hne
    have hlt : st'.dstIdx < P.dstMasterNum := by have := hpost.inv.le; omega
    have h1 := hpost.inv.lt hlt
    have h2 : sumTo (OutParams.need P) (st'.dstIdx + 1) ≤ sumTo (OutParams.need P) P.dstMasterNum := sumTo_mono _ hlt
    simp only [OutParams.given, OutParams.total, sumTo] at hgiven h2
    omega
  have hcur0 := (hpost.inv.fin hD).1
  refine ⟨A', st'.out, ?_, by rw [hlA, hA], srcDone_full P (n * 2) _ A A' 0 hfull hdA hsF, ⟨?_, ?_, ?_⟩,
    srcDone_noMigs P A A' 0 hdA⟩
  · rw [hcall, hch, hrun]; rfl
  · intro j hj
    have := hpost.inv.out.done j (by rw [hD]; exact hj)
    rw [hneed] at this; exact this
  · intro j hj
    by_cases hjd : j = k * 2
    · have := hpost.inv.out.curr
      rw [hD, hcur0, hpost.empty] at this
      subst hjd
      have h' : recvBy (OutParams.dstIndex P) st'.out P.dstMasterNum = 0 := by simpa using this
      exact h'
    · exact hpost.inv.out.later j (by rw [hD]; show k * 2 < j; omega)
  · intro ms hms
    obtain ⟨j, hj, h1, h2, h3, h4, h5⟩ := hpost.inv.out.shape ms hms
    refine ⟨⟨j, hj, h1, h2⟩, h3, ?_, h4, h5⟩
    obtain ⟨new, hnew, hsrc⟩ := hpost.outs
    simp only [List.nil_append] at hnew
    have := (hsrc ms (hnew ▸ hms)).2
    simpa [hA, hB] using this

end Um.Broker.Scale
