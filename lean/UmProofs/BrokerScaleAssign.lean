import UmProofs.BrokerScaleProjC
import UmProofs.BrokerScaleOut
import UmProofs.BrokerScaleDownC
/-!
# C10 — `assign_dst_slots` chunk by chunk

`assign_dst_slots` never panics on tasks whose positions fit the chunk list, keeps the stable
lists, and appends to the importing ranges of half `(i, p)` exactly the planned range lists whose
destination is `(i, p)` (`recvList`), then compacts.
-/
namespace Um.Broker.Scale
open Um Um.Slots Um.Broker

/-- append one migration entry to a chunk half -/
def addEntry (c : Chunk) (part : Nat) (e : MigStore) : Chunk :=
  if part = 0 then { c with mig0 := c.mig0 ++ [e] } else { c with mig1 := c.mig1 ++ [e] }

theorem addEntry_eq (c : Chunk) (part : Nat) (hp : part < 2) (e : MigStore) :
    ((c.mig part).bind fun l => c.setMig part (l ++ [e])) = some (addEntry c part e) := by
  match part, hp with
  | 0, _ => rfl
  | 1, _ => rfl

/-- what `assign_dst_slots` does to chunk `i` for one task -/
def stepChunk (m : MigSlots) (i : Nat) (ch : Chunk) : Chunk :=
  let ch1 := if m.mm.srcChunk = i then
    addEntry ch m.mm.srcPart { ranges := m.ranges, isMigrating := true, mm := m.mm } else ch
  if m.mm.dstChunk = i then
    addEntry ch1 m.mm.dstPart { ranges := m.ranges, isMigrating := false, mm := m.mm } else ch1

def foldChunk (ms : List MigSlots) (i : Nat) (ch : Chunk) : Chunk := ms.foldl (fun c m => stepChunk m i c) ch

/-- the body of the `for` loop of `assign_dst_slots` -/
def assignStep (chunks : List Chunk) (m : MigSlots) : R (List Chunk) := do
  let chunks ← updateChunk chunks m.mm.srcChunk (fun c =>
    (c.mig m.mm.srcPart).bind fun l =>
      c.setMig m.mm.srcPart (l ++ [{ ranges := m.ranges, isMigrating := true, mm := m.mm }])) "assign_dst_slots"
  updateChunk chunks m.mm.dstChunk (fun c =>
    (c.mig m.mm.dstPart).bind fun l =>
      c.setMig m.mm.dstPart (l ++ [{ ranges := m.ranges, isMigrating := false, mm := m.mm }])) "assign_dst_slots"

theorem assignDstSlots_eq (chunks : List Chunk) (ms : List MigSlots) :
    assignDstSlots chunks ms = (ms.foldlM assignStep chunks >>= fun c => pure (compactSlots c)) := rfl

theorem updateChunk_ok {chunks : List Chunk} {i : Nat} {c c' : Chunk} {f : Chunk → Option Chunk} (what : String)
    (h : chunks[i]? = some c) (hf : f c = some c') : updateChunk chunks i f what = R.ok (chunks.set i c') := by
  unfold updateChunk; rw [h]; simp only [hf]; rfl

theorem assignStep_spec (chunks : List Chunk) (m : MigSlots) (hs : m.mm.srcChunk < chunks.length)
    (hd : m.mm.dstChunk < chunks.length) (hsp : m.mm.srcPart < 2) (hdp : m.mm.dstPart < 2) :
    ∃ chunks2, assignStep chunks m = R.ok chunks2 ∧ chunks2.length = chunks.length ∧
      ∀ i, chunks2[i]? = (chunks[i]?).map (stepChunk m i) := by
  obtain ⟨cs, hcs⟩ : ∃ cs, chunks[m.mm.srcChunk]? = some cs := ⟨_, List.getElem?_eq_getElem hs⟩
  have h1 := updateChunk_ok (f := fun c => (c.mig m.mm.srcPart).bind fun l =>
      c.setMig m.mm.srcPart (l ++ [{ ranges := m.ranges, isMigrating := true, mm := m.mm }]))
    "assign_dst_slots" hcs (addEntry_eq cs m.mm.srcPart hsp { ranges := m.ranges, isMigrating := true, mm := m.mm })
  have hlen1 : (chunks.set m.mm.srcChunk (addEntry cs m.mm.srcPart
      { ranges := m.ranges, isMigrating := true, mm := m.mm })).length = chunks.length := by simp
  obtain ⟨cd, hcd⟩ : ∃ cd, (chunks.set m.mm.srcChunk (addEntry cs m.mm.srcPart
      { ranges := m.ranges, isMigrating := true, mm := m.mm }))[m.mm.dstChunk]? = some cd :=
    ⟨_, List.getElem?_eq_getElem (by rw [hlen1]; exact hd)⟩
  have h2 := updateChunk_ok (f := fun c => (c.mig m.mm.dstPart).bind fun l =>
      c.setMig m.mm.dstPart (l ++ [{ ranges := m.ranges, isMigrating := false, mm := m.mm }]))
    "assign_dst_slots" hcd (addEntry_eq cd m.mm.dstPart hdp { ranges := m.ranges, isMigrating := false, mm := m.mm })
  refine ⟨?w, ?r1, ?r2, ?r3⟩
  case r1 =>
    unfold assignStep
    rw [h1]
    show updateChunk _ _ _ _ = _
    rw [h2]
  case r2 => simp
  case r3 =>
    intro i
    have hcd' := hcd
    rw [List.getElem?_set] at hcd'
    rw [List.getElem?_set, List.getElem?_set]
    simp only [List.length_set]
    unfold stepChunk
    by_cases hdi : m.mm.dstChunk = i
    · subst hdi
      simp only [hd, if_true]
      by_cases hsi : m.mm.srcChunk = m.mm.dstChunk
      · simp only [hsi, hd, if_true] at hcd' hcs ⊢
        cases hcd'
        simp [hcs]
      · simp only [hsi, if_false] at hcd' ⊢
        simp [hcd']
    · simp only [hdi, if_false]
      by_cases hsi : m.mm.srcChunk = i
      · subst hsi
        have hcs' : chunks[m.mm.srcChunk] = cs := by
          rw [List.getElem?_eq_getElem hs] at hcs; exact Option.some.inj hcs
        simp [hs, hcs']
      · simp [hsi]

/-- tasks whose positions fit a chunk list of length `len` -/
def TasksFit (len : Nat) (ms : List MigSlots) : Prop :=
  ∀ m ∈ ms, m.mm.srcChunk < len ∧ m.mm.dstChunk < len ∧ m.mm.srcPart < 2 ∧ m.mm.dstPart < 2

theorem assignFold_spec (ms : List MigSlots) (chunks : List Chunk) (hfit : TasksFit chunks.length ms) :
    ∃ chunks1, ms.foldlM assignStep chunks = R.ok chunks1 ∧ chunks1.length = chunks.length ∧
      ∀ i, chunks1[i]? = (chunks[i]?).map (foldChunk ms i) := by
  induction ms generalizing chunks with
  | nil => exact ⟨chunks, rfl, rfl, fun i => by cases chunks[i]? <;> rfl⟩
  | cons m ms ih =>
    obtain ⟨f1, f2, f3, f4⟩ := hfit m (by simp)
    obtain ⟨c2, hc2, hl2, hg2⟩ := assignStep_spec chunks m f1 f2 f3 f4
    obtain ⟨c3, hc3, hl3, hg3⟩ := ih c2 (by rw [hl2]; exact fun x hx => hfit x (by simp [hx]))
    refine ⟨c3, ?_, by rw [hl3, hl2], ?_⟩
    · simp only [List.foldlM_cons]
      rw [hc2]
      exact hc3
    · intro i
      rw [hg3, hg2]
      cases chunks[i]? <;> simp [foldChunk]

/-- **`assign_dst_slots` never panics on tasks that fit** and acts chunk-wise -/
theorem assignDstSlots_spec (ms : List MigSlots) (chunks : List Chunk) (hfit : TasksFit chunks.length ms) :
    ∃ chunks1, assignDstSlots chunks ms = R.ok chunks1 ∧ chunks1.length = chunks.length ∧
      ∀ i, chunks1[i]? = (chunks[i]?).map fun ch => compactChunk (foldChunk ms i ch) := by
  obtain ⟨c1, hc1, hl1, hg1⟩ := assignFold_spec ms chunks hfit
  refine ⟨compactSlots c1, ?_, by simp [compactSlots_eq, hl1], ?_⟩
  · rw [assignDstSlots_eq, hc1]; rfl
  · intro i
    rw [compactSlots_eq, List.getElem?_map, hg1]
    cases chunks[i]? <;> rfl

/-! ## what `foldChunk` does to one chunk -/

@[simp] theorem addEntry_stable0 (c : Chunk) (p : Nat) (e : MigStore) : (addEntry c p e).stable0 = c.stable0 := by
  unfold addEntry; split <;> rfl
@[simp] theorem addEntry_stable1 (c : Chunk) (p : Nat) (e : MigStore) : (addEntry c p e).stable1 = c.stable1 := by
  unfold addEntry; split <;> rfl

theorem stepChunk_stable (m : MigSlots) (i : Nat) (ch : Chunk) :
    (stepChunk m i ch).stable0 = ch.stable0 ∧ (stepChunk m i ch).stable1 = ch.stable1 := by
  unfold stepChunk
  split <;> split <;> simp

theorem foldChunk_stable (ms : List MigSlots) (i : Nat) (ch : Chunk) :
    (foldChunk ms i ch).stable0 = ch.stable0 ∧ (foldChunk ms i ch).stable1 = ch.stable1 := by
  induction ms generalizing ch with
  | nil => exact ⟨rfl, rfl⟩
  | cons m ms ih =>
    simp only [foldChunk, List.foldl_cons]
    have := ih (stepChunk m i ch)
    simp only [foldChunk] at this
    rw [this.1, this.2]
    exact stepChunk_stable m i ch

/-- the range lists planned into half `(i, p0)` (`p0 = true` is part 0) -/
def recvList (i : Nat) (p0 : Bool) (ms : List MigSlots) : List RangeList :=
  (ms.filter fun m => m.mm.dstChunk == i && ((m.mm.dstPart == 0) == p0)).map (·.ranges)

theorem impRanges_snoc (l : List MigStore) (e : MigStore) :
    impRanges (l ++ [e]) = impRanges l ++ (if e.isMigrating then [] else [e.ranges]) := by
  rw [impRanges_append]
  cases he : e.isMigrating <;> simp [impRanges, he]

theorem addEntry_imp (c : Chunk) (p : Nat) (e : MigStore) :
    impRanges (addEntry c p e).mig0 =
      impRanges c.mig0 ++ (if p = 0 then (if e.isMigrating then [] else [e.ranges]) else []) ∧
    impRanges (addEntry c p e).mig1 =
      impRanges c.mig1 ++ (if p = 0 then [] else (if e.isMigrating then [] else [e.ranges])) := by
  unfold addEntry
  by_cases hp : p = 0
  · simp only [hp, if_true, impRanges_snoc, List.append_nil, and_self]
  · simp only [hp, if_false, impRanges_snoc, List.append_nil, and_self]

theorem recvList_single (i : Nat) (p0 : Bool) (m : MigSlots) :
    recvList i p0 [m] = if m.mm.dstChunk = i ∧ ((m.mm.dstPart == 0) = p0) then [m.ranges] else [] := by
  unfold recvList
  by_cases hd : m.mm.dstChunk = i <;> by_cases hp : (m.mm.dstPart == 0) = p0 <;> simp [hd, hp]

theorem stepChunk_imp (m : MigSlots) (i : Nat) (ch : Chunk) :
    impRanges (stepChunk m i ch).mig0 = impRanges ch.mig0 ++ recvList i true [m] ∧
    impRanges (stepChunk m i ch).mig1 = impRanges ch.mig1 ++ recvList i false [m] := by
  have hsrc : ∀ c : Chunk,
      impRanges (addEntry c m.mm.srcPart { ranges := m.ranges, isMigrating := true, mm := m.mm }).mig0 = impRanges c.mig0 ∧
      impRanges (addEntry c m.mm.srcPart { ranges := m.ranges, isMigrating := true, mm := m.mm }).mig1 = impRanges c.mig1 := by
    intro c
    have := addEntry_imp c m.mm.srcPart { ranges := m.ranges, isMigrating := true, mm := m.mm }
    simpa using this
  have hdst := fun c : Chunk => addEntry_imp c m.mm.dstPart { ranges := m.ranges, isMigrating := false, mm := m.mm }
  simp only [Bool.false_eq_true, if_false] at hdst
  rw [recvList_single, recvList_single]
  unfold stepChunk
  by_cases hs : m.mm.srcChunk = i <;> by_cases hd : m.mm.dstChunk = i
  · simp only [hs, hd, if_true, true_and]
    rw [(hdst _).1, (hdst _).2, (hsrc ch).1, (hsrc ch).2]
    by_cases hdp : m.mm.dstPart = 0 <;> simp [hdp]
  · simp only [hs, hd, if_true, if_false, false_and]
    rw [(hsrc ch).1, (hsrc ch).2]; simp
  · simp only [hs, hd, if_true, if_false, true_and]
    rw [(hdst _).1, (hdst _).2]
    by_cases hdp : m.mm.dstPart = 0 <;> simp [hdp]
  · simp only [hs, hd, if_false, false_and]; simp

theorem recvList_cons (i : Nat) (p0 : Bool) (m : MigSlots) (ms : List MigSlots) :
    recvList i p0 (m :: ms) = recvList i p0 [m] ++ recvList i p0 ms := by
  unfold recvList
  by_cases h : (m.mm.dstChunk == i && ((m.mm.dstPart == 0) == p0)) = true <;> simp [h]

theorem foldChunk_imp (ms : List MigSlots) (i : Nat) (ch : Chunk) :
    impRanges (foldChunk ms i ch).mig0 = impRanges ch.mig0 ++ recvList i true ms ∧
    impRanges (foldChunk ms i ch).mig1 = impRanges ch.mig1 ++ recvList i false ms := by
  induction ms generalizing ch with
  | nil => simp [foldChunk, recvList]
  | cons m ms ih =>
    simp only [foldChunk, List.foldl_cons]
    have := ih (stepChunk m i ch)
    simp only [foldChunk] at this
    obtain ⟨s0, s1⟩ := stepChunk_imp m i ch
    rw [this.1, this.2, s0, s1, recvList_cons i true m ms, recvList_cons i false m ms]
    simp [List.append_assoc]

theorem addEntry_migs (c : Chunk) (p : Nat) (x e : MigStore) (h : e ∈ (addEntry c p x).migs) :
    e ∈ c.migs ∨ e = x := by
  unfold addEntry Chunk.migs at h
  unfold Chunk.migs
  by_cases hp : p = 0
  · simp only [hp, if_true, List.mem_append, List.mem_singleton] at h ⊢
    rcases h with (h | h) | h
    · exact Or.inl (Or.inl h)
    · exact Or.inr h
    · exact Or.inl (Or.inr h)
  · simp only [hp, if_false, List.mem_append, List.mem_singleton] at h ⊢
    rcases h with h | h | h
    · exact Or.inl (Or.inl h)
    · exact Or.inl (Or.inr h)
    · exact Or.inr h

/-- every entry of the new chunk is an old one or comes from a task -/
theorem stepChunk_migs (m : MigSlots) (i : Nat) (ch : Chunk) :
    ∀ e ∈ (stepChunk m i ch).migs, e ∈ ch.migs ∨ (e.mm = m.mm ∧ e.ranges = m.ranges) := by
  intro e he
  unfold stepChunk at he
  by_cases hs : m.mm.srcChunk = i <;> by_cases hd : m.mm.dstChunk = i
  · simp only [hs, hd, if_true] at he
    rcases addEntry_migs _ _ _ _ he with h | h
    · rcases addEntry_migs _ _ _ _ h with h' | h'
      · exact Or.inl h'
      · subst h'; exact Or.inr ⟨rfl, rfl⟩
    · subst h; exact Or.inr ⟨rfl, rfl⟩
  · simp only [hs, hd, if_true, if_false] at he
    rcases addEntry_migs _ _ _ _ he with h' | h'
    · exact Or.inl h'
    · subst h'; exact Or.inr ⟨rfl, rfl⟩
  · simp only [hs, hd, if_true, if_false] at he
    rcases addEntry_migs _ _ _ _ he with h' | h'
    · exact Or.inl h'
    · subst h'; exact Or.inr ⟨rfl, rfl⟩
  · simp only [hs, hd, if_false] at he
    exact Or.inl he

theorem foldChunk_migs (ms : List MigSlots) (i : Nat) (ch : Chunk) :
    ∀ e ∈ (foldChunk ms i ch).migs, e ∈ ch.migs ∨ ∃ m ∈ ms, e.mm = m.mm ∧ e.ranges = m.ranges := by
  induction ms generalizing ch with
  | nil => intro e he; exact Or.inl he
  | cons m ms ih =>
    intro e he
    simp only [foldChunk, List.foldl_cons] at he
    rcases ih (stepChunk m i ch) e he with h | ⟨m', hm', h⟩
    · rcases stepChunk_migs m i ch e h with h' | h'
      · exact Or.inl h'
      · exact Or.inr ⟨m, by simp, h'⟩
    · exact Or.inr ⟨m', by simp [hm'], h⟩

end Um.Broker.Scale
