import UmProofs.BrokerFailoverEpoch
/-!
# C06 — `takeoverMaster` on the store: the cluster that is served afterwards, repeat calls
-/
namespace Um.Broker.C06
open Um Um.Slots Um.Gen.Chunk

theorem findCluster_some {s : Store} {name : String} {cl : Cluster} (h : s.findCluster name = some cl) :
    cl ∈ s.clusters ∧ cl.name = name := by
  unfold Store.findCluster at h
  exact ⟨List.mem_of_find?_eq_some h, by simpa using List.find?_some h⟩

theorem find_map_replace (l : List Cluster) (name : String) (cl c' : Cluster)
    (h : l.find? (·.name == name) = some cl) (hn : c'.name = cl.name) (hname : cl.name = name) :
    (l.map fun x => if x.name == c'.name then c' else x).find? (·.name == name) = some c' := by
  induction l with
  | nil => simp at h
  | cons x rest ih =>
    simp only [List.find?_cons, List.map_cons] at h ⊢
    by_cases hx : x.name == name
    · have e1 : (x.name == c'.name) = true := by
        rw [hn, hname]; exact hx
      have e2 : (c'.name == name) = true := by simp [hn, hname]
      simp only [e1, if_true, e2]
    · have hx' : (x.name == name) = false := by simpa using hx
      have e1 : (x.name == c'.name) = false := by rw [hn, hname]; exact hx'
      simp only [hx', e1, Bool.false_eq_true, if_false] at h ⊢
      exact ih h

/-- after `setCluster c'` (same name as the cluster found under `name`) the lookup finds `c'` -/
theorem findCluster_setCluster {s : Store} {name : String} {cl c' : Cluster} (h : s.findCluster name = some cl)
    (hn : c'.name = cl.name) : (s.setCluster c').findCluster name = some c' :=
  find_map_replace s.clusters name cl c' h hn (findCluster_some h).2

/-- `failedAt` only looks at the proxy addresses -/
theorem failedAt_congr (p : String) (l l' : List Chunk)
    (h : l.map (fun c => (c.proxy0, c.proxy1)) = l'.map (fun c => (c.proxy0, c.proxy1))) :
    failedAt p l = failedAt p l' := by
  induction l generalizing l' with
  | nil => cases l' with
    | nil => rfl
    | cons _ _ => simp at h
  | cons c rest ih =>
    cases l' with
    | nil => simp at h
    | cons c' rest' =>
      simp only [List.map_cons, List.cons.injEq, Prod.mk.injEq] at h
      obtain ⟨⟨h0, h1⟩, hr⟩ := h
      unfold failedAt
      rw [h0, h1, ih rest' hr]

theorem tkChunk_proxies (k h e : Nat) (pos : List (Nat × Nat)) (i : Nat) (x : Chunk) :
    (tkChunk k h e pos i x).proxy0 = x.proxy0 ∧ (tkChunk k h e pos i x).proxy1 = x.proxy1 := by
  unfold tkChunk; split <;> exact ⟨rfl, rfl⟩

theorem tkChunks_pp {k h e : Nat} {c : Chunk} {chunks : List Chunk} (hk : chunks[k]? = some c) :
    (tkChunks k h e c chunks).map (fun c => (c.proxy0, c.proxy1)) = chunks.map (fun c => (c.proxy0, c.proxy1)) := by
  apply List.ext_getElem?
  intro i
  simp only [List.getElem?_map]
  cases hx : chunks[i]? with
  | none =>
    rw [tkChunks_getElem? hk, hx]; rfl
  | some x =>
    rw [tkChunks_get hk hx]
    simp only [Option.map_some, (tkChunk_proxies k h e _ i x).1, (tkChunk_proxies k h e _ i x).2]

theorem failedAt_tkChunks {p : String} {k h e : Nat} {c : Chunk} {chunks : List Chunk} (hk : chunks[k]? = some c) :
    failedAt p (tkChunks k h e c chunks) = failedAt p chunks :=
  failedAt_congr p _ _ (tkChunks_pp hk)

/-- the cluster served under `name` after `takeover_master` -/
def afterTakeover (cl : Cluster) (k h e : Nat) (c : Chunk) : Cluster :=
  if c.role = newRole h then cl else { cl with chunks := tkChunks k h e c cl.chunks, epoch := e }

theorem takeoverMaster_find {s : Store} {name p : String} {cl : Cluster} (hcl : s.findCluster name = some cl)
    {k h : Nat} {c : Chunk} (hf : failedAt p cl.chunks = some (k, h)) (hk : cl.chunks[k]? = some c) :
    (takeoverMaster s name p).2 = R.ok () ∧ (takeoverMaster s name p).1.globalEpoch = s.globalEpoch + 1 ∧
    (takeoverMaster s name p).1.proxies = s.proxies ∧ (takeoverMaster s name p).1.failed = s.failed ∧
    (takeoverMaster s name p).1.failures = s.failures ∧
    (takeoverMaster s name p).1.findCluster name = some (afterTakeover cl k h (s.globalEpoch + 1) c) := by
  rw [takeoverMaster_eq hcl hf hk]
  unfold afterTakeover
  by_cases hr : c.role = newRole h
  · rw [if_pos hr, if_pos hr]
    exact ⟨rfl, rfl, rfl, rfl, rfl, hcl⟩
  · rw [if_neg hr, if_neg hr]
    exact ⟨rfl, rfl, rfl, rfl, rfl, findCluster_setCluster (s := s.bump) hcl rfl⟩

/-- **(e) repeat calls**: a second `takeover_master` for the same proxy changes nothing but the global epoch -/
theorem takeoverMaster_repeat {s : Store} {name p : String} {cl : Cluster} (hcl : s.findCluster name = some cl)
    {k h : Nat} (hf : failedAt p cl.chunks = some (k, h)) :
    takeoverMaster (takeoverMaster s name p).1 name p = ((takeoverMaster s name p).1.bump, R.ok ()) := by
  obtain ⟨c, hk, hh, -⟩ := failedAt_some hf
  obtain ⟨-, -, -, -, -, hfind⟩ := takeoverMaster_find hcl hf hk
  by_cases hr : c.role = newRole h
  · simp only [afterTakeover, hr, if_true] at hfind
    rw [takeoverMaster_eq hfind hf hk, if_pos hr]
  · simp only [afterTakeover, hr, if_false] at hfind
    have hf' : failedAt p (tkChunks k h (s.globalEpoch + 1) c cl.chunks) = some (k, h) := by
      rw [failedAt_tkChunks hk]; exact hf
    have hk' := tkChunks_get (h := h) (e := s.globalEpoch + 1) hk hk
    rw [takeoverMaster_eq hfind hf' hk', if_pos]
    rw [tkChunk_role]; simp

/-! ## the view exists after the call if it existed before -/

theorem inRange_tkEntry (pos : List (Nat × Nat)) (e : Nat) (m : MigStore) (n : Nat) :
    inRange (tkEntry pos e m) n = inRange m n := by
  obtain ⟨-, -, hs, hd, -⟩ := tkEntry_fields pos e m
  simp only [srcPos, dstPos, Prod.mk.injEq] at hs hd
  simp only [inRange, hs.1, hs.2, hd.1, hd.2]

theorem clusterOk_tk {cl : Cluster} {k h e : Nat} {c : Chunk} (hk : cl.chunks[k]? = some c)
    (hok : clusterOk cl = true) :
    clusterOk { cl with chunks := tkChunks k h e c cl.chunks, epoch := e } = true := by
  unfold clusterOk at *
  rw [List.all_eq_true] at *
  intro y hy
  obtain ⟨i, hi⟩ := List.mem_iff_getElem?.1 hy
  simp only at hi
  cases hx : cl.chunks[i]? with
  | none => rw [tkChunks_getElem? hk, hx] at hi; cases hi
  | some x =>
    rw [tkChunks_get hk hx] at hi
    cases hi
    have hxc : i = k → x = c := by intro e; subst e; rw [hk] at hx; exact (Option.some.inj hx).symm
    have hx' := hok x (List.mem_of_getElem? hx)
    simp only [chunkOk, Bool.and_eq_true, List.all_eq_true, tkChunks_length] at hx' ⊢
    obtain ⟨m0, m1⟩ := tkChunk_migs k h e c i x hxc
    rw [m0, m1]
    constructor <;> intro m hm <;> simp only [List.mem_map] at hm <;> obtain ⟨m', hm', rfl⟩ := hm <;>
      rw [inRange_tkEntry]
    · exact hx'.1 m' hm'
    · exact hx'.2 m' hm'

/-- all stored entries of the cluster after a non-repeat call -/
theorem migs_tk {cl : Cluster} {k h e : Nat} {c : Chunk} (hk : cl.chunks[k]? = some c) :
    ({ cl with chunks := tkChunks k h e c cl.chunks, epoch := e } : Cluster).migs =
      cl.migs.map (tkEntry (tfPos h c) e) := by
  unfold Cluster.migs
  simp only [List.flatMap_def, List.map_flatten, List.map_map]
  congr 1
  apply List.ext_getElem?
  intro i
  simp only [List.getElem?_map]
  cases hx : cl.chunks[i]? with
  | none => rw [tkChunks_getElem? hk, hx]; rfl
  | some x =>
    rw [tkChunks_get hk hx]
    have hxc : i = k → x = c := by intro e; subst e; rw [hk] at hx; exact (Option.some.inj hx).symm
    obtain ⟨m0, m1⟩ := tkChunk_migs k h e c i x hxc
    simp only [Option.map_some, Function.comp, Chunk.migs, m0, m1, List.map_append]

theorem clusterOk_afterTakeover {cl : Cluster} {k h e : Nat} {c : Chunk} (hk : cl.chunks[k]? = some c)
    (hok : clusterOk cl = true) : clusterOk (afterTakeover cl k h e c) = true := by
  unfold afterTakeover; split
  · exact hok
  · exact clusterOk_tk hk hok

end Um.Broker.C06
