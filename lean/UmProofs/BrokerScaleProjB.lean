import UmProofs.BrokerScaleProjA
/-!
# C10 — projected slot counts are invariant under commits (part B: chunks and clusters)
-/
namespace Um.Broker.Scale
open Um Um.Slots Um.Broker

theorem halfDisj_congr {st : Option RangeList} {l l' : List MigStore} (h : impRanges l' = impRanges l) :
    HalfDisj st l' ↔ HalfDisj st l := by
  unfold HalfDisj halfAll; rw [h]

theorem proj_congr {st : Option RangeList} {l l' : List MigStore} (h : impRanges l' = impRanges l) :
    proj st l' = proj st l := by
  unfold proj; rw [h]

/-- a half of a chunk that is not the destination of the commit -/
theorem half_strip_compact (ranges : RangeList) (mm : MigMeta) {st : Option RangeList} {l : List MigStore}
    (hfix : ∀ e ∈ l, compact e.ranges = e.ranges) (h : HalfDisj st l) :
    HalfDisj (st.map compact) ((l.filter (keepOf ranges mm)).map compactMig) ∧
    proj (st.map compact) ((l.filter (keepOf ranges mm)).map compactMig) = proj st l := by
  have himp : impRanges ((l.filter (keepOf ranges mm)).map compactMig) = impRanges l := by
    rw [impRanges_compact (fun e he => hfix e (List.mem_filter.mp he).1), impRanges_strip]
  obtain ⟨h1, h2⟩ := half_compact h
  exact ⟨(halfDisj_congr himp).mpr h1, (proj_congr himp).trans h2⟩

/-- the destination half of the commit -/
theorem half_land_compact (ranges : RangeList) (mm : MigMeta) {st : Option RangeList} {l : List MigStore}
    (hfix : ∀ e ∈ l, compact e.ranges = e.ranges) (h : HalfDisj st l)
    (hany : (l.filter (keepOf ranges mm)).any (isTwin ranges mm) = true) :
    HalfDisj ((absorb st ranges).map compact)
      (((l.filter (keepOf ranges mm)).eraseP (isTwin ranges mm)).map compactMig) ∧
    proj ((absorb st ranges).map compact)
      (((l.filter (keepOf ranges mm)).eraseP (isTwin ranges mm)).map compactMig) = proj st l := by
  obtain ⟨x, hx, hpx⟩ := List.any_eq_true.mp hany
  obtain ⟨a, l1, l2, _, hpa, hl, he⟩ := List.exists_of_eraseP hx hpx
  obtain ⟨ha1, _, ha3⟩ := isTwin_iff.mp hpa
  have hfix' : ∀ e ∈ l1 ++ l2, compact e.ranges = e.ranges := by
    intro e hmem
    apply hfix e
    have : e ∈ l.filter (keepOf ranges mm) := by
      rw [hl]
      rcases List.mem_append.mp hmem with h' | h'
      · exact List.mem_append_left _ h'
      · exact List.mem_append_right _ (List.mem_cons_of_mem _ h')
    exact (List.mem_filter.mp this).1
  have h0 : HalfDisj st (l1 ++ a :: l2) := by
    rw [← hl]; exact (halfDisj_congr (impRanges_strip ranges mm l)).mpr h
  have hp0 : proj st (l1 ++ a :: l2) = proj st l := by
    rw [← hl]; exact proj_congr (impRanges_strip ranges mm l)
  obtain ⟨h1, h2⟩ := half_land ha1 h0
  rw [ha3] at h1 h2
  obtain ⟨h3, h4⟩ := half_compact h1
  rw [he]
  have himp := impRanges_compact hfix'
  exact ⟨(halfDisj_congr himp).mpr h3, (proj_congr himp).trans (h4.trans (h2.trans hp0))⟩

/-- disjointness of stable and importing ranges, for every half of the cluster -/
def ProjInv (c : Cluster) : Prop :=
  ∀ ch ∈ c.chunks, HalfDisj ch.stable0 ch.mig0 ∧ HalfDisj ch.stable1 ch.mig1

/-- relation between a chunk before and after a commit -/
structure ChunkStep (ranges : RangeList) (isDst : Bool) (part : Nat) (ch ch' : Chunk) : Prop where
  d0 : HalfDisj ch'.stable0 ch'.mig0
  d1 : HalfDisj ch'.stable1 ch'.mig1
  p0 : proj ch'.stable0 ch'.mig0 = proj ch.stable0 ch.mig0
  p1 : proj ch'.stable1 ch'.mig1 = proj ch.stable1 ch.mig1
  s0 : ch'.stable0 = (if isDst && part == 0 then absorb ch.stable0 ranges else ch.stable0).map compact
  s1 : ch'.stable1 = (if isDst && part != 0 then absorb ch.stable1 ranges else ch.stable1).map compact

theorem chunkStep_strip (ranges : RangeList) (mm : MigMeta) (part : Nat) {ch : Chunk}
    (hfix : ∀ e ∈ ch.migs, compact e.ranges = e.ranges)
    (h : HalfDisj ch.stable0 ch.mig0 ∧ HalfDisj ch.stable1 ch.mig1) :
    ChunkStep ranges false part ch (compactChunk (strip ranges mm ch)) := by
  have f0 : ∀ e ∈ ch.mig0, compact e.ranges = e.ranges := fun e he => hfix e (by simp [Chunk.migs, he])
  have f1 : ∀ e ∈ ch.mig1, compact e.ranges = e.ranges := fun e he => hfix e (by simp [Chunk.migs, he])
  obtain ⟨a0, b0⟩ := half_strip_compact ranges mm f0 h.1
  obtain ⟨a1, b1⟩ := half_strip_compact ranges mm f1 h.2
  exact ⟨a0, a1, b0, b1, by simp [compactChunk, strip], by simp [compactChunk, strip]⟩

theorem chunkStep_land (ranges : RangeList) (mm : MigMeta) (part : Nat) {ch : Chunk}
    (hfix : ∀ e ∈ ch.migs, compact e.ranges = e.ranges)
    (h : HalfDisj ch.stable0 ch.mig0 ∧ HalfDisj ch.stable1 ch.mig1)
    (htw : (part = 0 ∧ (strip ranges mm ch).mig0.any (isTwin ranges mm) = true) ∨
           (part ≠ 0 ∧ (strip ranges mm ch).mig1.any (isTwin ranges mm) = true)) :
    ChunkStep ranges true part ch (compactChunk (land ranges mm part (strip ranges mm ch))) := by
  have f0 : ∀ e ∈ ch.mig0, compact e.ranges = e.ranges := fun e he => hfix e (by simp [Chunk.migs, he])
  have f1 : ∀ e ∈ ch.mig1, compact e.ranges = e.ranges := fun e he => hfix e (by simp [Chunk.migs, he])
  rcases htw with ⟨hp, hany⟩ | ⟨hp, hany⟩
  · obtain ⟨a0, b0⟩ := half_land_compact ranges mm f0 h.1 hany
    obtain ⟨a1, b1⟩ := half_strip_compact ranges mm f1 h.2
    subst hp
    exact ⟨a0, a1, b0, b1, by simp [compactChunk, land, strip], by simp [compactChunk, land, strip]⟩
  · obtain ⟨a0, b0⟩ := half_strip_compact ranges mm f0 h.1
    obtain ⟨a1, b1⟩ := half_land_compact ranges mm f1 h.2 hany
    refine ⟨?_, ?_, ?_, ?_, ?_, ?_⟩
    · simpa [compactChunk, land, strip, hp] using a0
    · simpa [compactChunk, land, strip, hp] using a1
    · simpa [compactChunk, land, strip, hp] using b0
    · simpa [compactChunk, land, strip, hp] using b1
    · simp [compactChunk, land, strip, hp]
    · simp [compactChunk, land, strip, hp]

/-- every chunk of the committed cluster is related to the chunk at the same index before -/
theorem commitRes_chunkStep {c : Cluster} (hfix : ∀ m ∈ c.migs, compact m.ranges = m.ranges)
    (hproj : ProjInv c) {ranges : RangeList} {mm : MigMeta} {A B : List Chunk} {dch : Chunk}
    (hdec : c.chunks = A ++ dch :: B)
    (htw : (mm.dstPart = 0 ∧ (strip ranges mm dch).mig0.any (isTwin ranges mm) = true) ∨
           (mm.dstPart ≠ 0 ∧ (strip ranges mm dch).mig1.any (isTwin ranges mm) = true))
    {i : Nat} {ch' : Chunk} (h : (commitRes ranges mm A dch B)[i]? = some ch') :
    ∃ ch, c.chunks[i]? = some ch ∧ ChunkStep ranges (decide (i = A.length)) mm.dstPart ch ch' := by
  rw [commitRes_eq] at h
  obtain ⟨ch, hch, hc⟩ := getElem?_map_mid _ (fun c => compactChunk (land ranges mm mm.dstPart (strip ranges mm c)))
    A B dch i ch' h
  rw [← hdec] at hch
  have hmem : ch ∈ c.chunks := List.mem_of_getElem? hch
  have hfix' : ∀ e ∈ ch.migs, compact e.ranges = e.ranges := by
    intro e he
    apply hfix e
    unfold Cluster.migs
    exact List.mem_flatMap.mpr ⟨ch, hmem, he⟩
  refine ⟨ch, hch, ?_⟩
  rcases hc with ⟨hne, rfl⟩ | ⟨heq, rfl⟩
  · have : decide (i = A.length) = false := by simpa using hne
    rw [this]
    exact chunkStep_strip ranges mm mm.dstPart hfix' (hproj ch hmem)
  · have : decide (i = A.length) = true := by simpa using heq
    rw [this]
    have hd : ch = dch := by
      rw [hdec, heq, getElem?_append_mid] at hch
      exact (Option.some.inj hch).symm
    subst hd
    exact chunkStep_land ranges mm mm.dstPart hfix' (hproj ch hmem) htw

end Um.Broker.Scale
