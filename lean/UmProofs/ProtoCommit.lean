import UmModel.ProtoCommit
import UmProofs.ProtoTask
import UmProofs.BrokerViewPartA
import UmProofs.BrokerScaleCommitB
import UmProofs.BrokerScaleFailover
import UmProofs.BrokerSlotsPlanJ
/-!
Bridge between the wire model (C17) and the broker model (C10/C01): the descriptor of a stored
migration entry, as served and reported, is well-formed for the wire, survives it, and is the
argument triple `commit_migration` accepts.
-/
namespace Um.Proto
open Um Um.Slots Um.Broker Um.Broker.Scale

theorem map_toPair_ofPair (l : List (Nat × Nat)) : (l.map ofPair).map toPair = l := by
  induction l with
  | nil => rfl
  | cons x xs ih => simp [ofPair, toPair, ih]

/-! ## the broker's normal form is the wire model's normal form (no wrap below `SLOT_NUM`) -/

theorem normal_allLe : ∀ (l : List (Nat × Nat)), NormalRanges l → ∀ r ∈ l, r.1 ≤ r.2 := by
  intro l
  induction l with
  | nil => intro _ r hr; cases hr
  | cons x xs ih =>
    intro h r hr
    cases xs with
    | nil => simp only [List.mem_singleton] at hr; subst hr; exact h
    | cons y ys =>
      rcases List.mem_cons.mp hr with rfl | hr
      · exact h.1
      · exact ih h.2.2 r hr

theorem sep_of_normal : ∀ (l : List (Nat × Nat)), NormalRanges l → (∀ r ∈ l, r.2 < u64Max) → Sep (l.map ofPair) := by
  intro l
  induction l with
  | nil => intros; trivial
  | cons x xs ih =>
    intro h hb
    cases xs with
    | nil => exact h
    | cons y ys =>
      have hx := hb x (List.mem_cons_self ..)
      refine ⟨h.1, ?_, ?_, ih h.2.2 (fun r hr => hb r (List.mem_cons_of_mem _ hr))⟩
      · have := h.1; have := h.2.1; simp only [ofPair]; omega
      · have := h.2.1
        simp only [ofPair, wrapSucc]
        rw [Nat.mod_eq_of_lt (by omega)]
        exact this

theorem normal_length : ∀ (l : List (Nat × Nat)) (B lo : Nat), NormalRanges l → (∀ r ∈ l, r.2 < B) →
    (∀ r ∈ l.head?, lo ≤ r.1) → l.length ≤ B - lo := by
  intro l
  induction l with
  | nil => intro B lo _ _ _; simp
  | cons x xs ih =>
    intro B lo h hb hlo
    have hx := hb x (List.mem_cons_self ..)
    have hl : lo ≤ x.1 := hlo x (by simp)
    cases xs with
    | nil => have := h; simp only [NormalRanges] at this; simp; omega
    | cons y ys =>
      have := ih B (x.2 + 2) h.2.2 (fun r hr => hb r (List.mem_cons_of_mem _ hr))
        (by intro r hr; simp at hr; subst hr; have := h.2.1; omega)
      have := h.1
      simp only [List.length_cons] at *
      omega

theorem slotNum_lt : Um.Broker.SLOT_NUM < u64Max := by decide

/-- every range of a pending (migrating) entry lies below `SLOT_NUM` -/
theorem pending_ranges_lt {c : Cluster} (hs : SlotInv c) {m : MigStore} (hm : m ∈ c.migs) (hmig : m.isMigrating = true) :
    ∀ r ∈ m.ranges, r.2 < Um.Broker.SLOT_NUM := by
  intro r hr
  obtain ⟨ch, hch, hmem⟩ := Cluster.mem_migs.mp hm
  have hn := ((hs.1 ch hch).2 m (by simpa [Chunk.migs] using hmem)).1
  have hle := normal_allLe m.ranges hn r hr
  have h1 : r.2 ∈ rangeSlots r := by
    unfold rangeSlots
    rw [List.mem_range']
    exact ⟨r.2 - r.1, by omega, by omega⟩
  have h2 : r.2 ∈ slotsOf m.ranges := by
    unfold slotsOf
    exact List.mem_flatMap.mpr ⟨r, hr, h1⟩
  have h3 : r.2 ∈ c.ownedSlots := by
    unfold Cluster.ownedSlots
    refine List.mem_flatMap.mpr ⟨ch, hch, ?_⟩
    refine List.mem_append.mpr (Or.inr ?_)
    refine List.mem_flatMap.mpr ⟨m, ?_, h2⟩
    simp only [List.mem_filter]
    exact ⟨by simpa [Chunk.migs] using hmem, hmig⟩
  have := hs.2.mem_iff.mp h3
  exact List.mem_range.mp this

/-- the migrating twin of any stored entry (itself if it is the migrating one) -/
theorem twin_of_entry {c : Cluster} (ht : TwinInv c) {m : MigStore} (hm : m ∈ c.migs) :
    ∃ m₀ ∈ c.migs, m₀.isMigrating = true ∧ m₀.ranges = m.ranges ∧ m₀.mm = m.mm := by
  cases hmig : m.isMigrating with
  | true => exact ⟨m, hm, hmig, rfl, rfl⟩
  | false =>
    have h1 : (m.ranges, m.mm) ∈ (c.migs.filter (fun m => !m.isMigrating)).map fun m => (m.ranges, m.mm) := by
      refine List.mem_map.mpr ⟨m, ?_, rfl⟩
      simp [List.mem_filter, hm, hmig]
    have h2 := ht.1.mem_iff.mpr h1
    obtain ⟨m₀, hm₀, heq⟩ := List.mem_map.mp h2
    simp only [List.mem_filter] at hm₀
    simp only [Prod.mk.injEq] at heq
    exact ⟨m₀, hm₀.1, hm₀.2, heq.1, heq.2⟩

/-- the descriptor of a stored entry, with either tag kind -/
def entryDesc (enc : String → Str) (name : Str) (chunks : List Chunk) (m : MigStore) : TaskMeta :=
  descOf enc name (toSlotRangeP chunks m)

theorem entryDesc_ranges (enc : String → Str) (name : Str) (chunks : List Chunk) (m : MigStore) :
    (entryDesc enc name chunks m).slotRange.ranges = m.ranges.map ofPair := by
  simp [entryDesc, descOf, ofViewSlotRange, toSlotRangeP]

theorem entryDesc_tag (enc : String → Str) (name : Str) (chunks : List Chunk) (m : MigStore) :
    (entryDesc enc name chunks m).slotRange.tag =
      if m.isMigrating then .migrating (ofMigInfo enc (migInfoP chunks m.mm))
      else .importing (ofMigInfo enc (migInfoP chunks m.mm)) := by
  simp only [entryDesc, descOf, ofViewSlotRange, toSlotRangeP]
  cases m.isMigrating <;> rfl

theorem commitArgs_entryDesc (enc : String → Str) (name : Str) (chunks : List Chunk) (m : MigStore) :
    commitArgs (entryDesc enc name chunks m) = (m.ranges, m.mm.epoch, false) := by
  unfold commitArgs
  rw [entryDesc_tag, entryDesc_ranges, map_toPair_ofPair]
  cases m.isMigrating <;> simp [ofMigInfo, migInfoP]

/-- the descriptor of any stored entry is well-formed for the wire -/
theorem entryDesc_wf {c : Cluster} (ht : TwinInv c) (hs : SlotInv c) {m : MigStore} (hm : m ∈ c.migs)
    (enc : String → Str) (name : Str) (hn : validClusterName name = true) (he : m.mm.epoch ≤ u64Max) :
    WfTask (entryDesc enc name c.chunks m) := by
  obtain ⟨m₀, hm₀, hmig₀, hr₀, _⟩ := twin_of_entry ht hm
  have hlt : ∀ r ∈ m.ranges, r.2 < Um.Broker.SLOT_NUM := by rw [← hr₀]; exact pending_ranges_lt hs hm₀ hmig₀
  obtain ⟨ch, hch, hmem⟩ := Cluster.mem_migs.mp hm
  have hn' := ((hs.1 ch hch).2 m (by simpa [Chunk.migs] using hmem)).1
  have hsl := slotNum_lt
  refine ⟨hn, ⟨?_, ?_, ?_⟩, ?_⟩
  · rw [entryDesc_ranges]
    exact compact_of_sep _ (sep_of_normal m.ranges hn' (fun r hr => by have := hlt r hr; omega))
  · rw [entryDesc_ranges, List.length_map]
    have := normal_length m.ranges Um.Broker.SLOT_NUM 0 hn' hlt (fun _ _ => Nat.zero_le _)
    omega
  · rw [entryDesc_ranges]
    intro r hr
    obtain ⟨p, hp, rfl⟩ := List.mem_map.mp hr
    have h1 := hlt p hp
    have h2 := normal_allLe m.ranges hn' p hp
    simp only [ofPair]; omega
  · rw [entryDesc_tag]
    cases m.isMigrating <;> simpa [Tag.EpochOk, ofMigInfo, migInfoP] using he

/-- **the reported descriptor commits its migration** -/
theorem task_commit {s : Store} {name : String} {c : Cluster} (hf : s.findCluster name = some c)
    (hp : PosInv c) (ht : TwinInv c) (hs : SlotInv c) {m : MigStore} (hm : m ∈ c.migs)
    (enc : String → Str) (nm : Str) (hn : validClusterName nm = true) (he : m.mm.epoch ≤ u64Max)
    (hsp : (entryDesc enc nm c.chunks m).slotRange.tag.SpaceFree) :
    toSlotRange m c.chunks = R.ok (toSlotRangeP c.chunks m) ∧
    infoMgrDecode (infoMgrEncode (entryDesc enc nm c.chunks m)) = some (entryDesc enc nm c.chunks m) ∧
    commitArgs (entryDesc enc nm c.chunks m) = (m.ranges, m.mm.epoch, false) ∧
    ∃ m₀ ∈ c.migs, m₀.isMigrating = true ∧ m₀.ranges = m.ranges ∧ m₀.mm = m.mm ∧
      ∃ A dch B t, c.chunks = A ++ dch :: B ∧ A.length = m.mm.dstChunk ∧
        t.isMigrating = false ∧ t.ranges = m.ranges ∧ t.mm = m.mm ∧
        ((m.mm.dstPart = 0 ∧ t ∈ dch.mig0) ∨ (m.mm.dstPart = 1 ∧ t ∈ dch.mig1)) ∧
        commitMigrationCore s name m.ranges m.mm.epoch false =
          ((s.setCluster { c with chunks := commitRes m.ranges m.mm A dch B, epoch := s.globalEpoch + 1 }).bump,
            R.ok ()) := by
  obtain ⟨ch, hch, hmem⟩ := Cluster.mem_migs.mp hm
  have hb := posInv_bounds c hp ch hch m (by simpa [Chunk.migs] using hmem)
  refine ⟨toSlotRange_ok c.chunks m hb, infoMgr_rt _ (entryDesc_wf ht hs hm enc nm hn he) hsp,
    commitArgs_entryDesc enc nm c.chunks m, ?_⟩
  obtain ⟨m₀, hm₀, hmig₀, hr₀, hmm₀⟩ := twin_of_entry ht hm
  refine ⟨m₀, hm₀, hmig₀, hr₀, hmm₀, ?_⟩
  have := commitCore_pending hf (commitInv_of_invs hp ht hs) hm₀ hmig₀
  rw [hr₀, hmm₀] at this
  exact this

theorem task_commit_none (s : Store) (name : String) (t : TaskMeta) (ht : t.slotRange.tag = .none)
    (c : Cluster) (hf : s.findCluster name = some c) :
    (commitArgs t).2.2 = true ∧
    commitMigrationCore s name (commitArgs t).1 (commitArgs t).2.1 (commitArgs t).2.2 = (s, R.err Err.invalidMigrationTask) := by
  have h : (commitArgs t).2.2 = true := by simp [commitArgs, ht]
  exact ⟨h, by unfold commitMigrationCore; simp [hf, h]⟩

end Um.Proto
