import UmProofs.NodesAdv
import UmProofs.Route
/-!
C14, agreement with routing: for a slot that is not under migration the proxy advertises itself iff
`routeSlot` executes the command locally, and otherwise advertises the `MOVED` target.
-/
namespace Um.Nodes
open Um Um.Route Um.RouteCmd Um.Crc16

/-- the routing decision of a proxy with an installed map as a function of the two lookups
(same statement as `routeSlot_install` of C09) -/
theorem routeSlot_view (cfg : RouteCfg) (vw : View) (rt : Option Nat) (s : Nat) (hname : vw.name ≠ "") :
    routeSlot cfg (vw.clusterMap cfg) rt (some s) =
      match lookup (flatRanges vw.loc) s with
      | some n => .exec n
      | none =>
        match lookup (flatRanges vw.peer) s with
        | some a =>
          if cfg.activeRedirection then sendRemoteDirectly cfg (vw.clusterMap cfg) rt s a
          else .moved s a
        | none => .errSlotNotCovered s := by
  unfold View.clusterMap
  generalize flatRanges vw.loc = loc
  generalize flatRanges vw.peer = peer
  have hne : (ClusterMap.install cfg vw.name loc peer).clusterName.isEmpty = false := by
    cases h : (ClusterMap.install cfg vw.name loc peer).clusterName.isEmpty with
    | false => rfl
    | true => exact absurd (String.isEmpty_iff.mp h) hname
  unfold routeSlot
  rw [hne]
  simp only [Bool.false_eq_true, if_false]
  have hl : (ClusterMap.install cfg vw.name loc peer).localMap.get s = lookup loc s := get_new_eq_lookup loc s
  have hp : (ClusterMap.install cfg vw.name loc peer).peerMap.get s = lookup peer s := get_new_eq_lookup peer s
  have hr : (ClusterMap.install cfg vw.name loc peer).remoteBackend.isSome = cfg.activeRedirection := by
    simp only [ClusterMap.install]; cases cfg.activeRedirection <;> rfl
  cases hls : lookup loc s with
  | some n =>
    have hc := install_localNodes_contains (cfg := cfg) (name := vw.name) (peer := peer) (hl.trans hls)
    rw [hl, hls]; simp only; rw [hc]; rfl
  | none =>
    rw [hl, hls, hp, hr]
    cases lookup peer s <;> simp

/-! ## membership in `triples` -/

theorem mem_triples (vw : View) (t : Triple) :
    t ∈ triples vw ↔ ∃ n ∈ allNodes vw, ∃ sr ∈ n.2, ∃ r ∈ sr.ranges, t = (n.1, sr, r) := by
  unfold triples
  simp only [List.mem_flatMap, List.mem_map]
  constructor
  · rintro ⟨n, hn, sr, hsr, r, hr, e⟩
    exact ⟨n, hn, sr, hsr, r, hr, e.symm⟩
  · rintro ⟨n, hn, sr, hsr, r, hr, e⟩
    exact ⟨n, hn, sr, hsr, r, hr, e.symm⟩

theorem mem_triples_range {vw : View} {t : Triple} (h : t ∈ triples vw) : t.2.2 ∈ t.2.1.ranges := by
  obtain ⟨n, _, sr, _, r, hr, e⟩ := (mem_triples vw t).mp h
  rw [e]; exact hr

/-- a local `SlotRange` gives a triple under the announce address -/
theorem triple_of_local {vw : View} {ln : Addr × List SlotRange} {sr : SlotRange} {r : Nat × Nat}
    (hln : ln ∈ vw.loc) (hsr : sr ∈ ln.2) (hr : r ∈ sr.ranges) : (vw.me, sr, r) ∈ triples vw := by
  rw [mem_triples]
  refine ⟨(vw.me, localSlots vw), by simp [allNodes], sr, ?_, r, hr, rfl⟩
  show sr ∈ localSlots vw
  unfold localSlots
  exact List.mem_flatMap.mpr ⟨ln, hln, hsr⟩

theorem triple_of_peer {vw : View} {pn : Addr × List SlotRange} {sr : SlotRange} {r : Nat × Nat}
    (hpn : pn ∈ vw.peer) (hsr : sr ∈ pn.2) (hr : r ∈ sr.ranges) : (pn.1, sr, r) ∈ triples vw := by
  rw [mem_triples]
  exact ⟨pn, by simp [allNodes, hpn], sr, hsr, r, hr, rfl⟩

/-- a triple under the announce address comes from a local node when no peer carries that address -/
theorem local_of_triple {vw : View} (hself : ∀ n ∈ vw.peer, n.1 ≠ vw.me) {t : Triple} (h : t ∈ triples vw)
    (hme : t.1 = vw.me) : ∃ ln ∈ vw.loc, t.2.1 ∈ ln.2 := by
  obtain ⟨n, hn, sr, hsr, r, hr, e⟩ := (mem_triples vw t).mp h
  simp only [allNodes, List.mem_cons] at hn
  rcases hn with hn | hn
  · subst hn
    have hsr' : sr ∈ localSlots vw := hsr
    unfold localSlots at hsr'
    obtain ⟨ln, hln, hs⟩ := List.mem_flatMap.mp hsr'
    exact ⟨ln, hln, by rw [e]; exact hs⟩
  · rw [e] at hme
    exact absurd hme (hself n hn)

/-- a triple under another address comes from the peer node with that address -/
theorem peer_of_triple {vw : View} {t : Triple} (h : t ∈ triples vw) (hme : t.1 ≠ vw.me) :
    ∃ pn ∈ vw.peer, pn.1 = t.1 ∧ t.2.1 ∈ pn.2 := by
  obtain ⟨n, hn, sr, hsr, r, hr, e⟩ := (mem_triples vw t).mp h
  simp only [allNodes, List.mem_cons] at hn
  rcases hn with hn | hn
  · subst hn
    rw [e] at hme
    exact absurd rfl hme
  · exact ⟨n, hn, by rw [e], by rw [e]; exact hsr⟩

theorem covers_flat (srs : List SlotRange) (s : Nat) :
    covers (srs.flatMap (·.ranges)) s = true ↔ ∃ sr ∈ srs, ∃ r ∈ sr.ranges, inRange r s = true := by
  simp only [covers, List.any_eq_true, List.mem_flatMap, inRange]
  constructor
  · rintro ⟨r, ⟨sr, hsr, hr⟩, h⟩
    exact ⟨sr, hsr, r, hr, h⟩
  · rintro ⟨sr, hsr, r, hr, h⟩
    exact ⟨r, ⟨sr, hsr, hr⟩, h⟩

theorem mem_flatRanges (m : NodeSlots) (e : Addr × RangeL) :
    e ∈ flatRanges m ↔ ∃ n ∈ m, e = (n.1, n.2.flatMap (·.ranges)) := by
  unfold flatRanges
  simp only [List.mem_map]
  constructor
  · rintro ⟨n, hn, h⟩; exact ⟨n, hn, h.symm⟩
  · rintro ⟨n, hn, h⟩; exact ⟨n, hn, h.symm⟩

/-- a stable slot owned by the proxy itself is executed on one of its nodes -/
theorem route_stable_local {vw : View} {s : Nat} (hs : s < SLOT_NUM) (cfg : RouteCfg) (rt : Option Nat) (hname : vw.name ≠ "")
    (hself : ∀ n ∈ vw.peer, n.1 ≠ vw.me) {o : Triple} (ho : o ∈ triples vw) (hown : owns s o = true)
    (hme : o.1 = vw.me) :
    ∃ n, routeSlot cfg (vw.clusterMap cfg) rt (some s) = .exec n ∧ n ∈ vw.loc.map (·.1) := by
  obtain ⟨ln, hln, hsr⟩ := local_of_triple hself ho hme
  have hor : inRange o.2.2 s = true := by
    simp only [owns, Bool.and_eq_true] at hown; exact hown.2
  have hcov : covers (ln.2.flatMap (·.ranges)) s = true :=
    (covers_flat ln.2 s).mpr ⟨o.2.1, hsr, o.2.2, mem_triples_range ho, hor⟩
  have hsome : (lookup (flatRanges vw.loc) s).isSome = true :=
    (lookup_isSome_iff _ _).mpr ⟨hs, (ln.1, ln.2.flatMap (·.ranges)), (mem_flatRanges _ _).mpr ⟨ln, hln, rfl⟩, hcov⟩
  obtain ⟨n, hn⟩ := Option.isSome_iff_exists.mp hsome
  refine ⟨n, ?_, ?_⟩
  · rw [routeSlot_view cfg vw rt s hname, hn]
  · obtain ⟨_, rs, hm, _⟩ := lookup_some hn
    obtain ⟨ln', hln', e⟩ := (mem_flatRanges _ _).mp hm
    simp only [List.mem_map]
    exact ⟨ln', hln', by rw [Prod.mk.injEq] at e; exact e.1.symm⟩

section route
variable {vw : View} (hp : Partition vw) {s : Nat} (hs : s < SLOT_NUM)
include hp hs

/-- nobody but the owner lists a stable slot -/
theorem stable_lister_is_owner {o : Triple} (ho : o ∈ triples vw) (hown : owns s o = true)
    (hst : o.2.1.tag = .none) {t : Triple} (ht : t ∈ triples vw) (hr : inRange t.2.2 s = true) : t = o := by
  by_cases hi : t.2.1.tag = .importing
  · exact absurd (imports_of s t hi hr) (fun h => no_importer_of_stable hp hs ho hown hst t ht h)
  · exact hp.owner_unique hs ht (owns_of s t hi hr) ho hown

/-- a stable slot owned by a peer is redirected to that peer -/
theorem route_stable_peer (cfg : RouteCfg) (rt : Option Nat) (hname : vw.name ≠ "")
    {o : Triple} (ho : o ∈ triples vw) (hown : owns s o = true) (hst : o.2.1.tag = .none)
    (hme : o.1 ≠ vw.me) :
    routeSlot cfg (vw.clusterMap cfg) rt (some s) =
      if cfg.activeRedirection then sendRemoteDirectly cfg (vw.clusterMap cfg) rt s o.1 else .moved s o.1 := by
  have hor : inRange o.2.2 s = true := by
    simp only [owns, Bool.and_eq_true] at hown; exact hown.2
  -- no local node lists the slot
  have hloc : lookup (flatRanges vw.loc) s = none := by
    cases h : lookup (flatRanges vw.loc) s with
    | none => rfl
    | some a =>
      obtain ⟨_, rs, hm, hc⟩ := lookup_some h
      obtain ⟨ln, hln, e⟩ := (mem_flatRanges _ _).mp hm
      rw [Prod.mk.injEq] at e
      rw [e.2] at hc
      obtain ⟨sr, hsr, r, hr, hin⟩ := (covers_flat ln.2 s).mp hc
      have := stable_lister_is_owner hp hs ho hown hst (triple_of_local hln hsr hr) hin
      rw [← this] at hme
      exact absurd rfl hme
  -- exactly the owner's proxy lists it among the peers
  obtain ⟨pn, hpn, hpa, hsr⟩ := peer_of_triple ho hme
  have hpeer : lookup (flatRanges vw.peer) s = some o.1 := by
    apply lookup_unique hs
    · refine ⟨pn.2.flatMap (·.ranges), (mem_flatRanges _ _).mpr ⟨pn, hpn, by rw [hpa]⟩, ?_⟩
      exact (covers_flat pn.2 s).mpr ⟨o.2.1, hsr, o.2.2, mem_triples_range ho, hor⟩
    · intro n hn hc
      obtain ⟨pn', hpn', e⟩ := (mem_flatRanges _ _).mp hn
      rw [e] at hc ⊢
      obtain ⟨sr, hsr', r, hr, hin⟩ := (covers_flat pn'.2 s).mp hc
      have := stable_lister_is_owner hp hs ho hown hst (triple_of_peer hpn' hsr' hr) hin
      rw [← this]
  rw [routeSlot_view cfg vw rt s hname, hloc, hpeer]

end route

/-! ## the phase map comes from the local tasks -/

/-- `MigrationMap::get_states` has a key only for the range list of a local migrating / importing
`SlotRange` (`update_from_old_task_map` keeps exactly the tasks of the tagged local ranges) -/
def StatesOfLocalTasks (vw : View) (states : States) : Prop :=
  ∀ rl, states rl ≠ none → ∃ sr ∈ localSlots vw, sr.tag ≠ .none ∧ sr.ranges = rl

/-- a proxy that is neither source nor destination of a migration has no phase for it -/
theorem bystander_no_state {vw : View} (hp : Partition vw) {s : Nat} (hs : s < SLOT_NUM) (states : States)
    (hst : StatesOfLocalTasks vw states) {o u : Triple} (ho : o ∈ triples vw) (hown : owns s o = true)
    (hmig : o.2.1.tag = .migrating) (hu : u ∈ triples vw) (himp : imports s u = true)
    (hos : o.1 ≠ vw.me) (hus : u.1 ≠ vw.me) : states o.2.1.ranges = none := by
  have hor : inRange o.2.2 s = true := by
    simp only [owns, Bool.and_eq_true] at hown; exact hown.2
  cases hc : states o.2.1.ranges with
  | none => rfl
  | some st =>
    exfalso
    obtain ⟨sr, hsr, htag, hrl⟩ := hst o.2.1.ranges (by rw [hc]; simp)
    have hr : o.2.2 ∈ sr.ranges := by rw [hrl]; exact mem_triples_range ho
    have ht : (vw.me, sr, o.2.2) ∈ triples vw := by
      rw [mem_triples]
      exact ⟨(vw.me, localSlots vw), by simp [allNodes], sr, hsr, o.2.2, hr, rfl⟩
    by_cases hi : sr.tag = .importing
    · have e := countP_unique _ _ (hp.imp_of_mig s hs o ho hmig hor) _ _ ht (imports_of s _ hi hor) hu himp
      rw [← e] at hus
      exact hus rfl
    · have e := hp.owner_unique hs ht (owns_of s _ hi hor) ho hown
      rw [← e] at hos
      exact hos rfl

end Um.Nodes
