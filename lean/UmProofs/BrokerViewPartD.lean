import UmProofs.BrokerViewPartC
/-!
# C01, view layer, part D: twins, and `partition_of_inv`
-/
namespace Um.Broker
open Um Um.Slots

/-! ## what `TwinInv` says, symmetrically in the two directions -/

theorem bv_filter_isMig_true (l : List MigStore) :
    l.filter (fun m => m.isMigrating == true) = l.filter (·.isMigrating) := by
  apply List.filter_congr; intro m _; simp

theorem bv_filter_isMig_false (l : List MigStore) :
    l.filter (fun m => m.isMigrating == false) = l.filter (fun m => !m.isMigrating) := by
  apply List.filter_congr; intro m _; cases m.isMigrating <;> rfl

/-- pending entries of one direction have pairwise distinct `(ranges, epoch)` -/
theorem twin_nodup (cl : Cluster) (hT : TwinInv cl) (b : Bool) :
    ((cl.migs.filter fun m => m.isMigrating == b).map fun m => (m.ranges, m.mm.epoch)).Nodup := by
  cases b with
  | true => rw [bv_filter_isMig_true]; exact hT.2
  | false =>
    rw [bv_filter_isMig_false]
    have hp := hT.1.map (fun x : RangeList × MigMeta => (x.1, x.2.epoch))
    simp only [List.map_map, Function.comp_def] at hp
    exact hp.nodup_iff.mp hT.2

/-- every pending entry has a stored counterpart of the other direction with the same ranges and meta -/
theorem twin_exists (cl : Cluster) (hT : TwinInv cl) (m : MigStore) (hm : m ∈ cl.migs) :
    ∃ m' ∈ cl.migs, m'.isMigrating = !m.isMigrating ∧ m'.ranges = m.ranges ∧ m'.mm = m.mm := by
  cases hb : m.isMigrating with
  | true =>
    have h1 : (m.ranges, m.mm) ∈ (cl.migs.filter (·.isMigrating)).map fun m => (m.ranges, m.mm) :=
      List.mem_map.mpr ⟨m, List.mem_filter.mpr ⟨hm, hb⟩, rfl⟩
    have h2 := hT.1.mem_iff.mp h1
    obtain ⟨m', hm', heq⟩ := List.mem_map.mp h2
    obtain ⟨hm'1, hm'2⟩ := List.mem_filter.mp hm'
    simp only [Prod.mk.injEq] at heq
    exact ⟨m', hm'1, by simpa using hm'2, heq.1, heq.2⟩
  | false =>
    have h1 : (m.ranges, m.mm) ∈ (cl.migs.filter (fun m => !m.isMigrating)).map fun m => (m.ranges, m.mm) :=
      List.mem_map.mpr ⟨m, List.mem_filter.mpr ⟨hm, by simp [hb]⟩, rfl⟩
    have h2 := hT.1.mem_iff.mpr h1
    obtain ⟨m', hm', heq⟩ := List.mem_map.mp h2
    obtain ⟨hm'1, hm'2⟩ := List.mem_filter.mp hm'
    simp only [Prod.mk.injEq] at heq
    exact ⟨m', hm'1, by simpa using hm'2, heq.1, heq.2⟩

theorem bv_countP_le_one {α β} [DecidableEq β] (l : List α) (g : α → β) (h : (l.map g).Nodup) (b : β) :
    l.countP (fun x => g x == b) ≤ 1 := by
  have h1 := List.nodup_iff_count.mp h b
  rw [List.count, List.countP_map] at h1
  exact h1

/-- the twin predicate on stored entries -/
def isTwinEntry (chunks : List Chunk) (m m' : MigStore) : Bool :=
  (m'.isMigrating == !m.isMigrating) && (m'.ranges == m.ranges) && (migInfoP chunks m'.mm == migInfoP chunks m.mm)

/-- **exactly one twin** among the stored entries, even when twins are compared by the *served*
meta (epoch and addresses) instead of the stored one (epoch and positions) -/
theorem twin_count (cl : Cluster) (hT : TwinInv cl) (m : MigStore) (hm : m ∈ cl.migs) :
    cl.migs.countP (isTwinEntry cl.chunks m) = 1 := by
  have hge : 0 < cl.migs.countP (isTwinEntry cl.chunks m) := by
    obtain ⟨m', hm', h1, h2, h3⟩ := twin_exists cl hT m hm
    exact List.countP_pos_iff.mpr ⟨m', hm', by simp [isTwinEntry, h1, h2, h3]⟩
  have hle : cl.migs.countP (isTwinEntry cl.chunks m) ≤ 1 := by
    have h1 := bv_countP_le_one _ (fun m : MigStore => (m.ranges, m.mm.epoch))
      (twin_nodup cl hT (!m.isMigrating)) (m.ranges, m.mm.epoch)
    rw [List.countP_filter] at h1
    refine Nat.le_trans (List.countP_mono_left ?_) h1
    intro m' _ hq
    simp only [isTwinEntry, Bool.and_eq_true, beq_iff_eq] at hq
    have he : m'.mm.epoch = m.mm.epoch := congrArg MigInfo.epoch hq.2
    simp [hq.1.1, hq.1.2, he]
  omega

/-! ## positions and addresses -/

/-- `PosInv`, per chunk half -/
theorem entry_pos (cl : Cluster) (hP : PosInv cl) (i : Nat) (c : Chunk) (part : Nat)
    (hc : cl.chunks[i]? = some c) (hpart : part < 2) (m : MigStore) (hm : m ∈ migD c part) :
    (if m.isMigrating then (m.mm.srcChunk, m.mm.srcPart) else (m.mm.dstChunk, m.mm.dstPart)) = (i, part) := by
  have : part = 0 ∨ part = 1 := by omega
  rcases this with rfl | rfl
  · exact (hP i c hc).1 m (by simpa [migD] using hm)
  · exact (hP i c hc).2.1 m (by simpa [migD] using hm)

/-- the master node that carries a pending entry is the node its served meta names: source
node/proxy for a migrating-out entry, destination node/proxy for an importing one -/
theorem entry_addr (cl : Cluster) (hP : PosInv cl) (i : Nat) (c : Chunk) (part : Nat)
    (hc : cl.chunks[i]? = some c) (hpart : part < 2) (m : MigStore) (hm : m ∈ migD c part) :
    (masterNode c cl.chunks part).address =
        (if m.isMigrating then (migInfoP cl.chunks m.mm).srcNode else (migInfoP cl.chunks m.mm).dstNode) ∧
    (masterNode c cl.chunks part).proxy =
        (if m.isMigrating then (migInfoP cl.chunks m.mm).srcProxy else (migInfoP cl.chunks m.mm).dstProxy) := by
  have hpos := entry_pos cl hP i c part hc hpart m hm
  cases hb : m.isMigrating <;> simp only [hb, if_true, if_false, Bool.false_eq_true, Prod.mk.injEq] at hpos ⊢ <;>
    simp [migInfoP, masterNode, hpos.1, hpos.2, hc]

theorem mem_migs_of_migD (cl : Cluster) (i : Nat) (c : Chunk) (part : Nat)
    (hc : cl.chunks[i]? = some c) (m : MigStore) (hm : m ∈ migD c part) : m ∈ cl.migs := by
  have hmem : c ∈ cl.chunks := List.mem_of_getElem? hc
  simp only [Cluster.migs, List.mem_flatMap]
  refine ⟨c, hmem, ?_⟩
  unfold migD at hm
  unfold Chunk.migs
  split at hm <;> simp [hm]

/-! ## the twin occurrence in the view -/

/-- the twin slot range a pending entry must have in the view -/
def twinPred (chunks : List Chunk) (m : MigStore) (s : SlotRange) : Bool :=
  s.ranges == m.ranges &&
    s.tag == (if m.isMigrating then Tag.importing (migInfoP chunks m.mm) else Tag.migrating (migInfoP chunks m.mm))

theorem bv_tag_mig_beq (a b : MigInfo) : (Tag.migrating a == Tag.migrating b) = (a == b) := by
  rw [Bool.eq_iff_iff]; simp

theorem bv_tag_imp_beq (a b : MigInfo) : (Tag.importing a == Tag.importing b) = (a == b) := by
  rw [Bool.eq_iff_iff]; simp

theorem twinPred_toSlotRangeP (chunks : List Chunk) (m m' : MigStore) :
    twinPred chunks m (toSlotRangeP chunks m') = isTwinEntry chunks m m' := by
  unfold twinPred toSlotRangeP isTwinEntry
  cases m.isMigrating <;> cases m'.isMigrating <;> simp [bv_tag_mig_beq, bv_tag_imp_beq]

/-- **the twin**: for every stored pending entry the view contains exactly one slot range of the
opposite direction with the same range list and the same served meta, and it sits on the master
node whose address and proxy the meta names for that side -/
theorem twin_occ (cl : Cluster) (hP : PosInv cl) (hT : TwinInv cl) (m : MigStore) (hm : m ∈ cl.migs) :
    ∃ n' s', (viewP cl).occ (twinPred cl.chunks m) = [(n', s')] ∧ n'.replica = false ∧
      n'.address = (if m.isMigrating then (migInfoP cl.chunks m.mm).dstNode else (migInfoP cl.chunks m.mm).srcNode) ∧
      n'.proxy = (if m.isMigrating then (migInfoP cl.chunks m.mm).dstProxy else (migInfoP cl.chunks m.mm).srcProxy) := by
  have hperm := occ_perm cl (twinPred cl.chunks m) (by
    intro rl; unfold twinPred; cases m.isMigrating <;> simp)
  have hlen : ((viewP cl).occ (twinPred cl.chunks m)).length = 1 := by
    rw [hperm.length_eq, List.length_map, ← List.countP_eq_length_filter]
    have : (fun e : VNode × MigStore => twinPred cl.chunks m (toSlotRangeP cl.chunks e.2)) =
        (isTwinEntry cl.chunks m) ∘ (·.2) := by
      funext e; simp [twinPred_toSlotRangeP]
    rw [this, ← List.countP_map, entries_snd]
    exact twin_count cl hT m hm
  obtain ⟨x, hx⟩ := List.length_eq_one_iff.mp hlen
  have hxmem : x ∈ (viewP cl).occ (twinPred cl.chunks m) := by rw [hx]; simp
  have hx2 := hperm.mem_iff.mp hxmem
  obtain ⟨e, he, hxe⟩ := List.mem_map.mp hx2
  obtain ⟨he1, he2⟩ := List.mem_filter.mp he
  rw [twinPred_toSlotRangeP] at he2
  obtain ⟨i, c, part, hc, hpart, hn, hmem⟩ := mem_entries cl e he1
  have haddr := entry_addr cl hP i c part hc hpart e.2 hmem
  simp only [isTwinEntry, Bool.and_eq_true, beq_iff_eq] at he2
  refine ⟨x.1, x.2, hx, ?_, ?_, ?_⟩
  · rw [← hxe, hn]; rfl
  · rw [← hxe]; simp only; rw [hn, haddr.1, he2.1.1, he2.2]
    cases m.isMigrating <;> simp
  · rw [← hxe]; simp only; rw [hn, haddr.2, he2.1.1, he2.2]
    cases m.isMigrating <;> simp

/-! ## the theorem -/

/-- `PartitionView` of the closed form -/
theorem partitionView_viewP (cl : Cluster) (hP : PosInv cl) (hT : TwinInv cl) (hS : SlotInv cl) :
    PartitionView (viewP cl) where
  owned := (viewP_ownedSlots_perm cl).trans hS.2
  replicas := by
    intro n hn hr
    obtain ⟨c, _, h | h | ⟨i, h⟩⟩ := mem_view_nodes cl n hn
    · rw [h] at hr; simp [masterNode] at hr
    · rw [h] at hr; simp [masterNode] at hr
    · rw [h]; rfl
  migrating := by
    intro n hn sr hs info htag
    obtain ⟨i, c, part, hc, hpart, hnode, hsrc⟩ := mem_view_slots cl n sr hn hs
    rcases hsrc with hst | ⟨m, hm, rfl⟩
    · exfalso
      cases hsd : stableD c part <;> simp [hsd, stableSR] at hst
      rw [hst] at htag; simp at htag
    · have hmig : m.isMigrating = true ∧ info = migInfoP cl.chunks m.mm := by
        unfold toSlotRangeP at htag
        cases hb : m.isMigrating <;> simp [hb] at htag
        exact ⟨rfl, htag.symm⟩
      obtain ⟨hb, rfl⟩ := hmig
      have haddr := entry_addr cl hP i c part hc hpart m hm
      simp only [hb, if_true] at haddr
      obtain ⟨n', s', hocc, hrep, ha, hp⟩ := twin_occ cl hP hT m (mem_migs_of_migD cl i c part hc m hm)
      simp only [hb, if_true] at ha hp
      refine ⟨by rw [hnode]; exact haddr.1.symm, by rw [hnode]; exact haddr.2.symm, by rw [hnode]; rfl,
        n', s', ?_, ha, hp, hrep⟩
      have : isImportingOf (toSlotRangeP cl.chunks m).ranges (migInfoP cl.chunks m.mm) = twinPred cl.chunks m := by
        funext s; simp [isImportingOf, twinPred, hb, toSlotRangeP]
      rw [this]; exact hocc
  importing := by
    intro n hn sr hs info htag
    obtain ⟨i, c, part, hc, hpart, hnode, hsrc⟩ := mem_view_slots cl n sr hn hs
    rcases hsrc with hst | ⟨m, hm, rfl⟩
    · exfalso
      cases hsd : stableD c part <;> simp [hsd, stableSR] at hst
      rw [hst] at htag; simp at htag
    · have hmig : m.isMigrating = false ∧ info = migInfoP cl.chunks m.mm := by
        unfold toSlotRangeP at htag
        cases hb : m.isMigrating <;> simp [hb] at htag
        exact ⟨rfl, htag.symm⟩
      obtain ⟨hb, rfl⟩ := hmig
      have haddr := entry_addr cl hP i c part hc hpart m hm
      simp only [hb, if_false, Bool.false_eq_true] at haddr
      obtain ⟨n', s', hocc, hrep, ha, hp⟩ := twin_occ cl hP hT m (mem_migs_of_migD cl i c part hc m hm)
      simp only [hb, if_false, Bool.false_eq_true] at ha hp
      refine ⟨by rw [hnode]; exact haddr.1.symm, by rw [hnode]; exact haddr.2.symm, by rw [hnode]; rfl,
        n', s', ?_, ha, hp, hrep⟩
      have : isMigratingOf (toSlotRangeP cl.chunks m).ranges (migInfoP cl.chunks m.mm) = twinPred cl.chunks m := by
        funext s; simp [isMigratingOf, twinPred, hb, toSlotRangeP]
      rw [this]; exact hocc

/-- **C01, whole-cluster view**: the store invariants imply that the served view is a partition
with unique, correctly placed twins. `cl` is the cluster *after* `limitMigration`. -/
theorem partition_of_inv (cl : Cluster) (v : VCluster) (hP : PosInv cl) (hT : TwinInv cl) (hS : SlotInv cl)
    (hv : clusterStoreToCluster cl = R.ok v) : PartitionView v := by
  rw [clusterStoreToCluster_eq cl hP] at hv
  injection hv with hv
  subst hv
  exact partitionView_viewP cl hP hT hS

end Um.Broker
