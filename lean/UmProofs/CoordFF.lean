import UmProofs.CoordReach
/-!
# C07 — fault-free evaluation of the round functions

`FF st`: the round has not crashed, its fault plan is empty and nothing is delayed.  Then `call`
is `exec` (plus a trace record), which lets the convergence proofs compute with the rounds.
-/
namespace Um.Coord
open Um Um.Broker

structure FF (st : RS) : Prop where
  crashed : st.crashed = false
  faults : st.faults = []
  bag : st.sys.bag = []

theorem setP_static (s : Sys) (q : PState) :
    (s.setP q).bag = s.bag ∧ (s.setP q).limit = s.limit ∧ (s.setP q).compress = s.compress ∧
    (s.setP q).quorum = s.quorum ∧ (s.setP q).broker = s.broker ∧ (s.setP q).served = s.served :=
  ⟨rfl, rfl, rfl, rfl, rfl, rfl⟩

/-- no call touches the bag or the configuration -/
theorem exec_static (s : Sys) (c : Call) (ch : String) :
    (exec s c ch).1.bag = s.bag ∧ (exec s c ch).1.limit = s.limit ∧ (exec s c ch).1.compress = s.compress ∧
    (exec s c ch).1.quorum = s.quorum := by
  cases c with
  | clusterNames off => exact ⟨rfl, rfl, rfl, rfl⟩
  | cluster name => simp only [exec]; split <;> exact ⟨rfl, rfl, rfl, rfl⟩
  | proxyAddrs off => exact ⟨rfl, rfl, rfl, rfl⟩
  | failedProxies => exact ⟨rfl, rfl, rfl, rfl⟩
  | getProxy a => simp only [exec]; split <;> exact ⟨rfl, rfl, rfl, rfl⟩
  | addFailure a r => exact ⟨rfl, rfl, rfl, rfl⟩
  | getFailures => exact ⟨rfl, rfl, rfl, rfl⟩
  | replaceProxy a => simp only [exec]; split <;> exact ⟨rfl, rfl, rfl, rfl⟩
  | commit t =>
    simp only [exec]
    split
    · exact ⟨rfl, rfl, rfl, rfl⟩
    · split
      · exact ⟨rfl, rfl, rfl, rfl⟩
      · split <;> exact ⟨rfl, rfl, rfl, rfl⟩
    · exact ⟨rfl, rfl, rfl, rfl⟩
  | connect a =>
    simp only [exec]
    split
    · split <;> exact ⟨rfl, rfl, rfl, rfl⟩
    · exact ⟨rfl, rfl, rfl, rfl⟩
  | setRepl a e r =>
    simp only [exec]
    split
    · split <;> exact ⟨rfl, rfl, rfl, rfl⟩
    · exact ⟨rfl, rfl, rfl, rfl⟩
  | setCluster a e m =>
    simp only [exec]
    split
    · split <;> exact ⟨rfl, rfl, rfl, rfl⟩
    · exact ⟨rfl, rfl, rfl, rfl⟩
  | infoMgr a =>
    simp only [exec]
    split
    · split <;> exact ⟨rfl, rfl, rfl, rfl⟩
    · exact ⟨rfl, rfl, rfl, rfl⟩
  | ping a =>
    simp only [exec]
    split
    · split <;> exact ⟨rfl, rfl, rfl, rfl⟩
    · exact ⟨rfl, rfl, rfl, rfl⟩

theorem lookupFault_nil (k : Nat) : lookupFault [] k = Fault.none := rfl

theorem tick_ff {st : RS} (h : st.sys.bag = []) : st.tick = st := by
  unfold RS.tick
  cases st with
  | mk sys n faults choices crashed trace issued =>
    cases sys with
    | mk broker limit compress quorum proxies bag served =>
      simp only at h
      subst h
      rfl

/-- fault-free `call` = `exec` -/
theorem call_ff {st : RS} (h : FF st) (c : Call) :
    ∃ ch, (st.call noHook c).2 = some (exec st.sys c ch).2 ∧
      (st.call noHook c).1.sys = (exec st.sys c ch).1 ∧ FF (st.call noHook c).1 := by
  obtain ⟨hc, hf, hb⟩ := h
  cases st with
  | mk sys n faults choices crashed trace issued =>
    simp only at hc hf hb
    subst hc hf
    have ht : (RS.tick ⟨sys, n, [], choices, false, trace, issued ++ [c]⟩) = ⟨sys, n, [], choices, false, trace, issued ++ [c]⟩ :=
      tick_ff hb
    unfold RS.call
    simp only [Bool.false_eq_true, if_false, noHook, List.reverse_nil, List.nil_append, lookupFault_nil, ht]
    unfold RS.deliver
    refine ⟨_, rfl, rfl, ?_⟩
    refine ⟨rfl, rfl, ?_⟩
    simp only [log_sys]
    rw [(exec_static _ _ _).1]
    exact hb

/-- the same for a call that is not `replace_proxy`: the choice is irrelevant -/
theorem call_ff' {st : RS} (h : FF st) (c : Call) (hc : ∀ a, c ≠ .replaceProxy a) :
    (st.call noHook c).2 = some (exec st.sys c "-").2 ∧
      (st.call noHook c).1.sys = (exec st.sys c "-").1 ∧ FF (st.call noHook c).1 := by
  obtain ⟨ch, h1, h2, h3⟩ := call_ff h c
  have : exec st.sys c ch = exec st.sys c "-" := by
    cases c <;> first | rfl | exact absurd rfl (hc _)
  rw [this] at h1 h2
  exact ⟨h1, h2, h3⟩

end Um.Coord
