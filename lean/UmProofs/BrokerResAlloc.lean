import UmProofs.BrokerResLinks
/-!
# The chunk allocator never panics (C12)

* `generateFreeChunks_no_panic`: for every store and every `choice`, with an even positive
  `proxyNum`, none of the four `expect`s of `allocate_chunk` fires (loop invariant `AllocInv`).
* `proxyResourceToChunkStore_no_panic` / `_ok`: slot assignment of freshly allocated chunks.
Link-table facts (`buildLinkTable_link`, `_row_of_chunk`, `_congr`, `freeHostCounts_get_isSome`) are in
`UmProofs/BrokerResLinks.lean`, the `Counts`/`LinkTable` library in `UmProofs/BrokerResCounts.lean`.
-/
namespace Um.Broker
open Um Um.Slots

/-! ## `proxyResourceToChunkStore` -/

theorem createSlots_ok (av rem idx curr : Nat) (h : 0 < curr + av + (if idx < rem then 1 else 0)) :
    createSlots av rem idx curr
      = .ok (fromSingle (curr, curr + av + (if idx < rem then 1 else 0) - 1),
             curr + av + (if idx < rem then 1 else 0)) := by
  unfold createSlots
  have : (curr + av + (if idx < rem then 1 else 0) == 0) = false := by
    simp only [beq_eq_false_iff_ne]; omega
  simp only [this, Bool.false_eq_true, if_false]

/-- the slot-assigning loop neither panics nor fails once the first `end` is positive -/
theorem toChunksWithSlots_ok (av rem : Nat) (l : List (ProxyRes × ProxyRes)) (i curr : Nat)
    (h : 0 < curr + av ∨ (i = 0 ∧ 0 < rem)) :
    ∃ sl : List (Option RangeList × Option RangeList), sl.length = l.length ∧
      toChunksWithSlots av rem l i curr
        = .ok (List.zipWith (fun pr x => mkChunk pr.1 pr.2 x.1 x.2) l sl) := by
  induction l generalizing i curr with
  | nil => exact ⟨[], rfl, rfl⟩
  | cons pr rest ih =>
    obtain ⟨a, b⟩ := pr
    have h1 : 0 < curr + av + (if 2 * i < rem then 1 else 0) := by
      rcases h with h | ⟨rfl, h⟩
      · omega
      · simp only [Nat.mul_zero, h, if_true]; omega
    have h2 : 0 < (curr + av + (if 2 * i < rem then 1 else 0)) + av + (if 2 * i + 1 < rem then 1 else 0) := by
      omega
    obtain ⟨sl, hlen, hsl⟩ := ih (i + 1)
      ((curr + av + (if 2 * i < rem then 1 else 0)) + av + (if 2 * i + 1 < rem then 1 else 0))
      (Or.inl (by omega))
    unfold toChunksWithSlots
    simp only [bind]
    rw [createSlots_ok av rem (2 * i) curr h1]
    simp only []
    rw [createSlots_ok av rem (2 * i + 1) _ h2]
    simp only []
    rw [hsl]
    exact ⟨(_, _) :: sl, by simp [hlen], rfl⟩

theorem proxyResourceToChunkStore_shape (arr : List (ProxyRes × ProxyRes)) (withSlots : Bool) (h : arr ≠ []) :
    ∃ sl : List (Option RangeList × Option RangeList), sl.length = arr.length ∧
      proxyResourceToChunkStore arr withSlots
        = .ok (List.zipWith (fun pr x => mkChunk pr.1 pr.2 x.1 x.2) arr sl) := by
  unfold proxyResourceToChunkStore
  cases withSlots with
  | false =>
    refine ⟨List.replicate arr.length (none, none), List.length_replicate, ?_⟩
    simp only [Bool.false_eq_true, if_false, pure]
    congr 1
    clear h
    induction arr with
    | nil => rfl
    | cons pr rest ih =>
      simp only [List.map_cons, List.length_cons, List.replicate_succ, List.zipWith_cons_cons, ih]
  | true =>
    have hlen : 0 < arr.length := List.length_pos_iff.2 h
    have hm : (arr.length * 2 == 0) = false := by
      simp only [beq_eq_false_iff_ne]; omega
    simp only [if_true, hm, Bool.false_eq_true, if_false]
    apply toChunksWithSlots_ok
    by_cases hav : 0 < SLOT_NUM / (arr.length * 2)
    · exact Or.inl (by rw [Nat.zero_add]; exact hav)
    · refine Or.inr ⟨rfl, ?_⟩
      have : SLOT_NUM / (arr.length * 2) = 0 := Nat.eq_zero_of_not_pos hav
      rw [this]
      simp [SLOT_NUM, Um.Gen.SLOT_NUM]

theorem proxyResourceToChunkStore_no_panic (arr : List (ProxyRes × ProxyRes)) (withSlots : Bool)
    (h : arr ≠ []) : ∀ w, proxyResourceToChunkStore arr withSlots ≠ R.panic w := by
  intro w
  obtain ⟨sl, _, hsl⟩ := proxyResourceToChunkStore_shape arr withSlots h
  rw [hsl]
  intro hh; cases hh

theorem proxyResourceToChunkStore_ok (arr : List (ProxyRes × ProxyRes)) (b : Bool) (chunks : List Chunk)
    (hok : proxyResourceToChunkStore arr b = .ok chunks) :
    ∃ sl : List (Option RangeList × Option RangeList), sl.length = arr.length ∧
      chunks = List.zipWith (fun pr x => mkChunk pr.1 pr.2 x.1 x.2) arr sl := by
  by_cases h : arr = []
  · subst h
    cases b with
    | false =>
      simp only [proxyResourceToChunkStore, Bool.false_eq_true, if_false, pure, List.map_nil, R.ok.injEq] at hok
      exact ⟨[], rfl, by rw [← hok]; rfl⟩
    | true =>
      simp [proxyResourceToChunkStore] at hok
  · obtain ⟨sl, hlen, hsl⟩ := proxyResourceToChunkStore_shape arr b h
    rw [hsl] at hok
    simp only [R.ok.injEq] at hok
    exact ⟨sl, hlen, hok.symm⟩

theorem proxyResourceToChunkStore_length (arr : List (ProxyRes × ProxyRes)) (b : Bool) (chunks : List Chunk)
    (hok : proxyResourceToChunkStore arr b = .ok chunks) : chunks.length = arr.length := by
  obtain ⟨sl, hlen, rfl⟩ := proxyResourceToChunkStore_ok arr b chunks hok
  simp [hlen]

/-! ## one step of `allocate_chunk` -/

theorem allocStep_spec (st : AllocSt) (a b : String) (hne : st.free.isEmpty = false)
    (hmx : (st.free.maxVal == 0) = false)
    (hcand : ∀ ha, st.free.get ha = some st.free.maxVal →
      ∃ row, st.links.row ha = some row ∧
        (row.filter (fun e => e.1 != ha &&
          (match (st.free.dec ha).get e.1 with | some n => n != 0 | none => false))).isEmpty = false) :
    (∀ w, allocStep st a b ≠ .panic w) ∧
    (∀ st', allocStep st a b = .ok st' → ∃ ha hb n, st.free.get ha = some st.free.maxVal ∧ hb ≠ ha ∧
        (st.free.dec ha).get hb = some n ∧ n ≠ 0 ∧ st'.free = (st.free.dec ha).dec hb ∧
        st'.links = (st.links.inc ha hb).inc hb ha) := by
  have triv_bad : ∀ (s : String) (P : AllocSt → Prop),
      (∀ w, (R.badChoice s : R AllocSt) ≠ .panic w) ∧ (∀ st', (R.badChoice s : R AllocSt) = .ok st' → P st') :=
    fun s P => ⟨fun w => nofun, fun st' => nofun⟩
  unfold allocStep
  simp only [bind, pure, expectSome, hne, hmx, Bool.false_eq_true, if_false]
  split
  · exact triv_bad _ _
  · rename_i pa hpa
    split
    · exact triv_bad _ _
    · rename_i hget
      have hget' : st.free.get pa.host = some st.free.maxVal := by simpa using hget
      obtain ⟨row, hrow, hc⟩ := hcand pa.host hget'
      rw [hrow]
      simp only []
      split
      · rename_i hemp
        exact absurd (hemp.symm.trans hc) (by decide)
      split
      · exact triv_bad _ _
      · rename_i pb hpb
        split
        · exact triv_bad _ _
        · split
          · exact triv_bad _ _
          · rename_i fst cnt hfind
            split
            · exact triv_bad _ _
            · refine ⟨fun w => nofun, fun st' h => ?_⟩
              simp only [R.ok.injEq] at h
              subst h
              have hmem := List.mem_of_find?_eq_some hfind
              have hfst := List.find?_some hfind
              simp only [beq_iff_eq] at hfst
              subst hfst
              rw [List.mem_filter] at hmem
              have h2 := hmem.2
              simp only [Bool.and_eq_true, bne_iff_ne, ne_eq] at h2
              obtain ⟨hne', hm⟩ := h2
              cases hg : (st.free.dec pa.host).get pb.host with
              | none => rw [hg] at hm; cases hm
              | some n =>
                rw [hg] at hm
                refine ⟨pa.host, pb.host, n, hget', hne', hg, by simpa using hm, rfl, rfl⟩

/-! ## `removeRedundant` -/

theorem removeRedundant_cases (c : Counts) (e : Nat) :
    removeRedundant c e = .err .noAvailableResource ∨ ∃ c', removeRedundant c e = .ok c' ∧ c'.keys = c.keys := by
  unfold removeRedundant
  simp only []
  split
  · exact Or.inl rfl
  · refine Or.inr ⟨_, rfl, ?_⟩
    split
    · exact Counts.keys_set c _ _
    · rfl

/-! ## the loop invariant of `allocLoop` -/

theorem Counts.mem_unique {c : Counts} (hnd : c.keys.Nodup) {h : String} {n m : Nat}
    (h1 : (h, n) ∈ c) (h2 : (h, m) ∈ c) : n = m := by
  have e1 := (Counts.get_eq_some_iff hnd h n).2 h1
  have e2 := (Counts.get_eq_some_iff hnd h m).2 h2
  rw [e1] at e2
  exact Option.some.inj e2

/-- invariant of the allocation loop with `k` pairs still to be produced -/
structure AllocInv (free : Counts) (links : LinkTable) (k : Nat) : Prop where
  nodup : free.keys.Nodup
  i1 : ∀ h n, (h, n) ∈ free → 2 * n ≤ free.sumVal + 1
  i2 : 2 * k ≤ free.sumVal
  i3 : ∀ a b, a ∈ free.keys → b ∈ free.keys → a ≠ b → links.HasLink a b

theorem AllocInv.maxVal_pos {free : Counts} {links : LinkTable} {k : Nat}
    (inv : AllocInv free links (k + 1)) : 0 < free.maxVal := by
  apply Nat.pos_of_ne_zero
  intro h0
  have := Counts.sumVal_eq_zero_of_maxVal free h0
  have := inv.i2
  omega

theorem AllocInv.cand {free : Counts} {links : LinkTable} {k : Nat} (inv : AllocInv free links (k + 1))
    (ha : String) (hget : free.get ha = some free.maxVal) :
    ∃ row, links.row ha = some row ∧
      (row.filter (fun e => e.1 != ha &&
        (match (free.dec ha).get e.1 with | some n => n != 0 | none => false))).isEmpty = false := by
  have hmem : (ha, free.maxVal) ∈ free := (Counts.get_eq_some_iff inv.nodup _ _).1 hget
  have hsplit := Counts.sumVal_split inv.nodup hmem
  have h1 := inv.i1 _ _ hmem
  have h2 := inv.i2
  obtain ⟨b, n, hb, hne, hn⟩ := Counts.exists_pos_of_sumVal_filter free ha (by omega)
  obtain ⟨row, hrow, cnt, hcnt⟩ := inv.i3 ha b (Counts.mem_keys_of_mem hmem) (Counts.mem_keys_of_mem hb)
    (Ne.symm hne)
  refine ⟨row, hrow, ?_⟩
  have hnd1 : (free.dec ha).keys.Nodup := by rw [Counts.keys_dec]; exact inv.nodup
  have hg : (free.dec ha).get b = some n :=
    (Counts.get_eq_some_iff hnd1 b n).2 ((Counts.mem_dec free ha b n).2 (Or.inl ⟨hne, hb⟩))
  have hin : (b, cnt) ∈ row.filter (fun e => e.1 != ha &&
        (match (free.dec ha).get e.1 with | some n => n != 0 | none => false)) := by
    rw [List.mem_filter]
    refine ⟨hcnt, ?_⟩
    simp only [hg, Bool.and_eq_true, bne_iff_ne, ne_eq]
    exact ⟨hne, by omega⟩
  cases hl : row.filter (fun e => e.1 != ha &&
        (match (free.dec ha).get e.1 with | some n => n != 0 | none => false)) with
  | nil => rw [hl] at hin; cases hin
  | cons x xs => rfl

theorem AllocInv.step {free : Counts} {links : LinkTable} {k : Nat} (inv : AllocInv free links (k + 1))
    (ha hb : String) (n : Nat) (hget : free.get ha = some free.maxVal) (hne : hb ≠ ha)
    (hgb : (free.dec ha).get hb = some n) (hn : n ≠ 0) :
    AllocInv ((free.dec ha).dec hb) ((links.inc ha hb).inc hb ha) k := by
  have hmx := inv.maxVal_pos
  have hma : (ha, free.maxVal) ∈ free := (Counts.get_eq_some_iff inv.nodup _ _).1 hget
  have hnd1 : (free.dec ha).keys.Nodup := by rw [Counts.keys_dec]; exact inv.nodup
  have hmb1 : (hb, n) ∈ free.dec ha := (Counts.get_eq_some_iff hnd1 _ _).1 hgb
  have hmb : (hb, n) ∈ free := by
    rcases (Counts.mem_dec free ha hb n).1 hmb1 with ⟨_, h⟩ | ⟨h, _⟩
    · exact h
    · exact absurd h hne
  have hs1 : (free.dec ha).sumVal + 1 = free.sumVal := Counts.sumVal_dec inv.nodup hma hmx
  have hs2 : ((free.dec ha).dec hb).sumVal + 1 = (free.dec ha).sumVal :=
    Counts.sumVal_dec hnd1 hmb1 (Nat.pos_of_ne_zero hn)
  have hi2 := inv.i2
  refine ⟨?_, ?_, ?_, ?_⟩
  · rw [Counts.keys_dec, Counts.keys_dec]; exact inv.nodup
  · intro h m hm
    rcases (Counts.mem_dec _ hb h m).1 hm with ⟨hhb, hm1⟩ | ⟨rfl, m', hm', rfl⟩
    · rcases (Counts.mem_dec free ha h m).1 hm1 with ⟨hha, hm0⟩ | ⟨rfl, m', hm', rfl⟩
      · have h3 := Counts.sumVal_ge_three inv.nodup hma hmb hm0 (Ne.symm hne) (Ne.symm hha) (Ne.symm hhb)
        have hle := Counts.le_maxVal hm0
        omega
      · have : m' = free.maxVal := Counts.mem_unique inv.nodup hm' hma
        subst this
        have := inv.i1 _ _ hma
        omega
    · have : m' = n := Counts.mem_unique hnd1 hm' hmb1
      subst this
      have := inv.i1 _ _ hmb
      omega
  · omega
  · intro a b hka hkb hab
    rw [Counts.keys_dec, Counts.keys_dec] at hka hkb
    exact LinkTable.hasLink_inc _ _ _ _ _ (LinkTable.hasLink_inc _ _ _ _ _ (inv.i3 a b hka hkb hab))

theorem allocStep_inv (st : AllocSt) (a b : String) (k : Nat) (inv : AllocInv st.free st.links (k + 1)) :
    (∀ w, allocStep st a b ≠ .panic w) ∧
    (∀ st', allocStep st a b = .ok st' → AllocInv st'.free st'.links k) := by
  have hne : st.free.isEmpty = false := by
    cases hf : st.free with
    | nil =>
      have := inv.i2
      rw [hf, Counts.sumVal_nil] at this
      omega
    | cons x xs => rfl
  have hmx : (st.free.maxVal == 0) = false := by
    have := inv.maxVal_pos
    simp only [beq_eq_false_iff_ne]; omega
  obtain ⟨hp, hok⟩ := allocStep_spec st a b hne hmx (fun ha hget => inv.cand ha hget)
  refine ⟨hp, fun st' h => ?_⟩
  obtain ⟨ha, hb, n, hget, hne', hgb, hn, hfree, hlinks⟩ := hok st' h
  rw [hfree, hlinks]
  exact inv.step ha hb n hget hne' hgb hn

theorem allocLoop_no_panic (choice : List (String × String)) (st : AllocSt)
    (inv : AllocInv st.free st.links choice.length) : ∀ w, allocLoop st choice ≠ .panic w := by
  induction choice generalizing st with
  | nil => intro w h; cases h
  | cons ab rest ih =>
    obtain ⟨a, b⟩ := ab
    obtain ⟨hp, hok⟩ := allocStep_inv st a b rest.length inv
    intro w
    unfold allocLoop
    simp only [bind]
    cases hstep : allocStep st a b with
    | ok st' => exact ih st' (hok st' hstep) w
    | err e => nofun
    | panic w' => exact absurd hstep (hp w')
    | badChoice w' => nofun

/-! ## `generateFreeChunks` -/

theorem allocInv_init (s : Store) (counts : Counts) (k proxyNum : Nat)
    (hkeys : counts.keys = (freeHostCounts s).keys)
    (hsum : ¬ counts.sumVal < proxyNum) (hbal : ¬ counts.maxVal * 2 > counts.sumVal)
    (hk : 2 * k = proxyNum) : AllocInv counts (buildLinkTable s) k := by
  refine ⟨?_, ?_, ?_, ?_⟩
  · rw [hkeys]; exact freeHostCounts_nodup s
  · intro h n hm
    have := Counts.le_maxVal hm
    omega
  · omega
  · intro a b hka hkb hab
    rw [hkeys, freeHostCounts_mem_keys] at hka hkb
    obtain ⟨pa, hpa, rfl⟩ := hka
    obtain ⟨pb, hpb, rfl⟩ := hkb
    have ha := freeProxies_mem s pa hpa
    have hb := freeProxies_mem s pb hpb
    exact (buildLinkTable_hasLink s pa.host pb.host hab ⟨pa, ha.1, rfl⟩ ⟨pb, hb.1, rfl, hb.2⟩).1

set_option linter.unusedVariables false in
theorem generateFreeChunks_no_panic (s : Store) (proxyNum : Nat) (choice : List (String × String))
    (hpos : 0 < proxyNum) (heven : proxyNum % 2 = 0) :
    ∀ w, generateFreeChunks s proxyNum choice ≠ R.panic w := by
  intro w
  unfold generateFreeChunks
  simp only [bind, pure]
  rcases removeRedundant_cases (freeHostCounts s) proxyNum with he | ⟨counts, hc, hkeys⟩
  · rw [he]; nofun
  · rw [hc]
    simp only []
    split
    · nofun
    · rename_i hsum
      split
      · nofun
      · rename_i hbal
        split
        · nofun
        · rename_i hlen
          have hlen' : choice.length = (proxyNum + 1) / 2 := by simpa using hlen
          have hk : 2 * choice.length = proxyNum := by omega
          have inv := allocInv_init s counts choice.length proxyNum hkeys hsum hbal hk
          have hnp := allocLoop_no_panic choice
            { free := counts, links := buildLinkTable s, pool := s.freeProxies, out := [] } inv
          cases hl : allocLoop { free := counts, links := buildLinkTable s, pool := s.freeProxies, out := [] } choice with
          | ok st' => nofun
          | err e => nofun
          | panic w' => exact absurd hl (hnp w')
          | badChoice w' => nofun

end Um.Broker
