import UmProofs.BrokerScalePlanB
/-!
# C10 — the greedy two-pointer plan of `remove_slots_from_src` (part C: the outer loops)

`srcChunks_spec`: if every source master holds at least its final count and the surplus of the
sources fits into what the destinations still need, then every source master ends with exactly
its final count, no panic, fuel suffices, and the slots handed out are exactly the surplus.
-/
namespace Um.Broker.Scale
open Um Um.Slots Um.Broker

instance : LawfulMonad R := LawfulMonad.mk'
  (id_map := fun x => by cases x <;> rfl)
  (pure_bind := fun x f => rfl)
  (bind_assoc := fun x f g => by cases x <;> rfl)

/-- what one source half has above its final count -/
def surplusHalf (P : OutParams) (o : Option RangeList) (idx : Nat) : Nat :=
  match o with
  | some rl => slotsNum rl - (OutParams.srcFinal P) idx
  | none => 0

def surplusChunks (P : OutParams) : List Chunk → Nat → Nat
  | [], _ => 0
  | ch :: rest, i =>
    surplusHalf P ch.stable0 (i * 2 + 0) + surplusHalf P ch.stable1 (i * 2 + 1) + surplusChunks P rest (i + 1)

/-- precondition on one source half -/
def HalfOk (P : OutParams) (o : Option RangeList) (idx : Nat) : Prop :=
  ∀ rl, o = some rl → Asc rl ∧ (OutParams.srcFinal P) idx ≤ slotsNum rl ∧ slotsNum rl ≤ SLOT_NUM

def SrcOk (P : OutParams) : List Chunk → Nat → Prop
  | [], _ => True
  | ch :: rest, i => HalfOk P ch.stable0 (i * 2 + 0) ∧ HalfOk P ch.stable1 (i * 2 + 1) ∧ SrcOk P rest (i + 1)

/-- postcondition on one source half: `None` stays `None`, a list ends with its final count -/
def HalfDone (P : OutParams) (o o' : Option RangeList) (idx : Nat) : Prop :=
  match o with
  | none => o' = none
  | some _ => ∃ rl', o' = some rl' ∧ slotsNum rl' = (OutParams.srcFinal P) idx ∧ Asc rl'

def SrcDone (P : OutParams) : List Chunk → List Chunk → Nat → Prop
  | [], [], _ => True
  | ch :: rest, ch' :: rest', i =>
    (∃ s0 s1, ch' = { ch with stable0 := s0, stable1 := s1 } ∧
      HalfDone P ch.stable0 s0 (i * 2 + 0) ∧ HalfDone P ch.stable1 s1 (i * 2 + 1)) ∧
    SrcDone P rest rest' (i + 1)
  | _, _, _ => False

/-- the per-half body of the outer loop -/
def halfStep (P : OutParams) (i part : Nat) (o : Option RangeList) (st : LoopSt) : R (Option RangeList × LoopSt) :=
  match o with
  | some rl => do let (rl', st') ← srcWhile P i part loopFuel rl st; pure (some rl', st')
  | none => pure (none, st)

theorem srcChunks_cons (P : OutParams) (ch : Chunk) (rest : List Chunk) (i : Nat) (st : LoopSt) :
    srcChunks P (ch :: rest) i st =
      (halfStep P i 0 ch.stable0 st >>= fun a =>
        halfStep P i 1 ch.stable1 a.2 >>= fun b =>
          srcChunks P rest (i + 1) b.2 >>= fun t =>
            pure ({ ch with stable0 := a.1, stable1 := b.1 } :: t.1, t.2)) := by
  rw [srcChunks]
  unfold halfStep
  cases ch.stable0 <;> cases ch.stable1 <;> simp only [bind_assoc, pure_bind]

/-- postcondition shared by the half step and the chunk loop -/
structure StepPost (P : OutParams) (st st' : LoopSt) (surplus lo hi : Nat) : Prop where
  inv : StInv P st'
  empty : st'.curSlots = []
  given : (OutParams.given P) st' = (OutParams.given P) st + surplus
  mono : st.dstIdx ≤ st'.dstIdx
  outs : ∃ new, st'.out = st.out ++ new ∧ ∀ ms ∈ new, lo ≤ ms.mm.srcChunk ∧ ms.mm.srcChunk < hi

theorem halfStep_spec (P : OutParams) (hav : 1 ≤ P.average) (i part : Nat) (hp : part < 2)
    (o : Option RangeList) (st : LoopSt) (hok : HalfOk P o (i * 2 + part)) (hinv : StInv P st)
    (hempty : st.curSlots = []) (hbud : (OutParams.given P) st + surplusHalf P o (i * 2 + part) ≤ (OutParams.total P)) :
    ∃ o' st', halfStep P i part o st = R.ok (o', st') ∧ HalfDone P o o' (i * 2 + part) ∧
      StepPost P st st' (surplusHalf P o (i * 2 + part)) i (i + 1) := by
  cases o with
  | none =>
    exact ⟨none, st, rfl, rfl, hinv, hempty, by simp [surplusHalf], Nat.le_refl _, [], by simp, by simp⟩
  | some rl =>
    obtain ⟨hasc, hge, hle⟩ := hok rl rfl
    simp only [surplusHalf] at hbud ⊢
    have hfuel : slotsNum rl < (OutParams.srcFinal P) (i * 2 + part) + loopFuel := by
      simp only [SLOT_NUM] at hle; simp only [loopFuel]; omega
    obtain ⟨rl', st', hr, hpost⟩ := srcWhile_spec P hav i part hp loopFuel rl st hasc hge hfuel (by omega) hinv
      (fun h => absurd hempty h) (hempty ▸ piecesBelow_nil rl) _ rfl
    refine ⟨some rl', st', ?_, ⟨rl', rfl, hpost.count, hpost.asc⟩, hpost.inv, hpost.empty, ?_, hpost.mono, ?_⟩
    · simp only [halfStep]; rw [hr]; rfl
    · have := hpost.given; omega
    · obtain ⟨new, h1, h2⟩ := hpost.outs
      exact ⟨new, h1, fun ms hms => by have := (h2 ms hms).1; omega⟩

theorem srcChunks_spec (P : OutParams) (hav : 1 ≤ P.average) :
    ∀ (chunks : List Chunk) (i : Nat) (st : LoopSt), SrcOk P chunks i → StInv P st → st.curSlots = [] →
      (OutParams.given P) st + surplusChunks P chunks i ≤ (OutParams.total P) →
      ∃ chunks' st', srcChunks P chunks i st = R.ok (chunks', st') ∧ SrcDone P chunks chunks' i ∧
        StepPost P st st' (surplusChunks P chunks i) i (i + chunks.length) := by
  intro chunks
  induction chunks with
  | nil =>
    intro i st _ hinv hempty _
    exact ⟨[], st, rfl, trivial, hinv, hempty, by simp [surplusChunks], Nat.le_refl _, [], by simp, by simp⟩
  | cons ch rest ih =>
    intro i st hok hinv hempty hbud
    obtain ⟨hok0, hok1, hokr⟩ := hok
    simp only [surplusChunks] at hbud ⊢
    obtain ⟨s0, st0, hr0, hd0, hp0⟩ := halfStep_spec P hav i 0 (by omega) ch.stable0 st hok0 hinv hempty (by omega)
    obtain ⟨s1, st1, hr1, hd1, hp1⟩ := halfStep_spec P hav i 1 (by omega) ch.stable1 st0 hok1 hp0.inv hp0.empty
      (by have := hp0.given; omega)
    obtain ⟨tl, st2, hr2, hd2, hp2⟩ := ih (i + 1) st1 hokr hp1.inv hp1.empty
      (by have := hp0.given; have := hp1.given; omega)
    refine ⟨{ ch with stable0 := s0, stable1 := s1 } :: tl, st2, ?_, ⟨⟨s0, s1, rfl, hd0, hd1⟩, hd2⟩, hp2.inv,
      hp2.empty, ?_, ?_, ?_⟩
    · rw [srcChunks_cons, hr0]
      show (halfStep P i 1 ch.stable1 st0 >>= _) = _
      rw [hr1]
      show (srcChunks P rest (i + 1) st1 >>= _) = _
      rw [hr2]
      rfl
    · have := hp0.given; have := hp1.given; have := hp2.given; omega
    · have := hp0.mono; have := hp1.mono; have := hp2.mono; omega
    · obtain ⟨n0, h0, g0⟩ := hp0.outs
      obtain ⟨n1, h1, g1⟩ := hp1.outs
      obtain ⟨n2, h2, g2⟩ := hp2.outs
      refine ⟨n0 ++ n1 ++ n2, by rw [h2, h1, h0]; simp [List.append_assoc], ?_⟩
      intro ms hms
      simp only [List.length_cons]
      rcases List.mem_append.mp hms with hms | hms
      · rcases List.mem_append.mp hms with hms | hms
        · have := g0 ms hms; omega
        · have := g1 ms hms; omega
      · have := g2 ms hms; omega

end Um.Broker.Scale
