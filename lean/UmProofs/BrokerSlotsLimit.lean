import UmProofs.BrokerSlotsLimitChunk
/-!
# C01, `limit_migration` preserves `ClusterInv` and never panics

`limitMigration_spec`: for every `limit`, `ClusterInv cl → ∃ cl', limitMigration cl limit = .ok cl' ∧
ClusterInv cl'`, with the same epoch/name/config, chunk count and role/address column.

The fold invariant `LimInv` talks about the rebuilt chunk list and the entries not yet visited: the
rebuilt list satisfies `PosL`, the two directions carry the same `(ranges, meta)` keys, everything
is normal, and its owned slots together with the migrating-out slots still to come are
`0 … SLOT_NUM-1`.
-/
namespace Um.Broker
open Um Um.Slots

/-- what `PosInv`/`SlotInv` say about one stored entry -/
def EntryOK (n : Nat) (m : MigStore) : Prop :=
  (m.mm.srcChunk < n ∧ m.mm.dstChunk < n ∧ m.mm.srcPart < 2 ∧ m.mm.dstPart < 2) ∧
  (NormalRanges m.ranges ∧ m.ranges ≠ [])

/-- fold invariant of `limit_migration` -/
structure LimInv (n : Nat) (A : List (RolePos × (String × String) × (String × String) × (String × String × String × String)))
    (cs : List Chunk) (rest : List MigStore) : Prop where
  len : cs.length = n
  pos : PosL cs
  twin : (keys (outs (migsOf cs))).Perm (keys (ins (migsOf cs)))
  norm : NormL cs
  slots : (ownedOf cs ++ outSlots rest).Perm (List.range SLOT_NUM)
  addr : cs.map Chunk.addrs = A

variable {n : Nat} {A : List (RolePos × (String × String) × (String × String) × (String × String × String × String))}

/-- an importing entry is skipped -/
theorem LimInv.skip {cs : List Chunk} {m : MigStore} {rest : List MigStore}
    (h : LimInv n A cs (m :: rest)) (hm : m.isMigrating = false) : LimInv n A cs rest := by
  refine ⟨h.len, h.pos, h.twin, h.norm, ?_, h.addr⟩
  have := h.slots
  rwa [outSlots_cons, hm] at this

theorem mem_ownedOf_of_stable {cs : List Chunk} {i : Nat} {c : Chunk} (hc : cs[i]? = some c)
    {x : Nat} (hx : x ∈ c.stableSlots) : x ∈ ownedOf cs := by
  refine List.mem_flatMap.mpr ⟨c, List.mem_of_getElem? hc, ?_⟩
  rw [Chunk.owned_eq]; exact List.mem_append_left _ hx

/-- a deferred entry: its ranges go back into the source half's stable list -/
theorem LimInv.defer {cs : List Chunk} {m : MigStore} {rest : List MigStore}
    (h : LimInv n A cs (m :: rest)) (hm : m.isMigrating = true) (hok : EntryOK n m)
    {c : Chunk} (hc : cs[m.mm.srcChunk]? = some c) :
    LimInv n A (cs.set m.mm.srcChunk
      (c.withStable m.mm.srcPart (mergeSt (c.stableAt m.mm.srcPart) m.ranges))) rest := by
  have hslots := h.slots
  rw [outSlots_cons, hm, if_pos rfl] at hslots
  have hnd : (ownedOf cs ++ (slotsOf m.ranges ++ outSlots rest)).Nodup :=
    hslots.nodup_iff.mpr List.nodup_range
  have hd : ∀ x ∈ c.stableSlots, x ∉ slotsOf m.ranges := by
    intro x hx hxr
    exact (List.nodup_append.mp hnd).2.2 x (mem_ownedOf_of_stable hc hx) x (List.mem_append_left _ hxr) rfl
  have hcn : NormChunk c := h.norm c (List.mem_of_getElem? hc)
  obtain ⟨hn', hp'⟩ := c.withStable_merge_spec m.mm.srcPart m.ranges hcn hok.2.1 hd
  have hmigs := c.withStable_migs m.mm.srcPart (mergeSt (c.stableAt m.mm.srcPart) m.ranges)
  have hmigs' : (c.withStable m.mm.srcPart (mergeSt (c.stableAt m.mm.srcPart) m.ranges)).migs = c.migs := by
    simp [Chunk.migs, hmigs.1, hmigs.2]
  refine ⟨by rw [List.length_set]; exact h.len, ?_, ?_, h.norm.set _ _ hn', ?_, ?_⟩
  · refine h.pos.set _ _ ((h.pos _ _ hc).of_sub ?_ ?_)
    · intro x hx; rw [hmigs.1] at hx; exact hx
    · intro x hx; rw [hmigs.2] at hx; exact hx
  · have : migsOf (cs.set m.mm.srcChunk
        (c.withStable m.mm.srcPart (mergeSt (c.stableAt m.mm.srcPart) m.ranges))) = migsOf cs :=
      flatMap_set_eq Chunk.migs cs _ c _ hc hmigs'
    rw [this]; exact h.twin
  · have hown : (c.withStable m.mm.srcPart (mergeSt (c.stableAt m.mm.srcPart) m.ranges)).owned.Perm
        (slotsOf m.ranges ++ c.owned) := by
      rw [Chunk.owned_eq, Chunk.owned_eq, hmigs', ← List.append_assoc]
      exact List.Perm.append_right _ hp'
    have := flatMap_set_add Chunk.owned cs _ c _ _ hc hown
    refine (List.Perm.append_right _ this).trans ?_
    refine List.Perm.trans ?_ hslots
    rw [List.append_assoc]
    exact List.perm_append_comm_assoc _ _ _
  · rw [map_addrs_set hc (c.withStable_addrs _ _)]; exact h.addr

/-- inserting one entry at its own position -/
theorem addEntry_facts {cs : List Chunk} (hpos : PosL cs) (hnorm : NormL cs) {i p : Nat} {c : Chunk}
    (hc : cs[i]? = some c) (hp : p < 2) (x : MigStore)
    (hx : (if x.isMigrating then (x.mm.srcChunk, x.mm.srcPart) else (x.mm.dstChunk, x.mm.dstPart)) = (i, p))
    (hok : EntryOK cs.length x) :
    PosL (cs.set i (c.addMig p x)) ∧ NormL (cs.set i (c.addMig p x)) ∧
    (migsOf (cs.set i (c.addMig p x))).Perm (x :: migsOf cs) ∧
    (ownedOf (cs.set i (c.addMig p x))).Perm ((if x.isMigrating then slotsOf x.ranges else []) ++ ownedOf cs) ∧
    (cs.set i (c.addMig p x)).map Chunk.addrs = cs.map Chunk.addrs := by
  refine ⟨hpos.set _ _ (Chunk.addMig_pos (hpos _ _ hc) hp x hx hok.1),
    hnorm.set _ _ (Chunk.addMig_norm (hnorm c (List.mem_of_getElem? hc)) p x hok.2), ?_, ?_,
    map_addrs_set hc (c.addMig_addrs p x)⟩
  · exact flatMap_set_add Chunk.migs cs i c _ [x] hc (c.addMig_migs p x)
  · exact flatMap_set_add Chunk.owned cs i c _ _ hc (c.addMig_owned p x)

/-- an accepted entry: re-inserted at its source position with a fresh importing twin at its
destination position -/
theorem LimInv.accept {cs : List Chunk} {m : MigStore} {rest : List MigStore}
    (h : LimInv n A cs (m :: rest)) (hm : m.isMigrating = true) (hok : EntryOK n m)
    {c c2 : Chunk} (hc : cs[m.mm.srcChunk]? = some c)
    (hc2 : (cs.set m.mm.srcChunk (c.addMig m.mm.srcPart m))[m.mm.dstChunk]? = some c2) :
    LimInv n A ((cs.set m.mm.srcChunk (c.addMig m.mm.srcPart m)).set m.mm.dstChunk
      (c2.addMig m.mm.dstPart { m with isMigrating := false })) rest := by
  have hlen := h.len
  subst hlen
  obtain ⟨p1, n1, m1, o1, a1⟩ := addEntry_facts h.pos h.norm hc hok.1.2.2.1 m (by rw [hm]; rfl) hok
  have hok2 : EntryOK (cs.set m.mm.srcChunk (c.addMig m.mm.srcPart m)).length { m with isMigrating := false } := by
    rw [List.length_set]; exact hok
  obtain ⟨p2, n2, m2, o2, a2⟩ := addEntry_facts p1 n1 hc2 hok.1.2.2.2 { m with isMigrating := false } rfl hok2
  refine ⟨by simp, p2, ?_, n2, ?_, by rw [a2, a1]; exact h.addr⟩
  · have hM := m2.trans (List.Perm.cons _ m1)
    have ho : (outs (migsOf ((cs.set m.mm.srcChunk (c.addMig m.mm.srcPart m)).set m.mm.dstChunk
        (c2.addMig m.mm.dstPart { m with isMigrating := false })))).Perm (m :: outs (migsOf cs)) := by
      have := hM.filter (·.isMigrating)
      simpa [outs, List.filter_cons, hm] using this
    have hi : (ins (migsOf ((cs.set m.mm.srcChunk (c.addMig m.mm.srcPart m)).set m.mm.dstChunk
        (c2.addMig m.mm.dstPart { m with isMigrating := false })))).Perm
        ({ m with isMigrating := false } :: ins (migsOf cs)) := by
      have := hM.filter (fun m => !m.isMigrating)
      simpa [ins, List.filter_cons, hm] using this
    refine ((ho.map MigStore.key).trans ?_).trans (hi.map MigStore.key).symm
    simp only [List.map_cons]
    exact List.Perm.cons _ h.twin
  · have hslots := h.slots
    rw [outSlots_cons, hm, if_pos rfl] at hslots
    refine List.Perm.trans ?_ hslots
    have o2' : (ownedOf ((cs.set m.mm.srcChunk (c.addMig m.mm.srcPart m)).set m.mm.dstChunk
        (c2.addMig m.mm.dstPart { m with isMigrating := false }))).Perm
        (ownedOf (cs.set m.mm.srcChunk (c.addMig m.mm.srcPart m))) := by simpa using o2
    rw [hm, if_pos rfl] at o1
    refine (List.Perm.append_right _ (o2'.trans o1)).trans ?_
    rw [List.append_assoc]
    exact List.perm_append_comm_assoc _ _ _

theorem LimSt.incOut_chunks (st : LimSt) (k : Nat × Nat) : (st.incOut k).chunks = st.chunks := by
  unfold LimSt.incOut; split <;> rfl

/-- one iteration of the innermost loop never panics and keeps the fold invariant -/
theorem limitEntry_step (limit : Nat) (st : LimSt) (m : MigStore) (rest : List MigStore)
    (h : LimInv n A st.chunks (m :: rest)) (hok : EntryOK n m) :
    ∃ st', limitEntry limit st m = .ok st' ∧ LimInv n A st'.chunks rest := by
  unfold limitEntry
  cases hm : m.isMigrating with
  | false => exact ⟨st, by simp, h.skip hm⟩
  | true =>
    simp only [Bool.not_true, Bool.false_eq_true, if_false]
    generalize hst1 : (if st.out.any (fun x => x.1 == (m.mm.srcChunk, m.mm.srcPart)) = true then st
      else { st with out := st.out ++ [((m.mm.srcChunk, m.mm.srcPart), 0)] }) = st1
    have hch : st1.chunks = st.chunks := by subst hst1; split <;> rfl
    rw [← hch] at h
    have hlt : m.mm.srcChunk < st1.chunks.length := by rw [h.len]; exact hok.1.1
    have hc : st1.chunks[m.mm.srcChunk]? = some st1.chunks[m.mm.srcChunk] := List.getElem?_eq_getElem hlt
    split
    · -- deferred
      have e1 := updateChunk_ok hc (f := fun c => (c.stable m.mm.srcPart).bind fun cur =>
          c.setStable m.mm.srcPart (some (mergeAnother (cur.getD []) m.ranges)))
        (withStable_eq st1.chunks[m.mm.srcChunk] hok.1.2.2.1
        (fun cur => mergeAnother (cur.getD []) m.ranges)) "limit_migration"
      rw [merge_getD_eq _ _ hok.2.1] at e1
      rw [e1]
      exact ⟨_, rfl, h.defer hm hok hc⟩
    · -- accepted
      have e1 := updateChunk_ok hc (f := fun c => (c.mig m.mm.srcPart).bind fun l =>
          c.setMig m.mm.srcPart (l ++ [m])) (addMig_eq st1.chunks[m.mm.srcChunk] hok.1.2.2.1 m) "limit_migration"
      rw [e1]
      simp only [R.ok_bind]
      have hlt2 : m.mm.dstChunk <
          (st1.chunks.set m.mm.srcChunk (st1.chunks[m.mm.srcChunk].addMig m.mm.srcPart m)).length := by
        rw [List.length_set, h.len]; exact hok.1.2.1
      have hc2 := List.getElem?_eq_getElem hlt2
      have e2 := updateChunk_ok hc2 (f := fun c => (c.mig m.mm.dstPart).bind fun l =>
          c.setMig m.mm.dstPart (l ++ [{ m with isMigrating := false }]))
        (addMig_eq _ hok.1.2.2.2 { m with isMigrating := false }) "limit_migration"
      rw [e2]
      refine ⟨_, rfl, ?_⟩
      rw [LimSt.incOut_chunks]
      exact h.accept hm hok hc hc2

/-- the whole fold -/
theorem limitFold (limit : Nat) (entries : List MigStore) (st : LimSt)
    (h : LimInv n A st.chunks entries) (hok : ∀ m ∈ entries, EntryOK n m) :
    ∃ st', entries.foldlM (limitEntry limit) st = .ok st' ∧ LimInv n A st'.chunks [] := by
  induction entries generalizing st with
  | nil => exact ⟨st, rfl, h⟩
  | cons m rest ih =>
    obtain ⟨st1, e1, h1⟩ := limitEntry_step limit st m rest h (hok m (by simp))
    obtain ⟨st2, e2, h2⟩ := ih st1 h1 (fun x hx => hok x (by simp [hx]))
    refine ⟨st2, ?_, h2⟩
    rw [List.foldlM_cons, e1]
    exact e2

/-! ## start and end of the fold -/

/-- the chunk list with all migration lists emptied -/
def blankChunks (cs : List Chunk) : List Chunk := cs.map fun c => { c with mig0 := [], mig1 := [] }

theorem blank_facts (cs : List Chunk) :
    migsOf (blankChunks cs) = [] ∧ ownedOf (blankChunks cs) = stableSlotsOf cs ∧
    (blankChunks cs).map Chunk.addrs = cs.map Chunk.addrs := by
  induction cs with
  | nil => exact ⟨rfl, rfl, rfl⟩
  | cons c t ih =>
    have e : blankChunks (c :: t) = { c with mig0 := [], mig1 := [] } :: blankChunks t := rfl
    rw [e]
    refine ⟨?_, ?_, ?_⟩
    · rw [migsOf_cons, ih.1]; rfl
    · rw [ownedOf_cons, ih.2.1, stableSlotsOf_cons]
      simp [Chunk.owned, Chunk.stableSlots, Chunk.stables, Chunk.migs]
    · simp only [List.map_cons, ih.2.2]; rfl

theorem LimInv.start {cs : List Chunk} (h : InvL cs) :
    LimInv cs.length (cs.map Chunk.addrs) (blankChunks cs) (migsOf cs) := by
  obtain ⟨_, _, hnorm, hperm⟩ := h
  have hb := blank_facts cs
  have hempty : ∀ c ∈ blankChunks cs, c.mig0 = [] ∧ c.mig1 = [] := by
    intro c hc
    obtain ⟨c0, _, rfl⟩ := List.mem_map.mp hc
    exact ⟨rfl, rfl⟩
  refine ⟨by simp [blankChunks], ?_, by rw [hb.1]; exact List.Perm.refl _, ?_, ?_, hb.2.2⟩
  · intro i c hi
    have hc := hempty c (List.mem_of_getElem? hi)
    refine ⟨?_, ?_, ?_⟩
    · intro m hm; rw [hc.1] at hm; cases hm
    · intro m hm; rw [hc.2] at hm; cases hm
    · intro m hm; simp [Chunk.migs, hc.1, hc.2] at hm
  · intro c hc
    obtain ⟨c0, hc0, rfl⟩ := List.mem_map.mp hc
    refine ⟨(hnorm c0 hc0).1, ?_⟩
    intro m hm; simp [Chunk.migs] at hm
  · rw [hb.2.1]
    exact (ownedOf_perm cs).symm.trans hperm

theorem LimInv.finish {cs : List Chunk} (h : LimInv n A cs []) : InvL cs := by
  have hslot : SlotL cs := ⟨h.norm, by simpa using h.slots⟩
  exact ⟨h.pos, ⟨h.twin, hslot.nodup_ekey⟩, hslot⟩

theorem entryOK_of_invL {cs : List Chunk} (h : InvL cs) : ∀ m ∈ migsOf cs, EntryOK cs.length m := by
  intro m hm
  obtain ⟨c, hc, hmc⟩ := mem_migsOf.mp hm
  obtain ⟨i, hi⟩ := List.getElem?_of_mem hc
  exact ⟨(h.1 i c hi).2.2 m hmc, (h.2.2.1 c hc).2 m hmc⟩

/-- A: `limit_migration` never panics, preserves `ClusterInv`, the epoch, the name, the config,
the number of chunks and every chunk's role and addresses -/
theorem limitMigration_spec (cl : Cluster) (limit : Nat) (h : ClusterInv cl) :
    ∃ cl', limitMigration cl limit = .ok cl' ∧ ClusterInv cl' ∧ cl'.epoch = cl.epoch ∧
      cl'.name = cl.name ∧ cl'.config = cl.config ∧ cl'.chunks.length = cl.chunks.length ∧
      cl'.chunks.map Chunk.addrs = cl.chunks.map Chunk.addrs := by
  unfold limitMigration
  split
  · exact ⟨cl, rfl, h, rfl, rfl, rfl, rfl, rfl⟩
  · have hL := (clusterInv_iff cl).mp h
    obtain ⟨st', e, hfin⟩ := limitFold limit (migsOf cl.chunks)
      { chunks := blankChunks cl.chunks, num := 0, out := [] } (LimInv.start hL) (entryOK_of_invL hL)
    have e' : (cl.chunks.flatMap fun c => c.mig0 ++ c.mig1) = migsOf cl.chunks := rfl
    have e'' : (cl.chunks.map fun c => { c with mig0 := [], mig1 := [] }) = blankChunks cl.chunks := rfl
    simp only [e', e'', e, R.ok_bind, R.pure_eq]
    exact ⟨_, rfl, (clusterInv_iff _).mpr hfin.finish, rfl, rfl, rfl, hfin.len, hfin.addr⟩

end Um.Broker
