import UmProofs.RespSound
/-!
# C15 — completeness: every buffer of the shape `Accepts s v e`, followed by anything, parses to
exactly `v` consuming exactly `e`
-/
namespace Um.Resp
open Um

theorem len_complete (s : Bool) (L : Bytes) (ch : UInt8) (more : Bytes) (k : Int)
    (hL : btoiI64 L = some k) (hterm : TermOk s ch) :
    parseLen s (L ++ ch :: LF :: more) = .ok (k, L.length + 2) := by
  rw [parseLen_eq, parseLine_complete s L ch more (btoiI64_no_lf hL) hterm.1 hterm.2]
  simp only
  rw [List.take_left' rfl, hL]

theorem lineAs_complete (s : Bool) (t : UInt8) (mk : DataIndex → RespIdx) (mkv : Bytes → Resp)
    (hleaf : ∀ b, parseLeaf s t b = some (parseLineAs mk s b))
    (hmk : ∀ d a, toRespVec d (mk a) = (sliceGet d a.1 a.2).map mkv)
    (hadv : ∀ c a, advance c (mk a) = mk (a.1 + c, a.2 + c))
    (p : Bytes) (ch : UInt8) (rest : Bytes) (f d : Nat) (hp : LF ∉ p) (hterm : TermOk s ch) (hf : 1 ≤ f) :
    ∃ idx, parseResp s f d (t :: (p ++ [ch, LF]) ++ rest) = .ok (idx, (t :: (p ++ [ch, LF])).length) ∧
      toRespVec (t :: (p ++ [ch, LF])) idx = some (mkv p) := by
  obtain ⟨f', rfl⟩ : ∃ f', f = f' + 1 := ⟨f - 1, by omega⟩
  have hX : (p ++ [ch, LF]) ++ rest = p ++ ch :: LF :: rest := by simp
  simp only [List.cons_append, parseResp, hleaf, hX]
  unfold parseLineAs
  rw [parseLine_complete s p ch rest hp hterm.1 hterm.2]
  simp only [shift1]
  refine ⟨_, by congr 2; simp; omega, ?_⟩
  rw [hadv, hmk]
  simp only [Nat.zero_add, sliceGet]
  have hc : 1 ≤ p.length + 1 ∧ p.length + 1 ≤ (t :: (p ++ [ch, LF])).length := by simp
  simp only [hc, and_self, if_true, List.drop_succ_cons, List.drop_zero, Nat.add_sub_cancel, Option.map_some]
  rw [List.take_left' rfl]

theorem bulk_complete (s : Bool) (L : Bytes) (ch : UInt8) (p t rest : Bytes) (f d : Nat)
    (hL : btoiI64 L = some (p.length : Int)) (hterm : TermOk s ch) (ht : BulkTermOk s t) (hf : 1 ≤ f) :
    ∃ idx, parseResp s f d (tBulk :: (L ++ [ch, LF] ++ (p ++ t)) ++ rest) =
        .ok (idx, (tBulk :: (L ++ [ch, LF] ++ (p ++ t))).length) ∧
      toRespVec (tBulk :: (L ++ [ch, LF] ++ (p ++ t))) idx = some (.bulk p) := by
  obtain ⟨f', rfl⟩ : ∃ f', f = f' + 1 := ⟨f - 1, by omega⟩
  have hX : (L ++ [ch, LF] ++ (p ++ t)) ++ rest = L ++ ch :: LF :: (p ++ (t ++ rest)) := by simp
  simp only [List.cons_append, parseResp, parseLeaf_bulk, hX]
  unfold parseBulkStr
  rw [len_complete s L ch _ _ hL hterm]
  have hnn : ¬ ((p.length : Int) < 0) := by omega
  simp only [hnn, if_false, Int.toNat_natCast]
  have hXlen : (L ++ ch :: LF :: (p ++ (t ++ rest))).length = L.length + 2 + p.length + 2 + rest.length := by
    simp [ht.1]; omega
  have hlen : ¬ ((L ++ ch :: LF :: (p ++ (t ++ rest))).length < L.length + 2 + p.length + 2) := by
    rw [hXlen]; omega
  simp only [hlen, if_false]
  have hsl : sliceGet (L ++ ch :: LF :: (p ++ (t ++ rest))) (L.length + 2 + p.length) (L.length + 2 + p.length + 2)
      = some t := by
    unfold sliceGet
    have hc : L.length + 2 + p.length ≤ L.length + 2 + p.length + 2 ∧
        L.length + 2 + p.length + 2 ≤ (L ++ ch :: LF :: (p ++ (t ++ rest))).length := by
      rw [hXlen]; omega
    simp only [hc, and_self, if_true, Option.some.injEq]
    have h1 : L ++ ch :: LF :: (p ++ (t ++ rest)) = (L ++ [ch, LF] ++ p) ++ (t ++ rest) := by simp
    rw [h1, List.drop_left' (by simp; omega)]
    have : L.length + 2 + p.length + 2 - (L.length + 2 + p.length) = 2 := by omega
    rw [this, List.take_left' ht.1]
  rw [hsl]
  have hchk : ¬ ((s && (some t != some crlf)) = true) := by
    cases s with
    | false => simp
    | true => simp [ht.2 rfl]
  simp only [hchk, Bool.false_eq_true, if_false, shift1]
  have hel : (tBulk :: (L ++ [ch, LF] ++ (p ++ t))).length = 1 + (L.length + 2 + p.length + 2) := by
    simp only [List.length_append, List.length_cons, List.length_nil, ht.1]; omega
  refine ⟨_, by rw [hel], ?_⟩
  simp only [advance, RespT.map, toRespVec, RespT.mapOpt, sliceGet]
  have hc : L.length + 2 + 1 ≤ L.length + 2 + p.length + 1 ∧
      L.length + 2 + p.length + 1 ≤ (tBulk :: (L ++ [ch, LF] ++ (p ++ t))).length := by
    simp [ht.1]; omega
  simp only [hc, and_self, if_true, Option.map_some, Option.some.injEq, RespT.bulk.injEq,
    List.drop_succ_cons]
  rw [List.drop_left' (by simp)]
  have : L.length + 2 + p.length + 1 - (L.length + 2 + 1) = p.length := by omega
  rw [this, List.take_left' rfl]

theorem nil_complete (s : Bool) (t : UInt8) (L : Bytes) (ch : UInt8) (len : Int) (rest : Bytes) (f d : Nat)
    (hL : btoiI64 L = some len) (hneg : len < 0) (hterm : TermOk s ch) (hf : 1 ≤ f) :
    (t = tBulk → ∃ idx, parseResp s f d (t :: (L ++ [ch, LF]) ++ rest) = .ok (idx, (t :: (L ++ [ch, LF])).length) ∧
      toRespVec (t :: (L ++ [ch, LF])) idx = some .bulkNil) ∧
    (t = tArr → nestAllowed d → ∃ idx, parseResp s f d (t :: (L ++ [ch, LF]) ++ rest) = .ok (idx, (t :: (L ++ [ch, LF])).length) ∧
      toRespVec (t :: (L ++ [ch, LF])) idx = some .arrNil) := by
  obtain ⟨f', rfl⟩ : ∃ f', f = f' + 1 := ⟨f - 1, by omega⟩
  have hX : (L ++ [ch, LF]) ++ rest = L ++ ch :: LF :: rest := by simp
  constructor
  · intro ht; subst ht
    simp only [List.cons_append, parseResp, parseLeaf_bulk, hX]
    unfold parseBulkStr
    rw [len_complete s L ch _ _ hL hterm]
    simp only [hneg, if_true, shift1]
    exact ⟨_, by congr 2; simp; omega, by simp [advance, RespT.map, toRespVec, RespT.mapOpt]⟩
  · intro ht hallow; subst ht
    have hne : ¬ (nestingExceeded d = true) := by unfold nestAllowed at hallow; simp [hallow]
    simp only [List.cons_append, parseResp, parseLeaf_arr, hX, if_true]
    rw [if_neg hne]
    unfold parseArrayHeader
    rw [len_complete s L ch _ _ hL hterm]
    simp only [hneg, if_true, shift1]
    exact ⟨_, by congr 2; simp; omega, by simp [advance, RespT.map, toRespVec, RespT.mapOpt]⟩

theorem arrayHeader_complete (s : Bool) (L : Bytes) (ch : UInt8) (k : Nat) (more : Bytes)
    (hL : btoiI64 L = some (k : Int)) (hterm : TermOk s ch) (hcap : reservePanics k = false) :
    parseArrayHeader s (L ++ ch :: LF :: more) = .elems k (L.length + 2) := by
  unfold parseArrayHeader
  rw [len_complete s L ch _ _ hL hterm]
  have hnn : ¬ ((k : Int) < 0) := by omega
  simp [hnn, hcap]

mutual
theorem accepts_complete (s : Bool) : ∀ (v : Resp) (e : Bytes), Accepts s v e → ∀ (rest : Bytes) (f d : Nat),
    NestOk d v → (e ++ rest).length + 1 ≤ f →
    ∃ idx, parseResp s f d (e ++ rest) = .ok (idx, e.length) ∧ toRespVec e idx = some v
  | .simple p, e, h, rest, f, d, hn, hf => by
    simp only [Accepts] at h
    obtain ⟨ch, he, hp, hterm⟩ := h
    subst he
    exact lineAs_complete s tSimple .simple .simple (parseLeaf_simple s)
      (by intro d a; simp [toRespVec, RespT.mapOpt]) (by intro c a; simp [advance, RespT.map])
      p ch rest f d hp hterm (by omega)
  | .error p, e, h, rest, f, d, hn, hf => by
    simp only [Accepts] at h
    obtain ⟨ch, he, hp, hterm⟩ := h
    subst he
    exact lineAs_complete s tError .error .error (parseLeaf_error s)
      (by intro d a; simp [toRespVec, RespT.mapOpt]) (by intro c a; simp [advance, RespT.map])
      p ch rest f d hp hterm (by omega)
  | .integer p, e, h, rest, f, d, hn, hf => by
    simp only [Accepts] at h
    obtain ⟨ch, he, hp, hterm⟩ := h
    subst he
    exact lineAs_complete s tInteger .integer .integer (parseLeaf_integer s)
      (by intro d a; simp [toRespVec, RespT.mapOpt]) (by intro c a; simp [advance, RespT.map])
      p ch rest f d hp hterm (by omega)
  | .bulkNil, e, h, rest, f, d, hn, hf => by
    simp only [Accepts] at h
    obtain ⟨L, ch, len, he, hL, hneg, hterm⟩ := h
    subst he
    exact (nil_complete s tBulk L ch len rest f d hL hneg hterm (by omega)).1 rfl
  | .arrNil, e, h, rest, f, d, hn, hf => by
    simp only [Accepts] at h
    obtain ⟨L, ch, len, he, hL, hneg, hterm⟩ := h
    subst he
    exact (nil_complete s tArr L ch len rest f d hL hneg hterm (by omega)).2 rfl (by simpa [NestOk] using hn)
  | .bulk p, e, h, rest, f, d, hn, hf => by
    simp only [Accepts] at h
    obtain ⟨L, ch, t, he, hL, hterm, ht⟩ := h
    subst he
    exact bulk_complete s L ch p t rest f d hL hterm ht (by omega)
  | .arr l, e, h, rest, f, d, hn, hf => by
    simp only [Accepts] at h
    obtain ⟨L, ch, body, he, hL, hterm, hcap, hbody⟩ := h
    subst he
    obtain ⟨f', rfl⟩ : ∃ f', f = f' + 1 := ⟨f - 1, by omega⟩
    have hX : (L ++ [ch, LF] ++ body) ++ rest = L ++ ch :: LF :: (body ++ rest) := by simp
    simp only [NestOk] at hn
    have hne : ¬ (nestingExceeded d = true) := by have := hn.1; unfold nestAllowed at this; simp [this]
    simp only [List.cons_append, parseResp, parseLeaf_arr, hX, if_true]
    rw [if_neg hne, arrayHeader_complete s L ch l.length _ hL hterm hcap]
    simp only
    have hdrop : (L ++ ch :: LF :: (body ++ rest)).drop (L.length + 2) = body ++ rest := by
      have : L ++ ch :: LF :: (body ++ rest) = (L ++ [ch, LF]) ++ (body ++ rest) := by simp
      rw [this, List.drop_left' (by simp)]
    rw [hdrop]
    obtain ⟨idxs, hpe, hvec⟩ := acceptsList_complete s l body hbody rest f' (d + 1)
      (L ++ ch :: LF :: (body ++ rest)).length (L.length + 2) hn.2
      (by simp at hf ⊢; omega) (by simp; omega)
    rw [hpe]
    simp only [shift1]
    refine ⟨_, by congr 2; simp; omega, ?_⟩
    rw [toRespVec_advance _ _ _ (by simp), toRespVec_arr]
    simp only [List.drop_succ_cons, List.drop_zero]
    rw [hvec (L ++ [ch, LF] ++ body) [] (by simp) (by rw [List.drop_left' (by simp)]; simp)]
    rfl
theorem acceptsList_complete (s : Bool) : ∀ (l : List Resp) (e : Bytes), AcceptsList s l e →
    ∀ (more : Bytes) (f d bufLen c : Nat), NestOkList d l → (e ++ more).length + 2 ≤ f →
    c + (e ++ more).length = bufLen →
    ∃ idxs, parseElems s f d bufLen (e ++ more) l.length c = .ok (idxs, c + e.length) ∧
      ∀ D y, c ≤ D.length → D.drop c = e ++ y → toVecList D idxs = some l
  | [], e, h, more, f, d, bufLen, c, hn, hf, hb => by
    simp only [AcceptsList] at h
    subst h
    refine ⟨[], by simp [parseElems], ?_⟩
    intro D y _ _
    simp [toVecList, RespT.mapOptList]
  | v :: vs, e, h, more, f, d, bufLen, c, hn, hf, hb => by
    simp only [NestOkList] at hn
    simp only [AcceptsList] at h
    obtain ⟨e1, e2, he, hv, hvs⟩ := h
    subst he
    obtain ⟨f', rfl⟩ : ∃ f', f = f' + 1 := ⟨f - 1, by omega⟩
    have hg : ¬ (c > bufLen) := by omega
    simp only [List.length_cons, parseElems, hg, if_false, List.append_assoc]
    obtain ⟨idx, hp, hvec1⟩ := accepts_complete s v e1 hv (e2 ++ more) f' d hn.1 (by simp at hf ⊢; omega)
    obtain ⟨hpos, _⟩ := parseResp_bounds hp
    rw [hp]
    simp only
    rw [List.drop_left' rfl]
    obtain ⟨idxs, hpe, hvec2⟩ := acceptsList_complete s vs e2 hvs more f' d bufLen (c + e1.length) hn.2
      (by simp at hf ⊢; omega) (by simp at hb ⊢; omega)
    rw [hpe]
    simp only
    refine ⟨_, by congr 2; simp; omega, ?_⟩
    intro D y hcD hD
    rw [toVecList_cons, toRespVec_advance _ _ _ hcD, hD, toRespVec_append _ hvec1]
    simp only
    have hlenD : (D.drop c).length = (e1 ++ (e2 ++ y)).length := by rw [hD]
    simp only [List.length_drop, List.length_append] at hlenD
    rw [hvec2 D y (by omega) (by rw [← List.drop_drop, hD, List.drop_left' rfl])]
end

/-- completeness at the fuel that `parse` uses -/
theorem parse_complete {s : Bool} {v : Resp} {e : Bytes} (h : Accepts s v e) (hn : NestOk 0 v) (rest : Bytes) :
    ∃ idx, parse s (e ++ rest) = .ok (idx, e.length) ∧ toRespVec e idx = some v :=
  accepts_complete s v e h rest _ 0 hn (Nat.le_refl _)

end Um.Resp
