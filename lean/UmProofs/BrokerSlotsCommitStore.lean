import UmProofs.BrokerSlotsCommitCore
import UmProofs.BrokerSlotsCommitFree
/-!
# C01, `commit_migration` on the store

`commitMigrationCore_spec`: under `ClusterInv` of the named cluster, the call either returns an
error with the store unchanged, or succeeds, and then the descriptor names a unique migrating-out
entry `m`, the meta the code reconstructs from the two `findEntry` positions *is* `m.mm`, exactly
`m` and its importing twin are removed, `m.ranges` is merged into the twin's half, `compactSlots`
is the identity, and `ClusterInv` holds for the stored cluster.
-/
namespace Um.Broker
open Um Um.Slots

theorem PosL.at_pos {cs : List Chunk} (h : PosL cs) {i p : Nat} {c : Chunk} {m : MigStore}
    (hc : cs[i]? = some c) (hp : p < 2) (hm : m ∈ c.migAt p) :
    (if m.isMigrating then (m.mm.srcChunk, m.mm.srcPart) else (m.mm.dstChunk, m.mm.dstPart)) = (i, p) := by
  have hpc := h i c hc
  unfold Chunk.migAt at hm
  split at hm
  · next h0 => subst h0; exact hpc.1 m hm
  · next h0 =>
    have : p = 1 := by omega
    subst this; exact hpc.2.1 m hm

theorem mem_migsOf_of_migAt {cs : List Chunk} {i p : Nat} {c : Chunk} {m : MigStore}
    (hc : cs[i]? = some c) (hm : m ∈ c.migAt p) : m ∈ migsOf cs := by
  refine mem_migsOf.mpr ⟨c, List.mem_of_getElem? hc, ?_⟩
  unfold Chunk.migAt at hm
  split at hm
  · exact Chunk.mem_migs.mpr (Or.inl hm)
  · exact Chunk.mem_migs.mpr (Or.inr hm)

/-- the two positions `commit_migration` finds belong to one entry and its twin: the meta the code
rebuilds from them is the stored meta of the unique migrating-out entry with that `(ranges, epoch)` -/
theorem commit_found {cs : List Chunk} (hinv : InvL cs) {ranges : RangeList} {e si sp di dp : Nat}
    (h1 : findEntry cs ranges e true = some (si, sp)) (h2 : findEntry cs ranges e false = some (di, dp)) :
    ∃ m ∈ outs (migsOf cs), m.ranges = ranges ∧
      m.mm = { epoch := e, srcChunk := si, srcPart := sp, dstChunk := di, dstPart := dp } ∧
      ∀ x ∈ outs (migsOf cs), x.ranges = ranges → x.mm.epoch = e → x = m := by
  obtain ⟨hpos, ⟨htw, hek⟩, _⟩ := hinv
  obtain ⟨c, m, hc, hp, hm, hr, he, hmig⟩ := findEntry_some h1
  obtain ⟨c2, m2, hc2, hp2, hm2, hr2, he2, hmig2⟩ := findEntry_some h2
  have hmO : m ∈ outs (migsOf cs) := mem_outs.mpr ⟨mem_migsOf_of_migAt hc hm, hmig⟩
  have hm2I : m2 ∈ ins (migsOf cs) := mem_ins.mpr ⟨mem_migsOf_of_migAt hc2 hm2, hmig2⟩
  have hsrc := hpos.at_pos hc hp hm
  have hdst := hpos.at_pos hc2 hp2 hm2
  rw [hmig] at hsrc; rw [hmig2] at hdst
  simp only [if_true, Bool.false_eq_true, if_false, Prod.mk.injEq] at hsrc hdst
  have huniq : ∀ x ∈ outs (migsOf cs), x.ranges = ranges → x.mm.epoch = e → x = m := by
    intro x hx hxr hxe
    exact eq_of_nodup_map MigStore.ekey _ hek x m hx hmO (by simp [MigStore.ekey, hxr, hxe, hr, he])
  -- the importing entry found is the twin of `m`
  have hk2 : m2.key ∈ keys (outs (migsOf cs)) := htw.mem_iff.mpr (List.mem_map.mpr ⟨m2, hm2I, rfl⟩)
  obtain ⟨m3, hm3, hk3⟩ := List.mem_map.mp hk2
  have hk3' : m3.ranges = m2.ranges ∧ m3.mm = m2.mm := by simpa [MigStore.key] using hk3
  have hm3m : m3 = m := huniq m3 hm3 (by rw [hk3'.1, hr2]) (by rw [hk3'.2, he2])
  have hmm : m2.mm = m.mm := by rw [← hk3'.2, hm3m]
  refine ⟨m, hmO, hr, ?_, huniq⟩
  rw [hmm] at hdst
  cases hmm' : m.mm with
  | mk ep a b c d =>
    rw [hmm'] at hsrc hdst he
    simp only at hsrc hdst he
    simp [hsrc.1, hsrc.2, hdst.1, hdst.2, he]

/-- B: full description of `commit_migration` (without the `clear_free_nodes` tail) -/
theorem commitMigrationCore_spec (s : Store) (name : String) (ranges : RangeList) (e : Nat)
    (tagNone : Bool) (cl : Cluster) (hf : s.findCluster name = some cl) (hinv : ClusterInv cl) :
    (∃ err, commitMigrationCore s name ranges e tagNone = (s, .err err)) ∨
    (∃ m cs', m ∈ outs cl.migs ∧ m.ranges = ranges ∧ m.mm.epoch = e ∧
      (∀ x ∈ outs cl.migs, x.ranges = ranges → x.mm.epoch = e → x = m) ∧
      (∃ m' ∈ ins cl.migs, m'.key = m.key) ∧
      cs' = commitDst m.ranges m.mm (dropSrc m.ranges m.mm cl.chunks) ∧
      compactSlots cs' = cs' ∧
      commitMigrationCore s name ranges e tagNone =
        ((s.setCluster { cl with chunks := cs', epoch := s.globalEpoch + 1 }).bump, .ok ()) ∧
      cs'.length = cl.chunks.length ∧
      migsOf cs' = ((migsOf cl.chunks).filter (keepE m.ranges m.mm)).eraseP (isTwinOf m.ranges m.mm) ∧
      (stableSlotsOf cs').Perm (slotsOf m.ranges ++ stableSlotsOf cl.chunks) ∧
      ClusterInv { cl with chunks := cs', epoch := s.globalEpoch + 1 }) := by
  unfold commitMigrationCore
  simp only [hf]
  cases tagNone with
  | true => exact Or.inl ⟨_, rfl⟩
  | false =>
    simp only [Bool.false_eq_true, if_false]
    cases h1 : findEntry cl.chunks ranges e true with
    | none => exact Or.inl ⟨_, rfl⟩
    | some sp1 =>
      obtain ⟨si, sp⟩ := sp1
      cases h2 : findEntry cl.chunks ranges e false with
      | none => exact Or.inl ⟨_, rfl⟩
      | some dp1 =>
        obtain ⟨di, dp⟩ := dp1
        right
        have hL : InvL cl.chunks := (clusterInv_iff cl).mp hinv
        obtain ⟨m, hmO, hr, hmm, huniq⟩ := commit_found hL h1 h2
        obtain ⟨hinv', hcomp, hlen, hst, htwin⟩ := hL.commit hmO
        have he : m.mm.epoch = e := by rw [hmm]
        refine ⟨m, _, hmO, hr, he, huniq, htwin, rfl, hcomp, ?_, hlen, ?_, hst, (clusterInv_iff _).mpr hinv'⟩
        · simp only
          rw [← hmm, ← hr]
          have : (cl.chunks.map fun c =>
              { c with mig0 := c.mig0.filter (fun m' => !(m'.isMigrating && m'.ranges == m.ranges && m'.mm == m.mm)),
                       mig1 := c.mig1.filter (fun m' => !(m'.isMigrating && m'.ranges == m.ranges && m'.mm == m.mm)) }) =
              dropSrc m.ranges m.mm cl.chunks := rfl
          rw [this, hcomp]
        · rw [migsOf_commitDst, migsOf_dropSrc]

/-- B: `commit_migration` (core) keeps `StoreInv` -/
theorem storeInv_commitMigrationCore (s : Store) (name : String) (ranges : RangeList) (e : Nat)
    (tagNone : Bool) (h : StoreInv s) : StoreInv (commitMigrationCore s name ranges e tagNone).1 := by
  cases hf : s.findCluster name with
  | none => unfold commitMigrationCore; simp only [hf]; exact h
  | some cl =>
    rcases commitMigrationCore_spec s name ranges e tagNone cl hf (h.find hf) with
      ⟨err, he⟩ | ⟨m, cs', _, _, _, _, _, _, _, heq, _, _, _, hinv⟩
    · rw [he]; exact h
    · rw [heq]; exact StoreInv.of_clusters_eq (h.setCluster hinv) rfl

/-- B + C: `MetaStore::commit_migration` (with or without `clear_free_nodes`) keeps `StoreInv` -/
theorem storeInv_commitMigration (s : Store) (name : String) (ranges : RangeList) (e : Nat)
    (tagNone clear : Bool) (h : StoreInv s) : StoreInv (commitMigration s name ranges e tagNone clear).1 := by
  have h1 := storeInv_commitMigrationCore s name ranges e tagNone h
  unfold commitMigration
  generalize commitMigrationCore s name ranges e tagNone = r at h1 ⊢
  obtain ⟨s1, res⟩ := r
  cases res with
  | ok u =>
    cases u
    simp only at h1 ⊢
    split
    · exact storeInv_autoDeleteFreeNodesIfExists s1 name h1
    · exact h1
  | err e => exact h1
  | panic w => exact h1
  | badChoice w => exact h1

/-- `commit_migration` never panics (it has no `expect` that can fail) on an invariant store -/
theorem commitMigrationCore_no_panic (s : Store) (name : String) (ranges : RangeList) (e : Nat)
    (tagNone : Bool) (h : StoreInv s) : (commitMigrationCore s name ranges e tagNone).2.isPanic = false := by
  cases hf : s.findCluster name with
  | none => unfold commitMigrationCore; simp only [hf]; rfl
  | some cl =>
    rcases commitMigrationCore_spec s name ranges e tagNone cl hf (h.find hf) with
      ⟨err, he⟩ | ⟨m, cs', _, _, _, _, _, _, _, heq, _⟩
    · rw [he]; rfl
    · rw [heq]; rfl

end Um.Broker
