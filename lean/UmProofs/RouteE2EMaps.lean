import UmProofs.RouteE2EView
import UmProofs.RouteE2EWire
import UmProofs.Route
/-!
# C02, map layer: from the served proxy view to the proxy's slot maps

`HasRange M x sr` = node (or peer proxy) `x` carries slot range `sr` in the node map `M`.
Everything the routing proofs need about `encodeFor`, the wire and `SlotMap::from_ranges` is
expressed through it:

* `hasRange_encodeFor_loc` / `hasRange_encodeFor_peer`: what the coordinator puts into the local /
  peer map of proxy `a` (masters on `a`; masters elsewhere, keyed by their proxy);
* `WireFaithful.hasRange_loc` / `_peer`: the wire preserves it (both encodings, any group order);
* `lookup_rangesOfMap_*`: what `SlotMap::get` answers, in terms of `HasRange`.
-/
namespace Um.E2E
open Um Um.Broker Um.Route Um.Slots

/-! ## `hmInsert` folds with distinct keys are `map` -/

theorem hmInsert_fresh {α : Type} (k : String) (v : α) :
    ∀ (m : List (String × α)), k ∉ m.map (·.1) → hmInsert k v m = m ++ [(k, v)] := by
  intro m
  induction m with
  | nil => intro _; rfl
  | cons e r ih =>
    intro h
    simp only [List.map_cons, List.mem_cons, not_or] at h
    have hne : (e.1 == k) = false := by
      cases hb : (e.1 == k) with
      | false => rfl
      | true => exact absurd (beq_iff_eq.mp hb).symm h.1
    simp only [hmInsert, hne, Bool.false_eq_true, if_false, List.cons_append]
    rw [ih h.2]

theorem foldl_hmInsert {α β : Type} (key : β → String) (val : β → α) :
    ∀ (l : List β) (acc : List (String × α)), (l.map key).Nodup → (∀ b ∈ l, key b ∉ acc.map (·.1)) →
      l.foldl (fun m b => hmInsert (key b) (val b) m) acc = acc ++ l.map fun b => (key b, val b) := by
  intro l
  induction l with
  | nil => intro acc _ _; simp
  | cons b bs ih =>
    intro acc hnd hfresh
    rw [List.map_cons, List.nodup_cons] at hnd
    rw [List.foldl_cons, hmInsert_fresh _ _ _ (hfresh b (by simp))]
    rw [ih _ hnd.2]
    · simp
    · intro b' hb'
      simp only [List.map_append, List.map_cons, List.map_nil, List.mem_append, List.mem_cons,
        List.not_mem_nil, or_false, not_or]
      refine ⟨hfresh b' (by simp [hb']), ?_⟩
      intro he
      exact hnd.1 (by rw [← he]; exact List.mem_map.mpr ⟨b', hb', rfl⟩)

theorem nodeMapOf_eq (ns : List VNode) (h : (ns.map (·.address)).Nodup) :
    nodeMapOf ns = ns.map fun n => (n.address, n.slots) := by
  unfold nodeMapOf
  rw [foldl_hmInsert (·.address) (·.slots) ns [] h (by simp)]
  simp

theorem peerMapOf_eq (ps : List VPeer) (h : (ps.map (·.proxy)).Nodup) :
    peerMapOf ps = ps.map fun q => (q.proxy, q.slots) := by
  unfold peerMapOf
  rw [foldl_hmInsert (·.proxy) (·.slots) ps [] h (by simp)]
  simp

/-! ## `HasRange` -/

/-- node map `M` gives address `x` the slot range `sr` -/
def HasRange (M : SNodeMap) (x : String) (sr : SlotRange) : Prop := ∃ srs, (x, srs) ∈ M ∧ sr ∈ srs

theorem hasRange_dropEmpty (M : SNodeMap) (x : String) (sr : SlotRange) :
    HasRange (dropEmptyMap M) x sr ↔ HasRange M x sr := by
  unfold HasRange dropEmptyMap
  constructor
  · rintro ⟨srs, hm, hs⟩
    exact ⟨srs, (List.mem_filter.mp hm).1, hs⟩
  · rintro ⟨srs, hm, hs⟩
    refine ⟨srs, List.mem_filter.mpr ⟨hm, ?_⟩, hs⟩
    cases srs with
    | nil => cases hs
    | cons _ _ => rfl

theorem hasRange_perm {M M' : SNodeMap} (h : M.Perm M') (x : String) (sr : SlotRange) :
    HasRange M x sr ↔ HasRange M' x sr := by
  unfold HasRange
  constructor
  · rintro ⟨srs, hm, hs⟩; exact ⟨srs, h.mem_iff.mp hm, hs⟩
  · rintro ⟨srs, hm, hs⟩; exact ⟨srs, h.mem_iff.mpr hm, hs⟩

theorem WireFaithful.hasRange_loc {m m' : EMeta} (h : WireFaithful m m') (x : String) (sr : SlotRange) :
    HasRange m'.loc x sr ↔ HasRange m.loc x sr := by
  rw [← hasRange_dropEmpty m'.loc, ← hasRange_dropEmpty m.loc]
  exact hasRange_perm h.loc x sr

theorem WireFaithful.hasRange_peer {m m' : EMeta} (h : WireFaithful m m') (x : String) (sr : SlotRange) :
    HasRange m'.peer x sr ↔ HasRange m.peer x sr := by
  rw [← hasRange_dropEmpty m'.peer, ← hasRange_dropEmpty m.peer]
  exact hasRange_perm h.peer x sr

/-! ## what the coordinator generates for proxy `a` of view `v` -/

/-- the master nodes the view places on proxy `a` (= the nodes of `filter_proxy_masters`) -/
def mastersOn (v : VCluster) (a : String) : List VNode :=
  (v.nodes.filter fun n => n.proxy == a).filter fun n => !n.replica

theorem mem_mastersOn (v : VCluster) (a : String) (n : VNode) :
    n ∈ mastersOn v a ↔ n ∈ v.nodes ∧ n.proxy = a ∧ n.replica = false := by
  unfold mastersOn
  simp only [List.mem_filter, beq_iff_eq, Bool.not_eq_eq_eq_not, Bool.not_true]
  constructor
  · rintro ⟨⟨h1, h2⟩, h3⟩; exact ⟨h1, h2, h3⟩
  · rintro ⟨h1, h2, h3⟩; exact ⟨⟨h1, h2⟩, h3⟩

/-- address hygiene of a served view (C01 resource invariants, operator input): master nodes on
one proxy have pairwise distinct addresses, and every proxy view lists each peer proxy once -/
structure AddrOk (v : VCluster) : Prop where
  localNodup : ∀ a, ((mastersOn v a).map (·.address)).Nodup
  peersNodup : ∀ a, ((proxyOfView a v).peers.map (·.proxy)).Nodup

theorem encodeFor_loc (c : Bool) (v : VCluster) (a : String) (h : AddrOk v) :
    (encodeFor c (proxyOfView a v)).loc = (mastersOn v a).map fun n => (n.address, n.slots) :=
  nodeMapOf_eq _ (h.localNodup a)

theorem encodeFor_peer (c : Bool) (v : VCluster) (a : String) (h : AddrOk v) :
    (encodeFor c (proxyOfView a v)).peer = (proxyOfView a v).peers.map fun q => (q.proxy, q.slots) :=
  peerMapOf_eq _ (h.peersNodup a)

theorem encodeFor_cluster (c : Bool) (v : VCluster) (a : String) :
    (encodeFor c (proxyOfView a v)).cluster = v.name := rfl

theorem encodeFor_epoch (c : Bool) (v : VCluster) (a : String) :
    (encodeFor c (proxyOfView a v)).epoch = v.epoch := rfl

/-- local map of proxy `a`: exactly the slot ranges of the masters placed on `a`, by node address -/
theorem hasRange_encodeFor_loc (c : Bool) (v : VCluster) (a : String) (h : AddrOk v) (x : String) (sr : SlotRange) :
    HasRange (encodeFor c (proxyOfView a v)).loc x sr ↔
      ∃ n ∈ v.nodes, n.proxy = a ∧ n.replica = false ∧ n.address = x ∧ sr ∈ n.slots := by
  rw [encodeFor_loc c v a h]
  unfold HasRange
  constructor
  · rintro ⟨srs, hm, hs⟩
    obtain ⟨n, hn, he⟩ := List.mem_map.mp hm
    obtain ⟨h1, h2, h3⟩ := (mem_mastersOn v a n).mp hn
    simp only [Prod.mk.injEq] at he
    exact ⟨n, h1, h2, h3, he.1, by rw [he.2]; exact hs⟩
  · rintro ⟨n, h1, h2, h3, h4, h5⟩
    exact ⟨n.slots, List.mem_map.mpr ⟨n, (mem_mastersOn v a n).mpr ⟨h1, h2, h3⟩, by rw [h4]⟩, h5⟩

/-- peer map of proxy `a`: exactly the slot ranges of the masters placed elsewhere, by proxy address -/
theorem hasRange_encodeFor_peer (c : Bool) (v : VCluster) (a : String) (h : AddrOk v) (b : String) (sr : SlotRange) :
    HasRange (encodeFor c (proxyOfView a v)).peer b sr ↔
      b ≠ a ∧ ∃ n ∈ v.nodes, n.proxy = b ∧ n.replica = false ∧ sr ∈ n.slots := by
  rw [encodeFor_peer c v a h]
  unfold HasRange
  constructor
  · rintro ⟨srs, hm, hs⟩
    obtain ⟨q, hq, he⟩ := List.mem_map.mp hm
    simp only [Prod.mk.injEq] at he
    have hs' : sr ∈ q.slots := by rw [he.2]; exact hs
    obtain ⟨n, hn, hnp, hns⟩ := groupPeers_origin _ q sr hq hs'
    obtain ⟨hn1, hn2⟩ := List.mem_filter.mp hn
    simp only [Bool.and_eq_true, Bool.not_eq_eq_eq_not, Bool.not_true, bne_iff_ne, ne_eq] at hn2
    refine ⟨?_, n, hn1, by rw [hnp, he.1], hn2.1, hns⟩
    rw [← he.1, ← hnp]; exact hn2.2
  · rintro ⟨hba, n, hn, hnp, hnr, hns⟩
    have hmem : sr ∈ ((proxyOfView a v).peers.filter (·.proxy == b)).flatMap (·.slots) := by
      rw [proxy_peer_ranges a b v]
      refine List.mem_flatMap.mpr ⟨n, List.mem_filter.mpr ⟨hn, ?_⟩, hns⟩
      simp [hnr, hnp, hba]
    obtain ⟨q, hq, hqs⟩ := List.mem_flatMap.mp hmem
    obtain ⟨hq1, hq2⟩ := List.mem_filter.mp hq
    exact ⟨q.slots, List.mem_map.mpr ⟨q, hq1, by rw [beq_iff_eq.mp hq2]⟩, hqs⟩

/-! ## `SlotMap::from_ranges` / `get` in terms of `HasRange` -/

theorem covers_flatMap (srs : List SlotRange) (s : Nat) :
    covers (srs.flatMap (·.ranges)) s = true ↔ ∃ sr ∈ srs, covers sr.ranges s = true := by
  unfold covers
  simp only [List.any_flatMap, List.any_eq_true]

/-- `x` lists slot `s` in the slot map built from `M` -/
def Lists (M : SNodeMap) (x : String) (s : Nat) : Prop := ∃ sr, HasRange M x sr ∧ s ∈ slotsOf sr.ranges

theorem lists_iff (M : SNodeMap) (x : String) (s : Nat) :
    (∃ rs, (x, rs) ∈ rangesOfMap M ∧ covers rs s = true) ↔ Lists M x s := by
  unfold Lists HasRange rangesOfMap
  constructor
  · rintro ⟨rs, hm, hc⟩
    obtain ⟨e, he, heq⟩ := List.mem_map.mp hm
    simp only [Prod.mk.injEq] at heq
    rw [← heq.2, covers_flatMap] at hc
    obtain ⟨sr, hsr, hcs⟩ := hc
    exact ⟨sr, ⟨e.2, by rw [← heq.1]; exact he, hsr⟩, (covers_iff_mem _ _).mp hcs⟩
  · rintro ⟨sr, ⟨srs, hm, hs⟩, hc⟩
    refine ⟨srs.flatMap (·.ranges), List.mem_map.mpr ⟨(x, srs), hm, rfl⟩, ?_⟩
    rw [covers_flatMap]
    exact ⟨sr, hs, (covers_iff_mem _ _).mpr hc⟩

theorem lookup_rangesOfMap_some {M : SNodeMap} {s : Nat} {x : String}
    (h : lookup (rangesOfMap M) s = some x) : Lists M x s := by
  obtain ⟨_, rs, hm, hc⟩ := lookup_some h
  exact (lists_iff M x s).mp ⟨rs, hm, hc⟩

theorem lookup_rangesOfMap_unique {M : SNodeMap} {s : Nat} {x : String} (hs : s < SLOT_NUM)
    (hex : Lists M x s) (huniq : ∀ y, Lists M y s → y = x) : lookup (rangesOfMap M) s = some x := by
  apply lookup_unique hs ((lists_iff M x s).mpr hex)
  intro n hn hc
  exact huniq n.1 ((lists_iff M n.1 s).mp ⟨n.2, hn, hc⟩)

theorem lookup_rangesOfMap_none {M : SNodeMap} {s : Nat} (h : ∀ y, ¬ Lists M y s) :
    lookup (rangesOfMap M) s = none := by
  cases hl : lookup (rangesOfMap M) s with
  | none => rfl
  | some x => exact absurd (lookup_rangesOfMap_some hl) (h x)

end Um.E2E
