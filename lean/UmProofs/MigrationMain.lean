import UmProofs.MigrationStepH
import UmProofs.MigrationStepI
import UmProofs.MigrationIds
import UmProofs.MigrationStepA
/-! C03: every good step preserves `MigInv` and is a `RegisterStep`; induction over executions. -/
namespace Um.Mig

theorem opOk_nextId {s s' : Sys} {o : Op} (h : OpOk s o) (hn : s.nextId ≤ s'.nextId)
    (hsame : s'.src = s.src ∧ s'.dst = s.dst ∧ s'.srcSt = s.srcSt ∧ s'.dstSt = s.dstSt ∧ s'.dstTask = s.dstTask ∧
      s'.crit = s.crit ∧ s'.scan = s.scan) : OpOk s' o := by
  obtain ⟨h1, h2, h3, h4, h5, h6, h7⟩ := hsame
  refine opOk_frame h hn (fun _ => by rw [h3]; exact id) (by rw [h5]; exact id) (by rw [h4]; exact id)
    (by unfold Moved; rw [h1, h2]; exact id) (by rw [h1]; exact id)
    (by unfold critDump; rw [h6]; exact fun _ h => h) (by rw [h7]; exact fun _ h => h)

/-- a new client op is accepted -/
theorem step_inv {s s' : Sys} {oid : OpId} {p : Proxy} {c : Cmd} (hG : GInv s) (hO : OInv s) (hW : WF s)
    (hgood : c.deletes = true → c.blocking = true)
    (hs : step? s (.inv oid p c) = some s') :
    (GInv s' ∧ OInv s' ∧ WF s') ∧ logical s' = logical s := by
  by_cases hid : oid < s.nextId
  · simp [step?, hid] at hs
  simp only [step?, hid, if_false] at hs
  have hs' := Option.some.inj hs
  subst hs'
  have hid' : s.nextId ≤ oid := Nat.le_of_not_lt hid
  let o : Op := { id := oid, cmd := c, pc := .fwd p }
  let s1 : Sys := { s with ops := s.ops ++ [o], nextId := oid + 1 }
  have hG1 : GInv s1 := by
    have hg8 : ∀ k, s.crit = some k → k.pc ≠ .tail →
        ∀ o' ∈ s.ops ++ [o], o'.id = k.id → o'.pc = .inCrit ∧ (k.pc.isPull = true → o'.cmd.blocking = false) := by
      intro k hk ht o' ho' hoid
      simp only [List.mem_append, List.mem_singleton] at ho'
      rcases ho' with ho' | rfl
      · exact hG.g8 k hk ht o' ho' hoid
      · have h1 : k.id < s.nextId := hG.g9 k hk
        have h2 : oid = k.id := hoid
        rw [← h2] at h1
        exact absurd h1 (Nat.not_lt.mpr hid')
    obtain ⟨a1, a2, a3a, a3b, a4a, a4b, a5a, a5b, a6, b1, b2, b2', b3a, b3b, b4a, b4b, b4c, b5a, b5b, b6a, b6b, b7, b8, g8, g9⟩ := hG
    constructor <;> first
      | exact hg8
      | (intro k hk; have h1 : k.id < s.nextId := g9 k hk; exact Nat.lt_succ_of_le (Nat.le_trans (Nat.le_of_lt h1) hid'))
      | (simp only [critDump, Moved, s1] at * ; mig_grind)
  have hO1 : OInv s1 := by
    intro o' ho'
    simp only [s1, List.mem_append, List.mem_singleton] at ho'
    rcases ho' with ho' | rfl
    · exact opOk_nextId (hO o' ho') (Nat.le_succ_of_le hid') ⟨rfl, rfl, rfl, rfl, rfl, rfl, rfl⟩
    · exact ⟨Nat.lt_succ_self oid, hgood, trivial⟩
  have hW1 : WF s1 := by
    unfold WF ids
    simp only [s1, List.map_append, List.map_cons, List.map_nil]
    rw [List.nodup_append]
    refine ⟨hW, by simp, ?_⟩
    intro a ha b hb
    simp only [List.mem_singleton] at hb
    simp only [List.mem_map] at ha
    obtain ⟨o', ho', hoa⟩ := ha
    have h1 : o'.id < s.nextId := (hO o' ho').1
    rw [hb, ← hoa]
    intro h2
    rw [h2] at h1
    exact absurd h1 (Nat.not_lt.mpr hid')
  have hmem : o ∈ s1.ops := by simp [s1]
  have hr := step_route (s := s1) (o := o) p hG1 hO1 hW1 hmem (by simp [o])
  exact ⟨⟨hr.1, hr.2, wf_route hW1 _ _ _⟩, logical_route _ _ _ _⟩

/-- a client op gets its reply -/
theorem step_ret {s s' : Sys} {oid : OpId} {r : Rep} (hG : GInv s) (hO : OInv s) (hW : WF s)
    (hs : step? s (.ret oid r) = some s') :
    (GInv s' ∧ OInv s' ∧ WF s') ∧ logical s' = logical s := by
  simp only [step?, bind, Option.bind] at hs
  split at hs
  · simp at hs
  rename_i o hf
  obtain ⟨hg, rfl⟩ := guard_some hs
  have hsub : ∀ o' ∈ (removeOp s oid).ops, o' ∈ s.ops := by
    intro o' ho'; simp only [removeOp, List.mem_filter] at ho'; exact ho'.1
  refine ⟨⟨?_, ?_, wf_removeOp hW oid⟩, rfl⟩
  · exact ginv_ops hG (fun k hk ht o' ho' => hG.g8 k hk ht o' (hsub o' ho'))
  · intro o' ho'
    exact opOk_nextId (hO o' (hsub o' ho')) (Nat.le_refl _) ⟨rfl, rfl, rfl, rfl, rfl, rfl, rfl⟩

theorem step_exe_op_eq (s : Sys) (oid : OpId) (n : Node) (c : BCmd) (r : Rep) :
    step? s (.exe (.op oid) n c r) = (findOp s oid).bind (fun o => exeOp s o n c r) := rfl

theorem step_exe_crit_eq (s : Sys) (n : Node) (c : BCmd) (r : Rep) :
    step? s (.exe .crit n c r) = s.crit.bind (fun k => exeCrit s k n c r) := rfl

theorem wf_of_ids {s s' : Sys} (hW : WF s) (h : ids s' = ids s) : WF s' := by
  unfold WF; rw [h]; exact hW

/-- **the invariant is inductive and every good step refines the atomic register** -/
theorem inv_step {s s' : Sys} {l : Label} (h : MigInv s) (hgood : GoodStep s l) (hs : step? s l = some s') :
    MigInv s' ∧ RegisterStep s l s' := by
  obtain ⟨hG, hO, hW⟩ := h
  cases l with
  | inv oid p c =>
    obtain ⟨⟨g, o, w⟩, hl⟩ := step_inv hG hO hW (deletes_blocking c) hs
    exact ⟨⟨g, o, w⟩, hl⟩
  | ret oid r =>
    obtain ⟨⟨g, o, w⟩, hl⟩ := step_ret hG hO hW hs
    exact ⟨⟨g, o, w⟩, hl⟩
  | exe a n c r =>
    cases a with
    | op oid =>
      rw [step_exe_op_eq] at hs
      cases hf : findOp s oid with
      | none => rw [hf] at hs; simp at hs
      | some o =>
      rw [hf] at hs
      replace hs : exeOp s o n c r = some s' := hs
      obtain ⟨ho, hoid⟩ := findOp_some hf
      have hids := ids_exeOp hs
      have hoo := hO o ho
      unfold exeOp at hs
      split at hs
      · -- direct
        rename_i m c' hpc
        split at hs
        · rename_i hmc
          obtain ⟨rfl, rfl⟩ := hmc
          cases m with
          | src =>
            obtain ⟨⟨g, o'⟩, h1, h2⟩ := step_cmd_src hG hO ho hpc hs
            exact ⟨⟨g, o', wf_of_ids hW hids⟩, h1, h2⟩
          | dst =>
            simp only [OpOk, hpc] at hoo
            have hpre : s.dstSt ≠ .preCheck := by
              have := hG.a3b (hG.a4b hoo.2.2.1); rw [this]; simp
            obtain ⟨⟨g, o'⟩, h1, h2⟩ := step_cmd_dst hG hO ho (by rw [hpc]; simp) ⟨hpre, hoo.2.2.2⟩ hs
            exact ⟨⟨g, o', wf_of_ids hW hids⟩, h1, h2⟩
        · simp at hs
      · -- pCmd
        rename_i c' hpc
        split at hs
        · rename_i hc; subst hc
          simp only [OpOk, hpc] at hoo
          obtain ⟨⟨g, o'⟩, h1, h2⟩ := step_cmd_dst hG hO ho (by rw [hpc]; simp) hoo.2.2 hs
          exact ⟨⟨g, o', wf_of_ids hW hids⟩, h1, h2⟩
        · simp at hs
      · rename_i hpc
        obtain ⟨⟨g, o'⟩, h1⟩ := step_exists hG hO hW ho hpc hs
        exact ⟨⟨g, o', wf_of_ids hW hids⟩, h1⟩
      · simp at hs
    | crit =>
      rw [step_exe_crit_eq] at hs
      cases hk : s.crit with
      | none => rw [hk] at hs; simp at hs
      | some k =>
      rw [hk] at hs
      replace hs : exeCrit s k n c r = some s' := hs
      obtain ⟨⟨g, o⟩, hl⟩ := step_exeCrit hG hO hk hs
      refine ⟨⟨g, o, wf_of_ids hW (ids_exeCrit hs)⟩, ?_⟩
      cases c <;> exact hl
    | scan =>
      simp only [step?] at hs
      obtain ⟨⟨g, o⟩, hl⟩ := step_exeScan hG hO hs
      refine ⟨⟨g, o, wf_of_ids hW (ids_exeScan hs)⟩, ?_⟩
      cases c <;> exact hl
    | aux =>
      simp only [step?] at hs
      obtain ⟨⟨g, o⟩, hl⟩ := step_exeAux hG hO hs
      refine ⟨⟨g, o, wf_of_ids hW (ids_guard hs rfl)⟩, ?_⟩
      cases c <;> exact hl
  | dlvFwd oid =>
    simp only [step?, bind, Option.bind] at hs
    split at hs
    · simp at hs
    rename_i o hf
    obtain ⟨ho, hoid⟩ := findOp_some hf
    simp only at hs
    split at hs
    · rename_i p hpc
      have hs' := Option.some.inj hs
      subst hs'
      subst hoid
      have hr := step_route p hG hO hW ho (by rw [hpc]; simp)
      exact ⟨⟨hr.1, hr.2, wf_route hW _ _ _⟩, logical_route _ _ _ _⟩
    · simp at hs
  | dlvSync b =>
    have hids : ids s' = ids s := by
      simp only [step?, bind, Option.bind] at hs
      split at hs
      · simp at hs
      simp only at hs
      (repeat' split at hs) <;> first | (simp at hs; done) | (cases hs; rfl)
    obtain ⟨⟨g, o⟩, hl⟩ := step_dlvSync hG hO hs
    exact ⟨⟨g, o, wf_of_ids hW hids⟩, hl⟩
  | dlvPreCheck =>
    obtain ⟨⟨g, o⟩, hl⟩ := step_handshake hG hO (Or.inl rfl) hs
    exact ⟨⟨g, o, wf_of_ids hW (by simp only [step?] at hs; exact ids_guard hs rfl)⟩, hl⟩
  | dlvPreSwitch =>
    obtain ⟨⟨g, o⟩, hl⟩ := step_handshake hG hO (Or.inr (Or.inl rfl)) hs
    exact ⟨⟨g, o, wf_of_ids hW (by simp only [step?] at hs; exact ids_guard hs rfl)⟩, hl⟩
  | dlvFinalSwitch =>
    obtain ⟨⟨g, o⟩, hl⟩ := step_handshake hG hO (Or.inr (Or.inr (Or.inl rfl))) hs
    exact ⟨⟨g, o, wf_of_ids hW (by simp only [step?] at hs; exact ids_guard hs rfl)⟩, hl⟩
  | commit p =>
    cases p with
    | S =>
      obtain ⟨⟨g, o⟩, hl⟩ := step_handshake hG hO (Or.inr (Or.inr (Or.inr (Or.inl rfl)))) hs
      exact ⟨⟨g, o, wf_of_ids hW (by simp only [step?] at hs; exact ids_guard hs rfl)⟩, hl⟩
    | D =>
      obtain ⟨⟨g, o⟩, hl⟩ := step_handshake hG hO (Or.inr (Or.inr (Or.inr (Or.inr ⟨rfl, hgood rfl⟩)))) hs
      exact ⟨⟨g, o, wf_of_ids hW (by simp only [step?] at hs; exact ids_guard hs rfl)⟩, hl⟩
  | syncFault b =>
    have hids : ids s' = ids s := by
      simp only [step?] at hs
      split at hs
      · exact ids_guard hs rfl
      · exact ids_guard hs rfl
      · cases hs; cases b <;> rfl
      · simp at hs
    obtain ⟨⟨g, o⟩, hl⟩ := step_syncFault hG hO hs
    exact ⟨⟨g, o, wf_of_ids hW hids⟩, hl⟩
  | scanFault =>
    have hids : ids s' = ids s := by
      simp only [step?] at hs
      (repeat' split at hs) <;> first | (simp at hs; done) | (cases hs; rfl)
    obtain ⟨⟨g, o⟩, hl⟩ := step_scanFault hG hO hs
    exact ⟨⟨g, o, wf_of_ids hW hids⟩, hl⟩
  | tau t =>
    have hids := ids_stepTau (show stepTau s t = some s' from hs)
    have hW' := wf_of_ids hW hids
    have key : (GInv s' ∧ OInv s') ∧ logical s' = logical s := by
      cases t with
      | existsKeyThere oid => exact step_tau_ops hG hO hW (Or.inl ⟨oid, rfl⟩) hs
      | existsLock oid => exact step_tau_ops hG hO hW (Or.inr (Or.inl ⟨oid, rfl⟩)) hs
      | existsRetry oid => exact step_tau_ops hG hO hW (Or.inr (Or.inr (Or.inl ⟨oid, rfl⟩))) hs
      | pendingLock oid => exact step_tau_ops hG hO hW (Or.inr (Or.inr (Or.inr (Or.inl ⟨oid, rfl⟩)))) hs
      | pendingTimeout oid => exact step_tau_ops hG hO hW (Or.inr (Or.inr (Or.inr (Or.inr ⟨oid, rfl⟩)))) hs
      | entryNone => exact step_tau_unlock hG hO hW (Or.inl rfl) hs
      | restoreDone => exact step_tau_unlock hG hO hW (Or.inr (Or.inl rfl)) hs
      | syncDone => exact step_tau_unlock hG hO hW (Or.inr (Or.inr rfl)) hs
      | redispatch oid =>
        simp only [step?, stepTau, bind, Option.bind] at hs
        split at hs
        · simp at hs
        rename_i o hf
        obtain ⟨ho, hoid⟩ := findOp_some hf
        simp only at hs
        split at hs
        · rename_i hb
          have hs' := Option.some.inj hs
          subst hs'
          subst hoid
          simp only [Bool.and_eq_true, beq_iff_eq] at hb
          have hr := step_route .S hG hO hW ho (by rw [hb.1]; simp)
          exact ⟨hr, logical_route _ _ _ _⟩
        · simp at hs
      | scanLock => exact step_tau_scan hG hO (Or.inl rfl) hs
      | scanSlow => exact step_tau_scan hG hO (Or.inr (Or.inl rfl)) hs
      | scanEnd => exact step_tau_scan hG hO (Or.inr (Or.inr (Or.inl rfl))) hs
      | scanFinish => exact step_tau_scan hG hO (Or.inr (Or.inr (Or.inr rfl))) hs
      | srcPreCheckOk => exact step_tau_global hG hO (Or.inl rfl) hs
      | startBlocking => exact step_tau_global hG hO (Or.inr (Or.inl rfl)) hs
      | blockingDone => exact step_tau_global hG hO (Or.inr (Or.inr (Or.inl rfl))) hs
      | srcPreSwitchOk => exact step_tau_global hG hO (Or.inr (Or.inr (Or.inr (Or.inl rfl)))) hs
      | stopBlocking => exact step_tau_global hG hO (Or.inr (Or.inr (Or.inr (Or.inr (Or.inl rfl))))) hs
      | srcFinalSwitchOk => exact step_tau_global hG hO (Or.inr (Or.inr (Or.inr (Or.inr (Or.inr rfl))))) hs
    exact ⟨⟨key.1.1, key.1.2, hW'⟩, key.2⟩

end Um.Mig
