import UmProofs.BrokerFailoverView
/-!
# C06 — what `takeoverMaster` does to the stored cluster

`failedAt p chunks = some (k, h)`: chunk `k` is the first chunk carrying proxy `p`, on half `h`.
`takeoverFirst` is characterised exactly (`takeoverFirst_eq`), then the whole cluster after
`takeoverMaster` (`tkChunks`): only the role position of chunk `k` and migration epochs change.
-/
namespace Um.Broker.C06
open Um Um.Slots Um.Gen.Chunk

/-- first chunk (and half) carrying proxy `p` — the chunk `takeover_master`/`replace_failed_proxy` act on -/
def failedAt (p : String) : List Chunk → Option (Nat × Nat)
  | [] => none
  | c :: rest =>
    if c.proxy0 == p then some (0, 0)
    else if c.proxy1 == p then some (0, 1)
    else (failedAt p rest).map fun kh => (kh.1 + 1, kh.2)

/-- role position after half `h` failed: masters on the other half -/
def newRole (h : Nat) : RolePos := if h = 0 then .second else .first

/-- part `q` of a chunk in role position `r` is served by the proxy of half `h` -/
def movedPart (r : RolePos) (h q : Nat) : Bool := partToProxyIndex q r == some h

def bumpEpoch (e : Nat) (m : MigStore) : MigStore := { m with mm := { m.mm with epoch := e } }

theorem bumpEntries_eq (l : List MigStore) (e : Nat) : bumpEntries l e = l.map (bumpEpoch e) := rfl

/-- chunk `k` after the first loop of `takeover_master` -/
def tfChunk (h e : Nat) (c : Chunk) : Chunk :=
  { c with role := newRole h,
           mig0 := if movedPart c.role h 0 then bumpEntries c.mig0 e else c.mig0,
           mig1 := if movedPart c.role h 1 then bumpEntries c.mig1 e else c.mig1 }

/-- `peer_position` after the first loop: the positions named by the entries stored in the moved parts -/
def tfPos (h : Nat) (c : Chunk) : List (Nat × Nat) :=
  (if movedPart c.role h 0 then positionsOf c.mig0 else []) ++
  (if movedPart c.role h 1 then positionsOf c.mig1 else [])

theorem failedAt_some {p : String} {chunks : List Chunk} {k h : Nat} (hf : failedAt p chunks = some (k, h)) :
    ∃ c, chunks[k]? = some c ∧ h < 2 ∧ c.proxyAt h = some p ∧ (h = 1 → c.proxy0 ≠ p) ∧
      ∀ i c', i < k → chunks[i]? = some c' → c'.proxy0 ≠ p ∧ c'.proxy1 ≠ p := by
  induction chunks generalizing k with
  | nil => simp [failedAt] at hf
  | cons c rest ih =>
    unfold failedAt at hf
    by_cases h0 : c.proxy0 == p
    · simp only [h0, if_true, Option.some.injEq, Prod.mk.injEq] at hf
      obtain ⟨rfl, rfl⟩ := hf
      exact ⟨c, by simp, by omega, by simpa [Chunk.proxyAt] using h0, by omega, by intro i c' hi; omega⟩
    · by_cases h1 : c.proxy1 == p
      · simp only [h0, h1, if_true] at hf
        obtain ⟨rfl, rfl⟩ := hf
        exact ⟨c, by simp, by omega, by simpa [Chunk.proxyAt] using h1, by intro _; simpa using h0,
          by intro i c' hi; omega⟩
      · simp only [h0, h1, Bool.false_eq_true, if_false, Option.map_eq_some_iff] at hf
        obtain ⟨⟨k', h'⟩, hf', he⟩ := hf
        simp only [Prod.mk.injEq] at he
        obtain ⟨rfl, rfl⟩ := he
        obtain ⟨c2, hc2, hh, hp, hq, hlt⟩ := ih hf'
        refine ⟨c2, by simpa using hc2, hh, hp, hq, ?_⟩
        intro i c' hi hc'
        cases i with
        | zero => simp at hc'; subst hc'; exact ⟨by simpa using h0, by simpa using h1⟩
        | succ i => exact hlt i c' (by omega) (by simpa using hc')

theorem failedAt_none {p : String} {chunks : List Chunk} (hf : failedAt p chunks = none) :
    ∀ c ∈ chunks, c.proxy0 ≠ p ∧ c.proxy1 ≠ p := by
  induction chunks with
  | nil => simp
  | cons c rest ih =>
    unfold failedAt at hf
    by_cases h0 : c.proxy0 == p
    · simp [h0] at hf
    · by_cases h1 : c.proxy1 == p
      · simp [h0, h1] at hf
      · simp only [h0, h1, Bool.false_eq_true, if_false, Option.map_eq_none_iff] at hf
        intro c' hc'
        simp only [List.mem_cons] at hc'
        rcases hc' with rfl | hc'
        · exact ⟨by simpa using h0, by simpa using h1⟩
        · exact ih hf c' hc'

theorem failedAt_isSome_of_mem {p : String} {chunks : List Chunk}
    (h : p ∈ chunks.flatMap fun ch => [ch.proxy0, ch.proxy1]) : ∃ k hh, failedAt p chunks = some (k, hh) := by
  cases hf : failedAt p chunks with
  | some kh => exact ⟨kh.1, kh.2, rfl⟩
  | none =>
    exfalso
    simp only [List.mem_flatMap, List.mem_cons, List.not_mem_nil, or_false] at h
    obtain ⟨c, hc, h | h⟩ := h
    · exact (failedAt_none hf c hc).1 h.symm
    · exact (failedAt_none hf c hc).2 h.symm

/-- exact behaviour of the first loop of `takeover_master` -/
theorem takeoverFirst_eq (p : String) (e : Nat) (chunks : List Chunk) :
    takeoverFirst p e chunks =
      match failedAt p chunks with
      | none => some (chunks, [])
      | some (k, h) =>
        match chunks[k]? with
        | none => none
        | some c => if c.role = newRole h then none else some (chunks.set k (tfChunk h e c), tfPos h c) := by
  induction chunks with
  | nil => rfl
  | cons c rest ih =>
    unfold takeoverFirst failedAt
    by_cases h0 : c.proxy0 == p
    · simp only [h0, if_true]
      cases hr : c.role <;>
        simp [newRole, tfChunk, tfPos, movedPart, partToProxyIndex, tab2, partToProxyIndexTab, RolePos.idx, hr]
    · by_cases h1 : c.proxy1 == p
      · simp only [h0, h1, if_true]
        cases hr : c.role <;>
          simp [newRole, tfChunk, tfPos, movedPart, partToProxyIndex, tab2, partToProxyIndexTab, RolePos.idx, hr]
      · simp only [h0, h1, ih]
        cases hf : failedAt p rest with
        | none => simp
        | some kh =>
          obtain ⟨k, h⟩ := kh
          simp only [Option.map_some]
          cases hc : rest[k]? with
          | none => simp [hc]
          | some c2 =>
            by_cases hr : c2.role = newRole h <;> simp [hr, hc]

/-! ## the whole cluster after `takeover_master` -/

def srcPos (m : MigStore) : Nat × Nat := (m.mm.srcChunk, m.mm.srcPart)
def dstPos (m : MigStore) : Nat × Nat := (m.mm.dstChunk, m.mm.dstPart)

/-- second loop of `takeover_master` on one entry -/
def tkEntry (pos : List (Nat × Nat)) (e : Nat) (m : MigStore) : MigStore :=
  if pos.contains (srcPos m) || pos.contains (dstPos m) then bumpEpoch e m else m

theorem bumpPeers_eq (pos : List (Nat × Nat)) (e : Nat) (l : List MigStore) :
    bumpPeers pos e l = l.map (tkEntry pos e) := rfl

def bpChunk (pos : List (Nat × Nat)) (e : Nat) (c : Chunk) : Chunk :=
  { c with mig0 := bumpPeers pos e c.mig0, mig1 := bumpPeers pos e c.mig1 }

/-- chunk list after a non-repeat `takeover_master` acting on half `h` of chunk `k` (= `c`) -/
def tkChunks (k h e : Nat) (c : Chunk) (chunks : List Chunk) : List Chunk :=
  (chunks.set k (tfChunk h e c)).map (bpChunk (tfPos h c) e)

theorem tkEntry_nil (e : Nat) (m : MigStore) : tkEntry [] e m = m := by simp [tkEntry]

theorem bpChunk_nil (e : Nat) (c : Chunk) : bpChunk [] e c = c := by
  have h : ∀ l : List MigStore, l.map (tkEntry [] e) = l := fun l => List.map_id'' (tkEntry_nil e) l
  cases c
  simp [bpChunk, bumpPeers_eq, h]

theorem findCluster_bump (s : Store) (name : String) : s.bump.findCluster name = s.findCluster name := rfl

/-- `takeover_master` when the proxy sits in the cluster: a repeat call only bumps the global
epoch; otherwise the cluster gets `tkChunks` and the new epoch -/
theorem takeoverMaster_eq {s : Store} {name p : String} {cl : Cluster} (hcl : s.findCluster name = some cl)
    {k h : Nat} {c : Chunk} (hf : failedAt p cl.chunks = some (k, h)) (hk : cl.chunks[k]? = some c) :
    takeoverMaster s name p =
      if c.role = newRole h then (s.bump, R.ok ())
      else (s.bump.setCluster { cl with chunks := tkChunks k h (s.globalEpoch + 1) c cl.chunks,
                                        epoch := s.globalEpoch + 1 }, R.ok ()) := by
  unfold takeoverMaster
  simp only [findCluster_bump, hcl, takeoverFirst_eq, hf, hk]
  by_cases hr : c.role = newRole h
  · simp [hr]
  · simp only [hr, if_false]
    rfl

/-- `takeover_master` for a proxy that is in no chunk of the named cluster only sets the epochs -/
theorem takeoverMaster_absent {s : Store} {name p : String} {cl : Cluster} (hcl : s.findCluster name = some cl)
    (hf : failedAt p cl.chunks = none) :
    takeoverMaster s name p = (s.bump.setCluster { cl with epoch := s.globalEpoch + 1 }, R.ok ()) := by
  unfold takeoverMaster
  simp only [findCluster_bump, hcl, takeoverFirst_eq, hf]
  have : (cl.chunks.map fun c => { c with mig0 := bumpPeers [] (s.bump.globalEpoch) c.mig0,
                                          mig1 := bumpPeers [] (s.bump.globalEpoch) c.mig1 }) = cl.chunks := by
    have := List.map_id'' (f := bpChunk [] s.bump.globalEpoch) (bpChunk_nil _) cl.chunks
    exact this
  simp only [this]
  rfl

theorem tkChunks_length (k h e : Nat) (c : Chunk) (chunks : List Chunk) :
    (tkChunks k h e c chunks).length = chunks.length := by simp [tkChunks]

theorem tkChunks_getElem? {k h e : Nat} {c : Chunk} {chunks : List Chunk} (hk : chunks[k]? = some c) (i : Nat) :
    (tkChunks k h e c chunks)[i]? =
      (chunks[i]?).map fun x => bpChunk (tfPos h c) e (if i = k then tfChunk h e c else x) := by
  unfold tkChunks
  rw [List.getElem?_map, List.getElem?_set]
  by_cases hik : k = i
  · subst hik
    have hlt : k < chunks.length := by
      apply Classical.byContradiction; intro hn
      rw [List.getElem?_eq_none (by omega)] at hk; cases hk
    simp [hlt]
  · have : ¬ i = k := fun h => hik h.symm
    simp [hik, this]

end Um.Broker.C06
