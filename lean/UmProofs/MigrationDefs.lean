import UmModel.Migration
/-!
# C03 — the statement: the migration model refines an atomic register

`logical s` is the abstract register.  `RegisterStep s l s'` says that step `l` is a correct
refinement step: the execution of a client command is its linearization point (it acts on the
abstract register exactly as `Cmd.apply` says and answers accordingly), every other step leaves
the abstract register unchanged.  A client op gets its reply only from such an execution
(`ret` needs pc `done r`, set by the execution), which lies between invocation and response, so
`RegisterStep` for every step of every execution is linearizability of the history of
acknowledged operations w.r.t. real-time order, with `MOVED`/error replies as no-ops.
-/
namespace Um.Mig

/-- the abstract register: the destination copy wins, otherwise the source copy -/
def logical (s : Sys) : Option Val := s.dst.orElse (fun _ => s.src)

def RegisterStep (s : Sys) (l : Label) (s' : Sys) : Prop :=
  match l with
  | .exe (.op _) _ (.client c) r => r = (c.apply (logical s)).2 ∧ logical s' = (c.apply (logical s)).1
  | _ => logical s' = logical s

/-- nothing in flight, both proxies have installed the committed metadata -/
def Quiescent (s : Sys) : Prop :=
  s.ops = [] ∧ s.crit = none ∧ s.auxDel = 0 ∧ s.scan = .idle ∧ s.srcTask = false ∧ s.dstTask = false

/-- run a list of labels -/
def runLabels (s : Sys) : List Label → Option Sys
  | [] => some s
  | l :: ls => match step? s l with
    | some s' => runLabels s' ls
    | none => none

theorem reach_of_runLabels {s0 s s' : Sys} (h : Reach s0 s) :
    ∀ ls, runLabels s ls = some s' → Reach s0 s' := by
  intro ls
  induction ls generalizing s with
  | nil => intro e; simp [runLabels] at e; exact e ▸ h
  | cons l ls ih =>
    intro e
    unfold runLabels at e
    cases hs : step? s l with
    | none => simp [hs] at e
    | some s1 =>
      simp [hs] at e
      exact ih (Reach.step h ⟨l, hs⟩) e

/-- the DUMP payload the lock holder may still RESTORE -/
def CritPc.held : CritPc → Option Val
  | .pPttl d => d
  | .pRestore v => some v
  | .uFast (.restore v) => some v
  | _ => none

/-- dump held by the key-lock holder, if any -/
def critDump (s : Sys) : Option Val :=
  match s.crit with
  | some k => k.pc.held
  | none => none

/-- executions restricted to the hypothesis under which C03 is provable (finding F03b): the
destination installs the committed metadata only while the key-lock holder (if any) owns no DUMP
that it may still RESTORE.  (The former hypothesis "no deleting command outside
`requires_blocking_migration` is issued", finding F03a, is discharged by the classification
`deletes_blocking` since fix ddfb301.) -/
def GoodStep (s : Sys) (l : Label) : Prop :=
  l = .commit .D → critDump s = none

inductive ReachG (s0 : Sys) : Sys → Prop where
  | refl : ReachG s0 s0
  | step {s s'} (l : Label) : ReachG s0 s → GoodStep s l → step? s l = some s' → ReachG s0 s'

end Um.Mig
