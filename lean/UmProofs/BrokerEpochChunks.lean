import UmProofs.BrokerEpochBasic
/-!
# Epoch proofs (C04, C13) — part 2: migration epochs inside the chunk lists

`ChunksLe e chunks`: every stored migration entry has `meta.epoch ≤ e`. This file follows that
bound through every function that builds or rewrites a chunk list.
-/
namespace Um.Broker.Epoch
open Um Um.Slots Um.Broker

def ChunkLe (e : Nat) (ch : Chunk) : Prop := ∀ m ∈ ch.migs, m.mm.epoch ≤ e

theorem chunksLe_iff (e : Nat) (chunks : List Chunk) : ChunksLe e chunks ↔ ∀ ch ∈ chunks, ChunkLe e ch := Iff.rfl

theorem chunkLe_iff (e : Nat) (ch : Chunk) :
    ChunkLe e ch ↔ (∀ m ∈ ch.mig0, m.mm.epoch ≤ e) ∧ (∀ m ∈ ch.mig1, m.mm.epoch ≤ e) := by
  unfold ChunkLe Chunk.migs
  constructor
  · intro h; exact ⟨fun m hm => h m (List.mem_append_left _ hm), fun m hm => h m (List.mem_append_right _ hm)⟩
  · intro h m hm
    rcases List.mem_append.mp hm with hm | hm
    · exact h.1 m hm
    · exact h.2 m hm

theorem chunkLe_of_nil {e : Nat} {ch : Chunk} (h0 : ch.mig0 = []) (h1 : ch.mig1 = []) : ChunkLe e ch := by
  rw [chunkLe_iff, h0, h1]; simp

theorem ChunksLe.nil (e : Nat) : ChunksLe e [] := by intro ch h; cases h

theorem ChunksLe.append {e : Nat} {a b : List Chunk} (ha : ChunksLe e a) (hb : ChunksLe e b) :
    ChunksLe e (a ++ b) := by
  intro ch hch
  rcases List.mem_append.mp hch with h | h
  · exact ha ch h
  · exact hb ch h

theorem ChunksLe.filter {e : Nat} {a : List Chunk} (ha : ChunksLe e a) (p : Chunk → Bool) :
    ChunksLe e (a.filter p) := fun ch hch => ha ch (List.mem_filter.mp hch).1

theorem ChunksLe.take {e : Nat} {a : List Chunk} (ha : ChunksLe e a) (n : Nat) : ChunksLe e (a.take n) :=
  fun ch hch => ha ch (List.mem_of_mem_take hch)

theorem ChunksLe.drop {e : Nat} {a : List Chunk} (ha : ChunksLe e a) (n : Nat) : ChunksLe e (a.drop n) :=
  fun ch hch => ha ch (List.mem_of_mem_drop hch)

/-- a chunk-wise rewrite that keeps each chunk's bound keeps the list's bound -/
theorem ChunksLe.map {e e' : Nat} {a : List Chunk} (ha : ChunksLe e a) (f : Chunk → Chunk)
    (hf : ∀ ch, ChunkLe e ch → ChunkLe e' (f ch)) : ChunksLe e' (a.map f) := by
  intro ch hch
  obtain ⟨x, hx, rfl⟩ := List.mem_map.mp hch
  exact hf x (ha x hx)

/-! ## freshly allocated chunks carry no migration -/

theorem toChunksWithSlots_le (e av rem : Nat) (arr : List (ProxyRes × ProxyRes)) (i curr : Nat)
    (chunks : List Chunk) (h : toChunksWithSlots av rem arr i curr = .ok chunks) : ChunksLe e chunks := by
  induction arr generalizing i curr chunks with
  | nil =>
    simp only [toChunksWithSlots, R.pure_eq, R.ok.injEq] at h
    subst h; exact ChunksLe.nil e
  | cons ab rest ih =>
    obtain ⟨a, b⟩ := ab
    simp only [toChunksWithSlots] at h
    obtain ⟨⟨s0, c1⟩, _, h⟩ := (R.bind_ok_iff _ _ _).mp h
    obtain ⟨⟨s1, c2⟩, _, h⟩ := (R.bind_ok_iff _ _ _).mp h
    obtain ⟨tl, htl, h⟩ := (R.bind_ok_iff _ _ _).mp h
    simp only [R.pure_eq, R.ok.injEq] at h
    subst h
    intro ch hch
    rcases List.mem_cons.mp hch with hch | hch
    · subst hch; exact chunkLe_of_nil rfl rfl
    · exact ih _ _ _ htl ch hch

theorem proxyResourceToChunkStore_le (e : Nat) (arr : List (ProxyRes × ProxyRes)) (w : Bool)
    (chunks : List Chunk) (h : proxyResourceToChunkStore arr w = .ok chunks) : ChunksLe e chunks := by
  unfold proxyResourceToChunkStore at h
  split at h
  · simp only at h
    split at h
    · cases h
    · exact toChunksWithSlots_le e _ _ _ _ _ _ h
  · simp only [R.pure_eq, R.ok.injEq] at h
    subst h
    intro ch hch
    obtain ⟨⟨a, b⟩, _, rfl⟩ := List.mem_map.mp hch
    exact chunkLe_of_nil rfl rfl

/-! ## `compact_slots`, `updateChunk`, `assign_dst_slots` -/

theorem compactSlots_le {e : Nat} {chunks : List Chunk} (h : ChunksLe e chunks) :
    ChunksLe e (compactSlots chunks) := by
  unfold compactSlots
  refine h.map _ fun ch hch => ?_
  rw [chunkLe_iff] at hch ⊢
  constructor
  · intro m hm
    obtain ⟨x, hx, rfl⟩ := List.mem_map.mp hm
    exact hch.1 x hx
  · intro m hm
    obtain ⟨x, hx, rfl⟩ := List.mem_map.mp hm
    exact hch.2 x hx

theorem updateChunk_le {e : Nat} {chunks chunks' : List Chunk} {i : Nat} {f : Chunk → Option Chunk}
    {w : String} (h : updateChunk chunks i f w = .ok chunks')
    (hf : ∀ c c', f c = some c' → ChunkLe e c → ChunkLe e c') (hle : ChunksLe e chunks) :
    ChunksLe e chunks' := by
  unfold updateChunk at h
  split at h
  · cases h
  · rename_i c hc
    split at h
    · cases h
    · rename_i c' hc'
      simp only [R.pure_eq, R.ok.injEq] at h
      subst h
      intro ch hch
      rcases List.mem_or_eq_of_mem_set hch with hch | hch
      · exact hle ch hch
      · subst hch
        exact hf c _ hc' (hle c (List.mem_of_getElem? hc))

theorem setMig_append_le {e : Nat} {c c' : Chunk} {part : Nat} {x : MigStore}
    (h : ((c.mig part).bind fun l => c.setMig part (l ++ [x])) = some c') (hx : x.mm.epoch ≤ e)
    (hc : ChunkLe e c) : ChunkLe e c' := by
  rw [chunkLe_iff] at hc ⊢
  match part, h with
  | 0, h =>
    simp only [Chunk.mig, Chunk.setMig, Option.bind_some, Option.some.injEq] at h
    subst h
    refine ⟨fun m hm => ?_, hc.2⟩
    rcases List.mem_append.mp hm with hm | hm
    · exact hc.1 m hm
    · simp only [List.mem_singleton] at hm; subst hm; exact hx
  | 1, h =>
    simp only [Chunk.mig, Chunk.setMig, Option.bind_some, Option.some.injEq] at h
    subst h
    refine ⟨hc.1, fun m hm => ?_⟩
    rcases List.mem_append.mp hm with hm | hm
    · exact hc.2 m hm
    · simp only [List.mem_singleton] at hm; subst hm; exact hx
  | n + 2, h => simp [Chunk.mig] at h

theorem assignDstSlots_le {e : Nat} {chunks chunks' : List Chunk} {ms : List MigSlots}
    (h : assignDstSlots chunks ms = .ok chunks') (hle : ChunksLe e chunks)
    (hms : ∀ m ∈ ms, m.mm.epoch ≤ e) : ChunksLe e chunks' := by
  unfold assignDstSlots at h
  rw [R.bind_ok_iff] at h
  obtain ⟨mid, hmid, h⟩ := h
  simp only [R.pure_eq, R.ok.injEq] at h
  subst h
  apply compactSlots_le
  induction ms generalizing chunks with
  | nil =>
    simp only [List.foldlM_nil, R.pure_eq, R.ok.injEq] at hmid
    subst hmid; exact hle
  | cons m rest ih =>
    simp only [List.foldlM_cons] at hmid
    obtain ⟨c1, hc1, hmid⟩ := (R.bind_ok_iff _ _ _).mp hmid
    obtain ⟨c0, hc0, hc1⟩ := (R.bind_ok_iff _ _ _).mp hc1
    have hm := hms m (List.mem_cons_self ..)
    have h0 : ChunksLe e c0 := updateChunk_le hc0 (fun c c' hf hc => setMig_append_le hf hm hc) hle
    have h1 : ChunksLe e c1 := updateChunk_le hc1 (fun c c' hf hc => setMig_append_le hf hm hc) h0
    exact ih h1 (fun x hx => hms x (List.mem_cons_of_mem _ hx)) hmid

/-! ## migration planning: every planned entry carries the planning epoch -/

def OutOk (e : Nat) (st : LoopSt) : Prop := ∀ m ∈ st.out, m.mm.epoch = e

theorem outOk_snoc {e : Nat} {out : List MigSlots} {ms : MigSlots} (h : ∀ m ∈ out, m.mm.epoch = e)
    (hm : ms.mm.epoch = e) : ∀ m ∈ out ++ [ms], m.mm.epoch = e := by
  intro m hmem
  rcases List.mem_append.mp hmem with h' | h'
  · exact h m h'
  · simp only [List.mem_singleton] at h'; subst h'; exact hm

theorem outOk_ite {e : Nat} {c : Prop} [Decidable c] {a b : LoopSt} (ha : OutOk e a) (hb : OutOk e b) :
    OutOk e (if c then a else b) := by
  split
  · exact ha
  · exact hb

def iterVal {α : Type} : Iter α → α
  | .done a => a
  | .cont a => a

/-- a property kept by the loop body is kept by the loop -/
theorem iterate_inv {α : Type} (f : α → R (Iter α)) (Q : α → Prop)
    (hf : ∀ a r, f a = .ok r → Q a → Q (iterVal r)) (n : Nat) (a a' : α)
    (h : iterate f n a = .ok a') (ha : Q a) : Q a' := by
  induction n generalizing a with
  | zero => simp [iterate] at h
  | succ n ih =>
    unfold iterate at h
    split at h
    · rename_i a1 hfa
      cases h
      exact hf a _ hfa ha
    · rename_i a1 hfa
      exact ih a1 h (hf a _ hfa ha)
    · cases h
    · cases h
    · cases h

theorem srcBody_out (P : OutParams) (sc sp : Nat) (x : RangeList × LoopSt) (r : Iter (RangeList × LoopSt))
    (h : srcBody P sc sp x = .ok r) (hin : OutOk P.epoch x.2) : OutOk P.epoch (iterVal r).2 := by
  obtain ⟨rl, st⟩ := x
  unfold srcBody at h
  extract_lets rl0 st0 at h
  have e1 : rl0 = rl := rfl
  have e2 : st0 = st := rfl
  clear_value rl0 st0
  subst e1 e2
  repeat' (first | (extract_lets at h; split at h) | split at h)
  all_goals cases h
  all_goals first | exact hin | exact outOk_ite (outOk_snoc hin rfl) (outOk_snoc hin rfl)

theorem downBody_out (P : DownParams) (sc sp : Nat) (x : RangeList × LoopSt) (r : Iter (RangeList × LoopSt))
    (h : downBody P sc sp x = .ok r) (hin : OutOk P.epoch x.2) : OutOk P.epoch (iterVal r).2 := by
  obtain ⟨rl, st⟩ := x
  unfold downBody at h
  extract_lets rl0 st0 at h
  have e1 : rl0 = rl := rfl
  have e2 : st0 = st := rfl
  clear_value rl0 st0
  subst e1 e2
  repeat' (first | (extract_lets at h; split at h) | split at h)
  all_goals cases h
  all_goals first | exact hin | exact outOk_ite (outOk_snoc hin rfl) (outOk_snoc hin rfl)

theorem srcWhile_out (P : OutParams) (sc sp fuel : Nat) (rl : RangeList) (st : LoopSt)
    (rl' : RangeList) (st' : LoopSt)
    (h : srcWhile P sc sp fuel rl st = .ok (rl', st')) (hin : OutOk P.epoch st) : OutOk P.epoch st' :=
  iterate_inv (srcBody P sc sp) (fun x => OutOk P.epoch x.2) (srcBody_out P sc sp) fuel (rl, st) (rl', st') h hin

theorem downWhile_out (P : DownParams) (sc sp fuel : Nat) (rl : RangeList) (st : LoopSt)
    (rl' : RangeList) (st' : LoopSt)
    (h : downWhile P sc sp fuel rl st = .ok (rl', st')) (hin : OutOk P.epoch st) : OutOk P.epoch st' :=
  iterate_inv (downBody P sc sp) (fun x => OutOk P.epoch x.2) (downBody_out P sc sp) fuel (rl, st) (rl', st') h hin

def srcHalf (P : OutParams) (i part : Nat) (o : Option RangeList) (st : LoopSt) :
    R (Option RangeList × LoopSt) :=
  match o with
  | some rl => (srcWhile P i part loopFuel rl st) >>= fun r => pure (some r.1, r.2)
  | none => pure (none, st)

theorem srcChunks_cons (P : OutParams) (ch : Chunk) (rest : List Chunk) (i : Nat) (st : LoopSt) :
    srcChunks P (ch :: rest) i st =
      (srcHalf P i 0 ch.stable0 st >>= fun r0 => srcHalf P i 1 ch.stable1 r0.2 >>= fun r1 =>
        srcChunks P rest (i + 1) r1.2 >>= fun r2 =>
          pure ({ ch with stable0 := r0.1, stable1 := r1.1 } :: r2.1, r2.2)) := by
  rw [srcChunks]
  cases ch.stable0 <;> cases ch.stable1 <;> simp only [srcHalf, bind_assoc, pure_bind]

def downHalf (P : DownParams) (i part : Nat) (o : Option RangeList) (st : LoopSt) : R LoopSt :=
  match o with
  | some rl => (downWhile P i part loopFuel rl st) >>= fun r => pure r.2
  | none => pure st

theorem downChunks_cons (P : DownParams) (ch : Chunk) (rest : List Chunk) (i : Nat) (st : LoopSt) :
    downChunks P (ch :: rest) i st =
      (downHalf P i 0 ch.stable0 st >>= fun st1 => downHalf P i 1 ch.stable1 st1 >>= fun st2 =>
        downChunks P rest (i + 1) st2 >>= fun r2 =>
          pure ({ ch with stable0 := none, stable1 := none } :: r2.1, r2.2)) := by
  rw [downChunks]
  cases ch.stable0 <;> cases ch.stable1 <;> simp only [downHalf, bind_assoc, pure_bind]

theorem srcHalf_out {P : OutParams} {i part : Nat} {o : Option RangeList} {st : LoopSt}
    {r : Option RangeList × LoopSt} (h : srcHalf P i part o st = .ok r) (hin : OutOk P.epoch st) :
    OutOk P.epoch r.2 := by
  unfold srcHalf at h
  split at h
  · rw [R.bind_ok_iff] at h
    obtain ⟨⟨rl', st''⟩, hw, h⟩ := h
    simp only [R.pure_eq, R.ok.injEq] at h
    subst h
    exact srcWhile_out _ _ _ _ _ _ _ _ hw hin
  · simp only [R.pure_eq, R.ok.injEq] at h
    subst h; exact hin

theorem downHalf_out {P : DownParams} {i part : Nat} {o : Option RangeList} {st st' : LoopSt}
    (h : downHalf P i part o st = .ok st') (hin : OutOk P.epoch st) : OutOk P.epoch st' := by
  unfold downHalf at h
  split at h
  · rw [R.bind_ok_iff] at h
    obtain ⟨⟨rl', st''⟩, hw, h⟩ := h
    simp only [R.pure_eq, R.ok.injEq] at h
    subst h
    exact downWhile_out _ _ _ _ _ _ _ _ hw hin
  · simp only [R.pure_eq, R.ok.injEq] at h
    subst h; exact hin

theorem srcChunks_out (P : OutParams) (B : Nat) (chunks : List Chunk) (i : Nat) (st : LoopSt)
    (chunks' : List Chunk) (st' : LoopSt)
    (h : srcChunks P chunks i st = .ok (chunks', st')) (hin : OutOk P.epoch st)
    (hle : ChunksLe B chunks) : OutOk P.epoch st' ∧ ChunksLe B chunks' := by
  induction chunks generalizing i st chunks' st' with
  | nil =>
    simp only [srcChunks, R.pure_eq, R.ok.injEq, Prod.mk.injEq] at h
    obtain ⟨rfl, rfl⟩ := h
    exact ⟨hin, ChunksLe.nil B⟩
  | cons ch rest ih =>
    rw [srcChunks_cons, R.bind_ok_iff] at h
    obtain ⟨r0, h0, h⟩ := h
    rw [R.bind_ok_iff] at h
    obtain ⟨r1, h1, h⟩ := h
    rw [R.bind_ok_iff] at h
    obtain ⟨r2, h2, h⟩ := h
    simp only [R.pure_eq, R.ok.injEq, Prod.mk.injEq] at h
    obtain ⟨rfl, rfl⟩ := h
    have hst1 := srcHalf_out h0 hin
    have hst2 := srcHalf_out h1 hst1
    obtain ⟨h3, h4⟩ := ih _ _ _ _ h2 hst2 (fun c hc => hle c (List.mem_cons_of_mem _ hc))
    refine ⟨h3, fun c hc => ?_⟩
    rcases List.mem_cons.mp hc with hc | hc
    · subst hc
      exact hle ch (List.mem_cons_self ..)
    · exact h4 c hc

theorem downChunks_out (P : DownParams) (B : Nat) (chunks : List Chunk) (i : Nat) (st : LoopSt)
    (chunks' : List Chunk) (st' : LoopSt)
    (h : downChunks P chunks i st = .ok (chunks', st')) (hin : OutOk P.epoch st)
    (hle : ChunksLe B chunks) : OutOk P.epoch st' ∧ ChunksLe B chunks' := by
  induction chunks generalizing i st chunks' st' with
  | nil =>
    simp only [downChunks, R.pure_eq, R.ok.injEq, Prod.mk.injEq] at h
    obtain ⟨rfl, rfl⟩ := h
    exact ⟨hin, ChunksLe.nil B⟩
  | cons ch rest ih =>
    rw [downChunks_cons, R.bind_ok_iff] at h
    obtain ⟨st1, h0, h⟩ := h
    rw [R.bind_ok_iff] at h
    obtain ⟨st2, h1, h⟩ := h
    rw [R.bind_ok_iff] at h
    obtain ⟨r2, h2, h⟩ := h
    simp only [R.pure_eq, R.ok.injEq, Prod.mk.injEq] at h
    obtain ⟨rfl, rfl⟩ := h
    have hst1 := downHalf_out h0 hin
    have hst2 := downHalf_out h1 hst1
    obtain ⟨h3, h4⟩ := ih _ _ _ _ h2 hst2 (fun c hc => hle c (List.mem_cons_of_mem _ hc))
    refine ⟨h3, fun c hc => ?_⟩
    rcases List.mem_cons.mp hc with hc | hc
    · subst hc
      exact hle ch (List.mem_cons_self ..)
    · exact h4 c hc

theorem removeSlotsFromSrc_le {cl : Cluster} {e B : Nat} {chunks : List Chunk} {ms : List MigSlots}
    (h : removeSlotsFromSrc cl e = .ok (chunks, ms)) (hle : ChunksLe B cl.chunks) :
    ChunksLe B chunks ∧ ∀ m ∈ ms, m.mm.epoch = e := by
  unfold removeSlotsFromSrc at h
  simp only [R.pure_eq] at h
  split at h
  · cases h
  · rw [R.bind_ok_iff] at h
    obtain ⟨⟨c', st'⟩, hs, h⟩ := h
    simp only [R.ok.injEq, Prod.mk.injEq] at h
    obtain ⟨rfl, rfl⟩ := h
    have := srcChunks_out _ B _ _ _ _ _ hs (fun m hm => by cases hm) hle
    exact ⟨this.2, this.1⟩

theorem removeSlotsToScaleDown_le {cl : Cluster} {e n B : Nat} {chunks : List Chunk} {ms : List MigSlots}
    (h : removeSlotsToScaleDown cl e n = .ok (chunks, ms)) (hle : ChunksLe B cl.chunks) :
    ChunksLe B chunks ∧ ∀ m ∈ ms, m.mm.epoch = e := by
  unfold removeSlotsToScaleDown at h
  simp only [R.pure_eq] at h
  split at h
  · cases h
  · rw [R.bind_ok_iff] at h
    obtain ⟨⟨c', st'⟩, hs, h⟩ := h
    simp only [R.ok.injEq, Prod.mk.injEq] at h
    obtain ⟨rfl, rfl⟩ := h
    have := downChunks_out _ B _ _ _ _ _ hs (fun m hm => by cases hm) (hle.drop n)
    exact ⟨(hle.take n).append this.2, this.1⟩

/-- the chunk list written by `migrate_slots` / `migrate_slots_to_scale_down` -/
theorem plan_le {chunks chunks' : List Chunk} {ms : List MigSlots} {B e : Nat}
    (h : assignDstSlots chunks ms = .ok chunks') (h0 : ChunksLe B chunks)
    (hms : ∀ m ∈ ms, m.mm.epoch = e) (hB : B ≤ e) : ChunksLe e chunks' :=
  assignDstSlots_le h (h0.mono hB) (fun m hm => Nat.le_of_eq (hms m hm))

/-! ## commit -/

theorem removeFirstImporting_sub {l l' : List MigStore} {rl : RangeList} {mm : MigMeta}
    (h : removeFirstImporting l rl mm = some l') : ∀ m ∈ l', m ∈ l := by
  unfold removeFirstImporting at h
  split at h
  · simp only [Option.some.injEq] at h; subst h
    exact fun m hm => List.mem_of_mem_eraseIdx hm
  · cases h

theorem commitDst_le {e : Nat} (rl : RangeList) (mm : MigMeta) {chunks : List Chunk}
    (h : ChunksLe e chunks) : ChunksLe e (commitDst rl mm chunks) := by
  induction chunks with
  | nil => exact h
  | cons c rest ih =>
    have hc := (chunkLe_iff e c).mp (h c (List.mem_cons_self ..))
    have hrest : ChunksLe e rest := fun x hx => h x (List.mem_cons_of_mem _ hx)
    unfold commitDst
    split
    · rename_i l hl
      intro x hx
      rcases List.mem_cons.mp hx with hx | hx
      · subst hx
        exact (chunkLe_iff e _).mpr ⟨fun m hm => hc.1 m (removeFirstImporting_sub hl m hm), hc.2⟩
      · exact hrest x hx
    · split
      · rename_i l hl
        intro x hx
        rcases List.mem_cons.mp hx with hx | hx
        · subst hx
          exact (chunkLe_iff e _).mpr ⟨hc.1, fun m hm => hc.2 m (removeFirstImporting_sub hl m hm)⟩
        · exact hrest x hx
      · intro x hx
        rcases List.mem_cons.mp hx with hx | hx
        · subst hx; exact h _ (List.mem_cons_self ..)
        · exact ih hrest x hx

theorem commitChunks_le {e : Nat} (rl : RangeList) (mm : MigMeta) (keep : MigStore → Bool)
    {chunks : List Chunk} (h : ChunksLe e chunks) :
    ChunksLe e (compactSlots (commitDst rl mm
      (chunks.map fun c => { c with mig0 := c.mig0.filter keep, mig1 := c.mig1.filter keep }))) := by
  apply compactSlots_le
  apply commitDst_le
  refine h.map _ fun ch hch => ?_
  rw [chunkLe_iff] at hch ⊢
  exact ⟨fun m hm => hch.1 m (List.mem_filter.mp hm).1, fun m hm => hch.2 m (List.mem_filter.mp hm).1⟩

/-! ## failover -/

theorem bumpEntries_le (l : List MigStore) (e : Nat) : ∀ m ∈ bumpEntries l e, m.mm.epoch ≤ e := by
  intro m hm
  obtain ⟨x, _, rfl⟩ := List.mem_map.mp hm
  exact Nat.le_refl _

theorem takeoverFirst_le {failed : String} {e B : Nat} {chunks chunks' : List Chunk}
    {pos : List (Nat × Nat)} (h : takeoverFirst failed e chunks = some (chunks', pos))
    (hle : ChunksLe B chunks) (hB : B ≤ e) : ChunksLe e chunks' := by
  induction chunks generalizing chunks' pos with
  | nil =>
    simp only [takeoverFirst, Option.some.injEq, Prod.mk.injEq] at h
    obtain ⟨rfl, _⟩ := h; exact ChunksLe.nil e
  | cons c rest ih =>
    have hc := (chunkLe_iff e c).mp ((hle.mono hB) c (List.mem_cons_self ..))
    have hrest : ChunksLe B rest := fun x hx => hle x (List.mem_cons_of_mem _ hx)
    have hrest' : ChunksLe e rest := hrest.mono hB
    -- whatever the head becomes, it is within the bound
    have key : ∀ c' : Chunk, (∀ m ∈ c'.mig0, m.mm.epoch ≤ e) → (∀ m ∈ c'.mig1, m.mm.epoch ≤ e) →
        ChunksLe e (c' :: rest) := by
      intro c' h0 h1 x hx
      rcases List.mem_cons.mp hx with hx | hx
      · subst hx; exact (chunkLe_iff e _).mpr ⟨h0, h1⟩
      · exact hrest' x hx
    unfold takeoverFirst at h
    split at h
    · split at h
      · cases h
      · split at h
        · simp only [Option.some.injEq, Prod.mk.injEq] at h
          obtain ⟨rfl, _⟩ := h
          exact key _ (bumpEntries_le _ _) (bumpEntries_le _ _)
        · simp only [Option.some.injEq, Prod.mk.injEq] at h
          obtain ⟨rfl, _⟩ := h
          exact key _ (bumpEntries_le _ _) hc.2
    · split at h
      · split at h
        · cases h
        · split at h
          · simp only [Option.some.injEq, Prod.mk.injEq] at h
            obtain ⟨rfl, _⟩ := h
            exact key _ (bumpEntries_le _ _) (bumpEntries_le _ _)
          · simp only [Option.some.injEq, Prod.mk.injEq] at h
            obtain ⟨rfl, _⟩ := h
            exact key _ hc.1 (bumpEntries_le _ _)
      · split at h
        · cases h
        · rename_i tl pos' htl
          simp only [Option.some.injEq, Prod.mk.injEq] at h
          obtain ⟨rfl, _⟩ := h
          intro x hx
          rcases List.mem_cons.mp hx with hx | hx
          · subst hx; exact (chunkLe_iff e _).mpr hc
          · exact ih htl hrest x hx

theorem bumpPeers_le {pos : List (Nat × Nat)} {e : Nat} {l : List MigStore}
    (h : ∀ m ∈ l, m.mm.epoch ≤ e) : ∀ m ∈ bumpPeers pos e l, m.mm.epoch ≤ e := by
  intro m hm
  obtain ⟨x, hx, rfl⟩ := List.mem_map.mp hm
  split
  · exact Nat.le_refl _
  · exact h x hx

theorem bumpPeersChunks_le {pos : List (Nat × Nat)} {e : Nat} {chunks : List Chunk}
    (h : ChunksLe e chunks) :
    ChunksLe e (chunks.map fun c => { c with mig0 := bumpPeers pos e c.mig0, mig1 := bumpPeers pos e c.mig1 }) := by
  refine h.map _ fun ch hch => ?_
  rw [chunkLe_iff] at hch ⊢
  exact ⟨bumpPeers_le hch.1, bumpPeers_le hch.2⟩

theorem replaceInChunks_le {failed : String} {np : ProxyRes} {e : Nat} {chunks : List Chunk}
    (h : ChunksLe e chunks) : ChunksLe e (replaceInChunks failed np chunks) := by
  induction chunks with
  | nil => exact h
  | cons c rest ih =>
    have hc := h c (List.mem_cons_self ..)
    have hrest : ChunksLe e rest := fun x hx => h x (List.mem_cons_of_mem _ hx)
    unfold replaceInChunks
    split
    · intro x hx
      rcases List.mem_cons.mp hx with hx | hx
      · subst hx; exact hc
      · exact hrest x hx
    · split
      · intro x hx
        rcases List.mem_cons.mp hx with hx | hx
        · subst hx; exact hc
        · exact hrest x hx
      · intro x hx
        rcases List.mem_cons.mp hx with hx | hx
        · subst hx; exact hc
        · exact ih hrest x hx

end Um.Broker.Epoch
