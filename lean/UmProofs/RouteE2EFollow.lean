import UmProofs.RouteE2EProxy
/-!
# C02, client layer: following MOVED across synced proxies; the handshake's phase pairs

* `follow_exec` / `follow_held` / `follow_moved`: one step of the client loop.
* `Synced`: every proxy hosting a node of the view is reachable and serves its own current view.
* `Consistent` / `Reach`: the phase triples (source task state, source node blocking, destination
  task state) the PRECHECK / PRESWITCH / FINALSWITCH handshake of `src/migration/scan_task.rs` can
  produce when no timeout fires, with the transition system they are the reachable set of.
-/
namespace Um.E2E
open Um Um.Broker Um.Route Um.Slots

/-! ## one step of `follow` -/

theorem follow_exec {net : Addr → Option ProxyState} {s : Nat} {a : Addr} {p : ProxyState} {n : Addr}
    (hn : net a = some p) (hr : routeWithMigration p none (some s) = .exec n) (fuel : Nat) :
    follow net s fuel a = (0, .exec a n) := by
  cases fuel <;> (unfold follow; simp only [hn, hr])

theorem follow_held {net : Addr → Option ProxyState} {s : Nat} {a : Addr} {p : ProxyState} {n : Addr}
    (hn : net a = some p) (hr : routeWithMigration p none (some s) = .held n) (fuel : Nat) :
    follow net s fuel a = (0, .held a n) := by
  cases fuel <;> (unfold follow; simp only [hn, hr])

theorem follow_stuck {net : Addr → Option ProxyState} {s : Nat} {a : Addr} {p : ProxyState} {o : Route.Outcome}
    (hn : net a = some p) (hr : routeWithMigration p none (some s) = .other o) (fuel : Nat) :
    follow net s fuel a = (0, .stuck a o) := by
  cases fuel <;> (unfold follow; simp only [hn, hr])

theorem follow_moved {net : Addr → Option ProxyState} {s s' : Nat} {a b : Addr} {p : ProxyState}
    (hn : net a = some p) (hr : routeWithMigration p none (some s) = .moved s' b) (fuel : Nat) :
    follow net s (fuel + 1) a = ((follow net s fuel b).1 + 1, (follow net s fuel b).2) := by
  rw [follow]; simp only [hn, hr]

theorem follow_moved_zero {net : Addr → Option ProxyState} {s s' : Nat} {a b : Addr} {p : ProxyState}
    (hn : net a = some p) (hr : routeWithMigration p none (some s) = .moved s' b) :
    follow net s 0 a = (0, .hopLimit a) := by
  unfold follow; simp only [hn, hr]

/-- a run that ends by execution on, or queueing for, node `n` at proxy `a` -/
def EndsAt (r : Nat × FollowEnd) (k : Nat) (a n : Addr) : Prop :=
  r = (k, .exec a n) ∨ r = (k, .held a n)

theorem ofRoute_exec (b : List Addr) (n : Addr) :
    Outcome.ofRoute b (.exec n) = .exec n ∨ Outcome.ofRoute b (.exec n) = .held n := by
  show (if b.contains n then Outcome.held n else Outcome.exec n) = _ ∨
    (if b.contains n then Outcome.held n else Outcome.exec n) = _
  by_cases h : b.contains n = true
  · right; rw [if_pos h]
  · left; rw [if_neg h]

/-- a proxy whose decision is `ofRoute blocking (exec n)` ends the run there -/
theorem follow_local {net : Addr → Option ProxyState} {s : Nat} {a : Addr} {p : ProxyState} {n : Addr}
    (hn : net a = some p) (hr : routeWithMigration p none (some s) = Outcome.ofRoute p.blocking (.exec n))
    (fuel : Nat) : EndsAt (follow net s fuel a) 0 a n := by
  rcases ofRoute_exec p.blocking n with h | h
  · exact Or.inl (follow_exec hn (hr.trans h) fuel)
  · exact Or.inr (follow_held hn (hr.trans h) fuel)

/-- one redirection in front of a run -/
theorem EndsAt.step {net : Addr → Option ProxyState} {s s' : Nat} {a b : Addr} {p : ProxyState}
    (hn : net a = some p) (hr : routeWithMigration p none (some s) = .moved s' b) {fuel k : Nat} {c n : Addr}
    (h : EndsAt (follow net s fuel b) k c n) : EndsAt (follow net s (fuel + 1) a) (k + 1) c n := by
  rw [follow_moved hn hr]
  rcases h with h | h <;> rw [h]
  · exact Or.inl rfl
  · exact Or.inr rfl

/-! ## the synced cluster -/

/-- the view is one the routing theorems apply to: a C01 partition with a non-empty cluster name,
distinct node addresses per proxy, one peer entry per proxy, compacted pending ranges -/
structure ViewOk (v : VCluster) : Prop where
  part : PartitionView v
  addr : AddrOk v
  name : v.name ≠ ""
  normal : PendingNormal v

/-- `a` is a proxy of the cluster: it hosts a node of the view -/
def IsProxy (v : VCluster) (a : String) : Prop := ∃ n ∈ v.nodes, n.proxy = a

/-- every proxy of the cluster is reachable under its address and has installed what the wire
delivered of its own current view -/
def Synced (cfg : RouteCfg) (v : VCluster) (net : Addr → Option ProxyState) : Prop :=
  ∀ a, IsProxy v a → ∃ p, net a = some p ∧ SyncedProxy cfg v a p

/-! ## the handshake -/

/-- the phase triples the handshake produces when no timeout fires: (source task state, source
node blocking, destination task state) -/
def Consistent : MigState → Bool → MigState → Bool
  | .preCheck, false, .preCheck => true
  | .preBlocking, _, .preCheck => true
  | .preSwitch, true, .preCheck => true
  | .preSwitch, true, .preSwitch => true
  | .scanning, _, .preSwitch => true
  | .finalSwitch, false, .preSwitch => true
  | .finalSwitch, false, .switchCommitted => true
  | .switchCommitted, false, .switchCommitted => true
  | _, _, _ => false

/-- The joint transition system of one migration, read off `RedisScanMigratingTask::run_migration`,
`run`, the three reply handlers and `RedisScanImportingTask::handle_switch`:
the source sends each request only in the phase that issues it and advances on the first
non-error reply; the destination sets its state when it handles the request; `start_blocking`
precedes `blocking_done`; `blocking_handle.stop()` follows the PRESWITCH acknowledgement and
precedes the scan; a request may be handled any number of times before its reply is seen
(lost replies, retries).  Timeouts (`max_blocking_time`, `max_migration_time`) are not steps. -/
inductive Reach : MigState → Bool → MigState → Prop where
  | init : Reach .preCheck false .preCheck
  /-- destination handles PRECHECK -/
  | precheckHandled {b d} : Reach .preCheck b d → Reach .preCheck b .preCheck
  /-- source sees the PRECHECK reply (the destination has handled it: it is in `PreCheck`) -/
  | precheckAcked {b} : Reach .preCheck b .preCheck → Reach .preBlocking b .preCheck
  | blockingStarted {d} : Reach .preBlocking false d → Reach .preBlocking true d
  | blockingDone {d} : Reach .preBlocking true d → Reach .preSwitch true d
  /-- destination handles PRESWITCH -/
  | preswitchHandled {b d} : Reach .preSwitch b d → Reach .preSwitch b .preSwitch
  /-- source sees the PRESWITCH reply -/
  | preswitchAcked {b} : Reach .preSwitch b .preSwitch → Reach .scanning b .preSwitch
  | blockingStopped {b d} : Reach .scanning b d → Reach .scanning false d
  | scanDone {d} : Reach .scanning false d → Reach .finalSwitch false d
  /-- destination handles FINALSWITCH -/
  | finalHandled {b d} : Reach .finalSwitch b d → Reach .finalSwitch b .switchCommitted
  /-- source sees the FINALSWITCH reply -/
  | finalAcked {b} : Reach .finalSwitch b .switchCommitted → Reach .switchCommitted b .switchCommitted

theorem reach_consistent {s : MigState} {b : Bool} {d : MigState} (h : Reach s b d) : Consistent s b d = true := by
  induction h with
  | init => rfl
  | @precheckHandled b d _ ih => cases b <;> cases d <;> simp_all [Consistent]
  | @precheckAcked b _ ih => cases b <;> simp_all [Consistent]
  | @blockingStarted d _ ih => cases d <;> simp_all [Consistent]
  | @blockingDone d _ ih => cases d <;> simp_all [Consistent]
  | @preswitchHandled b d _ ih => cases b <;> cases d <;> simp_all [Consistent]
  | @preswitchAcked b _ ih => cases b <;> simp_all [Consistent]
  | @blockingStopped b d _ ih => cases b <;> cases d <;> simp_all [Consistent]
  | @scanDone d _ ih => cases d <;> simp_all [Consistent]
  | @finalHandled b d _ ih => cases b <;> cases d <;> simp_all [Consistent]
  | @finalAcked b _ ih => cases b <;> simp_all [Consistent]

theorem consistent_reach {s : MigState} {b : Bool} {d : MigState} (h : Consistent s b d = true) : Reach s b d := by
  have r1 : Reach .preCheck false .preCheck := .init
  have r2 : Reach .preBlocking false .preCheck := .precheckAcked r1
  have r3 : Reach .preBlocking true .preCheck := .blockingStarted r2
  have r4 : Reach .preSwitch true .preCheck := .blockingDone r3
  have r5 : Reach .preSwitch true .preSwitch := .preswitchHandled r4
  have r6 : Reach .scanning true .preSwitch := .preswitchAcked r5
  have r7 : Reach .scanning false .preSwitch := .blockingStopped r6
  have r8 : Reach .finalSwitch false .preSwitch := .scanDone r7
  have r9 : Reach .finalSwitch false .switchCommitted := .finalHandled r8
  have r10 : Reach .switchCommitted false .switchCommitted := .finalAcked r9
  cases s <;> cases b <;> cases d <;> first | assumption | (simp [Consistent] at h)

/-! ### three shapes of a run through source and destination proxy -/

section Shapes
variable {net : Addr → Option ProxyState} {s : Nat} {aS aD nS nD : Addr} {pS pD : ProxyState}

/-- destination still redirects to the source, the source serves locally -/
theorem shape_before (hS : net aS = some pS) (hD : net aD = some pD)
    (rS : routeWithMigration pS none (some s) = Outcome.ofRoute pS.blocking (.exec nS))
    (rD : routeWithMigration pD none (some s) = .moved s aS)
    (start : Addr) (pT : ProxyState) (hT : net start = some pT)
    (hcase : start = aS ∨ start = aD ∨ routeWithMigration pT none (some s) = .moved s aS ∨
      routeWithMigration pT none (some s) = .moved s aD) :
    ∃ k, k ≤ 2 ∧ EndsAt (follow net s FOLLOW_FUEL start) k aS nS := by
  have fS : ∀ fuel, EndsAt (follow net s fuel aS) 0 aS nS := fun fuel => follow_local hS rS fuel
  have fD : ∀ fuel, EndsAt (follow net s (fuel + 1) aD) 1 aS nS := fun fuel => EndsAt.step hD rD (fS fuel)
  rcases hcase with h | h | h | h
  · subst h; exact ⟨0, by omega, fS _⟩
  · subst h; exact ⟨1, by omega, fD 7⟩
  · exact ⟨1, by omega, EndsAt.step hT h (fS 7)⟩
  · exact ⟨2, by omega, EndsAt.step hT h (fD 6)⟩

/-- the destination already serves, the source queues behind its blocking -/
theorem shape_switching (hS : net aS = some pS) (hD : net aD = some pD)
    (rS : routeWithMigration pS none (some s) = .held nS)
    (rD : routeWithMigration pD none (some s) = .exec nD)
    (start : Addr) (pT : ProxyState) (hT : net start = some pT)
    (hcase : start = aS ∨ start = aD ∨ routeWithMigration pT none (some s) = .moved s aS ∨
      routeWithMigration pT none (some s) = .moved s aD) :
    ∃ k, k ≤ 2 ∧ (follow net s FOLLOW_FUEL start = (k, .exec aD nD) ∨
      follow net s FOLLOW_FUEL start = (k, .held aS nS)) := by
  have fS : ∀ fuel, follow net s fuel aS = (0, .held aS nS) := fun fuel => follow_held hS rS fuel
  have fD : ∀ fuel, follow net s fuel aD = (0, .exec aD nD) := fun fuel => follow_exec hD rD fuel
  rcases hcase with h | h | h | h
  · subst h; exact ⟨0, by omega, Or.inr (fS _)⟩
  · subst h; exact ⟨0, by omega, Or.inl (fD _)⟩
  · refine ⟨1, by omega, Or.inr ?_⟩
    show follow net s (7 + 1) start = _
    rw [follow_moved hT h, fS]
  · refine ⟨1, by omega, Or.inl ?_⟩
    show follow net s (7 + 1) start = _
    rw [follow_moved hT h, fD]

/-- the source redirects to the destination, which serves -/
theorem shape_after (hS : net aS = some pS) (hD : net aD = some pD)
    (rS : routeWithMigration pS none (some s) = .moved s aD)
    (rD : routeWithMigration pD none (some s) = .exec nD)
    (start : Addr) (pT : ProxyState) (hT : net start = some pT)
    (hcase : start = aS ∨ start = aD ∨ routeWithMigration pT none (some s) = .moved s aS ∨
      routeWithMigration pT none (some s) = .moved s aD) :
    ∃ k, k ≤ 2 ∧ follow net s FOLLOW_FUEL start = (k, .exec aD nD) := by
  have fD : ∀ fuel, follow net s fuel aD = (0, .exec aD nD) := fun fuel => follow_exec hD rD fuel
  have fS : ∀ fuel, follow net s (fuel + 1) aS = (1, .exec aD nD) := by
    intro fuel; rw [follow_moved hS rS, fD]
  rcases hcase with h | h | h | h
  · subst h; exact ⟨1, by omega, fS 7⟩
  · subst h; exact ⟨0, by omega, fD _⟩
  · refine ⟨2, by omega, ?_⟩
    show follow net s (7 + 1) start = _
    rw [follow_moved hT h, fS 6]
  · refine ⟨1, by omega, ?_⟩
    show follow net s (7 + 1) start = _
    rw [follow_moved hT h, fD]

end Shapes

theorem consistent_before {stS : MigState} {b : Bool} (h : Consistent stS b .preCheck = true) :
    stS = .preCheck ∨ stS = .preBlocking ∨ stS = .preSwitch := by
  cases stS <;> cases b <;> simp [Consistent] at h ⊢

theorem consistent_after {stS stD : MigState} {b : Bool} (h : Consistent stS b stD = true) (hd : stD ≠ .preCheck) :
    (stS = .preSwitch ∧ b = true) ∨ stS = .scanning ∨ stS = .finalSwitch ∨ stS = .switchCommitted := by
  cases stS <;> cases b <;> cases stD <;> simp [Consistent] at h hd ⊢


/-! ## executable forms of the view hypotheses -/

theorem pendingAt_iff_B (v : VCluster) (s : Nat) : PendingAt v s ↔ pendingAtB v s = true := by
  unfold PendingAt pendingAtB
  simp only [List.any_eq_true, Bool.and_eq_true, covers_iff_mem]

theorem normalB_iff : ∀ (l : RangeList), normalB l = true ↔ NormalRanges l := by
  intro l
  induction l with
  | nil => simp [normalB, NormalRanges]
  | cons r rest ih =>
    cases rest with
    | nil => simp [normalB, NormalRanges]
    | cons r' rs =>
      simp only [normalB, NormalRanges, Bool.and_eq_true, decide_eq_true_eq, ih, and_assoc]

theorem pendingNormal_of_B (v : VCluster) (h : pendingNormalB v = true) : PendingNormal v := by
  intro n hn sr hsr ht
  unfold pendingNormalB at h
  have h1 := List.all_eq_true.mp h n hn
  have h2 := List.all_eq_true.mp h1 sr hsr
  simp only [ht, Bool.not_true, Bool.false_or, Bool.and_eq_true, List.all_eq_true, decide_eq_true_eq] at h2
  exact ⟨(normalB_iff _).mp h2.1, h2.2⟩

end Um.E2E
