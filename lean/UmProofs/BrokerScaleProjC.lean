import UmProofs.BrokerScaleProjB
/-!
# C10 — commits drive a planned cluster to its projected profile (part C)

`Profile T N c`: stable and importing ranges are disjoint in every half, half `idx` is projected
to end with `T idx` slots, the chunks `≥ N` own nothing and are nobody's destination.
The profile is preserved by every commit, so when nothing is pending any more the stable counts
*are* the profile.
-/
namespace Um.Broker.Scale
open Um Um.Slots Um.Broker

/-- the part of the profile that does not mention disjointness -/
structure ProfileCore (T : Nat → Nat) (N : Nat) (c : Cluster) : Prop where
  proj : ∀ i ch, c.chunks[i]? = some ch →
    proj ch.stable0 ch.mig0 = T (i * 2 + 0) ∧ proj ch.stable1 ch.mig1 = T (i * 2 + 1)
  tail : ∀ i ch, c.chunks[i]? = some ch → N ≤ i → ch.stable0 = none ∧ ch.stable1 = none
  dst : ∀ m ∈ c.migs, m.mm.dstChunk < N
  len : N ≤ c.chunks.length
  asc : ∀ ch ∈ c.chunks, (∀ rl, ch.stable0 = some rl → Asc rl) ∧ (∀ rl, ch.stable1 = some rl → Asc rl)

structure Profile (T : Nat → Nat) (N : Nat) (c : Cluster) : Prop where
  disj : ProjInv c
  proj : ∀ i ch, c.chunks[i]? = some ch →
    proj ch.stable0 ch.mig0 = T (i * 2 + 0) ∧ proj ch.stable1 ch.mig1 = T (i * 2 + 1)
  tail : ∀ i ch, c.chunks[i]? = some ch → N ≤ i → ch.stable0 = none ∧ ch.stable1 = none
  dst : ∀ m ∈ c.migs, m.mm.dstChunk < N
  len : N ≤ c.chunks.length
  asc : ∀ ch ∈ c.chunks, (∀ rl, ch.stable0 = some rl → Asc rl) ∧ (∀ rl, ch.stable1 = some rl → Asc rl)

theorem Profile.core {T : Nat → Nat} {N : Nat} {c : Cluster} (h : Profile T N c) : ProfileCore T N c :=
  ⟨h.proj, h.tail, h.dst, h.len, h.asc⟩

theorem ProfileCore.withDisj {T : Nat → Nat} {N : Nat} {c : Cluster} (h : ProfileCore T N c) (hd : ProjInv c) :
    Profile T N c :=
  ⟨hd, h.proj, h.tail, h.dst, h.len, h.asc⟩

theorem asc_of_map_compact {o : Option RangeList} {rl : RangeList} (h : o.map compact = some rl) : Asc rl := by
  cases o with
  | none => cases h
  | some x => simp only [Option.map_some, Option.some.injEq] at h; subst h; exact normal_asc (normal_compact x)

/-- **the profile survives a commit** -/
theorem profile_commit {T : Nat → Nat} {N : Nat} {c : Cluster} (hinv : CommitInv c) (hprof : Profile T N c)
    {m : MigStore} (hm : m ∈ c.migs) {A B : List Chunk} {dch : Chunk} {t : MigStore}
    (hdec : c.chunks = A ++ dch :: B) (hlen : A.length = m.mm.dstChunk)
    (htm : t.isMigrating = false) (htr : t.ranges = m.ranges) (htmm : t.mm = m.mm)
    (hpart : (m.mm.dstPart = 0 ∧ t ∈ dch.mig0) ∨ (m.mm.dstPart = 1 ∧ t ∈ dch.mig1)) (e : Nat) :
    Profile T N { c with chunks := commitRes m.ranges m.mm A dch B, epoch := e } := by
  have htwin : isTwin m.ranges m.mm t = true := isTwin_iff.mpr ⟨htm, htmm, htr⟩
  have hkeep : keepOf m.ranges m.mm t = true := keepOf_of_importing htm
  have htw : (m.mm.dstPart = 0 ∧ (strip m.ranges m.mm dch).mig0.any (isTwin m.ranges m.mm) = true) ∨
      (m.mm.dstPart ≠ 0 ∧ (strip m.ranges m.mm dch).mig1.any (isTwin m.ranges m.mm) = true) := by
    rcases hpart with ⟨hp, ht⟩ | ⟨hp, ht⟩
    · exact Or.inl ⟨hp, List.any_eq_true.mpr ⟨t, by simp [strip, ht, hkeep], htwin⟩⟩
    · exact Or.inr ⟨by omega, List.any_eq_true.mpr ⟨t, by simp [strip, ht, hkeep], htwin⟩⟩
  have hstep : ∀ i ch', (commitRes m.ranges m.mm A dch B)[i]? = some ch' →
      ∃ ch, c.chunks[i]? = some ch ∧ ChunkStep m.ranges (decide (i = A.length)) m.mm.dstPart ch ch' :=
    fun i ch' h => commitRes_chunkStep hinv.fixed hprof.disj hdec htw h
  have hdN : A.length < N := by rw [hlen]; exact hprof.dst m hm
  refine ⟨?_, ?_, ?_, ?_, ?_, ?_⟩
  · intro ch' hch'
    obtain ⟨i, hi⟩ := List.getElem?_of_mem hch'
    obtain ⟨ch, _, hs⟩ := hstep i ch' hi
    exact ⟨hs.d0, hs.d1⟩
  · intro i ch' hi
    obtain ⟨ch, hch, hs⟩ := hstep i ch' hi
    obtain ⟨q0, q1⟩ := hprof.proj i ch hch
    exact ⟨hs.p0.trans q0, hs.p1.trans q1⟩
  · intro i ch' hi hNi
    obtain ⟨ch, hch, hs⟩ := hstep i ch' hi
    obtain ⟨t0, t1⟩ := hprof.tail i ch hch hNi
    have hne : decide (i = A.length) = false := by simp; omega
    have s0 := hs.s0; have s1 := hs.s1
    rw [hne] at s0 s1
    simp only [Bool.false_and, Bool.false_eq_true, if_false] at s0 s1
    rw [t0] at s0; rw [t1] at s1
    exact ⟨s0, s1⟩
  · intro x hx
    obtain ⟨a, _, hperm⟩ := commitRes_migs hinv.fixed hdec htw
    have : x ∈ c.migs.filter (keepOf m.ranges m.mm) := hperm.mem_iff.mpr (List.mem_cons_of_mem _ hx)
    exact hprof.dst x (List.mem_filter.mp this).1
  · show N ≤ (commitRes m.ranges m.mm A dch B).length
    rw [commitRes_length, ← hdec]; exact hprof.len
  · intro ch' hch'
    obtain ⟨i, hi⟩ := List.getElem?_of_mem hch'
    obtain ⟨ch, _, hs⟩ := hstep i ch' hi
    exact ⟨fun rl h => asc_of_map_compact (hs.s0 ▸ h), fun rl h => asc_of_map_compact (hs.s1 ▸ h)⟩

/-- chains of successful `commit_migration` calls that do not clear free nodes -/
inductive CoreChain (name : String) : Store → Nat → Store → Prop where
  | nil (s : Store) : CoreChain name s 0 s
  | cons {s s1 s2 : Store} {k : Nat} (ranges : RangeList) (epoch : Nat) :
      commitMigrationCore s name ranges epoch false = (s1, R.ok ()) → CoreChain name s1 k s2 →
      CoreChain name s (k + 1) s2

/-- one successful core commit, with everything known about it -/
theorem core_step {s s1 : Store} {name : String} {c : Cluster} (hf : s.findCluster name = some c)
    (hinv : CommitInv c) {ranges : RangeList} {epoch : Nat}
    (h : commitMigrationCore s name ranges epoch false = (s1, R.ok ())) :
    ∃ m A dch B t, m ∈ c.migs ∧ m.isMigrating = true ∧ m.ranges = ranges ∧ m.mm.epoch = epoch ∧
      c.chunks = A ++ dch :: B ∧ A.length = m.mm.dstChunk ∧
      t.isMigrating = false ∧ t.ranges = m.ranges ∧ t.mm = m.mm ∧
      ((m.mm.dstPart = 0 ∧ t ∈ dch.mig0) ∨ (m.mm.dstPart = 1 ∧ t ∈ dch.mig1)) ∧
      s1.findCluster name =
        some { c with chunks := commitRes m.ranges m.mm A dch B, epoch := s.globalEpoch + 1 } := by
  by_cases hex : ∃ m ∈ c.migs, m.isMigrating = true ∧ m.ranges = ranges ∧ m.mm.epoch = epoch
  · obtain ⟨m, hm, hmig, rfl, rfl⟩ := hex
    obtain ⟨A, dch, B, t, hdec, hlen, htm, htr, htmm, hpart, hcore⟩ := commitCore_pending (s := s) hf hinv hm hmig
    rw [hcore] at h
    simp only [Prod.mk.injEq, and_true] at h
    subst h
    refine ⟨m, A, dch, B, t, hm, hmig, rfl, rfl, hdec, hlen, htm, htr, htmm, hpart, ?_⟩
    rw [Store.findCluster_bump]
    exact Store.findCluster_setCluster hf rfl
  · exfalso
    have hno : ∀ m ∈ c.migs, m.isMigrating = true → ¬ (m.ranges = ranges ∧ m.mm.epoch = epoch) := by
      intro m hm hmig hre
      exact hex ⟨m, hm, hmig, hre.1, hre.2⟩
    rw [commitCore_unknown (s := s) hf ranges epoch hno] at h
    simp at h

/-- chain induction: the profile and `CommitInv` travel along, one pending entry disappears per
commit -/
theorem coreChain_profile {T : Nat → Nat} {N : Nat} {name : String} {s s' : Store} {k : Nat}
    (hch : CoreChain name s k s') {c : Cluster} (hf : s.findCluster name = some c) (hinv : CommitInv c)
    (hprof : Profile T N c) :
    ∃ c', s'.findCluster name = some c' ∧ CommitInv c' ∧ Profile T N c' ∧
      (Cluster.pending c).length = (Cluster.pending c').length + k := by
  induction hch generalizing c with
  | nil s => exact ⟨c, hf, hinv, hprof, rfl⟩
  | @cons s0 s1 s2 k0 ranges epoch h _ ih =>
    obtain ⟨m, A, dch, B, t, hm, hmig, _, _, hdec, hlen, htm, htr, htmm, hpart, hf1⟩ := core_step hf hinv h
    obtain ⟨hinv1, hperm⟩ := commitRes_inv hinv hm hmig hdec htm htr htmm hpart (s0.globalEpoch + 1)
    have hprof1 := profile_commit hinv hprof hm hdec hlen htm htr htmm hpart (s0.globalEpoch + 1)
    obtain ⟨c', hf', hinv', hprof', hc⟩ := ih hf1 hinv1 hprof1
    have := hperm.length_eq
    simp only [List.length_cons] at this
    exact ⟨c', hf', hinv', hprof', by omega⟩

/-! ## reading the balanced shape off a finished profile -/

theorem fullChunks_of_get (m : Nat) (l : List Chunk) (i0 : Nat)
    (h : ∀ j ch, l[j]? = some ch → ∃ a b, ch.stable0 = some a ∧ ch.stable1 = some b ∧ Asc a ∧ Asc b ∧
      slotsNum a = quota m ((i0 + j) * 2 + 0) ∧ slotsNum b = quota m ((i0 + j) * 2 + 1)) :
    FullChunks m l i0 := by
  induction l generalizing i0 with
  | nil => trivial
  | cons ch l ih =>
    refine ⟨by simpa using h 0 ch (by simp), ih (i0 + 1) ?_⟩
    intro j ch' hj
    have := h (j + 1) ch' (by simpa using hj)
    have e : i0 + (j + 1) = i0 + 1 + j := by omega
    rw [e] at this; exact this

/-- a finished profile whose first `N` chunks carry the quotas of `2N` masters is balanced -/
theorem balanced_of_core {T : Nat → Nat} {N : Nat} {c : Cluster} (hprof : ProfileCore T N c)
    (hidle : c.migs = []) (hN : 0 < N) (hsz : N * 2 ≤ SLOT_NUM)
    (hT : ∀ idx, idx < N * 2 → T idx = quota (N * 2) idx) :
    Balanced c ∧ BalancedShape c.chunks N := by
  have hmig : ∀ ch ∈ c.chunks, ch.mig0 = [] ∧ ch.mig1 = [] := by
    intro ch hch
    unfold Cluster.migs Chunk.migs at hidle
    have := List.flatMap_eq_nil_iff.mp hidle ch hch
    simpa using this
  have hshape : BalancedShape c.chunks N := by
    refine ⟨c.chunks.take N, c.chunks.drop N, (List.take_append_drop N c.chunks).symm, ?_, ?_, ?_⟩
    · rw [List.length_take]; have := hprof.len; omega
    · apply fullChunks_of_get
      intro j ch hj
      have hjN : j < N := by
        have := (List.getElem?_eq_some_iff.mp hj).1
        rw [List.length_take] at this; omega
      have hj' : c.chunks[j]? = some ch := by
        rw [List.getElem?_take] at hj
        simpa [hjN] using hj
      have hmem := List.mem_of_getElem? hj'
      obtain ⟨m0, m1⟩ := hmig ch hmem
      obtain ⟨p0, p1⟩ := hprof.proj j ch hj'
      rw [m0, proj_nil, hT _ (by omega)] at p0
      rw [m1, proj_nil, hT _ (by omega)] at p1
      have q0 := quota_pos (N * 2) (j * 2 + 0) (by omega) hsz
      have q1 := quota_pos (N * 2) (j * 2 + 1) (by omega) hsz
      obtain ⟨a0, a1⟩ := hprof.asc ch hmem
      simp only [Nat.zero_add]
      cases hs0 : ch.stable0 with
      | none => rw [hs0] at p0; have h0 : halfCount none = 0 := rfl; rw [h0] at p0; omega
      | some a =>
        cases hs1 : ch.stable1 with
        | none => rw [hs1] at p1; have h0 : halfCount none = 0 := rfl; rw [h0] at p1; omega
        | some b =>
          rw [hs0] at p0; rw [hs1] at p1
          exact ⟨a, b, rfl, rfl, a0 a hs0, a1 b hs1, p0, p1⟩
    · intro ch hch
      obtain ⟨j, hj⟩ := List.getElem?_of_mem hch
      rw [List.getElem?_drop] at hj
      exact hprof.tail (N + j) ch hj (by omega)
  exact ⟨⟨(Cluster.isMigrating_eq_false_iff c).mpr hidle, N, hN, hshape⟩, hshape⟩

theorem balanced_of_profile {T : Nat → Nat} {N : Nat} {c : Cluster} (hprof : Profile T N c)
    (hidle : c.migs = []) (hN : 0 < N) (hsz : N * 2 ≤ SLOT_NUM)
    (hT : ∀ idx, idx < N * 2 → T idx = quota (N * 2) idx) :
    Balanced c ∧ BalancedShape c.chunks N :=
  balanced_of_core hprof.core hidle hN hsz hT

end Um.Broker.Scale
