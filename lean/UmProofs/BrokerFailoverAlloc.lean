import UmProofs.BrokerFailoverAlloc4
import UmProofs.BrokerOrdered
/-!
# C06 (allocation part): chunks are only ever filled with free, healthy, unreported proxies

`allocOK_stepFull` / `allocOK_step`: whatever one broker operation does (also when it panics or its
nondeterministic choice is rejected), every proxy address that sits in a cluster afterwards either sat in
a cluster of the same name before, or was a registered proxy in no cluster, not marked failed and without
a failure report. `replaceFailedProxy_replacement_free`: the replacement reported by a failover was free.
No invariant of the store is assumed.
-/
namespace Um.Broker.C06.Alloc
open Um Um.Slots

theorem allocFor_congr {n : String} {s s' t : Store} (h : s'.clusters = t.clusters) (ht : AllocFor n s t) :
    AllocFor n s s' := by
  intro c hc a ha
  rw [h] at hc
  exact ht c hc a ha

theorem free_of_pairAddrs {s : Store} {arr : List (ProxyRes × ProxyRes)}
    (hfree : ∀ x ∈ arr, x.1 ∈ s.freeProxies ∧ x.2 ∈ s.freeProxies) {a : String}
    (ha : a ∈ addrsOf (pairAddrs arr)) : FreeIn s a := by
  obtain ⟨x, hx, hax⟩ := mem_addrsOf.1 ha
  simp only [pairAddrs, List.mem_map] at hx
  obtain ⟨y, hy, rfl⟩ := hx
  rcases hax with rfl | rfl
  · exact freeIn_of_mem_freeProxies (hfree y hy).1
  · exact freeIn_of_mem_freeProxies (hfree y hy).2

/-! ## mutators that allocate chunks -/

/-- either allocator (normal mode: by hosts; ordered mode: by proxy index) hands out free,
healthy, unreported proxies only -/
theorem allocChunks_free {s : Store} {n first : Nat} {choice : List (String × String)} {arr : List (ProxyRes × ProxyRes)}
    (h : allocChunks s n first choice = .ok arr) : ∀ x ∈ arr, x.1 ∈ s.freeProxies ∧ x.2 ∈ s.freeProxies := by
  rcases Ord.allocChunks_cases h with ⟨_, h⟩ | ⟨_, h⟩
  · exact generateFreeChunks_free h
  · exact (Ord.generateFreeChunksOrdered_ok h).2.2.1

theorem allocFor_addCluster (s : Store) (n : String) (k : Nat) (cfg : Config) (ch : List (String × String)) :
    AllocFor n s (addCluster s n k cfg ch).1 := by
  unfold addCluster
  split; · exact (Sub.refl s).allocFor n
  split; · exact (Sub.refl s).allocFor n
  split; · exact (Sub.refl s).allocFor n
  split; · exact (Sub.refl s).allocFor n
  dsimp only
  split; · exact (Sub.refl s).allocFor n
  split
  · rename_i s' h
    obtain ⟨arr, harr, h⟩ := bind_eq_ok h
    obtain ⟨chunks, hchunks, h⟩ := bind_eq_ok h
    obtain ⟨s2, hs2, h⟩ := bind_eq_ok h
    simp only [pure_eq_ok, R.ok.injEq] at h
    subst h
    have hcl := tagProxies_clusters _ _ _ hs2
    intro c hc a ha
    simp only [List.mem_append, List.mem_singleton, hcl, bump_clusters] at hc
    rcases hc with hc | rfl
    · exact Or.inl ⟨c, hc, rfl, ha⟩
    · refine Or.inr ⟨rfl, ?_⟩
      rw [proxyAddrs_eq] at ha
      dsimp only at ha
      rw [proxyResourceToChunkStore_pp hchunks] at ha
      exact free_of_pairAddrs (allocChunks_free harr) ha
  all_goals exact (Sub.refl s).allocFor n

theorem allocFor_autoAddNodes (s : Store) (n : String) (k : Nat) (ch : List (String × String)) :
    AllocFor n s (autoAddNodes s n k ch).1 := by
  unfold autoAddNodes
  split; · exact (Sub.refl s).allocFor n
  split; · exact (Sub.refl s).allocFor n
  rename_i cl hcl
  obtain ⟨hmem, hname⟩ := findCluster_some hcl
  split; · exact (Sub.refl s).allocFor n
  split; · exact (Sub.refl s).allocFor n
  dsimp only
  split; · exact (Sub.refl s).allocFor n
  split
  · rename_i s' h
    obtain ⟨arr, harr, h⟩ := bind_eq_ok h
    obtain ⟨chunks, hchunks, h⟩ := bind_eq_ok h
    refine allocFor_congr (tagProxies_clusters _ _ _ h) ?_
    refine allocFor_setCluster (s0 := s) (s1 := s.bump) (cl := cl) (Sub.refl s) hmem rfl ?_
    intro a ha
    rw [proxyAddrs_eq] at ha
    dsimp only at ha
    rw [pp_append, addrsOf_append, List.mem_append] at ha
    rcases ha with ha | ha
    · left; rwa [proxyAddrs_eq]
    · right
      rw [proxyResourceToChunkStore_pp hchunks] at ha
      exact ⟨hname, free_of_pairAddrs (allocChunks_free harr) ha⟩
  all_goals exact (Sub.refl s).allocFor n

theorem allocFor_autoScaleUpNodes (s : Store) (n : String) (k : Nat) (ch : List (String × String)) :
    AllocFor n s (autoScaleUpNodes s n k ch).1 := by
  unfold autoScaleUpNodes
  split; · exact (Sub.refl s).allocFor n
  split; · exact (Sub.refl s).allocFor n
  dsimp only
  split
  · exact (Sub.refl s).allocFor n
  · exact allocFor_autoAddNodes s n _ ch

/-! ## `auto_delete_free_nodes`: which proxies it frees -/

/-- `r` differs from `s` only in the `cluster` tag of proxies whose address satisfies `A` -/
def PR (A : String → Prop) (s r : Store) : Prop :=
  r.failed = s.failed ∧ r.failures = s.failures ∧
  ∀ p ∈ r.proxies, ∃ p0 ∈ s.proxies, p0.addr = p.addr ∧ (p.cluster = p0.cluster ∨ A p.addr)

theorem PR.refl (A : String → Prop) (s : Store) : PR A s s :=
  ⟨rfl, rfl, fun p hp => ⟨p, hp, rfl, Or.inl rfl⟩⟩

theorem PR.trans {A B C : String → Prop} {s s1 s2 : Store} (h1 : PR A s s1) (h2 : PR B s1 s2)
    (hA : ∀ a, A a → C a) (hB : ∀ a, B a → C a) : PR C s s2 := by
  refine ⟨h2.1.trans h1.1, h2.2.1.trans h1.2.1, ?_⟩
  intro p hp
  obtain ⟨p1, hp1, ha1, hc1⟩ := h2.2.2 p hp
  obtain ⟨p0, hp0, ha0, hc0⟩ := h1.2.2 p1 hp1
  refine ⟨p0, hp0, ha0.trans ha1, ?_⟩
  rcases hc1 with hc1 | hc1
  · rcases hc0 with hc0 | hc0
    · exact Or.inl (hc1.trans hc0)
    · exact Or.inr (hA _ (ha1 ▸ hc0))
  · exact Or.inr (hB _ hc1)

theorem pr_setProxyCluster (s : Store) (a : String) (v : Option String) :
    PR (fun x => x = a) s (s.setProxyCluster a v) := by
  refine ⟨rfl, rfl, ?_⟩
  intro p hp
  unfold Store.setProxyCluster at hp
  simp only [List.mem_map] at hp
  obtain ⟨p0, hp0, rfl⟩ := hp
  refine ⟨p0, hp0, ?_⟩
  split
  · rename_i h
    exact ⟨rfl, Or.inr (by simpa using h)⟩
  · exact ⟨rfl, Or.inl rfl⟩

theorem pr_foldl : ∀ (removed : List Chunk) (s : Store),
    PR (fun a => ∃ ch ∈ removed, a = ch.proxy0 ∨ a = ch.proxy1) s
      (removed.foldl (fun s ch => (s.setProxyCluster ch.proxy0 none).setProxyCluster ch.proxy1 none) s)
  | [], s => PR.refl _ s
  | ch :: rest, s => by
    simp only [List.foldl_cons]
    have h1 : PR (fun a => a = ch.proxy0 ∨ a = ch.proxy1) s
        ((s.setProxyCluster ch.proxy0 none).setProxyCluster ch.proxy1 none) :=
      (pr_setProxyCluster s ch.proxy0 none).trans (pr_setProxyCluster _ ch.proxy1 none)
        (fun _ h => Or.inl h) (fun _ h => Or.inr h)
    refine h1.trans (pr_foldl rest _) ?_ ?_
    · intro a ha
      exact ⟨ch, List.mem_cons_self, ha⟩
    · rintro a ⟨c, hc, ha⟩
      exact ⟨c, List.mem_cons_of_mem _ hc, ha⟩

theorem foldl_pair_clusters : ∀ (removed : List Chunk) (s : Store),
    (removed.foldl (fun s ch => (s.setProxyCluster ch.proxy0 none).setProxyCluster ch.proxy1 none) s).clusters
      = s.clusters
  | [], _ => rfl
  | ch :: rest, s => by
    simp only [List.foldl_cons]
    rw [foldl_pair_clusters rest]; rfl

/-- a proxy that is free in `s1` was free in `s` or sat in a cluster named `n` -/
def Freed (n : String) (s s1 : Store) : Prop := ∀ a, FreeIn s1 a → FreeIn s a ∨ OldIn s n a

theorem Freed.refl (n : String) (s : Store) : Freed n s s := fun _ h => Or.inl h

theorem freed_of_pr {A : String → Prop} {n : String} {s r : Store} (h : PR A s r) (hA : ∀ a, A a → OldIn s n a) :
    Freed n s r := by
  rintro a ⟨p, hp, rfl, hc, hf, hk⟩
  obtain ⟨p0, hp0, ha0, hc0⟩ := h.2.2 p hp
  rcases hc0 with hc0 | hc0
  · left
    refine ⟨p0, hp0, ha0, hc0 ▸ hc, ?_, ?_⟩
    · rw [← h.1]; exact hf
    · unfold Store.hasFailureKey at hk ⊢
      rw [← h.2.1]; exact hk
  · exact Or.inr (hA _ hc0)

theorem autoDeleteFreeNodes_spec (s : Store) (n : String) :
    Sub s (autoDeleteFreeNodes s n).1 ∧ Freed n s (autoDeleteFreeNodes s n).1 := by
  unfold autoDeleteFreeNodes
  split; · exact ⟨Sub.refl s, Freed.refl n s⟩
  dsimp only
  split; · exact ⟨Sub.refl s, Freed.refl n s⟩
  rename_i cl hcl
  obtain ⟨hmem, hname⟩ := findCluster_some hcl
  split; · exact ⟨Sub.refl s, Freed.refl n s⟩
  split; · exact ⟨Sub.refl s, Freed.refl n s⟩
  have hpr := pr_foldl (cl.chunks.filter Chunk.isFree)
    (s.setCluster { cl with chunks := cl.chunks.filter (fun c => !c.isFree), epoch := s.globalEpoch + 1 })
  constructor
  · refine Sub.trans (s1 := s.setCluster { cl with chunks := cl.chunks.filter (fun c => !c.isFree), epoch := s.globalEpoch + 1 })
      ?_ (sub_of_clusters_eq (foldl_pair_clusters _ _))
    refine sub_setCluster (Sub.refl s) hmem rfl ?_
    intro a ha
    rw [proxyAddrs_eq] at ha ⊢
    exact mem_addrs_filter ha
  · refine freed_of_pr (A := fun a => ∃ ch ∈ cl.chunks.filter Chunk.isFree, a = ch.proxy0 ∨ a = ch.proxy1)
      (s := s) ⟨hpr.1, hpr.2.1, hpr.2.2⟩ ?_
    rintro a ⟨ch, hch, ha⟩
    refine ⟨cl, hmem, hname, ?_⟩
    rw [proxyAddrs_eq]
    exact mem_addrsOf.2 ⟨(ch.proxy0, ch.proxy1), List.mem_map.2 ⟨ch, (List.mem_filter.1 hch).1, rfl⟩, ha⟩

theorem autoDeleteFreeNodesIfExists_fst (s : Store) (n : String) :
    (autoDeleteFreeNodesIfExists s n).1 = (autoDeleteFreeNodes s n).1 := by
  unfold autoDeleteFreeNodesIfExists
  split
  · rename_i h; rw [h]
  · rename_i h; rw [h]
  · rfl

theorem sub_autoDeleteFreeNodes (s : Store) (n : String) : Sub s (autoDeleteFreeNodes s n).1 :=
  (autoDeleteFreeNodes_spec s n).1

theorem sub_autoDeleteFreeNodesIfExists (s : Store) (n : String) : Sub s (autoDeleteFreeNodesIfExists s n).1 := by
  rw [autoDeleteFreeNodesIfExists_fst]; exact sub_autoDeleteFreeNodes s n

theorem sub_commitMigration (s : Store) (n : String) (rl : RangeList) (e : Nat) (t c : Bool) :
    Sub s (commitMigration s n rl e t c).1 := by
  unfold commitMigration
  split
  · rename_i s' h
    have hs : Sub s s' := by
      have := sub_commitMigrationCore s n rl e t
      rwa [h] at this
    split
    · exact hs.trans (sub_autoDeleteFreeNodesIfExists s' n)
    · exact hs
  · exact sub_commitMigrationCore s n rl e t

/-! ## failover -/

theorem freeIn_mono {s s2 : Store} (hp : s2.proxies = s.proxies) (hf : ∀ a, a ∈ s.failed → a ∈ s2.failed)
    (hk : s2.failures = s.failures) {p : ProxyRes} (h : p ∈ s2.freeProxies) : FreeIn s p.addr := by
  rw [mem_freeProxies] at h
  refine ⟨p, hp ▸ h.1, rfl, h.2.1, fun hm => h.2.2.1 (hf _ hm), ?_⟩
  have := h.2.2.2
  unfold Store.hasFailureKey at this ⊢
  rwa [hk] at this

theorem replaceFailedProxy_spec (s : Store) (failed choice : String) :
    AllocOK s (replaceFailedProxy s failed choice).1 ∧
    ∀ a, (replaceFailedProxy s failed choice).2 = R.ok (some a) → FreeIn s a := by
  unfold replaceFailedProxy
  split
  · exact ⟨(Sub.refl s).allocOK, fun a h => err_ne_ok h⟩
  split
  · refine ⟨Sub.allocOK ?_, fun a h => by cases h⟩
    exact sub_of_clusters_eq rfl
  rename_i name _
  split
  · rename_i s1 hto
    have hsub : Sub s s1 := by
      have := sub_takeoverMaster s name failed
      rwa [hto] at this
    have hfr : s1.proxies = s.proxies ∧ s1.failed = s.failed ∧ s1.failures = s.failures := by
      have := takeoverMaster_frame s name failed
      rwa [hto] at this
    dsimp only
    split
    · -- ordered mode: takeover, a second bump, no replacement
      exact ⟨(hsub.trans (sub_of_clusters_eq rfl)).allocOK, fun a h => by cases h⟩
    split
    · rename_i np hnp
      have hfree : FreeIn s np.addr := by
        have hm2 := generateNewFreeProxy_free hnp
        refine freeIn_mono (s := s)
          (s2 := { s1 with failed := if s1.failed.contains failed then s1.failed else s1.failed ++ [failed] })
          hfr.1 ?_ hfr.2.2 hm2
        intro a ha
        dsimp only
        rw [← hfr.2.1] at ha
        split
        · exact ha
        · exact List.mem_append_left _ ha
      split
      · exact ⟨(sub_of_clusters_eq (s := s1) rfl |> hsub.trans).allocOK, fun a h => panic_ne_ok h⟩
      · rename_i cl hcl
        obtain ⟨hmem, hname⟩ := findCluster_some hcl
        constructor
        · refine AllocFor.allocOK (n := name) ?_
          refine allocFor_setCluster (s0 := s) (cl := cl) (hsub.trans (sub_of_clusters_eq rfl)) hmem rfl ?_
          intro a ha
          rw [proxyAddrs_eq] at ha ⊢
          rcases mem_replaceInChunks _ _ _ ha with h | h
          · exact Or.inl h
          · exact Or.inr ⟨hname, h ▸ hfree⟩
        · intro a h
          simp only [R.ok.injEq, Option.some.injEq] at h
          exact h ▸ hfree
    · exact ⟨(hsub.trans (sub_of_clusters_eq rfl)).allocOK, fun a h => err_ne_ok h⟩
    · exact ⟨(hsub.trans (sub_of_clusters_eq rfl)).allocOK, fun a h => panic_ne_ok h⟩
    · exact ⟨(hsub.trans (sub_of_clusters_eq rfl)).allocOK, fun a h => bad_ne_ok h⟩
  · rename_i s1 e hto
    refine ⟨Sub.allocOK ?_, fun a h => err_ne_ok h⟩
    have := sub_takeoverMaster s name failed
    rwa [hto] at this
  · rename_i s1 e hto
    refine ⟨Sub.allocOK ?_, fun a h => panic_ne_ok h⟩
    have := sub_takeoverMaster s name failed
    rwa [hto] at this
  · rename_i s1 e hto
    refine ⟨Sub.allocOK ?_, fun a h => bad_ne_ok h⟩
    have := sub_takeoverMaster s name failed
    rwa [hto] at this

/-! ## `auto_change_node_number` -/

theorem allocOK_comp {n : String} {s s1 s2 : Store} (h1 : Sub s s1) (hf : Freed n s s1) (h2 : AllocFor n s1 s2) :
    AllocOK s s2 := by
  intro c2 hc2 a ha
  rcases h2 c2 hc2 a ha with h | ⟨hn, h⟩
  · obtain ⟨c1, hc1, hn1, ha1⟩ := h
    have := h1 c1 hc1 a ha1
    rw [hn1] at this; exact Or.inl this
  · rcases hf a h with h | h
    · exact Or.inr h
    · rw [hn]; exact Or.inl h

theorem allocOK_autoChangeNodeNumber (s : Store) (n : String) (k : Nat) (ch : List (String × String)) :
    AllocOK s (autoChangeNodeNumber s n k ch).1 := by
  unfold autoChangeNodeNumber
  split; · exact (Sub.refl s).allocOK
  split; · exact (Sub.refl s).allocOK
  split; · exact (Sub.refl s).allocOK
  split
  rename_i s1 r1 hdel
  have hspec : Sub s s1 ∧ Freed n s s1 := by
    have := autoDeleteFreeNodes_spec s n
    rwa [hdel] at this
  have hup : ∀ s2 r, autoScaleUpNodes s1 n k ch = (s2, r) → AllocOK s s2 := by
    intro s2 r h
    have := allocFor_autoScaleUpNodes s1 n k ch
    rw [h] at this
    exact allocOK_comp hspec.1 hspec.2 this
  have hdown : ∀ s2 r, migrateSlotsToScaleDown s1 n k = (s2, r) → AllocOK s s2 := by
    intro s2 r h
    have := sub_migrateSlotsToScaleDown s1 n k
    rw [h] at this
    exact (hspec.1.trans this).allocOK
  have hin : ∀ (cl1 : Option Cluster), AllocOK s
      (match cl1 with
      | none => (s1, R.err Err.clusterNotFound)
      | some cl1 =>
        let existing := cl1.chunks.length * 4
        if existing == k then (s1, R.ok 0)
        else if existing < k then
          match autoScaleUpNodes s1 n k ch with
          | (s2, .ok ()) => (s2, R.ok 1)
          | (s2, .err e) => (s2, R.err e)
          | (s2, .panic w) => (s2, R.panic w)
          | (s2, .badChoice w) => (s2, R.badChoice w)
        else
          match migrateSlotsToScaleDown s1 n k with
          | (s2, .ok ()) => (s2, R.ok 2)
          | (s2, .err e) => (s2, R.err e)
          | (s2, .panic w) => (s2, R.panic w)
          | (s2, .badChoice w) => (s2, R.badChoice w) : Store × R Nat).1 := by
    intro cl1
    split
    · exact hspec.1.allocOK
    · dsimp only
      split
      · exact hspec.1.allocOK
      · split
        · split <;> (apply hup; assumption)
        · split <;> (apply hdown; assumption)
  split
  · exact hin _
  · exact hin _
  all_goals exact hspec.1.allocOK

/-! ## every operation -/

/-- holds for the state component of every step, also when the step panics or the choice is rejected -/
theorem allocOK_stepFull (s : Store) (op : Op) : AllocOK s (stepFull s op).1 := by
  cases op with
  | addProxy a n0 n1 h i => exact (sub_addProxy s a n0 n1 h i).allocOK
  | removeProxy a => exact (sub_removeProxy s a).allocOK
  | addCluster n k c => exact (allocFor_addCluster s n k defaultConfig c).allocOK
  | removeCluster n => exact (sub_removeCluster s n).allocOK
  | addNodes n k c => exact (allocFor_autoAddNodes s n k c).allocOK
  | scaleUp n k c => exact (allocFor_autoScaleUpNodes s n k c).allocOK
  | changeNum n k c => exact allocOK_autoChangeNodeNumber s n k c
  | scaleOutNum n k => exact (sub_autoScaleOutNodeNumber s n k).allocOK
  | delFree n => exact (sub_autoDeleteFreeNodes s n).allocOK
  | migrate n => exact (sub_migrateSlots s n).allocOK
  | scaleDown n k => exact (sub_migrateSlotsToScaleDown s n k).allocOK
  | commit n e rl t c => exact (sub_commitMigration s n rl e t c).allocOK
  | failover a c => exact (replaceFailedProxy_spec s a c).1
  | balance n => exact (sub_balanceMasters s n).allocOK
  | config n kv => exact (sub_changeConfig s n kv).allocOK
  | bumpAll e => exact (sub_forceBumpAllEpoch s e).allocOK
  | recover e => exact (sub_recoverEpoch s e).allocOK
  | addFailure a r t => exact (sub_addFailure s a r t).allocOK
  | setOrdered =>
    exact (sub_of_clusters_eq (s := s) (s' := s.setOrdered)
      (by unfold Store.setOrdered; split <;> rfl)).allocOK

theorem allocOK_step (s : Store) (op : Op) : AllocOK s (step s op) := by
  have h := allocOK_stepFull s op
  unfold step
  split
  · rename_i heq; rwa [heq] at h
  · rename_i heq; rwa [heq] at h
  · exact (Sub.refl s).allocOK
  · exact (Sub.refl s).allocOK

/-- the replacement proxy of a successful in-cluster failover was free/healthy/unreported before the call -/
theorem replaceFailedProxy_replacement_free {s s' : Store} {failed choice a : String}
    (h : replaceFailedProxy s failed choice = (s', .ok (some a))) : FreeIn s a :=
  (replaceFailedProxy_spec s failed choice).2 a (by rw [h])

end Um.Broker.C06.Alloc
