import UmProofs.BrokerDefs
/-!
# C06 — the served view as a pure function of the stored cluster

`clusterStoreToCluster` is monadic only because of `expect`s. This file gives the exact
characterisation: it succeeds iff every migration entry that has to be rendered names
chunk indices/parts in range, and then the result is the pure `specNode`/`specSlotRange`.
-/
namespace Um.Broker.C06
open Um Um.Slots Um.Gen.Chunk

/-! ## `R` monad facts -/

@[simp] theorem ok_bind {α β} (a : α) (f : α → R β) : (R.ok a >>= f) = f a := rfl
@[simp] theorem panic_bind {α β} (w : String) (f : α → R β) : (R.panic w >>= f) = R.panic w := rfl
@[simp] theorem err_bind {α β} (e : Err) (f : α → R β) : (R.err e >>= f) = R.err e := rfl
@[simp] theorem bad_bind {α β} (w : String) (f : α → R β) : (R.badChoice w >>= f) = R.badChoice w := rfl
@[simp] theorem pure_eq_ok {α} (a : α) : (pure a : R α) = R.ok a := rfl

theorem bind_eq_ok {α β} (x : R α) (f : α → R β) (b : β) :
    (x >>= f) = R.ok b ↔ ∃ a, x = R.ok a ∧ f a = R.ok b := by
  cases x <;> simp

instance : LawfulMonad R := LawfulMonad.mk' R
  (id_map := by intro α x; cases x <;> rfl)
  (pure_bind := by intros; rfl)
  (bind_assoc := by intro α β γ x f g; cases x <;> rfl)

@[simp] theorem expectSome_some {α} (a : α) (w : String) : expectSome (some a) w = R.ok a := rfl
@[simp] theorem expectSome_none {α} (w : String) : (expectSome (none : Option α) w) = R.panic w := rfl

theorem expectSome_eq_ok {α} (o : Option α) (w : String) (a : α) : expectSome o w = R.ok a ↔ o = some a := by
  cases o <;> simp

variable {α β : Type}

/-- `mapM` in `R` of a function that succeeds on every element -/
theorem mapM_ok_of_forall {α β} (f : α → R β) (g : α → β) (l : List α) (h : ∀ a ∈ l, f a = R.ok (g a)) :
    l.mapM f = R.ok (l.map g) := by
  induction l with
  | nil => rfl
  | cons a l ih =>
    rw [List.mapM_cons, h a (by simp), ok_bind, ih (fun b hb => h b (by simp [hb]))]
    rfl

/-- inversion of a successful `mapM` in `R` -/
theorem mapM_eq_ok {α β} (f : α → R β) (l : List α) (bs : List β) (h : l.mapM f = R.ok bs) :
    bs.length = l.length ∧ ∀ (i : Nat) (a : α), l[i]? = some a → ∃ b, bs[i]? = some b ∧ f a = R.ok b := by
  induction l generalizing bs with
  | nil => simp [List.mapM_nil] at h; subst h; simp
  | cons a l ih =>
    rw [List.mapM_cons] at h
    obtain ⟨b, hb, h⟩ := (bind_eq_ok _ _ _).1 h
    obtain ⟨bs', hbs, h⟩ := (bind_eq_ok _ _ _).1 h
    simp at h; subst h
    obtain ⟨hl, hi⟩ := ih _ hbs
    refine ⟨by simp [hl], ?_⟩
    intro i x hx
    cases i with
    | zero => simp at hx; subst hx; exact ⟨b, by simp, hb⟩
    | succ i => simpa using hi i x (by simpa using hx)

/-! ## pure specification of `toSlotRange` -/

/-- proxy address serving part `part` of chunk `c` (total version of the table lookup) -/
def halfProxy (c : Chunk) (part : Nat) : String := ((partToProxyIndex part c.role).bind c.proxyAt).getD ""
/-- node address owning part `part` of chunk `c` -/
def halfNode (c : Chunk) (part : Nat) : String := ((partToNodeIndex part c.role).bind c.nodeAt).getD ""

theorem half_bind {β} (chunks : List Chunk) (ci part : Nat) (K : String → String → R β) :
    (expectSome chunks[ci]? "get_cluster" >>= fun sc =>
      expectSome (partToProxyIndex part sc.role) "get_cluster" >>= fun spi =>
      expectSome (sc.proxyAt spi) "get_cluster" >>= fun sp =>
      expectSome (partToNodeIndex part sc.role) "get_cluster" >>= fun sni =>
      expectSome (sc.nodeAt sni) "get_cluster" >>= fun sn => K sp sn)
    = match chunks[ci]? with
      | some c => if part < 2 then K (halfProxy c part) (halfNode c part) else R.panic "get_cluster"
      | none => R.panic "get_cluster" := by
  cases hc : chunks[ci]? with
  | none => rfl
  | some c =>
    simp only [expectSome_some, ok_bind]
    match part with
    | 0 => cases hr : c.role <;> simp [halfProxy, halfNode, partToProxyIndex, partToNodeIndex, tab2, partToProxyIndexTab, partToNodeIndexTab, RolePos.idx, Chunk.proxyAt, Chunk.nodeAt, hr]
    | 1 => cases hr : c.role <;> simp [halfProxy, halfNode, partToProxyIndex, partToNodeIndex, tab2, partToProxyIndexTab, partToNodeIndexTab, RolePos.idx, Chunk.proxyAt, Chunk.nodeAt, hr]
    | n + 2 =>
      have : ¬ (n + 2 < 2) := by omega
      cases hr : c.role <;> simp [partToProxyIndex, tab2, partToProxyIndexTab, RolePos.idx, this]

/-- the migration descriptor served for a stored entry (addresses looked up through the role position) -/
def specInfo (m : MigStore) (chunks : List Chunk) : MigInfo :=
  let sc := (chunks[m.mm.srcChunk]?).getD default
  let dc := (chunks[m.mm.dstChunk]?).getD default
  { epoch := m.mm.epoch, srcProxy := halfProxy sc m.mm.srcPart, srcNode := halfNode sc m.mm.srcPart,
    dstProxy := halfProxy dc m.mm.dstPart, dstNode := halfNode dc m.mm.dstPart }

def specSlotRange (m : MigStore) (chunks : List Chunk) : SlotRange :=
  { ranges := m.ranges, tag := if m.isMigrating then .migrating (specInfo m chunks) else .importing (specInfo m chunks) }

/-- the indices of a stored entry are usable in a cluster of `n` chunks -/
def inRange (m : MigStore) (n : Nat) : Bool :=
  decide (m.mm.srcChunk < n) && decide (m.mm.srcPart < 2) && decide (m.mm.dstChunk < n) && decide (m.mm.dstPart < 2)

theorem toSlotRange_eq (m : MigStore) (chunks : List Chunk) :
    toSlotRange m chunks =
      if inRange m chunks.length then R.ok (specSlotRange m chunks) else R.panic "get_cluster" := by
  unfold toSlotRange
  rw [half_bind]
  simp only [half_bind]
  cases hs : chunks[m.mm.srcChunk]? with
  | none =>
    have : ¬ m.mm.srcChunk < chunks.length := by
      intro h; rw [List.getElem?_eq_getElem h] at hs; cases hs
    simp [inRange, this]
  | some sc =>
    have h1 : m.mm.srcChunk < chunks.length := by
      apply Classical.byContradiction; intro h
      rw [List.getElem?_eq_none (by omega)] at hs; cases hs
    cases hd : chunks[m.mm.dstChunk]? with
    | none =>
      have : ¬ m.mm.dstChunk < chunks.length := by
        intro h; rw [List.getElem?_eq_getElem h] at hd; cases hd
      simp [inRange, this]
    | some dc =>
      have h2 : m.mm.dstChunk < chunks.length := by
        apply Classical.byContradiction; intro h
        rw [List.getElem?_eq_none (by omega)] at hd; cases hd
      have hs' : chunks[m.mm.srcChunk] = sc := by
        rw [List.getElem?_eq_getElem h1] at hs; exact Option.some.inj hs
      have hd' : chunks[m.mm.dstChunk] = dc := by
        rw [List.getElem?_eq_getElem h2] at hd; exact Option.some.inj hd
      by_cases h3 : m.mm.srcPart < 2 <;> by_cases h4 : m.mm.dstPart < 2 <;>
        simp [inRange, h1, h2, h3, h4, specSlotRange, specInfo, hs', hd']

theorem mapM_ite (p : α → Bool) (g : α → β) (w : String) (l : List α) :
    l.mapM (fun a => if p a then R.ok (g a) else R.panic w) = if l.all p then R.ok (l.map g) else R.panic w := by
  induction l with
  | nil => rfl
  | cons a l ih =>
    rw [List.mapM_cons, ih]
    by_cases ha : p a <;> by_cases hl : l.all p <;> simp [ha, hl]

/-! ## pure specification of `partSlots`, `chunkNode`, `clusterStoreToCluster` -/

def specPart (st : Option RangeList) (migs : List MigStore) (chunks : List Chunk) : List SlotRange :=
  (match st with | some rl => [{ ranges := rl, tag := Tag.none }] | none => []) ++ migs.map (specSlotRange · chunks)

theorem partSlots_eq (st : Option RangeList) (migs : List MigStore) (chunks : List Chunk) :
    partSlots st migs chunks =
      if migs.all (inRange · chunks.length) then R.ok (specPart st migs chunks) else R.panic "get_cluster" := by
  unfold partSlots
  simp only [toSlotRange_eq]
  rw [mapM_ite]
  by_cases h : migs.all (inRange · chunks.length) <;> cases st <;> simp [h, specPart]

/-- `(first_slot_index, second_slot_index)` of a role position -/
def slotIdx (r : RolePos) : Nat × Nat := (slotIndexTab[r.idx]?).getD (0, 0)
def isReplica (r : RolePos) (j : Nat) : Bool := ((replicaTab[r.idx]?).bind (·[j]?)).getD false
def peerIdx (j : Nat) : Nat := (peerIndexTab[j]?).getD 0
def nodeAtD (c : Chunk) (j : Nat) : String := (c.nodeAt j).getD ""
def proxyAtD (c : Chunk) (h : Nat) : String := (c.proxyAt h).getD ""

def specNode (c : Chunk) (chunks : List Chunk) (j : Nat) : VNode :=
  { address := nodeAtD c j, proxy := proxyAtD c (j / 2),
    slots := (if j = (slotIdx c.role).1 then specPart c.stable0 c.mig0 chunks else []) ++
             (if j = (slotIdx c.role).2 then specPart c.stable1 c.mig1 chunks else []),
    replica := isReplica c.role j,
    peers := [(nodeAtD c (peerIdx j), proxyAtD c (peerIdx j / 2))] }

def nodeOk (c : Chunk) (n : Nat) (j : Nat) : Bool :=
  (j != (slotIdx c.role).1 || c.mig0.all (inRange · n)) && (j != (slotIdx c.role).2 || c.mig1.all (inRange · n))

theorem chunkNode_eq (c : Chunk) (chunks : List Chunk) (j : Nat) (hj : j < 4) :
    chunkNode c chunks j =
      if nodeOk c chunks.length j then R.ok (specNode c chunks j) else R.panic "get_cluster" := by
  unfold chunkNode
  simp only [partSlots_eq]
  unfold nodeOk specNode
  generalize (c.mig0.all fun x => inRange x chunks.length) = b0
  generalize (c.mig1.all fun x => inRange x chunks.length) = b1
  have hj' : j = 0 ∨ j = 1 ∨ j = 2 ∨ j = 3 := by omega
  rcases hj' with rfl | rfl | rfl | rfl <;> cases hr : c.role <;> cases b0 <;> cases b1 <;>
    simp [slotIdx, isReplica, peerIdx, nodeAtD, proxyAtD, slotIndexTab, replicaTab, peerIndexTab,
      RolePos.idx, Chunk.nodeAt, Chunk.proxyAt]

def chunkOk (c : Chunk) (n : Nat) : Bool := c.mig0.all (inRange · n) && c.mig1.all (inRange · n)

def specNodes (c : Chunk) (chunks : List Chunk) : List VNode := (List.range 4).map (specNode c chunks)

theorem chunkNodes_eq (c : Chunk) (chunks : List Chunk) :
    (List.range CHUNK_NODE_NUM).mapM (chunkNode c chunks) =
      if chunkOk c chunks.length then R.ok (specNodes c chunks) else R.panic "get_cluster" := by
  have e : List.range CHUNK_NODE_NUM = [0, 1, 2, 3] := by decide
  rw [e]
  simp only [List.mapM_cons, List.mapM_nil]
  rw [chunkNode_eq c chunks 0 (by omega), chunkNode_eq c chunks 1 (by omega),
    chunkNode_eq c chunks 2 (by omega), chunkNode_eq c chunks 3 (by omega)]
  unfold nodeOk chunkOk specNodes
  have e4 : List.range 4 = [0, 1, 2, 3] := by decide
  rw [e4]
  generalize (c.mig0.all fun x => inRange x chunks.length) = b0
  generalize (c.mig1.all fun x => inRange x chunks.length) = b1
  cases hr : c.role <;> cases b0 <;> cases b1 <;> simp [slotIdx, slotIndexTab, RolePos.idx]

def specView (cl : Cluster) : VCluster :=
  { name := cl.name, epoch := cl.epoch, nodes := (cl.chunks.map fun c => specNodes c cl.chunks).flatten, config := cl.config }

/-- every stored migration entry names chunk indices and parts that exist -/
def clusterOk (cl : Cluster) : Bool := cl.chunks.all (chunkOk · cl.chunks.length)

/-- **exact characterisation of the served cluster view** -/
theorem clusterStoreToCluster_eq (cl : Cluster) :
    clusterStoreToCluster cl = if clusterOk cl then R.ok (specView cl) else R.panic "get_cluster" := by
  unfold clusterStoreToCluster
  simp only [chunkNodes_eq]
  rw [mapM_ite]
  by_cases h : cl.chunks.all (chunkOk · cl.chunks.length) <;> simp [clusterOk, h, specView]

theorem clusterStoreToCluster_eq_ok {cl : Cluster} {v : VCluster} (h : clusterStoreToCluster cl = R.ok v) :
    clusterOk cl = true ∧ v = specView cl := by
  rw [clusterStoreToCluster_eq] at h
  by_cases hc : clusterOk cl <;> simp [hc] at h
  exact ⟨hc, h.symm⟩

theorem clusterOk_of_posInv {cl : Cluster} (h : PosInv cl) : clusterOk cl = true := by
  unfold clusterOk
  rw [List.all_eq_true]
  intro c hc
  obtain ⟨i, hi, rfl⟩ := List.getElem_of_mem hc
  obtain ⟨-, -, h3⟩ := h i cl.chunks[i] (List.getElem?_eq_getElem hi)
  simp only [chunkOk, Bool.and_eq_true, List.all_eq_true]
  constructor <;> intro m hm <;>
    · obtain ⟨a, b, c, d⟩ := h3 m (by simp [Chunk.migs, hm])
      simp [inRange, a, b, c, d]

theorem view_of_posInv {cl : Cluster} (h : PosInv cl) : clusterStoreToCluster cl = R.ok (specView cl) := by
  rw [clusterStoreToCluster_eq, clusterOk_of_posInv h]; rfl

/-! ## addressing a node of the view by (chunk index, node index) -/

theorem flatten_four {α} (L : List (List α)) (hL : ∀ l ∈ L, l.length = 4) (i j : Nat) (hj : j < 4) :
    L.flatten[4 * i + j]? = (L[i]?).bind (·[j]?) := by
  induction L generalizing i with
  | nil => simp
  | cons l L ih =>
    have hl : l.length = 4 := hL l (by simp)
    cases i with
    | zero =>
      simp only [List.flatten_cons, Nat.mul_zero, Nat.zero_add, List.getElem?_cons_zero, Option.bind_some]
      rw [List.getElem?_append_left (by omega)]
    | succ i =>
      simp only [List.flatten_cons, List.getElem?_cons_succ]
      rw [List.getElem?_append_right (by omega)]
      have : 4 * (i + 1) + j - l.length = 4 * i + j := by omega
      rw [this]
      exact ih (fun l hl => hL l (by simp [hl])) i

/-- node `j` of chunk `i` in a view -/
def vnode (v : VCluster) (i j : Nat) : Option VNode := v.nodes[4 * i + j]?

theorem specView_node (cl : Cluster) (i j : Nat) (hj : j < 4) :
    vnode (specView cl) i j = (cl.chunks[i]?).map fun c => specNode c cl.chunks j := by
  unfold vnode specView
  simp only
  rw [flatten_four _ _ i j hj]
  · simp only [List.getElem?_map]
    cases cl.chunks[i]? with
    | none => rfl
    | some c =>
      simp only [Option.map_some, Option.bind_some, specNodes, List.getElem?_map]
      rw [List.getElem?_range hj]; rfl
  · intro l hl
    simp only [List.mem_map] at hl
    obtain ⟨c, -, rfl⟩ := hl
    simp [specNodes]

theorem specView_length (cl : Cluster) : (specView cl).nodes.length = 4 * cl.chunks.length := by
  unfold specView
  simp only [List.length_flatten, List.map_map]
  have : (List.length ∘ fun c => specNodes c cl.chunks) = fun _ => 4 := by
    funext c; simp [specNodes]
  rw [this]
  induction cl.chunks with
  | nil => rfl
  | cons c l ih => simp only [List.map_cons, List.sum_cons, ih, List.length_cons]; omega

end Um.Broker.C06
