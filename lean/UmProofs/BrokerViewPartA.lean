import UmProofs.BrokerSlotsA
/-!
# C01, view layer, part A: the closed form of `clusterStoreToCluster`

`viewP cl` is a pure, total description of the whole-cluster view the broker serves for the
stored cluster `cl`. Under `PosInv cl` (all chunk/part indices stored in migration metas are in
range) the executable `clusterStoreToCluster cl` is `.ok (viewP cl)`: no table lookup and no
`chunks[i]?` can fail, so `get_cluster_by_name` cannot panic.

All facts about the generated tables (`UmGen.ChunkTables`) are proved by case analysis over the
3 role positions × 2 parts (× 4 node indices) on the *generated* values.
-/
namespace Um.Broker
open Um Um.Slots

/-! ## the `R` monad, `mapM` -/

theorem bv_ok_bind {α β} (a : α) (f : α → R β) : (R.ok a >>= f) = f a := rfl
theorem bv_pure {α} (a : α) : (pure a : R α) = R.ok a := rfl
theorem bv_expectSome_some {α} (a : α) (w : String) : expectSome (some a) w = R.ok a := rfl

theorem bv_mapM_loop_ok {α β} (f : α → R β) (g : α → β) (l : List α) (acc : List β)
    (h : ∀ x ∈ l, f x = R.ok (g x)) : List.mapM.loop f l acc = R.ok (acc.reverse ++ l.map g) := by
  induction l generalizing acc with
  | nil => simp [List.mapM.loop, bv_pure]
  | cons a as ih =>
    have ha : f a = R.ok (g a) := h a (by simp)
    simp only [List.mapM.loop, ha, bv_ok_bind]
    rw [ih _ (fun x hx => h x (by simp [hx]))]
    simp

/-- `mapM` of a function that always succeeds -/
theorem bv_mapM_ok {α β} (f : α → R β) (g : α → β) (l : List α)
    (h : ∀ x ∈ l, f x = R.ok (g x)) : l.mapM f = R.ok (l.map g) := by
  unfold List.mapM
  rw [bv_mapM_loop_ok f g l [] h]
  simp

/-! ## table facts -/

/-- node index of the master of chunk half `part` under role position `r`
(`chunk_part_to_node_index`, 0 outside the table) -/
def nodeIdx (part : Nat) (r : RolePos) : Nat := (partToNodeIndex part r).getD 0

/-- `replicaTab[r][i]`, `false` outside the table -/
def replicaD (r : RolePos) (i : Nat) : Bool :=
  ((Um.Gen.Chunk.replicaTab[r.idx]?).bind fun t => t[i]?).getD false

theorem nodeIdx_values (r : RolePos) :
    (nodeIdx 0 r, nodeIdx 1 r) = (match r with | .normal => (0, 2) | .first => (0, 1) | .second => (3, 2)) := by
  cases r <;> rfl

theorem partToNodeIndex_eq (part : Nat) (r : RolePos) (h : part < 2) :
    partToNodeIndex part r = some (nodeIdx part r) := by
  have : part = 0 ∨ part = 1 := by omega
  rcases this with rfl | rfl <;> cases r <;> rfl

/-- `chunk_part_to_proxy_index` agrees with `chunk_part_to_node_index / 2` -/
theorem partToProxyIndex_eq (part : Nat) (r : RolePos) (h : part < 2) :
    partToProxyIndex part r = some (nodeIdx part r / 2) := by
  have : part = 0 ∨ part = 1 := by omega
  rcases this with rfl | rfl <;> cases r <;> rfl

theorem nodeIdx_lt (part : Nat) (r : RolePos) : nodeIdx part r < 4 := by
  match part with
  | 0 => cases r <;> decide
  | 1 => cases r <;> decide
  | n + 2 => cases r <;> (show (0 : Nat) < 4; omega)

/-- the two slot-owning node indices of a chunk differ -/
theorem nodeIdx_ne (r : RolePos) : nodeIdx 0 r ≠ nodeIdx 1 r := by
  cases r <;> decide

theorem slotIndexTab_eq (r : RolePos) :
    Um.Gen.Chunk.slotIndexTab[r.idx]? = some (nodeIdx 0 r, nodeIdx 1 r) := by
  cases r <;> rfl

theorem replicaTab_eq (r : RolePos) (i : Nat) (h : i < 4) :
    ((Um.Gen.Chunk.replicaTab[r.idx]?).bind fun t => t[i]?) = some (replicaD r i) := by
  have : i = 0 ∨ i = 1 ∨ i = 2 ∨ i = 3 := by omega
  rcases this with rfl | rfl | rfl | rfl <;> cases r <;> rfl

/-- the node that owns a chunk half is a master -/
theorem replicaD_master (part : Nat) (r : RolePos) (h : part < 2) : replicaD r (nodeIdx part r) = false := by
  have : part = 0 ∨ part = 1 := by omega
  rcases this with rfl | rfl <;> cases r <;> rfl

/-- every other node of the chunk is a replica -/
theorem replicaD_replica (r : RolePos) (i : Nat) (h : i < 4) (h0 : i ≠ nodeIdx 0 r) (h1 : i ≠ nodeIdx 1 r) :
    replicaD r i = true := by
  have : i = 0 ∨ i = 1 ∨ i = 2 ∨ i = 3 := by omega
  rcases this with rfl | rfl | rfl | rfl <;> cases r <;> first | rfl | (exfalso; revert h0 h1; decide)

theorem peerIndexTab_eq (i : Nat) (h : i < 4) : Um.Gen.Chunk.peerIndexTab[i]? = some (3 - i) := by
  have : i = 0 ∨ i = 1 ∨ i = 2 ∨ i = 3 := by omega
  rcases this with rfl | rfl | rfl | rfl <;> rfl

/-! ## addresses -/

def nodeD (c : Chunk) (i : Nat) : String := (c.nodeAt i).getD ""
def proxyD (c : Chunk) (i : Nat) : String := (c.proxyAt i).getD ""

theorem nodeAt_eq (c : Chunk) (i : Nat) (h : i < 4) : c.nodeAt i = some (nodeD c i) := by
  have : i = 0 ∨ i = 1 ∨ i = 2 ∨ i = 3 := by omega
  rcases this with rfl | rfl | rfl | rfl <;> rfl

theorem proxyAt_eq (c : Chunk) (i : Nat) (h : i < 2) : c.proxyAt i = some (proxyD c i) := by
  have : i = 0 ∨ i = 1 := by omega
  rcases this with rfl | rfl <;> rfl

/-- address of the master node of chunk half `part` -/
def halfNode (c : Chunk) (part : Nat) : String := nodeD c (nodeIdx part c.role)
/-- address of the proxy that hosts the master node of chunk half `part` -/
def halfProxy (c : Chunk) (part : Nat) : String := proxyD c (nodeIdx part c.role / 2)

/-! ## `toSlotRange`, `partSlots` -/

/-- the `MigrationMeta` the view shows for a stored meta: positions replaced by addresses -/
def migInfoP (chunks : List Chunk) (mm : MigMeta) : MigInfo :=
  { epoch := mm.epoch
    srcProxy := halfProxy (chunks[mm.srcChunk]?.getD default) mm.srcPart
    srcNode := halfNode (chunks[mm.srcChunk]?.getD default) mm.srcPart
    dstProxy := halfProxy (chunks[mm.dstChunk]?.getD default) mm.dstPart
    dstNode := halfNode (chunks[mm.dstChunk]?.getD default) mm.dstPart }

def toSlotRangeP (chunks : List Chunk) (m : MigStore) : SlotRange :=
  { ranges := m.ranges
    tag := if m.isMigrating then .migrating (migInfoP chunks m.mm) else .importing (migInfoP chunks m.mm) }

/-- the index bounds `PosInv` gives for every stored entry -/
def MigBounds (chunks : List Chunk) (m : MigStore) : Prop :=
  m.mm.srcChunk < chunks.length ∧ m.mm.dstChunk < chunks.length ∧ m.mm.srcPart < 2 ∧ m.mm.dstPart < 2

theorem toSlotRange_ok (chunks : List Chunk) (m : MigStore) (h : MigBounds chunks m) :
    toSlotRange m chunks = R.ok (toSlotRangeP chunks m) := by
  obtain ⟨h1, h2, h3, h4⟩ := h
  have e1 : chunks[m.mm.srcChunk]? = some chunks[m.mm.srcChunk] := List.getElem?_eq_getElem h1
  have e2 : chunks[m.mm.dstChunk]? = some chunks[m.mm.dstChunk] := List.getElem?_eq_getElem h2
  have hs := nodeIdx_lt m.mm.srcPart (chunks[m.mm.srcChunk]).role
  have hd := nodeIdx_lt m.mm.dstPart (chunks[m.mm.dstChunk]).role
  unfold toSlotRange
  simp only [e1, e2, bv_expectSome_some, bv_ok_bind, partToProxyIndex_eq _ _ h3, partToProxyIndex_eq _ _ h4,
    partToNodeIndex_eq _ _ h3, partToNodeIndex_eq _ _ h4,
    proxyAt_eq _ _ (show nodeIdx m.mm.srcPart (chunks[m.mm.srcChunk]).role / 2 < 2 by omega),
    proxyAt_eq _ _ (show nodeIdx m.mm.dstPart (chunks[m.mm.dstChunk]).role / 2 < 2 by omega),
    nodeAt_eq _ _ hs, nodeAt_eq _ _ hd, bv_pure]
  simp [toSlotRangeP, migInfoP, e1, e2, halfNode, halfProxy]

def stableSR (st : Option RangeList) : List SlotRange :=
  match st with
  | some rl => [{ ranges := rl, tag := Tag.none }]
  | none => []

def partSlotsP (chunks : List Chunk) (st : Option RangeList) (migs : List MigStore) : List SlotRange :=
  stableSR st ++ migs.map (toSlotRangeP chunks)

theorem partSlots_ok (chunks : List Chunk) (st : Option RangeList) (migs : List MigStore)
    (h : ∀ m ∈ migs, MigBounds chunks m) :
    partSlots st migs chunks = R.ok (partSlotsP chunks st migs) := by
  unfold partSlots
  rw [bv_mapM_ok (fun m => toSlotRange m chunks) (toSlotRangeP chunks) migs
    (fun m hm => toSlotRange_ok chunks m (h m hm))]
  cases st <;> rfl

/-! ## `chunkNode` -/

/-- node `i` of chunk `c` as the view shows it -/
def chunkNodeP (c : Chunk) (chunks : List Chunk) (i : Nat) : VNode :=
  { address := nodeD c i
    proxy := proxyD c (i / 2)
    slots := (if i = nodeIdx 0 c.role then partSlotsP chunks c.stable0 c.mig0 else []) ++
             (if i = nodeIdx 1 c.role then partSlotsP chunks c.stable1 c.mig1 else [])
    replica := replicaD c.role i
    peers := [(nodeD c (3 - i), proxyD c ((3 - i) / 2))] }

theorem chunkNode_ok (c : Chunk) (chunks : List Chunk) (i : Nat) (hi : i < 4)
    (h : ∀ m ∈ c.migs, MigBounds chunks m) :
    chunkNode c chunks i = R.ok (chunkNodeP c chunks i) := by
  have h0 : ∀ m ∈ c.mig0, MigBounds chunks m := fun m hm => h m (by simp [Chunk.migs, hm])
  have h1 : ∀ m ∈ c.mig1, MigBounds chunks m := fun m hm => h m (by simp [Chunk.migs, hm])
  unfold chunkNode
  simp only [nodeAt_eq c i hi, proxyAt_eq c (i / 2) (by omega), slotIndexTab_eq, replicaTab_eq _ _ hi,
    peerIndexTab_eq i hi, nodeAt_eq c (3 - i) (by omega), proxyAt_eq c ((3 - i) / 2) (by omega),
    bv_expectSome_some, bv_ok_bind, partSlots_ok _ _ _ h0, partSlots_ok _ _ _ h1, beq_iff_eq, bv_pure]
  unfold chunkNodeP
  split <;> split <;> simp_all

/-! ## the whole view -/

def chunkNodesP (c : Chunk) (chunks : List Chunk) : List VNode :=
  (List.range Um.Gen.Chunk.CHUNK_NODE_NUM).map (chunkNodeP c chunks)

/-- the whole-cluster view of a stored cluster, as a pure function -/
def viewP (cl : Cluster) : VCluster :=
  { name := cl.name, epoch := cl.epoch, config := cl.config
    nodes := cl.chunks.flatMap fun c => chunkNodesP c cl.chunks }

theorem posInv_bounds (cl : Cluster) (h : PosInv cl) : ∀ c ∈ cl.chunks, ∀ m ∈ c.migs, MigBounds cl.chunks m := by
  intro c hc m hm
  obtain ⟨i, hi, hget⟩ := List.getElem_of_mem hc
  have := (h i c (by rw [List.getElem?_eq_getElem hi, hget])).2.2 m hm
  exact this

/-- closed form of `clusterStoreToCluster` under index bounds only -/
theorem clusterStoreToCluster_eq_of_bounds (cl : Cluster)
    (h : ∀ c ∈ cl.chunks, ∀ m ∈ c.migs, MigBounds cl.chunks m) :
    clusterStoreToCluster cl = R.ok (viewP cl) := by
  unfold clusterStoreToCluster
  rw [bv_mapM_ok (fun c => (List.range Um.Gen.Chunk.CHUNK_NODE_NUM).mapM (chunkNode c cl.chunks))
      (fun c => chunkNodesP c cl.chunks) cl.chunks]
  · simp [bv_ok_bind, bv_pure, viewP, List.flatMap_def]
  · intro c hc
    exact bv_mapM_ok _ _ _ (fun i hi => chunkNode_ok c cl.chunks i (by
      have : Um.Gen.Chunk.CHUNK_NODE_NUM = 4 := rfl
      rw [this] at hi; exact List.mem_range.mp hi) (h c hc))

/-- **closed form**: under `PosInv` the served whole-cluster view is `viewP cl` -/
theorem clusterStoreToCluster_eq (cl : Cluster) (h : PosInv cl) :
    clusterStoreToCluster cl = R.ok (viewP cl) :=
  clusterStoreToCluster_eq_of_bounds cl (posInv_bounds cl h)

/-- **no panic**: `cluster_store_to_cluster` succeeds on every cluster satisfying `PosInv` -/
theorem clusterStoreToCluster_ok (cl : Cluster) (h : PosInv cl) :
    ∃ v, clusterStoreToCluster cl = R.ok v := ⟨_, clusterStoreToCluster_eq cl h⟩

end Um.Broker
