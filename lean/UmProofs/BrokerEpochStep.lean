import UmProofs.BrokerEpochOps
/-!
# Epoch proofs (C04, C13) — part 4: `step`, reachable states, served epochs

`Frame` extends `FrameK` to `add_proxy`/`remove_proxy` (records may appear — then free and under
a bumped global epoch — or disappear). `step_ok` covers every `Op`. From it: `EpochInv` and
`NameInv` on reachable states, and the one-step and many-step laws of the *served epoch* of an
address (`servedEpoch`): it never decreases, and when it stays equal the whole served key
(node addresses and the cluster record the view is computed from) is unchanged.
-/
namespace Um.Broker.Epoch
open Um Um.Slots Um.Broker

structure Frame (s s' : Store) : Prop where
  mono : s.globalEpoch ≤ s'.globalEpoch
  cf : CF s s'
  pf : ∀ a p, s.findProxy a = some p → s'.findProxy a = none ∨
        ∃ v, s'.findProxy a = some { p with cluster := v } ∧ (v = p.cluster ∨ TagNew s s' v)
  fresh : ∀ a, s.findProxy a = none → ∀ p', s'.findProxy a = some p' →
        p'.cluster = none ∧ s.globalEpoch < s'.globalEpoch

theorem FrameK.toFrame {s s' : Store} (h : FrameK s s') : Frame s s' := by
  refine ⟨h.mono, h.cf, fun a p hp => Or.inr ((h.pf a).2 p hp), fun a ha p' hp' => ?_⟩
  have := (h.pf a).1 ha
  rw [findProxy_eq] at hp'
  rw [this] at hp'; cases hp'

/-- what every step satisfies -/
structure StepOk (s s' : Store) : Prop where
  mono : s.globalEpoch ≤ s'.globalEpoch
  frame : EpochInv s → Frame s s'
  epoch : EpochInv s → EpochInv s'
  names : NameInv s → NameInv s'

theorem OpOk.toStepOk {s s' : Store} (h : OpOk s s') : StepOk s s' :=
  ⟨h.mono, fun hi => (h.frame hi).toFrame, h.epoch, h.names⟩

theorem epochInv_of_same {s s' : Store} (hc : s'.clusters = s.clusters)
    (hG : s.globalEpoch ≤ s'.globalEpoch) (h : EpochInv s) : EpochInv s' := by
  intro c hc'
  rw [hc] at hc'
  exact ⟨Nat.le_trans (h c hc').1 hG, (h c hc').2⟩

/-! ## `add_proxy`, `remove_proxy` -/

theorem findP_append (l : List ProxyRes) (x : ProxyRes) (a : String) :
    findP (l ++ [x]) a = (findP l a).or (if x.addr == a then some x else none) := by
  unfold findP
  rw [List.find?_append]
  by_cases h : x.addr = a <;> simp [h]

theorem findP_filter_ne (l : List ProxyRes) (m a : String) :
    findP (l.filter (·.addr != m)) a = if a = m then none else findP l a := by
  induction l with
  | nil => simp [findP]
  | cons x xs ih =>
    unfold findP at ih ⊢
    simp only [List.filter_cons]
    by_cases hx : x.addr = m
    · simp only [hx, bne_self_eq_false, Bool.false_eq_true, ↓reduceIte, ih, List.find?_cons]
      split
      · rfl
      · rename_i hnm
        have : ¬ (m == a) = true := by simp; exact fun h => hnm h.symm
        simp [this]
    · have : (x.addr != m) = true := by simp [hx]
      simp only [this, ↓reduceIte, List.find?_cons, ih]
      split
      · rename_i heq
        have heq' : x.addr = a := by simpa using heq
        split
        · rename_i hnm; exact absurd (heq'.trans hnm) hx
        · rfl
      · rfl

theorem addProxy_ok (s : Store) (addr n0 n1 : String) (host : Option String) (index : Option Nat) :
    StepOk s (addProxy s addr n0 n1 host index).1 := by
  unfold addProxy
  split
  · exact (OpOk.refl s).toStepOk
  · simp only
    split
    · exact (OpOk.refl s).toStepOk
    by_cases hex : (s.findProxy addr).isSome = true
    · -- already registered: the record list is untouched
      simp only [hex, ↓reduceIte, Bool.not_true, Bool.false_or]
      refine OpOk.toStepOk ?_
      split
      · exact OpOk.of_same rfl rfl (Nat.le_succ _)
      · exact OpOk.of_same rfl rfl (Nat.le_refl _)
    · simp only [hex, Bool.false_eq_true, ↓reduceIte, Bool.not_false, Bool.true_or]
      have hnone : findP s.proxies addr = none := by
        cases hx : s.findProxy addr with
        | none => exact hx
        | some x => simp [hx] at hex
      refine ⟨Nat.le_succ _, fun _ => ⟨Nat.le_succ _, fun _ => Or.inl rfl, fun a p hp => Or.inr ⟨p.cluster, ?_, Or.inl rfl⟩,
        fun a ha p' hp' => ?_⟩, epochInv_of_same rfl (Nat.le_succ _), id⟩
      · show findP (s.proxies ++ [_]) a = _
        rw [findP_append]
        rw [findProxy_eq] at hp
        rw [hp]; rfl
      · have hp'' : findP (s.proxies ++ [_]) a = some p' := hp'
        rw [findP_append] at hp''
        rw [findProxy_eq] at ha
        rw [ha] at hp''
        simp only [Option.none_or] at hp''
        split at hp''
        · cases hp''
          exact ⟨rfl, Nat.lt_succ_self _⟩
        · cases hp''

theorem removeProxy_ok (s : Store) (addr : String) : StepOk s (removeProxy s addr).1 := by
  unfold removeProxy
  split
  · exact (OpOk.refl s).toStepOk
  · split
    · exact (OpOk.refl s).toStepOk
    · refine ⟨Nat.le_succ _, fun _ => ⟨Nat.le_succ _, fun _ => Or.inl rfl, fun a p hp => ?_, fun a ha p' hp' => ?_⟩,
        epochInv_of_same rfl (Nat.le_succ _), id⟩
      · have : findP (s.proxies.filter (·.addr != addr)) a = if a = addr then none else findP s.proxies a :=
          findP_filter_ne _ _ _
        by_cases h : a = addr
        · left
          show findP (s.proxies.filter (·.addr != addr)) a = none
          rw [this]; simp [h]
        · right
          refine ⟨p.cluster, ?_, Or.inl rfl⟩
          show findP (s.proxies.filter (·.addr != addr)) a = _
          rw [this]; simp only [h, ↓reduceIte]
          exact hp
      · have hp'' : findP (s.proxies.filter (·.addr != addr)) a = some p' := hp'
        rw [findP_filter_ne] at hp''
        rw [findProxy_eq] at ha
        split at hp''
        · cases hp''
        · rw [ha] at hp''; cases hp''

/-! ## `step` -/

theorem step_cases (s : Store) (op : Op) : step s op = s ∨ step s op = (stepFull s op).1 := by
  unfold step
  split
  · rename_i h; right; rw [h]
  · rename_i h; right; rw [h]
  · left; rfl
  · left; rfl

theorem stepFull_ok (s : Store) (op : Op) : StepOk s (stepFull s op).1 := by
  cases op with
  | addProxy a n0 n1 h i => exact addProxy_ok s a n0 n1 h i
  | removeProxy a => exact removeProxy_ok s a
  | addCluster n k c => exact (addCluster_ok s n k defaultConfig c).toStepOk
  | removeCluster n => exact (removeCluster_ok s n).toStepOk
  | addNodes n k c => exact (autoAddNodes_ok s n k c).toStepOk
  | scaleUp n k c => exact (autoScaleUpNodes_ok s n k c).toStepOk
  | changeNum n k c => exact (autoChangeNodeNumber_ok s n k c).toStepOk
  | scaleOutNum n k => exact (autoScaleOutNodeNumber_ok s n k).toStepOk
  | delFree n => exact (autoDeleteFreeNodes_ok s n).toStepOk
  | migrate n => exact (migrateSlots_ok s n).toStepOk
  | scaleDown n k => exact (migrateSlotsToScaleDown_ok s n k).toStepOk
  | commit n e rl t c => exact (commitMigration_ok s n rl e t c).toStepOk
  | failover a c => exact (replaceFailedProxy_ok s a c).toStepOk
  | balance n => exact (balanceMasters_ok s n).toStepOk
  | config n kv => exact (changeConfig_ok s n kv).toStepOk
  | bumpAll e => exact (forceBumpAllEpoch_ok s e).toStepOk
  | recover e => exact (recoverEpoch_ok s e).toStepOk
  | addFailure a r t => exact (addFailure_ok s a r t).toStepOk
  | setOrdered =>
    -- mode selection on a fresh store: clusters, proxies and the epoch are untouched
    exact (OpOk.of_same (s' := s.setOrdered) (by unfold Store.setOrdered; split <;> rfl)
      (by unfold Store.setOrdered; split <;> rfl)
      (by unfold Store.setOrdered; split <;> exact Nat.le_refl _)).toStepOk

theorem step_ok (s : Store) (op : Op) : StepOk s (step s op) := by
  rcases step_cases s op with h | h
  · rw [h]; exact (OpOk.refl s).toStepOk
  · rw [h]; exact stepFull_ok s op

/-! ## invariants of reachable states -/

theorem epochInv_init : EpochInv Store.init := by intro c hc; cases hc
theorem nameInv_init : NameInv Store.init := by simp [NameInv, Store.init]

theorem epochInv_reachable : ∀ s, Reachable s → EpochInv s :=
  reachable_induction epochInv_init fun s op _ h => (step_ok s op).epoch h

theorem nameInv_reachable : ∀ s, Reachable s → NameInv s :=
  reachable_induction nameInv_init fun s op _ h => (step_ok s op).names h

/-- `t ⟶* s` by broker operations -/
inductive Steps (t : Store) : Store → Prop where
  | refl : Steps t t
  | snoc {s : Store} (op : Op) : Steps t s → Steps t (step s op)

theorem Steps.trans {t s u : Store} (h1 : Steps t s) (h2 : Steps s u) : Steps t u := by
  induction h2 with
  | refl => exact h1
  | snoc op _ ih => exact Steps.snoc op ih

theorem steps_foldl (t : Store) (ops : List Op) : Steps t (ops.foldl step t) := by
  induction ops generalizing t with
  | nil => exact Steps.refl
  | cons op ops ih => exact (Steps.snoc op Steps.refl).trans (ih (step t op))

theorem Steps.reachable {t s : Store} (h : Steps t s) (ht : Reachable t) : Reachable s := by
  induction h with
  | refl => exact ht
  | snoc op _ ih => exact Reachable.step op ih

theorem Steps.mono {t s : Store} (h : Steps t s) : t.globalEpoch ≤ s.globalEpoch := by
  induction h with
  | refl => exact Nat.le_refl _
  | snoc op _ ih => exact Nat.le_trans ih (step_ok _ op).mono

/-! ## the served key of an address -/

/-- the cluster record a proxy's view is computed from (`none`: served as a free proxy) -/
def ec (s : Store) (p : ProxyRes) : Option Cluster := p.cluster.bind s.findCluster

def kEpoch (G : Nat) : Option Cluster → Nat
  | none => G
  | some c => c.epoch

/-- the epoch served to a registered proxy -/
def servedEpoch (s : Store) (p : ProxyRes) : Nat :=
  match ec s p with
  | none => s.globalEpoch
  | some c => c.epoch

theorem servedEpoch_eq (s : Store) (p : ProxyRes) : servedEpoch s p = kEpoch s.globalEpoch (ec s p) := by
  unfold servedEpoch kEpoch; cases ec s p <;> rfl

theorem servedEpoch_le {s : Store} (h : EpochInv s) (p : ProxyRes) : servedEpoch s p ≤ s.globalEpoch := by
  unfold servedEpoch
  split
  · exact Nat.le_refl _
  · rename_i c hc
    unfold ec at hc
    cases hpc : p.cluster with
    | none => simp [hpc] at hc
    | some n =>
      simp only [hpc, Option.bind_some] at hc
      exact (h c (findC_some hc).1).1

/-- one step: the served epoch does not decrease; if it stays equal, the key is unchanged -/
theorem key_step {s s' : Store} (hinv : EpochInv s) (hf : Frame s s') {a : String} {p p' : ProxyRes}
    (hp : s.findProxy a = some p) (hp' : s'.findProxy a = some p') :
    p'.node0 = p.node0 ∧ p'.node1 = p.node1 ∧ servedEpoch s p ≤ servedEpoch s' p' ∧
      (servedEpoch s p = servedEpoch s' p' → ec s' p' = ec s p) := by
  have hle := servedEpoch_le hinv p
  have hG := hf.mono
  rcases hf.pf a p hp with hnone | ⟨v, hv, htag⟩
  · rw [hnone] at hp'; cases hp'
  · rw [hv] at hp'
    have hp'eq : p' = { p with cluster := v } := (Option.some.inj hp').symm
    refine ⟨by rw [hp'eq], by rw [hp'eq], ?_⟩
    -- anything served under a grown global epoch, or from a cluster written by this step, is newer
    have strict : ∀ {x : Nat}, s.globalEpoch < x → servedEpoch s p ≤ x ∧ (servedEpoch s p = x → False) :=
      fun hx => ⟨by omega, by omega⟩
    rcases htag with hv0 | hnew
    · -- tag unchanged
      have hpp : p' = p := by rw [hp'eq, hv0]
      rw [hpp]
      cases hpc : p.cluster with
      | none =>
        have e1 : ec s p = none := by simp [ec, hpc]
        have e2 : ec s' p = none := by simp [ec, hpc]
        simp only [servedEpoch, e1, e2]
        exact ⟨hG, fun _ => trivial⟩
      | some n =>
        have e1 : ec s p = s.findCluster n := by simp [ec, hpc]
        have e2 : ec s' p = s'.findCluster n := by simp [ec, hpc]
        rcases hf.cf n with hsame | ⟨hgone, hlt⟩ | ⟨c', hc', hlt⟩
        · have e3 : ec s' p = ec s p := by
            rw [e1, e2, findCluster_eq, findCluster_eq, hsame]
          refine ⟨?_, fun _ => e3⟩
          unfold servedEpoch
          rw [e3]
          cases ec s p with
          | none => exact hG
          | some c => exact Nat.le_refl _
        · have e3 : ec s' p = none := by rw [e2, findCluster_eq, hgone]
          have : servedEpoch s' p = s'.globalEpoch := by simp [servedEpoch, e3]
          rw [this]
          have := strict hlt
          exact ⟨this.1, fun h => (this.2 h).elim⟩
        · have e3 : ec s' p = some c' := by rw [e2, findCluster_eq, hc']
          have : servedEpoch s' p = c'.epoch := by simp [servedEpoch, e3]
          rw [this]
          have := strict hlt
          exact ⟨this.1, fun h => (this.2 h).elim⟩
    · -- tag rewritten: only under a grown global epoch
      rw [hp'eq]
      have : s.globalEpoch < servedEpoch s' { p with cluster := v } := by
        unfold servedEpoch
        split
        · exact hnew.1
        · rename_i c' hc'
          unfold ec at hc'
          cases hvv : v with
          | none => simp [hvv] at hc'
          | some n =>
            simp only [hvv, Option.bind_some] at hc'
            exact hnew.2 n hvv c' hc'
      have := strict this
      exact ⟨this.1, fun h => (this.2 h).elim⟩

/-- many steps (the address may be unregistered and registered again in between) -/
theorem key_steps {t s : Store} (ht : Reachable t) (h : Steps t s) {a : String} {p p' : ProxyRes}
    (hp : t.findProxy a = some p) (hp' : s.findProxy a = some p') :
    servedEpoch t p ≤ servedEpoch s p' ∧
      (servedEpoch t p = servedEpoch s p' →
        p'.node0 = p.node0 ∧ p'.node1 = p.node1 ∧ ec s p' = ec t p) := by
  induction h generalizing p' with
  | refl =>
    rw [hp] at hp'; cases hp'
    exact ⟨Nat.le_refl _, fun _ => ⟨rfl, rfl, rfl⟩⟩
  | @snoc s op hs ih =>
    have hrs : Reachable s := hs.reachable ht
    have hinv := epochInv_reachable s hrs
    have hf := (step_ok s op).frame hinv
    cases hq : s.findProxy a with
    | none =>
      -- registered by this very step: served the bumped global epoch
      obtain ⟨hfree, hlt⟩ := hf.fresh a hq p' hp'
      have e : servedEpoch (step s op) p' = (step s op).globalEpoch := by simp [servedEpoch, ec, hfree]
      have h1 := servedEpoch_le (epochInv_reachable t ht) p
      have h2 := hs.mono
      rw [e]
      exact ⟨by omega, fun h => by omega⟩
    | some q =>
      obtain ⟨i1, i2⟩ := ih hq
      obtain ⟨k1, k2, k3, k4⟩ := key_step hinv hf hq hp'
      refine ⟨Nat.le_trans i1 k3, fun heq => ?_⟩
      have e1 : servedEpoch t p = servedEpoch s q := by omega
      have e2 : servedEpoch s q = servedEpoch (step s op) p' := by omega
      obtain ⟨j1, j2, j3⟩ := i2 e1
      exact ⟨k1.trans j1, k2.trans j2, (k4 e2).trans j3⟩

/-! ## from keys to views -/

/-- `get_proxy_by_address` after the record lookups -/
def viewOf (a n0 n1 : String) (G : Nat) (ecl : Option Cluster) (limit : Nat) : R (Option VProxy) :=
  match ecl with
  | none =>
    pure (some { cluster := none, address := a, epoch := G,
                 nodes := [n0, n1].map fun x => { address := x, proxy := a, slots := [], replica := false, peers := [] },
                 peers := [], config := none })
  | some cl => do
    let lc ← limitMigration cl limit
    let v ← clusterStoreToCluster lc
    let nodes := v.nodes.filter (·.proxy == a)
    let peers := groupPeers (v.nodes.filter fun n => !n.replica && n.proxy != a)
    pure (some { cluster := some v.name, address := a, epoch := v.epoch, nodes := nodes, peers := peers,
                 config := some v.config })

theorem proxyView_eq (s : Store) (a : String) (limit : Nat) :
    proxyView s a limit = match s.findProxy a with
      | none => pure none
      | some p => viewOf a p.node0 p.node1 s.globalEpoch (ec s p) limit := by
  unfold proxyView
  cases hp : s.findProxy a with
  | none => rfl
  | some p =>
    have hpa : p.addr = a := (findP_some hp).2
    simp only [viewOf, ec, hpa]
    cases p.cluster.bind s.findCluster <;> rfl

theorem limitMigration_epoch {cl lc : Cluster} {limit : Nat} (h : limitMigration cl limit = .ok lc) :
    lc.epoch = cl.epoch ∧ lc.name = cl.name ∧ lc.config = cl.config := by
  unfold limitMigration at h
  split at h
  · cases h; exact ⟨rfl, rfl, rfl⟩
  · rw [R.bind_ok_iff] at h
    obtain ⟨st, _, h⟩ := h
    cases h; exact ⟨rfl, rfl, rfl⟩

theorem clusterStoreToCluster_epoch {cl : Cluster} {v : VCluster} (h : clusterStoreToCluster cl = .ok v) :
    v.epoch = cl.epoch := by
  unfold clusterStoreToCluster at h
  rw [R.bind_ok_iff] at h
  obtain ⟨nodes, _, h⟩ := h
  cases h; rfl

theorem viewOf_epoch {a n0 n1 : String} {G : Nat} {ecl : Option Cluster} {limit : Nat} {v : VProxy}
    (h : viewOf a n0 n1 G ecl limit = .ok (some v)) :
    v.epoch = kEpoch G ecl := by
  unfold viewOf at h
  split at h
  · cases h; rfl
  · rw [R.bind_ok_iff] at h
    obtain ⟨lc, hlc, h⟩ := h
    rw [R.bind_ok_iff] at h
    obtain ⟨vc, hvc, h⟩ := h
    cases h
    simp only [kEpoch]
    rw [clusterStoreToCluster_epoch hvc, (limitMigration_epoch hlc).1]

/-- the epoch of a served proxy view is the served epoch of its record -/
theorem proxyView_epoch {s : Store} {a : String} {limit : Nat} {v : VProxy}
    (h : proxyView s a limit = .ok (some v)) :
    ∃ p, s.findProxy a = some p ∧ v.epoch = servedEpoch s p := by
  rw [proxyView_eq] at h
  cases hp : s.findProxy a with
  | none => rw [hp] at h; cases h
  | some p =>
    rw [hp] at h
    exact ⟨p, rfl, (viewOf_epoch h).trans (servedEpoch_eq s p).symm⟩

/-- equal key and equal served epoch: equal view -/
theorem proxyView_congr {s s' : Store} {a : String} {limit : Nat} {p p' : ProxyRes}
    (hp : s.findProxy a = some p) (hp' : s'.findProxy a = some p')
    (h0 : p'.node0 = p.node0) (h1 : p'.node1 = p.node1) (hec : ec s' p' = ec s p)
    (he : servedEpoch s p = servedEpoch s' p') : proxyView s' a limit = proxyView s a limit := by
  rw [proxyView_eq, proxyView_eq, hp, hp']
  simp only [h0, h1, hec]
  unfold servedEpoch at he
  rw [hec] at he
  cases hx : ec s p with
  | none => rw [hx] at he; simp only at he; rw [he]
  | some c => rfl

/-- C04 for any two states of one history: epochs of the views served to an address never
decrease, and equal epochs mean equal views -/
theorem view_steps {t s : Store} (ht : Reachable t) (h : Steps t s) {a : String} {limit : Nat}
    {v v' : VProxy} (hv : proxyView t a limit = .ok (some v)) (hv' : proxyView s a limit = .ok (some v')) :
    v.epoch ≤ v'.epoch ∧ (v.epoch = v'.epoch → v' = v) := by
  obtain ⟨p, hp, e⟩ := proxyView_epoch hv
  obtain ⟨p', hp', e'⟩ := proxyView_epoch hv'
  obtain ⟨k1, k2⟩ := key_steps ht h hp hp'
  rw [e, e']
  refine ⟨k1, fun heq => ?_⟩
  obtain ⟨j0, j1, j2⟩ := k2 heq
  have := proxyView_congr (limit := limit) hp hp' j0 j1 j2 heq
  rw [hv, hv'] at this
  cases this; rfl

/-! ## cluster views -/

theorem clusterView_epoch {s : Store} {n : String} {limit : Nat} {v : VCluster}
    (h : clusterView s n limit = .ok (some v)) : ∃ c ∈ s.clusters, v.epoch = c.epoch := by
  unfold clusterView at h
  split at h
  · cases h
  · split at h
    · cases h
    · rename_i cl hcl
      rw [R.bind_ok_iff] at h
      obtain ⟨lc, hlc, h⟩ := h
      rw [R.bind_ok_iff] at h
      obtain ⟨vc, hvc, h⟩ := h
      cases h
      exact ⟨cl, (findC_some hcl).1, by rw [clusterStoreToCluster_epoch hvc, (limitMigration_epoch hlc).1]⟩

/-! ## floors (C13) -/

/-- the global epoch and every cluster epoch are at least `K` -/
def FloorInv (K : Nat) (s : Store) : Prop := K ≤ s.globalEpoch ∧ ∀ c ∈ s.clusters, K ≤ c.epoch

theorem findC_of_mem_nodup {l : List Cluster} (hnd : (l.map (·.name)).Nodup) {c : Cluster} (hc : c ∈ l) :
    findC l c.name = some c := by
  induction l with
  | nil => cases hc
  | cons x xs ih =>
    simp only [List.map_cons, List.nodup_cons] at hnd
    unfold findC at ih ⊢
    rw [List.find?_cons]
    rcases List.mem_cons.mp hc with rfl | hc
    · simp
    · have : ¬ (x.name == c.name) = true := by
        simp only [beq_iff_eq]
        intro heq
        exact hnd.1 (heq ▸ List.mem_map.mpr ⟨c, hc, rfl⟩)
      simp only [this]
      exact ih hnd.2 hc

theorem floor_step {K : Nat} {s : Store} (hr : Reachable s) (op : Op) (h : FloorInv K s) :
    FloorInv K (step s op) := by
  have hok := step_ok s op
  have hf := hok.frame (epochInv_reachable s hr)
  have hn := nameInv_reachable _ (Reachable.step op hr)
  refine ⟨Nat.le_trans h.1 hok.mono, fun c' hc' => ?_⟩
  have hfind := findC_of_mem_nodup hn hc'
  rcases hf.cf c'.name with hsame | ⟨hgone, _⟩ | ⟨c'', hc'', hlt⟩
  · rw [hfind] at hsame
    exact h.2 c' (findC_some hsame.symm).1
  · rw [hfind] at hgone; cases hgone
  · rw [hfind] at hc''; cases hc''
    have := h.1; omega

theorem floor_steps {K : Nat} {t s : Store} (ht : Reachable t) (h : Steps t s) (hK : FloorInv K t) :
    FloorInv K s := by
  induction h with
  | refl => exact hK
  | snoc op hs ih => exact floor_step (hs.reachable ht) op ih

theorem servedEpoch_floor {K : Nat} {s : Store} (h : FloorInv K s) (p : ProxyRes) : K ≤ servedEpoch s p := by
  unfold servedEpoch
  split
  · exact h.1
  · rename_i c hc
    unfold ec at hc
    cases hpc : p.cluster with
    | none => simp [hpc] at hc
    | some n =>
      simp only [hpc, Option.bind_some] at hc
      exact h.2 c (findC_some hc).1

end Um.Broker.Epoch
