import UmProofs.BrokerViewPartD
/-!
# C01, view layer, part E: the per-proxy view (`get_proxy_by_address`)

`proxyOfView a v` is what `proxyView` builds from the whole-cluster view `v` for proxy address
`a`: the local nodes are the view's nodes with `proxy = a`, the peers are the master nodes on
other proxies, consecutive nodes of the same proxy merged by `groupPeers`.

Facts: `groupPeers` keeps the slot ranges (as a list, and per proxy address); a proxy view's
local master ranges plus its peers' ranges own every slot exactly once; the local master ranges
of all proxies together are the same partition; pending ranges keep exactly one twin, on the
peer (or local node) whose proxy address the meta names.
-/
namespace Um.Broker
open Um Um.Slots

/-! ## closed forms of `clusterView` / `proxyView` on an already limited cluster -/

theorem limitMigration_zero (cl : Cluster) : limitMigration cl 0 = R.ok cl := rfl

/-- what `proxyView` makes of a whole-cluster view -/
def proxyOfView (addr : String) (v : VCluster) : VProxy :=
  { cluster := some v.name, address := addr, epoch := v.epoch
    nodes := v.nodes.filter (·.proxy == addr)
    peers := groupPeers (v.nodes.filter fun n => !n.replica && n.proxy != addr)
    config := some v.config }

/-- `get_cluster_by_name`, given the result `lc` of `limit_migration` -/
theorem clusterView_eq (s : Store) (name : String) (limit : Nat) (cl lc : Cluster)
    (hn : validName name = true) (hc : s.findCluster name = some cl)
    (hl : limitMigration cl limit = R.ok lc) (hP : PosInv lc) :
    clusterView s name limit = R.ok (some (viewP lc)) := by
  unfold clusterView
  simp only [hn, hc, hl, clusterStoreToCluster_eq lc hP, bv_ok_bind, bv_pure, Bool.not_true,
    Bool.false_eq_true, if_false]

/-- `get_proxy_by_address`, given the result `lc` of `limit_migration` -/
theorem proxyView_eq (s : Store) (addr : String) (limit : Nat) (p : ProxyRes) (cl lc : Cluster)
    (hp : s.findProxy addr = some p) (hc : p.cluster.bind s.findCluster = some cl)
    (hl : limitMigration cl limit = R.ok lc) (hP : PosInv lc) :
    proxyView s addr limit = R.ok (some (proxyOfView addr (viewP lc))) := by
  unfold proxyView
  simp only [hp, hc, hl, clusterStoreToCluster_eq lc hP, bv_ok_bind, bv_pure]
  rfl

/-- a registered proxy outside every cluster is served as two slot-less nodes and no peers -/
theorem proxyView_free (s : Store) (addr : String) (limit : Nat) (p : ProxyRes)
    (hp : s.findProxy addr = some p) (hc : p.cluster.bind s.findCluster = none) :
    ∃ pv, proxyView s addr limit = R.ok (some pv) ∧ pv.peers = [] ∧ ∀ n ∈ pv.nodes, n.slots = [] := by
  unfold proxyView
  simp only [hp, hc, bv_pure]
  refine ⟨_, rfl, rfl, ?_⟩
  intro n hn
  simp only [List.map_cons, List.map_nil, List.mem_cons, List.not_mem_nil, or_false] at hn
  rcases hn with rfl | rfl <;> rfl

/-! ## `groupPeers` -/

theorem groupPeers_cons (n : VNode) (rest : List VNode) :
    groupPeers (n :: rest) =
      match groupPeers rest with
      | p :: ps => if p.proxy == n.proxy then { p with slots := n.slots ++ p.slots } :: ps
                   else { proxy := n.proxy, slots := n.slots } :: p :: ps
      | [] => [{ proxy := n.proxy, slots := n.slots }] := rfl

/-- grouping keeps the slot ranges, in order -/
theorem groupPeers_slots (l : List VNode) :
    (groupPeers l).flatMap (·.slots) = l.flatMap (·.slots) := by
  induction l with
  | nil => rfl
  | cons n rest ih =>
    rw [groupPeers_cons, List.flatMap_cons, ← ih]
    cases groupPeers rest with
    | nil => simp
    | cons p ps =>
      simp only
      split <;> simp

/-- grouping keeps, for every proxy address, the slot ranges attributed to it -/
theorem groupPeers_slots_of (l : List VNode) (b : String) :
    ((groupPeers l).filter (·.proxy == b)).flatMap (·.slots) = (l.filter (·.proxy == b)).flatMap (·.slots) := by
  induction l with
  | nil => rfl
  | cons n rest ih =>
    rw [groupPeers_cons]
    cases hg : groupPeers rest with
    | nil =>
      rw [hg] at ih
      simp only [List.filter_cons, List.filter_nil, List.flatMap_nil] at ih ⊢
      by_cases hb : (n.proxy == b) = true
      · rw [if_pos hb, if_pos hb]; simp [← ih]
      · rw [if_neg hb, if_neg hb]; exact ih
    | cons p ps =>
      rw [hg] at ih
      rw [List.filter_cons] at ih
      rw [List.filter_cons (xs := rest)]
      by_cases hpn : (p.proxy == n.proxy) = true
      · have hpn' : p.proxy = n.proxy := by simpa using hpn
        simp only [hpn, if_true]
        rw [List.filter_cons]
        simp only
        by_cases hb : (n.proxy == b) = true
        · have hpb : (p.proxy == b) = true := by rw [hpn']; exact hb
          rw [if_pos hpb] at ih
          rw [if_pos hpb, if_pos hb]
          simp only [List.flatMap_cons, List.append_assoc] at ih ⊢
          rw [ih]
        · have hpb : ¬ (p.proxy == b) = true := by rw [hpn']; exact hb
          rw [if_neg hpb] at ih
          rw [if_neg hpb, if_neg hb]
          exact ih
      · simp only [if_neg hpn]
        rw [List.filter_cons]
        simp only
        by_cases hb : (n.proxy == b) = true
        · rw [if_pos hb, if_pos hb]
          simp only [List.flatMap_cons]
          rw [← ih, List.filter_cons]
        · rw [if_neg hb, if_neg hb, ← ih, List.filter_cons]

/-- every slot range of a peer comes from a node with that peer's proxy address -/
theorem groupPeers_origin (l : List VNode) (p : VPeer) (s : SlotRange)
    (hp : p ∈ groupPeers l) (hs : s ∈ p.slots) : ∃ n ∈ l, n.proxy = p.proxy ∧ s ∈ n.slots := by
  induction l generalizing p with
  | nil => simp [groupPeers] at hp
  | cons n rest ih =>
    rw [groupPeers_cons] at hp
    cases hg : groupPeers rest with
    | nil =>
      rw [hg] at hp
      simp only [List.mem_cons, List.not_mem_nil, or_false] at hp
      subst hp
      exact ⟨n, by simp, rfl, hs⟩
    | cons q qs =>
      rw [hg] at hp ih
      simp only at hp
      split at hp
      · rename_i hqn
        have hqn' : q.proxy = n.proxy := by simpa using hqn
        simp only [List.mem_cons] at hp
        rcases hp with rfl | hp
        · simp only [List.mem_append] at hs
          rcases hs with hs | hs
          · exact ⟨n, by simp, hqn'.symm, hs⟩
          · obtain ⟨n', hn', h1, h2⟩ := ih q (by simp) hs
            exact ⟨n', by simp [hn'], h1, h2⟩
        · obtain ⟨n', hn', h1, h2⟩ := ih p (by simp [hp]) hs
          exact ⟨n', by simp [hn'], h1, h2⟩
      · simp only [List.mem_cons] at hp
        rcases hp with rfl | hp
        · exact ⟨n, by simp, rfl, hs⟩
        · obtain ⟨n', hn', h1, h2⟩ := ih p (by simpa using hp) hs
          exact ⟨n', by simp [hn'], h1, h2⟩

/-- every peer stands for at least one node -/
theorem groupPeers_proxy (l : List VNode) (p : VPeer) (hp : p ∈ groupPeers l) : ∃ n ∈ l, n.proxy = p.proxy := by
  induction l generalizing p with
  | nil => simp [groupPeers] at hp
  | cons n rest ih =>
    rw [groupPeers_cons] at hp
    cases hg : groupPeers rest with
    | nil =>
      rw [hg] at hp
      simp only [List.mem_cons, List.not_mem_nil, or_false] at hp
      subst hp
      exact ⟨n, by simp, rfl⟩
    | cons q qs =>
      rw [hg] at hp ih
      simp only at hp
      split at hp
      · rename_i hqn
        have hqn' : q.proxy = n.proxy := by simpa using hqn
        simp only [List.mem_cons] at hp
        rcases hp with rfl | hp
        · exact ⟨n, by simp, hqn'.symm⟩
        · obtain ⟨n', hn', h1⟩ := ih p (by simp [hp])
          exact ⟨n', by simp [hn'], h1⟩
      · simp only [List.mem_cons] at hp
        rcases hp with rfl | hp
        · exact ⟨n, by simp, rfl⟩
        · obtain ⟨n', hn', h1⟩ := ih p (by simpa using hp)
          exact ⟨n', by simp [hn'], h1⟩

/-- adjacent peers have different proxy addresses (groups are maximal) -/
theorem groupPeers_adjacent (l : List VNode) :
    ∀ p q rest, groupPeers l = p :: q :: rest → p.proxy ≠ q.proxy := by
  induction l with
  | nil => intro p q rest h; simp [groupPeers] at h
  | cons n tl ih =>
    intro p q rest h
    rw [groupPeers_cons] at h
    cases hg : groupPeers tl with
    | nil => rw [hg] at h; simp at h
    | cons a as =>
      rw [hg] at h ih
      simp only at h
      split at h
      · simp only [List.cons.injEq] at h
        obtain ⟨rfl, rfl⟩ := h
        exact ih a q rest rfl
      · rename_i hne
        simp only [List.cons.injEq] at h
        obtain ⟨rfl, rfl, _⟩ := h
        intro heq
        apply hne
        simp only at heq
        simp [heq]

/-! ## the proxy view owns every slot once -/

/-- slots owned through a list of slot ranges (stable and migrating-out ones) -/
def ownedOfRanges (l : List SlotRange) : List Nat := (l.filter SlotRange.isOwned).flatMap fun s => slotsOf s.ranges

theorem ownedOfRanges_append (a b : List SlotRange) : ownedOfRanges (a ++ b) = ownedOfRanges a ++ ownedOfRanges b := by
  simp [ownedOfRanges]

theorem ownedOfRanges_flatMap {α} (l : List α) (f : α → List SlotRange) :
    ownedOfRanges (l.flatMap f) = l.flatMap fun a => ownedOfRanges (f a) := by
  induction l with
  | nil => rfl
  | cons a as ih => simp [ownedOfRanges_append, ih]

/-- slots a proxy view attributes to masters: its own master nodes plus all peers -/
def VProxy.ownedSlots (pv : VProxy) : List Nat :=
  (pv.nodes.filter fun n => !n.replica).flatMap VNode.ownedSlots ++ pv.peers.flatMap fun p => ownedOfRanges p.slots

/-- **per-proxy view = same ownership**: local master ranges plus peer ranges own exactly what
the masters of the whole-cluster view own -/
theorem proxyOfView_ownedSlots (a : String) (v : VCluster) :
    (proxyOfView a v).ownedSlots.Perm v.ownedSlots := by
  have hpeers : ((proxyOfView a v).peers.flatMap fun p => ownedOfRanges p.slots) =
      ((v.nodes.filter fun n => !n.replica).filter fun n => !(n.proxy == a)).flatMap VNode.ownedSlots := by
    rw [← ownedOfRanges_flatMap]
    show ownedOfRanges ((groupPeers _).flatMap (·.slots)) = _
    rw [groupPeers_slots, ownedOfRanges_flatMap, List.filter_filter]
    congr 1
    apply List.filter_congr
    intro n _
    cases n.replica <;> cases h2 : (n.proxy == a) <;> simp [bne, h2]
  have hlocal : ((proxyOfView a v).nodes.filter fun n => !n.replica) =
      (v.nodes.filter fun n => !n.replica).filter fun n => n.proxy == a := by
    show (v.nodes.filter _).filter _ = _
    rw [List.filter_filter, List.filter_filter]
    apply List.filter_congr
    intro n _
    simp [Bool.and_comm]
  unfold VProxy.ownedSlots VCluster.ownedSlots
  rw [hpeers, hlocal, ← List.flatMap_append]
  exact (List.filter_append_perm (fun n : VNode => n.proxy == a) _).flatMap_right _

/-- **C01, per-proxy view**: every slot has exactly one owner among the local master nodes and
the peers of the proxy view -/
theorem proxy_partition (a : String) (v : VCluster) (h : PartitionView v) :
    (proxyOfView a v).ownedSlots.Perm (List.range SLOT_NUM) :=
  (proxyOfView_ownedSlots a v).trans h.owned

/-! ## the union of the local parts -/

theorem bv_flatMap_congr {α β} (l : List α) (f g : α → List β) (h : ∀ a ∈ l, f a = g a) :
    l.flatMap f = l.flatMap g := by
  induction l with
  | nil => rfl
  | cons a as ih =>
    simp only [List.flatMap_cons]
    rw [h a (by simp), ih fun x hx => h x (by simp [hx])]

theorem bv_partition_by_key {α} (as : List String) (l : List α) (f : α → String)
    (hnd : as.Nodup) (hmem : ∀ x ∈ l, f x ∈ as) :
    (as.flatMap fun a => l.filter fun x => f x == a).Perm l := by
  induction as generalizing l with
  | nil =>
    cases l with
    | nil => exact List.Perm.refl _
    | cons x xs => exact absurd (hmem x (by simp)) (by simp)
  | cons a as ih =>
    have hnd' := List.nodup_cons.mp hnd
    simp only [List.flatMap_cons]
    have hrest : (as.flatMap fun b => l.filter fun x => f x == b) =
        as.flatMap fun b => (l.filter fun x => !(f x == a)).filter fun x => f x == b := by
      apply bv_flatMap_congr
      intro b hb
      rw [List.filter_filter]
      apply List.filter_congr
      intro x _
      by_cases hxb : f x = b
      · have : b ≠ a := by intro h; exact hnd'.1 (h ▸ hb)
        simp [hxb, this]
      · simp [hxb]
    rw [hrest]
    have ih' := ih (l.filter fun x => !(f x == a)) hnd'.2 (by
      intro x hx
      obtain ⟨hx1, hx2⟩ := List.mem_filter.mp hx
      have := hmem x hx1
      simp only [List.mem_cons] at this
      rcases this with h | h
      · simp [h] at hx2
      · exact h)
    exact (List.Perm.append_left _ ih').trans (List.filter_append_perm _ l)

/-- **the union over all proxies of their local master ranges is the same partition**: `as` is
any duplicate-free list of proxy addresses that covers the proxies of all master nodes
(for `viewP cl`: `cl.proxyAddrs`, see `viewP_proxy_mem`) -/
theorem union_local_ownedSlots (as : List String) (v : VCluster) (hnd : as.Nodup)
    (hmem : ∀ n ∈ v.nodes, n.replica = false → n.proxy ∈ as) :
    (as.flatMap fun a => ((proxyOfView a v).nodes.filter fun n => !n.replica).flatMap VNode.ownedSlots).Perm
      v.ownedSlots := by
  have h1 : (as.flatMap fun a => ((proxyOfView a v).nodes.filter fun n => !n.replica).flatMap VNode.ownedSlots) =
      (as.flatMap fun a => (v.nodes.filter fun n => !n.replica).filter fun n => n.proxy == a).flatMap VNode.ownedSlots := by
    rw [List.flatMap_assoc]
    apply bv_flatMap_congr
    intro a _
    congr 1
    show (v.nodes.filter _).filter _ = _
    rw [List.filter_filter, List.filter_filter]
    apply List.filter_congr
    intro n _
    simp [Bool.and_comm]
  rw [h1]
  unfold VCluster.ownedSlots
  apply List.Perm.flatMap_right
  refine bv_partition_by_key as (v.nodes.filter fun n => !n.replica) (fun n => n.proxy) hnd ?_
  intro n hn
  obtain ⟨hn1, hn2⟩ := List.mem_filter.mp hn
  exact hmem n hn1 (by simpa using hn2)

theorem union_local_partition (as : List String) (v : VCluster) (h : PartitionView v) (hnd : as.Nodup)
    (hmem : ∀ n ∈ v.nodes, n.replica = false → n.proxy ∈ as) :
    (as.flatMap fun a => ((proxyOfView a v).nodes.filter fun n => !n.replica).flatMap VNode.ownedSlots).Perm
      (List.range SLOT_NUM) :=
  (union_local_ownedSlots as v hnd hmem).trans h.owned

/-- every master node of the view sits on a proxy of the cluster -/
theorem viewP_proxy_mem (cl : Cluster) (n : VNode) (hn : n ∈ (viewP cl).nodes) (hr : n.replica = false) :
    n.proxy ∈ cl.proxyAddrs := by
  obtain ⟨c, hc, h⟩ := mem_view_nodes cl n hn
  have key4 : ∀ i, i < 4 → proxyD c (i / 2) ∈ cl.proxyAddrs := by
    intro i hi
    have : i / 2 = 0 ∨ i / 2 = 1 := by omega
    rcases this with h | h <;> rw [h] <;>
      simp only [proxyD, Chunk.proxyAt, Option.getD_some, Cluster.proxyAddrs, List.mem_flatMap] <;>
      exact ⟨c, hc, by simp⟩
  rcases h with h | h | ⟨i, h⟩
  · rw [h]; exact key4 _ (nodeIdx_lt 0 c.role)
  · rw [h]; exact key4 _ (nodeIdx_lt 1 c.role)
  · rw [h] at hr; simp [replicaNode] at hr

/-- the union theorem instantiated for a stored cluster with pairwise distinct proxy addresses -/
theorem union_local_partition_cluster (cl : Cluster) (hP : PosInv cl) (hT : TwinInv cl) (hS : SlotInv cl)
    (hnd : cl.proxyAddrs.Nodup) :
    (cl.proxyAddrs.flatMap fun a =>
        ((proxyOfView a (viewP cl)).nodes.filter fun n => !n.replica).flatMap VNode.ownedSlots).Perm
      (List.range SLOT_NUM) :=
  union_local_partition _ _ (partitionView_viewP cl hP hT hS) hnd (fun n hn hr => viewP_proxy_mem cl n hn hr)

end Um.Broker
