import UmProofs.ReplEpochBasic
/-!
`Um.ReplEpoch`: what `buildMap` installs.  For a message whose master keys and replica keys are
disjoint (a node is not listed in both roles) the installed map is a function of the message alone
— `canonGet` — whatever snapshot the reuse set was computed from (even a stale one).  And the
installed pair `(epoch, map)` always comes from one and the same caller.
-/
namespace Um.ReplEpoch
open Um Um.ProxyMeta

section assoc
variable {κ α : Type} [DecidableEq κ]

theorem amGet?_insert (m : List (κ × α)) (k : κ) (v : α) (k' : κ) :
    amGet? (amInsert m k v) k' = if k = k' then some v else amGet? m k' := by
  induction m with
  | nil => simp [amInsert, amGet?]
  | cons p r ih =>
    obtain ⟨k1, v1⟩ := p
    by_cases h1 : k1 = k
    · subst h1
      simp only [amInsert, if_true, amGet?]
      by_cases h2 : k1 = k' <;> simp [h2]
    · simp only [amInsert, h1, if_false, amGet?, ih]
      by_cases h2 : k1 = k'
      · subst h2; simp [Ne.symm h1]
      · simp [h2]

end assoc

/-- the last entry of the list with key `k` -/
def lastKey : List Entry → Key → Option Entry
  | [], _ => none
  | e :: r, k =>
    match lastKey r k with
    | some x => some x
    | none => if e.key = k then some e else none

/-- the map a message asks for: per key the last replica entry, else the last master entry -/
def canonGet (m : RMsg) (k : Key) : Option Rec :=
  match lastKey m.replicas k with
  | some e => some ⟨false, e⟩
  | none => (lastKey m.masters k).map fun e => ⟨true, e⟩

/-- no node is listed both as master and as replica -/
def KeysDisjoint (m : RMsg) : Prop := ∀ k, lastKey m.masters k = none ∨ lastKey m.replicas k = none

theorem keySet_fold_get (es : List Entry) (acc : List (Key × Entry)) (k : Key) :
    amGet? (es.foldl (fun m e => amInsert m e.key e) acc) k =
      match lastKey es k with
      | some x => some x
      | none => amGet? acc k := by
  induction es generalizing acc with
  | nil => simp [lastKey]
  | cons e r ih =>
    simp only [List.foldl_cons, ih, lastKey]
    cases lastKey r k with
    | some x => rfl
    | none =>
      simp only [amGet?_insert]
      by_cases h : e.key = k <;> simp [h]

theorem keySet_get (es : List Entry) (k : Key) : amGet? (keySet es) k = lastKey es k := by
  unfold keySet
  rw [keySet_fold_get]
  cases lastKey es k <;> simp [amGet?]

/-- every reused record is listed by the message with the same role and the same metadata -/
def ReuseSound (m : RMsg) (reused : RMap) : Prop :=
  ∀ k r, amGet? reused k = some r →
    (r.master = true ∧ lastKey m.masters k = some r.entry) ∨
    (r.master = false ∧ lastKey m.replicas k = some r.entry)

theorem reuseOf_sound (m : RMsg) (im : RMap) :
    ReuseSound m (reuseOf (keySet m.masters) (keySet m.replicas) im) := by
  unfold reuseOf
  suffices h : ∀ (acc : RMap), ReuseSound m acc →
      ReuseSound m (im.foldl (fun acc kr =>
        let acc1 := if kr.2.master && amGet? (keySet m.masters) kr.1 == some kr.2.entry then amInsert acc kr.1 kr.2 else acc
        if !kr.2.master && amGet? (keySet m.replicas) kr.1 == some kr.2.entry then amInsert acc1 kr.1 kr.2 else acc1) acc) by
    exact h [] (by intro k r hk; simp [amGet?] at hk)
  induction im with
  | nil => intro acc h; exact h
  | cons kr rest ih =>
    intro acc hacc
    simp only [List.foldl_cons]
    apply ih
    obtain ⟨k0, r0⟩ := kr
    simp only [keySet_get]
    -- first conditional insert
    have h1 : ReuseSound m (if (r0.master && lastKey m.masters k0 == some r0.entry) = true then amInsert acc k0 r0 else acc) := by
      by_cases hc : (r0.master && lastKey m.masters k0 == some r0.entry) = true
      · simp only [hc, if_true]
        simp only [Bool.and_eq_true, beq_iff_eq] at hc
        intro k r hk
        rw [amGet?_insert] at hk
        by_cases hkk : k0 = k
        · subst hkk
          simp only [if_true, Option.some.injEq] at hk
          subst hk
          exact Or.inl hc
        · simp only [hkk, if_false] at hk
          exact hacc k r hk
      · simp only [hc]
        exact hacc
    by_cases hc : (!r0.master && lastKey m.replicas k0 == some r0.entry) = true
    · simp only [hc, if_true]
      simp only [Bool.and_eq_true, Bool.not_eq_true', beq_iff_eq] at hc
      intro k r hk
      rw [amGet?_insert] at hk
      by_cases hkk : k0 = k
      · subst hkk
        simp only [if_true, Option.some.injEq] at hk
        subst hk
        exact Or.inr hc
      · simp only [hkk, if_false] at hk
        exact h1 k r hk
    · simp only [hc]
      exact h1

theorem freshOf_fold_get (es : List Entry) (reused : RMap) (acc : List (Key × Entry)) (k : Key) :
    amGet? (es.foldl (fun m e => if (amGet? reused e.key).isSome then m else amInsert m e.key e) acc) k =
      if (amGet? reused k).isSome then amGet? acc k
      else match lastKey es k with
        | some x => some x
        | none => amGet? acc k := by
  induction es generalizing acc with
  | nil => simp [lastKey]
  | cons e r ih =>
    simp only [List.foldl_cons, ih, lastKey]
    by_cases hk : (amGet? reused k).isSome = true
    · simp only [hk, if_true]
      by_cases he : (amGet? reused e.key).isSome = true
      · simp [he]
      · have : e.key ≠ k := by
          intro h; rw [h] at he; exact he hk
        simp [he, amGet?_insert, this]
    · simp only [hk]
      cases lastKey r k with
      | some x => rfl
      | none =>
        by_cases hek : e.key = k
        · subst hek
          simp [hk, amGet?_insert]
        · by_cases he : (amGet? reused e.key).isSome = true
          · simp [he, hek]
          · simp [he, hek, amGet?_insert]

theorem freshOf_get (es : List Entry) (reused : RMap) (k : Key) :
    amGet? (freshOf es reused) k = if (amGet? reused k).isSome then none else lastKey es k := by
  unfold freshOf
  rw [freshOf_fold_get]
  by_cases hk : (amGet? reused k).isSome = true
  · simp [hk, amGet?]
  · simp only [hk]
    cases lastKey es k <;> simp [amGet?]

/-- keys of an association list -/
def keys {α : Type} (l : List (Key × α)) : List Key := l.map (·.1)

theorem amGet?_none_of_not_mem {α : Type} (l : List (Key × α)) (k : Key) (h : k ∉ keys l) : amGet? l k = none := by
  induction l with
  | nil => rfl
  | cons p r ih =>
    obtain ⟨k1, v1⟩ := p
    simp only [keys, List.map_cons, List.mem_cons, not_or] at h
    have h1 : ¬ k1 = k := fun h' => h.1 h'.symm
    simp only [amGet?, h1, if_false]
    exact ih h.2

theorem keys_insert {α : Type} (l : List (Key × α)) (k : Key) (v : α) :
    ∀ x, x ∈ keys (amInsert l k v) → x ∈ keys l ∨ x = k := by
  induction l with
  | nil => intro x hx; simp [amInsert, keys] at hx; exact Or.inr hx
  | cons p r ih =>
    obtain ⟨k1, v1⟩ := p
    intro x hx
    by_cases h1 : k1 = k
    · subst h1
      simp only [amInsert, if_true, keys, List.map_cons, List.mem_cons] at hx
      rcases hx with hx | hx
      · exact Or.inr hx
      · left; simp [keys, hx]
    · simp only [amInsert, h1, if_false, keys, List.map_cons, List.mem_cons] at hx
      rcases hx with hx | hx
      · left; simp [keys, hx]
      · rcases ih x hx with h | h
        · left; simp only [keys, List.map_cons, List.mem_cons]; exact Or.inr h
        · exact Or.inr h

theorem nodup_insert {α : Type} (l : List (Key × α)) (k : Key) (v : α) (h : (keys l).Nodup) :
    (keys (amInsert l k v)).Nodup := by
  induction l with
  | nil => simp [amInsert, keys]
  | cons p r ih =>
    obtain ⟨k1, v1⟩ := p
    simp only [keys, List.map_cons, List.nodup_cons] at h
    by_cases h1 : k1 = k
    · subst h1
      simp only [amInsert, if_true, keys, List.map_cons, List.nodup_cons]
      exact h
    · simp only [amInsert, h1, if_false, keys, List.map_cons, List.nodup_cons]
      refine ⟨?_, ih h.2⟩
      intro hm
      rcases keys_insert r k v k1 hm with h2 | h2
      · exact h.1 h2
      · exact h1 h2

theorem nodup_freshOf (es : List Entry) (reused : RMap) : (keys (freshOf es reused)).Nodup := by
  unfold freshOf
  suffices h : ∀ acc : List (Key × Entry), (keys acc).Nodup →
      (keys (es.foldl (fun m e => if (amGet? reused e.key).isSome then m else amInsert m e.key e) acc)).Nodup by
    exact h [] (by simp [keys])
  induction es with
  | nil => intro acc h; exact h
  | cons e r ih =>
    intro acc h
    simp only [List.foldl_cons]
    apply ih
    by_cases he : (amGet? reused e.key).isSome = true
    · simp [he, h]
    · simp only [he]
      exact nodup_insert acc e.key e h

/-- inserting every pair of a duplicate-free association list into a base map -/
theorem insertAll_get (f : Entry → Rec) (l : List (Key × Entry)) (base : RMap) (h : (keys l).Nodup) (k : Key) :
    amGet? (l.foldl (fun acc ke => amInsert acc ke.1 (f ke.2)) base) k =
      match amGet? l k with
      | some e => some (f e)
      | none => amGet? base k := by
  induction l generalizing base with
  | nil => simp [amGet?]
  | cons p r ih =>
    obtain ⟨k1, e1⟩ := p
    simp only [keys, List.map_cons, List.nodup_cons] at h
    simp only [List.foldl_cons, ih _ h.2, amGet?]
    by_cases h1 : k1 = k
    · subst h1
      have : amGet? r k1 = none := amGet?_none_of_not_mem r k1 h.1
      simp [this, amGet?_insert]
    · simp only [h1, if_false]
      cases amGet? r k with
      | some e => rfl
      | none => simp [amGet?_insert, h1]

/-- **what is installed** for a message that lists no node in both roles -/
theorem buildMap_canon (m : RMsg) (reused : RMap) (hs : ReuseSound m reused) (hd : KeysDisjoint m) (k : Key) :
    amGet? (buildMap reused m) k = canonGet m k := by
  unfold buildMap canonGet
  simp only
  rw [insertAll_get (fun e => ⟨false, e⟩) _ _ (nodup_freshOf _ _),
      insertAll_get (fun e => ⟨true, e⟩) _ _ (nodup_freshOf _ _), freshOf_get, freshOf_get]
  cases hr : amGet? reused k with
  | none =>
    simp only [Option.isSome_none, Bool.false_eq_true, if_false]
    cases lastKey m.replicas k with
    | some e => rfl
    | none =>
      cases lastKey m.masters k with
      | some e => rfl
      | none => rfl
  | some r =>
    simp only [Option.isSome_some, if_true]
    rcases hs k r hr with ⟨h1, h2⟩ | ⟨h1, h2⟩
    · have h3 : lastKey m.replicas k = none := by
        rcases hd k with h | h
        · rw [h] at h2; cases h2
        · exact h
      rw [h3, h2]
      obtain ⟨rm, re⟩ := r
      simp only at h1
      subst h1
      rfl
    · rw [h2]
      obtain ⟨rm, re⟩ := r
      simp only at h1
      subst h1
      rfl

/-! ## the installed pair comes from one caller -/

/-- `(installed epoch, installed map)` is the initial pair or the pair written by one caller that
returned `OK`; the reuse set of a caller at (or past) the write lock is sound for its own message -/
structure PairInv (e0 : Nat) (m0 : RMap) (s : Sys) : Prop where
  pair : (s.instEpoch = e0 ∧ s.instMap = m0) ∨
    ∃ (j : Nat) (c : Caller), s.callers[j]? = some c ∧ c.pc = .done .ok ∧
      s.instEpoch = c.msg.epoch ∧ s.instMap = buildMap c.reused c.msg
  sound : ∀ (j : Nat) (c : Caller), s.callers[j]? = some c → (c.pc = .writeLock ∨ c.pc = .done .ok) →
    ReuseSound c.msg c.reused

theorem pairInv_step {announce : Bytes} {e0 : Nat} {m0 : RMap} {s s' : Sys} {l : Label}
    (h : Step announce s l s') (inv : PairInv e0 m0 s) : PairInv e0 m0 s' := by
  rcases step_pool h with ⟨m, _, _, hie, him, _, hp⟩ | ⟨i, ci, ci', u', ie', im', _, hci, hu', hie', him', ha, _, hp⟩
  · have keep : ∀ (j : Nat) (c : Caller), s.callers[j]? = some c → s'.callers[j]? = some c := by
      intro j c hj
      have hlt : j < s.callers.length := by
        obtain ⟨h, _⟩ := List.getElem?_eq_some_iff.mp hj; exact h
      rw [hp j]; simp [Nat.ne_of_lt hlt, hj]
    constructor
    · rcases inv.pair with ⟨h1, h2⟩ | ⟨j, c, hj, hpc, h1, h2⟩
      · left; exact ⟨by omega, by rw [him]; exact h2⟩
      · right; exact ⟨j, c, keep j c hj, hpc, by omega, by rw [him]; exact h2⟩
    · intro j c hj hpc
      rw [hp j] at hj
      by_cases hjl : j = s.callers.length
      · simp only [hjl, if_true, Option.some.injEq] at hj
        subst hj
        unfold spawnCaller at hpc
        cases hh : hostsOk announce m <;> simp [hh] at hpc
      · simp only [hjl, if_false] at hj
        exact inv.sound j c hj hpc
  · have self' : s'.callers[i]? = some ci' := by rw [hp i]; simp
    have keep : ∀ (j : Nat) (c : Caller), s.callers[j]? = some c → j ≠ i → s'.callers[j]? = some c := by
      intro j c hj hji; rw [hp j]; simp [hji, hj]
    constructor
    · cases ha with
      | install hpc hle =>
        right
        exact ⟨i, _, self', rfl, hie', him'⟩
      | loadRej hpc hf hle =>
        rcases inv.pair with ⟨h1, h2⟩ | ⟨j, c, hj, hpc', h1, h2⟩
        · left; exact ⟨by omega, by rw [him']; exact h2⟩
        · right
          have hji : j ≠ i := by
            intro hji; subst hji; rw [hci] at hj; cases hj; simp [hpc] at hpc'
          exact ⟨j, c, keep j c hj hji, hpc', by omega, by rw [him']; exact h2⟩
      | loadPass hpc hle =>
        rcases inv.pair with ⟨h1, h2⟩ | ⟨j, c, hj, hpc', h1, h2⟩
        · left; exact ⟨by omega, by rw [him']; exact h2⟩
        · right
          have hji : j ≠ i := by
            intro hji; subst hji; rw [hci] at hj; cases hj; simp [hpc] at hpc'
          exact ⟨j, c, keep j c hj hji, hpc', by omega, by rw [him']; exact h2⟩
      | store hpc =>
        rcases inv.pair with ⟨h1, h2⟩ | ⟨j, c, hj, hpc', h1, h2⟩
        · left; exact ⟨by omega, by rw [him']; exact h2⟩
        · right
          have hji : j ≠ i := by
            intro hji; subst hji; rw [hci] at hj; cases hj; simp [hpc] at hpc'
          exact ⟨j, c, keep j c hj hji, hpc', by omega, by rw [him']; exact h2⟩
      | read hpc =>
        rcases inv.pair with ⟨h1, h2⟩ | ⟨j, c, hj, hpc', h1, h2⟩
        · left; exact ⟨by omega, by rw [him']; exact h2⟩
        · right
          have hji : j ≠ i := by
            intro hji; subst hji; rw [hci] at hj; cases hj; simp [hpc] at hpc'
          exact ⟨j, c, keep j c hj hji, hpc', by omega, by rw [him']; exact h2⟩
      | lockRej hpc hf hle =>
        rcases inv.pair with ⟨h1, h2⟩ | ⟨j, c, hj, hpc', h1, h2⟩
        · left; exact ⟨by omega, by rw [him']; exact h2⟩
        · right
          have hji : j ≠ i := by
            intro hji; subst hji; rw [hci] at hj; cases hj; simp [hpc] at hpc'
          exact ⟨j, c, keep j c hj hji, hpc', by omega, by rw [him']; exact h2⟩
    · intro j c hj hpc
      rw [hp j] at hj
      by_cases hji : j = i
      · simp only [hji, if_true, Option.some.injEq] at hj
        subst hj
        cases ha with
        | loadRej hpc' hf hle => simp at hpc
        | loadPass hpc' hle => simp at hpc
        | store hpc' => simp at hpc
        | read hpc' => exact reuseOf_sound ci.msg s.instMap
        | lockRej hpc' hf hle => simp at hpc
        | install hpc' hle => exact inv.sound i ci hci (Or.inl hpc')
      · simp only [hji, if_false] at hj
        exact inv.sound j c hj hpc

theorem pairInv_run {announce : Bytes} {s0 s : Sys} {ls : List Label}
    (h0 : ∀ (j : Nat) (c : Caller), s0.callers[j]? = some c → ∃ r, c.pc = .done r ∧ r ≠ .ok)
    (h : Run announce s0 ls s) : PairInv s0.instEpoch s0.instMap s := by
  induction h with
  | nil =>
    refine ⟨Or.inl ⟨rfl, rfl⟩, ?_⟩
    intro j c hj hpc
    obtain ⟨r, hr, hne⟩ := h0 j c hj
    rcases hpc with hpc | hpc
    · rw [hr] at hpc; cases hpc
    · rw [hr] at hpc; cases hpc; exact absurd rfl hne
  | snoc _ hs ih => exact pairInv_step hs ih

end Um.ReplEpoch
