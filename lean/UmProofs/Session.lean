import UmModel.Session
/-! Lemmas for C08 about `Um.Session`: the oneshot is send-once, the two FIFOs keep request order. -/
namespace Um.Session

/-! ## the oneshot -/

/-- a sequence of `send` calls on one `CmdReplySender` -/
def Pair.sends (p : Pair) : List TaskRes → Pair
  | [] => p
  | r :: rs => Pair.sends (p.send r).1 rs

/-- once armed is false nothing changes any more -/
theorem Pair.send_disarmed (p : Pair) (h : p.armed = false) (r : TaskRes) : (p.send r).1 = p := by
  simp [Pair.send, h]

theorem Pair.sends_disarmed (p : Pair) (h : p.armed = false) (rs : List TaskRes) : p.sends rs = p := by
  induction rs with
  | nil => rfl
  | cons r rs ih => simp [Pair.sends, Pair.send_disarmed p h, ih]

/-- value set ⇒ disarmed (holds for every pair reachable from a fresh one) -/
def PairOk (p : Pair) : Prop := p.value ≠ none → p.armed = false

theorem PairOk_fresh : PairOk {} := by simp [PairOk]

theorem PairOk_send (p : Pair) (r : TaskRes) (_h : PairOk p) : PairOk (p.send r).1 := by
  unfold Pair.send
  split
  · simp [PairOk]
  · assumption

theorem send_keeps_value (p : Pair) (r : TaskRes) (h : PairOk p) (v : TaskRes)
    (hv : p.value = some v) : (p.send r).1.value = some v := by
  have : p.armed = false := h (by simp [hv])
  rw [Pair.send_disarmed p this]; exact hv

/-! ## the FIFOs -/

/-- the reply request `i` is owed by its oneshot (arbitrary while nothing was sent) -/
def owed (pairs : ReqId → Pair) (i : ReqId) : Reply :=
  match (pairs i).value with
  | some v => replyOf v
  | none => .data 0

/-- number of requests whose reply has left `reply_receiver_list` -/
def popped (s : St) : Nat := s.written.length + s.replies.length

structure Inv (s : St) : Prop where
  le : popped s ≤ s.nextReq
  waiting : s.waiting = List.range' (popped s) (s.nextReq - popped s)
  out : s.written ++ s.replies = (List.range' 0 (popped s)).map (owed s.pairs)
  ready : ∀ i, i < popped s → (s.pairs i).value ≠ none
  pairs : ∀ i, PairOk (s.pairs i)

theorem Inv_init : Inv init := by
  constructor <;> simp [init, popped, PairOk]

theorem pump_range (pairs : ReqId → Pair) : ∀ (m a : Nat) (acc : List Reply),
    ∃ j, j ≤ m ∧
      pumpList pairs (List.range' a m) acc =
        (List.range' (a + j) (m - j), acc ++ (List.range' a j).map (owed pairs)) ∧
      ∀ i, a ≤ i → i < a + j → (pairs i).value ≠ none := by
  intro m
  induction m with
  | zero => intro a acc; exact ⟨0, by omega, by simp [pumpList], fun i h1 h2 => by omega⟩
  | succ m ih =>
    intro a acc
    rw [List.range'_succ]
    cases hv : (pairs a).value with
    | none => exact ⟨0, by omega, by simp [pumpList, hv, List.range'_succ], fun i h1 h2 => by omega⟩
    | some v =>
      obtain ⟨j, hj, he, hr⟩ := ih (a + 1) (acc ++ [replyOf v])
      refine ⟨j + 1, by omega, ?_, ?_⟩
      · simp only [pumpList, hv, he]
        have h1 : a + 1 + j = a + (j + 1) := by omega
        have h2 : m - j = m + 1 - (j + 1) := by omega
        rw [h1, h2, List.range'_succ (s := a) (n := j)]
        simp [owed, hv]
      · intro i h1 h2
        by_cases hia : i = a
        · subst hia; simp [hv]
        · exact hr i (by omega) (by omega)

theorem owed_setPair_of_ready (f : ReqId → Pair) (id : ReqId) (p : Pair) (i : ReqId)
    (h : i = id → p.value = (f id).value) : owed (setPair f id p) i = owed f i := by
  unfold owed setPair
  by_cases hi : i = id
  · subst hi; simp [h rfl]
  · simp [hi]

theorem map_owed_congr (f g : ReqId → Pair) (l : List ReqId)
    (h : ∀ i ∈ l, owed f i = owed g i) : l.map (owed f) = l.map (owed g) :=
  List.map_congr_left h

/-- updating a oneshot by `send`/`drop` keeps the invariant -/
theorem Inv_update (s : St) (id : ReqId) (p : Pair) (h : Inv s) (hp : PairOk p)
    (hkeep : ∀ v, (s.pairs id).value = some v → p.value = some v) :
    Inv { s with pairs := setPair s.pairs id p } := by
  have hsame : ∀ i, i < popped s → owed (setPair s.pairs id p) i = owed s.pairs i := by
    intro i hi
    apply owed_setPair_of_ready
    intro he; subst he
    have := h.ready i hi
    cases hv : (s.pairs i).value with
    | none => exact absurd hv this
    | some v => exact hkeep v hv
  constructor
  · exact h.le
  · exact h.waiting
  · show s.written ++ s.replies = _
    rw [h.out]
    apply map_owed_congr
    intro i hi
    have : i < popped s := by
      have := List.mem_range'_1.mp hi
      show i < s.written.length + s.replies.length
      simp [popped] at this; omega
    exact (hsame i this).symm
  · intro i hi
    show (setPair s.pairs id p i).value ≠ none
    unfold setPair
    by_cases he : i = id
    · subst he
      simp only [if_true]
      cases hv : (s.pairs i).value with
      | none => exact absurd hv (h.ready i hi)
      | some v => rw [hkeep v hv]; simp
    · simp only [he, if_false]; exact h.ready i hi
  · intro i
    show PairOk (setPair s.pairs id p i)
    unfold setPair
    by_cases he : i = id
    · simp only [he, if_true]; exact hp
    · simp only [he, if_false]; exact h.pairs i

theorem step_inv (s : St) (e : Ev) (h : Inv s) : Inv (step s e) := by
  cases e with
  | request =>
    simp only [step]
    split
    · exact h
    · have hle := h.le
      constructor
      · show popped s ≤ s.nextReq + 1
        omega
      · show s.waiting ++ [s.nextReq] = List.range' (popped s) (s.nextReq + 1 - popped s)
        rw [h.waiting]
        have : s.nextReq + 1 - popped s = (s.nextReq - popped s) + 1 := by omega
        rw [this, List.range'_concat]
        congr 2
        omega
      · exact h.out
      · exact h.ready
      · exact h.pairs
  | send id r =>
    simp only [step]
    exact Inv_update s id _ h (PairOk_send _ r (h.pairs id))
      (fun v hv => send_keeps_value _ r (h.pairs id) v hv)
  | dropSender id =>
    simp only [step]
    exact Inv_update s id _ h (PairOk_send _ _ (h.pairs id))
      (fun v hv => send_keeps_value _ _ (h.pairs id) v hv)
  | pump =>
    simp only [step]
    split
    · exact h
    · obtain ⟨j, hj, he, hr⟩ := pump_range s.pairs (s.nextReq - popped s) (popped s) s.replies
      rw [h.waiting, he]
      have hle := h.le
      have hpop : s.written.length + (s.replies ++ (List.range' (popped s) j).map (owed s.pairs)).length
          = popped s + j := by
        simp [popped]; omega
      constructor
      · show s.written.length + (s.replies ++ _).length ≤ s.nextReq
        rw [hpop]; omega
      · show List.range' (popped s + j) (s.nextReq - popped s - j) =
          List.range' (s.written.length + (s.replies ++ _).length) (s.nextReq - (s.written.length + (s.replies ++ _).length))
        rw [hpop]
        congr 1
        omega
      · show s.written ++ (s.replies ++ _) =
          (List.range' 0 (s.written.length + (s.replies ++ _).length)).map (owed s.pairs)
        rw [hpop, ← List.append_assoc, h.out, ← List.map_append]
        congr 1
        have := List.range'_append (s := 0) (m := popped s) (n := j) (step := 1)
        simpa using this
      · intro i hi
        have hi' : i < popped s + j := by rw [← hpop]; exact hi
        by_cases hlt : i < popped s
        · exact h.ready i hlt
        · exact hr i (by omega) hi'
      · exact h.pairs
  | writeOne =>
    simp only [step]
    split
    · exact h
    · split
      · exact h
      · rename_i r rest hr
        have hpop : popped { s with replies := rest, written := s.written ++ [r] } = popped s := by
          simp [popped, hr]; omega
        constructor
        · rw [hpop]; exact h.le
        · rw [hpop]; exact h.waiting
        · rw [hpop]
          show (s.written ++ [r]) ++ rest = _
          rw [← h.out, hr]; simp
        · rw [hpop]; exact h.ready
        · exact h.pairs
  | stop =>
    simp only [step]
    exact ⟨h.le, h.waiting, h.out, h.ready, h.pairs⟩

theorem run_inv : ∀ (evs : List Ev) (s : St), Inv s → Inv (run s evs) := by
  intro evs
  induction evs with
  | nil => intro s h; exact h
  | cons e es ih => intro s h; exact ih _ (step_inv s e h)

/-! ## completion: everything owed gets written while the session lives -/

/-- `n` times `writeOne` -/
def writeN : Nat → St → St
  | 0, s => s
  | n + 1, s => writeN n (step s .writeOne)

theorem pump_all (pairs : ReqId → Pair) : ∀ (m a : Nat) (acc : List Reply),
    (∀ i, a ≤ i → i < a + m → (pairs i).value ≠ none) →
    pumpList pairs (List.range' a m) acc = ([], acc ++ (List.range' a m).map (owed pairs)) := by
  intro m
  induction m with
  | zero => intro a acc _; simp [pumpList]
  | succ m ih =>
    intro a acc h
    rw [List.range'_succ]
    cases hv : (pairs a).value with
    | none => exact absurd hv (h a (by omega) (by omega))
    | some v =>
      simp only [pumpList, hv]
      rw [ih (a + 1) _ (fun i h1 h2 => h i (by omega) (by omega))]
      simp [owed, hv]

theorem writeN_spec : ∀ (n : Nat) (s : St), s.ended = false →
    (writeN n s).written = s.written ++ s.replies.take n ∧
    (writeN n s).replies = s.replies.drop n ∧
    (writeN n s).waiting = s.waiting ∧ (writeN n s).nextReq = s.nextReq ∧
    (writeN n s).ended = false := by
  intro n
  induction n with
  | zero => intro s h; simp [writeN, h]
  | succ n ih =>
    intro s h
    cases hr : s.replies with
    | nil =>
      have hs : step s .writeOne = s := by simp [step, h, hr]
      simp only [writeN, hs]
      have := ih s h
      simp [hr] at this ⊢
      exact this
    | cons r rest =>
      have hs : step s .writeOne = { s with replies := rest, written := s.written ++ [r] } := by
        simp [step, h, hr]
      simp only [writeN, hs]
      have := ih { s with replies := rest, written := s.written ++ [r] } h
      simpa using this

theorem complete_spec (s : St) (h : Inv s) (hne : s.ended = false)
    (hall : ∀ i, i < s.nextReq → (s.pairs i).value ≠ none) :
    let s' := writeN s.nextReq (step s .pump)
    s'.written = (List.range' 0 s.nextReq).map (owed s.pairs) ∧ s'.replies = [] ∧ s'.waiting = [] := by
  have hle := h.le
  have hp : step s .pump =
      { s with
        waiting := []
        replies := s.replies ++ (List.range' (popped s) (s.nextReq - popped s)).map (owed s.pairs) } := by
    simp only [step, hne]
    rw [h.waiting, pump_all s.pairs _ _ _ (fun i h1 h2 => hall i (by omega))]
    rfl
  intro s'
  have hw := writeN_spec s.nextReq (step s .pump) (by rw [hp]; exact hne)
  rw [hp] at hw
  obtain ⟨h1, h2, h3, _, _⟩ := hw
  have hlen : (s.replies ++ (List.range' (popped s) (s.nextReq - popped s)).map (owed s.pairs)).length
      ≤ s.nextReq := by
    simp [popped] at hle ⊢; omega
  refine ⟨?_, ?_, ?_⟩
  · show (writeN s.nextReq (step s .pump)).written = _
    rw [hp, h1]
    simp only []
    rw [List.take_of_length_le hlen, ← List.append_assoc, h.out, ← List.map_append]
    congr 1
    have := List.range'_append (s := 0) (m := popped s) (n := s.nextReq - popped s) (step := 1)
    have e : popped s + (s.nextReq - popped s) = s.nextReq := by omega
    rw [e] at this
    simpa using this
  · show (writeN s.nextReq (step s .pump)).replies = _
    rw [hp, h2]
    exact List.drop_eq_nil_of_le hlen
  · show (writeN s.nextReq (step s .pump)).waiting = _
    rw [hp, h3]

end Um.Session
