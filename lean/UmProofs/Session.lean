import UmModel.Session
/-! Lemmas for C08 about `Um.Session`: the oneshot is send-once, the two FIFOs keep request order. -/
namespace Um.Session

/-! ## the oneshot -/

/-- a sequence of `send` calls on one `CmdReplySender` -/
def Pair.sends (p : Pair) : List TaskRes → Pair
  | [] => p
  | r :: rs => Pair.sends (p.send r).1 rs

/-- once armed is false nothing changes any more -/
theorem Pair.send_disarmed (p : Pair) (h : p.armed = false) (r : TaskRes) : (p.send r).1 = p := by
  simp [Pair.send, h]

theorem Pair.sends_disarmed (p : Pair) (h : p.armed = false) (rs : List TaskRes) : p.sends rs = p := by
  induction rs with
  | nil => rfl
  | cons r rs ih => simp [Pair.sends, Pair.send_disarmed p h, ih]

/-- value set ⇒ disarmed (holds for every pair reachable from a fresh one) -/
def PairOk (p : Pair) : Prop := p.value ≠ none → p.armed = false

theorem PairOk_fresh : PairOk {} := by simp [PairOk]

theorem PairOk_send (p : Pair) (r : TaskRes) (_h : PairOk p) : PairOk (p.send r).1 := by
  unfold Pair.send
  split
  · simp [PairOk]
  · assumption

theorem send_keeps_value (p : Pair) (r : TaskRes) (h : PairOk p) (v : TaskRes)
    (hv : p.value = some v) : (p.send r).1.value = some v := by
  have : p.armed = false := h (by simp [hv])
  rw [Pair.send_disarmed p this]; exact hv

/-! ## the FIFOs -/

/-- the reply request `i` is owed by its oneshot (arbitrary while nothing was sent) -/
def owed (pairs : ReqId → Pair) (i : ReqId) : Reply :=
  match (pairs i).value with
  | some v => replyOf v
  | none => .data 0

/-- number of requests whose reply has left `reply_receiver_list` -/
def popped (s : St) : Nat := s.written.length + s.replies.length

structure Inv (s : St) : Prop where
  le : popped s ≤ s.nextReq
  waiting : s.waiting = List.range' (popped s) (s.nextReq - popped s)
  out : s.written ++ s.replies = (List.range' 0 (popped s)).map (owed s.pairs)
  ready : ∀ i, i < popped s → (s.pairs i).value ≠ none
  pairs : ∀ i, PairOk (s.pairs i)

theorem Inv_init : Inv init := by
  constructor <;> simp [init, popped, PairOk]

theorem pump_range (pairs : ReqId → Pair) : ∀ (m a : Nat) (acc : List Reply),
    ∃ j, j ≤ m ∧
      pumpList pairs (List.range' a m) acc =
        (List.range' (a + j) (m - j), acc ++ (List.range' a j).map (owed pairs)) ∧
      ∀ i, a ≤ i → i < a + j → (pairs i).value ≠ none := by
  intro m
  induction m with
  | zero => intro a acc; exact ⟨0, by omega, by simp [pumpList], fun i h1 h2 => by omega⟩
  | succ m ih =>
    intro a acc
    rw [List.range'_succ]
    cases hv : (pairs a).value with
    | none => exact ⟨0, by omega, by simp [pumpList, hv, List.range'_succ], fun i h1 h2 => by omega⟩
    | some v =>
      obtain ⟨j, hj, he, hr⟩ := ih (a + 1) (acc ++ [replyOf v])
      refine ⟨j + 1, by omega, ?_, ?_⟩
      · simp only [pumpList, hv, he]
        have h1 : a + 1 + j = a + (j + 1) := by omega
        have h2 : m - j = m + 1 - (j + 1) := by omega
        rw [h1, h2, List.range'_succ (s := a) (n := j)]
        simp [owed, hv]
      · intro i h1 h2
        by_cases hia : i = a
        · subst hia; simp [hv]
        · exact hr i (by omega) (by omega)

theorem owed_setPair_of_ready (f : ReqId → Pair) (id : ReqId) (p : Pair) (i : ReqId)
    (h : i = id → p.value = (f id).value) : owed (setPair f id p) i = owed f i := by
  unfold owed setPair
  by_cases hi : i = id
  · subst hi; simp [h rfl]
  · simp [hi]

theorem map_owed_congr (f g : ReqId → Pair) (l : List ReqId)
    (h : ∀ i ∈ l, owed f i = owed g i) : l.map (owed f) = l.map (owed g) :=
  List.map_congr_left h

/-- updating a oneshot by `send`/`drop` keeps the invariant -/
theorem Inv_update (s : St) (id : ReqId) (p : Pair) (h : Inv s) (hp : PairOk p)
    (hkeep : ∀ v, (s.pairs id).value = some v → p.value = some v) :
    Inv { s with pairs := setPair s.pairs id p } := by
  have hsame : ∀ i, i < popped s → owed (setPair s.pairs id p) i = owed s.pairs i := by
    intro i hi
    apply owed_setPair_of_ready
    intro he; subst he
    have := h.ready i hi
    cases hv : (s.pairs i).value with
    | none => exact absurd hv this
    | some v => exact hkeep v hv
  constructor
  · exact h.le
  · exact h.waiting
  · show s.written ++ s.replies = _
    rw [h.out]
    apply map_owed_congr
    intro i hi
    have : i < popped s := by
      have := List.mem_range'_1.mp hi
      show i < s.written.length + s.replies.length
      simp [popped] at this; omega
    exact (hsame i this).symm
  · intro i hi
    show (setPair s.pairs id p i).value ≠ none
    unfold setPair
    by_cases he : i = id
    · subst he
      simp only [if_true]
      cases hv : (s.pairs i).value with
      | none => exact absurd hv (h.ready i hi)
      | some v => rw [hkeep v hv]; simp
    · simp only [he, if_false]; exact h.ready i hi
  · intro i
    show PairOk (setPair s.pairs id p i)
    unfold setPair
    by_cases he : i = id
    · simp only [he, if_true]; exact hp
    · simp only [he, if_false]; exact h.pairs i

theorem step_inv (s : St) (e : Ev) (h : Inv s) : Inv (step s e) := by
  cases e with
  | request =>
    simp only [step]
    split
    · exact h
    · have hle := h.le
      constructor
      · show popped s ≤ s.nextReq + 1
        omega
      · show s.waiting ++ [s.nextReq] = List.range' (popped s) (s.nextReq + 1 - popped s)
        rw [h.waiting]
        have : s.nextReq + 1 - popped s = (s.nextReq - popped s) + 1 := by omega
        rw [this, List.range'_concat]
        congr 2
        omega
      · exact h.out
      · exact h.ready
      · exact h.pairs
  | send id r =>
    simp only [step]
    exact Inv_update s id _ h (PairOk_send _ r (h.pairs id))
      (fun v hv => send_keeps_value _ r (h.pairs id) v hv)
  | dropSender id =>
    simp only [step]
    exact Inv_update s id _ h (PairOk_send _ _ (h.pairs id))
      (fun v hv => send_keeps_value _ _ (h.pairs id) v hv)
  | pump =>
    simp only [step]
    split
    · exact h
    · obtain ⟨j, hj, he, hr⟩ := pump_range s.pairs (s.nextReq - popped s) (popped s) s.replies
      rw [h.waiting, he]
      have hle := h.le
      have hpop : s.written.length + (s.replies ++ (List.range' (popped s) j).map (owed s.pairs)).length
          = popped s + j := by
        simp [popped]; omega
      constructor
      · show s.written.length + (s.replies ++ _).length ≤ s.nextReq
        rw [hpop]; omega
      · show List.range' (popped s + j) (s.nextReq - popped s - j) =
          List.range' (s.written.length + (s.replies ++ _).length) (s.nextReq - (s.written.length + (s.replies ++ _).length))
        rw [hpop]
        congr 1
        omega
      · show s.written ++ (s.replies ++ _) =
          (List.range' 0 (s.written.length + (s.replies ++ _).length)).map (owed s.pairs)
        rw [hpop, ← List.append_assoc, h.out, ← List.map_append]
        congr 1
        have := List.range'_append (s := 0) (m := popped s) (n := j) (step := 1)
        simpa using this
      · intro i hi
        have hi' : i < popped s + j := by rw [← hpop]; exact hi
        by_cases hlt : i < popped s
        · exact h.ready i hlt
        · exact hr i (by omega) hi'
      · exact h.pairs
  | writeOne =>
    simp only [step]
    split
    · exact h
    · split
      · exact h
      · rename_i r rest hr
        have hpop : popped { s with replies := rest, written := s.written ++ [r] } = popped s := by
          simp [popped, hr]; omega
        constructor
        · rw [hpop]; exact h.le
        · rw [hpop]; exact h.waiting
        · rw [hpop]
          show (s.written ++ [r]) ++ rest = _
          rw [← h.out, hr]; simp
        · rw [hpop]; exact h.ready
        · exact h.pairs
  | stop =>
    simp only [step]
    exact ⟨h.le, h.waiting, h.out, h.ready, h.pairs⟩

theorem run_inv : ∀ (evs : List Ev) (s : St), Inv s → Inv (run s evs) := by
  intro evs
  induction evs with
  | nil => intro s h; exact h
  | cons e es ih => intro s h; exact ih _ (step_inv s e h)

/-! ## completion: everything owed gets written while the session lives -/

/-- `n` times `writeOne` -/
def writeN : Nat → St → St
  | 0, s => s
  | n + 1, s => writeN n (step s .writeOne)

theorem pump_all (pairs : ReqId → Pair) : ∀ (m a : Nat) (acc : List Reply),
    (∀ i, a ≤ i → i < a + m → (pairs i).value ≠ none) →
    pumpList pairs (List.range' a m) acc = ([], acc ++ (List.range' a m).map (owed pairs)) := by
  intro m
  induction m with
  | zero => intro a acc _; simp [pumpList]
  | succ m ih =>
    intro a acc h
    rw [List.range'_succ]
    cases hv : (pairs a).value with
    | none => exact absurd hv (h a (by omega) (by omega))
    | some v =>
      simp only [pumpList, hv]
      rw [ih (a + 1) _ (fun i h1 h2 => h i (by omega) (by omega))]
      simp [owed, hv]

theorem writeN_spec : ∀ (n : Nat) (s : St), s.ended = false →
    (writeN n s).written = s.written ++ s.replies.take n ∧
    (writeN n s).replies = s.replies.drop n ∧
    (writeN n s).waiting = s.waiting ∧ (writeN n s).nextReq = s.nextReq ∧
    (writeN n s).ended = false := by
  intro n
  induction n with
  | zero => intro s h; simp [writeN, h]
  | succ n ih =>
    intro s h
    cases hr : s.replies with
    | nil =>
      have hs : step s .writeOne = s := by simp [step, h, hr]
      simp only [writeN, hs]
      have := ih s h
      simp [hr] at this ⊢
      exact this
    | cons r rest =>
      have hs : step s .writeOne = { s with replies := rest, written := s.written ++ [r] } := by
        simp [step, h, hr]
      simp only [writeN, hs]
      have := ih { s with replies := rest, written := s.written ++ [r] } h
      simpa using this

theorem complete_spec (s : St) (h : Inv s) (hne : s.ended = false)
    (hall : ∀ i, i < s.nextReq → (s.pairs i).value ≠ none) :
    let s' := writeN s.nextReq (step s .pump)
    s'.written = (List.range' 0 s.nextReq).map (owed s.pairs) ∧ s'.replies = [] ∧ s'.waiting = [] := by
  have hle := h.le
  have hp : step s .pump =
      { s with
        waiting := []
        replies := s.replies ++ (List.range' (popped s) (s.nextReq - popped s)).map (owed s.pairs) } := by
    simp only [step, hne]
    rw [h.waiting, pump_all s.pairs _ _ _ (fun i h1 h2 => hall i (by omega))]
    rfl
  intro s'
  have hw := writeN_spec s.nextReq (step s .pump) (by rw [hp]; exact hne)
  rw [hp] at hw
  obtain ⟨h1, h2, h3, _, _⟩ := hw
  have hlen : (s.replies ++ (List.range' (popped s) (s.nextReq - popped s)).map (owed s.pairs)).length
      ≤ s.nextReq := by
    simp [popped] at hle ⊢; omega
  refine ⟨?_, ?_, ?_⟩
  · show (writeN s.nextReq (step s .pump)).written = _
    rw [hp, h1]
    simp only []
    rw [List.take_of_length_le hlen, ← List.append_assoc, h.out, ← List.map_append]
    congr 1
    have := List.range'_append (s := 0) (m := popped s) (n := s.nextReq - popped s) (step := 1)
    have e : popped s + (s.nextReq - popped s) = s.nextReq := by omega
    rw [e] at this
    simpa using this
  · show (writeN s.nextReq (step s .pump)).replies = _
    rw [hp, h2]
    exact List.drop_eq_nil_of_le hlen
  · show (writeN s.nextReq (step s .pump)).waiting = _
    rw [hp, h3]

/-! ## the socket writer: one whole poll -/

/-- the FIFO-relevant fields agree -/
def SameCore (s s' : St) : Prop :=
  s'.nextReq = s.nextReq ∧ s'.waiting = s.waiting ∧ s'.replies = s.replies ∧
  s'.written = s.written ∧ s'.pairs = s.pairs

theorem Inv_of_sameCore {s s' : St} (hc : SameCore s s') (h : Inv s) : Inv s' := by
  obtain ⟨h1, h2, h3, h4, h5⟩ := hc
  have hp : popped s' = popped s := by simp [popped, h3, h4]
  constructor
  · rw [hp, h1]; exact h.le
  · rw [hp, h1, h2]; exact h.waiting
  · rw [hp, h3, h4, h5]; exact h.out
  · rw [hp, h5]; exact h.ready
  · rw [h5]; exact h.pairs

theorem flushWith_core (s : St) (cap : Nat) : SameCore s (flushWith s cap).1 := by
  simp [flushWith, SameCore]

theorem flushWith_le (s : St) (cap : Nat) (h : s.flushed ≤ s.written.length) :
    (flushWith s cap).1.flushed ≤ (flushWith s cap).1.written.length := by
  simp only [flushWith]; omega

/-- a flush that leaves something in the buffer has registered the waker -/
theorem flushWith_armed (s : St) (cap : Nat)
    (hlt : (flushWith s cap).1.flushed < (flushWith s cap).1.written.length) :
    (flushWith s cap).1.armed = true := by
  simp only [flushWith] at hlt ⊢
  have : min (s.written.length - s.flushed) cap < s.written.length - s.flushed := by omega
  simp [this]

theorem flushWith_keeps_armed (s : St) (cap : Nat) (h : s.armed = true) :
    (flushWith s cap).1.armed = true := by
  simp [flushWith, h]

theorem flushWith_replies (s : St) (cap : Nat) : (flushWith s cap).1.replies = s.replies := by
  simp [flushWith]

theorem flushWith_written (s : St) (cap : Nat) : (flushWith s cap).1.written = s.written := by
  simp [flushWith]

theorem flushWith_hwm (s : St) (cap : Nat) : (flushWith s cap).1.hwm = s.hwm := by
  simp [flushWith]

theorem writeLoop_inv : ∀ (n : Nat) (s : St) (cap : Nat), Inv s → s.ended = false →
    Inv (writeLoop n s cap).1 ∧ (writeLoop n s cap).1.ended = false := by
  intro n
  induction n with
  | zero => intro s cap h he; exact ⟨h, he⟩
  | succ n ih =>
    intro s cap h he
    simp only [writeLoop]
    by_cases hov : s.written.length - s.flushed ≥ s.hwm
    · simp only [hov, if_true, true_and]
      have hI := Inv_of_sameCore (flushWith_core s cap) h
      have hE : (flushWith s cap).1.ended = false := by simpa [flushWith] using he
      split
      · exact ⟨hI, hE⟩
      · split
        · exact ⟨Inv_of_sameCore (flushWith_core _ _) hI, by simpa [flushWith] using hE⟩
        · rename_i r rest hr
          apply ih
          · have := step_inv (flushWith s cap).1 .writeOne hI
            simpa [step, hE, hr] using this
          · exact hE
    · simp only [hov, if_false, false_and]
      split
      · exact ⟨Inv_of_sameCore (flushWith_core _ _) h, by simpa [flushWith] using he⟩
      · rename_i r rest hr
        apply ih
        · have := step_inv s .writeOne h
          simpa [step, he, hr] using this
        · exact he

theorem requests_inv : ∀ (n : Nat) (s : St), Inv s → Inv (requests n s) := by
  intro n
  induction n with
  | zero => intro s h; exact h
  | succ n ih => intro s h; exact ih _ (step_inv s .request h)

theorem requests_fields : ∀ (n : Nat) (s : St),
    (requests n s).ended = s.ended ∧ (requests n s).flushed = s.flushed ∧
    (requests n s).written = s.written ∧ (requests n s).replies = s.replies ∧
    (requests n s).armed = s.armed ∧ (requests n s).hwm = s.hwm := by
  intro n
  induction n with
  | zero => intro s; simp [requests]
  | succ n ih =>
    intro s
    have := ih (step s .request)
    simp only [requests]
    by_cases he : s.ended = true <;> simp_all [step]

theorem pump_fields (s : St) :
    (step s .pump).ended = s.ended ∧ (step s .pump).flushed = s.flushed ∧
    (step s .pump).written = s.written ∧ (step s .pump).armed = s.armed ∧
    (step s .pump).hwm = s.hwm := by
  by_cases he : s.ended = true <;> simp [step, he]

theorem pollStep_inv (s : St) (nreq cap : Nat) (h : Inv s) : Inv (pollStep s nreq cap) := by
  unfold pollStep
  split
  · exact h
  · rename_i he
    have he' : s.ended = false := by simpa using he
    have h0 : Inv { s with armed := false } := Inv_of_sameCore (by simp [SameCore]) h
    have h1 := requests_inv nreq _ h0
    have h2 := step_inv _ .pump h1
    have e1 := (requests_fields nreq { s with armed := false }).1
    have e2 := (pump_fields (requests nreq { s with armed := false })).1
    exact (writeLoop_inv _ _ cap h2 (by rw [e2, e1]; exact he')).1

theorem pstep_inv (s : St) (e : PEv) (h : Inv s) : Inv (pstep s e) := by
  cases e with
  | send id r => exact step_inv s (.send id r) h
  | dropSender id => exact step_inv s (.dropSender id) h
  | poll n c => exact pollStep_inv s n c h
  | stop => exact step_inv s .stop h

theorem prun_inv : ∀ (evs : List PEv) (s : St), Inv s → Inv (prun s evs) := by
  intro evs
  induction evs with
  | nil => intro s h; exact h
  | cons e es ih => intro s h; exact ih _ (pstep_inv s e h)

/-- nothing stays unflushed or unwritten without a registered waker -/
def FlushOk (s : St) : Prop :=
  s.flushed ≤ s.written.length ∧
  ((s.flushed < s.written.length ∨ s.replies ≠ []) → s.armed = true)

theorem writeLoop_flushOk : ∀ (n : Nat) (s : St) (cap : Nat), s.replies.length < n →
    s.flushed ≤ s.written.length → FlushOk (writeLoop n s cap).1 := by
  intro n
  induction n with
  | zero => intro s cap h; omega
  | succ n ih =>
    intro s cap hn hle
    simp only [writeLoop]
    by_cases hov : s.written.length - s.flushed ≥ s.hwm
    · simp only [hov, if_true, true_and]
      have hle1 := flushWith_le s cap hle
      split
      · rename_i hlt
        exact ⟨hle1, fun _ => flushWith_armed s cap hlt⟩
      · split
        · rename_i hr
          refine ⟨flushWith_le _ _ hle1, ?_⟩
          intro hor
          rcases hor with hlt | hne
          · exact flushWith_armed _ _ hlt
          · rw [flushWith_replies, hr] at hne; exact absurd rfl hne
        · rename_i r rest hr
          apply ih
          · have : (flushWith s cap).1.replies = s.replies := flushWith_replies s cap
            rw [hr] at this
            show rest.length < n
            have hl : s.replies.length = rest.length + 1 := by rw [← this]; simp
            omega
          · show (flushWith s cap).1.flushed ≤ ((flushWith s cap).1.written ++ [r]).length
            simp only [List.length_append]; omega
    · simp only [hov, if_false, false_and]
      split
      · rename_i hr
        refine ⟨flushWith_le _ _ hle, ?_⟩
        intro hor
        rcases hor with hlt | hne
        · exact flushWith_armed _ _ hlt
        · rw [flushWith_replies, hr] at hne; exact absurd rfl hne
      · rename_i r rest hr
        apply ih
        · show rest.length < n
          have hl : s.replies.length = rest.length + 1 := by rw [hr]; simp
          omega
        · show s.flushed ≤ (s.written ++ [r]).length
          simp only [List.length_append]; omega

theorem pollStep_flushOk (s : St) (nreq cap : Nat) (h : FlushOk s) : FlushOk (pollStep s nreq cap) := by
  unfold pollStep
  split
  · exact h
  · apply writeLoop_flushOk
    · omega
    · have r := requests_fields nreq { s with armed := false }
      have p := pump_fields (requests nreq { s with armed := false })
      rw [p.2.1, p.2.2.1, r.2.1, r.2.2.1]
      exact h.1

theorem pstep_flushOk (s : St) (e : PEv) (h : FlushOk s) : FlushOk (pstep s e) := by
  cases e with
  | send id r => simpa [pstep, step, FlushOk] using h
  | dropSender id => simpa [pstep, step, FlushOk] using h
  | poll n c => exact pollStep_flushOk s n c h
  | stop => simpa [pstep, step, FlushOk] using h

theorem prun_flushOk : ∀ (evs : List PEv) (s : St), FlushOk s → FlushOk (prun s evs) := by
  intro evs
  induction evs with
  | nil => intro s h; exact h
  | cons e es ih => intro s h; exact ih _ (pstep_flushOk s e h)

theorem FlushOk_init : FlushOk init := by simp [FlushOk, init]

/-- with enough socket capacity one write stage puts everything on the socket -/
theorem writeLoop_all : ∀ (n : Nat) (s : St) (cap : Nat), s.replies.length < n →
    s.flushed ≤ s.written.length →
    (s.written.length - s.flushed) + s.replies.length ≤ cap →
    (writeLoop n s cap).1.written = s.written ++ s.replies ∧ (writeLoop n s cap).1.replies = [] ∧
    (writeLoop n s cap).1.flushed = (writeLoop n s cap).1.written.length := by
  intro n
  induction n with
  | zero => intro s cap h; omega
  | succ n ih =>
    intro s cap hn hle hcap
    have hfull : ∀ (s0 : St) (c : Nat), s0.flushed ≤ s0.written.length →
        s0.written.length - s0.flushed ≤ c →
        (flushWith s0 c).1.flushed = s0.written.length ∧
        (flushWith s0 c).2 = c - (s0.written.length - s0.flushed) := by
      intro s0 c h1 h2
      simp only [flushWith]
      have : min (s0.written.length - s0.flushed) c = s0.written.length - s0.flushed := by omega
      rw [this]; exact ⟨by omega, rfl⟩
    simp only [writeLoop]
    by_cases hov : s.written.length - s.flushed ≥ s.hwm
    · simp only [hov, if_true, true_and]
      obtain ⟨f1, f2⟩ := hfull s cap hle (by omega)
      have hw := flushWith_written s cap
      have hnot : ¬ ((flushWith s cap).1.flushed < (flushWith s cap).1.written.length) := by
        rw [f1, hw]; omega
      simp only [hnot, if_false]
      split
      · rename_i hr
        have hr' : s.replies = [] := by rw [← flushWith_replies s cap]; exact hr
        obtain ⟨g1, _⟩ := hfull (flushWith s cap).1 (flushWith s cap).2 (by rw [f1, hw]; omega) (by rw [f1, hw]; omega)
        refine ⟨by simp [flushWith_written, hr'], by simp [flushWith_replies, hr'], ?_⟩
        rw [g1]; simp [flushWith_written]
      · rename_i r rest hr
        have hr' : s.replies = r :: rest := by rw [← flushWith_replies s cap]; exact hr
        have := ih { (flushWith s cap).1 with replies := rest, written := (flushWith s cap).1.written ++ [r] }
          (flushWith s cap).2
          (by show rest.length < n; rw [hr'] at hn; simp at hn; omega)
          (by show (flushWith s cap).1.flushed ≤ ((flushWith s cap).1.written ++ [r]).length
              rw [f1, hw]; simp)
          (by show ((flushWith s cap).1.written ++ [r]).length - (flushWith s cap).1.flushed + rest.length ≤ (flushWith s cap).2
              rw [f1, f2, hw]; rw [hr'] at hcap; simp at hcap ⊢; omega)
        obtain ⟨a1, a2, a3⟩ := this
        refine ⟨?_, a2, a3⟩
        rw [a1, hw, hr']; simp
    · simp only [hov, if_false, false_and]
      split
      · rename_i hr
        obtain ⟨g1, _⟩ := hfull s cap hle (by omega)
        refine ⟨by simp [flushWith_written, hr], by simp [flushWith_replies, hr], ?_⟩
        rw [g1]; simp [flushWith_written]
      · rename_i r rest hr
        have := ih { s with replies := rest, written := s.written ++ [r] } cap
          (by show rest.length < n; rw [hr] at hn; simp at hn; omega)
          (by show s.flushed ≤ (s.written ++ [r]).length; simp; omega)
          (by show (s.written ++ [r]).length - s.flushed + rest.length ≤ cap
              rw [hr] at hcap; simp at hcap ⊢; omega)
        obtain ⟨a1, a2, a3⟩ := this
        refine ⟨?_, a2, a3⟩
        rw [a1, hr]; simp

/-- a poll during which the socket has room for everything leaves nothing behind -/
theorem pollStep_all (s : St) (cap : Nat) (h : Inv s) (hf : FlushOk s) (he : s.ended = false)
    (hcap : s.nextReq ≤ cap) :
    (pollStep s 0 cap).flushed = (pollStep s 0 cap).written.length ∧ (pollStep s 0 cap).replies = [] := by
  unfold pollStep
  split
  · rename_i h'; rw [he] at h'; exact absurd h' (by simp)
  · have h0 : Inv { s with armed := false } := Inv_of_sameCore (by simp [SameCore]) h
    have h2 := step_inv _ .pump (requests_inv 0 _ h0)
    have p := pump_fields (requests 0 { s with armed := false })
    have hle := h2.le
    have hn : (step (requests 0 { s with armed := false }) .pump).nextReq = s.nextReq := by
      simp [requests, step, he]
    have hfl : (step (requests 0 { s with armed := false }) .pump).flushed ≤
        (step (requests 0 { s with armed := false }) .pump).written.length := by
      rw [p.2.1, p.2.2.1]; exact hf.1
    have := writeLoop_all _ (step (requests 0 { s with armed := false }) .pump) cap (Nat.lt_succ_self _) hfl
      (by simp only [popped] at hle; omega)
    exact ⟨this.2.2, this.2.1⟩

end Um.Session
