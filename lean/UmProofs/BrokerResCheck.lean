import UmProofs.BrokerResRefusal
/-!
# C12 — `ResInv` implies the broker's own `check_metadata`; reading `ResInv` as "each proxy in at
most one cluster and one chunk half; membership and occupancy are complements"; the chunks appended by
`auto_change_node_number`.
-/
namespace Um.Broker
open Um Um.Slots

theorem checkMetadata_of_rpt {s : Store} (h : RPt s) : checkMetadata s = true := by
  obtain ⟨h1, h2, h3, h4, h5⟩ := h
  unfold checkMetadata
  simp only [Bool.and_eq_true, List.all_eq_true, decide_eq_true_eq]
  refine ⟨?_, ?_⟩
  · intro cl hcl
    refine ⟨h3 cl hcl, ?_⟩
    intro ch hch
    obtain ⟨⟨p, hp, e1, e2, e3, e4, e5⟩, ⟨q, hq, e6, e7, e8, e9, e10⟩⟩ := h4 cl hcl ch hch
    have f1 : s.findProxy ch.proxy0 = some p := e1 ▸ Store.findProxy_of_mem h1 hp
    have f2 : s.findProxy ch.proxy1 = some q := e6 ▸ Store.findProxy_of_mem h1 hq
    rw [f1, f2]
    simp [e2, e3, e4, e5, e7, e8, e9, e10]
  · intro p hp
    cases hc : p.cluster with
    | none => rfl
    | some n =>
      obtain ⟨c, hcm, hcn, hin⟩ := h5 p hp n hc
      have : s.findCluster n = some c := hcn ▸ Store.findCluster_of_mem h2 hcm
      simp only [this]
      obtain ⟨ch, hch, hor⟩ := Cluster.mem_proxyAddrs.mp hin
      rw [List.any_eq_true]
      refine ⟨ch, hch, ?_⟩
      rcases hor with e | e <;> simp [e]

/-- occupancy: the address sits in a chunk half of the cluster named `n` -/
def Occupies (s : Store) (a n : String) : Prop := ∃ c ∈ s.clusters, c.name = n ∧ a ∈ c.proxyAddrs

/-- membership tag and chunk occupancy are exact complements, and a proxy occupies at most one
chunk half of at most one cluster -/
theorem rpt_accounting {s : Store} (h : RPt s) :
    (∀ p ∈ s.proxies, ∀ n, p.cluster = some n ↔ Occupies s p.addr n) ∧
    (∀ p ∈ s.proxies, p.cluster = none ↔ p.addr ∉ s.clusters.flatMap Cluster.proxyAddrs) ∧
    (∀ a n1 n2, Occupies s a n1 → Occupies s a n2 → n1 = n2) ∧
    (∀ a, (s.clusters.flatMap Cluster.proxyAddrs).count a ≤ 1) ∧
    (∀ c ∈ s.clusters, ∀ a ∈ c.proxyAddrs, ∃ p ∈ s.proxies, p.addr = a) := by
  have hres := (resInv_iff_rpt s).mpr h
  have occ : ∀ p ∈ s.proxies, ∀ n, p.cluster = some n ↔ Occupies s p.addr n := by
    intro p hp n
    constructor
    · exact h.2.2.2.2 p hp n
    · rintro ⟨c, hc, hcn, hin⟩
      obtain ⟨q, hq, hqa, hqc⟩ := h.tag_of_mem hc hin
      have : q = p := res_nodup_map_inj h.1 hq hp hqa
      subst this; rw [hqc, hcn]
  refine ⟨occ, ?_, ?_, ?_, ?_⟩
  · intro p hp
    constructor
    · intro hn hin
      obtain ⟨c, hc, hin'⟩ := List.mem_flatMap.mp hin
      have := (occ p hp c.name).mpr ⟨c, hc, rfl, hin'⟩
      rw [hn] at this; cases this
    · intro hn
      cases hc : p.cluster with
      | none => rfl
      | some n =>
        obtain ⟨c, hcm, _, hin⟩ := (occ p hp n).mp hc
        exact absurd (List.mem_flatMap.mpr ⟨c, hcm, hin⟩) hn
  · rintro a n1 n2 ⟨c1, hc1, e1, hi1⟩ ⟨c2, hc2, e2, hi2⟩
    rw [← e1, ← e2, h.disjoint hc1 hc2 hi1 hi2]
  · intro a
    exact List.nodup_iff_count.mp hres.2.2.1 a
  · intro c hc a ha
    obtain ⟨p, hp, hpa, _⟩ := h.tag_of_mem hc ha
    exact ⟨p, hp, hpa⟩

/-- a successful `auto_change_node_number` that scales out (`ok 1`) appends freshly allocated
chunks to the cluster left after deleting its free chunks -/
theorem autoChangeNodeNumber_scaleUp {s s' : Store} {n : String} {k : Nat} {choice : List (String × String)}
    (h : autoChangeNodeNumber s n k choice = (s', R.ok 1)) :
    ∃ cl new, (autoDeleteFreeNodes s n).1.findCluster n = some cl ∧ NewChunks (autoDeleteFreeNodes s n).1 new ∧
      new ≠ [] ∧ s' = addNodesResult (autoDeleteFreeNodes s n).1 cl new := by
  unfold autoChangeNodeNumber at h
  split at h
  · cases h
  split at h
  · cases h
  split at h
  · cases h
  generalize autoDeleteFreeNodes s n = r at h ⊢
  obtain ⟨s1, r1⟩ := r
  simp only at h ⊢
  have key : ∀ cl1, s1.findCluster n = some cl1 →
      (match autoScaleUpNodes s1 n k choice with
        | (s2, R.ok ()) => (s2, R.ok 1)
        | (s2, R.err e) => (s2, R.err e)
        | (s2, R.panic w) => (s2, R.panic w)
        | (s2, R.badChoice w) => (s2, R.badChoice w)) = (s', (R.ok 1 : R Nat)) →
      ∃ cl new, s1.findCluster n = some cl ∧ NewChunks s1 new ∧ new ≠ [] ∧ s' = addNodesResult s1 cl new := by
    intro cl1 hf1 hm
    have hup : autoScaleUpNodes s1 n k choice = (s', R.ok ()) := by
      split at hm
      · rename_i heq; rw [heq]; cases hm; rfl
      all_goals cases hm
    unfold autoScaleUpNodes at hup
    split at hup
    · cases hup
    split at hup
    · cases hup
    simp only at hup
    split at hup
    · cases hup
    rename_i cl2 hf2 hk
    rcases autoAddNodes_spec s1 n (k - cl2.chunks.length * 4) choice with ⟨_, hno⟩ | ⟨cl, new, hf, hnew, hlen, _, hk0, _, he⟩
    · exact absurd (by rw [hup]) (hno ())
    · rw [he] at hup
      refine ⟨cl, new, hf, hnew, ?_, (Prod.mk.inj hup).1.symm⟩
      intro e; subst e; simp at hlen; omega
  split at h
  · split at h
    · cases h
    · rename_i cl1 hf1
      split at h
      · cases h
      · split at h
        · exact key cl1 hf1 h
        · split at h <;> cases h
  · split at h
    · cases h
    · rename_i cl1 hf1
      split at h
      · cases h
      · split at h
        · exact key cl1 hf1 h
        · split at h <;> cases h
  all_goals cases h

end Um.Broker
