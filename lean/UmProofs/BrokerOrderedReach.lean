import UmProofs.BrokerResReach
import UmProofs.BrokerDefs
/-!
# Ordered-proxy mode over reachable states

* `Reachable` covers both modes: `run (.setOrdered :: ops)` (`runOrdered ops`) is a history of a broker
  started with `enable_ordered_proxy = true`, and the mode never changes afterwards;
* in ordered mode there is at most one cluster;
* what `add_cluster` / `auto_add_nodes` / `replace_failed_proxy` do in ordered mode.
-/
namespace Um.Broker
open Um Um.Slots

namespace Ord

/-- ordered mode ⇒ at most one cluster, in every reachable state -/
theorem oneCluster_reachable : ∀ s, Reachable s → s.ordered = true → s.clusters.length ≤ 1 :=
  reachable_induction (fun h => by cases h) (fun s op _ ih => step_oneCluster s op ih)

theorem foldl_ordered_true (ops : List Op) : ∀ (s : Store), s.ordered = true → (ops.foldl step s).ordered = true := by
  induction ops with
  | nil => intro s h; exact h
  | cons op rest ih => intro s h; exact ih _ (step_ordered_mono s op h)

/-- a history that starts with the mode selection runs in ordered mode throughout -/
theorem runOrdered_ordered (ops : List Op) : (runOrdered ops).ordered = true := by
  unfold runOrdered run
  simp only [List.foldl_cons]
  exact foldl_ordered_true ops _ rfl

theorem reachable_runOrdered (ops : List Op) : Reachable (runOrdered ops) := reachable_run _

theorem foldl_ordered_false (ops : List Op) (h : ∀ op ∈ ops, op ≠ .setOrdered) :
    ∀ (s : Store), s.ordered = false → (ops.foldl step s).ordered = false := by
  induction ops with
  | nil => intro s hs; exact hs
  | cons op rest ih =>
    intro s hs
    simp only [List.foldl_cons]
    refine ih (fun o ho => h o (List.mem_cons_of_mem _ ho)) _ ?_
    rw [step_ordered s op (h op List.mem_cons_self)]; exact hs

/-- a history without the mode selection runs in normal mode throughout -/
theorem run_normal (ops : List Op) (h : ∀ op ∈ ops, op ≠ .setOrdered) : (run ops).ordered = false :=
  foldl_ordered_false ops h _ rfl

/-! ## what the allocating operations do in ordered mode -/

/-- the proxies of the chunks built from `arr`, in chunk order -/
theorem chunkAddrs_of_arr {arr : List (ProxyRes × ProxyRes)} {b : Bool} {chunks : List Chunk}
    (h : proxyResourceToChunkStore arr b = R.ok chunks) :
    chunkAddrs chunks = arr.flatMap fun pr => [pr.1.addr, pr.2.addr] := by
  have hs := proxyResourceToChunkStore_skel h
  have hs' : SameSkel chunks (arr.map fun pr => mkChunk pr.1 pr.2 none none) := by
    simp only [SameSkel, hs, List.map_map, Function.comp_def]
  rw [chunkAddrs_skel hs']
  simp [chunkAddrs, List.flatMap_map, mkChunk]

/-- the proxies handed out by the ordered allocator, as one list in order: free healthy proxies,
their addresses are the chunk halves in chunk order, their indices are `first, first + 1, …` -/
theorem ordered_alloc_indices {s : Store} {n first : Nat} {choice : List (String × String)}
    {arr : List (ProxyRes × ProxyRes)} {b : Bool} {chunks : List Chunk}
    (h1 : generateFreeChunksOrdered s n first choice = R.ok arr)
    (h2 : proxyResourceToChunkStore arr b = R.ok chunks) :
    ∃ ps : List ProxyRes, (∀ p ∈ ps, p ∈ s.freeProxies) ∧ ps.map (·.addr) = chunkAddrs chunks ∧
      ps.map (·.index) = List.range' first n ∧ chunks.length * 2 = n := by
  obtain ⟨hev, hl, hp, _, hidx, _⟩ := generateFreeChunksOrdered_ok h1
  refine ⟨arr.flatMap fun pr => [pr.1, pr.2], ?_, ?_, ?_, ?_⟩
  · intro p hp'
    obtain ⟨pr, hpr, hm⟩ := List.mem_flatMap.mp hp'
    simp only [List.mem_cons, List.not_mem_nil, or_false] at hm
    rcases hm with rfl | rfl
    · exact (hp pr hpr).1
    · exact (hp pr hpr).2
  · rw [chunkAddrs_of_arr h2]; simp [List.map_flatMap]
  · rw [← hidx]; simp [List.map_flatMap]
  · have := congrArg List.length (proxyResourceToChunkStore_skel h2)
    simp only [List.length_map] at this
    omega

/-- **ordered `add_cluster`.** On success there was no cluster before, exactly one afterwards, and
its chunk halves (in chunk order) are free healthy proxies carrying the indices `0, 1, …, k/2 - 1` -/
theorem addCluster_ordered_spec {s s' : Store} (ho : s.ordered = true) {name : String} {k : Nat} {cfg : Config}
    {choice : List (String × String)} (h : addCluster s name k cfg choice = (s', R.ok ())) :
    s.clusters = [] ∧ ∃ cl, s'.clusters = [cl] ∧ cl.name = name ∧ cl.chunks.length * 4 = k ∧
      ∃ ps : List ProxyRes, (∀ p ∈ ps, p ∈ s.freeProxies) ∧ ps.map (·.addr) = cl.proxyAddrs ∧
        ps.map (·.index) = List.range' 0 (k / 2) := by
  unfold addCluster at h
  split at h
  · cases h
  rename_i hemp
  have hnil : s.clusters = [] := by
    cases hc : s.clusters with
    | nil => rfl
    | cons x xs => simp [ho, hc] at hemp
  split at h
  · cases h
  split at h
  · cases h
  split at h
  · cases h
  rename_i hk4
  simp only at h
  split at h
  · cases h
  split at h
  · rename_i s2 hdo
    simp only [Prod.mk.injEq, and_true] at h
    subst h
    obtain ⟨arr, harr, hdo⟩ := bindOk hdo
    obtain ⟨chunks, hchunks, hdo⟩ := bindOk hdo
    obtain ⟨s3, htag, hdo⟩ := bindOk hdo
    cases hdo
    rw [allocChunks_ordered ho] at harr
    obtain ⟨ps, hp1, hp2, hp3, hp4⟩ := ordered_alloc_indices harr hchunks
    have hcl : s3.clusters = s.clusters := by
      have e := tagProxies_ok _ _ _ _ htag
      subst e; rfl
    have hk4' : k % 4 = 0 := by simpa using hk4
    refine ⟨hnil, { epoch := s.bump.globalEpoch, name := name, chunks := chunks, config := cfg }, ?_, rfl,
      by show chunks.length * 4 = k; omega, ps, hp1, hp2, hp3⟩
    show s3.clusters ++ _ = _
    rw [hcl, hnil]; rfl
  all_goals cases h

/-- **ordered `auto_add_nodes`.** On success the new chunks' halves (in chunk order) are free healthy
proxies carrying the indices that continue the cluster: `2·|chunks|, 2·|chunks| + 1, …` -/
theorem autoAddNodes_ordered_spec {s s' : Store} (ho : s.ordered = true) {name : String} {k : Nat}
    {choice : List (String × String)} (h : autoAddNodes s name k choice = (s', R.ok ())) :
    ∃ cl new, s.findCluster name = some cl ∧ new.length * 4 = k ∧
      s' = addNodesResult s cl new ∧
      ∃ ps : List ProxyRes, (∀ p ∈ ps, p ∈ s.freeProxies) ∧ ps.map (·.addr) = chunkAddrs new ∧
        ps.map (·.index) = List.range' (cl.chunks.length * 2) (k / 2) := by
  unfold autoAddNodes at h
  split at h
  · cases h
  split at h
  · cases h
  rename_i cl hf
  split at h
  · cases h
  split at h
  · cases h
  rename_i hk4
  simp only at h
  split at h
  · cases h
  split at h
  · rename_i s2 hdo
    simp only [Prod.mk.injEq, and_true] at h
    subst h
    obtain ⟨arr, harr, hdo⟩ := bindOk hdo
    obtain ⟨chunks, hchunks, htag⟩ := bindOk hdo
    rw [allocChunks_ordered ho] at harr
    obtain ⟨ps, hp1, hp2, hp3, hp4⟩ := ordered_alloc_indices harr hchunks
    have e := tagProxies_ok _ _ _ _ htag
    have hcn : cl.name = name := (Store.findCluster_some hf).2
    have hk4' : k % 4 = 0 := by simpa using hk4
    refine ⟨cl, chunks, hf, by omega, ?_, ps, hp1, hp2, hp3⟩
    subst e; subst hcn; rfl
  all_goals cases h

/-- `takeover_master` touches neither the proxies nor the failed set nor the failure reports -/
theorem takeoverMaster_frame (s : Store) (name failed : String) :
    (takeoverMaster s name failed).1.proxies = s.proxies ∧ (takeoverMaster s name failed).1.failed = s.failed ∧
    (takeoverMaster s name failed).1.failures = s.failures := by
  unfold takeoverMaster
  simp only
  split
  · exact ⟨rfl, rfl, rfl⟩
  · split <;> exact ⟨rfl, rfl, rfl⟩

/-- **ordered failover.** For a proxy that sits in a cluster, `replace_failed_proxy` in ordered mode is
the takeover plus a second epoch bump: `Ok(None)`, no failed mark, no replacement, no change of the
proxy records or failure reports; the accounting invariant is kept. -/
theorem replaceFailedProxy_ordered_spec {s : Store} (hx : RX s) (ho : s.ordered = true) {a c : String}
    {fp : ProxyRes} {name : String} (hfp : s.findProxy a = some fp) (hpc : fp.cluster = some name) :
    replaceFailedProxy s a c = ((takeoverMaster s name a).1.bump, R.ok none) ∧
    (replaceFailedProxy s a c).1.proxies = s.proxies ∧ (replaceFailedProxy s a c).1.failed = s.failed ∧
    (replaceFailedProxy s a c).1.failures = s.failures ∧
    (replaceFailedProxy s a c).1.globalEpoch = s.globalEpoch + 2 ∧
    RX (replaceFailedProxy s a c).1 := by
  have hrx := rx_replaceFailedProxy a c hx
  rcases replaceFailedProxy_spec s a c with ⟨hn, _⟩ | ⟨p, hp, hpn, _⟩ | ⟨p, n, hp, hpn, hnone, _⟩ |
      ⟨p, n, cl0, hp, hpn, hcl0, h'⟩
  · rw [hfp] at hn; cases hn
  · rw [hfp] at hp; cases hp; rw [hpc] at hpn; cases hpn
  · exfalso
    rw [hfp] at hp; cases hp
    obtain ⟨hpm, _⟩ := Store.findProxy_some hfp
    obtain ⟨cl, hcl, hcn, _⟩ := hx.1.2.2.2.2 _ hpm n hpn
    exact Store.findCluster_none.mp hnone cl hcl hcn
  · rw [hfp] at hp; cases hp
    rw [hpc] at hpn; cases hpn
    rcases h' with ⟨_, h'⟩ | ⟨hno, _⟩
    · obtain ⟨f1, f2, f3⟩ := takeoverMaster_frame s name a
      have hge : (takeoverMaster s name a).1.globalEpoch = s.globalEpoch + 1 := by
        unfold takeoverMaster
        simp only
        split
        · rfl
        · split <;> rfl
      refine ⟨h', ?_, ?_, ?_, ?_, hrx⟩
      · rw [h']; exact f1
      · rw [h']; exact f2
      · rw [h']; exact f3
      · rw [h']; show (takeoverMaster s name a).1.globalEpoch + 1 = _; rw [hge]
    · rw [ho] at hno; cases hno

end Ord

end Um.Broker
