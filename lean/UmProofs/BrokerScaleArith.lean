import UmProofs.BrokerDefs
/-!
# C10 — slot-count arithmetic of range lists (self-contained)

* `slotsNum` of concatenations;
* `Asc l`: well-formed ranges, strictly ascending without overlap (weaker than `NormalRanges`:
  adjacent ranges are allowed);
* `DisjList l`: well-formed, pairwise disjoint, any order;
* `slotsNum_compact`: `compact` preserves the slot count of a `DisjList`;
* `compact_of_normal`: `compact` is the identity on `NormalRanges` lists.
-/
namespace Um.Broker.Scale
open Um Um.Slots Um.Broker

/-! ## `slotsNum` -/

@[simp] theorem slotsNum_nil : slotsNum [] = 0 := rfl
@[simp] theorem slotsNum_cons (r : Range) (l : RangeList) : slotsNum (r :: l) = rangeNum r + slotsNum l := rfl
theorem slotsNum_append (a b : RangeList) : slotsNum (a ++ b) = slotsNum a + slotsNum b := by
  induction a with
  | nil => simp
  | cons r a ih => simp [ih, Nat.add_assoc]
theorem slotsNum_single (r : Range) : slotsNum [r] = rangeNum r := by simp
theorem slotsNum_perm {a b : RangeList} (h : a.Perm b) : slotsNum a = slotsNum b := by
  unfold slotsNum; exact (h.map rangeNum).sum_nat

theorem rangeNum_pos (r : Range) : 0 < rangeNum r := by unfold rangeNum; omega

/-! ## shapes of range lists -/

/-- well-formed, strictly ascending, non-overlapping -/
def Asc (l : RangeList) : Prop := (∀ r ∈ l, r.1 ≤ r.2) ∧ l.Pairwise (fun a b => a.2 < b.1)

def Disj (a b : Range) : Prop := a.2 < b.1 ∨ b.2 < a.1

/-- well-formed and pairwise disjoint (any order) -/
def DisjList (l : RangeList) : Prop := (∀ r ∈ l, r.1 ≤ r.2) ∧ l.Pairwise Disj

theorem Disj.symm {a b : Range} (h : Disj a b) : Disj b a := Or.symm h

theorem Asc.disjList {l : RangeList} (h : Asc l) : DisjList l :=
  ⟨h.1, h.2.imp fun hab => Or.inl hab⟩

theorem asc_nil : Asc [] := ⟨by simp, List.Pairwise.nil⟩

theorem Asc.tail {r : Range} {l : RangeList} (h : Asc (r :: l)) : Asc l :=
  ⟨fun x hx => h.1 x (List.mem_cons_of_mem _ hx), (List.pairwise_cons.mp h.2).2⟩

theorem normal_wf_head {r : Range} {l : RangeList} (h : NormalRanges (r :: l)) : r.1 ≤ r.2 := by
  cases l with
  | nil => exact h
  | cons r' l => exact h.1

theorem normal_tail {r : Range} {l : RangeList} (h : NormalRanges (r :: l)) : NormalRanges l := by
  cases l with
  | nil => trivial
  | cons r' l => exact h.2.2

/-- in a normal list everything after the head starts beyond the head's end plus one -/
theorem normal_head_lt {r : Range} {l : RangeList} (h : NormalRanges (r :: l)) :
    ∀ x ∈ l, r.2 + 1 < x.1 := by
  induction l generalizing r with
  | nil => intro x hx; cases hx
  | cons r' l ih =>
    intro x hx
    obtain ⟨h1, h2, h3⟩ := h
    rcases List.mem_cons.mp hx with rfl | hx'
    · exact h2
    · have := ih h3 x hx'
      have := normal_wf_head h3
      omega

theorem normal_asc {l : RangeList} (h : NormalRanges l) : Asc l := by
  induction l with
  | nil => exact asc_nil
  | cons r l ih =>
    have hl := ih (normal_tail h)
    refine ⟨?_, List.pairwise_cons.mpr ⟨?_, hl.2⟩⟩
    · intro x hx
      rcases List.mem_cons.mp hx with rfl | hx'
      · exact normal_wf_head h
      · exact hl.1 x hx'
    · intro x hx
      have := normal_head_lt h x hx
      omega

/-! ## `compact` -/

theorem normRange_of_wf {r : Range} (h : r.1 ≤ r.2) : normRange r = r := by
  unfold normRange; simp [Nat.not_lt.mpr h]

theorem map_normRange_of_wf {l : RangeList} (h : ∀ r ∈ l, r.1 ≤ r.2) : l.map normRange = l := by
  conv => rhs; rw [← List.map_id l]
  apply List.map_congr_left
  intro r hr; simp [normRange_of_wf (h r hr)]

theorem startLe_trans (a b c : Range) : startLe a b = true → startLe b c = true → startLe a c = true := by
  simp only [startLe, decide_eq_true_eq]; omega

theorem startLe_total (a b : Range) : (startLe a b || startLe b a) = true := by
  simp only [startLe, Bool.or_eq_true, decide_eq_true_eq]; omega

/-- the merge pass on an ascending list keeps the slot count -/
theorem slotsNum_mergeGo (cur : Range) (es : RangeList) (h : Asc (cur :: es)) :
    slotsNum (mergeGo cur es) = rangeNum cur + slotsNum es := by
  induction es generalizing cur with
  | nil => simp [mergeGo]
  | cons e es ih =>
    have hcw : cur.1 ≤ cur.2 := h.1 cur List.mem_cons_self
    have hew : e.1 ≤ e.2 := h.1 e (by simp)
    obtain ⟨hc, hrest⟩ := List.pairwise_cons.mp h.2
    have hce : cur.2 < e.1 := hc e List.mem_cons_self
    obtain ⟨he, hes⟩ := List.pairwise_cons.mp hrest
    unfold mergeGo
    split
    · rename_i hge
      have hmax : max cur.2 e.2 = e.2 := by omega
      rw [hmax]
      have hasc : Asc ((cur.1, e.2) :: es) := by
        refine ⟨?_, List.pairwise_cons.mpr ⟨?_, hes⟩⟩
        · intro x hx
          rcases List.mem_cons.mp hx with rfl | hx'
          · show cur.1 ≤ e.2; omega
          · exact h.1 x (by simp [hx'])
        · intro x hx; exact he x hx
      rw [ih _ hasc]
      simp only [slotsNum_cons, rangeNum]
      omega
    · have hasc : Asc (e :: es) := h.tail
      simp only [slotsNum_cons]
      rw [ih _ hasc]

theorem slotsNum_mergeSorted (l : RangeList) (h : Asc l) : slotsNum (mergeSorted l) = slotsNum l := by
  cases l with
  | nil => rfl
  | cons r rs => simp only [mergeSorted, slotsNum_cons]; exact slotsNum_mergeGo r rs h

/-- sorted by start + disjoint + well-formed ⇒ ascending -/
theorem asc_of_sorted_disj {l : RangeList} (hd : DisjList l) (hs : l.Pairwise (fun a b => startLe a b = true)) :
    Asc l := by
  refine ⟨hd.1, ?_⟩
  have := hd.2.and hs
  apply this.imp_of_mem
  intro a b ha hb hab
  obtain ⟨hdis, hle⟩ := hab
  have hbw := hd.1 b hb
  simp only [startLe, decide_eq_true_eq] at hle
  rcases hdis with h | h
  · exact h
  · omega

theorem DisjList.perm {a b : RangeList} (h : DisjList a) (p : a.Perm b) : DisjList b :=
  ⟨fun r hr => h.1 r (p.mem_iff.mpr hr), (p.pairwise_iff (fun h => Disj.symm h)).mp h.2⟩

theorem sorted_asc {l : RangeList} (h : DisjList l) : Asc (l.mergeSort startLe) :=
  asc_of_sorted_disj (h.perm (List.mergeSort_perm l startLe).symm)
    (List.pairwise_mergeSort startLe_trans startLe_total l)

/-- **`compact` preserves the slot count of pairwise disjoint well-formed ranges** -/
theorem slotsNum_compact {l : RangeList} (h : DisjList l) : slotsNum (compact l) = slotsNum l := by
  unfold compact
  rw [map_normRange_of_wf h.1, slotsNum_mergeSorted _ (sorted_asc h)]
  exact slotsNum_perm (List.mergeSort_perm l startLe)

theorem slotsNum_rlNew {l : RangeList} (h : DisjList l) : slotsNum (rlNew l) = slotsNum l :=
  slotsNum_compact h

theorem slotsNum_mergeAnother {a b : RangeList} (h : DisjList (a ++ b)) :
    slotsNum (mergeAnother a b) = slotsNum a + slotsNum b := by
  unfold mergeAnother; rw [slotsNum_compact h, slotsNum_append]

/-! ## `compact` is the identity on normal lists -/

theorem mergeGo_of_normal (cur : Range) (es : RangeList) (h : NormalRanges (cur :: es)) :
    mergeGo cur es = cur :: es := by
  induction es generalizing cur with
  | nil => rfl
  | cons e es ih =>
    obtain ⟨_, h2, h3⟩ := h
    unfold mergeGo
    have : ¬ cur.2 + 1 ≥ e.1 := by omega
    simp only [this, if_false]
    rw [ih e h3]

theorem compact_of_normal {l : RangeList} (h : NormalRanges l) : compact l = l := by
  have hasc := normal_asc h
  unfold compact
  rw [map_normRange_of_wf hasc.1]
  have hsorted : l.Pairwise (fun a b => startLe a b = true) := by
    apply hasc.2.imp_of_mem
    intro a b ha _ hab
    have := hasc.1 a ha
    simp only [startLe, decide_eq_true_eq]; omega
  rw [List.mergeSort_of_pairwise hsorted]
  cases l with
  | nil => rfl
  | cons r rs => exact mergeGo_of_normal r rs h

/-! ## `compact` produces normal lists -/

theorem mergeGo_head (cur : Range) (es : RangeList) :
    ∃ r rest, mergeGo cur es = r :: rest ∧ r.1 = cur.1 := by
  induction es generalizing cur with
  | nil => exact ⟨cur, [], rfl, rfl⟩
  | cons e es ih =>
    unfold mergeGo
    split
    · obtain ⟨r, rest, h1, h2⟩ := ih (cur.1, max cur.2 e.2)
      exact ⟨r, rest, h1, h2⟩
    · exact ⟨cur, _, rfl, rfl⟩

theorem normal_mergeGo (cur : Range) (es : RangeList) (hc : cur.1 ≤ cur.2) (hes : ∀ r ∈ es, r.1 ≤ r.2) :
    NormalRanges (mergeGo cur es) := by
  induction es generalizing cur with
  | nil => exact hc
  | cons e es ih =>
    unfold mergeGo
    split
    · apply ih
      · show cur.1 ≤ max cur.2 e.2; omega
      · intro r hr; exact hes r (by simp [hr])
    · rename_i hlt
      have hn := ih e (hes e (by simp)) (fun r hr => hes r (by simp [hr]))
      obtain ⟨r, rest, h1, h2⟩ := mergeGo_head e es
      rw [h1] at hn ⊢
      exact ⟨hc, by omega, hn⟩

theorem normal_compact (l : RangeList) : NormalRanges (compact l) := by
  unfold compact
  generalize hs : (l.map normRange).mergeSort startLe = s
  have hw : ∀ r ∈ s, r.1 ≤ r.2 := by
    intro r hr
    rw [← hs, List.mem_mergeSort] at hr
    obtain ⟨r0, _, rfl⟩ := List.mem_map.mp hr
    unfold normRange; split
    · show r0.2 ≤ r0.1; omega
    · omega
  cases s with
  | nil => trivial
  | cons r rs =>
    exact normal_mergeGo r rs (hw r (by simp)) (fun x hx => hw x (by simp [hx]))

end Um.Broker.Scale
