import UmProofs.BrokerScalePlanA
/-!
# C10 — the greedy two-pointer plan of `remove_slots_from_src` (part B: the inner `while`)
-/
namespace Um.Broker.Scale
open Um Um.Slots Um.Broker

/-- final slot count of destination `j` (`dst_r`) -/
def OutParams.need (P : OutParams) (j : Nat) : Nat :=
  P.average + (if P.srcMasterNum + j < P.remainder then 1 else 0)

/-- final slot count of source master `idx` (`src_r`) -/
def OutParams.srcFinal (P : OutParams) (idx : Nat) : Nat :=
  P.average + (if idx < P.remainder then 1 else 0)

/-- destination index of a planned task -/
def OutParams.dstIndex (P : OutParams) (mm : MigMeta) : Nat :=
  (mm.dstChunk - P.srcChunkNum) * 2 + mm.dstPart

/-- slots handed to the destinations so far -/
def OutParams.given (P : OutParams) (st : LoopSt) : Nat := sumTo (OutParams.need P) st.dstIdx + st.curNum

def OutParams.total (P : OutParams) : Nat := sumTo (OutParams.need P) P.dstMasterNum

/-- bookkeeping of the emitted tasks -/
structure OutInv (P : OutParams) (st : LoopSt) : Prop where
  done : ∀ j, j < st.dstIdx → recvBy (OutParams.dstIndex P) st.out j = (OutParams.need P) j
  curr : recvBy (OutParams.dstIndex P) st.out st.dstIdx + slotsNum st.curSlots = st.curNum
  later : ∀ j, st.dstIdx < j → recvBy (OutParams.dstIndex P) st.out j = 0
  shape : ∀ ms ∈ st.out, ∃ j, j < P.dstMasterNum ∧ ms.mm.dstChunk = P.srcChunkNum + j / 2 ∧
    ms.mm.dstPart = j % 2 ∧ ms.mm.srcPart < 2 ∧ ms.mm.epoch = P.epoch ∧ compact ms.ranges = ms.ranges

/-- state invariant between and inside the inner loops -/
structure StInv (P : OutParams) (st : LoopSt) : Prop where
  le : st.dstIdx ≤ P.dstMasterNum
  lt : st.dstIdx < P.dstMasterNum → st.curNum < (OutParams.need P) st.dstIdx
  fin : st.dstIdx = P.dstMasterNum → st.curNum = 0 ∧ st.curSlots = []
  out : OutInv P st

theorem OutParams.dstIndex_mk (P : OutParams) (e sc sp j : Nat) :
    (OutParams.dstIndex P) { epoch := e, srcChunk := sc, srcPart := sp, dstChunk := P.srcChunkNum + j / 2, dstPart := j % 2 } = j := by
  simp only [OutParams.dstIndex]; omega

theorem OutParams.need_pos (P : OutParams) (h : 1 ≤ P.average) (j : Nat) : 0 < (OutParams.need P) j := by
  unfold OutParams.need; omega

/-- the task record the loops emit -/
def OutParams.task (P : OutParams) (sc sp j : Nat) (ranges : RangeList) : MigSlots :=
  { ranges := ranges,
    mm := { epoch := P.epoch, srcChunk := sc, srcPart := sp, dstChunk := P.srcChunkNum + j / 2, dstPart := j % 2 } }

theorem OutParams.dstIndex_task (P : OutParams) (sc sp j : Nat) (ranges : RangeList) :
    (OutParams.dstIndex P) ((OutParams.task P) sc sp j ranges).mm = j := (OutParams.dstIndex_mk P) _ _ _ _

/-- result of the inner `while` for one source master -/
structure WhilePost (P : OutParams) (srcChunk srcPart : Nat) (rl : RangeList) (st : LoopSt)
    (rl' : RangeList) (st' : LoopSt) : Prop where
  count : slotsNum rl' = (OutParams.srcFinal P) (srcChunk * 2 + srcPart)
  asc : Asc rl'
  empty : st'.curSlots = []
  inv : StInv P st'
  given : (OutParams.given P) st' + (OutParams.srcFinal P) (srcChunk * 2 + srcPart) = (OutParams.given P) st + slotsNum rl
  mono : st.dstIdx ≤ st'.dstIdx
  outs : ∃ new, st'.out = st.out ++ new ∧ ∀ ms ∈ new, ms.mm.srcChunk = srcChunk ∧ ms.mm.srcPart = srcPart

/-- emitting a task keeps the bookkeeping: destination completed -/
theorem outInv_emit_done {P : OutParams} {st : LoopSt} (h : OutInv P st) (hlt : st.dstIdx < P.dstMasterNum)
    (sc sp : Nat) (hsp : sp < 2) (ranges : RangeList) (hfx : compact ranges = ranges)
    (hcount : recvBy (OutParams.dstIndex P) st.out st.dstIdx + slotsNum ranges = (OutParams.need P) st.dstIdx) :
    OutInv P { dstIdx := st.dstIdx + 1, curSlots := [], curNum := 0,
               out := st.out ++ [(OutParams.task P) sc sp st.dstIdx ranges] } := by
  refine ⟨?_, ?_, ?_, ?_⟩
  · intro j hj
    simp only [recvBy_snoc, OutParams.dstIndex_task]
    by_cases hjd : st.dstIdx = j
    · subst hjd; simp only [if_true]; exact hcount
    · simp only [hjd, if_false, Nat.add_zero]; exact h.done j (by simp only at hj; omega)
  · simp only [recvBy_snoc, OutParams.dstIndex_task, slotsNum_nil, Nat.add_zero]
    have : ¬ st.dstIdx = st.dstIdx + 1 := by omega
    simp only [this, if_false, Nat.add_zero]
    exact h.later _ (by omega)
  · intro j hj
    simp only at hj
    simp only [recvBy_snoc, OutParams.dstIndex_task]
    have : ¬ st.dstIdx = j := by omega
    simp only [this, if_false, Nat.add_zero]
    exact h.later j (by omega)
  · intro ms hms
    simp only at hms
    rcases List.mem_append.mp hms with hms | hms
    · exact h.shape ms hms
    · simp only [List.mem_singleton] at hms; subst hms
      exact ⟨st.dstIdx, hlt, rfl, rfl, hsp, rfl, hfx⟩

/-- emitting a task keeps the bookkeeping: destination still open -/
theorem outInv_emit_open {P : OutParams} {st : LoopSt} (h : OutInv P st) (hlt : st.dstIdx < P.dstMasterNum)
    (sc sp : Nat) (hsp : sp < 2) (ranges : RangeList) (hfx : compact ranges = ranges) (curNum' : Nat)
    (hcount : recvBy (OutParams.dstIndex P) st.out st.dstIdx + slotsNum ranges = curNum') :
    OutInv P { dstIdx := st.dstIdx, curSlots := [], curNum := curNum',
               out := st.out ++ [(OutParams.task P) sc sp st.dstIdx ranges] } := by
  refine ⟨?_, ?_, ?_, ?_⟩
  · intro j hj
    simp only at hj
    simp only [recvBy_snoc, OutParams.dstIndex_task]
    have : ¬ st.dstIdx = j := by omega
    simp only [this, if_false, Nat.add_zero]
    exact h.done j hj
  · simp only [recvBy_snoc, OutParams.dstIndex_task, slotsNum_nil, Nat.add_zero, if_true]
    exact hcount
  · intro j hj
    simp only at hj
    simp only [recvBy_snoc, OutParams.dstIndex_task]
    have : ¬ st.dstIdx = j := by omega
    simp only [this, if_false, Nat.add_zero]
    exact h.later j hj
  · intro ms hms
    simp only at hms
    rcases List.mem_append.mp hms with hms | hms
    · exact h.shape ms hms
    · simp only [List.mem_singleton] at hms; subst hms
      exact ⟨st.dstIdx, hlt, rfl, rfl, hsp, rfl, hfx⟩

def cutLast (rl : RangeList) (last : Range) (cur : RangeList) (curNum removeNum : Nat) :
    RangeList × RangeList × Nat :=
  if removeNum ≥ rangeNum last then (rl.dropLast, cur ++ [last], curNum + rangeNum last)
  else (rl.dropLast ++ [(last.1, last.2 - removeNum)], cur ++ [(last.2 - removeNum + 1, last.2)],
        curNum + removeNum)

theorem cutLast_fst (rl : RangeList) (last : Range) (cur : RangeList) (n r : Nat) :
    (cutLast rl last cur n r).1 =
      if r ≥ rangeNum last then rl.dropLast else rl.dropLast ++ [(last.1, last.2 - r)] := by
  unfold cutLast; split <;> rfl
theorem cutLast_snd_fst (rl : RangeList) (last : Range) (cur : RangeList) (n r : Nat) :
    (cutLast rl last cur n r).2.1 =
      if r ≥ rangeNum last then cur ++ [last] else cur ++ [(last.2 - r + 1, last.2)] := by
  unfold cutLast; split <;> rfl
theorem cutLast_snd_snd (rl : RangeList) (last : Range) (cur : RangeList) (n r : Nat) :
    (cutLast rl last cur n r).2.2 = if r ≥ rangeNum last then n + rangeNum last else n + r := by
  unfold cutLast; split <;> rfl

theorem srcBody_eq (P : OutParams) (c p : Nat) (rl : RangeList) (st : LoopSt) :
    srcBody P c p (rl, st) =
      if st.dstIdx == P.dstMasterNum then R.ok (.done (rl, st)) else
      if slotsNum rl ≤ (OutParams.srcFinal P) (c * 2 + p) then R.ok (.done (rl, st)) else
      if (OutParams.need P) st.dstIdx < st.curNum then R.panic "remove_slots_from_src: need_num underflow" else
      match rl.getLast? with
      | none => R.panic "remove_slots_from_src: slots > average + src_r >= 0"
      | some last =>
        let t := cutLast rl last st.curSlots st.curNum
          (min ((OutParams.need P) st.dstIdx - st.curNum) (slotsNum rl - (OutParams.srcFinal P) (c * 2 + p)))
        if decide (t.2.2 ≥ (OutParams.need P) st.dstIdx) || decide (slotsNum t.1 ≤ (OutParams.srcFinal P) (c * 2 + p)) then
          let st2 : LoopSt :=
            if t.2.2 ≥ (OutParams.need P) st.dstIdx then
              { dstIdx := st.dstIdx + 1, curSlots := [], curNum := 0,
                out := st.out ++ [(OutParams.task P) c p st.dstIdx (rlNew t.2.1)] }
            else
              { dstIdx := st.dstIdx, curSlots := [], curNum := t.2.2,
                out := st.out ++ [(OutParams.task P) c p st.dstIdx (rlNew t.2.1)] }
          if slotsNum t.1 ≤ (OutParams.srcFinal P) (c * 2 + p) then R.ok (.done (t.1, st2)) else R.ok (.cont (t.1, st2))
        else R.ok (.cont (t.1, { st with curSlots := t.2.1, curNum := t.2.2 })) := by
  simp only [cutLast_fst, cutLast_snd_fst, cutLast_snd_snd]
  rfl

theorem srcWhile_succ (P : OutParams) (c p fuel : Nat) (rl : RangeList) (st : LoopSt) :
    srcWhile P c p (fuel + 1) rl st =
      if st.dstIdx == P.dstMasterNum then R.ok (rl, st) else
      if slotsNum rl ≤ (OutParams.srcFinal P) (c * 2 + p) then R.ok (rl, st) else
      if (OutParams.need P) st.dstIdx < st.curNum then R.panic "remove_slots_from_src: need_num underflow" else
      match rl.getLast? with
      | none => R.panic "remove_slots_from_src: slots > average + src_r >= 0"
      | some last =>
        let t := cutLast rl last st.curSlots st.curNum
          (min ((OutParams.need P) st.dstIdx - st.curNum) (slotsNum rl - (OutParams.srcFinal P) (c * 2 + p)))
        if decide (t.2.2 ≥ (OutParams.need P) st.dstIdx) || decide (slotsNum t.1 ≤ (OutParams.srcFinal P) (c * 2 + p)) then
          let st2 : LoopSt :=
            if t.2.2 ≥ (OutParams.need P) st.dstIdx then
              { dstIdx := st.dstIdx + 1, curSlots := [], curNum := 0,
                out := st.out ++ [(OutParams.task P) c p st.dstIdx (rlNew t.2.1)] }
            else
              { dstIdx := st.dstIdx, curSlots := [], curNum := t.2.2,
                out := st.out ++ [(OutParams.task P) c p st.dstIdx (rlNew t.2.1)] }
          if slotsNum t.1 ≤ (OutParams.srcFinal P) (c * 2 + p) then R.ok (t.1, st2) else srcWhile P c p fuel t.1 st2
        else srcWhile P c p fuel t.1 { st with curSlots := t.2.1, curNum := t.2.2 } := by
  unfold srcWhile
  rw [iterate, srcBody_eq]
  by_cases h1 : (st.dstIdx == P.dstMasterNum) = true
  · rw [if_pos h1, if_pos h1]
  · rw [if_neg h1, if_neg h1]
    by_cases h2 : slotsNum rl ≤ (OutParams.srcFinal P) (c * 2 + p)
    · rw [if_pos h2, if_pos h2]
    · rw [if_neg h2, if_neg h2]
      by_cases h3 : (OutParams.need P) st.dstIdx < st.curNum
      · rw [if_pos h3, if_pos h3]
      · rw [if_neg h3, if_neg h3]
        cases rl.getLast? with
        | none => rfl
        | some last =>
          dsimp only
          generalize cutLast rl last st.curSlots st.curNum
            (min ((OutParams.need P) st.dstIdx - st.curNum) (slotsNum rl - (OutParams.srcFinal P) (c * 2 + p))) = t
          by_cases h4 : (decide (t.2.2 ≥ (OutParams.need P) st.dstIdx) || decide (slotsNum t.1 ≤ (OutParams.srcFinal P) (c * 2 + p))) = true
          · rw [if_pos h4, if_pos h4]
            by_cases h5 : slotsNum t.1 ≤ (OutParams.srcFinal P) (c * 2 + p)
            · rw [if_pos h5, if_pos h5]
            · rw [if_neg h5, if_neg h5]
          · rw [if_neg h4, if_neg h4]


theorem OutParams.given_fin (P : OutParams) {st : LoopSt} (h : st.dstIdx = P.dstMasterNum) :
    (OutParams.total P) ≤ (OutParams.given P) st := by
  unfold OutParams.total OutParams.given; rw [h]; omega

theorem WhilePost.chain {P : OutParams} {c p : Nat} {rl rl1 rl' : RangeList} {st st2 st' : LoopSt}
    (h : WhilePost P c p rl1 st2 rl' st') (hg : (OutParams.given P) st2 + slotsNum rl1 = (OutParams.given P) st + slotsNum rl)
    (hm : st.dstIdx ≤ st2.dstIdx)
    (ho : ∃ new, st2.out = st.out ++ new ∧ ∀ ms ∈ new, ms.mm.srcChunk = c ∧ ms.mm.srcPart = p) :
    WhilePost P c p rl st rl' st' := by
  obtain ⟨n0, hn0, hs0⟩ := ho
  obtain ⟨n1, hn1, hs1⟩ := h.outs
  refine ⟨h.count, h.asc, h.empty, h.inv, by have := h.given; omega, by have := h.mono; omega,
    n0 ++ n1, by rw [hn1, hn0, List.append_assoc], ?_⟩
  intro ms hms
  rcases List.mem_append.mp hms with hms | hms
  · exact hs0 ms hms
  · exact hs1 ms hms

theorem srcWhile_spec (P : OutParams) (hav : 1 ≤ P.average) (c p : Nat) (hp : p < 2) :
    ∀ (fuel : Nat) (rl : RangeList) (st : LoopSt),
      Asc rl → (OutParams.srcFinal P) (c * 2 + p) ≤ slotsNum rl → slotsNum rl < (OutParams.srcFinal P) (c * 2 + p) + fuel →
      (OutParams.given P) st + slotsNum rl ≤ (OutParams.total P) + (OutParams.srcFinal P) (c * 2 + p) →
      StInv P st → (st.curSlots ≠ [] → (OutParams.srcFinal P) (c * 2 + p) < slotsNum rl) →
      PiecesBelow rl st.curSlots →
      ∀ res, srcWhile P c p fuel rl st = res →
      ∃ rl' st', res = R.ok (rl', st') ∧ WhilePost P c p rl st rl' st' := by
  intro fuel
  induction fuel with
  | zero => intro rl st _ h1 h2; omega
  | succ fuel ih =>
    intro rl st hasc hge hfuel hbud hinv hcur hpieces res hres
    rw [srcWhile_succ] at hres
    have done : slotsNum rl = (OutParams.srcFinal P) (c * 2 + p) → st.curSlots = [] →
        ∃ rl' st', R.ok (rl, st) = R.ok (rl', st') ∧ WhilePost P c p rl st rl' st' := by
      intro h1 h2
      exact ⟨rl, st, rfl, ⟨h1, hasc, h2, hinv, by omega, Nat.le_refl _, [], by simp, by simp⟩⟩
    split at hres
    · rename_i hD
      have hD' : st.dstIdx = P.dstMasterNum := by simpa using hD
      have := (OutParams.given_fin P) hD'
      subst hres
      exact done (by omega) (hinv.fin hD').2
    · rename_i hD
      have hD' : st.dstIdx ≠ P.dstMasterNum := by simpa using hD
      have hlt : st.dstIdx < P.dstMasterNum := by have := hinv.le; omega
      split at hres
      · rename_i hle
        subst hres
        have heq : slotsNum rl = (OutParams.srcFinal P) (c * 2 + p) := by omega
        refine done heq ?_
        apply Classical.byContradiction
        intro hne
        have := hcur hne
        omega
      · rename_i hgt
        have hgt' : (OutParams.srcFinal P) (c * 2 + p) < slotsNum rl := by omega
        have hneed := hinv.lt hlt
        split at hres
        · omega
        · split at hres
          · rename_i hgl
            exfalso
            have : rl = [] := List.getLast?_eq_none_iff.mp hgl
            subst this
            simp at hgt'
          · rename_i last hgl
            have hrem : 1 ≤ min ((OutParams.need P) st.dstIdx - st.curNum) (slotsNum rl - (OutParams.srcFinal P) (c * 2 + p)) := by
              omega
            obtain ⟨moved, hm1, hm2, ht3, ht1, ht2, htasc, htp⟩ :=
              cutLast_spec st.curSlots st.curNum _ hgl hasc hrem hpieces
                (cutLast rl last st.curSlots st.curNum
                  (min ((OutParams.need P) st.dstIdx - st.curNum) (slotsNum rl - (OutParams.srcFinal P) (c * 2 + p)))) rfl
            generalize cutLast rl last st.curSlots st.curNum
                  (min ((OutParams.need P) st.dstIdx - st.curNum) (slotsNum rl - (OutParams.srcFinal P) (c * 2 + p))) = t at *
            obtain ⟨rl1, cur1, num1⟩ := t
            simp only at hres ht3 ht1 ht2 htasc htp
            subst ht3
            have hcnt : slotsNum (rlNew cur1) = slotsNum cur1 := slotsNum_rlNew htp.disjList
            have hcurr := hinv.out.curr
            by_cases hA : st.curNum + moved ≥ (OutParams.need P) st.dstIdx
            · -- the destination is complete
              have hst2 : StInv P (⟨st.dstIdx + 1, [], 0, st.out ++ [(OutParams.task P) c p st.dstIdx (rlNew cur1)]⟩ : LoopSt) := by
                refine ⟨by simp only; omega, fun _ => (OutParams.need_pos P) hav _, fun _ => ⟨rfl, rfl⟩, ?_⟩
                exact outInv_emit_done hinv.out hlt c p hp (rlNew cur1) (show compact (rlNew cur1) = rlNew cur1 from compact_of_normal (normal_compact cur1)) (by omega)
              have hgiven : (OutParams.given P) (⟨st.dstIdx + 1, [], 0, st.out ++ [(OutParams.task P) c p st.dstIdx (rlNew cur1)]⟩ : LoopSt) = (OutParams.given P) st + moved := by
                simp only [OutParams.given, sumTo]; omega
              simp only [hA, decide_true, Bool.true_or, if_true] at hres
              split at hres
              · subst hres
                exact ⟨_, _, rfl, ⟨by omega, htasc, rfl, hst2, by omega, by simp,
                  [(OutParams.task P) c p st.dstIdx (rlNew cur1)], rfl, by simp [OutParams.task]⟩⟩
              · obtain ⟨rl', st', hr, hpost⟩ := ih rl1 _ htasc (by omega) (by omega) (by omega) hst2
                  (fun h => absurd rfl h) (piecesBelow_nil rl1) res hres
                refine ⟨rl', st', hr, hpost.chain (by omega) (by simp) ?_⟩
                exact ⟨[(OutParams.task P) c p st.dstIdx (rlNew cur1)], rfl, by simp [OutParams.task]⟩
            · have hA' : st.curNum + moved < (OutParams.need P) st.dstIdx := by omega
              by_cases hB : slotsNum rl1 ≤ (OutParams.srcFinal P) (c * 2 + p)
              · -- the source is drained, the destination stays open
                have hst2 : StInv P (⟨st.dstIdx, [], st.curNum + moved, st.out ++ [(OutParams.task P) c p st.dstIdx (rlNew cur1)]⟩ : LoopSt) := by
                  refine ⟨hinv.le, fun _ => hA', fun h => absurd h hD', ?_⟩
                  exact outInv_emit_open hinv.out hlt c p hp (rlNew cur1) (show compact (rlNew cur1) = rlNew cur1 from compact_of_normal (normal_compact cur1)) _ (by omega)
                simp only [hA, hB, decide_true, decide_false, Bool.or_true, if_true, if_false] at hres
                subst hres
                exact ⟨_, _, rfl, ⟨by omega, htasc, rfl, hst2, by simp only [OutParams.given]; omega, by simp,
                  [(OutParams.task P) c p st.dstIdx (rlNew cur1)], rfl, by simp [OutParams.task]⟩⟩
              · -- keep cutting for the same destination
                have hst3 : StInv P (⟨st.dstIdx, cur1, st.curNum + moved, st.out⟩ : LoopSt) := by
                  refine ⟨hinv.le, fun _ => hA', fun h => absurd h hD', ?_⟩
                  exact ⟨hinv.out.done, by simp only; omega, hinv.out.later, hinv.out.shape⟩
                simp only [hA, hB, decide_false, Bool.or_false, Bool.false_eq_true, if_false] at hres
                obtain ⟨rl', st', hr, hpost⟩ := ih rl1 _ htasc (by omega) (by omega)
                  (by simp only [OutParams.given] at hbud ⊢; omega) hst3
                  (fun _ => by omega) htp res hres
                refine ⟨rl', st', hr, hpost.chain (by simp only [OutParams.given]; omega) (by simp) ?_⟩
                exact ⟨[], by simp, by simp⟩

end Um.Broker.Scale
