import UmProofs.BrokerEpochChunks
/-!
# Epoch proofs (C04, C13) — part 3: every `MetaStore` mutator satisfies `OpOk`

One lemma per model function (`<fn>_ok : OpOk s (<fn> s …).1`, for every outcome including the
error paths that have already bumped the global epoch), then `step_ok` for `Op`/`step`.
`add_proxy`/`remove_proxy` change the proxy list, so they get the more general `Frame`.
-/
namespace Um.Broker.Epoch
open Um Um.Slots Um.Broker

theorem OpOk.of_same {s s' : Store} (hc : s'.clusters = s.clusters) (hp : s'.proxies = s.proxies)
    (hG : s.globalEpoch ≤ s'.globalEpoch) : OpOk s s' := by
  refine OpOk.of_clStep_noTag hG ?_ hp
  rw [hc]; exact ClStep.same

theorem tagNew_none {s s' : Store} (h : s.globalEpoch < s'.globalEpoch) : TagNew s s' none :=
  ⟨h, fun n hn => by cases hn⟩

theorem tagNew_some {s s' : Store} {name : String} {c' : Cluster} (h : s.globalEpoch < s'.globalEpoch)
    (hf : s'.findCluster name = some c') (he : s.globalEpoch < c'.epoch) : TagNew s s' (some name) := by
  refine ⟨h, fun n hn c'' hc'' => ?_⟩
  cases hn
  rw [hf] at hc''; cases hc''; exact he

/-- generic fold of a retagging step -/
theorem foldl_retag {β : Type} (P : Option String → Prop) (f : Store → β → Store)
    (hf : ∀ s b, (f s b).globalEpoch = s.globalEpoch ∧ (f s b).clusters = s.clusters ∧
      RetagL P s.proxies (f s b).proxies) (l : List β) (s : Store) :
    (l.foldl f s).globalEpoch = s.globalEpoch ∧ (l.foldl f s).clusters = s.clusters ∧
      RetagL P s.proxies (l.foldl f s).proxies := by
  induction l generalizing s with
  | nil => exact ⟨rfl, rfl, RetagL.refl _ _⟩
  | cons b bs ih =>
    simp only [List.foldl_cons]
    obtain ⟨h1, h2, h3⟩ := ih (f s b)
    obtain ⟨g1, g2, g3⟩ := hf s b
    exact ⟨h1.trans g1, h2.trans g2, g3.trans h3⟩

/-! ## failures -/

theorem addFailure_ok (s : Store) (a r : String) (now : Int) : OpOk s (addFailure s a r now).1 := by
  unfold addFailure
  split
  · split
    · exact OpOk.refl s
    · exact OpOk.of_same rfl rfl (Nat.le_succ _)
  · exact OpOk.of_same rfl rfl (Nat.le_succ _)

/-! ## clusters -/

theorem addCluster_ok (s : Store) (name : String) (nodeNum : Nat) (cfg : Config)
    (choice : List (String × String)) : OpOk s (addCluster s name nodeNum cfg choice).1 := by
  unfold addCluster
  split; · exact OpOk.refl s
  split; · exact OpOk.refl s
  split; · exact OpOk.refl s
  rename_i hnf
  split; · exact OpOk.refl s
  simp only
  split; · exact OpOk.refl s
  split
  · rename_i s' h
    rw [R.bind_ok_iff] at h
    obtain ⟨arr, _, h⟩ := h
    rw [R.bind_ok_iff] at h
    obtain ⟨chunks, hchunks, h⟩ := h
    rw [R.bind_ok_iff] at h
    obtain ⟨s2, htag, h⟩ := h
    simp only [R.pure_eq, R.ok.injEq] at h
    subst h
    obtain ⟨hG, hcl, hre⟩ := tagProxies_ok (fun v => v = some name) name rfl _ _ _ htag
    have hnone : findC s.clusters name = none := by
      cases hx : s.findCluster name with
      | none => exact hx
      | some x => simp [hx] at hnf
    refine OpOk.of_clStep (by simp [hG]) ?_ (fun v => v = some name) hre ?_
    · simp only [hcl, bump_clusters, hG, bump_globalEpoch]
      exact ClStep.add _ hnone ⟨Nat.lt_succ_self _, Nat.le_refl _, proxyResourceToChunkStore_le _ _ _ _ hchunks⟩
    · rintro _ v rfl
      refine tagNew_some (c' := { epoch := s.globalEpoch + 1, name := name, chunks := chunks, config := cfg })
        (by simp [hG]) ?_ (Nat.lt_succ_self _)
      show findC (s2.clusters ++ [_]) name = _
      rw [hcl, bump_clusters, findC_append, hnone]
      simp
  all_goals exact OpOk.refl s

theorem removeCluster_ok (s : Store) (name : String) : OpOk s (removeCluster s name).1 := by
  unfold removeCluster
  split; · exact OpOk.refl s
  split
  · exact OpOk.refl s
  · rename_i cl hcl
    simp only
    obtain ⟨hG, hc, hre⟩ := foldl_retag (fun v => v = none) (fun s a => s.setProxyCluster a none)
      (fun s b => ⟨rfl, rfl, retagL_setProxyCluster (fun v => v = none) s b none rfl⟩) cl.proxyAddrs
      { s with clusters := s.clusters.filter (·.name != name) }
    refine OpOk.of_clStep (by simp [hG]) ?_ (fun v => v = none) hre ?_
    · simp only [bump_clusters, hc, bump_globalEpoch, hG]
      exact ClStep.del name (Nat.lt_succ_self _)
    · rintro _ v rfl
      exact tagNew_none (by simp [hG])

theorem autoAddNodes_ok (s : Store) (name : String) (num : Nat) (choice : List (String × String)) :
    OpOk s (autoAddNodes s name num choice).1 := by
  unfold autoAddNodes
  split; · exact OpOk.refl s
  split
  · exact OpOk.refl s
  · rename_i cl hcl
    split; · exact OpOk.refl s
    split; · exact OpOk.refl s
    simp only
    split; · exact OpOk.refl s
    split
    · rename_i s' h
      rw [R.bind_ok_iff] at h
      obtain ⟨arr, _, h⟩ := h
      rw [R.bind_ok_iff] at h
      obtain ⟨chunks, hchunks, h⟩ := h
      obtain ⟨hG, hc, hre⟩ := tagProxies_ok (fun v => v = some name) name rfl _ _ _ h
      have hname : cl.name = name := (findC_some hcl).2
      have hfind : findC s.clusters
          ({ cl with chunks := cl.chunks ++ chunks, epoch := s.bump.globalEpoch } : Cluster).name = some cl := by
        show findC s.clusters cl.name = some cl
        rw [hname]; exact hcl
      refine OpOk.of_clStep (by simp [hG]) ?_ (fun v => v = some name) hre ?_
      · simp only [hc, hG, setCluster_clusters, setCluster_globalEpoch, bump_clusters, bump_globalEpoch]
        refine ClStep.set cl _ hfind fun hok => ⟨Nat.lt_succ_self _, Nat.le_refl _, ?_⟩
        exact (hok.2.mono (Nat.le_succ_of_le hok.1)).append (proxyResourceToChunkStore_le _ _ _ _ hchunks)
      · rintro _ v rfl
        have hf' : s'.findCluster name = some
            ({ cl with chunks := cl.chunks ++ chunks, epoch := s.bump.globalEpoch } : Cluster) := by
          rw [findCluster_eq, hc, setCluster_clusters, bump_clusters, ← hname]
          exact findC_replace_same hfind
        exact tagNew_some (by simp [hG]) hf' (Nat.lt_succ_self s.globalEpoch)
    all_goals exact OpOk.refl s

theorem autoScaleUpNodes_ok (s : Store) (name : String) (expected : Nat) (choice : List (String × String)) :
    OpOk s (autoScaleUpNodes s name expected choice).1 := by
  unfold autoScaleUpNodes
  split; · exact OpOk.refl s
  split
  · exact OpOk.refl s
  · simp only
    split
    · exact OpOk.refl s
    · exact autoAddNodes_ok ..

theorem autoDeleteFreeNodes_ok (s : Store) (name : String) : OpOk s (autoDeleteFreeNodes s name).1 := by
  unfold autoDeleteFreeNodes
  split; · exact OpOk.refl s
  simp only
  split
  · exact OpOk.refl s
  · rename_i cl hcl
    split; · exact OpOk.refl s
    split; · exact OpOk.refl s
    obtain ⟨hG, hc, hre⟩ := foldl_retag (fun v => v = none)
      (fun s (ch : Chunk) => (s.setProxyCluster ch.proxy0 none).setProxyCluster ch.proxy1 none)
      (fun s b => ⟨rfl, rfl, (retagL_setProxyCluster (fun v => v = none) s b.proxy0 none rfl).trans
        (retagL_setProxyCluster (fun v => v = none) _ b.proxy1 none rfl)⟩) (cl.chunks.filter Chunk.isFree)
      (s.setCluster { cl with chunks := cl.chunks.filter (fun c => !c.isFree), epoch := s.globalEpoch + 1 })
    have hname : cl.name = name := (findC_some hcl).2
    refine OpOk.of_clStep (by simp [hG]) ?_ (fun v => v = none) hre ?_
    · simp only [bump_clusters, hc, bump_globalEpoch, hG, setCluster_clusters, setCluster_globalEpoch]
      refine ClStep.set cl _ (by show findC s.clusters cl.name = some cl; rw [hname]; exact hcl)
        fun hok => ⟨Nat.lt_succ_self _, Nat.le_refl _, ?_⟩
      exact (hok.2.mono (Nat.le_succ_of_le hok.1)).filter _
    · rintro _ v rfl
      exact tagNew_none (by simp [hG])

theorem autoDeleteFreeNodesIfExists_fst (s : Store) (name : String) :
    (autoDeleteFreeNodesIfExists s name).1 = (autoDeleteFreeNodes s name).1 := by
  unfold autoDeleteFreeNodesIfExists
  split <;> first | rfl | simp_all

/-! ## migration -/

theorem migrateSlots_ok (s : Store) (name : String) : OpOk s (migrateSlots s name).1 := by
  unfold migrateSlots
  have hb : OpOk s s.bump := OpOk.of_same rfl rfl (Nat.le_succ _)
  split; · exact OpOk.refl s
  simp only
  split
  · exact hb
  · rename_i cl hcl
    split; · exact hb
    split; · exact hb
    split
    · rename_i chunks h
      rw [R.bind_ok_iff] at h
      obtain ⟨⟨c1, ms⟩, hrm, h⟩ := h
      have hname : cl.name = name := (findC_some hcl).2
      refine OpOk.of_clStep_noTag (Nat.le_succ _) ?_ rfl
      simp only [setCluster_clusters, setCluster_globalEpoch, bump_clusters, bump_globalEpoch]
      refine ClStep.set cl _ (by show findC s.clusters cl.name = some cl; rw [hname]; exact hcl)
        fun hok => ⟨Nat.lt_succ_self _, Nat.le_refl _, ?_⟩
      obtain ⟨h1, h2⟩ := removeSlotsFromSrc_le hrm hok.2
      exact plan_le h h1 h2 (Nat.le_succ_of_le hok.1)
    all_goals exact hb

theorem migrateSlotsToScaleDown_ok (s : Store) (name : String) (n : Nat) :
    OpOk s (migrateSlotsToScaleDown s name n).1 := by
  unfold migrateSlotsToScaleDown
  have hb : OpOk s s.bump := OpOk.of_same rfl rfl (Nat.le_succ _)
  split; · exact OpOk.refl s
  simp only
  split
  · exact hb
  · rename_i cl hcl
    split; · exact hb
    split; · exact hb
    split; · exact hb
    split
    · rename_i chunks h
      rw [R.bind_ok_iff] at h
      obtain ⟨⟨c1, ms⟩, hrm, h⟩ := h
      have hname : cl.name = name := (findC_some hcl).2
      refine OpOk.of_clStep_noTag (Nat.le_succ _) ?_ rfl
      simp only [setCluster_clusters, setCluster_globalEpoch, bump_clusters, bump_globalEpoch]
      refine ClStep.set cl _ (by show findC s.clusters cl.name = some cl; rw [hname]; exact hcl)
        fun hok => ⟨Nat.lt_succ_self _, Nat.le_refl _, ?_⟩
      obtain ⟨h1, h2⟩ := removeSlotsToScaleDown_le hrm hok.2
      exact plan_le h h1 h2 (Nat.le_succ_of_le hok.1)
    all_goals exact hb

theorem commitMigrationCore_ok (s : Store) (name : String) (ranges : RangeList) (taskEpoch : Nat)
    (tagNone : Bool) : OpOk s (commitMigrationCore s name ranges taskEpoch tagNone).1 := by
  unfold commitMigrationCore
  simp only
  split
  · exact OpOk.refl s
  · rename_i cl hcl
    split; · exact OpOk.refl s
    split
    · exact OpOk.refl s
    · split
      · exact OpOk.refl s
      · have hname : cl.name = name := (findC_some hcl).2
        refine OpOk.of_clStep_noTag (Nat.le_succ _) ?_ rfl
        simp only [setCluster_clusters, setCluster_globalEpoch, bump_clusters, bump_globalEpoch]
        refine ClStep.set cl _ (by show findC s.clusters cl.name = some cl; rw [hname]; exact hcl)
          fun hok => ⟨Nat.lt_succ_self _, Nat.le_refl _, ?_⟩
        exact commitChunks_le _ _ _ (hok.2.mono (Nat.le_succ_of_le hok.1))

theorem commitMigration_ok (s : Store) (name : String) (ranges : RangeList) (taskEpoch : Nat)
    (tagNone clear : Bool) : OpOk s (commitMigration s name ranges taskEpoch tagNone clear).1 := by
  unfold commitMigration
  have h1 := commitMigrationCore_ok s name ranges taskEpoch tagNone
  generalize commitMigrationCore s name ranges taskEpoch tagNone = r at h1 ⊢
  obtain ⟨s', r'⟩ := r
  split
  · rename_i s'' heq
    cases heq
    split
    · rw [autoDeleteFreeNodesIfExists_fst]
      exact h1.trans (autoDeleteFreeNodes_ok _ _)
    · exact h1
  · exact h1

/-! ## failover -/

theorem takeoverMaster_ok (s : Store) (name failed : String) : OpOk s (takeoverMaster s name failed).1 := by
  unfold takeoverMaster
  have hb : OpOk s s.bump := OpOk.of_same rfl rfl (Nat.le_succ _)
  simp only
  split
  · exact hb
  · rename_i cl hcl
    split
    · exact hb
    · rename_i chunks pos hto
      have hname : cl.name = name := (findC_some hcl).2
      refine OpOk.of_clStep_noTag (Nat.le_succ _) ?_ rfl
      simp only [setCluster_clusters, setCluster_globalEpoch, bump_clusters, bump_globalEpoch]
      refine ClStep.set cl _ (by show findC s.clusters cl.name = some cl; rw [hname]; exact hcl)
        fun hok => ⟨Nat.lt_succ_self _, Nat.le_refl _, ?_⟩
      exact bumpPeersChunks_le (takeoverFirst_le hto hok.2 (Nat.le_succ_of_le hok.1))

theorem replaceFailedProxy_ok (s : Store) (failedAddr choice : String) :
    OpOk s (replaceFailedProxy s failedAddr choice).1 := by
  unfold replaceFailedProxy
  split
  · exact OpOk.refl s
  · rename_i p hp
    split
    · exact OpOk.of_same rfl rfl (Nat.le_refl _)
    · rename_i name hname
      have h1 := takeoverMaster_ok s name failedAddr
      generalize takeoverMaster s name failedAddr = r at h1 ⊢
      obtain ⟨s1, r1⟩ := r
      simp only at h1
      cases r1 with
      | ok u =>
        cases u
        simp only
        split
        · -- ordered mode: takeover, a second bump, no replacement
          exact h1.trans (OpOk.of_same rfl rfl (Nat.le_succ _))
        generalize (if s1.failed.contains failedAddr = true then s1.failed else s1.failed ++ [failedAddr]) = fl
        have h2 : OpOk s1 { s1 with failed := fl } := OpOk.of_same rfl rfl (Nat.le_refl _)
        have h12 := h1.trans h2
        cases generateNewFreeProxy { s1 with failed := fl } failedAddr choice with
        | ok np =>
          simp only
          cases hcl : ({ s1 with failed := fl } : Store).bump.findCluster name with
          | none => exact h12.trans (OpOk.of_same rfl rfl (Nat.le_succ _))
          | some cl =>
            simp only
            refine h12.trans ?_
            have hcname : cl.name = name := (findC_some hcl).2
            have hfind : findC s1.clusters cl.name = some cl := by rw [hcname]; exact hcl
            refine OpOk.of_clStep (Nat.le_succ _) ?_ (fun v => v = none ∨ v = some name)
              ((retagL_setProxyCluster (fun v => v = none ∨ v = some name) _ failedAddr none (Or.inl rfl)).trans
                (retagL_setProxyCluster (fun v => v = none ∨ v = some name) _ np.addr (some name) (Or.inr rfl))) ?_
            · simp only [setProxyCluster_clusters, setCluster_clusters, bump_clusters,
                setProxyCluster_globalEpoch, setCluster_globalEpoch, bump_globalEpoch]
              refine ClStep.set cl _ hfind fun hok => ⟨Nat.lt_succ_self _, Nat.le_refl _, ?_⟩
              exact replaceInChunks_le (hok.2.mono (Nat.le_succ_of_le hok.1))
            · rintro _ v (rfl | rfl)
              · exact tagNew_none (Nat.lt_succ_self _)
              · have hf' : findC (s1.clusters.map (replaceC ({ cl with
                      chunks := replaceInChunks failedAddr np cl.chunks, epoch := s1.globalEpoch + 1 } : Cluster))) name
                    = some ({ cl with chunks := replaceInChunks failedAddr np cl.chunks,
                                      epoch := s1.globalEpoch + 1 } : Cluster) := by
                  rw [← hcname]
                  exact findC_replace_same hfind
                exact tagNew_some (Nat.lt_succ_self _) hf' (Nat.lt_succ_self s1.globalEpoch)
        | err e => exact h12
        | panic w => exact h12
        | badChoice w => exact h12
      | err e => exact h1
      | panic w => exact h1
      | badChoice w => exact h1

/-! ## roles, config -/

theorem balanceMasters_ok (s : Store) (name : String) : OpOk s (balanceMasters s name).1 := by
  unfold balanceMasters
  split; · exact OpOk.refl s
  simp only
  split
  · exact OpOk.refl s
  · rename_i cl hcl
    have hname : cl.name = name := (findC_some hcl).2
    refine OpOk.of_clStep_noTag (Nat.le_succ _) ?_ rfl
    simp only [setCluster_clusters, setCluster_globalEpoch, bump_clusters, bump_globalEpoch]
    refine ClStep.set cl _ (by show findC s.clusters cl.name = some cl; rw [hname]; exact hcl)
      fun hok => ⟨Nat.lt_succ_self _, Nat.le_refl _, ?_⟩
    refine (hok.2.mono (Nat.le_succ_of_le hok.1)).map _ fun ch hch => ?_
    split
    · exact hch
    · exact hch

theorem changeConfig_ok (s : Store) (name : String) (kvs : List (String × String)) :
    OpOk s (changeConfig s name kvs).1 := by
  unfold changeConfig
  split; · exact OpOk.refl s
  simp only
  split
  · exact OpOk.refl s
  · rename_i cl hcl
    split; · exact OpOk.refl s
    split
    · exact OpOk.refl s
    · have hname : cl.name = name := (findC_some hcl).2
      refine OpOk.of_clStep_noTag (Nat.le_succ _) ?_ rfl
      simp only [setCluster_clusters, setCluster_globalEpoch, bump_clusters, bump_globalEpoch]
      refine ClStep.set cl _ (by show findC s.clusters cl.name = some cl; rw [hname]; exact hcl)
        fun hok => ⟨Nat.lt_succ_self _, Nat.le_refl _, ?_⟩
      exact hok.2.mono (Nat.le_succ_of_le hok.1)

/-! ## node-number API -/

theorem autoChangeNodeNumber_ok (s : Store) (name : String) (expected : Nat)
    (choice : List (String × String)) : OpOk s (autoChangeNodeNumber s name expected choice).1 := by
  unfold autoChangeNodeNumber
  split; · exact OpOk.refl s
  split
  · exact OpOk.refl s
  · split; · exact OpOk.refl s
    have h1 := autoDeleteFreeNodes_ok s name
    generalize autoDeleteFreeNodes s name = r at h1 ⊢
    obtain ⟨s1, r1⟩ := r
    simp only at h1 ⊢
    have hup := autoScaleUpNodes_ok s1 name expected choice
    have hdn := migrateSlotsToScaleDown_ok s1 name expected
    generalize autoScaleUpNodes s1 name expected choice = ru at hup ⊢
    generalize migrateSlotsToScaleDown s1 name expected = rd at hdn ⊢
    obtain ⟨su, ru'⟩ := ru
    obtain ⟨sd, rd'⟩ := rd
    simp only at hup hdn
    repeat' split
    all_goals (try simp_all)
    all_goals first | exact h1 | exact h1.trans hup | exact h1.trans hdn

theorem autoScaleOutNodeNumber_ok (s : Store) (name : String) (expected : Nat) :
    OpOk s (autoScaleOutNodeNumber s name expected).1 := by
  unfold autoScaleOutNodeNumber
  split; · exact OpOk.refl s
  split
  · exact OpOk.refl s
  · split
    · exact migrateSlots_ok s name
    · exact OpOk.refl s

/-! ## epoch maintenance -/

theorem forceBumpAllEpoch_ok (s : Store) (e : Nat) : OpOk s (forceBumpAllEpoch s e).1 := by
  unfold forceBumpAllEpoch
  split
  · exact OpOk.refl s
  · rename_i h
    exact OpOk.of_clStep_noTag (by simp only; omega) (ClStep.all e (by omega) (Nat.le_refl _)) rfl

theorem recoverEpoch_ok (s : Store) (x : Nat) : OpOk s (recoverEpoch s x) := by
  unfold recoverEpoch
  exact OpOk.of_clStep_noTag (by simp only; omega) (ClStep.all _ (by omega) (Nat.le_refl _)) rfl

end Um.Broker.Epoch
