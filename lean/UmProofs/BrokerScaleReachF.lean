import UmProofs.BrokerScaleReachE
import UmProofs.BrokerResPlanner
/-!
# C10 over reachable states (part F): the planner operations never panic on boundedly reachable
stores (closing the hypothesis `PlannerPre` of C12's `C12_no_panic_planner_partial`)
-/
namespace Um.Broker.Scale
open Um Um.Slots Um.Broker Um.Broker.Plan

theorem migrateSlots_noPanicB {s : Store} (hs : ReachableB s) (name : String) :
    (migrateSlots s name).2.NoPanic :=
  migrateSlots_no_panic' s name (fun _ hc => reachable_migPre hs (Store.findCluster_mem hc))

theorem autoScaleOutNodeNumber_noPanicB {s : Store} (hs : ReachableB s) (name : String) (k : Nat) :
    (autoScaleOutNodeNumber s name k).2.NoPanic :=
  autoScaleOutNodeNumber_noPanic s name k (fun _ hc => reachable_migPre hs (Store.findCluster_mem hc))

open Mig in
theorem migrateSlotsToScaleDown_noPanicB {s : Store} (hs : ReachableB s) (name : String) (newNodeNum : Nat) :
    (migrateSlotsToScaleDown s name newNodeNum).2.NoPanic := by
  intro w
  unfold migrateSlotsToScaleDown
  split
  · simp
  · simp only [Store.findCluster_bump]
    split
    · simp
    · rename_i cl hcl
      split
      · simp
      · rename_i hany
        split
        · simp
        · rename_i hidle
          split
          · simp
          · rename_i hnn
            simp only [Bool.or_eq_true, beq_iff_eq, bne_iff_ne, decide_eq_true_eq, not_or] at hnn
            have hpre : DownPre cl (newNodeNum / 4) :=
              reachable_downPre_planner hs (Store.findCluster_mem hcl) (by simpa using hany) (by simpa using hidle)
                (by omega)
            obtain ⟨r, hr, _⟩ := planDown_ok cl s.bump.globalEpoch (newNodeNum / 4) (by omega) (by omega) hpre
            rw [hr]
            simp

theorem step_delFree (s : Store) (name : String) : step s (.delFree name) = (autoDeleteFreeNodes s name).1 := by
  unfold step stepFull
  rcases autoDeleteFreeNodes_not_ok (s := s) (name := name) with ⟨s', h⟩ | ⟨e, h⟩
  · simp only [h]; rfl
  · simp only [h]; rfl

theorem reachableB_autoDeleteFreeNodes {s : Store} (hs : ReachableB s) (name : String) :
    ReachableB (autoDeleteFreeNodes s name).1 := by
  rw [← step_delFree]
  exact ReachableB.step _ hs (by rw [step_delFree]; exact planBound_autoDeleteFreeNodes hs.bound name)

theorem autoChangeNodeNumber_noPanicB {s : Store} (hs : ReachableB s) (name : String) (k : Nat)
    (choice : List (String × String)) : (autoChangeNodeNumber s name k choice).2.NoPanic := by
  by_cases hv : validName name = true
  · cases hf : s.findCluster name with
    | none => intro w; unfold autoChangeNodeNumber; simp [hv, hf]
    | some cl =>
      cases hm : cl.isMigrating with
      | true => intro w; unfold autoChangeNodeNumber; simp [hv, hf, hm]
      | false =>
        apply autoChangeNodeNumber_noPanic (rx_reachable s hs.reachable)
        intro c hc hk
        have hs1 := reachableB_autoDeleteFreeNodes hs name
        have hmem := Store.findCluster_mem hc
        -- the cluster after the release: idle, no slot-less half
        have hcl_mem := Store.findCluster_mem hf
        have hm0 := migs_nil_of_idle hm
        obtain ⟨N, hN, _, hshape⟩ := balanced_of_sinv (allS_reachableB s hs cl hcl_mem) hm0 (hs.bound cl hcl_mem)
        have hfacts : c.isMigrating = false ∧
            c.chunks.any (fun ch => ch.stable0.isNone || ch.stable1.isNone) = false := by
          rcases autoDeleteFreeNodes_not_ok (s := s) (name := name) with ⟨s', hok⟩ | ⟨e, herr⟩
          · obtain ⟨cl2, hrel⟩ := autoDeleteFreeNodes_ok hok
            have : cl2 = cl := by
              have := hrel.found; rw [hf] at this; exact (Option.some.inj this).symm
            subst this
            rw [hok] at hc
            rw [hrel.findCluster] at hc
            cases hc
            obtain ⟨A, hfil, _, hfull, _⟩ := release_balanced hshape hN hm0 (s.globalEpoch + 1)
            refine ⟨(Cluster.isMigrating_eq_false_iff _).mpr (migs_filter_idle hm0 _ _), ?_⟩
            show (cl2.chunks.filter fun c => !c.isFree).any _ = false
            rw [hfil]; exact full_any_none _ A 0 hfull
          · rw [herr] at hc
            rw [hf] at hc
            cases hc
            refine ⟨hm, ?_⟩
            -- no free chunk was found, so there is no trailing empty chunk
            obtain ⟨A, B, hch, hA, hfull, hempty⟩ := hshape
            have hB : B = [] := by
              cases B with
              | nil => rfl
              | cons b B =>
                exfalso
                have hbm : b ∈ cl.chunks := by rw [hch]; simp
                obtain ⟨e0, e1⟩ := hempty b (by simp)
                obtain ⟨m0, m1⟩ := noMigs_of_idle hm0 b hbm
                have hfree : b.isFree = true := (Chunk.isFree_iff b).mpr ⟨e0, e1, m0, m1⟩
                unfold autoDeleteFreeNodes at herr
                simp only [hv, Bool.not_true, Bool.false_eq_true, if_false, hf, hm] at herr
                have hne : (cl.chunks.filter Chunk.isFree).isEmpty = false := by
                  cases hfl : cl.chunks.filter Chunk.isFree with
                  | nil =>
                    have : b ∈ cl.chunks.filter Chunk.isFree := List.mem_filter.mpr ⟨hbm, hfree⟩
                    rw [hfl] at this; cases this
                  | cons _ _ => rfl
                simp [hne] at herr
            subst hB
            rw [hch, List.append_nil]
            exact full_any_none _ A 0 hfull
        exact reachable_downPre_planner hs1 hmem hfacts.2 hfacts.1 (by omega)
  · intro w; unfold autoChangeNodeNumber; simp [hv]

/-- **the four planner operations never panic on a boundedly reachable store** -/
theorem planner_noPanicB {s : Store} (hs : ReachableB s) :
    (∀ n, (stepFull s (.migrate n)).2 ≠ .panic) ∧
    (∀ n k, (stepFull s (.scaleOutNum n k)).2 ≠ .panic) ∧
    (∀ n k, (stepFull s (.scaleDown n k)).2 ≠ .panic) ∧
    (∀ n k c, (stepFull s (.changeNum n k c)).2 ≠ .panic) :=
  ⟨fun n => Outcome.ofR_ne_panic (migrateSlots_noPanicB hs n),
   fun n k => Outcome.ofR_ne_panic (autoScaleOutNodeNumber_noPanicB hs n k),
   fun n k => Outcome.ofR_ne_panic (migrateSlotsToScaleDown_noPanicB hs n k),
   fun n k c => Outcome.ofR_ne_panic (autoChangeNodeNumber_noPanicB hs n k c)⟩

end Um.Broker.Scale
