import UmModel.RespStream
import UmProofs.RespEncode
/-!
# C15 — the buffer machine and the hint machine do not depend on how the bytes arrive
-/
namespace Um.Resp
open Um

/-! ## `drain` -/

theorem drain_none {s : Bool} {b : Bytes} (h : decodeIndexed s b = .none) : drain s b = ([], some b) := by
  rw [drain]; simp only [h]

theorem drain_invalid {s : Bool} {b : Bytes} (h : decodeIndexed s b = .invalid) : drain s b = ([.invalid], none) := by
  rw [drain]; simp only [h]

theorem drain_panic {s : Bool} {b : Bytes} (h : decodeIndexed s b = .panic) : drain s b = ([.panic], none) := by
  rw [drain]; simp only [h]

theorem drain_item {s : Bool} {b : Bytes} {p : IndexedResp} {rest : Bytes} (h : decodeIndexed s b = .item p rest) :
    drain s b = (.pkt p :: (drain s rest).1, (drain s rest).2) := by
  rw [drain]; simp only [h, decodeIndexed_item_lt h, if_true]

/-- decoding `b`, then the left-over with `x` appended = decoding `b ++ x` -/
theorem drain_append (s : Bool) (x : Bytes) : ∀ (n : Nat) (b : Bytes), b.length = n →
    (∀ left, (drain s b).2 = some left →
      drain s (b ++ x) = ((drain s b).1 ++ (drain s (left ++ x)).1, (drain s (left ++ x)).2)) ∧
    ((drain s b).2 = none → drain s (b ++ x) = drain s b) := by
  intro n
  induction n using Nat.strongRecOn with
  | _ n ih =>
    intro b hn
    obtain ⟨hi, hinv, hpan⟩ := decodeIndexed_ext (s := s) (b := b) x
    cases hd : decodeIndexed s b with
    | none =>
      rw [drain_none hd]
      constructor
      · intro left hl; simp only [Option.some.injEq] at hl; subst hl; simp
      · intro hl; simp at hl
    | invalid =>
      rw [drain_invalid hd, drain_invalid (hinv hd)]
      constructor
      · intro left hl; simp at hl
      · intro _; rfl
    | panic =>
      rw [drain_panic hd, drain_panic (hpan hd)]
      constructor
      · intro left hl; simp at hl
      · intro _; rfl
    | item p rest =>
      have hlt := decodeIndexed_item_lt hd
      rw [drain_item hd, drain_item (hi p rest hd)]
      obtain ⟨ih1, ih2⟩ := ih rest.length (by omega) rest rfl
      constructor
      · intro left hl
        simp only at hl
        rw [ih1 left hl]
        simp
      · intro hl
        simp only at hl
        rw [ih2 hl]

/-- what `drain` leaves behind holds no complete packet -/
theorem drain_left_drained (s : Bool) : ∀ (n : Nat) (b : Bytes), b.length = n → ∀ left,
    (drain s b).2 = some left → decodeIndexed s left = .none := by
  intro n
  induction n using Nat.strongRecOn with
  | _ n ih =>
    intro b hn left hl
    cases hd : decodeIndexed s b with
    | none => rw [drain_none hd] at hl; simp only [Option.some.injEq] at hl; subst hl; exact hd
    | invalid => rw [drain_invalid hd] at hl; simp at hl
    | panic => rw [drain_panic hd] at hl; simp at hl
    | item p rest =>
      have hlt := decodeIndexed_item_lt hd
      rw [drain_item hd] at hl
      exact ih rest.length (by omega) rest rfl left hl

/-- raw bytes of the packets handed out -/
def rawOf : List Ev → Bytes
  | [] => []
  | .pkt p :: es => p.data ++ rawOf es
  | _ :: es => rawOf es

theorem rawOf_append (a b : List Ev) : rawOf (a ++ b) = rawOf a ++ rawOf b := by
  induction a with
  | nil => rfl
  | cons e es ih => cases e <;> simp [rawOf, ih]

/-- nothing is lost, nothing is altered: packets ++ left-over = the bytes read; after an error
the packets are a prefix of the bytes read -/
theorem drain_forward (s : Bool) : ∀ (n : Nat) (b : Bytes), b.length = n →
    (∀ left, (drain s b).2 = some left → rawOf (drain s b).1 ++ left = b) ∧
    ((drain s b).2 = none → ∃ tail, rawOf (drain s b).1 ++ tail = b) := by
  intro n
  induction n using Nat.strongRecOn with
  | _ n ih =>
    intro b hn
    cases hd : decodeIndexed s b with
    | none =>
      rw [drain_none hd]
      exact ⟨by intro left hl; simp only [Option.some.injEq] at hl; subst hl; rfl, by intro hl; simp at hl⟩
    | invalid => rw [drain_invalid hd]; exact ⟨by intro left hl; simp at hl, fun _ => ⟨b, rfl⟩⟩
    | panic => rw [drain_panic hd]; exact ⟨by intro left hl; simp at hl, fun _ => ⟨b, rfl⟩⟩
    | item p rest =>
      have hlt := decodeIndexed_item_lt hd
      obtain ⟨hcat, _⟩ := decodeIndexed_sound hd
      rw [drain_item hd]
      obtain ⟨ih1, ih2⟩ := ih rest.length (by omega) rest rfl
      constructor
      · intro left hl
        simp only [rawOf, List.append_assoc]
        rw [ih1 left hl, hcat]
      · intro hl
        obtain ⟨tail, ht⟩ := ih2 hl
        refine ⟨tail, ?_⟩
        simp only [rawOf, List.append_assoc]
        rw [ht, hcat]

/-- every packet handed out resolves to a value whose accepted spelling is exactly its bytes -/
def EvOk (s : Bool) : Ev → Prop
  | .pkt p => ∃ v, toRespVec p.data p.resp = some v ∧ Accepts s v p.data ∧ NestOk 0 v
  | _ => True

theorem drain_events_ok (s : Bool) : ∀ (n : Nat) (b : Bytes), b.length = n → ∀ e ∈ (drain s b).1, EvOk s e := by
  intro n
  induction n using Nat.strongRecOn with
  | _ n ih =>
    intro b hn e he
    cases hd : decodeIndexed s b with
    | none => rw [drain_none hd] at he; simp at he
    | invalid => rw [drain_invalid hd] at he; simp at he; subst he; trivial
    | panic => rw [drain_panic hd] at he; simp at he; subst he; trivial
    | item p rest =>
      have hlt := decodeIndexed_item_lt hd
      rw [drain_item hd] at he
      simp only [List.mem_cons] at he
      cases he with
      | inl h => subst h; exact (decodeIndexed_sound hd).2
      | inr h => exact ih rest.length (by omega) rest rfl e h

/-- a panic event can only come from a decode call that panics -/
theorem drain_no_panic (s : Bool) (hnp : ∀ b, decodeIndexed s b ≠ .panic) : ∀ (n : Nat) (b : Bytes), b.length = n →
    ∀ e ∈ (drain s b).1, ∀ (h : e = Ev.panic), False := by
  intro n
  induction n using Nat.strongRecOn with
  | _ n ih =>
    intro b hn e he heq
    subst heq
    cases hd : decodeIndexed s b with
    | none => rw [drain_none hd] at he; simp at he
    | invalid => rw [drain_invalid hd] at he; simp at he
    | panic => exact hnp b hd
    | item p rest =>
      have hlt := decodeIndexed_item_lt hd
      rw [drain_item hd] at he
      simp only [List.mem_cons] at he
      cases he with
      | inl h => cases h
      | inr h => exact ih rest.length (by omega) rest rfl _ h rfl

/-! ## `run`: reads in any chunking -/

theorem run_none (s : Bool) (cs : List Bytes) : run s none cs = ([], none) := by
  induction cs with
  | nil => rfl
  | cons c cs ih => simp [run, feed, ih]

/-- from a drained buffer, reading `cs` chunk by chunk = one decode loop over everything -/
theorem run_eq_drain (s : Bool) : ∀ (cs : List Bytes) (buf : Bytes), decodeIndexed s buf = .none →
    run s (some buf) cs = drain s (buf ++ cs.flatten) := by
  intro cs
  induction cs with
  | nil => intro buf h; simp [run, drain_none h]
  | cons c cs ih =>
    intro buf h
    simp only [run, feed, List.flatten_cons]
    obtain ⟨h1, h2⟩ := drain_append s cs.flatten _ (buf ++ c) rfl
    rw [← List.append_assoc]
    cases hl : (drain s (buf ++ c)).2 with
    | none =>
      rw [run_none, h2 hl]
      simp only [List.append_nil]
      rw [← hl]
    | some left =>
      have hdr := drain_left_drained s _ (buf ++ c) rfl left hl
      rw [ih left hdr, h1 left hl]

/-! ## the hint machine -/

/-- `n` packets in a row from `b`: the values and what is left -/
def takeN (s : Bool) : Nat → Bytes → Option (List Resp × Bytes)
  | 0, b => some ([], b)
  | n + 1, b =>
    match decodeVec s b with
    | .item v rest =>
      match takeN s n rest with
      | some (vs, b') => some (v :: vs, b')
      | none => none
    | _ => none

theorem decodeVec_item_lt {s : Bool} {b : Bytes} {v : Resp} {rest : Bytes} (h : decodeVec s b = .item v rest) :
    rest.length < b.length := by
  unfold decodeVec at h
  cases hd : decodeIndexed s b with
  | item p r =>
    rw [hd] at h
    simp only at h
    split at h
    · simp only [Dec.item.injEq] at h; obtain ⟨_, h2⟩ := h; subst h2; exact decodeIndexed_item_lt hd
    · simp at h
  | none => rw [hd] at h; simp at h
  | invalid => rw [hd] at h; simp at h
  | panic => rw [hd] at h; simp at h

theorem decodeVec_ext {s : Bool} {b : Bytes} (x : Bytes) :
    (∀ v rest, decodeVec s b = .item v rest → decodeVec s (b ++ x) = .item v (rest ++ x)) ∧
    (decodeVec s b = .invalid → decodeVec s (b ++ x) = .invalid) ∧
    (decodeVec s b = .panic → decodeVec s (b ++ x) = .panic) := by
  obtain ⟨hi, hinv, hpan⟩ := decodeIndexed_ext (s := s) (b := b) x
  obtain ⟨e1, e2, e3, e4⟩ := decodeVec_eq s b
  obtain ⟨f1, f2, f3, f4⟩ := decodeVec_eq s (b ++ x)
  cases hd : decodeIndexed s b with
  | item p r =>
    obtain ⟨v, hv, hdv⟩ := e1 p r hd
    obtain ⟨v', hv', hdv'⟩ := f1 p (r ++ x) (hi p r hd)
    rw [hv] at hv'; simp only [Option.some.injEq] at hv'; subst hv'
    rw [hdv, hdv']
    exact ⟨by intro v2 rest h; simp only [Dec.item.injEq] at h; obtain ⟨h1, h2⟩ := h; subst h1 h2; rfl,
      by intro h; simp at h, by intro h; simp at h⟩
  | none =>
    rw [e2 hd]
    exact ⟨by intro v rest h; simp at h, by intro h; simp at h, by intro h; simp at h⟩
  | invalid =>
    rw [e3 hd, f3 (hinv hd)]
    exact ⟨by intro v rest h; simp at h, fun _ => rfl, by intro h; simp at h⟩
  | panic =>
    rw [e4 hd, f4 (hpan hd)]
    exact ⟨by intro v rest h; simp at h, by intro h; simp at h, fun _ => rfl⟩

/-- the loop with all `k` missing replies present: they are returned in order, after the ones
already buffered, and exactly their bytes are taken -/
theorem hmLoop_multi_complete (s : Bool) (n : Nat) : ∀ (k : Nat) (m : HM) (b : Bytes) (vs : List Resp) (b' : Bytes),
    1 ≤ k → m.pbuf.length + k = n → takeN s k b = some (vs, b') →
    hmLoop s (.multi n) m b = ({ m with currHint := none, pbuf := [] }, b', .multi (m.pbuf ++ vs)) := by
  intro k
  induction k with
  | zero => intro m b vs b' h; omega
  | succ k ih =>
    intro m b vs b' _ hlen ht
    simp only [takeN] at ht
    cases hd : decodeVec s b with
    | none => simp [hd] at ht
    | invalid => simp [hd] at ht
    | panic => simp [hd] at ht
    | item v rest =>
      simp only [hd] at ht
      cases htk : takeN s k rest with
      | none => simp [htk] at ht
      | some pr =>
        obtain ⟨vs', b''⟩ := pr
        simp only [htk, Option.some.injEq, Prod.mk.injEq] at ht
        obtain ⟨h1, h2⟩ := ht
        subst h1 h2
        rw [hmLoop]
        simp only [hd]
        by_cases hk : k = 0
        · subst hk
          simp only [takeN, Option.some.injEq, Prod.mk.injEq] at htk
          obtain ⟨h1, h2⟩ := htk
          subst h1 h2
          have : n = (m.pbuf ++ [v]).length := by simp; omega
          simp [this]
        · have hne : ¬ (n = (m.pbuf ++ [v]).length) := by simp; omega
          simp only [hne, if_false, decodeVec_item_lt hd, if_true]
          rw [ih { m with pbuf := m.pbuf ++ [v] } rest vs' b'' (by omega) (by simp; omega) htk]
          simp

/-- an unfinished loop, continued after more bytes arrived = the loop over all the bytes -/
theorem hmLoop_resume (s : Bool) (h : Hint) (x : Bytes) : ∀ (n : Nat) (m : HM) (b : Bytes), b.length = n →
    ∀ m1 b1, hmLoop s h m b = (m1, b1, .none) → hmLoop s h m1 (b1 ++ x) = hmLoop s h m (b ++ x) := by
  intro n
  induction n using Nat.strongRecOn with
  | _ n ih =>
    intro m b hn m1 b1 hl
    obtain ⟨hi, hinv, hpan⟩ := decodeVec_ext (s := s) (b := b) x
    rw [hmLoop] at hl
    cases hd : decodeVec s b with
    | none =>
      simp only [hd, Prod.mk.injEq, and_true] at hl
      obtain ⟨h1, h2⟩ := hl; subst h1 h2; rfl
    | invalid => simp [hd] at hl
    | panic => simp [hd] at hl
    | item v rest =>
      simp only [hd] at hl
      have hlt := decodeVec_item_lt hd
      cases h with
      | single => simp at hl
      | multi k =>
        simp only at hl
        by_cases hk : k = (m.pbuf ++ [v]).length
        · simp [hk] at hl
        · simp only [hk, if_false, hlt, if_true] at hl
          have hlt' : (rest ++ x).length < (b ++ x).length := by simp; omega
          conv => rhs; rw [hmLoop]
          simp only [hi v rest hd, hk, if_false, hlt', if_true]
          exact ih rest.length (by omega) _ rest rfl m1 b1 hl

/-- a finished loop (reply delivered, or protocol error) is not affected by later bytes -/
theorem hmLoop_done_ext (s : Bool) (h : Hint) (x : Bytes) : ∀ (n : Nat) (m : HM) (b : Bytes), b.length = n →
    ∀ m1 b1 o, hmLoop s h m b = (m1, b1, o) → o ≠ .none → hmLoop s h m (b ++ x) = (m1, b1 ++ x, o) := by
  intro n
  induction n using Nat.strongRecOn with
  | _ n ih =>
    intro m b hn m1 b1 o hl ho
    obtain ⟨hi, hinv, hpan⟩ := decodeVec_ext (s := s) (b := b) x
    rw [hmLoop] at hl
    rw [hmLoop]
    cases hd : decodeVec s b with
    | none =>
      simp only [hd, Prod.mk.injEq] at hl
      exact absurd hl.2.2.symm ho
    | invalid =>
      simp only [hd, Prod.mk.injEq] at hl
      obtain ⟨h1, h2, h3⟩ := hl; subst h1 h2 h3
      simp only [hinv hd]
    | panic =>
      simp only [hd, Prod.mk.injEq] at hl
      obtain ⟨h1, h2, h3⟩ := hl; subst h1 h2 h3
      simp only [hpan hd]
    | item v rest =>
      simp only [hd] at hl
      simp only [hi v rest hd]
      have hlt := decodeVec_item_lt hd
      cases h with
      | single =>
        simp only [Prod.mk.injEq] at hl
        obtain ⟨h1, h2, h3⟩ := hl; subst h1 h2 h3
        rfl
      | multi k =>
        simp only at hl ⊢
        by_cases hk : k = (m.pbuf ++ [v]).length
        · simp only [hk, if_true, Prod.mk.injEq] at hl ⊢
          obtain ⟨h1, h2, h3⟩ := hl; subst h1 h2 h3
          simp
        · have hlt' : (rest ++ x).length < (b ++ x).length := by simp; omega
          simp only [hk, if_false, hlt, hlt', if_true] at hl ⊢
          exact ih rest.length (by omega) _ rest rfl m1 b1 o hl ho

/-- shape of an unfinished loop: hint and shared word untouched, the buffer left holds no
complete packet (so calling the loop again on it changes nothing) -/
theorem hmLoop_none_shape (s : Bool) (h : Hint) : ∀ (n : Nat) (m : HM) (b : Bytes), b.length = n →
    ∀ m1 b1, hmLoop s h m b = (m1, b1, .none) →
      m1.currHint = m.currHint ∧ m1.shared = m.shared ∧ decodeVec s b1 = .none := by
  intro n
  induction n using Nat.strongRecOn with
  | _ n ih =>
    intro m b hn m1 b1 hl
    rw [hmLoop] at hl
    cases hd : decodeVec s b with
    | none =>
      simp only [hd, Prod.mk.injEq, and_true] at hl
      obtain ⟨h1, h2⟩ := hl; subst h1 h2; exact ⟨rfl, rfl, hd⟩
    | invalid => simp [hd] at hl
    | panic => simp [hd] at hl
    | item v rest =>
      simp only [hd] at hl
      have hlt := decodeVec_item_lt hd
      cases h with
      | single => simp at hl
      | multi k =>
        simp only at hl
        by_cases hk : k = (m.pbuf ++ [v]).length
        · simp [hk] at hl
        · simp only [hk, if_false, hlt, if_true] at hl
          exact ih rest.length (by omega) { m with pbuf := m.pbuf ++ [v] } rest rfl m1 b1 hl

theorem hmLoop_fixpoint {s : Bool} {h : Hint} {m : HM} {b : Bytes} (hd : decodeVec s b = .none) :
    hmLoop s h m b = (m, b, .none) := by
  rw [hmLoop]; simp only [hd]

/-- shape of a finished loop: the hint is cleared when a reply is delivered -/
theorem hmLoop_delivered_shape (s : Bool) (h : Hint) : ∀ (n : Nat) (m : HM) (b : Bytes), b.length = n →
    ∀ m1 b1 o, hmLoop s h m b = (m1, b1, o) → (∃ v, o = .single v) ∨ (∃ vs, o = .multi vs) →
      m1.currHint = none ∧ m1.shared = m.shared := by
  intro n
  induction n using Nat.strongRecOn with
  | _ n ih =>
    intro m b hn m1 b1 o hl ho
    rw [hmLoop] at hl
    cases hd : decodeVec s b with
    | none =>
      simp only [hd, Prod.mk.injEq] at hl
      obtain ⟨_, _, h3⟩ := hl; subst h3
      rcases ho with ⟨v, hv⟩ | ⟨vs, hv⟩ <;> simp at hv
    | invalid =>
      simp only [hd, Prod.mk.injEq] at hl
      obtain ⟨_, _, h3⟩ := hl; subst h3
      rcases ho with ⟨v, hv⟩ | ⟨vs, hv⟩ <;> simp at hv
    | panic =>
      simp only [hd, Prod.mk.injEq] at hl
      obtain ⟨_, _, h3⟩ := hl; subst h3
      rcases ho with ⟨v, hv⟩ | ⟨vs, hv⟩ <;> simp at hv
    | item v rest =>
      simp only [hd] at hl
      have hlt := decodeVec_item_lt hd
      cases h with
      | single =>
        simp only [Prod.mk.injEq] at hl
        obtain ⟨h1, _, _⟩ := hl; subst h1; exact ⟨rfl, rfl⟩
      | multi k =>
        simp only at hl
        by_cases hk : k = (m.pbuf ++ [v]).length
        · simp only [hk, if_true, Prod.mk.injEq] at hl
          obtain ⟨h1, _, _⟩ := hl; subst h1; exact ⟨rfl, rfl⟩
        · simp only [hk, if_false, hlt, if_true] at hl
          exact ih rest.length (by omega) { m with pbuf := m.pbuf ++ [v] } rest rfl m1 b1 o hl ho

/-! ## `HM.decode` and `hmRun` -/

/-- in the idle state (no hint pending, none being served) `decode` answers `Ok(None)` and
touches nothing -/
theorem HM.decode_idle (s : Bool) (m : HM) (buf : Bytes) (h1 : m.currHint = none) (h2 : m.shared = 0) :
    m.decode s buf = (m, buf, .none) := by
  unfold HM.decode HM.consume
  simp only [h1, h2]
  cases m
  simp_all

theorem hmRun_idle (s : Bool) (m : HM) (h1 : m.currHint = none) (h2 : m.shared = 0) :
    ∀ (cs : List Bytes) (buf : Bytes), hmRun s m (some buf) cs = ([], m, some (buf ++ cs.flatten)) := by
  intro cs
  induction cs with
  | nil => intro buf; simp [hmRun]
  | cons c cs ih =>
    intro buf
    simp only [hmRun, HM.decode_idle s m (buf ++ c) h1 h2, List.flatten_cons]
    rw [ih]; simp

/-- while a hint is being served, `decode` is the loop -/
theorem HM.decode_active (s : Bool) (m : HM) (buf : Bytes) (h : Hint) (h1 : m.currHint = some h)
    (h0 : h ≠ .multi 0) : m.decode s buf = hmLoop s h m buf := by
  unfold HM.decode
  simp only [h1, h0, if_false]

/-- the result of the whole run, read off the loop's result -/
def hmFinish : HM × Bytes × HOut → List HOut × HM × Option Bytes
  | (m, b, .none) => ([], m, some b)
  | (m, _, .invalid) => ([.invalid], m, none)
  | (m, _, .panic) => ([.panic], m, none)
  | (m, b, o) => ([o], m, some b)

/-- serving a hint over reads `cs` from a quiescent buffer = one loop over all the bytes -/
theorem hmRun_active (s : Bool) (h : Hint) (h0 : h ≠ .multi 0) : ∀ (cs : List Bytes) (m : HM) (buf : Bytes),
    m.currHint = some h → m.shared = 0 → decodeVec s buf = .none →
    hmRun s m (some buf) cs = hmFinish (hmLoop s h m (buf ++ cs.flatten)) := by
  intro cs
  induction cs with
  | nil =>
    intro m buf _ _ hd
    simp [hmRun, hmLoop_fixpoint hd, hmFinish]
  | cons c cs ih =>
    intro m buf h1 h2 hd
    simp only [hmRun, HM.decode_active s m (buf ++ c) h h1 h0, List.flatten_cons]
    rw [← List.append_assoc]
    cases hl : hmLoop s h m (buf ++ c) with
    | mk m1 r =>
      obtain ⟨b1, o⟩ := r
      cases o with
      | none =>
        simp only
        obtain ⟨e1, e2, e3⟩ := hmLoop_none_shape s h _ m (buf ++ c) rfl m1 b1 hl
        rw [ih m1 b1 (by rw [e1, h1]) (by rw [e2, h2]) e3,
          hmLoop_resume s h cs.flatten _ m (buf ++ c) rfl m1 b1 hl]
      | invalid =>
        simp only
        rw [hmLoop_done_ext s h cs.flatten _ m (buf ++ c) rfl m1 b1 _ hl (by simp)]
        rfl
      | panic =>
        simp only
        rw [hmLoop_done_ext s h cs.flatten _ m (buf ++ c) rfl m1 b1 _ hl (by simp)]
        rfl
      | single v =>
        simp only
        obtain ⟨e1, e2⟩ := hmLoop_delivered_shape s h _ m (buf ++ c) rfl m1 b1 _ hl (Or.inl ⟨v, rfl⟩)
        rw [hmRun_idle s m1 e1 (by rw [e2, h2]),
          hmLoop_done_ext s h cs.flatten _ m (buf ++ c) rfl m1 b1 _ hl (by simp)]
        rfl
      | multi vs =>
        simp only
        obtain ⟨e1, e2⟩ := hmLoop_delivered_shape s h _ m (buf ++ c) rfl m1 b1 _ hl (Or.inr ⟨vs, rfl⟩)
        rw [hmRun_idle s m1 e1 (by rw [e2, h2]),
          hmLoop_done_ext s h cs.flatten _ m (buf ++ c) rfl m1 b1 _ hl (by simp)]
        rfl

/-- the decoder right after the encoder announced `h` (`produce` on a fresh pair) -/
def hmAnnounced (h : Hint) : HM := (({} : HM).produce h).1

/-- the decoder once it has picked the announcement up -/
def hmServing (h : Hint) : HM := { shared := 0, currHint := some h, pbuf := [] }

theorem hmAnnounced_decode (s : Bool) (h : Hint) (h0 : h ≠ .multi 0) (buf : Bytes) :
    (hmAnnounced h).decode s buf = hmLoop s h (hmServing h) buf := by
  unfold hmAnnounced HM.produce HM.decode HM.consume hmServing
  cases h with
  | single => simp
  | multi k => simp at h0 ⊢; simp [h0]

theorem decodeVec_nil (s : Bool) : decodeVec s [] = .none := by
  unfold decodeVec; rw [decodeIndexed_nil]

/-- **chunk independence of the hint machine**: for at least one read, the replies, the final
decoder state and the final buffer depend only on the concatenation of the reads -/
theorem hmRun_announced (s : Bool) (h : Hint) (h0 : h ≠ .multi 0) (c : Bytes) (cs : List Bytes) :
    hmRun s (hmAnnounced h) (some []) (c :: cs) = hmFinish (hmLoop s h (hmServing h) (c :: cs).flatten) := by
  have key : hmRun s (hmAnnounced h) (some []) (c :: cs) = hmRun s (hmServing h) (some []) (c :: cs) := by
    simp only [hmRun, hmAnnounced_decode s h h0, HM.decode_active s (hmServing h) _ h rfl h0]
  rw [key, hmRun_active s h h0 (c :: cs) (hmServing h) [] rfl rfl (decodeVec_nil s)]
  simp

theorem omLoop_complete (s : Bool) : ∀ (k : Nat) (b : Bytes) (acc vs : List Resp) (b' : Bytes),
    takeN s k b = some (vs, b') → omLoop s k b acc = (b', .multi (acc ++ vs)) := by
  intro k
  induction k with
  | zero =>
    intro b acc vs b' h
    simp only [takeN, Option.some.injEq, Prod.mk.injEq] at h
    obtain ⟨h1, h2⟩ := h; subst h1 h2
    simp [omLoop]
  | succ k ih =>
    intro b acc vs b' h
    simp only [takeN] at h
    cases hd : decodeVec s b with
    | item v rest =>
      simp only [hd] at h
      cases ht : takeN s k rest with
      | none => simp [ht] at h
      | some pr =>
        obtain ⟨vs', b''⟩ := pr
        simp only [ht, Option.some.injEq, Prod.mk.injEq] at h
        obtain ⟨h1, h2⟩ := h; subst h1 h2
        simp only [omLoop, hd]
        rw [ih rest (acc ++ [v]) vs' b'' ht]
        simp
    | none => simp [hd] at h
    | invalid => simp [hd] at h
    | panic => simp [hd] at h

end Um.Resp
