import UmProofs.CoordMig
/-!
# C07 — a commit request that names no running migration changes nothing

`commit_migration` matches the running task by `(range list, epoch)`.  A descriptor whose pair is not pending —
an old epoch of the same ranges (delayed duplicate of an earlier migration's commit), a future epoch, other
ranges, an unknown cluster — is answered `MIGRATION_TASK_NOT_FOUND` / `CLUSTER_NOT_FOUND` (both HTTP 404, which
the coordinator counts as success) and the store is returned untouched.  No invariant is needed.
-/
namespace Um.Coord
open Um Um.Broker Um.Broker.Scale Um.Slots

theorem commitCore_stale {s : Store} {name : String} {ranges : RangeList} {epoch : Nat}
    (h : ¬ PendingIn s name ranges epoch) :
    commitMigrationCore s name ranges epoch false = (s, R.err Err.clusterNotFound) ∨
    commitMigrationCore s name ranges epoch false = (s, R.err Err.migrationTaskNotFound) := by
  cases hf : s.findCluster name with
  | none =>
    left
    unfold commitMigrationCore
    simp only [hf]
  | some c =>
    right
    apply commitCore_unknown (s := s) hf ranges epoch
    intro m hm hmig hre
    exact h ⟨c, hf, m, hm, hmig, hre.1, hre.2⟩

/-- the delivered call: whatever the tag (migrating / importing side), whenever it arrives -/
theorem exec_commit_stale (s : Sys) {t : Task} {mi : MigInfo} (ht : tagInfo t.sr.tag = some mi)
    (h : ¬ PendingIn s.broker t.cluster t.sr.ranges (taskEpoch t)) (ch : String) :
    (exec s (.commit t) ch).1 = s ∧
    ((exec s (.commit t) ch).2 = .unit Err.clusterNotFound.code ∨
     (exec s (.commit t) ch).2 = .unit Err.migrationTaskNotFound.code) := by
  have key : ∀ X : Sys × CallReply, X = (match (commitMigration s.broker t.cluster t.sr.ranges (taskEpoch t) false false).2 with
        | R.ok _ => (({ s with broker := keepOnPanic s.broker (commitMigration s.broker t.cluster t.sr.ranges (taskEpoch t) false false) } : Sys), CallReply.unit "")
        | R.err e =>
          if statusOf e.code == Um.Gen.Coord.COMMIT_OK_STATUS then
            ({ s with broker := keepOnPanic s.broker (commitMigration s.broker t.cluster t.sr.ranges (taskEpoch t) false false) }, CallReply.unit e.code)
          else if statusOf e.code == Um.Gen.Coord.COMMIT_RETRY_STATUS then
            ({ s with broker := keepOnPanic s.broker (commitMigration s.broker t.cluster t.sr.ranges (taskEpoch t) false false) }, CallReply.fail ("Retry:" ++ e.code))
          else ({ s with broker := keepOnPanic s.broker (commitMigration s.broker t.cluster t.sr.ranges (taskEpoch t) false false) }, CallReply.fail ("InvalidReply:" ++ e.code))
        | _ => ({ s with broker := keepOnPanic s.broker (commitMigration s.broker t.cluster t.sr.ranges (taskEpoch t) false false) }, CallReply.fail "PANIC")) →
      X.1 = s ∧ (X.2 = CallReply.unit Err.clusterNotFound.code ∨ X.2 = CallReply.unit Err.migrationTaskNotFound.code) := by
    intro X hX
    subst hX
    rw [commitMigration_noclear]
    rcases commitCore_stale h with e | e
    · rw [e]
      simp only [keepOnPanic, status_clusterNotFound, beq_self_eq_true, if_true]
      first | exact ⟨rfl, Or.inl rfl⟩ | exact ⟨trivial, Or.inl trivial⟩ | simp
    · rw [e]
      simp only [keepOnPanic, status_taskNotFound, beq_self_eq_true, if_true]
      first | exact ⟨rfl, Or.inr rfl⟩ | exact ⟨trivial, Or.inr trivial⟩ | simp
  cases htag : t.sr.tag with
  | none => rw [htag] at ht; cases ht
  | migrating m =>
    simp only [exec, htag]
    exact key _ rfl
  | importing m =>
    simp only [exec, htag]
    exact key _ rfl

theorem redeliver_commit_stale (s : Sys) {t : Task} {mi : MigInfo} (ht : tagInfo t.sr.tag = some mi)
    (h : ¬ PendingIn s.broker t.cluster t.sr.ranges (taskEpoch t)) : (s.redeliver (.commit t)).1 = s := by
  unfold Sys.redeliver RS.deliver
  simp only [log_sys]
  exact (exec_commit_stale s ht h _).1

/-- an older (or any other) epoch than every pending migration of these ranges is stale -/
theorem not_pending_of_epoch_ne {s : Store} {name : String} {ranges : RangeList} {epoch : Nat}
    (h : ∀ c, s.findCluster name = some c → ∀ m ∈ c.migs, m.isMigrating = true → m.ranges = ranges → m.mm.epoch ≠ epoch) :
    ¬ PendingIn s name ranges epoch := by
  rintro ⟨c, hc, m, hm, hmig, hr, he⟩
  exact h c hc m hm hmig hr he

end Um.Coord
