import UmProofs.BrokerResHost
/-!
# C12 — no operation outside the migration planner panics (`expect`s of the allocator, of
`add_cluster`/`auto_add_nodes`, of `replace_failed_proxy`).
-/
namespace Um.Broker
open Um Um.Slots

theorem Outcome.ofR_ne_panic {α} {f : α → String} {r : R α} (h : r.NoPanic) : Outcome.ofR f r ≠ .panic := by
  intro e
  cases r with
  | ok a => cases e
  | err e' => cases e
  | panic w => exact h w rfl
  | badChoice w => cases e

theorem tagProxies_noPanic {s : Store} {addrs : List String} {name : String}
    (h : ∀ a ∈ addrs, ∃ p ∈ s.proxies, p.addr = a) : (tagProxies s addrs name).NoPanic := by
  obtain ⟨s', hs'⟩ := tagProxies_total addrs s name h
  rw [hs']; exact R.noPanic_ok _

theorem generateFreeChunks_ne_nil {s : Store} {n : Nat} {choice : List (String × String)}
    {arr : List (ProxyRes × ProxyRes)} (h : generateFreeChunks s n choice = R.ok arr) (hn : n ≠ 0) : arr ≠ [] := by
  have := (generateFreeChunks_ok h).1
  intro e; subst e; simp at this; omega

/-- either allocator: a successful allocation of `n ≠ 0` proxies is not empty -/
theorem allocChunks_ne_nil {s : Store} {n first : Nat} {choice : List (String × String)}
    {arr : List (ProxyRes × ProxyRes)} (h : allocChunks s n first choice = R.ok arr) (hn : n ≠ 0) : arr ≠ [] := by
  have := (allocChunks_ok h).1
  intro e; subst e; simp at this; omega

/-- neither allocator panics (normal mode: `generate_free_chunks`; ordered mode: the index-ordered
one has no `expect` at all) -/
theorem allocChunks_no_panic (s : Store) (proxyNum first : Nat) (choice : List (String × String))
    (hpos : 0 < proxyNum) (heven : proxyNum % 2 = 0) :
    ∀ w, allocChunks s proxyNum first choice ≠ R.panic w := by
  intro w h
  rcases Ord.allocChunks_cases h with ⟨_, h⟩ | ⟨_, h⟩
  · exact generateFreeChunks_no_panic s proxyNum choice hpos heven w h
  · exact Ord.generateFreeChunksOrdered_noPanic s proxyNum first choice w h

theorem addProxy_noPanic (s : Store) (a n0 n1 : String) (h : Option String) (i : Option Nat) :
    (addProxy s a n0 n1 h i).2.NoPanic := by
  unfold addProxy
  split
  · exact R.noPanic_err _
  · simp only
    split
    · exact R.noPanic_err _
    · simp only
      split
      · exact R.noPanic_err _
      · exact R.noPanic_ok _

theorem removeProxy_noPanic (s : Store) (a : String) : (removeProxy s a).2.NoPanic := by
  unfold removeProxy
  split
  · exact R.noPanic_err _
  · split
    · exact R.noPanic_err _
    · exact R.noPanic_ok _

/-- `add_cluster` never panics, on any store -/
theorem addCluster_noPanic (s : Store) (name : String) (k : Nat) (cfg : Config) (choice : List (String × String)) :
    (addCluster s name k cfg choice).2.NoPanic := by
  unfold addCluster
  split
  · exact R.noPanic_err _
  split
  · exact R.noPanic_err _
  split
  · exact R.noPanic_err _
  split
  · exact R.noPanic_err _
  rename_i hk4
  simp only
  split
  · exact R.noPanic_err _
  rename_i hk0
  have hk4' : k % 4 = 0 := by simpa using hk4
  have hk0' : k / 2 ≠ 0 := by simpa using hk0
  split
  · exact R.noPanic_ok _
  · exact R.noPanic_err _
  · rename_i w heq
    exfalso
    rcases R.bind_eq_panic.mp heq with h | ⟨arr, harr, h⟩
    · exact allocChunks_no_panic s (k / 2) _ choice (by omega) (by omega) w h
    rcases R.bind_eq_panic.mp h with h | ⟨chunks, hch, h⟩
    · exact proxyResourceToChunkStore_no_panic arr true (allocChunks_ne_nil harr hk0') w h
    rcases R.bind_eq_panic.mp h with h | ⟨s2, _, h⟩
    · obtain ⟨hnew, _⟩ := newChunks_of_alloc harr hch
      refine tagProxies_noPanic ?_ w h
      intro a ha
      obtain ⟨q, hq, hqa, _⟩ := hnew.free (show a ∈ chunkAddrs chunks from ha)
      exact ⟨q, hq, hqa⟩
    · cases h
  · exact R.noPanic_bad _

/-- `auto_add_nodes` never panics on a store satisfying the accounting invariant -/
theorem autoAddNodes_noPanic {s : Store} (hx : RX s) (name : String) (k : Nat) (choice : List (String × String)) :
    (autoAddNodes s name k choice).2.NoPanic := by
  unfold autoAddNodes
  split
  · exact R.noPanic_err _
  split
  · exact R.noPanic_err _
  rename_i cl hf
  split
  · exact R.noPanic_err _
  split
  · exact R.noPanic_err _
  rename_i hk4
  simp only
  split
  · exact R.noPanic_err _
  rename_i hk0
  have hk4' : k % 4 = 0 := by simpa using hk4
  have hk0' : k / 2 ≠ 0 := by simpa using hk0
  split
  · exact R.noPanic_ok _
  · exact R.noPanic_err _
  · rename_i w heq
    exfalso
    rcases R.bind_eq_panic.mp heq with h | ⟨arr, harr, h⟩
    · exact allocChunks_no_panic s (k / 2) _ choice (by omega) (by omega) w h
    rcases R.bind_eq_panic.mp h with h | ⟨chunks, hch, h⟩
    · exact proxyResourceToChunkStore_no_panic arr false (allocChunks_ne_nil harr hk0') w h
    · obtain ⟨hnew, _⟩ := newChunks_of_alloc harr hch
      obtain ⟨hclm, _⟩ := Store.findCluster_some hf
      refine tagProxies_noPanic ?_ w h
      intro a ha
      have ha' : a ∈ chunkAddrs (cl.chunks ++ chunks) := ha
      rw [chunkAddrs_append] at ha'
      rcases List.mem_append.mp ha' with h1 | h1
      · obtain ⟨p, hp, hpa, _⟩ := hx.1.tag_of_mem hclm h1
        exact ⟨p, hp, hpa⟩
      · obtain ⟨q, hq, hqa, _⟩ := hnew.free h1
        exact ⟨q, hq, hqa⟩
  · exact R.noPanic_bad _

theorem autoScaleUpNodes_noPanic {s : Store} (hx : RX s) (name : String) (k : Nat) (choice : List (String × String)) :
    (autoScaleUpNodes s name k choice).2.NoPanic := by
  unfold autoScaleUpNodes
  split
  · exact R.noPanic_err _
  split
  · exact R.noPanic_err _
  simp only
  split
  · exact R.noPanic_err _
  · exact autoAddNodes_noPanic hx _ _ _

theorem removeCluster_noPanic (s : Store) (name : String) : (removeCluster s name).2.NoPanic := by
  unfold removeCluster
  split
  · exact R.noPanic_err _
  split
  · exact R.noPanic_err _
  · exact R.noPanic_ok _

theorem autoDeleteFreeNodes_noPanic (s : Store) (name : String) : (autoDeleteFreeNodes s name).2.NoPanic := by
  unfold autoDeleteFreeNodes
  split
  · exact R.noPanic_err _
  simp only
  split
  · exact R.noPanic_err _
  split
  · exact R.noPanic_err _
  split
  · exact R.noPanic_err _
  · exact R.noPanic_ok _

theorem autoDeleteFreeNodesIfExists_noPanic (s : Store) (name : String) :
    (autoDeleteFreeNodesIfExists s name).2.NoPanic := by
  have := autoDeleteFreeNodes_noPanic s name
  unfold autoDeleteFreeNodesIfExists
  split
  · exact R.noPanic_ok _
  · exact R.noPanic_ok _
  · exact this

theorem commitMigrationCore_noPanic (s : Store) (n : String) (rl : RangeList) (e : Nat) (t : Bool) :
    (commitMigrationCore s n rl e t).2.NoPanic := by
  unfold commitMigrationCore
  simp only
  split
  · exact R.noPanic_err _
  split
  · exact R.noPanic_err _
  split
  · exact R.noPanic_err _
  split
  · exact R.noPanic_err _
  · exact R.noPanic_ok _

theorem commitMigration_noPanic (s : Store) (n : String) (rl : RangeList) (e : Nat) (t c : Bool) :
    (commitMigration s n rl e t c).2.NoPanic := by
  have := commitMigrationCore_noPanic s n rl e t
  unfold commitMigration
  split
  · split
    · exact autoDeleteFreeNodesIfExists_noPanic _ _
    · exact R.noPanic_ok _
  · exact this

theorem balanceMasters_noPanic (s : Store) (n : String) : (balanceMasters s n).2.NoPanic := by
  unfold balanceMasters
  split
  · exact R.noPanic_err _
  simp only
  split
  · exact R.noPanic_err _
  · exact R.noPanic_ok _

theorem changeConfig_noPanic (s : Store) (n : String) (kvs : List (String × String)) :
    (changeConfig s n kvs).2.NoPanic := by
  unfold changeConfig
  split
  · exact R.noPanic_err _
  simp only
  split
  · exact R.noPanic_err _
  split
  · exact R.noPanic_err _
  split
  · exact R.noPanic_err _
  · exact R.noPanic_ok _

theorem forceBumpAllEpoch_noPanic (s : Store) (e : Nat) : (forceBumpAllEpoch s e).2.NoPanic := by
  unfold forceBumpAllEpoch
  split
  · exact R.noPanic_err _
  · exact R.noPanic_ok _

end Um.Broker
