import UmProofs.BrokerResNoPanic
/-!
# C12 — refusals are atomic: an operation that answers with an error leaves clusters, proxies,
failed set and failure reports untouched (only the global epoch may have moved).
-/
set_option linter.unusedSimpArgs false

namespace Um.Broker
open Um Um.Slots

/-- same store up to the global epoch -/
def SameButEpoch (s' s : Store) : Prop :=
  s'.clusters = s.clusters ∧ s'.proxies = s.proxies ∧ s'.failed = s.failed ∧ s'.failures = s.failures ∧
    s'.ordered = s.ordered

theorem SameButEpoch.refl (s : Store) : SameButEpoch s s := ⟨rfl, rfl, rfl, rfl, rfl⟩
theorem SameButEpoch.bump (s : Store) : SameButEpoch s.bump s := ⟨rfl, rfl, rfl, rfl, rfl⟩
theorem SameButEpoch.of_eq {s' s : Store} (h : s' = s) : SameButEpoch s' s := h ▸ SameButEpoch.refl s

theorem SameButEpoch.eq {s' s : Store} (h : SameButEpoch s' s) :
    s' = { s with globalEpoch := s'.globalEpoch } := by
  obtain ⟨h1, h2, h3, h4, h5⟩ := h
  cases s'; cases s; simp_all

theorem removeProxy_refusal {s : Store} {a : String} {e : Err} (h : (removeProxy s a).2 = R.err e) :
    (removeProxy s a).1 = s := by
  unfold removeProxy at h ⊢
  split
  · rfl
  · split
    · rfl
    · rename_i p hf hc; simp only [hf, hc] at h; cases h

theorem of_spec {α} {p : Store × R α} {s : Store} {e : Err}
    (hs : (p.1 = s ∧ ∀ u, p.2 ≠ R.ok u) ∨ ∃ s' u, p = (s', R.ok u)) (h : p.2 = R.err e) : p.1 = s := by
  rcases hs with ⟨h1, _⟩ | ⟨s', u, h2⟩
  · exact h1
  · rw [h2] at h; cases h

theorem addCluster_refusal {s : Store} {name : String} {k : Nat} {cfg : Config} {choice : List (String × String)}
    {e : Err} (h : (addCluster s name k cfg choice).2 = R.err e) : (addCluster s name k cfg choice).1 = s := by
  refine of_spec ?_ h
  rcases addCluster_spec s name k cfg choice with h1 | ⟨chunks, _, _, _, _, _, _, h2⟩
  · exact Or.inl h1
  · exact Or.inr ⟨_, _, h2⟩

theorem autoAddNodes_refusal {s : Store} {name : String} {k : Nat} {choice : List (String × String)}
    {e : Err} (h : (autoAddNodes s name k choice).2 = R.err e) : (autoAddNodes s name k choice).1 = s := by
  refine of_spec ?_ h
  rcases autoAddNodes_spec s name k choice with h1 | ⟨cl, new, _, _, _, _, _, _, h2⟩
  · exact Or.inl h1
  · exact Or.inr ⟨_, _, h2⟩

theorem autoScaleUpNodes_refusal {s : Store} {name : String} {k : Nat} {choice : List (String × String)}
    {e : Err} (h : (autoScaleUpNodes s name k choice).2 = R.err e) : (autoScaleUpNodes s name k choice).1 = s := by
  unfold autoScaleUpNodes at h ⊢
  split
  · rfl
  · split
    · rfl
    · simp only
      split
      · rfl
      · rename_i hv _ cl hf hk
        simp only [hv, hf, hk, if_false] at h
        exact autoAddNodes_refusal h

theorem removeCluster_refusal {s : Store} {name : String} {e : Err} (h : (removeCluster s name).2 = R.err e) :
    (removeCluster s name).1 = s := by
  refine of_spec ?_ h
  rcases removeCluster_spec s name with h1 | ⟨cl, _, h2⟩
  · exact Or.inl h1
  · exact Or.inr ⟨_, _, h2⟩

theorem autoDeleteFreeNodes_refusal {s : Store} {name : String} {e : Err}
    (h : (autoDeleteFreeNodes s name).2 = R.err e) : (autoDeleteFreeNodes s name).1 = s := by
  refine of_spec ?_ h
  rcases autoDeleteFreeNodes_spec s name with h1 | ⟨cl, _, _, h2⟩
  · exact Or.inl h1
  · exact Or.inr ⟨_, _, h2⟩

theorem migrateSlots_refusal {s : Store} {n : String} {e : Err} (h : (migrateSlots s n).2 = R.err e) :
    SameButEpoch (migrateSlots s n).1 s := by
  unfold migrateSlots at h ⊢
  split
  · exact SameButEpoch.refl s
  · rename_i hv
    simp only [hv, if_false] at h
    simp only at h ⊢
    split
    · exact SameButEpoch.bump s
    · rename_i cl hf
      simp only [hf] at h
      split
      · exact SameButEpoch.bump s
      · rename_i h1
        simp only [h1, if_false] at h
        split
        · exact SameButEpoch.bump s
        · rename_i h2
          simp only [h2, if_false] at h
          split
          · rename_i chunks hok; simp only [hok] at h; cases h
          all_goals exact SameButEpoch.bump s

theorem migrateSlotsToScaleDown_refusal {s : Store} {n : String} {k : Nat} {e : Err}
    (h : (migrateSlotsToScaleDown s n k).2 = R.err e) : SameButEpoch (migrateSlotsToScaleDown s n k).1 s := by
  unfold migrateSlotsToScaleDown at h ⊢
  split
  · exact SameButEpoch.refl s
  · rename_i hv
    simp only [hv, if_false] at h
    simp only at h ⊢
    split
    · exact SameButEpoch.bump s
    · rename_i cl hf
      simp only [hf] at h
      split
      · exact SameButEpoch.bump s
      · rename_i h1
        simp only [h1, if_false] at h
        split
        · exact SameButEpoch.bump s
        · rename_i h2
          simp only [h2, if_false] at h
          split
          · exact SameButEpoch.bump s
          · rename_i h3
            simp only [h3, if_false] at h
            split
            · rename_i chunks hok; simp only [hok] at h; cases h
            all_goals exact SameButEpoch.bump s

theorem autoScaleOutNodeNumber_refusal {s : Store} {n : String} {k : Nat} {e : Err}
    (h : (autoScaleOutNodeNumber s n k).2 = R.err e) : SameButEpoch (autoScaleOutNodeNumber s n k).1 s := by
  unfold autoScaleOutNodeNumber at h ⊢
  split
  · exact SameButEpoch.refl s
  · rename_i hv
    simp only [hv, if_false] at h
    split
    · exact SameButEpoch.refl s
    · rename_i cl hf
      simp only [hf] at h
      split
      · rename_i hk; simp only [hk, if_true] at h; exact migrateSlots_refusal h
      · exact SameButEpoch.refl s

theorem commitMigrationCore_refusal {s : Store} {n : String} {rl : RangeList} {ep : Nat} {t : Bool}
    (h : ∀ u, (commitMigrationCore s n rl ep t).2 ≠ R.ok u) : (commitMigrationCore s n rl ep t).1 = s := by
  unfold commitMigrationCore at h ⊢
  simp only at h ⊢
  split
  · rfl
  · rename_i cl hf
    simp only [hf] at h
    split
    · rfl
    · rename_i ht
      simp only [ht, if_false] at h
      split
      · rfl
      · rename_i si sp h1
        simp only [h1] at h
        split
        · rfl
        · rename_i di dp h2
          simp only [h2] at h
          exact absurd rfl (h ())

theorem commitMigrationCore_ok_found {s : Store} {n : String} {rl : RangeList} {ep : Nat} {t : Bool}
    (h : (commitMigrationCore s n rl ep t).2 = R.ok ()) : ∃ cl, s.findCluster n = some cl := by
  unfold commitMigrationCore at h
  simp only at h
  split at h
  · cases h
  · rename_i cl hf; exact ⟨cl, hf⟩

theorem autoDeleteFreeNodesIfExists_err {s : Store} {n : String} {e : Err}
    (h : (autoDeleteFreeNodesIfExists s n).2 = R.err e) :
    validName n = false ∨ s.findCluster n = none := by
  unfold autoDeleteFreeNodesIfExists at h
  split at h
  · cases h
  · cases h
  · rename_i r h1 h2
    unfold autoDeleteFreeNodes at h h1 h2
    by_cases hv : validName n = true
    · right
      simp only [hv, Bool.not_true, Bool.false_eq_true, if_false] at h h1 h2
      cases hf : s.findCluster n with
      | none => rfl
      | some cl =>
        exfalso
        simp only [hf] at h h1 h2
        by_cases hm : cl.isMigrating = true
        · simp only [hm, if_true] at h1; exact h1 _ rfl
        · simp only [hm] at h h2
          by_cases he : (List.filter Chunk.isFree cl.chunks).isEmpty = true
          · simp only [he, if_true] at h2; exact h2 _ rfl
          · simp only [he] at h; cases h
    · left; simpa using hv

theorem commitMigration_refusal {s : Store} (hx : RX s) {n : String} {rl : RangeList} {ep : Nat} {t c : Bool}
    {e : Err} (h : (commitMigration s n rl ep t c).2 = R.err e) : (commitMigration s n rl ep t c).1 = s := by
  have hsk := commitMigrationCore_skelEq s n rl ep t hx.nodupNames
  unfold commitMigration at h ⊢
  split
  · rename_i s' heq
    rw [heq] at h
    simp only at h ⊢
    have hok : (commitMigrationCore s n rl ep t).2 = R.ok () := by rw [heq]
    obtain ⟨cl, hcl⟩ := commitMigrationCore_ok_found hok
    obtain ⟨hclm, hcn⟩ := Store.findCluster_some hcl
    have hs' : s' = (commitMigrationCore s n rl ep t).1 := by rw [heq]
    split
    · rename_i hc
      simp only [hc, if_true] at h
      exfalso
      rcases autoDeleteFreeNodesIfExists_err h with hv | hnone
      · have := hx.2 n (List.mem_map.mpr ⟨cl, hclm, hcn⟩)
        rw [hv] at this; cases this
      · have hnames : s'.clusters.map (·.name) = s.clusters.map (·.name) := by
          rw [hs']; exact skel_names hsk.2
        have : n ∈ s'.clusters.map (·.name) := by rw [hnames]; exact List.mem_map.mpr ⟨cl, hclm, hcn⟩
        obtain ⟨c', hc'm, hc'n⟩ := List.mem_map.mp this
        exact Store.findCluster_none.mp hnone c' hc'm hc'n
    · rename_i hc
      simp only [hc] at h; cases h
  · rename_i r hne
    apply commitMigrationCore_refusal
    intro u hu
    cases u
    exact hne _ (by rw [← hu])

theorem balanceMasters_refusal {s : Store} {n : String} {e : Err} (h : (balanceMasters s n).2 = R.err e) :
    (balanceMasters s n).1 = s := by
  unfold balanceMasters at h ⊢
  split
  · rfl
  · rename_i hv
    simp only [hv, if_false] at h
    simp only at h ⊢
    split
    · rfl
    · rename_i cl hf; simp only [hf] at h; cases h

theorem changeConfig_refusal {s : Store} {n : String} {kvs : List (String × String)} {e : Err}
    (h : (changeConfig s n kvs).2 = R.err e) : (changeConfig s n kvs).1 = s := by
  unfold changeConfig at h ⊢
  split
  · rfl
  · rename_i hv
    simp only [hv, if_false] at h
    simp only at h ⊢
    split
    · rfl
    · rename_i cl hf
      simp only [hf] at h
      split
      · rfl
      · rename_i hm
        simp only [hm, if_false] at h
        split
        · rfl
        · rename_i cfg hc; simp only [hc] at h; cases h

theorem forceBumpAllEpoch_refusal {s : Store} {ep : Nat} {e : Err} (h : (forceBumpAllEpoch s ep).2 = R.err e) :
    (forceBumpAllEpoch s ep).1 = s := by
  unfold forceBumpAllEpoch at h ⊢
  split
  · rfl
  · rename_i hle; simp only [hle, if_false] at h; cases h

/-- `add_proxy` is the one non-atomic refusal: re-registering an existing address answers
`ALREADY_EXISTED` but clears that address's failed mark and failure reports (by design) -/
theorem addProxy_refusal {s : Store} {a n0 n1 : String} {ho : Option String} {io : Option Nat} {e : Err}
    (h : (addProxy s a n0 n1 ho io).2 = R.err e) :
    ((e = .invalidProxyAddress ∨ e = .missingIndex) ∧ (addProxy s a n0 n1 ho io).1 = s) ∨
    (e = .alreadyExisted ∧ (addProxy s a n0 n1 ho io).1.clusters = s.clusters ∧
      (addProxy s a n0 n1 ho io).1.proxies = s.proxies ∧
      (addProxy s a n0 n1 ho io).1.failed = s.failed.filter (· != a) ∧
      (addProxy s a n0 n1 ho io).1.failures = s.failures.filter (·.1 != a)) := by
  unfold addProxy at h ⊢
  split
  · rename_i hc; simp only [hc, if_true] at h; cases h; exact Or.inl ⟨Or.inl rfl, rfl⟩
  · rename_i hc
    simp only [hc, if_false] at h
    simp only at h ⊢
    split
    · rename_i hidx; simp only [hidx] at h; cases h; exact Or.inl ⟨Or.inr rfl, rfl⟩
    rename_i idx hidx
    simp only [hidx] at h
    by_cases hex : (s.findProxy a).isSome = true
    · simp only [hex, if_true] at h ⊢
      cases h
      right
      refine ⟨rfl, ?_⟩
      split <;> exact ⟨rfl, rfl, rfl, rfl⟩
    · simp only [hex] at h; cases h

/-- what persists when `auto_change_node_number` is refused: the deletion of free chunks -/
theorem autoChangeNodeNumber_refusal {s : Store} {n : String} {k : Nat} {choice : List (String × String)}
    {e : Err} (h : (autoChangeNodeNumber s n k choice).2 = R.err e) :
    (autoChangeNodeNumber s n k choice).1 = s ∨
    SameButEpoch (autoChangeNodeNumber s n k choice).1 (autoDeleteFreeNodes s n).1 := by
  unfold autoChangeNodeNumber at h ⊢
  split
  · exact Or.inl rfl
  split
  · exact Or.inl rfl
  split
  · exact Or.inl rfl
  rename_i hv _ cl hf hm
  simp only [hv, hf, hm, if_false] at h
  right
  generalize autoDeleteFreeNodes s n = r at h ⊢
  obtain ⟨s1, r1⟩ := r
  simp only at h ⊢
  split
  · split
    · exact SameButEpoch.refl _
    · split
      · exact SameButEpoch.refl _
      · rename_i cl1 hf1 hne
        split
        · rename_i hlt
          have h2 : ∀ e', (autoScaleUpNodes s1 n k choice).2 = R.err e' → (autoScaleUpNodes s1 n k choice).1 = s1 :=
            fun e' he' => autoScaleUpNodes_refusal he'
          split
          · rename_i heq; simp [hf1, hne, hlt, heq] at h
          · rename_i s2 e' heq
            have := h2 e' (by rw [heq]); rw [heq] at this
            exact SameButEpoch.of_eq this
          · rename_i heq; simp [hf1, hne, hlt, heq] at h
          · rename_i heq; simp [hf1, hne, hlt, heq] at h
        · rename_i hlt
          have h2 : ∀ e', (migrateSlotsToScaleDown s1 n k).2 = R.err e' →
              SameButEpoch (migrateSlotsToScaleDown s1 n k).1 s1 :=
            fun e' he' => migrateSlotsToScaleDown_refusal he'
          split
          · rename_i heq; simp [hf1, hne, hlt, heq] at h
          · rename_i s2 e' heq
            have := h2 e' (by rw [heq]); rw [heq] at this
            exact this
          · rename_i heq; simp [hf1, hne, hlt, heq] at h
          · rename_i heq; simp [hf1, hne, hlt, heq] at h
  · split
    · exact SameButEpoch.refl _
    · split
      · exact SameButEpoch.refl _
      · rename_i cl1 hf1 hne
        split
        · rename_i hlt
          have h2 : ∀ e', (autoScaleUpNodes s1 n k choice).2 = R.err e' → (autoScaleUpNodes s1 n k choice).1 = s1 :=
            fun e' he' => autoScaleUpNodes_refusal he'
          split
          · rename_i heq; simp [hf1, hne, hlt, heq] at h
          · rename_i s2 e' heq
            have := h2 e' (by rw [heq]); rw [heq] at this
            exact SameButEpoch.of_eq this
          · rename_i heq; simp [hf1, hne, hlt, heq] at h
          · rename_i heq; simp [hf1, hne, hlt, heq] at h
        · rename_i hlt
          have h2 : ∀ e', (migrateSlotsToScaleDown s1 n k).2 = R.err e' →
              SameButEpoch (migrateSlotsToScaleDown s1 n k).1 s1 :=
            fun e' he' => migrateSlotsToScaleDown_refusal he'
          split
          · rename_i heq; simp [hf1, hne, hlt, heq] at h
          · rename_i s2 e' heq
            have := h2 e' (by rw [heq]); rw [heq] at this
            exact this
          · rename_i heq; simp [hf1, hne, hlt, heq] at h
          · rename_i heq; simp [hf1, hne, hlt, heq] at h
  all_goals exact SameButEpoch.refl _

end Um.Broker
