import UmProofs.BrokerScaleReachA
import UmProofs.BrokerSlotsPlanJ
/-!
# C10 over reachable states (part B): the operations that create, extend, shrink or re-plan a
cluster keep `SInv`
-/
namespace Um.Broker.Scale
open Um Um.Slots Um.Broker Um.Broker.Plan

theorem allS_of_clusters {s s' : Store} (h : AllS s) (hc : s'.clusters = s.clusters) : AllS s' :=
  fun c hc' => h c (hc ▸ hc')

theorem allS_setCluster {s : Store} {cl' : Cluster} (h : AllS s) (h' : SInv cl') : AllS (s.setCluster cl') := by
  intro c hc
  rcases mem_setCluster hc with rfl | hm
  · exact h'
  · exact h c hm

theorem migs_nil_of_idle {c : Cluster} (h : c.isMigrating = false) : c.migs = [] :=
  (Cluster.isMigrating_eq_false_iff c).mp h

theorem noMigs_of_idle {c : Cluster} (h : c.migs = []) : NoMigs c.chunks := by
  intro ch hch
  unfold Cluster.migs Chunk.migs at h
  simpa using List.flatMap_eq_nil_iff.mp h ch hch

theorem migs_nil_of_noMigs {l : List Chunk} (h : NoMigs l) : l.flatMap Chunk.migs = [] := by
  apply List.flatMap_eq_nil_iff.mpr
  intro ch hch
  obtain ⟨h0, h1⟩ := h ch hch
  simp [Chunk.migs, h0, h1]

/-! ## `add_cluster` -/

theorem toChunksWithSlots_length (av rem : Nat) :
    ∀ (arr : List (ProxyRes × ProxyRes)) (i curr : Nat) (chunks : List Chunk),
      toChunksWithSlots av rem arr i curr = R.ok chunks → chunks.length = arr.length := by
  intro arr
  induction arr with
  | nil => intro i curr chunks h; simp only [toChunksWithSlots, pure] at h; cases h; rfl
  | cons ab rest ih =>
    intro i curr chunks h
    obtain ⟨a, b⟩ := ab
    rw [toChunksWithSlots] at h
    simp only [bind, pure] at h
    repeat' split at h
    all_goals first | (cases h; done) | skip
    rename_i tl htl
    cases h
    simp [ih _ _ _ htl]

theorem addCluster_clusters {s s' : Store} {name : String} {nodeNum : Nat} {cfg : Config}
    {choice : List (String × String)} (h : addCluster s name nodeNum cfg choice = (s', R.ok ())) :
    ∃ arr chunks, proxyResourceToChunkStore arr true = R.ok chunks ∧ arr.length * 4 = nodeNum ∧
      s'.clusters = s.clusters ++ [{ epoch := s.globalEpoch + 1, name := name, chunks := chunks, config := cfg }] := by
  unfold addCluster at h
  split at h
  · cases h
  split at h
  · cases h
  · split at h
    · cases h
    · split at h
      · cases h
      · rename_i hmod
        dsimp only at h
        split at h
        · cases h
        · rename_i hpn
          split at h
          · rename_i s'' hdo
            simp only [Prod.mk.injEq, and_true] at h
            subst h
            simp only [bind, pure] at hdo
            split at hdo
            · rename_i arr harr
              split at hdo
              · rename_i chunks hchunks
                split at hdo
                · rename_i s2 htag
                  cases hdo
                  have hlen := allocChunks_length harr
                  have hmod' : nodeNum % 4 = 0 := by simpa using hmod
                  have hpn' : nodeNum / 2 ≠ 0 := by simpa using hpn
                  have hcl := tagProxies_clusters htag
                  refine ⟨arr, chunks, hchunks, by omega, ?_⟩
                  show s2.clusters ++ _ = _
                  rw [hcl]; rfl
                all_goals cases hdo
              all_goals cases hdo
            all_goals cases hdo
          all_goals cases h

theorem addCluster_fst (s : Store) (name : String) (nodeNum : Nat) (cfg : Config) (choice : List (String × String)) :
    (addCluster s name nodeNum cfg choice).1 = s ∨
    ∃ s', addCluster s name nodeNum cfg choice = (s', R.ok ()) := by
  unfold addCluster
  split
  · exact Or.inl rfl
  split
  · exact Or.inl rfl
  · split
    · exact Or.inl rfl
    · split
      · exact Or.inl rfl
      · dsimp only
        split
        · exact Or.inl rfl
        · split
          · exact Or.inr ⟨_, rfl⟩
          · exact Or.inl rfl
          · exact Or.inl rfl
          · exact Or.inl rfl

theorem allS_addCluster {s : Store} (h : AllS s) (name : String) (nodeNum : Nat) (cfg : Config)
    (choice : List (String × String)) (hb' : PlanBound (addCluster s name nodeNum cfg choice).1) :
    AllS (addCluster s name nodeNum cfg choice).1 := by
  rcases addCluster_fst s name nodeNum cfg choice with he | ⟨s', hok⟩
  · rw [he]; exact h
  · rw [hok] at hb' ⊢
    obtain ⟨arr, chunks, hchunks, harr, hcl⟩ := addCluster_clusters hok
    intro c hc
    simp only at hc
    rw [hcl] at hc
    rcases List.mem_append.mp hc with hc | hc
    · exact h c hc
    · simp only [List.mem_singleton] at hc
      subst hc
      -- the new cluster
      have hbound := hb' { epoch := s.globalEpoch + 1, name := name, chunks := chunks, config := cfg }
        (by rw [hcl]; simp)
      simp only at hbound
      unfold proxyResourceToChunkStore at hchunks
      simp only [if_true] at hchunks
      split at hchunks
      · cases hchunks
      · rename_i hm0
        have hm0' : arr.length * 2 ≠ 0 := by simpa using hm0
        have hl := toChunksWithSlots_length _ _ arr 0 0 chunks hchunks
        obtain ⟨chunks', hc', hl', hfull, hnm⟩ :=
          toChunksWithSlots_spec (arr.length * 2) (by rw [← hl]; exact hbound) (by omega) arr 0 0
        rw [hc'] at hchunks
        cases hchunks
        apply sinv_of_balanced (N := chunks.length) (by omega)
        · exact ⟨chunks, [], by simp, rfl, by show FullChunks (chunks.length * 2) chunks 0; rw [hl']; exact hfull,
            fun _ h => by cases h⟩
        · exact migs_nil_of_noMigs hnm

/-! ## `auto_add_nodes`, `auto_scale_up_nodes` -/

theorem autoAddNodes_fst (s : Store) (name : String) (num : Nat) (choice : List (String × String)) :
    (autoAddNodes s name num choice).1 = s ∨
    ∃ cl extra, s.findCluster name = some cl ∧ cl.isMigrating = false ∧ EmptyChunks extra ∧ NoMigs extra ∧
      (autoAddNodes s name num choice).1.clusters =
        (s.setCluster { cl with chunks := cl.chunks ++ extra, epoch := s.globalEpoch + 1 }).clusters := by
  unfold autoAddNodes
  split
  · exact Or.inl rfl
  · split
    · exact Or.inl rfl
    · rename_i cl hf
      split
      · exact Or.inl rfl
      · rename_i hidle
        split
        · exact Or.inl rfl
        · dsimp only
          split
          · exact Or.inl rfl
          · split
            · rename_i s'' hdo
              right
              simp only [bind] at hdo
              split at hdo
              · rename_i arr harr
                split at hdo
                · rename_i chunks hchunks
                  unfold proxyResourceToChunkStore at hchunks
                  simp only [Bool.false_eq_true, if_false, pure] at hchunks
                  cases hchunks
                  have hcl := tagProxies_clusters hdo
                  refine ⟨cl, arr.map fun (a, b) => mkChunk a b none none, hf, by simpa using hidle, ?_, ?_, ?_⟩
                  · intro ch hch
                    obtain ⟨ab, _, rfl⟩ := List.mem_map.mp hch
                    exact ⟨rfl, rfl⟩
                  · intro ch hch
                    obtain ⟨ab, _, rfl⟩ := List.mem_map.mp hch
                    exact ⟨rfl, rfl⟩
                  · show s''.clusters = _
                    rw [hcl]; rfl
                all_goals cases hdo
              all_goals cases hdo
            · exact Or.inl rfl
            · exact Or.inl rfl
            · exact Or.inl rfl

theorem allS_autoAddNodes {s : Store} (h : AllS s) (hb : PlanBound s) (name : String) (num : Nat)
    (choice : List (String × String)) : AllS (autoAddNodes s name num choice).1 := by
  rcases autoAddNodes_fst s name num choice with he | ⟨cl, extra, hf, hidle, hemp, hnm, hcl⟩
  · rw [he]; exact h
  · apply allS_of_clusters _ hcl
    apply allS_setCluster h
    have hmem := Store.findCluster_mem hf
    have hm0 := migs_nil_of_idle hidle
    obtain ⟨N, hN, _, hshape⟩ := balanced_of_sinv (h cl hmem) hm0 (hb cl hmem)
    apply sinv_of_balanced hN
    · exact balancedShape_append_empty hshape hemp
    · show (cl.chunks ++ extra).flatMap Chunk.migs = []
      rw [List.flatMap_append]
      have : cl.chunks.flatMap Chunk.migs = [] := hm0
      rw [this, migs_nil_of_noMigs hnm]; rfl

theorem allS_autoScaleUpNodes {s : Store} (h : AllS s) (hb : PlanBound s) (name : String) (expected : Nat)
    (choice : List (String × String)) : AllS (autoScaleUpNodes s name expected choice).1 := by
  unfold autoScaleUpNodes
  split
  · exact h
  · split
    · exact h
    · dsimp only
      split
      · exact h
      · exact allS_autoAddNodes h hb name _ choice

/-! ## `auto_delete_free_nodes` -/

theorem allS_autoDeleteFreeNodes {s : Store} (h : AllS s) (hb : PlanBound s) (name : String) :
    AllS (autoDeleteFreeNodes s name).1 := by
  rcases autoDeleteFreeNodes_not_ok (s := s) (name := name) with ⟨s', hok⟩ | ⟨e, herr⟩
  · rw [hok]
    obtain ⟨cl, hrel⟩ := autoDeleteFreeNodes_ok hok
    have hmem := Store.findCluster_mem hrel.found
    have hm0 := migs_nil_of_idle hrel.idle
    obtain ⟨N, hN, _, hshape⟩ := balanced_of_sinv (h cl hmem) hm0 (hb cl hmem)
    obtain ⟨A, hfil, hA, hfull, _⟩ := release_balanced hshape hN hm0 (s.globalEpoch + 1)
    have hcl : s'.clusters =
        (s.setCluster ⟨s.globalEpoch + 1, cl.name, cl.chunks.filter (fun c => !c.isFree), cl.config⟩).clusters :=
      hrel.clusters
    apply allS_of_clusters _ hcl
    apply allS_setCluster h
    apply sinv_of_balanced hN
    · exact ⟨A, [], by show cl.chunks.filter _ = A ++ []; rw [hfil, List.append_nil], hA, hfull, fun _ h => by cases h⟩
    · exact migs_filter_idle hm0 _ _
  · rw [herr]; exact h

theorem planBound_autoDeleteFreeNodes {s : Store} (hb : PlanBound s) (name : String) :
    PlanBound (autoDeleteFreeNodes s name).1 := by
  rcases autoDeleteFreeNodes_not_ok (s := s) (name := name) with ⟨s', hok⟩ | ⟨e, herr⟩
  · rw [hok]
    obtain ⟨cl, hrel⟩ := autoDeleteFreeNodes_ok hok
    intro c hc
    simp only at hc
    rw [hrel.clusters] at hc
    obtain ⟨x, hx, rfl⟩ := List.mem_map.mp hc
    split
    · have := hb cl (Store.findCluster_mem hrel.found)
      have hle : (cl.chunks.filter fun c => !c.isFree).length ≤ cl.chunks.length := List.length_filter_le _ _
      simp only
      omega
    · exact hb x hx
  · rw [herr]; exact hb

end Um.Broker.Scale
