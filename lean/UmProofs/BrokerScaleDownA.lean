import UmProofs.BrokerScaleQuota
/-!
# C10 — the scale-down plan (`remove_slots_from_src_to_scale_down`), part A

Generic lifting lemma for `iterate`, the cut from the *front* of a source range list, and the
bookkeeping invariants of the scale-down loops.
-/
namespace Um.Broker.Scale
open Um Um.Slots Um.Broker

/-- lift a one-iteration specification through `iterate`: an invariant `I`, a measure `μ` that
every `cont` step decreases, a postcondition `Q` every `done` step establishes -/
theorem iterate_spec {α : Type} (f : α → R (Iter α)) (I Q : α → Prop) (μ : α → Nat)
    (hstep : ∀ a, I a → (∃ a', f a = R.ok (Iter.done a') ∧ Q a') ∨
      (∃ a', f a = R.ok (Iter.cont a') ∧ I a' ∧ μ a' < μ a)) :
    ∀ (fuel : Nat) (a : α), I a → μ a < fuel → ∃ a', iterate f fuel a = R.ok a' ∧ Q a' := by
  intro fuel
  induction fuel with
  | zero => intro a _ h; omega
  | succ fuel ih =>
    intro a hI hμ
    rw [iterate]
    rcases hstep a hI with ⟨a', hf, hQ⟩ | ⟨a', hf, hI', hlt⟩
    · rw [hf]; exact ⟨a', rfl, hQ⟩
    · rw [hf]; exact ih a' hI' (by omega)

/-- geometry of the pieces cut from the front of `rl`: well-formed, ascending, all below what
remains of `rl` -/
def PiecesAbove (rl cur : RangeList) : Prop :=
  (∀ b ∈ cur, b.1 ≤ b.2) ∧ cur.Pairwise (fun a b => a.2 < b.1) ∧ ∀ a ∈ cur, ∀ b ∈ rl, a.2 < b.1

theorem piecesAbove_nil (rl : RangeList) : PiecesAbove rl [] :=
  ⟨by simp, List.Pairwise.nil, by simp⟩

theorem PiecesAbove.disjList {rl cur : RangeList} (h : PiecesAbove rl cur) : DisjList cur :=
  ⟨h.1, h.2.1.imp fun hab => Or.inl hab⟩

/-- the model's cut from the front -/
def cutFirst (first : Range) (rest cur : RangeList) (curNum removeNum : Nat) : RangeList × RangeList × Nat :=
  if removeNum ≥ rangeNum first then (rest, cur ++ [first], curNum + rangeNum first)
  else ((first.1 + removeNum, first.2) :: rest, cur ++ [(first.1, removeNum + first.1 - 1)], curNum + removeNum)

theorem cutFirst_fst (first : Range) (rest cur : RangeList) (n r : Nat) :
    (cutFirst first rest cur n r).1 =
      if r ≥ rangeNum first then rest else (first.1 + r, first.2) :: rest := by
  unfold cutFirst; split <;> rfl
theorem cutFirst_snd_fst (first : Range) (rest cur : RangeList) (n r : Nat) :
    (cutFirst first rest cur n r).2.1 =
      if r ≥ rangeNum first then cur ++ [first] else cur ++ [(first.1, r + first.1 - 1)] := by
  unfold cutFirst; split <;> rfl
theorem cutFirst_snd_snd (first : Range) (rest cur : RangeList) (n r : Nat) :
    (cutFirst first rest cur n r).2.2 = if r ≥ rangeNum first then n + rangeNum first else n + r := by
  unfold cutFirst; split <;> rfl

theorem cutFirst_spec {first : Range} {rest : RangeList} (cur : RangeList) (curNum removeNum : Nat)
    (hasc : Asc (first :: rest)) (hrem : 1 ≤ removeNum) (hp : PiecesAbove (first :: rest) cur) :
    ∀ t, t = cutFirst first rest cur curNum removeNum →
    ∃ moved, 1 ≤ moved ∧ moved ≤ removeNum ∧ t.2.2 = curNum + moved ∧
      slotsNum t.1 + moved = slotsNum (first :: rest) ∧ slotsNum t.2.1 = slotsNum cur + moved ∧
      Asc t.1 ∧ PiecesAbove t.1 t.2.1 := by
  intro t ht
  have hfw : first.1 ≤ first.2 := hasc.1 first (by simp)
  obtain ⟨hfr, hrr⟩ := List.pairwise_cons.mp hasc.2
  obtain ⟨hpw, hpp, hpb⟩ := hp
  have hcf : ∀ a ∈ cur, a.2 < first.1 := fun a ha => hpb a ha first (by simp)
  unfold cutFirst at ht
  by_cases hge : removeNum ≥ rangeNum first
  · rw [if_pos hge] at ht; subst ht
    refine ⟨rangeNum first, rangeNum_pos first, hge, rfl, ?_, ?_, hasc.tail, ?_, ?_, ?_⟩
    · simp only [slotsNum_cons]; omega
    · simp [slotsNum_append]
    · intro b hb
      rcases List.mem_append.mp hb with hb | hb
      · exact hpw b hb
      · simp only [List.mem_singleton] at hb; subst hb; exact hfw
    · show (cur ++ [first]).Pairwise _
      rw [List.pairwise_append]
      refine ⟨hpp, by simp, ?_⟩
      intro a ha b hb
      simp only [List.mem_singleton] at hb; subst hb
      exact hcf a ha
    · intro a ha b hb
      rcases List.mem_append.mp ha with ha | ha
      · exact hpb a ha b (by simp [hb])
      · simp only [List.mem_singleton] at ha; subst ha
        exact hfr b hb
  · rw [if_neg hge] at ht; subst ht
    have hlt : removeNum < rangeNum first := by omega
    unfold rangeNum at hlt
    refine ⟨removeNum, hrem, Nat.le_refl _, rfl, ?_, ?_, ?_, ?_, ?_, ?_⟩
    · simp only [slotsNum_cons, rangeNum]; omega
    · simp only [slotsNum_append, slotsNum_cons, slotsNum_nil, rangeNum]; omega
    · refine ⟨?_, List.pairwise_cons.mpr ⟨?_, hrr⟩⟩
      · intro r hr
        rcases List.mem_cons.mp hr with rfl | hr
        · show first.1 + removeNum ≤ first.2; omega
        · exact hasc.1 r (by simp [hr])
      · intro b hb; exact hfr b hb
    · intro b hb
      rcases List.mem_append.mp hb with hb | hb
      · exact hpw b hb
      · simp only [List.mem_singleton] at hb; subst hb
        show first.1 ≤ removeNum + first.1 - 1; omega
    · show (cur ++ [(first.1, removeNum + first.1 - 1)]).Pairwise _
      rw [List.pairwise_append]
      refine ⟨hpp, by simp, ?_⟩
      intro a ha b hb
      simp only [List.mem_singleton] at hb; subst hb
      exact hcf a ha
    · intro a ha b hb
      have hb1 : first.1 + removeNum ≤ b.1 := by
        rcases List.mem_cons.mp hb with rfl | hb
        · exact Nat.le_refl _
        · have := hfr b hb; omega
      rcases List.mem_append.mp ha with ha | ha
      · have := hcf a ha; omega
      · simp only [List.mem_singleton] at ha; subst ha
        show removeNum + first.1 - 1 < b.1; omega

/-! ## parameters, bookkeeping -/

/-- slots destination `j` already owns -/
def DownParams.ex (P : DownParams) (j : Nat) : Nat := (P.existing[j]?).getD 0

/-- slots destination `j` still needs -/
def DownParams.dneed (P : DownParams) (j : Nat) : Nat := downFinalOf P j - (DownParams.ex P) j

def DownParams.given (P : DownParams) (st : LoopSt) : Nat := sumTo (DownParams.dneed P) st.dstIdx + st.curNum

def DownParams.total (P : DownParams) : Nat := sumTo (DownParams.dneed P) P.dstMasterNum

/-- well-formed parameters: one `existing` entry per destination, none above its final count -/
structure DownParams.Ok (P : DownParams) : Prop where
  len : P.existing.length = P.dstMasterNum
  le : ∀ j, j < P.dstMasterNum → (DownParams.ex P) j ≤ downFinalOf P j

def downIndex (mm : MigMeta) : Nat := mm.dstChunk * 2 + mm.dstPart

def DownParams.task (P : DownParams) (sc sp j : Nat) (ranges : RangeList) : MigSlots :=
  { ranges := ranges,
    mm := { epoch := P.epoch, srcChunk := sc, srcPart := sp, dstChunk := j / 2, dstPart := j % 2 } }

theorem downIndex_task (P : DownParams) (sc sp j : Nat) (ranges : RangeList) :
    downIndex ((DownParams.task P) sc sp j ranges).mm = j := by
  simp only [downIndex, DownParams.task]; omega

structure DOutInv (P : DownParams) (st : LoopSt) : Prop where
  done : ∀ j, j < st.dstIdx → recvBy downIndex st.out j = (DownParams.dneed P) j
  curr : recvBy downIndex st.out st.dstIdx + slotsNum st.curSlots = st.curNum
  later : ∀ j, st.dstIdx < j → recvBy downIndex st.out j = 0
  shape : ∀ ms ∈ st.out, ∃ j, j < P.dstMasterNum ∧ ms.mm.dstChunk = j / 2 ∧
    ms.mm.dstPart = j % 2 ∧ ms.mm.srcPart < 2 ∧ ms.mm.epoch = P.epoch ∧ compact ms.ranges = ms.ranges

structure DStInv (P : DownParams) (st : LoopSt) : Prop where
  le : st.dstIdx ≤ P.dstMasterNum
  lt : st.dstIdx < P.dstMasterNum → st.curNum < (DownParams.dneed P) st.dstIdx ∨ st.curNum = 0
  fin : st.dstIdx = P.dstMasterNum → st.curNum = 0 ∧ st.curSlots = []
  cs : st.curSlots ≠ [] → 0 < st.curNum ∧ st.curNum < (DownParams.dneed P) st.dstIdx
  out : DOutInv P st

theorem dOutInv_emit_done {P : DownParams} {st : LoopSt} (h : DOutInv P st) (hlt : st.dstIdx < P.dstMasterNum)
    (sc sp : Nat) (hsp : sp < 2) (ranges : RangeList) (hfx : compact ranges = ranges)
    (hcount : recvBy downIndex st.out st.dstIdx + slotsNum ranges = (DownParams.dneed P) st.dstIdx) :
    DOutInv P ⟨st.dstIdx + 1, [], 0, st.out ++ [(DownParams.task P) sc sp st.dstIdx ranges]⟩ := by
  refine ⟨?_, ?_, ?_, ?_⟩
  · intro j hj
    simp only [recvBy_snoc, downIndex_task]
    by_cases hjd : st.dstIdx = j
    · subst hjd; simp only [if_true]; exact hcount
    · simp only [hjd, if_false, Nat.add_zero]; exact h.done j (by simp only at hj; omega)
  · simp only [recvBy_snoc, downIndex_task, slotsNum_nil, Nat.add_zero]
    have : ¬ st.dstIdx = st.dstIdx + 1 := by omega
    simp only [this, if_false, Nat.add_zero]
    exact h.later _ (by omega)
  · intro j hj
    simp only at hj
    simp only [recvBy_snoc, downIndex_task]
    have : ¬ st.dstIdx = j := by omega
    simp only [this, if_false, Nat.add_zero]
    exact h.later j (by omega)
  · intro ms hms
    simp only at hms
    rcases List.mem_append.mp hms with hms | hms
    · exact h.shape ms hms
    · simp only [List.mem_singleton] at hms; subst hms
      exact ⟨st.dstIdx, hlt, rfl, rfl, hsp, rfl, hfx⟩

theorem dOutInv_emit_open {P : DownParams} {st : LoopSt} (h : DOutInv P st) (hlt : st.dstIdx < P.dstMasterNum)
    (sc sp : Nat) (hsp : sp < 2) (ranges : RangeList) (hfx : compact ranges = ranges) (curNum' : Nat)
    (hcount : recvBy downIndex st.out st.dstIdx + slotsNum ranges = curNum') :
    DOutInv P ⟨st.dstIdx, [], curNum', st.out ++ [(DownParams.task P) sc sp st.dstIdx ranges]⟩ := by
  refine ⟨?_, ?_, ?_, ?_⟩
  · intro j hj
    simp only at hj
    simp only [recvBy_snoc, downIndex_task]
    have : ¬ st.dstIdx = j := by omega
    simp only [this, if_false, Nat.add_zero]
    exact h.done j hj
  · simp only [recvBy_snoc, downIndex_task, slotsNum_nil, Nat.add_zero, if_true]
    exact hcount
  · intro j hj
    simp only at hj
    simp only [recvBy_snoc, downIndex_task]
    have : ¬ st.dstIdx = j := by omega
    simp only [this, if_false, Nat.add_zero]
    exact h.later j hj
  · intro ms hms
    simp only at hms
    rcases List.mem_append.mp hms with hms | hms
    · exact h.shape ms hms
    · simp only [List.mem_singleton] at hms; subst hms
      exact ⟨st.dstIdx, hlt, rfl, rfl, hsp, rfl, hfx⟩

end Um.Broker.Scale
