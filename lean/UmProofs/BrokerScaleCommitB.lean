import UmProofs.BrokerScaleCommitA
/-!
# C10 — `commit_migration` accepts every pending entry (part B)

`CommitInv cl` = `PosInv cl ∧ TwinInv cl ∧` every stored migration range list is a fixpoint of
`compact` (implied by `SlotInv`: `NormalRanges l → compact l = l`, proved in
`BrokerScaleArith`). Under `CommitInv`, committing the descriptor of a pending entry `m`
succeeds and produces `commitRes`, described on the decomposition `chunks = A ++ dch :: B` at
the destination chunk.
-/
namespace Um.Broker.Scale
open Um Um.Slots Um.Broker

structure CommitInv (c : Cluster) : Prop where
  pos : PosInv c
  twin : TwinInv c
  fixed : ∀ m ∈ c.migs, compact m.ranges = m.ranges

/-- first loop of `commit_migration`: the filter -/
def keepOf (ranges : RangeList) (mm : MigMeta) (m : MigStore) : Bool :=
  !(m.isMigrating && m.ranges == ranges && m.mm == mm)

def strip (ranges : RangeList) (mm : MigMeta) (c : Chunk) : Chunk :=
  { c with mig0 := c.mig0.filter (keepOf ranges mm), mig1 := c.mig1.filter (keepOf ranges mm) }

def compactMig (m : MigStore) : MigStore := { m with ranges := compact m.ranges }

def compactChunk (c : Chunk) : Chunk :=
  { c with stable0 := c.stable0.map compact, stable1 := c.stable1.map compact,
           mig0 := c.mig0.map compactMig, mig1 := c.mig1.map compactMig }

theorem compactSlots_eq (cs : List Chunk) : compactSlots cs = cs.map compactChunk := rfl

/-- chunks after committing the entry `(ranges, mm)` whose destination chunk is `dch` -/
def commitRes (ranges : RangeList) (mm : MigMeta) (A : List Chunk) (dch : Chunk) (B : List Chunk) : List Chunk :=
  compactSlots (A.map (strip ranges mm) ++ land ranges mm mm.dstPart (strip ranges mm dch) :: B.map (strip ranges mm))

theorem entryHit_iff {ranges : RangeList} {epoch : Nat} {mg : Bool} {e : MigStore} :
    entryHit ranges epoch mg e = true ↔ e.ranges = ranges ∧ e.mm.epoch = epoch ∧ e.isMigrating = mg := by
  simp [entryHit, and_assoc]

theorem isTwin_iff {ranges : RangeList} {mm : MigMeta} {e : MigStore} :
    isTwin ranges mm e = true ↔ e.isMigrating = false ∧ e.mm = mm ∧ e.ranges = ranges := by
  simp [isTwin, and_assoc]

theorem keepOf_eq_false_iff {ranges : RangeList} {mm : MigMeta} {e : MigStore} :
    keepOf ranges mm e = false ↔ e.isMigrating = true ∧ e.ranges = ranges ∧ e.mm = mm := by
  simp [keepOf, and_assoc]

theorem keepOf_of_importing {ranges : RangeList} {mm : MigMeta} {e : MigStore} (h : e.isMigrating = false) :
    keepOf ranges mm e = true := by
  simp [keepOf, h]

/-- an entry of `migs` sits in a chunk with an index -/
theorem Cluster.mem_migs_idx {c : Cluster} {e : MigStore} (h : e ∈ c.migs) :
    ∃ (i : Nat) (ch : Chunk), c.chunks[i]? = some ch ∧ (e ∈ ch.mig0 ∨ e ∈ ch.mig1) := by
  obtain ⟨ch, hch, he⟩ := Cluster.mem_migs.mp h
  obtain ⟨i, hi⟩ := List.getElem?_of_mem hch
  exact ⟨i, ch, hi, he⟩

theorem Cluster.migs_of_getElem? {c : Cluster} {i : Nat} {ch : Chunk} (h : c.chunks[i]? = some ch)
    {e : MigStore} (he : e ∈ ch.mig0 ∨ e ∈ ch.mig1) : e ∈ c.migs :=
  Cluster.mem_migs.mpr ⟨ch, List.mem_of_getElem? h, he⟩

section twins
variable {c : Cluster}

/-- the `(ranges, epoch)` keys of importing entries are distinct, too -/
theorem TwinInv.importing_nodup (h : TwinInv c) :
    ((Cluster.importing c).map fun m => (m.ranges, m.mm.epoch)).Nodup := by
  have h1 := (h.1.map (fun p : RangeList × MigMeta => (p.1, p.2.epoch)))
  simp only [List.map_map] at h1
  exact (List.Perm.nodup_iff h1).mp h.2

theorem TwinInv.exists_twin (h : TwinInv c) {m : MigStore} (hm : m ∈ c.migs) (hmig : m.isMigrating = true) :
    ∃ t ∈ c.migs, t.isMigrating = false ∧ t.ranges = m.ranges ∧ t.mm = m.mm := by
  have h1 : (m.ranges, m.mm) ∈ (c.migs.filter (·.isMigrating)).map fun m => (m.ranges, m.mm) :=
    List.mem_map.mpr ⟨m, List.mem_filter.mpr ⟨hm, hmig⟩, rfl⟩
  have h2 := (h.1.mem_iff).mp h1
  obtain ⟨t, ht, hteq⟩ := List.mem_map.mp h2
  obtain ⟨ht1, ht2⟩ := List.mem_filter.mp ht
  simp only [Prod.mk.injEq] at hteq
  exact ⟨t, ht1, by simpa using ht2, hteq.1, hteq.2⟩

theorem TwinInv.pending_unique (h : TwinInv c) {m e : MigStore} (hm : m ∈ c.migs) (hmig : m.isMigrating = true)
    (he : e ∈ c.migs) (hemig : e.isMigrating = true) (hr : e.ranges = m.ranges) (hep : e.mm.epoch = m.mm.epoch) :
    e = m :=
  nodup_map_inj h.2 (List.mem_filter.mpr ⟨he, hemig⟩) (List.mem_filter.mpr ⟨hm, hmig⟩)
    (by simp [hr, hep])

theorem TwinInv.importing_unique (h : TwinInv c) {t e : MigStore} (ht : t ∈ c.migs) (htm : t.isMigrating = false)
    (he : e ∈ c.migs) (hem : e.isMigrating = false) (hr : e.ranges = t.ranges) (hep : e.mm.epoch = t.mm.epoch) :
    e = t :=
  nodup_map_inj (TwinInv.importing_nodup h) (List.mem_filter.mpr ⟨he, by simp [hem]⟩)
    (List.mem_filter.mpr ⟨ht, by simp [htm]⟩) (by simp [hr, hep])

end twins

/-- `findEntry` on a pending entry returns its source position -/
theorem findEntry_pending {c : Cluster} (hinv : CommitInv c) {m : MigStore} (hm : m ∈ c.migs)
    (hmig : m.isMigrating = true) :
    findEntry c.chunks m.ranges m.mm.epoch true = some (m.mm.srcChunk, m.mm.srcPart) := by
  unfold findEntry
  cases hfe : findEntry.go m.ranges m.mm.epoch true c.chunks 0 with
  | none =>
    exfalso
    obtain ⟨ch, hch, he⟩ := Cluster.mem_migs.mp hm
    have := findEntry_go_none hfe ch hch
    have hhit : entryHit m.ranges m.mm.epoch true m = true := entryHit_iff.mpr ⟨rfl, rfl, hmig⟩
    rcases he with he | he
    · rw [this.1 m he] at hhit; cases hhit
    · rw [this.2 m he] at hhit; cases hhit
  | some jp =>
    obtain ⟨j, p⟩ := jp
    obtain ⟨ch, _, hget, hp⟩ := findEntry_go_some hfe
    simp only [Nat.sub_zero] at hget
    have hpos := hinv.pos j ch hget
    rcases hp with ⟨rfl, e, he, hhit⟩ | ⟨rfl, e, he, hhit⟩
    · obtain ⟨h1, h2, h3⟩ := entryHit_iff.mp hhit
      have hem : e ∈ c.migs := Cluster.migs_of_getElem? hget (Or.inl he)
      have : e = m := TwinInv.pending_unique hinv.twin hm hmig hem h3 h1 h2
      subst this
      have := hpos.1 e he
      simp only [h3, if_true, Prod.mk.injEq] at this
      simp [this.1, this.2]
    · obtain ⟨h1, h2, h3⟩ := entryHit_iff.mp hhit
      have hem : e ∈ c.migs := Cluster.migs_of_getElem? hget (Or.inr he)
      have : e = m := TwinInv.pending_unique hinv.twin hm hmig hem h3 h1 h2
      subst this
      have := hpos.2.1 e he
      simp only [h3, if_true, Prod.mk.injEq] at this
      simp [this.1, this.2]

/-- `findEntry` for the importing twin returns the destination position -/
theorem findEntry_importing {c : Cluster} (hinv : CommitInv c) {m : MigStore} (hm : m ∈ c.migs)
    (hmig : m.isMigrating = true) :
    findEntry c.chunks m.ranges m.mm.epoch false = some (m.mm.dstChunk, m.mm.dstPart) := by
  obtain ⟨t, ht, htm, htr, htmm⟩ := TwinInv.exists_twin hinv.twin hm hmig
  unfold findEntry
  cases hfe : findEntry.go m.ranges m.mm.epoch false c.chunks 0 with
  | none =>
    exfalso
    obtain ⟨ch, hch, he⟩ := Cluster.mem_migs.mp ht
    have := findEntry_go_none hfe ch hch
    have hhit : entryHit m.ranges m.mm.epoch false t = true :=
      entryHit_iff.mpr ⟨htr, by rw [htmm], htm⟩
    rcases he with he | he
    · rw [this.1 t he] at hhit; cases hhit
    · rw [this.2 t he] at hhit; cases hhit
  | some jp =>
    obtain ⟨j, p⟩ := jp
    obtain ⟨ch, _, hget, hp⟩ := findEntry_go_some hfe
    simp only [Nat.sub_zero] at hget
    have hpos := hinv.pos j ch hget
    rcases hp with ⟨rfl, e, he, hhit⟩ | ⟨rfl, e, he, hhit⟩
    · obtain ⟨h1, h2, h3⟩ := entryHit_iff.mp hhit
      have hem : e ∈ c.migs := Cluster.migs_of_getElem? hget (Or.inl he)
      have : e = t := TwinInv.importing_unique hinv.twin ht htm hem h3 (h1.trans htr.symm) (h2.trans (by rw [htmm]))
      subst this
      have := hpos.1 e he
      simp only [h3, Bool.false_eq_true, if_false, Prod.mk.injEq] at this
      rw [← htmm]; simp [this.1, this.2]
    · obtain ⟨h1, h2, h3⟩ := entryHit_iff.mp hhit
      have hem : e ∈ c.migs := Cluster.migs_of_getElem? hget (Or.inr he)
      have : e = t := TwinInv.importing_unique hinv.twin ht htm hem h3 (h1.trans htr.symm) (h2.trans (by rw [htmm]))
      subst this
      have := hpos.2.1 e he
      simp only [h3, Bool.false_eq_true, if_false, Prod.mk.injEq] at this
      rw [← htmm]; simp [this.1, this.2]

/-- where the importing twin of a pending entry sits -/
theorem twin_position {c : Cluster} (hinv : CommitInv c) {m : MigStore} (hm : m ∈ c.migs)
    (hmig : m.isMigrating = true) :
    ∃ A dch B t, c.chunks = A ++ dch :: B ∧ A.length = m.mm.dstChunk ∧
      t.isMigrating = false ∧ t.ranges = m.ranges ∧ t.mm = m.mm ∧
      ((m.mm.dstPart = 0 ∧ t ∈ dch.mig0) ∨ (m.mm.dstPart = 1 ∧ t ∈ dch.mig1)) := by
  obtain ⟨t, ht, htm, htr, htmm⟩ := TwinInv.exists_twin hinv.twin hm hmig
  obtain ⟨i, ch, hget, he⟩ := Cluster.mem_migs_idx ht
  have hpos := hinv.pos i ch hget
  obtain ⟨hdec, hlen⟩ := getElem?_decomp hget
  rcases he with he | he
  · have := hpos.1 t he
    simp only [htm, Bool.false_eq_true, if_false, Prod.mk.injEq, htmm] at this
    exact ⟨_, ch, _, t, hdec, by rw [hlen]; exact this.1.symm, htm, htr, htmm, Or.inl ⟨this.2, he⟩⟩
  · have := hpos.2.1 t he
    simp only [htm, Bool.false_eq_true, if_false, Prod.mk.injEq, htmm] at this
    exact ⟨_, ch, _, t, hdec, by rw [hlen]; exact this.1.symm, htm, htr, htmm, Or.inr ⟨this.2, he⟩⟩

theorem getElem?_append_mid {α : Type} (A B : List α) (c : α) : (A ++ c :: B)[A.length]? = some c := by
  simp

theorem getElem?_append_lt {α : Type} {A B : List α} {c a : α} {j : Nat} (h : A[j]? = some a) :
    (A ++ c :: B)[j]? = some a := by
  have hj : j < A.length := (List.getElem?_eq_some_iff.mp h).1
  rw [List.getElem?_append_left hj]; exact h

/-- the second loop of `commit_migration` on the stripped chunks -/
theorem commitDst_strip {c : Cluster} (hinv : CommitInv c) {m : MigStore} {A B : List Chunk} {dch : Chunk}
    {t : MigStore} (hdec : c.chunks = A ++ dch :: B) (hlen : A.length = m.mm.dstChunk)
    (htm : t.isMigrating = false) (htr : t.ranges = m.ranges) (htmm : t.mm = m.mm)
    (hpart : (m.mm.dstPart = 0 ∧ t ∈ dch.mig0) ∨ (m.mm.dstPart = 1 ∧ t ∈ dch.mig1)) :
    commitDst m.ranges m.mm (c.chunks.map (strip m.ranges m.mm)) =
      A.map (strip m.ranges m.mm) ++ land m.ranges m.mm m.mm.dstPart (strip m.ranges m.mm dch) ::
        B.map (strip m.ranges m.mm) := by
  rw [hdec, List.map_append, List.map_cons]
  have htw : isTwin m.ranges m.mm t = true := isTwin_iff.mpr ⟨htm, htmm, htr⟩
  have hkeep : keepOf m.ranges m.mm t = true := keepOf_of_importing htm
  apply commitDst_decomp
  · intro a ha
    obtain ⟨a0, ha0, rfl⟩ := List.mem_map.mp ha
    obtain ⟨j, hj⟩ := List.getElem?_of_mem ha0
    have hjl : j < A.length := (List.getElem?_eq_some_iff.mp hj).1
    have hget : c.chunks[j]? = some a0 := by rw [hdec]; exact getElem?_append_lt hj
    have hpos := hinv.pos j a0 hget
    constructor
    · simp only [List.any_eq_false, strip]
      intro e he
      obtain ⟨he1, _⟩ := List.mem_filter.mp he
      cases htw' : isTwin m.ranges m.mm e with
      | false => simp
      | true =>
        exfalso
        obtain ⟨h1, h2, _⟩ := isTwin_iff.mp htw'
        have := hpos.1 e he1
        simp only [h1, Bool.false_eq_true, if_false, Prod.mk.injEq, h2] at this
        omega
    · simp only [List.any_eq_false, strip]
      intro e he
      obtain ⟨he1, _⟩ := List.mem_filter.mp he
      cases htw' : isTwin m.ranges m.mm e with
      | false => simp
      | true =>
        exfalso
        obtain ⟨h1, h2, _⟩ := isTwin_iff.mp htw'
        have := hpos.2.1 e he1
        simp only [h1, Bool.false_eq_true, if_false, Prod.mk.injEq, h2] at this
        omega
  · intro hp
    rcases hpart with ⟨_, ht0⟩ | ⟨hp1, _⟩
    · simp only [List.any_eq_true, strip]
      exact ⟨t, List.mem_filter.mpr ⟨ht0, hkeep⟩, htw⟩
    · omega
  · intro hp
    rcases hpart with ⟨hp0, _⟩ | ⟨_, ht1⟩
    · exact absurd hp0 hp
    · have hget : c.chunks[A.length]? = some dch := by rw [hdec]; exact getElem?_append_mid A B dch
      have hpos := hinv.pos _ dch hget
      constructor
      · simp only [List.any_eq_false, strip]
        intro e he
        obtain ⟨he1, _⟩ := List.mem_filter.mp he
        cases htw' : isTwin m.ranges m.mm e with
        | false => simp
        | true =>
          exfalso
          obtain ⟨h1, h2, _⟩ := isTwin_iff.mp htw'
          have := hpos.1 e he1
          simp only [h1, Bool.false_eq_true, if_false, Prod.mk.injEq, h2] at this
          omega
      · simp only [List.any_eq_true, strip]
        exact ⟨t, List.mem_filter.mpr ⟨ht1, hkeep⟩, htw⟩

/-- **commit accepts every pending entry** and produces `commitRes` -/
theorem commitCore_pending {s : Store} {name : String} {c : Cluster} (hf : s.findCluster name = some c)
    (hinv : CommitInv c) {m : MigStore} (hm : m ∈ c.migs) (hmig : m.isMigrating = true) :
    ∃ A dch B t, c.chunks = A ++ dch :: B ∧ A.length = m.mm.dstChunk ∧
      t.isMigrating = false ∧ t.ranges = m.ranges ∧ t.mm = m.mm ∧
      ((m.mm.dstPart = 0 ∧ t ∈ dch.mig0) ∨ (m.mm.dstPart = 1 ∧ t ∈ dch.mig1)) ∧
      commitMigrationCore s name m.ranges m.mm.epoch false =
        ((s.setCluster { c with chunks := commitRes m.ranges m.mm A dch B, epoch := s.globalEpoch + 1 }).bump,
          R.ok ()) := by
  obtain ⟨A, dch, B, t, hdec, hlen, htm, htr, htmm, hpart⟩ := twin_position hinv hm hmig
  refine ⟨A, dch, B, t, hdec, hlen, htm, htr, htmm, hpart, ?_⟩
  unfold commitMigrationCore
  simp only [hf, Bool.false_eq_true, if_false, findEntry_pending hinv hm hmig,
    findEntry_importing hinv hm hmig]
  show ((s.setCluster { c with
      chunks := compactSlots (commitDst m.ranges m.mm (c.chunks.map (strip m.ranges m.mm))),
      epoch := s.globalEpoch + 1 }).bump, R.ok ()) = _
  rw [commitDst_strip hinv hdec hlen htm htr htmm hpart]
  rfl

/-- a descriptor that matches no pending entry is rejected and changes nothing -/
theorem commitCore_unknown {s : Store} {name : String} {c : Cluster} (hf : s.findCluster name = some c)
    (ranges : RangeList) (epoch : Nat)
    (hno : ∀ m ∈ c.migs, m.isMigrating = true → ¬ (m.ranges = ranges ∧ m.mm.epoch = epoch)) :
    commitMigrationCore s name ranges epoch false = (s, R.err Err.migrationTaskNotFound) := by
  unfold commitMigrationCore
  simp only [hf, Bool.false_eq_true, if_false]
  cases hfe : findEntry c.chunks ranges epoch true with
  | none => rfl
  | some jp =>
    exfalso
    obtain ⟨j, p⟩ := jp
    unfold findEntry at hfe
    obtain ⟨ch, _, hget, hp⟩ := findEntry_go_some hfe
    simp only [Nat.sub_zero] at hget
    rcases hp with ⟨_, e, he, hhit⟩ | ⟨_, e, he, hhit⟩
    · obtain ⟨h1, h2, h3⟩ := entryHit_iff.mp hhit
      exact hno e (Cluster.migs_of_getElem? hget (Or.inl he)) h3 ⟨h1, h2⟩
    · obtain ⟨h1, h2, h3⟩ := entryHit_iff.mp hhit
      exact hno e (Cluster.migs_of_getElem? hget (Or.inr he)) h3 ⟨h1, h2⟩

end Um.Broker.Scale
