import UmProofs.BrokerDefs
/-!
# Epoch proofs (C04, C13) — part 1: helper facts and the generic frame machinery

The served view of a proxy depends on the store only through `findProxy`, `findCluster` and
`globalEpoch`. `FrameK s s'` says how a (non-registering) operation may change those three:

* the global epoch does not decrease;
* for every cluster name the cluster found is unchanged, or gone (then the global epoch grew), or
  its epoch exceeds the old global epoch (`CF`);
* no proxy record appears or disappears; a record changes at most in its `cluster` tag, and a tag
  changes only while the global epoch grows, and only to `none` or to a name whose cluster (if it
  exists) has an epoch above the old global epoch (`PFk`).

`ClStep` is the list of ways the cluster list may change (nothing / replace one cluster /
append a new name / filter a name out / re-epoch all); `CF`, preservation of `EpochInv` and of
name uniqueness all follow from it once, generically.
-/
namespace Um.Broker.Epoch
open Um Um.Slots Um.Broker

/-! ## `R` monad -/

theorem R.bind_ok_iff {α β} (x : R α) (f : α → R β) (b : β) :
    (x >>= f) = .ok b ↔ ∃ a, x = .ok a ∧ f a = .ok b := by
  cases x <;> simp [bind]

instance : LawfulMonad R := LawfulMonad.mk' R
  (id_map := by intro α x; cases x <;> rfl)
  (pure_bind := by intros; rfl)
  (bind_assoc := by intro α β γ x f g; cases x <;> rfl)

@[simp] theorem R.pure_eq {α} (a : α) : (pure a : R α) = .ok a := rfl

theorem expectSome_ok {α} (o : Option α) (w : String) (a : α) : expectSome o w = .ok a ↔ o = some a := by
  cases o <;> simp [expectSome]

/-! ## store helpers -/

@[simp] theorem bump_globalEpoch (s : Store) : s.bump.globalEpoch = s.globalEpoch + 1 := rfl
@[simp] theorem bump_clusters (s : Store) : s.bump.clusters = s.clusters := rfl
@[simp] theorem bump_proxies (s : Store) : s.bump.proxies = s.proxies := rfl
@[simp] theorem bump_failed (s : Store) : s.bump.failed = s.failed := rfl
@[simp] theorem bump_failures (s : Store) : s.bump.failures = s.failures := rfl
@[simp] theorem setCluster_globalEpoch (s : Store) (c : Cluster) : (s.setCluster c).globalEpoch = s.globalEpoch := rfl
@[simp] theorem setCluster_proxies (s : Store) (c : Cluster) : (s.setCluster c).proxies = s.proxies := rfl
@[simp] theorem setProxyCluster_globalEpoch (s : Store) (a : String) (v : Option String) :
    (s.setProxyCluster a v).globalEpoch = s.globalEpoch := rfl
@[simp] theorem setProxyCluster_clusters (s : Store) (a : String) (v : Option String) :
    (s.setProxyCluster a v).clusters = s.clusters := rfl

/-- `find?` by cluster name -/
def findC (l : List Cluster) (n : String) : Option Cluster := l.find? (·.name == n)
/-- `find?` by proxy address -/
def findP (l : List ProxyRes) (a : String) : Option ProxyRes := l.find? (·.addr == a)

theorem findCluster_eq (s : Store) (n : String) : s.findCluster n = findC s.clusters n := rfl
theorem findProxy_eq (s : Store) (a : String) : s.findProxy a = findP s.proxies a := rfl

theorem findC_some {l : List Cluster} {n : String} {c : Cluster} (h : findC l n = some c) :
    c ∈ l ∧ c.name = n := by
  unfold findC at h
  exact ⟨List.mem_of_find?_eq_some h, by simpa using List.find?_some h⟩

theorem findP_some {l : List ProxyRes} {a : String} {p : ProxyRes} (h : findP l a = some p) :
    p ∈ l ∧ p.addr = a := by
  unfold findP at h
  exact ⟨List.mem_of_find?_eq_some h, by simpa using List.find?_some h⟩

theorem findC_none {l : List Cluster} {n : String} : findC l n = none ↔ ∀ c ∈ l, c.name ≠ n := by
  unfold findC; simp

theorem findP_none {l : List ProxyRes} {a : String} : findP l a = none ↔ ∀ p ∈ l, p.addr ≠ a := by
  unfold findP; simp

/-- replacing the clusters named like `c` by `c` -/
def replaceC (c : Cluster) (x : Cluster) : Cluster := if x.name == c.name then c else x

theorem setCluster_clusters (s : Store) (c : Cluster) : (s.setCluster c).clusters = s.clusters.map (replaceC c) := rfl

theorem replaceC_name (c x : Cluster) : (replaceC c x).name = x.name := by
  unfold replaceC; split
  · rename_i h; exact (beq_iff_eq.mp h).symm
  · rfl

theorem findC_map_replace (l : List Cluster) (c : Cluster) (n : String) :
    findC (l.map (replaceC c)) n = (findC l n).map (replaceC c) := by
  induction l with
  | nil => rfl
  | cons x xs ih =>
    unfold findC at ih ⊢
    simp only [List.map_cons, List.find?_cons, replaceC_name]
    split
    · rfl
    · exact ih

theorem findC_replace_same {l : List Cluster} {c c0 : Cluster} (h : findC l c.name = some c0) :
    findC (l.map (replaceC c)) c.name = some c := by
  rw [findC_map_replace, h]
  have := (findC_some h).2
  simp [replaceC, this]

theorem findC_replace_ne {l : List Cluster} {c : Cluster} {n : String} (h : n ≠ c.name) :
    findC (l.map (replaceC c)) n = findC l n := by
  rw [findC_map_replace]
  cases hx : findC l n with
  | none => rfl
  | some x =>
    have := (findC_some hx).2
    have hne : ¬ (x.name == c.name) = true := by simp [this, h]
    simp [replaceC, hne]

theorem findC_append (l : List Cluster) (c : Cluster) (n : String) :
    findC (l ++ [c]) n = (findC l n).or (if c.name == n then some c else none) := by
  unfold findC
  rw [List.find?_append]
  by_cases h : c.name = n <;> simp [h]

theorem findC_filter_ne (l : List Cluster) (m n : String) :
    findC (l.filter (·.name != m)) n = if n = m then none else findC l n := by
  induction l with
  | nil => simp [findC]
  | cons x xs ih =>
    unfold findC at ih ⊢
    simp only [List.filter_cons]
    by_cases hx : x.name = m
    · simp only [hx, bne_self_eq_false, Bool.false_eq_true, ↓reduceIte, ih, List.find?_cons]
      split
      · rfl
      · rename_i hnm
        have : ¬ (m == n) = true := by simp; exact fun h => hnm h.symm
        simp [this]
    · have : (x.name != m) = true := by simp [hx]
      simp only [this, ↓reduceIte, List.find?_cons, ih]
      split
      · rename_i heq
        have heq' : x.name = n := by simpa using heq
        split
        · rename_i hnm; exact absurd (heq'.trans hnm) hx
        · rfl
      · rfl

theorem findC_map_epoch (l : List Cluster) (e : Nat) (n : String) :
    findC (l.map fun c => { c with epoch := e }) n = (findC l n).map fun c => { c with epoch := e } := by
  induction l with
  | nil => rfl
  | cons x xs ih =>
    unfold findC at ih ⊢
    simp only [List.map_cons, List.find?_cons]
    split
    · rfl
    · exact ih

/-! ## proxies: retagging -/

/-- `l'` has the same records as `l` (looked up by address) except that `cluster` tags may have
been overwritten by values satisfying `P` -/
def RetagL (P : Option String → Prop) (l l' : List ProxyRes) : Prop :=
  ∀ a, (findP l a = none → findP l' a = none) ∧
    ∀ p, findP l a = some p → ∃ v, findP l' a = some { p with cluster := v } ∧ (v = p.cluster ∨ P v)

theorem RetagL.refl (P : Option String → Prop) (l : List ProxyRes) : RetagL P l l :=
  fun _ => ⟨id, fun p h => ⟨p.cluster, h, Or.inl rfl⟩⟩

theorem RetagL.trans {P : Option String → Prop} {l l' l'' : List ProxyRes}
    (h1 : RetagL P l l') (h2 : RetagL P l' l'') : RetagL P l l'' := by
  intro a
  refine ⟨fun h => (h2 a).1 ((h1 a).1 h), fun p hp => ?_⟩
  obtain ⟨v, hv, hv'⟩ := (h1 a).2 p hp
  obtain ⟨w, hw, hw'⟩ := (h2 a).2 _ hv
  refine ⟨w, hw, ?_⟩
  rcases hw' with hw' | hw'
  · simp only at hw'; subst hw'; exact hv'
  · exact Or.inr hw'

theorem RetagL.mono {P Q : Option String → Prop} {l l' : List ProxyRes} (h : RetagL P l l')
    (hpq : ∀ v, P v → Q v) : RetagL Q l l' := by
  intro a
  refine ⟨(h a).1, fun p hp => ?_⟩
  obtain ⟨v, hv, hv'⟩ := (h a).2 p hp
  exact ⟨v, hv, hv'.imp id (hpq v)⟩

def retagP (b : String) (v : Option String) (p : ProxyRes) : ProxyRes :=
  if p.addr == b then { p with cluster := v } else p

theorem setProxyCluster_proxies (s : Store) (b : String) (v : Option String) :
    (s.setProxyCluster b v).proxies = s.proxies.map (retagP b v) := rfl

theorem retagP_addr (b : String) (v : Option String) (p : ProxyRes) : (retagP b v p).addr = p.addr := by
  unfold retagP; split <;> rfl

theorem findP_map_retag (l : List ProxyRes) (b : String) (v : Option String) (a : String) :
    findP (l.map (retagP b v)) a = (findP l a).map (retagP b v) := by
  induction l with
  | nil => rfl
  | cons x xs ih =>
    unfold findP at ih ⊢
    simp only [List.map_cons, List.find?_cons, retagP_addr]
    split
    · rfl
    · exact ih

theorem retagL_retag (P : Option String → Prop) (l : List ProxyRes) (b : String) (v : Option String)
    (hv : P v) : RetagL P l (l.map (retagP b v)) := by
  intro a
  rw [findP_map_retag]
  refine ⟨fun h => by simp [h], fun p hp => ?_⟩
  rw [hp]
  by_cases hb : (p.addr == b) = true
  · exact ⟨v, by simp [retagP, hb], Or.inr hv⟩
  · exact ⟨p.cluster, by simp [retagP, hb], Or.inl rfl⟩

theorem retagL_setProxyCluster (P : Option String → Prop) (s : Store) (b : String) (v : Option String)
    (hv : P v) : RetagL P s.proxies (s.setProxyCluster b v).proxies :=
  retagL_retag P _ b v hv

/-- a fold of `setProxyCluster` -/
theorem foldl_setProxyCluster (P : Option String → Prop) (v : Option String) (hv : P v)
    (addrs : List String) (s : Store) :
    let s' := addrs.foldl (fun s a => s.setProxyCluster a v) s
    s'.globalEpoch = s.globalEpoch ∧ s'.clusters = s.clusters ∧ s'.failed = s.failed ∧
      s'.failures = s.failures ∧ RetagL P s.proxies s'.proxies := by
  induction addrs generalizing s with
  | nil => exact ⟨rfl, rfl, rfl, rfl, RetagL.refl _ _⟩
  | cons a as ih =>
    simp only [List.foldl_cons]
    obtain ⟨h1, h2, h3, h4, h5⟩ := ih (s.setProxyCluster a v)
    exact ⟨h1, h2, h3, h4, (retagL_setProxyCluster P s a v hv).trans h5⟩

/-- `tagProxies` -/
theorem tagProxies_ok (P : Option String → Prop) (name : String) (hv : P (some name))
    (addrs : List String) (s s' : Store) (h : tagProxies s addrs name = .ok s') :
    s'.globalEpoch = s.globalEpoch ∧ s'.clusters = s.clusters ∧ RetagL P s.proxies s'.proxies := by
  unfold tagProxies at h
  induction addrs generalizing s with
  | nil =>
    simp only [List.foldlM_nil, R.pure_eq, R.ok.injEq] at h
    subst h; exact ⟨rfl, rfl, RetagL.refl _ _⟩
  | cons a as ih =>
    simp only [List.foldlM_cons] at h
    obtain ⟨s1, hs1, h⟩ := (R.bind_ok_iff _ _ _).mp h
    split at hs1
    · simp only [R.pure_eq, R.ok.injEq] at hs1
      subst hs1
      obtain ⟨h1, h2, h3⟩ := ih _ h
      exact ⟨h1, h2, (retagL_setProxyCluster P s a _ hv).trans h3⟩
    · cases hs1

/-! ## the frame -/

/-- cluster frame -/
def CFl (G G' : Nat) (l l' : List Cluster) : Prop :=
  ∀ n, findC l' n = findC l n ∨ (findC l' n = none ∧ G < G') ∨ ∃ c', findC l' n = some c' ∧ G < c'.epoch

def CF (s s' : Store) : Prop := CFl s.globalEpoch s'.globalEpoch s.clusters s'.clusters

/-- a tag value an operation may write -/
def TagNew (s s' : Store) (v : Option String) : Prop :=
  s.globalEpoch < s'.globalEpoch ∧ ∀ n, v = some n → ∀ c', s'.findCluster n = some c' → s.globalEpoch < c'.epoch

structure FrameK (s s' : Store) : Prop where
  mono : s.globalEpoch ≤ s'.globalEpoch
  cf : CF s s'
  pf : RetagL (TagNew s s') s.proxies s'.proxies

theorem CFl.refl (G : Nat) (l : List Cluster) : CFl G G l l := fun _ => Or.inl rfl

theorem FrameK.refl (s : Store) : FrameK s s := ⟨Nat.le_refl _, CFl.refl _ _, RetagL.refl _ _⟩

theorem CFl.trans {G G' G'' : Nat} {l l' l'' : List Cluster} (hG : G ≤ G') (hG' : G' ≤ G'')
    (h1 : CFl G G' l l') (h2 : CFl G' G'' l' l'') : CFl G G'' l l'' := by
  intro n
  rcases h2 n with h | ⟨h, hlt⟩ | ⟨c'', h, hlt⟩
  · rw [h]
    rcases h1 n with h' | ⟨h', hlt'⟩ | ⟨c', h', hlt'⟩
    · exact Or.inl h'
    · exact Or.inr (Or.inl ⟨h', by omega⟩)
    · exact Or.inr (Or.inr ⟨c', h', hlt'⟩)
  · exact Or.inr (Or.inl ⟨h, by omega⟩)
  · exact Or.inr (Or.inr ⟨c'', h, by omega⟩)

theorem FrameK.trans {s s' s'' : Store} (h1 : FrameK s s') (h2 : FrameK s' s'') : FrameK s s'' := by
  refine ⟨Nat.le_trans h1.mono h2.mono, CFl.trans h1.mono h2.mono h1.cf h2.cf, ?_⟩
  have hm1 := h1.mono
  have hm2 := h2.mono
  -- both retaggings, each weakened to `TagNew s s''`
  have a1 : RetagL (TagNew s s'') s.proxies s'.proxies := by
    refine h1.pf.mono fun v hv => ⟨by have := hv.1; omega, fun n hn c'' hc'' => ?_⟩
    rw [findCluster_eq] at hc''
    rcases h2.cf n with h | ⟨h, _⟩ | ⟨c2, h, hlt⟩
    · rw [h] at hc''; exact hv.2 n hn c'' hc''
    · rw [h] at hc''; cases hc''
    · rw [h] at hc''; cases hc''; omega
  have a2 : RetagL (TagNew s s'') s'.proxies s''.proxies := by
    refine h2.pf.mono fun v hv => ⟨by have := hv.1; omega, fun n hn c'' hc'' => ?_⟩
    have := hv.2 n hn c'' hc''; omega
  exact a1.trans a2

/-! ## ways the cluster list may change -/

/-- every migration entry of these chunks has an epoch `≤ e` -/
def ChunksLe (e : Nat) (chunks : List Chunk) : Prop := ∀ ch ∈ chunks, ∀ m ∈ ch.migs, m.mm.epoch ≤ e

theorem ChunksLe.mono {e e' : Nat} {chunks : List Chunk} (h : ChunksLe e chunks) (he : e ≤ e') :
    ChunksLe e' chunks := fun ch hch m hm => Nat.le_trans (h ch hch m hm) he

def ClusterOk (G : Nat) (c : Cluster) : Prop := c.epoch ≤ G ∧ ChunksLe c.epoch c.chunks

theorem epochInv_iff (s : Store) : EpochInv s ↔ ∀ c ∈ s.clusters, ClusterOk s.globalEpoch c := by
  unfold EpochInv ClusterOk ChunksLe Cluster.migs
  constructor
  · intro h c hc
    refine ⟨(h c hc).1, fun ch hch m hm => (h c hc).2 m (List.mem_flatMap.mpr ⟨ch, hch, hm⟩)⟩
  · intro h c hc
    refine ⟨(h c hc).1, fun m hm => ?_⟩
    obtain ⟨ch, hch, hm⟩ := List.mem_flatMap.mp hm
    exact (h c hc).2 ch hch m hm

/-- a cluster an operation wrote: epoch above the old global epoch, at most the new one, and its
migration epochs are bounded by it provided the old cluster's were bounded by the old epoch -/
def Fresh (G G' : Nat) (c' : Cluster) : Prop := G < c'.epoch ∧ c'.epoch ≤ G' ∧ ChunksLe c'.epoch c'.chunks

inductive ClStep (G G' : Nat) (l : List Cluster) : List Cluster → Prop where
  | same : ClStep G G' l l
  /-- replace the cluster(s) named `c'.name`; `c'` is fresh provided the replaced one was fine -/
  | set (c0 c' : Cluster) (hf : findC l c'.name = some c0)
      (hfresh : ClusterOk G c0 → Fresh G G' c') : ClStep G G' l (l.map (replaceC c'))
  | add (c' : Cluster) (hf : findC l c'.name = none) (hfresh : Fresh G G' c') : ClStep G G' l (l ++ [c'])
  | del (n : String) (hlt : G < G') : ClStep G G' l (l.filter (·.name != n))
  | all (e : Nat) (hlt : G < e) (hle : e ≤ G') : ClStep G G' l (l.map fun c => { c with epoch := e })

def AllOk (G : Nat) (l : List Cluster) : Prop := ∀ c ∈ l, ClusterOk G c

theorem ClusterOk.mono {G G' : Nat} {c : Cluster} (h : ClusterOk G c) (hG : G ≤ G') : ClusterOk G' c :=
  ⟨Nat.le_trans h.1 hG, h.2⟩

theorem ClStep.allOk {G G' : Nat} {l l' : List Cluster} (h : ClStep G G' l l') (hG : G ≤ G')
    (hok : AllOk G l) : AllOk G' l' := by
  cases h with
  | same => exact fun c hc => (hok c hc).mono hG
  | set c0 c' hf hfresh =>
    intro c hc
    obtain ⟨x, hx, rfl⟩ := List.mem_map.mp hc
    unfold replaceC
    split
    · have := hfresh (hok c0 (findC_some hf).1)
      exact ⟨this.2.1, this.2.2⟩
    · exact (hok x hx).mono hG
  | add c' hf hfresh =>
    intro c hc
    rcases List.mem_append.mp hc with hc | hc
    · exact (hok c hc).mono hG
    · simp only [List.mem_singleton] at hc; subst hc; exact ⟨hfresh.2.1, hfresh.2.2⟩
  | del n hlt =>
    intro c hc
    exact (hok c (List.mem_filter.mp hc).1).mono hG
  | all e hlt hle =>
    intro c hc
    obtain ⟨x, hx, rfl⟩ := List.mem_map.mp hc
    have hx' := hok x hx
    refine ⟨hle, fun ch hch m hm => ?_⟩
    have := hx'.2 ch hch m hm
    have := hx'.1
    simp only
    omega

theorem ClStep.cfl {G G' : Nat} {l l' : List Cluster} (h : ClStep G G' l l') (hok : AllOk G l) :
    CFl G G' l l' := by
  cases h with
  | same => exact fun _ => Or.inl rfl
  | set c0 c' hf hfresh =>
    intro n
    by_cases hn : n = c'.name
    · subst hn
      exact Or.inr (Or.inr ⟨c', findC_replace_same hf, (hfresh (hok c0 (findC_some hf).1)).1⟩)
    · exact Or.inl (findC_replace_ne hn)
  | add c' hf hfresh =>
    intro n
    rw [findC_append]
    cases hx : findC l n with
    | some x => exact Or.inl rfl
    | none =>
      by_cases hn : (c'.name == n) = true
      · exact Or.inr (Or.inr ⟨c', by simp [hn], hfresh.1⟩)
      · exact Or.inl (by simp [hn])
  | del m hlt =>
    intro n
    rw [findC_filter_ne]
    split
    · exact Or.inr (Or.inl ⟨rfl, hlt⟩)
    · exact Or.inl rfl
  | all e hlt hle =>
    intro n
    rw [findC_map_epoch]
    cases hx : findC l n with
    | none => exact Or.inl rfl
    | some x => exact Or.inr (Or.inr ⟨_, rfl, hlt⟩)

/-- cluster names are pairwise distinct -/
def NameInv (s : Store) : Prop := (s.clusters.map (·.name)).Nodup

theorem ClStep.names {G G' : Nat} {l l' : List Cluster} (h : ClStep G G' l l')
    (hnd : (l.map (·.name)).Nodup) : (l'.map (·.name)).Nodup := by
  cases h with
  | same => exact hnd
  | set c0 c' hf hfresh =>
    have : (l.map (replaceC c')).map (·.name) = l.map (·.name) := by
      rw [List.map_map]; apply List.map_congr_left; intro x _; exact replaceC_name c' x
    rw [this]; exact hnd
  | add c' hf hfresh =>
    rw [List.map_append, List.map_singleton]
    refine List.nodup_append.mpr ⟨hnd, by simp, ?_⟩
    intro a ha b hb
    simp only [List.mem_singleton] at hb
    subst hb
    obtain ⟨x, hx, rfl⟩ := List.mem_map.mp ha
    exact findC_none.mp hf x hx
  | del n hlt =>
    exact hnd.sublist (List.Sublist.map _ List.filter_sublist)
  | all e hlt hle =>
    have : (l.map fun c => { c with epoch := e }).map (·.name) = l.map (·.name) := by
      rw [List.map_map]; rfl
    rw [this]; exact hnd

/-! ## what each operation is shown to satisfy -/

/-- the package proved for every operation: frame, `EpochInv` and `NameInv` preservation.
(`EpochInv s` is an assumption of the frame because "the replaced cluster's epoch was `≤ G`" is
what makes a written epoch `G + 1` strictly larger.) -/
structure OpOk (s s' : Store) : Prop where
  mono : s.globalEpoch ≤ s'.globalEpoch
  frame : EpochInv s → FrameK s s'
  epoch : EpochInv s → EpochInv s'
  names : NameInv s → NameInv s'

theorem OpOk.refl (s : Store) : OpOk s s := ⟨Nat.le_refl _, fun _ => FrameK.refl s, id, id⟩

theorem OpOk.trans {s s' s'' : Store} (h1 : OpOk s s') (h2 : OpOk s' s'') : OpOk s s'' :=
  ⟨Nat.le_trans h1.mono h2.mono, fun h => (h1.frame h).trans (h2.frame (h1.epoch h)),
   fun h => h2.epoch (h1.epoch h), fun h => h2.names (h1.names h)⟩

/-- the generic way to obtain `OpOk`: the global epoch does not decrease, the cluster list makes
one `ClStep`, the proxies are retagged with values `P`, and every `P` value is a legal new tag -/
theorem OpOk.of_clStep {s s' : Store} (hG : s.globalEpoch ≤ s'.globalEpoch)
    (hcl : ClStep s.globalEpoch s'.globalEpoch s.clusters s'.clusters)
    (P : Option String → Prop) (hP : RetagL P s.proxies s'.proxies)
    (hnew : EpochInv s → ∀ v, P v → TagNew s s' v) : OpOk s s' := by
  refine ⟨hG, fun hinv => ⟨hG, hcl.cfl ((epochInv_iff s).mp hinv), hP.mono (hnew hinv)⟩, fun hinv => ?_,
    fun hn => hcl.names hn⟩
  exact (epochInv_iff s').mpr (hcl.allOk hG ((epochInv_iff s).mp hinv))

/-- no proxy is retagged -/
theorem OpOk.of_clStep_noTag {s s' : Store} (hG : s.globalEpoch ≤ s'.globalEpoch)
    (hcl : ClStep s.globalEpoch s'.globalEpoch s.clusters s'.clusters)
    (hP : s'.proxies = s.proxies) : OpOk s s' :=
  OpOk.of_clStep hG hcl (fun _ => False) (hP ▸ RetagL.refl _ _) (fun _ _ h => h.elim)

end Um.Broker.Epoch
