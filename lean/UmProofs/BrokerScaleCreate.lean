import UmProofs.BrokerScaleQuota
import UmProofs.BrokerOrdered
/-!
# C10 — `add_cluster` creates a balanced cluster (`create_slots` arithmetic)
-/
namespace Um.Broker.Scale
open Um Um.Slots Um.Broker

theorem createSlots_ok (av rem idx curr : Nat) (hav : 1 ≤ av) :
    createSlots av rem idx curr =
      R.ok ([(curr, curr + av + (if idx < rem then 1 else 0) - 1)], curr + av + (if idx < rem then 1 else 0)) := by
  unfold createSlots
  have : (curr + av + (if idx < rem then 1 else 0) == 0) = false := by
    simp; omega
  simp only [this, Bool.false_eq_true, if_false, fromSingle]
  rw [normRange_of_wf (by show curr ≤ curr + av + (if idx < rem then 1 else 0) - 1; omega)]

theorem toChunksWithSlots_spec (m : Nat) (hm : m ≤ SLOT_NUM) (hm0 : 0 < m) :
    ∀ (arr : List (ProxyRes × ProxyRes)) (i curr : Nat),
      ∃ chunks, toChunksWithSlots (SLOT_NUM / m) (SLOT_NUM - SLOT_NUM / m * m) arr i curr = R.ok chunks ∧
        chunks.length = arr.length ∧ FullChunks m chunks i ∧ NoMigs chunks := by
  have hav : 1 ≤ SLOT_NUM / m := Nat.div_pos hm hm0
  intro arr
  induction arr with
  | nil => intro i curr; exact ⟨[], rfl, rfl, trivial, fun _ h => by cases h⟩
  | cons ab rest ih =>
    intro i curr
    obtain ⟨a, b⟩ := ab
    rw [toChunksWithSlots, createSlots_ok _ _ _ _ hav]
    simp only [bind, pure]
    rw [createSlots_ok _ _ _ _ hav]
    simp only
    obtain ⟨tl, htl, hlen, hfull, hnm⟩ := ih (i + 1)
      (curr + SLOT_NUM / m + (if 2 * i < SLOT_NUM - SLOT_NUM / m * m then 1 else 0) + SLOT_NUM / m +
        (if 2 * i + 1 < SLOT_NUM - SLOT_NUM / m * m then 1 else 0))
    rw [htl]
    refine ⟨_, rfl, by simp [hlen], ⟨⟨_, _, rfl, rfl, ?_, ?_, ?_, ?_⟩, hfull⟩, ?_⟩
    · exact ⟨by intro r hr; simp only [List.mem_singleton] at hr; subst hr; show curr ≤ _; omega, by simp⟩
    · exact ⟨by intro r hr; simp only [List.mem_singleton] at hr; subst hr; show _ ≤ _; dsimp only; omega, by simp⟩
    · simp only [slotsNum_cons, slotsNum_nil, rangeNum, quota, remainder_eq]
      have : (i * 2 + 0 < SLOT_NUM % m) ↔ (2 * i < SLOT_NUM % m) := by omega
      simp only [this]
      split <;> omega
    · simp only [slotsNum_cons, slotsNum_nil, rangeNum, quota, remainder_eq]
      have : (i * 2 + 1 < SLOT_NUM % m) ↔ (2 * i + 1 < SLOT_NUM % m) := by omega
      simp only [this]
      split <;> omega
    · intro ch hch
      rcases List.mem_cons.mp hch with rfl | hch
      · exact ⟨rfl, rfl⟩
      · exact hnm ch hch

theorem allocStep_out {st st' : AllocSt} {a b : String} (h : allocStep st a b = R.ok st') :
    st'.out.length = st.out.length + 1 := by
  unfold allocStep at h
  simp only [bind, pure] at h
  repeat' split at h
  all_goals first | (cases h; done) | skip
  cases h
  simp

theorem allocLoop_out {st st' : AllocSt} {choice : List (String × String)} (h : allocLoop st choice = R.ok st') :
    st'.out.length = st.out.length + choice.length := by
  induction choice generalizing st with
  | nil => simp only [allocLoop, pure] at h; cases h; rfl
  | cons ab rest ih =>
    obtain ⟨a, b⟩ := ab
    simp only [allocLoop, bind] at h
    split at h
    · rename_i st1 h1
      have := allocStep_out h1
      have := ih h
      simp only [List.length_cons]; omega
    all_goals cases h

theorem generateFreeChunks_length {s : Store} {proxyNum : Nat} {choice : List (String × String)}
    {arr : List (ProxyRes × ProxyRes)} (h : generateFreeChunks s proxyNum choice = R.ok arr) :
    arr.length = (proxyNum + 1) / 2 := by
  unfold generateFreeChunks at h
  simp only [bind, pure] at h
  repeat' split at h
  all_goals first | (cases h; done) | skip
  rename_i st hst
  cases h
  have := allocLoop_out hst
  rename_i hlen _
  have hlen' : choice.length = (proxyNum + 1) / 2 := by simpa using hlen
  simp only [List.length_nil, Nat.zero_add] at this
  rw [this, hlen']

/-- the number of chunks handed out, in either mode (`proxyNum` is even for every caller) -/
theorem allocChunks_length {s : Store} {proxyNum first : Nat} {choice : List (String × String)}
    {arr : List (ProxyRes × ProxyRes)} (h : allocChunks s proxyNum first choice = R.ok arr) :
    arr.length = (proxyNum + 1) / 2 := by
  rcases Ord.allocChunks_cases h with ⟨_, h⟩ | ⟨_, h⟩
  · exact generateFreeChunks_length h
  · obtain ⟨hev, hl, _⟩ := Ord.generateFreeChunksOrdered_ok h
    omega

theorem tagProxies_clusters {s s2 : Store} {addrs : List String} {name : String}
    (h : tagProxies s addrs name = R.ok s2) : s2.clusters = s.clusters := by
  unfold tagProxies at h
  induction addrs generalizing s with
  | nil => simp only [List.foldlM, pure] at h; cases h; rfl
  | cons a rest ih =>
    simp only [List.foldlM, bind] at h
    split at h
    · rename_i s1 h1
      split at h1
      · simp only [pure] at h1; cases h1
        exact (ih h).trans rfl
      · cases h1
    all_goals cases h

theorem noMigs_isMigrating {cl : Cluster} (h : NoMigs cl.chunks) : cl.isMigrating = false := by
  unfold Cluster.isMigrating
  simp only [List.any_eq_false]
  intro ch hch
  obtain ⟨h0, h1⟩ := h ch hch
  simp [Chunk.hasMig, h0, h1]

/-- **`add_cluster` creates a balanced cluster** (at most `SLOT_NUM` masters) -/
theorem addCluster_balanced {s s' : Store} {name : String} {nodeNum : Nat} {cfg : Config}
    {choice : List (String × String)} (h : addCluster s name nodeNum cfg choice = (s', R.ok ()))
    (hsz : nodeNum ≤ 2 * SLOT_NUM) :
    ∃ cl, s'.findCluster name = some cl ∧ Balanced cl ∧ cl.chunks.length * 4 = nodeNum ∧
      BalancedShape cl.chunks cl.chunks.length := by
  unfold addCluster at h
  split at h
  · cases h
  split at h
  · cases h
  · split at h
    · cases h
    · rename_i hnew
      split at h
      · cases h
      · rename_i hmod
        dsimp only at h
        split at h
        · cases h
        · rename_i hpn
          split at h
          · rename_i s'' hdo
            simp only [Prod.mk.injEq, and_true] at h
            subst h
            simp only [bind, pure] at hdo
            split at hdo
            · rename_i arr harr
              split at hdo
              · rename_i chunks hchunks
                split at hdo
                · rename_i s2 htag
                  cases hdo
                  have hlen := allocChunks_length harr
                  have hmod' : nodeNum % 4 = 0 := by simpa using hmod
                  have hpn' : nodeNum / 2 ≠ 0 := by simpa using hpn
                  have harrlen : arr.length * 4 = nodeNum := by omega
                  unfold proxyResourceToChunkStore at hchunks
                  simp only [if_true] at hchunks
                  have hm0 : ¬ ((arr.length * 2 == 0) = true) := by simp; omega
                  simp only [hm0] at hchunks
                  obtain ⟨chunks', hc', hl', hfull, hnm⟩ :=
                    toChunksWithSlots_spec (arr.length * 2) (by omega) (by omega) arr 0 0
                  rw [hc'] at hchunks
                  cases hchunks
                  have hcl := tagProxies_clusters htag
                  refine ⟨{ epoch := s.bump.globalEpoch, name := name, chunks := chunks, config := cfg }, ?_, ?_, ?_, ?_⟩
                  · unfold Store.findCluster
                    simp only
                    rw [hcl]
                    have hnone : s.findCluster name = none := by
                      cases hfc : s.findCluster name with
                      | none => rfl
                      | some c => rw [hfc] at hnew; simp at hnew
                    unfold Store.findCluster at hnone
                    rw [List.find?_append]
                    show ((s.clusters.find? _).or _) = _
                    rw [hnone]
                    simp
                  · refine ⟨noMigs_isMigrating hnm, chunks.length, by omega, chunks, [], by simp, rfl, ?_,
                      fun _ h => by cases h⟩
                    show FullChunks (chunks.length * 2) chunks 0
                    rw [hl']; exact hfull
                  · show chunks.length * 4 = nodeNum
                    rw [hl']; exact harrlen
                  · exact ⟨chunks, [], by simp, rfl, by show FullChunks (chunks.length * 2) chunks 0; rw [hl']; exact hfull, fun _ h => by cases h⟩
                all_goals cases hdo
              all_goals cases hdo
            all_goals cases hdo
          all_goals cases h

end Um.Broker.Scale
