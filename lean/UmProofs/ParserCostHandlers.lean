import UmModel.ParserCost
/-!
# C16 — the executor's argument handling: no panic, no wedge, iteration bounds
-/
namespace Um.PC
open Um

/-- the outcome is an answer: neither a panic nor a request that is never answered -/
def HOut.Good (o : HOut) : Prop := o ≠ .wedge ∧ ∀ w, o ≠ .panic w

theorem good_reply (t : String) : (HOut.reply t).Good := ⟨by simp, by intro w; simp⟩
theorem good_dispatch (n : Nat) : (HOut.dispatch n).Good := ⟨by simp, by intro w; simp⟩
theorem good_poll (n t : Nat) : (HOut.poll n t).Good := ⟨by simp, by intro w; simp⟩

/-! ## sizes -/

theorem elem_len {cmd : Cmd} {i : Nat} {s : Bytes} (h : elem cmd i = some s) : s.length ≤ argBytes cmd := by
  induction cmd generalizing i with
  | nil => simp [elem] at h
  | cons x xs ih =>
    cases i with
    | zero =>
      simp only [elem, List.getElem?_cons_zero, Option.join_some] at h
      subst h
      simp [argBytes]
    | succ i =>
      have h' : elem xs i = some s := by simpa [elem] using h
      have := ih h'
      cases x <;> simp [argBytes] <;> omega

theorem argBytes_drop (cmd : Cmd) (n : Nat) : argBytes (cmd.drop n) ≤ argBytes cmd := by
  induction n generalizing cmd with
  | zero => simp
  | succ n ih =>
    cases cmd with
    | nil => simp
    | cons x xs =>
      have := ih xs
      cases x <;> simp [argBytes] <;> omega

theorem upperName_steps (n : Bytes) : (upperName n).2 ≤ n.length := by
  unfold upperName
  split
  · simp only; omega
  · simp

theorem upperName_steps_const (n : Bytes) : (upperName n).2 ≤ Um.Gen.MAX_COMMAND_NAME_LENGTH + 1 := by
  unfold upperName
  split
  · simp
  · simp only; omega

theorem blockingKeys_len (l : List (Option Bytes)) : (blockingKeys l).length ≤ l.length := by
  induction l with
  | nil => simp [blockingKeys]
  | cons x xs ih =>
    cases x with
    | none => simp [blockingKeys]
    | some a => simp [blockingKeys]; omega

theorem msetLoop_le : ∀ (l : List (Option Bytes)), (msetLoop l).1 + 1 ≤ l.length + 1
  | [] => by simp [msetLoop]
  | [none] => by simp [msetLoop]
  | [some _] => by simp [msetLoop]
  | none :: _ :: _ => by simp [msetLoop]
  | some _ :: none :: _ => by simp [msetLoop]
  | some _ :: some _ :: rest => by
    have := msetLoop_le rest
    simp only [msetLoop, List.length_cons]
    omega

/-! ## EVAL -/

theorem handleEval_good (h : HCfg) (cmd : Cmd)
    (hh : h.overflowChecks = false ∨ (h.numkeysBounded = true ∧ cmd.length + 3 ≤ usizeMax)) :
    (handleEval h cmd).out.Good := by
  unfold handleEval
  split
  · exact good_reply _
  · split
    · exact good_reply _
    · rename_i keyNum _
      split
      · exact good_reply _
      · rename_i hnb
        split
        · exact good_dispatch _
        · split
          · rename_i hov
            split
            · rename_i hoc
              exfalso
              cases hh with
              | inl h0 => simp [h0] at hoc
              | inr h1 =>
                simp only [h1.1, Bool.true_and, decide_eq_true_eq] at hnb
                omega
            · exact good_reply _
          · simp only
            split
            · exact good_reply _
            · exact good_dispatch _

theorem handleEval_steps (h : HCfg) (cmd : Cmd)
    (hg : h.numkeysBounded = true ∨ ∀ n, numkeysOf cmd = some n → n ≤ cmd.length) :
    (handleEval h cmd).steps ≤ argBytes cmd + cmd.length := by
  unfold handleEval
  split
  · simp
  · rename_i s hs
    have hl := elem_len hs
    split
    · simp only; omega
    · rename_i keyNum hk
      have hnk : numkeysOf cmd = some keyNum := by simp [numkeysOf, hs, hk]
      split
      · simp only; omega
      · rename_i hnb
        have hle : keyNum ≤ cmd.length := by
          cases hg with
          | inl h1 =>
            simp only [h1, Bool.true_and, decide_eq_true_eq] at hnb
            omega
          | inr h2 => exact h2 _ hnk
        split
        · simp only; omega
        · split
          · split <;> (simp only; omega)
          · simp only
            split <;> (simp only; omega)

/-! ## blocking commands -/

theorem handleBlocking_no_panic (h : HCfg) (ty : String) (cmd : Cmd) :
    ∀ w, (handleBlocking h ty cmd).out ≠ .panic w := by
  intro w
  unfold handleBlocking
  split
  · simp
  · split
    · simp
    · split
      · simp
      · split
        · simp
        · simp only
          split
          · simp
          · split
            · simp
            · split
              · split <;> simp
              · simp

theorem arity_gt_two {ty : String} {len : Nat} (hlen : ¬ (!blockingArgLenOk ty len) = true) : 2 < len := by
  unfold blockingArgLenOk at hlen
  split at hlen
  · rename_i exact bound hf
    have hmem := List.mem_of_find?_eq_some hf
    have hb : ∀ p ∈ Um.Gen.blockingArgLenTable, 2 ≤ p.2.2 := by decide
    have hb := hb _ hmem
    simp only at hb
    split at hlen
    · rename_i hex
      simp only [Bool.not_eq_true', beq_eq_false_iff_ne, ne_eq, Decidable.not_not] at hlen
      have h4 : ∀ p ∈ Um.Gen.blockingArgLenTable, p.2.1 = true → 3 ≤ p.2.2 := by decide
      have := h4 _ hmem hex
      simp only at this
      omega
    · simp only [Bool.not_eq_true', decide_eq_false_iff_not, Decidable.not_not] at hlen
      omega
  · simp at hlen

/-- a wedge needs an unguarded empty key list: a first key that is not a bulk string -/
theorem handleBlocking_no_wedge (h : HCfg) (ty : String) (cmd : Cmd)
    (hg : h.blockingEmptyGuard = true ∨ (elem cmd 1).isSome) :
    (handleBlocking h ty cmd).out ≠ .wedge := by
  unfold handleBlocking
  split
  · simp
  · split
    · simp
    · rename_i hlen
      have hl := arity_gt_two hlen
      split
      · simp
      · split
        · simp
        · simp only
          split
          · simp
          · split
            · simp
            · split
              · rename_i hempty
                split
                · simp
                · rename_i hng
                  exfalso
                  cases hg with
                  | inl h1 => exact hng h1
                  | inr h2 =>
                    cases cmd with
                    | nil => simp at hl
                    | cons c0 rest =>
                      cases rest with
                      | nil => simp at hl
                      | cons c1 rest2 =>
                        cases c1 with
                        | none => simp [elem] at h2
                        | some k =>
                          have : (List.take ((c0 :: some k :: rest2).length - 2) (List.drop 1 (c0 :: some k :: rest2)))
                              = some k :: List.take (rest2.length - 1) rest2 := by
                            simp only [List.length_cons] at hl ⊢
                            have : rest2.length + 1 + 1 - 2 = (rest2.length - 1) + 1 := by omega
                            simp [this]
                          rw [this] at hempty
                          simp [blockingKeys] at hempty
              · simp

theorem handleBlocking_steps (h : HCfg) (ty : String) (cmd : Cmd) :
    (handleBlocking h ty cmd).steps ≤ argBytes cmd + 2 * cmd.length + 1 := by
  unfold handleBlocking
  split
  · simp
  · split
    · simp
    · split
      · simp
      · rename_i last hl
        have hlen := elem_len hl
        split
        · simp only; omega
        · simp only
          have hk := blockingKeys_len (List.take (cmd.length - 2) (List.drop 1 cmd))
          have : (List.take (cmd.length - 2) (List.drop 1 cmd)).length ≤ cmd.length := by
            simp; omega
          split
          · simp only; omega
          · split
            · simp only; omega
            · split
              · split <;> (simp only; omega)
              · simp only; omega

/-! ## MSET / MGET / DEL / EXISTS -/

theorem handleMset_good (h : HCfg) (cmd : Cmd) : (handleMset h cmd).out.Good := by
  unfold handleMset
  split
  split
  · exact good_reply _
  · split
    · exact good_reply _
    · split
      · exact good_reply _
      · exact good_dispatch _

theorem handleMset_steps (h : HCfg) (cmd : Cmd) : (handleMset h cmd).steps ≤ cmd.length + 1 := by
  unfold handleMset
  have h0 := msetLoop_le (cmd.drop 1)
  have : (cmd.drop 1).length ≤ cmd.length := by simp
  have hdiv : cmd.length / 2 ≤ cmd.length := Nat.div_le_self _ _
  split
  rename_i n bad heq
  rw [heq] at h0
  simp only at h0
  split
  · simp only; omega
  · split
    · simp only; omega
    · split <;> (simp only; omega)

theorem handleMultiKey_good (h : HCfg) (cmd : Cmd) : (handleMultiKey h cmd).out.Good := by
  unfold handleMultiKey
  simp only
  split
  · exact good_reply _
  · split
    · exact good_reply _
    · exact good_dispatch _

theorem handleMultiKey_steps (h : HCfg) (cmd : Cmd) : (handleMultiKey h cmd).steps ≤ cmd.length + 1 := by
  unfold handleMultiKey
  have h0 := blockingKeys_len (cmd.drop 1)
  have : (cmd.drop 1).length ≤ cmd.length := by simp
  simp only
  split
  · simp only; omega
  · split <;> (simp only; omega)

/-! ## `handle_data_cmd` -/

/-- the executor variant can neither panic nor wedge on this command -/
def DataGuard (h : HCfg) (cmd : Cmd) : Prop :=
  (h.overflowChecks = false ∨ (h.numkeysBounded = true ∧ cmd.length + 3 ≤ usizeMax)) ∧
  (h.blockingEmptyGuard = true ∨ (elem cmd 1).isSome)

theorem runHandler_good (h : HCfg) (fn ty : String) (cmd : Cmd) (hg : DataGuard h cmd) :
    (runHandler h fn ty cmd).out.Good := by
  unfold runHandler
  split
  · exact handleEval_good h cmd hg.1
  · split
    · exact ⟨handleBlocking_no_wedge h _ cmd hg.2, handleBlocking_no_panic h _ cmd⟩
    · split
      · exact handleMset_good h cmd
      · split
        · exact handleMultiKey_good h cmd
        · exact good_dispatch _

theorem handleData_good (h : HCfg) (cmd : Cmd) (hg : DataGuard h cmd) : (handleData h cmd).out.Good := by
  unfold handleData
  simp only
  split
  · split
    · exact runHandler_good h _ _ cmd hg
    · exact good_dispatch _
  · exact good_dispatch _

theorem runHandler_steps (h : HCfg) (fn ty : String) (cmd : Cmd)
    (hg : h.numkeysBounded = true ∨ ∀ n, numkeysOf cmd = some n → n ≤ cmd.length) :
    (runHandler h fn ty cmd).steps ≤ argBytes cmd + 2 * cmd.length + 1 := by
  unfold runHandler
  split
  · have := handleEval_steps h cmd hg; omega
  · split
    · exact handleBlocking_steps h _ cmd
    · split
      · have := handleMset_steps h cmd; omega
      · split
        · have := handleMultiKey_steps h cmd; omega
        · simp

theorem handleData_steps (h : HCfg) (cmd : Cmd)
    (hg : h.numkeysBounded = true ∨ ∀ n, numkeysOf cmd = some n → n ≤ cmd.length) :
    (handleData h cmd).steps ≤ argBytes cmd + 2 * cmd.length + 1 := by
  unfold handleData
  simp only
  split
  · split
    · exact runHandler_steps h _ _ cmd hg
    · simp
  · simp

/-! ## UMFORWARD and `handle_cmd_ctx` -/

theorem handleUmforward_inl (cmd : Cmd) (r : HRes) (h : handleUmforward cmd = .inl r) :
    r.out.Good ∧ r.steps ≤ argBytes cmd := by
  unfold handleUmforward at h
  split at h
  · simp only [Sum.inl.injEq] at h; subst h; exact ⟨good_reply _, by simp⟩
  · rename_i s hs
    have hl := elem_len hs
    split at h
    · simp only [Sum.inl.injEq] at h; subst h; exact ⟨good_reply _, hl⟩
    · split at h
      · simp only [Sum.inl.injEq] at h; subst h; exact ⟨good_reply _, hl⟩
      · simp only at h
        split at h
        · simp only [Sum.inl.injEq] at h; subst h; exact ⟨good_reply _, hl⟩
        · simp at h

theorem handleUmforward_inr (cmd : Cmd) (t : Nat) (inner : Cmd) (h : handleUmforward cmd = .inr (t, inner)) :
    inner = cmd.drop 2 ∧ ∃ s, elem cmd 1 = some s := by
  unfold handleUmforward at h
  split at h
  · simp at h
  · rename_i s hs
    split at h
    · simp at h
    · split at h
      · simp at h
      · simp only at h
        split at h
        · simp at h
        · simp only [Sum.inr.injEq, Prod.mk.injEq] at h
          exact ⟨h.2.symm, s, hs⟩

theorem nameSteps_le (cmd : Cmd) : nameSteps (some cmd) ≤ 2 * argBytes cmd := by
  unfold nameSteps
  simp only [Option.bind_some]
  cases hn : elem cmd 0 with
  | none => simp
  | some n =>
    have := elem_len hn
    have := upperName_steps n
    simp only; omega

theorem nameSteps_none : nameSteps none = 0 := by
  simp [nameSteps]

/-- guard of the whole request: the command itself and, for UMFORWARD, the forwarded command -/
def CmdGuard (h : HCfg) (cmd : Cmd) : Prop := DataGuard h cmd ∧ DataGuard h (cmd.drop 2)

theorem dataGuard_of_fixed (h : HCfg) (cmd : Cmd) (h1 : h.numkeysBounded = true)
    (h2 : h.blockingEmptyGuard = true) (hl : cmd.length + 3 ≤ usizeMax) : CmdGuard h cmd :=
  ⟨⟨.inr ⟨h1, hl⟩, .inl h2⟩, ⟨.inr ⟨h1, by simp; omega⟩, .inl h2⟩⟩

theorem handleCmd_good (h : HCfg) (cmd : Cmd) (r : HRes) (hg : CmdGuard h cmd)
    (hr : handleCmd h (some cmd) = some r) : r.out.Good := by
  unfold handleCmd at hr
  simp only at hr
  split at hr
  · simp only [Option.some.injEq] at hr; subst hr; exact good_reply _
  · split at hr
    · simp only [Option.some.injEq] at hr; subst hr; exact handleData_good h cmd hg.1
    · split at hr
      · split at hr
        · rename_i r0 hu
          simp only [Option.some.injEq] at hr; subst hr
          exact (handleUmforward_inl cmd r0 hu).1
        · rename_i t inner hu
          obtain ⟨hi, _⟩ := handleUmforward_inr cmd t inner hu
          simp only [Option.some.injEq] at hr; subst hr
          subst hi
          exact handleData_good h _ hg.2
      · split at hr
        · simp only [Option.some.injEq] at hr; subst hr; exact good_reply _
        · simp at hr

theorem handleCmd_none_good (h : HCfg) (r : HRes) (hr : handleCmd h none = some r) : r.out.Good := by
  unfold handleCmd at hr
  simp only at hr
  split at hr
  · simp only [Option.some.injEq] at hr; subst hr; exact good_reply _
  · split at hr
    · simp only [Option.some.injEq] at hr; subst hr; exact good_reply _
    · split at hr
      · simp only [Option.some.injEq] at hr; subst hr; exact good_reply _
      · split at hr
        · simp only [Option.some.injEq] at hr; subst hr; exact good_reply _
        · simp at hr

theorem handleCmd_steps (h : HCfg) (cmd : Cmd) (r : HRes)
    (hg : h.numkeysBounded = true ∨
      ((∀ n, numkeysOf cmd = some n → n ≤ cmd.length) ∧
       (∀ n, numkeysOf (cmd.drop 2) = some n → n ≤ (cmd.drop 2).length)))
    (hr : handleCmd h (some cmd) = some r) : r.steps ≤ 6 * argBytes cmd + 2 * cmd.length + 1 := by
  have hn := nameSteps_le cmd
  unfold handleCmd at hr
  simp only at hr
  split at hr
  · simp only [Option.some.injEq] at hr; subst hr; simp only; omega
  · split at hr
    · simp only [Option.some.injEq] at hr; subst hr
      have := handleData_steps h cmd (hg.imp id (fun x => x.1))
      simp only; omega
    · split at hr
      · split at hr
        · rename_i r0 hu
          simp only [Option.some.injEq] at hr; subst hr
          have := (handleUmforward_inl cmd r0 hu).2
          simp only; omega
        · rename_i t inner hu
          obtain ⟨hi, _⟩ := handleUmforward_inr cmd t inner hu
          simp only [Option.some.injEq] at hr; subst hr
          subst hi
          have h1 := handleData_steps h (cmd.drop 2) (hg.imp id (fun x => x.2))
          have h2 := nameSteps_le (cmd.drop 2)
          have h3 := argBytes_drop cmd 2
          have h4 : (cmd.drop 2).length ≤ cmd.length := by simp
          simp only; omega
      · split at hr
        · simp only [Option.some.injEq] at hr; subst hr; simp only; omega
        · simp at hr

/-! ## slow log -/

theorem handleSlowlogAdd_good (h : HCfg) (cmd : Cmd) (hs : h.slowlogBoundarySafe = true) :
    (handleSlowlogAdd h cmd).out.Good := by
  unfold handleSlowlogAdd
  simp only
  split
  · rename_i hany
    exfalso
    simp only [List.any_eq_true] at hany
    obtain ⟨a, _, ha⟩ := hany
    unfold briefElementPanics at ha
    simp [hs] at ha
  · exact good_reply _

theorem handleSlowlogAdd_steps (h : HCfg) (cmd : Cmd) :
    (handleSlowlogAdd h cmd).steps ≤ Um.Gen.Hostile.LOG_ELEMENT_NUMBER := by
  unfold handleSlowlogAdd
  have : ((cmd.take Um.Gen.Hostile.LOG_ELEMENT_NUMBER).filterMap id).length ≤ Um.Gen.Hostile.LOG_ELEMENT_NUMBER := by
    have := List.length_filterMap_le id (cmd.take Um.Gen.Hostile.LOG_ELEMENT_NUMBER)
    have : (cmd.take Um.Gen.Hostile.LOG_ELEMENT_NUMBER).length ≤ Um.Gen.Hostile.LOG_ELEMENT_NUMBER := by
      simp only [List.length_take]; omega
    omega
  simp only
  split <;> (simp only; omega)

end Um.PC
