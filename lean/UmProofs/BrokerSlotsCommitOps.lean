import UmProofs.BrokerSlotsCommitMap
/-!
# C01: operations that do not touch slots preserve `StoreInv`

`takeoverMaster` / `replaceFailedProxy` (roles, addresses, `mm.epoch` of entries),
`balanceMasters`, `changeConfig`, `forceBumpAllEpoch`, `recoverEpoch`, `addProxy`, `removeProxy`,
`addFailure`, `removeCluster`.
-/
namespace Um.Broker
open Um Um.Slots

/-! ## failover: which entries get the new epoch -/

/-- the meta names one of the positions `pos` -/
def inPos (pos : List (Nat × Nat)) (k : MigMeta) : Bool :=
  pos.contains (k.srcChunk, k.srcPart) || pos.contains (k.dstChunk, k.dstPart)

/-- the net effect of `takeover_master` on the meta of an entry -/
def tkMeta (pos : List (Nat × Nat)) (e : Nat) (k : MigMeta) : MigMeta :=
  if inPos pos k then { k with epoch := e } else k

/-- the net effect of `takeover_master` on an entry -/
def tkEntry (pos : List (Nat × Nat)) (e : Nat) (m : MigStore) : MigStore :=
  if inPos pos m.mm then { m with mm := { m.mm with epoch := e } } else m

theorem metaMap_tk (pos : List (Nat × Nat)) (e : Nat) : MetaMap (tkEntry pos e) (tkMeta pos e) := by
  refine ⟨?_, ?_, ?_, ?_, ?_, ?_, ?_⟩ <;> intro m <;> simp only [tkEntry, tkMeta] <;> split <;> rfl

theorem bumpPeers_eq (pos : List (Nat × Nat)) (e : Nat) (l : List MigStore) :
    bumpPeers pos e l = l.map (tkEntry pos e) := rfl

theorem mem_positionsOf {l : List MigStore} {m : MigStore} (hm : m ∈ l) :
    inPos (positionsOf l) m.mm = true := by
  have : (m.mm.srcChunk, m.mm.srcPart) ∈ positionsOf l := by
    unfold positionsOf
    exact List.mem_flatMap.mpr ⟨m, hm, by simp⟩
  simp only [inPos, List.contains_eq_mem, Bool.or_eq_true, decide_eq_true_eq]
  exact Or.inl this

theorem inPos_append_left {a b : List (Nat × Nat)} {k : MigMeta} (h : inPos a k = true) :
    inPos (a ++ b) k = true := by
  simp only [inPos, List.contains_eq_mem, List.mem_append, Bool.or_eq_true, decide_eq_true_eq] at h ⊢
  rcases h with h | h
  · exact Or.inl (Or.inl h)
  · exact Or.inr (Or.inl h)

theorem inPos_append_right {a b : List (Nat × Nat)} {k : MigMeta} (h : inPos b k = true) :
    inPos (a ++ b) k = true := by
  simp only [inPos, List.contains_eq_mem, List.mem_append, Bool.or_eq_true, decide_eq_true_eq] at h ⊢
  rcases h with h | h
  · exact Or.inl (Or.inr h)
  · exact Or.inr (Or.inr h)

/-- `bumpPeers` after `bumpEntries` on a list whose entries all name a position of `pos` -/
theorem bumpPeers_bumpEntries (pos : List (Nat × Nat)) (e : Nat) (l : List MigStore)
    (h : ∀ m ∈ l, inPos pos m.mm = true) : bumpPeers pos e (bumpEntries l e) = l.map (tkEntry pos e) := by
  rw [bumpPeers_eq, bumpEntries, List.map_map]
  apply List.map_congr_left
  intro m hm
  have h1 := h m hm
  simp only [Function.comp, tkEntry, inPos] at h1 ⊢
  simp only [h1, if_true]

/-- what the first loop of `takeover_master` does to one chunk, relative to the final `pos` -/
def TkRel (pos : List (Nat × Nat)) (e : Nat) (c c' : Chunk) : Prop :=
  c'.stable0 = c.stable0 ∧ c'.stable1 = c.stable1 ∧
  (c'.mig0 = c.mig0 ∨ (c'.mig0 = bumpEntries c.mig0 e ∧ ∀ m ∈ c.mig0, inPos pos m.mm = true)) ∧
  (c'.mig1 = c.mig1 ∨ (c'.mig1 = bumpEntries c.mig1 e ∧ ∀ m ∈ c.mig1, inPos pos m.mm = true))

theorem TkRel.refl (pos : List (Nat × Nat)) (e : Nat) (c : Chunk) : TkRel pos e c c :=
  ⟨rfl, rfl, Or.inl rfl, Or.inl rfl⟩

theorem takeoverFirst_spec (failed : String) (e : Nat) (cs cs' : List Chunk) (pos : List (Nat × Nat))
    (h : takeoverFirst failed e cs = some (cs', pos)) : All2 (TkRel pos e) cs cs' := by
  induction cs generalizing cs' pos with
  | nil => simp [takeoverFirst] at h; rw [h.1]; exact .nil
  | cons c rest ih =>
    unfold takeoverFirst at h
    split at h
    · split at h
      · cases h
      · split at h
        · injection h with h; injection h with h1 h2; subst h1; subst h2
          refine .cons ⟨rfl, rfl, Or.inr ⟨rfl, fun m hm => inPos_append_left (mem_positionsOf hm)⟩,
            Or.inr ⟨rfl, fun m hm => inPos_append_right (mem_positionsOf hm)⟩⟩ (All2.refl (TkRel.refl _ _) _)
        · injection h with h; injection h with h1 h2; subst h1; subst h2
          exact .cons ⟨rfl, rfl, Or.inr ⟨rfl, fun m hm => mem_positionsOf hm⟩, Or.inl rfl⟩
            (All2.refl (TkRel.refl _ _) _)
    · split at h
      · split at h
        · cases h
        · split at h
          · injection h with h; injection h with h1 h2; subst h1; subst h2
            refine .cons ⟨rfl, rfl, Or.inr ⟨rfl, fun m hm => inPos_append_left (mem_positionsOf hm)⟩,
              Or.inr ⟨rfl, fun m hm => inPos_append_right (mem_positionsOf hm)⟩⟩ (All2.refl (TkRel.refl _ _) _)
          · injection h with h; injection h with h1 h2; subst h1; subst h2
            exact .cons ⟨rfl, rfl, Or.inl rfl, Or.inr ⟨rfl, fun m hm => mem_positionsOf hm⟩⟩
              (All2.refl (TkRel.refl _ _) _)
      · split at h
        · cases h
        · next tl p heq =>
          injection h with h; injection h with h1 h2; subst h1; subst h2
          exact .cons (TkRel.refl _ _ _) (ih tl p heq)

/-- the chunk list `takeover_master` stores is the old one with every entry through `tkEntry` -/
theorem takeover_mapRel (failed : String) (e : Nat) (cs cs' : List Chunk) (pos : List (Nat × Nat))
    (h : takeoverFirst failed e cs = some (cs', pos)) :
    All2 (MapRel (tkEntry pos e)) cs
      (cs'.map fun c => { c with mig0 := bumpPeers pos e c.mig0, mig1 := bumpPeers pos e c.mig1 }) := by
  refine (takeoverFirst_spec failed e cs cs' pos h).map_right _ ?_
  intro c c' hr
  refine ⟨hr.1, hr.2.1, ?_, ?_⟩
  · show bumpPeers pos e c'.mig0 = _
    rcases hr.2.2.1 with h0 | ⟨h0, h1⟩
    · rw [h0]; rfl
    · rw [h0]; exact bumpPeers_bumpEntries pos e _ h1
  · show bumpPeers pos e c'.mig1 = _
    rcases hr.2.2.2 with h0 | ⟨h0, h1⟩
    · rw [h0]; rfl
    · rw [h0]; exact bumpPeers_bumpEntries pos e _ h1

/-- D: `takeover_master` keeps `StoreInv` -/
theorem storeInv_takeoverMaster (s : Store) (name failed : String) (h : StoreInv s) :
    StoreInv (takeoverMaster s name failed).1 := by
  unfold takeoverMaster
  simp only
  split
  · exact h.of_clusters_eq rfl
  · next cl hf =>
    have hcl : ClusterInv cl := StoreInv.find (s := s.bump) (h.of_clusters_eq rfl) hf
    split
    · exact h.of_clusters_eq rfl
    · next chunks pos htk =>
      refine StoreInv.setCluster (s := s.bump) (h.of_clusters_eq rfl) ?_
      exact ClusterInv.of_mapRel (metaMap_tk pos _) (takeover_mapRel failed _ _ _ _ htk) hcl

/-! ## replace_failed_proxy -/

theorem replaceInChunks_mapRel (failed : String) (np : ProxyRes) (cs : List Chunk) :
    All2 (MapRel id) cs (replaceInChunks failed np cs) := by
  induction cs with
  | nil => exact .nil
  | cons c rest ih =>
    unfold replaceInChunks
    split
    · exact .cons (MapRel.id_of_eq rfl rfl rfl rfl) (All2.refl (fun c => MapRel.id_of_eq rfl rfl rfl rfl) _)
    · split
      · exact .cons (MapRel.id_of_eq rfl rfl rfl rfl) (All2.refl (fun c => MapRel.id_of_eq rfl rfl rfl rfl) _)
      · exact .cons (MapRel.id_of_eq rfl rfl rfl rfl) ih

/-- D: `replace_failed_proxy` keeps `StoreInv` (every branch, including the error branches) -/
theorem storeInv_replaceFailedProxy (s : Store) (failedAddr choice : String) (h : StoreInv s) :
    StoreInv (replaceFailedProxy s failedAddr choice).1 := by
  unfold replaceFailedProxy
  split
  · exact h
  · split
    · exact h.of_clusters_eq rfl
    · next name _ =>
      have h1 := storeInv_takeoverMaster s name failedAddr h
      generalize takeoverMaster s name failedAddr = r at h1 ⊢
      obtain ⟨s1, res⟩ := r
      cases res with
      | ok u =>
        cases u
        simp only at h1 ⊢
        split
        · -- ordered mode: takeover, a second bump, no replacement
          exact h1.of_clusters_eq rfl
        split
        · next np _ =>
          split
          · exact h1.of_clusters_eq rfl
          · next cl hf =>
            simp only
            have hcl : ClusterInv cl := StoreInv.find (s := Store.bump _) (h1.of_clusters_eq rfl) hf
            refine StoreInv.of_clusters_eq (s := Store.setCluster _ _) ?_ rfl
            refine StoreInv.setCluster (h1.of_clusters_eq rfl) ?_
            exact ClusterInv.of_mapRel metaMap_id (replaceInChunks_mapRel failedAddr np cl.chunks) hcl
        · exact h1.of_clusters_eq rfl
        · exact h1.of_clusters_eq rfl
        · exact h1.of_clusters_eq rfl
      | err e => exact h1
      | panic w => exact h1
      | badChoice w => exact h1

/-! ## balance_masters, change_config, epochs -/

/-- D: `balance_masters` keeps `StoreInv` -/
theorem storeInv_balanceMasters (s : Store) (name : String) (h : StoreInv s) :
    StoreInv (balanceMasters s name).1 := by
  unfold balanceMasters
  split
  · exact h
  · simp only
    split
    · exact h
    · next cl hf =>
      refine StoreInv.of_clusters_eq (s := Store.setCluster _ _) ?_ rfl
      refine h.setCluster ?_
      refine ClusterInv.of_mapRel metaMap_id ?_ (h.find hf)
      refine All2.of_map _ _ ?_
      intro c
      split <;> exact MapRel.id_of_eq rfl rfl rfl rfl

/-- D: `change_config` keeps `StoreInv` -/
theorem storeInv_changeConfig (s : Store) (name : String) (kvs : List (String × String)) (h : StoreInv s) :
    StoreInv (changeConfig s name kvs).1 := by
  unfold changeConfig
  split
  · exact h
  · simp only
    split
    · exact h
    · next cl hf =>
      split
      · exact h
      · split
        · exact h
        · refine StoreInv.of_clusters_eq (s := Store.setCluster _ _) ?_ rfl
          exact h.setCluster (clusterInv_of_chunks_eq (cl := cl) rfl (h.find hf))

theorem storeInv_map_epoch (s : Store) (e : Nat) (h : StoreInv s) :
    ∀ c ∈ s.clusters.map (fun c => { c with epoch := e }), ClusterInv c := by
  intro c hc
  obtain ⟨c0, hc0, rfl⟩ := List.mem_map.mp hc
  exact clusterInv_of_chunks_eq rfl (h c0 hc0)

/-- D: `force_bump_all_epoch` keeps `StoreInv` -/
theorem storeInv_forceBumpAllEpoch (s : Store) (e : Nat) (h : StoreInv s) :
    StoreInv (forceBumpAllEpoch s e).1 := by
  unfold forceBumpAllEpoch
  split
  · exact h
  · exact storeInv_map_epoch s e h

/-- D: `recover_epoch` keeps `StoreInv` -/
theorem storeInv_recoverEpoch (s : Store) (e : Nat) (h : StoreInv s) : StoreInv (recoverEpoch s e) :=
  storeInv_map_epoch s _ h

/-! ## proxies, failures, remove_cluster -/

/-- D: `add_proxy` keeps `StoreInv` -/
theorem storeInv_addProxy (s : Store) (addr n0 n1 : String) (host : Option String) (index : Option Nat)
    (h : StoreInv s) : StoreInv (addProxy s addr n0 n1 host index).1 := by
  unfold addProxy
  split
  · exact h
  · simp only
    split
    · exact h
    · split <;> exact h.of_clusters_eq rfl

/-- D: `remove_proxy` keeps `StoreInv` -/
theorem storeInv_removeProxy (s : Store) (addr : String) (h : StoreInv s) :
    StoreInv (removeProxy s addr).1 := by
  unfold removeProxy
  split
  · exact h
  · split
    · exact h
    · exact h.of_clusters_eq rfl

/-- D: `add_failure` keeps `StoreInv` -/
theorem storeInv_addFailure (s : Store) (addr reporter : String) (now : Int) (h : StoreInv s) :
    StoreInv (addFailure s addr reporter now).1 := by
  unfold addFailure
  split
  · split
    · exact h
    · exact h.of_clusters_eq rfl
  · exact h.of_clusters_eq rfl

/-- D: `remove_cluster` keeps `StoreInv` (the cluster disappears, the others are untouched) -/
theorem storeInv_removeCluster (s : Store) (name : String) (h : StoreInv s) :
    StoreInv (removeCluster s name).1 := by
  unfold removeCluster
  split
  · exact h
  · split
    · exact h
    · next cl _ =>
      simp only
      refine StoreInv.of_clusters_sub h ?_
      intro c hc
      rw [Store.bump_clusters, foldl_setProxyCluster_clusters cl.proxyAddrs (fun s a => s.setProxyCluster a none) (fun _ _ => rfl)] at hc
      exact (List.mem_filter.mp hc).1

end Um.Broker
