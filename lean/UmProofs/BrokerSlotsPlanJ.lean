import UmProofs.BrokerSlotsPlanI
import UmProofs.BrokerSlotsCommitStep
/-!
# C01 — assembly of the planning layer (`BrokerSlotsPlan*`) with the commit layer
(`BrokerSlotsCommit*`, agent c01-commit)

The commit layer proves `StoreInv` preservation for every operation except the four slot makers
(its `SlotMakersPreserve`). Two of those (`addCluster`, `migrateSlots`) hold only for clusters
with at most `SLOT_NUM` masters, so the assembled theorem is stated over `ReachableB`: stores
reachable through stores that all satisfy `PlanBound`. `AllCInv` and `StoreInv` are the same
statement (definitionally).
-/
namespace Um.Broker.Plan
open Um Um.Slots Um.Broker

theorem allCInv_iff_storeInv (s : Store) : AllCInv s ↔ StoreInv s := Iff.rfl

/-- reachable through stores in which every cluster has at most `SLOT_NUM` masters -/
inductive ReachableB : Store → Prop where
  | init : ReachableB Store.init
  | step {s : Store} (op : Op) : ReachableB s → PlanBound (step s op) → ReachableB (step s op)

theorem ReachableB.reachable {s : Store} (h : ReachableB s) : Reachable s := by
  induction h with
  | init => exact Reachable.init
  | step op _ _ ih => exact Reachable.step op ih

theorem ReachableB.bound {s : Store} (h : ReachableB s) : PlanBound s := by
  cases h with
  | init => intro c hc; cases hc
  | step op _ hb => exact hb

/-- one step, for every `Op`: the planning operations by this layer, the rest by the commit layer -/
theorem allCInv_step_bounded (s : Store) (op : Op) (h : AllCInv s) (hb : PlanBound s)
    (hb' : PlanBound (step s op)) : AllCInv (step s op) := by
  cases op with
  | addProxy a n0 n1 host i => exact allCInv_step h (storeInv_addProxy s a n0 n1 host i h)
  | removeProxy a => exact allCInv_step h (storeInv_removeProxy s a h)
  | addCluster n k c => exact step_addCluster_inv s n k c h hb'
  | removeCluster n => exact allCInv_step h (storeInv_removeCluster s n h)
  | addNodes n k c => exact step_addNodes_inv s n k c h
  | scaleUp n k c => exact step_scaleUp_inv s n k c h
  | changeNum n k c => exact step_changeNum_inv s n k c h (storeInv_autoDeleteFreeNodes s n h)
  | scaleOutNum n k => exact step_scaleOutNum_inv s n k h hb
  | delFree n => exact allCInv_step h (storeInv_autoDeleteFreeNodes s n h)
  | migrate n => exact step_migrate_inv s n h hb
  | scaleDown n k => exact step_scaleDown_inv s n k h
  | commit n e rl tagNone clear => exact allCInv_step h (storeInv_commitMigration s n rl e tagNone clear h)
  | failover a c => exact allCInv_step h (storeInv_replaceFailedProxy s a c h)
  | balance n => exact allCInv_step h (storeInv_balanceMasters s n h)
  | config n kv => exact allCInv_step h (storeInv_changeConfig s n kv h)
  | bumpAll e => exact allCInv_step h (storeInv_forceBumpAllEpoch s e h)
  | recover e => exact allCInv_step h (storeInv_recoverEpoch s e h)
  | addFailure a r t => exact allCInv_step h (storeInv_addFailure s a r t h)
  | setOrdered =>
    refine allCInv_step h ?_
    show StoreInv s.setOrdered
    exact StoreInv.of_clusters_eq h (by unfold Store.setOrdered; split <;> rfl)

/-- **store invariants of C01 on every boundedly reachable store** -/
theorem cinv_reachableB : ∀ s, ReachableB s → ∀ c ∈ s.clusters, PosInv c ∧ TwinInv c ∧ SlotInv c := by
  intro s hs
  induction hs with
  | init => intro c hc; cases hc
  | step op hr hb ih => exact allCInv_step_bounded _ op ih hr.bound hb

/-- the same over operation lists: every prefix of the run respects the bound -/
theorem cinv_run (ops : List Op) (hb : ∀ k, PlanBound (run (ops.take k))) :
    ∀ c ∈ (run ops).clusters, PosInv c ∧ TwinInv c ∧ SlotInv c := by
  have key : ∀ (l : List Op) (s : Store), ReachableB s →
      (∀ k, PlanBound ((l.take k).foldl step s)) → ReachableB (l.foldl step s) := by
    intro l
    induction l with
    | nil => intro s hs _; exact hs
    | cons op rest ih =>
      intro s hs hk
      have h1 : ReachableB (step s op) := ReachableB.step op hs (by simpa using hk 1)
      exact ih (step s op) h1 (fun k => by simpa using hk (k + 1))
  exact cinv_reachableB _ (key ops Store.init ReachableB.init hb)

end Um.Broker.Plan
