import UmProofs.ProtoBasic
import UmProofs.ProtoCompact
/-!
Well-formedness predicates (what the plain encoder can express) and the component round trips
up to `SlotRange`, with the two structural facts about the token parsers used everywhere:
they only ever look at a prefix (`*_append`) and they consume at least one token (`*_length`).
-/
namespace Um.Proto
open Um Um.Gen.Proto

/-! ## well-formedness -/

/-- a range list the encoder can express: a fixed point of `compact` (what `RangeList::new`,
`merge`, `parse` produce) whose numbers fit `usize` -/
def WfRanges (l : RangeList) : Prop :=
  compact l = l ∧ l.length ≤ u64Max ∧ ∀ r ∈ l, r.s ≤ u64Max ∧ r.e ≤ u64Max

def Tag.EpochOk : Tag → Prop
  | .none => True
  | .migrating m => m.epoch ≤ u64Max
  | .importing m => m.epoch ≤ u64Max

def WfSR (sr : SlotRange) : Prop := WfRanges sr.ranges ∧ sr.tag.EpochOk

def NodeMap.keys (nm : NodeMap) : List Str := nm.map Prod.fst

/-- distinct addresses (it is a `HashMap`), none of which reads as a section word, every listed
address has at least one slot range (others are not emitted by `to_args`) -/
def WfMap (nm : NodeMap) : Prop :=
  nm.keys.Nodup ∧ ∀ p ∈ nm, isSectionWord p.1 = false ∧ p.2 ≠ [] ∧ ∀ sr ∈ p.2, WfSR sr

def WfCfg (c : Config) : Prop :=
  c.maxMigrationTime ≤ u64Max ∧ c.maxBlockingTime ≤ u64Max ∧ c.scanInterval ≤ u64Max ∧
    c.scanCount ≤ u64Max ∧ c.scanCount ≠ 0

instance (l : RangeList) : Decidable (WfRanges l) := by unfold WfRanges; infer_instance
instance (t : Tag) : Decidable t.EpochOk := by cases t <;> unfold Tag.EpochOk <;> infer_instance
instance (sr : SlotRange) : Decidable (WfSR sr) := by unfold WfSR; infer_instance
instance (nm : NodeMap) : Decidable (WfMap nm) := by unfold WfMap; infer_instance
instance (c : Config) : Decidable (WfCfg c) := by unfold WfCfg; infer_instance

/-- numbers fit `usize`; nothing about the order or overlap of the ranges -/
def BdRanges (l : RangeList) : Prop := l.length ≤ u64Max ∧ ∀ r ∈ l, r.s ≤ u64Max ∧ r.e ≤ u64Max

def BdSR (sr : SlotRange) : Prop := BdRanges sr.ranges ∧ sr.tag.EpochOk

instance (l : RangeList) : Decidable (BdRanges l) := by unfold BdRanges; infer_instance
instance (sr : SlotRange) : Decidable (BdSR sr) := by unfold BdSR; infer_instance

theorem WfRanges.bd {l : RangeList} (h : WfRanges l) : BdRanges l := ⟨h.2.1, h.2.2⟩
theorem WfSR.bd {sr : SlotRange} (h : WfSR sr) : BdSR sr := ⟨h.1.bd, h.2⟩
theorem WfSR.compacted {sr : SlotRange} (h : WfSR sr) : sr.compacted = sr := by
  cases sr; simp only [SlotRange.compacted]; congr; exact h.1.1

/-! ## ranges -/

theorem sep_not_mem_decimal (n : Nat) : (45 : UInt8) ∉ decimal n := by
  intro h
  have := decimal_digits n 45 h
  simp at this

theorem parseSlotRange_toStr (r : Range) (hs : r.s ≤ u64Max) (he : r.e ≤ u64Max) :
    parseSlotRange r.toStr = some r := by
  unfold parseSlotRange Range.toStr
  rw [splitOn_append_sep 45 _ _ (sep_not_mem_decimal r.s), splitOn_no_sep 45 _ (sep_not_mem_decimal r.e)]
  simp [parseUnsigned_decimal _ hs, parseUnsigned_decimal _ he]

theorem parseRanges_map (l : List Range) (rest : List Str) (h : ∀ r ∈ l, r.s ≤ u64Max ∧ r.e ≤ u64Max) :
    parseRanges l.length (l.map Range.toStr ++ rest) = some (l, rest) := by
  induction l with
  | nil => simp [parseRanges]
  | cons x xs ih =>
    have hx := h x (List.mem_cons_self ..)
    simp only [List.length_cons, List.map_cons, List.cons_append, parseRanges]
    rw [parseSlotRange_toStr x hx.1 hx.2, ih (fun r hr => h r (List.mem_cons_of_mem _ hr))]

/-- whatever the list looks like, its textual form parses to its compacted form -/
theorem RangeList.parse_toStrings_bd (l : RangeList) (rest : List Str) (h : BdRanges l) :
    RangeList.parse (RangeList.toStrings l ++ rest) = some (compact l, rest) := by
  unfold RangeList.toStrings
  simp only [List.cons_append, RangeList.parse]
  rw [parseUnsigned_decimal _ h.1]
  simp only
  rw [parseRanges_map l rest h.2]

theorem RangeList.parse_toStrings (l : RangeList) (rest : List Str) (h : WfRanges l) :
    RangeList.parse (RangeList.toStrings l ++ rest) = some (l, rest) := by
  rw [RangeList.parse_toStrings_bd l rest h.bd, h.1]

theorem parseRanges_append : ∀ (n : Nat) (ts : List Str) (rs : List Range) (rest ext : List Str),
    parseRanges n ts = some (rs, rest) → parseRanges n (ts ++ ext) = some (rs, rest ++ ext) := by
  intro n
  induction n with
  | zero => intro ts rs rest ext h; simp [parseRanges] at h ⊢; obtain ⟨rfl, rfl⟩ := h; simp
  | succ n ih =>
    intro ts rs rest ext h
    cases ts with
    | nil => simp [parseRanges] at h
    | cons t ts =>
      simp only [parseRanges, List.cons_append] at h ⊢
      cases hp : parseSlotRange t with
      | none => simp [hp] at h
      | some r =>
        simp only [hp] at h ⊢
        cases hq : parseRanges n ts with
        | none => simp [hq] at h
        | some q =>
          obtain ⟨rs', rest'⟩ := q
          simp only [hq] at h
          rw [ih ts rs' rest' ext hq]
          simp only [Option.some.injEq, Prod.mk.injEq] at h ⊢
          obtain ⟨rfl, rfl⟩ := h
          exact ⟨rfl, rfl⟩

theorem parseRanges_length : ∀ (n : Nat) (ts : List Str) (rs : List Range) (rest : List Str),
    parseRanges n ts = some (rs, rest) → rest.length + n = ts.length ∧ rs.length = n := by
  intro n
  induction n with
  | zero => intro ts rs rest h; simp [parseRanges] at h; obtain ⟨rfl, rfl⟩ := h; simp
  | succ n ih =>
    intro ts rs rest h
    cases ts with
    | nil => simp [parseRanges] at h
    | cons t ts =>
      simp only [parseRanges] at h
      cases hp : parseSlotRange t with
      | none => simp [hp] at h
      | some r =>
        simp only [hp] at h
        cases hq : parseRanges n ts with
        | none => simp [hq] at h
        | some q =>
          obtain ⟨rs', rest'⟩ := q
          simp only [hq, Option.some.injEq, Prod.mk.injEq] at h
          obtain ⟨rfl, rfl⟩ := h
          have := ih ts rs' rest' hq
          simp; omega

theorem parseRanges_bound : ∀ (n : Nat) (ts : List Str) (rs : List Range) (rest : List Str),
    parseRanges n ts = some (rs, rest) → ∀ r ∈ rs, r.s ≤ u64Max ∧ r.e ≤ u64Max := by
  intro n
  induction n with
  | zero => intro ts rs rest h; simp [parseRanges] at h; obtain ⟨rfl, rfl⟩ := h; simp
  | succ n ih =>
    intro ts rs rest h
    cases ts with
    | nil => simp [parseRanges] at h
    | cons t ts =>
      simp only [parseRanges] at h
      cases hp : parseSlotRange t with
      | none => simp [hp] at h
      | some r =>
        simp only [hp] at h
        cases hq : parseRanges n ts with
        | none => simp [hq] at h
        | some q =>
          obtain ⟨rs', rest'⟩ := q
          simp only [hq, Option.some.injEq, Prod.mk.injEq] at h
          obtain ⟨rfl, rfl⟩ := h
          intro x hx
          rcases List.mem_cons.mp hx with rfl | hx
          · unfold parseSlotRange at hp
            split at hp
            · rename_i a b _ _
              cases ha : parseUnsigned a <;> cases hb : parseUnsigned b <;> simp [ha, hb] at hp
              subst hp
              exact ⟨parseUnsigned_le ha, parseUnsigned_le hb⟩
            · simp at hp
          · exact ih ts rs' rest' hq x hx

theorem RangeList.parse_append (ts : List Str) (rl : RangeList) (rest ext : List Str)
    (h : RangeList.parse ts = some (rl, rest)) : RangeList.parse (ts ++ ext) = some (rl, rest ++ ext) := by
  cases ts with
  | nil => simp [RangeList.parse] at h
  | cons c ts =>
    simp only [RangeList.parse, List.cons_append] at h ⊢
    cases hc : parseUnsigned c with
    | none => simp [hc] at h
    | some n =>
      simp only [hc] at h ⊢
      cases hq : parseRanges n ts with
      | none => simp [hq] at h
      | some q =>
        obtain ⟨rs, rest'⟩ := q
        simp only [hq, Option.some.injEq, Prod.mk.injEq] at h
        obtain ⟨rfl, rfl⟩ := h
        rw [parseRanges_append n ts rs rest' ext hq]

theorem RangeList.parse_length (ts : List Str) (rl : RangeList) (rest : List Str)
    (h : RangeList.parse ts = some (rl, rest)) : rest.length < ts.length := by
  cases ts with
  | nil => simp [RangeList.parse] at h
  | cons c ts =>
    simp only [RangeList.parse] at h
    cases hc : parseUnsigned c with
    | none => simp [hc] at h
    | some n =>
      simp only [hc] at h
      cases hq : parseRanges n ts with
      | none => simp [hq] at h
      | some q =>
        obtain ⟨rs, rest'⟩ := q
        simp only [hq, Option.some.injEq, Prod.mk.injEq] at h
        obtain ⟨rfl, rfl⟩ := h
        have := (parseRanges_length n ts rs rest' hq).1
        simp; omega

/-- whatever `RangeList::parse` accepts, the result is well-formed -/
theorem RangeList.parse_wf (ts : List Str) (rl : RangeList) (rest : List Str)
    (h : RangeList.parse ts = some (rl, rest)) : WfRanges rl := by
  cases ts with
  | nil => simp [RangeList.parse] at h
  | cons c ts =>
    simp only [RangeList.parse] at h
    cases hc : parseUnsigned c with
    | none => simp [hc] at h
    | some n =>
      simp only [hc] at h
      cases hq : parseRanges n ts with
      | none => simp [hq] at h
      | some q =>
        obtain ⟨rs, rest'⟩ := q
        simp only [hq, Option.some.injEq, Prod.mk.injEq] at h
        obtain ⟨rfl, rfl⟩ := h
        refine ⟨compact_idem rs, ?_, compact_bound u64Max rs (parseRanges_bound n ts rs rest' hq)⟩
        have h1 := compact_length rs
        have h2 := (parseRanges_length n ts rs rest' hq).2
        have h3 := parseUnsigned_le hc
        omega

/-! ## migration meta, slot range -/

theorem MigrationMeta.rt (m : MigrationMeta) (rest : List Str) (h : m.epoch ≤ u64Max) :
    MigrationMeta.fromStrings (m.intoStrings ++ rest) = some (m, rest) := by
  simp [MigrationMeta.intoStrings, MigrationMeta.fromStrings, parseUnsigned_decimal _ h]

theorem MigrationMeta.fromStrings_append (ts : List Str) (m : MigrationMeta) (rest ext : List Str)
    (h : MigrationMeta.fromStrings ts = some (m, rest)) :
    MigrationMeta.fromStrings (ts ++ ext) = some (m, rest ++ ext) := by
  match ts, h with
  | e :: a :: b :: c :: d :: r, h =>
    simp only [MigrationMeta.fromStrings, List.cons_append] at h ⊢
    cases he : parseUnsigned e with
    | none => simp [he] at h
    | some ep =>
      simp only [he, Option.some.injEq, Prod.mk.injEq] at h ⊢
      obtain ⟨rfl, rfl⟩ := h
      exact ⟨rfl, rfl⟩
  | [], h | [_], h | [_, _], h | [_, _, _], h | [_, _, _, _], h => simp [MigrationMeta.fromStrings] at h

theorem MigrationMeta.fromStrings_length (ts : List Str) (m : MigrationMeta) (rest : List Str)
    (h : MigrationMeta.fromStrings ts = some (m, rest)) : rest.length + 5 = ts.length ∧ m.epoch ≤ u64Max := by
  match ts, h with
  | e :: a :: b :: c :: d :: r, h =>
    simp only [MigrationMeta.fromStrings] at h
    cases he : parseUnsigned e with
    | none => simp [he] at h
    | some ep =>
      simp only [he, Option.some.injEq, Prod.mk.injEq] at h
      obtain ⟨rfl, rfl⟩ := h
      exact ⟨by simp, parseUnsigned_le he⟩
  | [], h | [_], h | [_, _], h | [_, _, _], h | [_, _, _, _], h => simp [MigrationMeta.fromStrings] at h

theorem taggedRest_rt (mk : MigrationMeta → Tag) (rl : RangeList) (m : MigrationMeta) (rest : List Str)
    (h1 : BdRanges rl) (h2 : m.epoch ≤ u64Max) :
    taggedRest mk (RangeList.toStrings rl ++ m.intoStrings ++ rest) = some (⟨compact rl, mk m⟩, rest) := by
  unfold taggedRest
  rw [List.append_assoc, RangeList.parse_toStrings_bd rl _ h1]
  simp only
  rw [MigrationMeta.rt m rest h2]

theorem upper_migrating : (upperA MIGRATING_TAG == MIGRATING_TAG) = true := by decide
theorem upper_importing_ne : (upperA IMPORTING_TAG == MIGRATING_TAG) = false := by decide
theorem upper_importing : (upperA IMPORTING_TAG == IMPORTING_TAG) = true := by decide

/-- **slot range, any lists**: the textual form parses to the compacted slot range -/
theorem SlotRange.rt_bd (sr : SlotRange) (rest : List Str) (h : BdSR sr) :
    SlotRange.fromStrings (sr.intoStrings ++ rest) = some (sr.compacted, rest) := by
  obtain ⟨rl, tag⟩ := sr
  cases tag with
  | migrating m =>
    simp only [SlotRange.intoStrings, List.cons_append, SlotRange.fromStrings, upper_migrating, if_true]
    exact taggedRest_rt .migrating rl m rest h.1 h.2
  | importing m =>
    simp only [SlotRange.intoStrings, List.cons_append, SlotRange.fromStrings, upper_importing_ne,
      upper_importing, if_true]
    simpa [SlotRange.compacted] using taggedRest_rt .importing rl m rest h.1 h.2
  | none =>
    simp only [SlotRange.intoStrings]
    have hp := RangeList.parse_toStrings_bd rl rest h.1
    unfold RangeList.toStrings at hp ⊢
    simp only [List.cons_append] at hp ⊢
    simp only [SlotRange.fromStrings, upperA_decimal_ne_migrating, upperA_decimal_ne_importing]
    simp [hp, SlotRange.compacted]

/-- **slot range round trip** (with any continuation of the input) -/
theorem SlotRange.rt (sr : SlotRange) (rest : List Str) (h : WfSR sr) :
    SlotRange.fromStrings (sr.intoStrings ++ rest) = some (sr, rest) := by
  rw [SlotRange.rt_bd sr rest h.bd, h.compacted]

theorem taggedRest_append (mk : MigrationMeta → Tag) (ts : List Str) (sr : SlotRange) (rest ext : List Str)
    (h : taggedRest mk ts = some (sr, rest)) : taggedRest mk (ts ++ ext) = some (sr, rest ++ ext) := by
  unfold taggedRest at h ⊢
  cases hp : RangeList.parse ts with
  | none => simp [hp] at h
  | some p =>
    obtain ⟨rl, r1⟩ := p
    simp only [hp] at h
    rw [RangeList.parse_append ts rl r1 ext hp]
    simp only
    cases hm : MigrationMeta.fromStrings r1 with
    | none => simp [hm] at h
    | some q =>
      obtain ⟨m, r2⟩ := q
      simp only [hm, Option.some.injEq, Prod.mk.injEq] at h
      rw [MigrationMeta.fromStrings_append r1 m r2 ext hm]
      obtain ⟨rfl, rfl⟩ := h
      rfl

theorem taggedRest_facts (mk : MigrationMeta → Tag) (ts : List Str) (sr : SlotRange) (rest : List Str)
    (h : taggedRest mk ts = some (sr, rest)) :
    rest.length < ts.length ∧ WfRanges sr.ranges ∧ ∃ m, sr.tag = mk m ∧ m.epoch ≤ u64Max := by
  unfold taggedRest at h
  cases hp : RangeList.parse ts with
  | none => simp [hp] at h
  | some p =>
    obtain ⟨rl, r1⟩ := p
    simp only [hp] at h
    cases hm : MigrationMeta.fromStrings r1 with
    | none => simp [hm] at h
    | some q =>
      obtain ⟨m, r2⟩ := q
      simp only [hm, Option.some.injEq, Prod.mk.injEq] at h
      obtain ⟨rfl, rfl⟩ := h
      have h1 := RangeList.parse_length ts rl r1 hp
      have h2 := MigrationMeta.fromStrings_length r1 m r2 hm
      exact ⟨by omega, RangeList.parse_wf ts rl r1 hp, m, rfl, h2.2⟩

/-- the slot-range parser only looks at a prefix of its input -/
theorem SlotRange.fromStrings_append (ts : List Str) (sr : SlotRange) (rest ext : List Str)
    (h : SlotRange.fromStrings ts = some (sr, rest)) :
    SlotRange.fromStrings (ts ++ ext) = some (sr, rest ++ ext) := by
  cases ts with
  | nil => simp [SlotRange.fromStrings] at h
  | cons t ts =>
    simp only [SlotRange.fromStrings, List.cons_append] at h ⊢
    split at h
    · rename_i h1; simp only [h1, if_true]; exact taggedRest_append _ ts sr rest ext h
    · split at h
      · rename_i h1 h2; simp only [h1, h2, if_true]; exact taggedRest_append _ ts sr rest ext h
      · rename_i h1 h2
        simp only [h1, h2]
        cases hp : RangeList.parse (t :: ts) with
        | none => simp [hp] at h
        | some p =>
          obtain ⟨rl, r1⟩ := p
          simp only [hp, Option.some.injEq, Prod.mk.injEq] at h
          have := RangeList.parse_append (t :: ts) rl r1 ext hp
          simp only [List.cons_append] at this
          rw [this]
          obtain ⟨rfl, rfl⟩ := h
          rfl

/-- it consumes at least one token, and what it returns is well-formed -/
theorem SlotRange.fromStrings_facts (ts : List Str) (sr : SlotRange) (rest : List Str)
    (h : SlotRange.fromStrings ts = some (sr, rest)) : rest.length < ts.length ∧ WfSR sr := by
  cases ts with
  | nil => simp [SlotRange.fromStrings] at h
  | cons t ts =>
    simp only [SlotRange.fromStrings] at h
    split at h
    · obtain ⟨h1, h2, m, h3, h4⟩ := taggedRest_facts _ ts sr rest h
      exact ⟨by simp; omega, h2, by rw [h3]; exact h4⟩
    · split at h
      · obtain ⟨h1, h2, m, h3, h4⟩ := taggedRest_facts _ ts sr rest h
        exact ⟨by simp; omega, h2, by rw [h3]; exact h4⟩
      · cases hp : RangeList.parse (t :: ts) with
        | none => simp [hp] at h
        | some p =>
          obtain ⟨rl, r1⟩ := p
          simp only [hp, Option.some.injEq, Prod.mk.injEq] at h
          obtain ⟨rfl, rfl⟩ := h
          exact ⟨RangeList.parse_length _ rl _ hp, RangeList.parse_wf _ rl _ hp, trivial⟩

/-- **truncation inside a slot range is rejected**: no strict prefix of an encoding is accepted
when the input ends there -/
theorem SlotRange.reject_truncated (sr : SlotRange) (h : WfSR sr) (k : Nat) (hk : k < sr.intoStrings.length) :
    SlotRange.fromStrings (sr.intoStrings.take k) = none := by
  cases hf : SlotRange.fromStrings (sr.intoStrings.take k) with
  | none => rfl
  | some p =>
    obtain ⟨sr', rest⟩ := p
    have h1 := SlotRange.fromStrings_append _ sr' rest (sr.intoStrings.drop k) hf
    rw [List.take_append_drop] at h1
    have h2 := SlotRange.rt sr [] h
    rw [List.append_nil] at h2
    rw [h2] at h1
    simp only [Option.some.injEq, Prod.mk.injEq] at h1
    have : (rest ++ List.drop k sr.intoStrings).length = 0 := by rw [← h1.2]; rfl
    simp only [List.length_append, List.length_drop] at this
    omega

end Um.Proto
