import UmProofs.BrokerFailoverAlloc2
/-!
# C06 (allocation part): the allocator only hands out free proxies
-/
namespace Um.Broker.C06.Alloc
open Um Um.Slots

theorem mem_freeProxies (s : Store) (p : ProxyRes) :
    p ∈ s.freeProxies ↔ p ∈ s.proxies ∧ p.cluster = none ∧ p.addr ∉ s.failed ∧ s.hasFailureKey p.addr = false := by
  unfold Store.freeProxies
  simp [List.mem_filter, and_assoc]

theorem freeIn_of_mem_freeProxies {s : Store} {p : ProxyRes} (h : p ∈ s.freeProxies) : FreeIn s p.addr := by
  rw [mem_freeProxies] at h
  exact ⟨p, h.1, rfl, h.2.1, h.2.2.1, h.2.2.2⟩

/-- allocator loop invariant: pool and output only hold members of `F` -/
def AllocInv (F : List ProxyRes) (st : AllocSt) : Prop :=
  (∀ p ∈ st.pool, p ∈ F) ∧ ∀ x ∈ st.out, x.1 ∈ F ∧ x.2 ∈ F

theorem allocStep_inv {F : List ProxyRes} {st st' : AllocSt} {a b : String}
    (hi : AllocInv F st) (h : allocStep st a b = R.ok st') : AllocInv F st' := by
  unfold allocStep at h
  split at h; · exact absurd h (by simp)
  dsimp only at h
  split at h; · exact absurd h (by simp)
  split at h; · exact absurd h (by simp)
  rename_i pa hpa
  split at h; · exact absurd h (by simp)
  obtain ⟨row, _, h⟩ := bind_eq_ok h
  split at h; · exact absurd h (by simp)
  split at h; · exact absurd h (by simp)
  rename_i pb hpb
  split at h; · exact absurd h (by simp)
  split at h; · exact absurd h (by simp)
  split at h; · exact absurd h (by simp)
  simp only [pure_eq_ok, R.ok.injEq] at h
  subst h
  have hpa' := hi.1 _ (List.mem_of_find?_eq_some hpa)
  have hpb' := hi.1 _ (List.mem_of_find?_eq_some hpb)
  constructor
  · intro p hp
    exact hi.1 p (List.mem_filter.1 hp).1
  · intro x hx
    simp only [List.mem_append, List.mem_singleton] at hx
    rcases hx with hx | rfl
    · exact hi.2 x hx
    · exact ⟨hpa', hpb'⟩

theorem allocLoop_inv {F : List ProxyRes} : ∀ (choice : List (String × String)) (st st' : AllocSt),
    AllocInv F st → allocLoop st choice = R.ok st' → AllocInv F st'
  | [], st, st', hi, h => by
    simp only [allocLoop, pure_eq_ok, R.ok.injEq] at h
    subst h; exact hi
  | (a, b) :: rest, st, st', hi, h => by
    unfold allocLoop at h
    obtain ⟨st1, h1, h⟩ := bind_eq_ok h
    exact allocLoop_inv rest st1 st' (allocStep_inv hi h1) h

theorem generateFreeChunks_free {s : Store} {n : Nat} {choice : List (String × String)} {arr : List (ProxyRes × ProxyRes)}
    (h : generateFreeChunks s n choice = .ok arr) : ∀ x ∈ arr, x.1 ∈ s.freeProxies ∧ x.2 ∈ s.freeProxies := by
  unfold generateFreeChunks at h
  obtain ⟨counts, _, h⟩ := bind_eq_ok h
  dsimp only at h
  split at h; · exact absurd h (by simp)
  split at h; · exact absurd h (by simp)
  split at h; · exact absurd h (by simp)
  obtain ⟨st, hst, h⟩ := bind_eq_ok h
  simp only [pure_eq_ok, R.ok.injEq] at h
  subst h
  have : AllocInv s.freeProxies { free := counts, links := buildLinkTable s, pool := s.freeProxies, out := [] } :=
    ⟨fun _ hp => hp, fun _ hx => absurd hx (by simp)⟩
  exact (allocLoop_inv _ _ _ this hst).2

theorem generateNewFreeProxy_free {s : Store} {failed choice : String} {np : ProxyRes}
    (h : generateNewFreeProxy s failed choice = .ok np) : np ∈ s.freeProxies := by
  unfold generateNewFreeProxy at h
  split at h; · rkill h
  obtain ⟨row, _, h⟩ := bind_eq_ok h
  dsimp only at h
  repeat' (first | rkill h | split at h)
  all_goals
    simp only [pure_eq_ok, R.ok.injEq] at h
    subst h
    exact List.mem_of_find?_eq_some (by assumption)

end Um.Broker.C06.Alloc
