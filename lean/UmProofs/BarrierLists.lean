/-!
General list lemmas used by the C11 invariants: replacing one element of a thread pool changes a
`countP` / a sum by the difference of the old and the new element.
-/
namespace Um.Barrier.Lists

def b2n (b : Bool) : Nat := if b then 1 else 0

@[simp] theorem b2n_true : b2n true = 1 := rfl
@[simp] theorem b2n_false : b2n false = 0 := rfl
theorem b2n_le_one (b : Bool) : b2n b ≤ 1 := by cases b <;> simp

theorem countP_cons' {α} (p : α → Bool) (a : α) (l : List α) :
    (a :: l).countP p = l.countP p + b2n (p a) := by
  rw [List.countP_cons]; cases p a <;> simp

theorem countP_set_add {α} (p : α → Bool) :
    ∀ (l : List α) (i : Nat) (a x : α), l[i]? = some a →
      (l.set i x).countP p + b2n (p a) = l.countP p + b2n (p x)
  | [], i, a, x, h => by simp at h
  | b :: l, 0, a, x, h => by
    simp at h; subst h
    simp only [List.set_cons_zero, countP_cons']; omega
  | b :: l, i + 1, a, x, h => by
    simp at h
    have ih := countP_set_add p l i a x h
    simp only [List.set_cons_succ, countP_cons']; omega

theorem sum_map_set_add {α} (f : α → Int) :
    ∀ (l : List α) (i : Nat) (a x : α), l[i]? = some a →
      ((l.set i x).map f).sum + f a = (l.map f).sum + f x
  | [], i, a, x, h => by simp at h
  | b :: l, 0, a, x, h => by
    simp at h; subst h
    simp only [List.set_cons_zero, List.map_cons, List.sum_cons]; omega
  | b :: l, i + 1, a, x, h => by
    simp at h
    have ih := sum_map_set_add f l i a x h
    simp only [List.set_cons_succ, List.map_cons, List.sum_cons]; omega

theorem countP_le_sum {α} (p : α → Bool) (f : α → Int) (hf : ∀ a, 0 ≤ f a)
    (hp : ∀ a, p a = true → 1 ≤ f a) :
    ∀ l : List α, (l.countP p : Int) ≤ (l.map f).sum
  | [] => by simp
  | a :: l => by
    have ih := countP_le_sum p f hf hp l
    simp only [countP_cons', List.map_cons, List.sum_cons]
    have h1 := hf a
    cases h : p a
    · simp; omega
    · have := hp a h; simp; omega

theorem countP_pos_of_getElem? {α} (p : α → Bool) (l : List α) (i : Nat) (a : α)
    (h : l[i]? = some a) (hp : p a = true) : 0 < l.countP p := by
  rw [List.countP_pos_iff]
  exact ⟨a, List.mem_of_getElem? h, hp⟩

/-- trace counting: appending one entry -/
theorem countP_snoc {α} (p : α → Bool) (l : List α) (a : α) :
    (l ++ [a]).countP p = l.countP p + b2n (p a) := by
  rw [List.countP_append]; simp [List.countP_cons]; cases p a <;> simp

end Um.Barrier.Lists
