import UmProofs.MigrationStepH
/-! C03 invariant preservation: faults — a Redis connection of the migrating task fails while it serves
a UMSYNC (fast path) or runs a batch of the scan loop. -/
namespace Um.Mig

theorem step_syncFault {s s' : Sys} {b : Bool} (hG : GInv s) (hO : OInv s)
    (hs : step? s (.syncFault b) = some s') :
    (GInv s' ∧ OInv s') ∧ logical s' = logical s := by
  simp only [step?] at hs
  have key : ∀ (k : Crit) (src' : Option Val), s.crit = some k → k.pc.isFast = true → Eff s src' s.dst →
      (GInv (setCrit { s with src := src' } k.id (.uSyncGot .err)) ∧ OInv (setCrit { s with src := src' } k.id (.uSyncGot .err))) ∧
      logical (setCrit { s with src := src' } k.id (.uSyncGot .err)) = logical s := by
    intro k src' hk hf heff
    have hidle := hG.b6a k hk hf
    refine ⟨⟨?_, ?_⟩, eff_logical heff⟩
    · refine ginv_crit (s := s) (pc := .uSyncGot .err) hG hk heff ?_ ?_ ?_ ?_ ?_ ?_ ?_ ?_
      · simp [CritPc.held]
      · simp [CritPc.delPending]
      · simp [CritPc.srcGone]
      · simp [CritPc.isFast]
      · simp [CritPc.isSyncGot]
      · intro h; exact absurd hidle h
      · simp [CritPc.held]
      · intro _
        refine ⟨?_, by simp [CritPc.isPull]⟩
        intro ht; rw [ht] at hf; simp [CritPc.isFast] at hf
    · refine oinv_eff hO rfl (Nat.le_refl _) (fun _ => id) id id heff ?_ (fun _ h => h)
      intro _ _; simp [critDump, setCrit, CritPc.held]
  split at hs
  · rename_i cid hk
    obtain ⟨_, rfl⟩ := guard_some hs
    exact key _ s.src hk (by rfl) (eff_refl s)
  · rename_i cid p hk
    obtain ⟨_, rfl⟩ := guard_some hs
    exact key _ s.src hk (by rfl) (eff_refl s)
  · rename_i cid hk
    have hs' := Option.some.inj hs
    subst hs'
    cases b
    · exact key _ s.src hk (by rfl) (eff_refl s)
    · have hmv := hG.b4b _ hk (by rfl)
      exact key _ none hk (by rfl) (Or.inr (Or.inl ⟨rfl, rfl, hmv⟩))
  · simp at hs

theorem step_scanFault {s s' : Sys} (hG : GInv s) (hO : OInv s)
    (hs : step? s .scanFault = some s') :
    (GInv s' ∧ OInv s') ∧ logical s' = logical s := by
  simp only [step?] at hs
  by_cases hab : scanAbandonable s.scan = true
  case neg => simp [hab] at hs
  simp only [hab, Bool.not_true, Bool.false_eq_true, if_false] at hs
  have hne : s.scan ≠ .idle := by
    intro h; rw [h] at hab; simp [scanAbandonable] at hab
  obtain ⟨hr, hpre⟩ := scan_active hG hne
  have hG1 : GInv { s with src := s.src, dst := s.dst, scan := .idle } := by
    refine ginv_scan (s := s) (sc := .idle) hG (eff_refl s) ?_ ?_ ?_ ?_ ?_ ?_ ?_ hpre <;>
      simp [ScanPc.held, ScanPc.delPending, ScanPc.srcGone]
  have hO1 : OInv { s with src := s.src, dst := s.dst, scan := .idle } :=
    oinv_eff hO rfl (Nat.le_refl _) (fun _ => id) id id (eff_refl s) (fun _ h => h) (fun _ _ => rfl)
  split at hs
  · cases hs; exact ⟨⟨hG1, hO1⟩, rfl⟩
  · split at hs
    · rename_i k hk
      split at hs
      · rename_i hslow
        cases hs
        simp only [beq_iff_eq] at hslow
        refine ⟨⟨?_, ?_⟩, rfl⟩
        · refine ginv_crit (s := { s with src := s.src, dst := s.dst, scan := .idle }) (pc := .uSyncGot .err) hG1 hk
            (Or.inl ⟨rfl, rfl⟩) ?_ ?_ ?_ ?_ ?_ ?_ ?_ ?_
          · simp [CritPc.held]
          · simp [CritPc.delPending]
          · simp [CritPc.srcGone]
          · simp [CritPc.isFast]
          · simp [CritPc.isSyncGot]
          · intro h; exact absurd rfl h
          · simp [CritPc.held]
          · intro _; rw [hslow]; simp [CritPc.isPull]
        · refine oinv_flags hO1 rfl rfl rfl rfl ?_ rfl (fun _ h => h) id id
          simp [critDump, setCrit, hk, hslow, CritPc.held]
      · cases hs; exact ⟨⟨hG1, hO1⟩, rfl⟩
    · cases hs; exact ⟨⟨hG1, hO1⟩, rfl⟩

end Um.Mig
