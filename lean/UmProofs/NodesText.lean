import UmModel.ClusterNodes
import UmProofs.Decimal
import UmProofs.RouteCmd
/-!
Text-level lemmas for C14: `splitOn` / `joinWith` round trips, decimal parsing, and the byte classes
of the fields of a `CLUSTER NODES` line.
-/
namespace Um.Nodes
open Um Um.Route Um.RouteCmd

/-! ## `splitOn` -/

theorem splitOn_ne_nil (sep : UInt8) (l : Bytes) : splitOn sep l ≠ [] := by
  induction l with
  | nil => simp [splitOn]
  | cons b rest ih =>
    unfold splitOn
    split
    · simp
    · split <;> simp

/-- no separator inside: one piece -/
theorem splitOn_free (sep : UInt8) (l : Bytes) (h : ∀ b ∈ l, b ≠ sep) : splitOn sep l = [l] := by
  induction l with
  | nil => rfl
  | cons b rest ih =>
    have hb : (b == sep) = false := by
      have := h b (by simp)
      simpa using this
    have hr := ih (fun x hx => h x (by simp [hx]))
    unfold splitOn
    rw [hb, hr]
    rfl

/-- the first separator ends the first piece -/
theorem splitOn_append_sep (sep : UInt8) (x y : Bytes) (h : ∀ b ∈ x, b ≠ sep) :
    splitOn sep (x ++ sep :: y) = x :: splitOn sep y := by
  induction x with
  | nil =>
    show splitOn sep (sep :: y) = [] :: splitOn sep y
    rw [splitOn]
    simp
  | cons b rest ih =>
    have hb : (b == sep) = false := by
      have := h b (by simp)
      simpa using this
    have hr := ih (fun x hx => h x (by simp [hx]))
    show splitOn sep (b :: (rest ++ sep :: y)) = (b :: rest) :: splitOn sep y
    rw [splitOn, hb, hr]
    rfl

/-- concatenating the pieces with the separator gives the string back -/
theorem joinWith_splitOn (sep : UInt8) (l : Bytes) : joinWith [sep] (splitOn sep l) = l := by
  induction l with
  | nil => rfl
  | cons b rest ih =>
    unfold splitOn
    by_cases hb : (b == sep) = true
    · rw [if_pos hb]
      have : b = sep := by simpa using hb
      subst this
      cases hs : splitOn b rest with
      | nil => exact absurd hs (splitOn_ne_nil _ _)
      | cons p ps =>
        rw [hs] at ih
        show [] ++ [b] ++ joinWith [b] (p :: ps) = b :: rest
        rw [ih]; rfl
    · rw [if_neg hb]
      cases hs : splitOn sep rest with
      | nil => exact absurd hs (splitOn_ne_nil _ _)
      | cons p ps =>
        rw [hs] at ih
        simp only
        cases ps with
        | nil =>
          simp only [joinWith] at ih ⊢
          rw [ih]
        | cons q qs =>
          simp only [joinWith] at ih ⊢
          rw [← ih]; simp

theorem joinWith_cons_cons (sep x : Bytes) (y : Bytes) (rest : List Bytes) :
    joinWith sep (x :: y :: rest) = x ++ sep ++ joinWith sep (y :: rest) := rfl

/-- `split(sep)` undoes `join(sep)` when no part contains the separator -/
theorem splitOn_joinWith (sep : UInt8) (parts : List Bytes) (hne : parts ≠ [])
    (h : ∀ p ∈ parts, ∀ b ∈ p, b ≠ sep) : splitOn sep (joinWith [sep] parts) = parts := by
  induction parts with
  | nil => exact absurd rfl hne
  | cons x rest ih =>
    cases rest with
    | nil =>
      show splitOn sep x = [x]
      exact splitOn_free sep x (h x (by simp))
    | cons y rest' =>
      rw [joinWith_cons_cons]
      have hx := h x (by simp)
      have : x ++ [sep] ++ joinWith [sep] (y :: rest') = x ++ sep :: joinWith [sep] (y :: rest') := by simp
      rw [this, splitOn_append_sep sep x _ hx, ih (by simp) (fun p hp => h p (by simp [hp]))]

theorem joinWith_append (sep : Bytes) (a b : List Bytes) (ha : a ≠ []) (hb : b ≠ []) :
    joinWith sep (a ++ b) = joinWith sep a ++ sep ++ joinWith sep b := by
  induction a with
  | nil => exact absurd rfl ha
  | cons x rest ih =>
    cases rest with
    | nil =>
      cases b with
      | nil => exact absurd rfl hb
      | cons y ys => rfl
    | cons y rest' =>
      show joinWith sep (x :: y :: (rest' ++ b)) = _
      rw [joinWith_cons_cons, joinWith_cons_cons]
      have := ih (by simp)
      simp only [List.cons_append] at this
      rw [this]; simp [List.append_assoc]

theorem joinWith_eq_nil (sep : Bytes) (parts : List Bytes) (hne : parts ≠ []) (h : ∀ p ∈ parts, p ≠ []) :
    joinWith sep parts ≠ [] := by
  cases parts with
  | nil => exact absurd rfl hne
  | cons x rest =>
    have hx := h x (by simp)
    cases rest with
    | nil => exact hx
    | cons y r =>
      rw [joinWith_cons_cons]
      intro hc
      have h1 := (List.append_eq_nil_iff.mp hc).1
      exact hx (List.append_eq_nil_iff.mp h1).1

/-- lines terminated by `\n` split back into the lines and a trailing empty piece -/
theorem splitOn_lines (lines : List Bytes) (h : ∀ l ∈ lines, ∀ b ∈ l, b ≠ 10) :
    splitOn 10 (lines.flatMap fun l => l ++ [10]) = lines ++ [[]] := by
  induction lines with
  | nil => rfl
  | cons l rest ih =>
    have : ((l :: rest).flatMap fun l => l ++ [10]) = l ++ 10 :: (rest.flatMap fun l => l ++ [10]) := by
      simp [List.flatMap_cons]
    rw [this, splitOn_append_sep 10 l _ (h l (by simp)), ih (fun l' hl' => h l' (by simp [hl']))]
    rfl

/-! ## `mapOpt` -/

theorem mapOpt_map {α β γ : Type} (f : β → Option γ) (g : α → β) (k : α → γ) (l : List α)
    (h : ∀ x ∈ l, f (g x) = some (k x)) : mapOpt f (l.map g) = some (l.map k) := by
  induction l with
  | nil => rfl
  | cons x rest ih =>
    simp only [List.map_cons, mapOpt]
    rw [h x (by simp), ih (fun y hy => h y (by simp [hy]))]

theorem mapOpt_cons_some {α β : Type} (f : α → Option β) (x : α) (xs : List α) (y : β) (ys : List β)
    (hx : f x = some y) (hxs : mapOpt f xs = some ys) : mapOpt f (x :: xs) = some (y :: ys) := by
  simp only [mapOpt]; rw [hx, hxs]

/-! ## decimal numbers -/

def IsDigits (l : Bytes) : Prop := ∀ b ∈ l, 48 ≤ b.toNat ∧ b.toNat ≤ 57

theorem natDigits_isDigits (n : Nat) : IsDigits (natDigits n) := by
  induction n using Nat.strongRecOn with
  | _ n ih =>
    unfold natDigits
    split
    · rename_i h
      intro b hb
      simp only [List.mem_singleton] at hb
      subst hb
      simp [UInt8.toNat_ofNat]; omega
    · rename_i h
      intro b hb
      rw [List.mem_append] at hb
      rcases hb with hb | hb
      · exact ih (n / 10) (by omega) b hb
      · simp only [List.mem_singleton] at hb
        subst hb
        simp [UInt8.toNat_ofNat]; omega

theorem parseDecAux_append (a b : Bytes) (acc : Nat) :
    parseDecAux (a ++ b) acc = (parseDecAux a acc).bind (parseDecAux b) := by
  induction a generalizing acc with
  | nil => rfl
  | cons d ds ih =>
    simp only [List.cons_append, parseDecAux]
    cases digitVal d with
    | none => rfl
    | some x => exact ih _

theorem parseDecAux_natDigits (n : Nat) : parseDecAux (natDigits n) 0 = some n := by
  induction n using Nat.strongRecOn with
  | _ n ih =>
    unfold natDigits
    split
    · rename_i h
      simp only [parseDecAux]
      rw [digitVal_ofNat n h]
      simp
    · rename_i h
      rw [parseDecAux_append, ih (n / 10) (by omega)]
      simp only [Option.bind_some, parseDecAux]
      rw [digitVal_ofNat (n % 10) (by omega)]
      simp only
      congr 1; omega

theorem parseDec_natDigits (n : Nat) : parseDec (natDigits n) = some n := by
  have hne := natDigits_ne_nil n
  unfold parseDec
  split
  · rename_i h; exact absurd h hne
  · exact parseDecAux_natDigits n

/-- machine integers (`usize`, `u64`) -/
def USIZE : Nat := 2 ^ 64

theorem decimal_eq (n : Nat) (h : n < USIZE) : decimal n = natDigits n :=
  decimal_eq_natDigits n (by unfold USIZE at h; omega)

theorem parseDec_decimal (n : Nat) (h : n < USIZE) : parseDec (decimal n) = some n := by
  rw [decimal_eq n h]; exact parseDec_natDigits n

theorem decimal_isDigits (n : Nat) (h : n < USIZE) : IsDigits (decimal n) := by
  rw [decimal_eq n h]; exact natDigits_isDigits n

theorem decimal_ne_nil (n : Nat) (h : n < USIZE) : decimal n ≠ [] := by
  rw [decimal_eq n h]; exact natDigits_ne_nil n

theorem isDigits_ne (l : Bytes) (h : IsDigits l) (c : UInt8) (hc : c.toNat < 48 ∨ 57 < c.toNat) :
    ∀ b ∈ l, b ≠ c := by
  intro b hb e
  subst e
  have := h b hb
  omega

/-! ## range tokens -/

theorem parseRangeToken_rangeToken (r : Nat × Nat) (h1 : r.1 < USIZE) (h2 : r.2 < USIZE) :
    parseRangeToken (rangeToken r) = some r := by
  unfold rangeToken parseRangeToken
  have d1 := decimal_isDigits r.1 h1
  have d2 := decimal_isDigits r.2 h2
  by_cases he : (r.1 == r.2) = true
  · rw [if_pos he]
    rw [splitOn_free 45 _ (isDigits_ne _ d1 45 (by decide))]
    simp only [parseDec_decimal r.1 h1, Option.map_some]
    have : r.1 = r.2 := by simpa using he
    cases r with
    | mk a b => simp only at this; subst this; rfl
  · rw [if_neg he]
    have : decimal r.1 ++ [45] ++ decimal r.2 = decimal r.1 ++ 45 :: decimal r.2 := by simp
    rw [this, splitOn_append_sep 45 _ _ (isDigits_ne _ d1 45 (by decide)),
      splitOn_free 45 _ (isDigits_ne _ d2 45 (by decide))]
    simp only [parseDec_decimal r.1 h1, parseDec_decimal r.2 h2]

theorem rangeToken_ne_nil (r : Nat × Nat) (h1 : r.1 < USIZE) : rangeToken r ≠ [] := by
  unfold rangeToken
  have := decimal_ne_nil r.1 h1
  split
  · exact this
  · intro hc
    have := congrArg List.length hc
    simp at this

/-- a byte that is neither a digit nor `-` does not occur in a range token -/
theorem rangeToken_free (r : Nat × Nat) (h1 : r.1 < USIZE) (h2 : r.2 < USIZE) (c : UInt8)
    (hc : (c.toNat < 48 ∨ 57 < c.toNat) ∧ c ≠ 45) : ∀ b ∈ rangeToken r, b ≠ c := by
  have d1 := isDigits_ne _ (decimal_isDigits r.1 h1) c hc.1
  have d2 := isDigits_ne _ (decimal_isDigits r.2 h2) c hc.1
  unfold rangeToken
  split
  · exact d1
  · intro b hb
    simp only [List.mem_append, List.mem_singleton] at hb
    rcases hb with (hb | hb) | hb
    · exact d1 b hb
    · subst hb; exact fun e => hc.2 e.symm
    · exact d2 b hb

/-! ## node ids -/

/-- bytes that may separate fields or lines of `CLUSTER NODES` -/
def NoSep (l : Bytes) : Prop := ∀ b ∈ l, b ≠ 32 ∧ b ≠ 10

theorem hexLowerAux_noSep (fuel n : Nat) (acc : Bytes) (h : NoSep acc) : NoSep (hexLowerAux fuel n acc) := by
  induction fuel generalizing n acc with
  | zero => exact h
  | succ f ih =>
    unfold hexLowerAux
    have hd : n % 16 < 16 := Nat.mod_lt _ (by decide)
    have hc : NoSep ((if n % 16 < 10 then UInt8.ofNat (48 + n % 16) else UInt8.ofNat (87 + n % 16)) :: acc) := by
      intro b hb
      simp only [List.mem_cons] at hb
      rcases hb with hb | hb
      · subst hb
        split
        · constructor <;> (intro e; have := congrArg UInt8.toNat e; simp [UInt8.toNat_ofNat] at this; omega)
        · constructor <;> (intro e; have := congrArg UInt8.toNat e; simp [UInt8.toNat_ofNat] at this; omega)
      · exact h b hb
    simp only
    split
    · exact hc
    · exact ih _ _ hc

theorem hexLower_noSep (n : Nat) : NoSep (hexLower n) :=
  hexLowerAux_noSep 16 n [] (by intro b hb; cases hb)

theorem padTrunc_noSep (w : Nat) (pad : UInt8) (s : Bytes) (hs : NoSep s) (hp : pad ≠ 32 ∧ pad ≠ 10) :
    NoSep (padTrunc w pad s) := by
  intro b hb
  unfold padTrunc at hb
  have hb' := List.mem_of_mem_take hb
  rw [List.mem_append] at hb'
  rcases hb' with h | h
  · exact hs b h
  · rw [List.mem_replicate] at h
    rw [h.2]; exact hp

theorem genNodeId_noSep (name : String) (addr : Addr) (hn : NoSep (bs name)) : NoSep (genNodeId name addr) := by
  intro b hb
  unfold genNodeId at hb
  rw [List.mem_append] at hb
  rcases hb with h | h
  · exact padTrunc_noSep _ _ _ hn (by decide) b h
  · exact padTrunc_noSep _ _ _ (hexLower_noSep _) (by decide) b h

end Um.Nodes
