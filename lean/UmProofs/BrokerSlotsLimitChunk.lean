import UmProofs.BrokerSlotsCommitCore
/-!
# C01, `limit_migration`: chunk-level updates

`Chunk.addMig` (append an entry to a half's list) and `Chunk.withStable` (replace a half's stable
list), what `updateChunk` computes for the three closures used by `limitEntry`, and the effect on
the measures of `BrokerSlotsCommitBase`.
-/
namespace Um.Broker
open Um Um.Slots

@[simp] theorem R.ok_bind {α β} (a : α) (f : α → R β) : (R.ok a >>= f) = f a := rfl
@[simp] theorem R.pure_eq {α} (a : α) : (pure a : R α) = R.ok a := rfl

/-- role and addresses of a chunk (everything `limit_migration` must not change) -/
def Chunk.addrs (c : Chunk) : RolePos × (String × String) × (String × String) × (String × String × String × String) :=
  (c.role, (c.proxy0, c.proxy1), (c.host0, c.host1), (c.node0, c.node1, c.node2, c.node3))

def Chunk.addMig (c : Chunk) (p : Nat) (x : MigStore) : Chunk :=
  if p = 0 then { c with mig0 := c.mig0 ++ [x] } else { c with mig1 := c.mig1 ++ [x] }

def Chunk.withStable (c : Chunk) (p : Nat) (v : Option RangeList) : Chunk :=
  if p = 0 then { c with stable0 := v } else { c with stable1 := v }

def Chunk.stableAt (c : Chunk) (p : Nat) : Option RangeList := if p = 0 then c.stable0 else c.stable1

theorem lt_two {p : Nat} (hp : p < 2) : p = 0 ∨ p = 1 := by omega

theorem addMig_eq (c : Chunk) {p : Nat} (hp : p < 2) (x : MigStore) :
    ((c.mig p).bind fun l => c.setMig p (l ++ [x])) = some (c.addMig p x) := by
  rcases lt_two hp with rfl | rfl <;> rfl

theorem withStable_eq (c : Chunk) {p : Nat} (hp : p < 2) (g : Option RangeList → RangeList) :
    ((c.stable p).bind fun cur => c.setStable p (some (g cur))) =
      some (c.withStable p (some (g (c.stableAt p)))) := by
  rcases lt_two hp with rfl | rfl <;> rfl

theorem updateChunk_ok {cs : List Chunk} {i : Nat} {c c' : Chunk} (h : cs[i]? = some c)
    {f : Chunk → Option Chunk} (hf : f c = some c') (w : String) : updateChunk cs i f w = .ok (cs.set i c') := by
  unfold updateChunk
  simp only [h, hf]
  rfl

/-- `merge_another` into a possibly absent stable list, as `limit_migration` writes it -/
theorem merge_getD_eq (st : Option RangeList) (r : RangeList) (hr : NormalRanges r) :
    some (mergeAnother (st.getD []) r) = mergeSt st r := by
  cases st with
  | some rl => rfl
  | none =>
    simp only [Option.getD_none, mergeSt, mergeAnother, List.nil_append]
    rw [compact_of_normal r hr]

/-! ## addMig -/

theorem Chunk.addMig_migs (c : Chunk) (p : Nat) (x : MigStore) : (c.addMig p x).migs.Perm (x :: c.migs) := by
  unfold Chunk.addMig
  split
  · simp only [Chunk.migs, List.append_assoc, List.singleton_append]
    exact List.perm_middle
  · simp only [Chunk.migs]
    rw [← List.append_assoc]
    exact List.perm_append_singleton _ _

theorem Chunk.addMig_stables (c : Chunk) (p : Nat) (x : MigStore) : (c.addMig p x).stables = c.stables := by
  unfold Chunk.addMig; split <;> rfl

theorem Chunk.addMig_addrs (c : Chunk) (p : Nat) (x : MigStore) : (c.addMig p x).addrs = c.addrs := by
  unfold Chunk.addMig; split <;> rfl

theorem outSlots_perm {l l' : List MigStore} (h : l.Perm l') : (outSlots l).Perm (outSlots l') := by
  unfold outSlots outs
  exact List.Perm.flatMap_right _ (h.filter _)

theorem Chunk.addMig_owned (c : Chunk) (p : Nat) (x : MigStore) :
    (c.addMig p x).owned.Perm ((if x.isMigrating then slotsOf x.ranges else []) ++ c.owned) := by
  rw [Chunk.owned_eq, Chunk.owned_eq]
  have h1 : (c.addMig p x).stableSlots = c.stableSlots := by
    simp [Chunk.stableSlots, Chunk.addMig_stables]
  rw [h1]
  have h2 := outSlots_perm (c.addMig_migs p x)
  rw [outSlots_cons] at h2
  refine (List.Perm.append_left _ h2).trans ?_
  split
  · exact List.perm_append_comm_assoc _ _ _
  · simp

theorem Chunk.addMig_pos {n i : Nat} {c : Chunk} (hc : PosChunk n i c) {p : Nat} (hp : p < 2) (x : MigStore)
    (hx : (if x.isMigrating then (x.mm.srcChunk, x.mm.srcPart) else (x.mm.dstChunk, x.mm.dstPart)) = (i, p))
    (hb : x.mm.srcChunk < n ∧ x.mm.dstChunk < n ∧ x.mm.srcPart < 2 ∧ x.mm.dstPart < 2) :
    PosChunk n i (c.addMig p x) := by
  rcases lt_two hp with rfl | rfl
  · refine ⟨?_, hc.2.1, ?_⟩
    · intro m hm
      have e : (c.addMig 0 x).mig0 = c.mig0 ++ [x] := rfl
      rw [e] at hm
      simp only [List.mem_append, List.mem_singleton] at hm
      rcases hm with hm | hm
      · exact hc.1 m hm
      · subst hm; exact hx
    · intro m hm
      have := (c.addMig_migs 0 x).mem_iff.mp hm
      simp only [List.mem_cons] at this
      rcases this with hm | hm
      · subst hm; exact hb
      · exact hc.2.2 m hm
  · refine ⟨hc.1, ?_, ?_⟩
    · intro m hm
      have e : (c.addMig 1 x).mig1 = c.mig1 ++ [x] := rfl
      rw [e] at hm
      simp only [List.mem_append, List.mem_singleton] at hm
      rcases hm with hm | hm
      · exact hc.2.1 m hm
      · subst hm; exact hx
    · intro m hm
      have := (c.addMig_migs 1 x).mem_iff.mp hm
      simp only [List.mem_cons] at this
      rcases this with hm | hm
      · subst hm; exact hb
      · exact hc.2.2 m hm

theorem Chunk.addMig_norm {c : Chunk} (hc : NormChunk c) (p : Nat) (x : MigStore)
    (hx : NormalRanges x.ranges ∧ x.ranges ≠ []) : NormChunk (c.addMig p x) := by
  refine ⟨?_, ?_⟩
  · rw [Chunk.addMig_stables]; exact hc.1
  · intro m hm
    have := (c.addMig_migs p x).mem_iff.mp hm
    simp only [List.mem_cons] at this
    rcases this with hm | hm
    · subst hm; exact hx
    · exact hc.2 m hm

/-! ## withStable -/

theorem Chunk.withStable_migs (c : Chunk) (p : Nat) (v : Option RangeList) :
    (c.withStable p v).mig0 = c.mig0 ∧ (c.withStable p v).mig1 = c.mig1 := by
  unfold Chunk.withStable; split <;> exact ⟨rfl, rfl⟩

theorem Chunk.withStable_addrs (c : Chunk) (p : Nat) (v : Option RangeList) :
    (c.withStable p v).addrs = c.addrs := by
  unfold Chunk.withStable; split <;> rfl

/-- merging a disjoint normal list into one half's stable list -/
theorem Chunk.withStable_merge_spec (c : Chunk) (p : Nat) (r : RangeList) (hn : NormChunk c)
    (hr : NormalRanges r) (hd : ∀ x ∈ c.stableSlots, x ∉ slotsOf r) :
    NormChunk (c.withStable p (mergeSt (c.stableAt p) r)) ∧
    (c.withStable p (mergeSt (c.stableAt p) r)).stableSlots.Perm (slotsOf r ++ c.stableSlots) := by
  have hd' : ∀ rl ∈ c.stables, ∀ x ∈ slotsOf rl, x ∉ slotsOf r :=
    fun rl hrl x hx => hd x (mem_stableSlots.mpr ⟨rl, hrl, hx⟩)
  unfold Chunk.withStable Chunk.stableAt
  split
  · have hs := mergeSt_spec c.stable0 r (fun rl h => hn.1 rl (by simp [Chunk.stables, h])) hr
      (fun rl h => hd' rl (by simp [Chunk.stables, h]))
    refine ⟨⟨?_, hn.2⟩, ?_⟩
    · intro rl hrl
      simp only [Chunk.stables, List.mem_append] at hrl
      rcases hrl with hrl | hrl
      · exact hs.1 rl hrl
      · exact hn.1 rl (by simp [Chunk.stables, hrl])
    · simp only [Chunk.stableSlots, Chunk.stables, List.flatMap_append]
      rw [← List.append_assoc]
      exact List.Perm.append_right _ hs.2
  · have hs := mergeSt_spec c.stable1 r (fun rl h => hn.1 rl (by simp [Chunk.stables, h])) hr
      (fun rl h => hd' rl (by simp [Chunk.stables, h]))
    refine ⟨⟨?_, hn.2⟩, ?_⟩
    · intro rl hrl
      simp only [Chunk.stables, List.mem_append] at hrl
      rcases hrl with hrl | hrl
      · exact hn.1 rl (by simp [Chunk.stables, hrl])
      · exact hs.1 rl hrl
    · simp only [Chunk.stableSlots, Chunk.stables, List.flatMap_append]
      refine (List.Perm.append_left _ hs.2).trans ?_
      exact List.perm_append_comm_assoc _ _ _

/-! ## replacing a chunk keeps the address column -/

theorem map_addrs_set {cs : List Chunk} {i : Nat} {c c' : Chunk} (h : cs[i]? = some c)
    (ha : c'.addrs = c.addrs) : (cs.set i c').map Chunk.addrs = cs.map Chunk.addrs := by
  obtain ⟨pre, post, h1, h2⟩ := split_at_index cs i c h
  subst h1; subst h2
  rw [set_split]
  simp [ha]

end Um.Broker
