import UmProofs.MigrationInv
/-! C03 invariant preservation: backend commands of client ops outside the critical section. -/
namespace Um.Mig

/-- a client command executes at the destination (pull after EXISTS/RESTORE, push after UMSYNC,
or directly after the commit): its linearization point -/
theorem step_cmd_dst {s s' : Sys} {o : Op} {r : Rep} (hG : GInv s) (hO : OInv s) (ho : o ∈ s.ops) (hnc : o.pc ≠ .inCrit)
    (hfl : s.dstSt ≠ .preCheck ∧ DstFlight s o.cmd)
    (hs : (let (v', r') := o.cmd.apply s.dst
           guard (r == r') (setPc { s with dst := v' } o.id (.done r))) = some s') :
    (GInv s' ∧ OInv s') ∧ r = (o.cmd.apply (logical s)).2 ∧ logical s' = (o.cmd.apply (logical s)).1 := by
  simp only at hs
  obtain ⟨hg, rfl⟩ := guard_some hs
  have hoo := hO o ho
  obtain ⟨hpre, hmv, hdl⟩ := hfl
  have hlog := logical_of_moved hmv
  simp only [Moved, critDump] at hmv hdl
  obtain ⟨a1, a2, a3a, a3b, a4a, a4b, a5a, a5b, a6, b1, b2, b2', b3a, b3b, b4a, b4b, b4c, b5a, b5b, b6a, b6b, b7, b8, g8, g9⟩ := hG
  have hk1 := apply_keeps_some (c := o.cmd) (x := s.dst)
  have hk2 := apply_deletes (c := o.cmd) (x := s.dst)
  refine ⟨⟨?_, ?_⟩, ?_, ?_⟩
  · cases hd : o.cmd.deletes <;> simp only [hd, Bool.false_eq_true, false_implies, forall_const] at hdl hk1 hk2 <;>
    constructor <;> first
      | exact g8_setPc (pc := .done r) (s := { s with dst := (o.cmd.apply s.dst).1 }) rfl g8 ho hnc
      | (simp only [setPc, critDump, Moved] at * ; mig_grind)
  · intro o' ho'
    rw [mem_setPc] at ho'
    obtain ⟨a, ha, rfl⟩ := ho'
    have hoa := hO a ha
    by_cases hid : a.id = o.id
    · simp only [hid, if_true, OpOk]
      simp only [OpOk] at hoa
      exact ⟨by simpa [setPc] using hid ▸ hoa.1, hoa.2.1, trivial⟩
    · simp only [hid, if_false]
      cases hd : o.cmd.deletes <;> simp only [hd, Bool.false_eq_true, false_implies, forall_const] at hdl hk1 hk2 <;>
      simp only [OpOk, DstFlight, Moved, critDump, setPc] at hoa ⊢ <;> (split <;> simp_all <;> mig_grind)
  · rw [hlog]; simpa using hg
  · have : logical (setPc { s with dst := (o.cmd.apply s.dst).1 } o.id (.done r)) = (o.cmd.apply s.dst).1 := by
      cases hd : o.cmd.deletes
      · rcases isSome_or_none s.dst with h | h
        · have := apply_keeps_some hd s.dst h
          simp only [logical, setPc]
          cases hx : (o.cmd.apply s.dst).1 <;> simp [hx] at this ⊢
        · have hsrc : s.src = none := by rcases hmv with h' | h' <;> simp_all
          simp [logical, setPc, hsrc]
      · have hsrc := (hdl hd).1
        simp [logical, setPc, hsrc]
    rw [this, hlog]

/-- a client command executes at the source, before the switch -/
theorem step_cmd_src {s s' : Sys} {o : Op} {r : Rep} (hG : GInv s) (hO : OInv s) (ho : o ∈ s.ops)
    (hpc : o.pc = .direct .src)
    (hs : (let (v', r') := o.cmd.apply s.src
           guard (r == r') (setPc { s with src := v' } o.id (.done r))) = some s') :
    (GInv s' ∧ OInv s') ∧ r = (o.cmd.apply (logical s)).2 ∧ logical s' = (o.cmd.apply (logical s)).1 := by
  simp only at hs
  obtain ⟨hg, rfl⟩ := guard_some hs
  have hoo := hO o ho
  simp only [OpOk, hpc] at hoo
  have hrank := hoo.2.2
  have hnc : o.pc ≠ .inCrit := by simp [hpc]
  obtain ⟨a1, a2, a3a, a3b, a4a, a4b, a5a, a5b, a6, b1, b2, b2', b3a, b3b, b4a, b4b, b4c, b5a, b5b, b6a, b6b, b7, b8, g8, g9⟩ := hG
  have hpre : s.dstSt = .preCheck := by
    by_cases h : s.dstSt = .preCheck
    · exact h
    · have := a1 h; omega
  obtain ⟨hdst, hcrit, haux⟩ := b2 hpre
  have hscan := b2' (by omega)
  refine ⟨⟨?_, ?_⟩, ?_, ?_⟩
  · constructor <;> first
      | exact g8_setPc (pc := .done r) (s := { s with src := (o.cmd.apply s.src).1 }) rfl g8 ho hnc
      | (simp only [setPc, critDump, Moved] at * ; mig_grind)
  · intro o' ho'
    rw [mem_setPc] at ho'
    obtain ⟨a, ha, rfl⟩ := ho'
    have hoa := hO a ha
    by_cases hid : a.id = o.id
    · simp only [hid, if_true, OpOk]
      simp only [OpOk] at hoa
      exact ⟨by simpa [setPc] using hid ▸ hoa.1, hoa.2.1, trivial⟩
    · simp only [hid, if_false]
      simp only [OpOk, DstFlight, Moved, critDump, setPc] at hoa ⊢
      split <;> simp_all <;> mig_grind
  · rw [logical_of_dst_none hdst]; simpa using hg
  · rw [logical_of_dst_none hdst]
    simp [logical, setPc, hdst]

/-- EXISTS of a pull executes at the destination -/
theorem step_exists {s s' : Sys} {o : Op} {r : Rep} (hG : GInv s) (hO : OInv s) (hW : WF s) (ho : o ∈ s.ops)
    (hpc : o.pc = .pExists)
    (hs : guard (r == existsRep s.dst) (setPc s o.id (.pExistsGot s.dst.isSome)) = some s') :
    (GInv s' ∧ OInv s') ∧ logical s' = logical s := by
  obtain ⟨hg, rfl⟩ := guard_some hs
  have hoo := hO o ho
  simp only [OpOk, hpc] at hoo
  have hnc : o.pc ≠ .inCrit := by simp [hpc]
  obtain ⟨a1, a2, a3a, a3b, a4a, a4b, a5a, a5b, a6, b1, b2, b2', b3a, b3b, b4a, b4b, b4c, b5a, b5b, b6a, b6b, b7, b8, g8, g9⟩ := hG
  refine ⟨⟨?_, ?_⟩, ?_⟩
  · constructor <;> first
      | exact g8_setPc (pc := .pExistsGot s.dst.isSome) (s := s) rfl g8 ho hnc
      | (simp only [setPc, critDump, Moved] at * ; mig_grind)
  · intro o' ho'
    rw [mem_setPc] at ho'
    obtain ⟨a, ha, rfl⟩ := ho'
    have hoa := hO a ha
    by_cases hid : a.id = o.id
    · simp only [hid, if_true, OpOk]
      simp only [OpOk] at hoa
      have hao : a = o := eq_of_id_eq hW ha ho hid
      subst hao
      refine ⟨by simpa [setPc] using hoa.1, hoa.2.1, ?_⟩
      simp only [setPc, Moved]
      refine ⟨hoo.2.2.1, hoo.2.2.2, ?_⟩
      intro h; exact Or.inl h
    · simp only [hid, if_false]
      simp only [OpOk, DstFlight, Moved, critDump, setPc] at hoa ⊢
      exact hoa
  · simp [logical, setPc]

end Um.Mig
