import UmProofs.BrokerSlotsPlanE
/-!
# C01, planning layer — a plan applied to a quiet cluster gives `CInv`; `migrateSlots`

`cinv_of_plan`: chunks without pending entries, stable lists in normal form, a list of good
tasks, and `stable slots + task slots = 0 … SLOT_NUM-1` ⇒ after `assignDstSlots` the cluster
satisfies `PosInv`, `TwinInv`, `SlotInv`. Used for scale-out here and for scale-down in part H.
-/
namespace Um.Broker.Plan
open Um Um.Slots Um.Broker

def newEntries (ms : List MigSlots) : List MigStore := ms.flatMap fun m => [migE m, impE m]

theorem filter_newEntries_mig (ms : List MigSlots) :
    (newEntries ms).filter (·.isMigrating) = ms.map migE := by
  induction ms with
  | nil => rfl
  | cons m rest ih =>
    simp only [newEntries, List.flatMap_cons, List.map_cons] at ih ⊢
    rw [List.filter_append, ih]
    simp [migE, impE]

theorem filter_newEntries_imp (ms : List MigSlots) :
    (newEntries ms).filter (fun m => !m.isMigrating) = ms.map impE := by
  induction ms with
  | nil => rfl
  | cons m rest ih =>
    simp only [newEntries, List.flatMap_cons, List.map_cons] at ih ⊢
    rw [List.filter_append, ih]
    simp [migE, impE]

theorem mem_newEntries {ms : List MigSlots} {e : MigStore} (h : e ∈ newEntries ms) :
    ∃ m ∈ ms, e.ranges = m.ranges := by
  obtain ⟨m, hm, he⟩ := List.mem_flatMap.mp h
  simp only [List.mem_cons, List.not_mem_nil, or_false] at he
  rcases he with he | he <;> subst he <;> exact ⟨m, hm, rfl⟩

theorem nodup_map_of_comp {α β γ : Type} (g : β → γ) (f : α → β) (l : List α)
    (h : (l.map (g ∘ f)).Nodup) : (l.map f).Nodup := by
  have h' : ((l.map f).map g).Nodup := by rw [List.map_map]; exact h
  exact List.Pairwise.of_map g (fun a b hab heq => hab (by rw [heq])) h'

/-- **a plan applied to a quiet cluster** -/
theorem cinv_of_plan {chunks1 chunks2 : List Chunk} {ms : List MigSlots}
    (hnm : NoMig chunks1) (hsn : StableNormal chunks1) (htasks : ∀ m ∈ ms, GoodTask m)
    (hslots : ∀ x, (stableSlots chunks1).count x + (outSlots ms).count x = (List.range SLOT_NUM).count x)
    (h : assignDstSlots chunks1 ms = R.ok chunks2) (c : Cluster) (hc : c.chunks = chunks2) : CInv c := by
  rw [assignDstSlots_eq] at h
  obtain ⟨c3, hfold, h⟩ := bind_ok h
  have hpost := assignFold_spec (n := chunks1.length) ms chunks1 c3 hfold
  have hmigs : (migsL c3).Perm (newEntries ms) := by
    have := hpost.migs
    rwa [migsL_of_noMig hnm, List.nil_append] at this
  obtain ⟨hss, hsn3⟩ := stableSlots_of_map_eq hpost.stable
  have hsn3 := hsn3 hsn
  have hentry : ∀ e ∈ migsL c3, NormalRanges e.ranges ∧ e.ranges ≠ [] := by
    intro e he
    obtain ⟨m, hm, hr⟩ := mem_newEntries (hmigs.mem_iff.mp he)
    rw [hr]; exact htasks m hm
  have hcomp : compactSlots c3 = c3 := compactSlots_of_normal hsn3 (fun e he => (hentry e he).1)
  have h := pure_ok h
  rw [hcomp] at h
  subst h
  have hcm : c.migs = migsL c3 := by rw [cluster_migs_eq, hc]
  -- the migrating-out entries
  have hmigP : (c.migs.filter (·.isMigrating)).Perm (ms.map migE) := by
    rw [hcm, ← filter_newEntries_mig]; exact hmigs.filter _
  have himpP : (c.migs.filter (fun m => !m.isMigrating)).Perm (ms.map impE) := by
    rw [hcm, ← filter_newEntries_imp]; exact hmigs.filter _
  -- the task range lists are pairwise distinct
  have hnd_out : (outSlots ms).Nodup := by
    apply nodup_of_count
    intro x
    have := hslots x
    have := count_of_nodup (List.nodup_range (n := SLOT_NUM)) x
    omega
  have hnd_ranges : (ms.map (·.ranges)).Nodup := by
    apply nodup_of_slots_nodup
    · intro l hl
      obtain ⟨m, hm, rfl⟩ := List.mem_map.mp hl
      exact slotsOf_ne_nil (normalRanges_wf _ (htasks m hm).1) (htasks m hm).2
    · rw [List.flatMap_map]; exact hnd_out
  refine ⟨?_, ⟨?_, ?_⟩, ⟨?_, ?_⟩⟩
  · rw [posInv_iff, hc, hpost.len]
    exact hpost.pos rfl (posOK_of_noMig hnm)
  · have a := hmigP.map (fun m => (m.ranges, m.mm))
    have b := himpP.map (fun m => (m.ranges, m.mm))
    rw [List.map_map] at a b
    exact a.trans b.symm
  · have a := hmigP.map (fun m => (m.ranges, m.mm.epoch))
    rw [List.map_map] at a
    rw [a.nodup_iff]
    exact nodup_map_of_comp Prod.fst _ ms hnd_ranges
  · intro ch hch
    rw [hc] at hch
    refine ⟨hsn3 ch hch, fun m hm => hentry m (List.mem_flatMap.mpr ⟨ch, hch, hm⟩)⟩
  · apply perm_of_count
    intro x
    rw [count_ownedSlots, hc, hss, ← hslots x]
    congr 1
    unfold migSlots
    have : ((migsL c3).filter (·.isMigrating)).Perm (ms.map migE) := by
      rw [← filter_newEntries_mig]; exact hmigs.filter _
    rw [count_of_perm (this.flatMap_right _) x, List.flatMap_map]
    rfl

theorem nodup_of_perm_range {l : List Nat} (h : l.Perm (List.range SLOT_NUM)) : l.Nodup :=
  h.nodup_iff.mpr List.nodup_range

/-- **`migrate_slots`** keeps the invariants of every cluster (clusters with at most `SLOT_NUM`
masters) -/
theorem migrateSlots_inv (s : Store) (name : String) (h : ∀ c ∈ s.clusters, CInv c)
    (hb : ∀ c ∈ s.clusters, c.chunks.length * 2 ≤ SLOT_NUM) :
    ∀ c ∈ (migrateSlots s name).1.clusters, CInv c := by
  intro c hc
  unfold migrateSlots at hc
  split at hc
  · exact h c hc
  dsimp only at hc
  split at hc
  · exact h c hc
  rename_i cl hfind
  rw [findCluster_bump] at hfind
  have hmem := findCluster_mem hfind
  split at hc
  · exact h c hc
  split at hc
  · exact h c hc
  rename_i hnm
  have hnm : NoMig cl.chunks := not_isMigrating (by simpa using hnm)
  split at hc
  · rename_i chunks heq
    rcases mem_setCluster hc with hc | hc
    · subst hc
      obtain ⟨⟨chs, ms⟩, hrem, hass⟩ := bind_ok heq
      obtain ⟨hsn, hsl⟩ := stable_of_slotInv hnm (h cl hmem).2.2
      obtain ⟨sn, _, nm, tasks, cnt⟩ := removeSlotsFromSrc_spec (hb cl hmem) hsn (nodup_of_perm_range hsl) hrem
      exact cinv_of_plan (nm hnm) sn (fun m hm => (tasks m hm).1)
        (fun x => by rw [cnt x]; exact count_of_perm hsl x) hass _ rfl
    · exact h c hc
  · exact h c hc
  · exact h c hc
  · exact h c hc

/-- **`auto_scale_out_node_number`** -/
theorem autoScaleOutNodeNumber_inv (s : Store) (name : String) (expected : Nat) (h : ∀ c ∈ s.clusters, CInv c)
    (hb : ∀ c ∈ s.clusters, c.chunks.length * 2 ≤ SLOT_NUM) :
    ∀ c ∈ (autoScaleOutNodeNumber s name expected).1.clusters, CInv c := by
  unfold autoScaleOutNodeNumber
  split
  · exact h
  split
  · exact h
  split
  · exact migrateSlots_inv s name h hb
  · exact h

end Um.Broker.Plan
