import UmProofs.BrokerResCounts
/-!
# `buildLinkTable` and `freeHostCounts` of an arbitrary store (C12)
-/
namespace Um.Broker
open Um Um.Slots

/-! ## `freeHostCounts` -/

theorem mem_keys_foldl_inc (l : List ProxyRes) (c0 : Counts) (h : String) :
    h ∈ Counts.keys (l.foldl (fun c p => c.inc p.host) c0) ↔ h ∈ c0.keys ∨ ∃ p ∈ l, p.host = h := by
  induction l generalizing c0 with
  | nil => simp
  | cons p l ih =>
    rw [List.foldl_cons, ih, Counts.mem_keys_inc]
    constructor
    · rintro ((hh | rfl) | ⟨q, hq, rfl⟩)
      · exact Or.inl hh
      · exact Or.inr ⟨p, List.mem_cons_self, rfl⟩
      · exact Or.inr ⟨q, List.mem_cons_of_mem _ hq, rfl⟩
    · rintro (hh | ⟨q, hq, rfl⟩)
      · exact Or.inl (Or.inl hh)
      · rcases List.mem_cons.1 hq with rfl | hq'
        · exact Or.inl (Or.inr rfl)
        · exact Or.inr ⟨q, hq', rfl⟩

theorem freeHostCounts_mem_keys (s : Store) (h : String) :
    h ∈ (freeHostCounts s).keys ↔ ∃ p ∈ s.freeProxies, p.host = h := by
  unfold freeHostCounts
  rw [mem_keys_foldl_inc]
  simp [Counts.keys]

theorem freeHostCounts_nodup (s : Store) : (freeHostCounts s).keys.Nodup := by
  unfold freeHostCounts
  exact foldl_preserve _ (fun c => (Counts.keys c).Nodup) _
    (fun t y _ ht => Counts.nodup_keys_inc t y.host ht) [] List.nodup_nil

theorem freeHostCounts_get_isSome (s : Store) (h : String) :
    ((freeHostCounts s).get h).isSome ↔ ∃ p ∈ s.freeProxies, p.host = h := by
  rw [Counts.get_isSome_iff, freeHostCounts_mem_keys]

theorem freeProxies_mem (s : Store) (p : ProxyRes) (hp : p ∈ s.freeProxies) :
    p ∈ s.proxies ∧ p.cluster = none := by
  unfold Store.freeProxies at hp
  rw [List.mem_filter] at hp
  refine ⟨hp.1, ?_⟩
  have h2 := hp.2
  simp only [Bool.and_eq_true, Option.isNone_iff_eq_none] at h2
  exact h2.1.1

/-! ## `buildLinkTable` -/

/-- the `touch` part of `build_link_table`: depends on the proxies only -/
def linkBase (proxies : List ProxyRes) : LinkTable :=
  let freeHosts := (proxies.filter (·.cluster.isNone)).map (·.host)
  let hosts := proxies.map (·.host)
  hosts.foldl (fun t a =>
    hosts.foldl (fun t b =>
      if a == b then t
      else if !freeHosts.contains a && !freeHosts.contains b then t
      else (t.touch a b).touch b a) t) []

/-- the `inc` part of `build_link_table`: depends on the chunks' host pairs only -/
def linkFold (pairs : List (List (String × String))) (t0 : LinkTable) : LinkTable :=
  pairs.foldl (fun t l => l.foldl (fun t p => (t.inc p.1 p.2).inc p.2 p.1) t) t0

theorem buildLinkTable_eq (s : Store) :
    buildLinkTable s = s.clusters.foldl (fun t cl =>
      cl.chunks.foldl (fun t ch => (t.inc ch.host0 ch.host1).inc ch.host1 ch.host0) t) (linkBase s.proxies) := rfl

theorem buildLinkTable_eq_linkFold (s : Store) :
    buildLinkTable s
      = linkFold (s.clusters.map (fun c => c.chunks.map fun ch => (ch.host0, ch.host1))) (linkBase s.proxies) := by
  rw [buildLinkTable_eq]
  unfold linkFold
  rw [List.foldl_map]
  congr 1
  funext t cl
  rw [List.foldl_map]

theorem buildLinkTable_congr (s s' : Store) (hp : s.proxies = s'.proxies)
    (hc : s.clusters.map (fun c => c.chunks.map fun ch => (ch.host0, ch.host1))
        = s'.clusters.map (fun c => c.chunks.map fun ch => (ch.host0, ch.host1))) :
    buildLinkTable s = buildLinkTable s' := by
  rw [buildLinkTable_eq_linkFold, buildLinkTable_eq_linkFold, hp, hc]

/-- a property of link tables that `touch` and `inc` preserve survives the whole construction once
it holds for `linkBase` -/
theorem buildLinkTable_preserve (s : Store) (P : LinkTable → Prop)
    (hinc : ∀ t x y, P t → P (t.inc x y)) (h0 : P (linkBase s.proxies)) : P (buildLinkTable s) := by
  rw [buildLinkTable_eq]
  refine foldl_preserve _ P _ ?_ _ h0
  intro t cl _ ht
  refine foldl_preserve _ P _ ?_ _ ht
  intro t ch _ ht
  exact hinc _ _ _ (hinc _ _ _ ht)

theorem linkBase_link (proxies : List ProxyRes) (a b : String) (hab : a ≠ b)
    (ha : ∃ p ∈ proxies, p.host = a) (hb : ∃ p ∈ proxies, p.host = b ∧ p.cluster = none) :
    (linkBase proxies).HasLink a b ∧ (linkBase proxies).HasLink b a := by
  have hha : a ∈ proxies.map (·.host) := by
    obtain ⟨p, hp, rfl⟩ := ha; exact List.mem_map.2 ⟨p, hp, rfl⟩
  have hhb : b ∈ proxies.map (·.host) := by
    obtain ⟨p, hp, rfl, _⟩ := hb; exact List.mem_map.2 ⟨p, hp, rfl⟩
  have hfb : ((proxies.filter (·.cluster.isNone)).map (·.host)).contains b = true := by
    obtain ⟨p, hp, rfl, hc⟩ := hb
    rw [List.contains_iff_mem]
    exact List.mem_map.2 ⟨p, List.mem_filter.2 ⟨hp, by simp [hc]⟩, rfl⟩
  let P : LinkTable → Prop := fun t => t.HasLink a b ∧ t.HasLink b a
  have hstep : ∀ (x y : String) (t : LinkTable), P t →
      P (if x == y then t
         else if !((proxies.filter (·.cluster.isNone)).map (·.host)).contains x
                && !((proxies.filter (·.cluster.isNone)).map (·.host)).contains y then t
         else (t.touch x y).touch y x) := by
    intro x y t ht
    split
    · exact ht
    · split
      · exact ht
      · exact ⟨LinkTable.hasLink_touch _ _ _ _ _ (LinkTable.hasLink_touch _ _ _ _ _ ht.1),
               LinkTable.hasLink_touch _ _ _ _ _ (LinkTable.hasLink_touch _ _ _ _ _ ht.2)⟩
  show P (linkBase proxies)
  unfold linkBase
  refine foldl_establish _ P _ a hha ?_ ?_ []
  · intro t x ht
    exact foldl_preserve _ P _ (fun t y _ ht => hstep x y t ht) _ ht
  · intro t
    refine foldl_establish _ P _ b hhb (fun t y ht => hstep a y t ht) ?_ t
    intro t
    have h1 : (a == b) = false := by simpa using hab
    simp only [h1, hfb, Bool.not_true, Bool.and_false, Bool.false_eq_true, if_false]
    exact ⟨LinkTable.hasLink_touch _ _ _ _ _ (LinkTable.hasLink_touch_self _ _ _),
           LinkTable.hasLink_touch_self _ _ _⟩

theorem buildLinkTable_hasLink (s : Store) (a b : String) (hab : a ≠ b)
    (ha : ∃ p ∈ s.proxies, p.host = a) (hb : ∃ p ∈ s.proxies, p.host = b ∧ p.cluster = none) :
    (buildLinkTable s).HasLink a b ∧ (buildLinkTable s).HasLink b a :=
  buildLinkTable_preserve s (fun t => t.HasLink a b ∧ t.HasLink b a)
    (fun t x y ht => ⟨LinkTable.hasLink_inc t x y a b ht.1, LinkTable.hasLink_inc t x y b a ht.2⟩)
    (linkBase_link s.proxies a b hab ha hb)

theorem buildLinkTable_link (s : Store) (a b : String) (hab : a ≠ b)
    (ha : ∃ p ∈ s.proxies, p.host = a) (hb : ∃ p ∈ s.proxies, p.host = b ∧ p.cluster = none) :
    (∃ row, (buildLinkTable s).row a = some row ∧ ∃ n, (b, n) ∈ row) ∧
    (∃ row, (buildLinkTable s).row b = some row ∧ ∃ n, (a, n) ∈ row) :=
  buildLinkTable_hasLink s a b hab ha hb

theorem buildLinkTable_row_of_chunk (s : Store) (c : Cluster) (ch : Chunk) (hc : c ∈ s.clusters)
    (hch : ch ∈ c.chunks) :
    ((buildLinkTable s).row ch.host0).isSome ∧ ((buildLinkTable s).row ch.host1).isSome := by
  rw [buildLinkTable_eq]
  let P : LinkTable → Prop := fun t => (t.row ch.host0).isSome ∧ (t.row ch.host1).isSome
  have hinc : ∀ t x y, P t → P (LinkTable.inc t x y) := fun t x y ht =>
    ⟨LinkTable.row_isSome_inc t x y _ ht.1, LinkTable.row_isSome_inc t x y _ ht.2⟩
  have hchunks : ∀ (chunks : List Chunk) (t : LinkTable), P t →
      P (chunks.foldl (fun t ch => (t.inc ch.host0 ch.host1).inc ch.host1 ch.host0) t) := by
    intro chunks t ht
    exact foldl_preserve _ P _ (fun t y _ ht => hinc _ _ _ (hinc _ _ _ ht)) _ ht
  show P _
  refine foldl_establish _ P _ c hc (fun t cl ht => hchunks cl.chunks t ht) ?_ _
  intro t
  refine foldl_establish _ P _ ch hch (fun t y ht => hinc _ _ _ (hinc _ _ _ ht)) ?_ t
  intro t
  exact ⟨LinkTable.row_isSome_inc _ _ _ _ (LinkTable.row_isSome_inc_self _ _ _),
         LinkTable.row_isSome_inc_self _ _ _⟩

end Um.Broker
