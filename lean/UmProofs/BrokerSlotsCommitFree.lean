import UmProofs.BrokerSlotsCommitBase
/-!
# C01: `auto_delete_free_nodes` preserves `StoreInv`

It only runs when nothing is migrating, so there is no entry whose position could be invalidated,
and the removed chunks own nothing.
-/
namespace Um.Broker
open Um Um.Slots

theorem not_migrating_iff (cs : List Chunk) :
    cs.any Chunk.hasMig = false ↔ ∀ c ∈ cs, c.mig0 = [] ∧ c.mig1 = [] := by
  simp only [List.any_eq_false, Chunk.hasMig]
  constructor
  · intro h c hc
    have := h c hc
    simpa [List.isEmpty_iff] using this
  · intro h c hc
    have := h c hc
    simp [this.1, this.2]

theorem migsOf_eq_nil {cs : List Chunk} (h : ∀ c ∈ cs, c.mig0 = [] ∧ c.mig1 = []) : migsOf cs = [] := by
  induction cs with
  | nil => rfl
  | cons c t ih =>
    have hc := h c (by simp)
    simp [Chunk.migs, hc.1, hc.2, ih (fun x hx => h x (by simp [hx]))]

theorem Chunk.owned_of_isFree {c : Chunk} (h : c.isFree = true) : c.owned = [] := by
  simp only [Chunk.isFree, Bool.and_eq_true, Option.isNone_iff_eq_none, List.isEmpty_iff] at h
  obtain ⟨⟨⟨h0, h1⟩, h2⟩, h3⟩ := h
  simp [Chunk.owned, Chunk.stables, Chunk.migs, h0, h1, h2, h3]

theorem ownedOf_filter_notFree (cs : List Chunk) :
    ownedOf (cs.filter fun c => !c.isFree) = ownedOf cs := by
  induction cs with
  | nil => rfl
  | cons c t ih =>
    rw [List.filter_cons]
    cases hf : c.isFree
    · simp [ih]
    · simp [ih, Chunk.owned_of_isFree hf]

/-- C, list level: dropping the free chunks of a non-migrating chunk list keeps `InvL` -/
theorem InvL.filter_notFree {cs : List Chunk} (hnm : cs.any Chunk.hasMig = false) (h : InvL cs) :
    InvL (cs.filter fun c => !c.isFree) := by
  have hempty := (not_migrating_iff cs).mp hnm
  have hempty' : ∀ c ∈ cs.filter (fun c => !c.isFree), c.mig0 = [] ∧ c.mig1 = [] :=
    fun c hc => hempty c (List.mem_filter.mp hc).1
  have hm : migsOf (cs.filter fun c => !c.isFree) = [] := migsOf_eq_nil hempty'
  refine ⟨?_, ?_, ?_, ?_⟩
  · intro i c hi
    have hc := hempty' c (List.mem_of_getElem? hi)
    refine ⟨?_, ?_, ?_⟩
    · intro m hm; rw [hc.1] at hm; cases hm
    · intro m hm; rw [hc.2] at hm; cases hm
    · intro m hm; simp [Chunk.migs, hc.1, hc.2] at hm
  · unfold TwinL; rw [hm]; exact ⟨List.Perm.refl _, List.nodup_nil⟩
  · intro c hc; exact h.2.2.1 c (List.mem_filter.mp hc).1
  · rw [ownedOf_filter_notFree]; exact h.2.2.2

/-- C: `auto_delete_free_nodes` keeps `StoreInv` -/
theorem storeInv_autoDeleteFreeNodes (s : Store) (name : String) (h : StoreInv s) :
    StoreInv (autoDeleteFreeNodes s name).1 := by
  unfold autoDeleteFreeNodes
  split
  · exact h
  · simp only
    split
    · exact h
    · next cl hf =>
      split
      · exact h
      · next hnm =>
        split
        · exact h
        · simp only
          refine StoreInv.of_clusters_eq (s := s.setCluster
            { cl with chunks := cl.chunks.filter (fun c => !c.isFree), epoch := s.globalEpoch + 1 }) ?_ ?_
          · refine h.setCluster ?_
            have hnm' : cl.chunks.any Chunk.hasMig = false := by
              simpa [Cluster.isMigrating] using hnm
            exact (clusterInv_iff _).mpr (((clusterInv_iff cl).mp (h.find hf)).filter_notFree hnm')
          · rw [Store.bump_clusters]
            exact foldl_setProxyCluster_clusters _
              (fun (s : Store) (ch : Chunk) => (s.setProxyCluster ch.proxy0 none).setProxyCluster ch.proxy1 none)
              (fun _ _ => rfl) _

/-- C: `auto_delete_free_nodes_if_exists` keeps `StoreInv` -/
theorem storeInv_autoDeleteFreeNodesIfExists (s : Store) (name : String) (h : StoreInv s) :
    StoreInv (autoDeleteFreeNodesIfExists s name).1 := by
  have h1 := storeInv_autoDeleteFreeNodes s name h
  unfold autoDeleteFreeNodesIfExists
  split
  · next heq => rw [heq] at h1; exact h1
  · next heq => rw [heq] at h1; exact h1
  · exact h1

end Um.Broker
