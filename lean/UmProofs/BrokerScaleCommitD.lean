import UmProofs.BrokerScaleCommitC
import UmProofs.BrokerScaleRelease
/-!
# C10 — `CommitInv` is preserved by a commit; chains of commits terminate (part D)
-/
namespace Um.Broker.Scale
open Um Um.Slots Um.Broker

theorem commitInv_of_idle {c : Cluster} (h : c.migs = []) : CommitInv c := by
  have hch : ∀ ch ∈ c.chunks, ch.mig0 = [] ∧ ch.mig1 = [] := by
    intro ch hch
    unfold Cluster.migs Chunk.migs at h
    have := List.flatMap_eq_nil_iff.mp h ch hch
    simpa using this
  refine ⟨?_, ?_, ?_⟩
  · intro i ch hget
    obtain ⟨h0, h1⟩ := hch ch (List.mem_of_getElem? hget)
    simp [h0, h1, Chunk.migs]
  · unfold TwinInv; rw [h]; simp
  · rw [h]; intro m hm; cases hm

theorem Cluster.pending_nil_iff {c : Cluster} (h : TwinInv c) : (Cluster.pending c) = [] ↔ c.migs = [] := by
  constructor
  · intro hp
    have hlen := (h.1).length_eq
    simp only [List.length_map] at hlen
    have hp' : (c.migs.filter (·.isMigrating)) = [] := hp
    rw [hp'] at hlen
    have hi : c.migs.filter (fun m => !m.isMigrating) = [] := List.eq_nil_of_length_eq_zero hlen.symm
    apply List.eq_nil_iff_forall_not_mem.mpr
    intro m hm
    cases hmm : m.isMigrating with
    | true =>
      have : m ∈ c.migs.filter (·.isMigrating) := List.mem_filter.mpr ⟨hm, hmm⟩
      rw [hp'] at this; cases this
    | false =>
      have : m ∈ c.migs.filter (fun m => !m.isMigrating) := List.mem_filter.mpr ⟨hm, by simp [hmm]⟩
      rw [hi] at this; cases this
  · intro hm; unfold Cluster.pending; rw [hm]; rfl

theorem migs_filter_idle {c : Cluster} (h : c.migs = []) (p : Chunk → Bool) (e : Nat) :
    Cluster.migs { c with chunks := c.chunks.filter p, epoch := e } = [] := by
  unfold Cluster.migs at h ⊢
  simp only
  apply List.flatMap_eq_nil_iff.mpr
  intro ch hch
  exact List.flatMap_eq_nil_iff.mp h ch (List.mem_filter.mp hch).1

/-- **a commit preserves `CommitInv` and removes exactly the committed pending entry** (and, by
`TwinInv`, its twin) -/
theorem commitRes_inv {c : Cluster} (hinv : CommitInv c) {m : MigStore} (hm : m ∈ c.migs)
    (hmig : m.isMigrating = true) {A B : List Chunk} {dch : Chunk} {t : MigStore}
    (hdec : c.chunks = A ++ dch :: B)
    (htm : t.isMigrating = false) (htr : t.ranges = m.ranges) (htmm : t.mm = m.mm)
    (hpart : (m.mm.dstPart = 0 ∧ t ∈ dch.mig0) ∨ (m.mm.dstPart = 1 ∧ t ∈ dch.mig1)) (e : Nat) :
    CommitInv { c with chunks := commitRes m.ranges m.mm A dch B, epoch := e } ∧
    (Cluster.pending c).Perm (m :: Cluster.pending { c with chunks := commitRes m.ranges m.mm A dch B, epoch := e }) := by
  have htwin : isTwin m.ranges m.mm t = true := isTwin_iff.mpr ⟨htm, htmm, htr⟩
  have hkeep : keepOf m.ranges m.mm t = true := keepOf_of_importing htm
  have htw : (m.mm.dstPart = 0 ∧ (strip m.ranges m.mm dch).mig0.any (isTwin m.ranges m.mm) = true) ∨
      (m.mm.dstPart ≠ 0 ∧ (strip m.ranges m.mm dch).mig1.any (isTwin m.ranges m.mm) = true) := by
    rcases hpart with ⟨hp, ht⟩ | ⟨hp, ht⟩
    · exact Or.inl ⟨hp, List.any_eq_true.mpr ⟨t, by simp [strip, ht, hkeep], htwin⟩⟩
    · exact Or.inr ⟨by omega, List.any_eq_true.mpr ⟨t, by simp [strip, ht, hkeep], htwin⟩⟩
  obtain ⟨a, ha, hperm⟩ := commitRes_migs hinv.fixed hdec htw
  obtain ⟨ha1, ha2, ha3⟩ := isTwin_iff.mp ha
  generalize hc' : ({ c with chunks := commitRes m.ranges m.mm A dch B, epoch := e } : Cluster) = c'
  have hmigs' : c'.migs = (commitRes m.ranges m.mm A dch B).flatMap Chunk.migs := by subst hc'; rfl
  rw [← hmigs'] at hperm
  -- pending
  have hpend : ((Cluster.pending c).filter (keepOf m.ranges m.mm)).Perm (Cluster.pending c') := by
    have h1 := hperm.filter (·.isMigrating)
    have h2 : (a :: c'.migs).filter (·.isMigrating) = (Cluster.pending c') := by
      simp [Cluster.pending, ha1]
    rw [h2] at h1
    have h3 : (c.migs.filter (keepOf m.ranges m.mm)).filter (·.isMigrating) =
        (Cluster.pending c).filter (keepOf m.ranges m.mm) := by
      simp only [Cluster.pending, List.filter_filter]
      apply List.filter_congr; intro x _; exact Bool.and_comm _ _
    rw [h3] at h1; exact h1
  have hmp : m ∈ (Cluster.pending c) := List.mem_filter.mpr ⟨hm, hmig⟩
  have hpnd : (Cluster.pending c).Nodup := nodup_of_nodup_map hinv.twin.2
  have hfilt : (Cluster.pending c).filter (keepOf m.ranges m.mm) = (Cluster.pending c).filter (fun y => !(y == m)) := by
    apply List.filter_congr
    intro y hy
    obtain ⟨hy1, hy2⟩ := List.mem_filter.mp hy
    by_cases hym : y = m
    · subst hym; simp [keepOf, hmig]
    · have : keepOf m.ranges m.mm y = true := by
        cases hk : keepOf m.ranges m.mm y with
        | true => rfl
        | false =>
          exfalso
          obtain ⟨_, k2, k3⟩ := keepOf_eq_false_iff.mp hk
          exact hym (TwinInv.pending_unique hinv.twin hm hmig hy1 hy2 k2 (by rw [k3]))
      simp [this, hym]
  have hP : (Cluster.pending c).Perm (m :: (Cluster.pending c')) :=
    (perm_cons_filter_ne hpnd hmp).trans (List.Perm.cons m (hfilt ▸ hpend))
  -- importing
  have himp : (Cluster.importing c).Perm (a :: (Cluster.importing c')) := by
    have h1 := hperm.filter (fun x => !x.isMigrating)
    have h2 : (a :: c'.migs).filter (fun x => !x.isMigrating) = a :: (Cluster.importing c') := by
      simp [Cluster.importing, ha1]
    rw [h2] at h1
    have h3 : (c.migs.filter (keepOf m.ranges m.mm)).filter (fun x => !x.isMigrating) = (Cluster.importing c) := by
      simp only [Cluster.importing, List.filter_filter]
      apply List.filter_congr
      intro x _
      cases hx : x.isMigrating <;> simp [keepOf, hx]
    rw [h3] at h1; exact h1
  refine ⟨⟨?_, ⟨?_, ?_⟩, ?_⟩, hP⟩
  · -- PosInv
    intro i ch' hget
    have hget' : (commitRes m.ranges m.mm A dch B)[i]? = some ch' := by subst hc'; exact hget
    obtain ⟨ch, hch, hsub0, hsub1⟩ := commitRes_sub hinv.fixed hdec hget'
    obtain ⟨p0, p1, p2⟩ := hinv.pos i ch hch
    have hlen : c'.chunks.length = c.chunks.length := by
      subst hc'; simp only; rw [commitRes_length, hdec]
    refine ⟨fun x hx => p0 x (hsub0 x hx), fun x hx => p1 x (hsub1 x hx), ?_⟩
    intro x hx
    rw [hlen]
    apply p2
    simp only [Chunk.migs, List.mem_append] at hx ⊢
    rcases hx with hx | hx
    · exact Or.inl (hsub0 x hx)
    · exact Or.inr (hsub1 x hx)
  · -- twins
    have t1 := hP.map (fun x : MigStore => (x.ranges, x.mm))
    have t2 := himp.map (fun x : MigStore => (x.ranges, x.mm))
    have t3 : ((c.migs.filter (·.isMigrating)).map fun x => (x.ranges, x.mm)).Perm
        ((c.migs.filter (fun x => !x.isMigrating)).map fun x => (x.ranges, x.mm)) := hinv.twin.1
    simp only [List.map_cons] at t1 t2
    have : ((m.ranges, m.mm) :: (Cluster.pending c').map fun x => (x.ranges, x.mm)).Perm
        ((m.ranges, m.mm) :: (Cluster.importing c').map fun x => (x.ranges, x.mm)) := by
      have t2' := t2
      rw [ha2, ha3] at t2'
      exact (t1.symm.trans t3).trans t2'
    exact this.cons_inv
  · have t1 := hP.map (fun x : MigStore => (x.ranges, x.mm.epoch))
    have := (List.Perm.nodup_iff t1).mp hinv.twin.2
    simp only [List.map_cons, List.nodup_cons] at this
    exact this.2
  · intro x hx
    have : x ∈ c.migs.filter (keepOf m.ranges m.mm) := hperm.mem_iff.mpr (List.mem_cons_of_mem _ hx)
    exact hinv.fixed x (List.mem_filter.mp this).1

/-- one successful API commit: the invariants survive, exactly one pending entry (the one the
descriptor names) is gone -/
theorem commit_step {s s1 : Store} {name : String} {c : Cluster} (hf : s.findCluster name = some c)
    (hinv : CommitInv c) {ranges : RangeList} {epoch : Nat} {clear : Bool}
    (h : commitMigration s name ranges epoch false clear = (s1, R.ok ())) :
    ∃ c1 m, s1.findCluster name = some c1 ∧ CommitInv c1 ∧ m ∈ (Cluster.pending c) ∧ m.ranges = ranges ∧
      m.mm.epoch = epoch ∧ (Cluster.pending c).length = (Cluster.pending c1).length + 1 := by
  by_cases hex : ∃ m ∈ c.migs, m.isMigrating = true ∧ m.ranges = ranges ∧ m.mm.epoch = epoch
  · obtain ⟨m, hm, hmig, rfl, rfl⟩ := hex
    obtain ⟨A, dch, B, t, hdec, hlen, htm, htr, htmm, hpart, hcore⟩ := commitCore_pending (s := s) hf hinv hm hmig
    obtain ⟨hinv', hperm⟩ := commitRes_inv hinv hm hmig hdec htm htr htmm hpart (s.globalEpoch + 1)
    have hcount := hperm.length_eq
    simp only [List.length_cons] at hcount
    generalize hc' : ({ c with chunks := commitRes m.ranges m.mm A dch B, epoch := s.globalEpoch + 1 } : Cluster) = c' at *
    have hn : c'.name = c.name := by subst hc'; rfl
    have hf' : ((s.setCluster c').bump).findCluster name = some c' := by
      rw [Store.findCluster_bump]; exact Store.findCluster_setCluster hf hn
    have hmp : m ∈ (Cluster.pending c) := List.mem_filter.mpr ⟨hm, hmig⟩
    unfold commitMigration at h
    rw [hcore] at h
    simp only at h
    cases clear with
    | false =>
      simp only [Bool.false_eq_true, if_false, Prod.mk.injEq, and_true] at h
      subst h
      exact ⟨c', m, hf', hinv', hmp, rfl, rfl, hcount⟩
    | true =>
      simp only [if_true] at h
      rcases autoDeleteFreeNodesIfExists_cases ((s.setCluster c').bump) name with
        ⟨s2, cl2, h2, hrel⟩ | ⟨r, h2⟩
      · rw [h2] at h
        simp only [Prod.mk.injEq, and_true] at h
        subst h
        have hc2 : cl2 = c' := by
          have := hrel.found; rw [hf'] at this; exact (Option.some.inj this).symm
        subst hc2
        have hidle := (Cluster.isMigrating_eq_false_iff _).mp hrel.idle
        have hp0 : (Cluster.pending cl2) = [] := (Cluster.pending_nil_iff hinv'.twin).mpr hidle
        have hm0 := migs_filter_idle hidle (fun c => !c.isFree) (((s.setCluster cl2).bump).globalEpoch + 1)
        refine ⟨_, m, hrel.findCluster, commitInv_of_idle hm0, hmp, rfl, rfl, ?_⟩
        rw [hcount, hp0]
        unfold Cluster.pending
        rw [hm0]; rfl
      · rw [h2] at h
        simp only [Prod.mk.injEq] at h
        obtain ⟨h, _⟩ := h
        subst h
        exact ⟨c', m, hf', hinv', hmp, rfl, rfl, hcount⟩
  · exfalso
    have hno : ∀ m ∈ c.migs, m.isMigrating = true → ¬ (m.ranges = ranges ∧ m.mm.epoch = epoch) := by
      intro m hm hmig hre
      exact hex ⟨m, hm, hmig, hre.1, hre.2⟩
    have := commitCore_unknown (s := s) hf ranges epoch hno
    unfold commitMigration at h
    rw [this] at h
    simp at h

/-- chains of successful `commit_migration` API calls (any descriptors, any `clear` flags) -/
inductive CommitChain (name : String) : Store → Nat → Store → Prop where
  | nil (s : Store) : CommitChain name s 0 s
  | cons {s s1 s2 : Store} {k : Nat} (ranges : RangeList) (epoch : Nat) (clear : Bool) :
      commitMigration s name ranges epoch false clear = (s1, R.ok ()) → CommitChain name s1 k s2 →
      CommitChain name s (k + 1) s2

theorem commitChain_count {name : String} {s s' : Store} {k : Nat} (hch : CommitChain name s k s')
    {c : Cluster} (hf : s.findCluster name = some c) (hinv : CommitInv c) :
    ∃ c', s'.findCluster name = some c' ∧ CommitInv c' ∧ (Cluster.pending c).length = (Cluster.pending c').length + k := by
  induction hch generalizing c with
  | nil s => exact ⟨c, hf, hinv, rfl⟩
  | cons ranges epoch clear h _ ih =>
    obtain ⟨c1, m, hf1, hinv1, _, _, _, hcount⟩ := commit_step hf hinv h
    obtain ⟨c', hf', hinv', hc⟩ := ih hf1 hinv1
    exact ⟨c', hf', hinv', by omega⟩

end Um.Broker.Scale
