import UmProofs.BackendConn
/-! The retry budget after the F08b fix: the connection's retry level never drops while a task is
held, every connection failure raises it by one, and it is capped by `MAX_BACKEND_RETRY`. -/
namespace Um.BackendConn

/-- tasks held by the connection machine (inherited for a retry, or in the connection's queue) -/
def held (s : St) : List Task := retryTasks s ++ s.tasks

/-- the retry level: `retry_times_opt` of the live connection, `retry_state.retry_times` between two -/
def lvl (s : St) : Nat :=
  match s.phase with
  | .up => s.retryTimes.getD 0
  | _ => (s.retry.map Prod.fst).getD 0

/-- the step is a connection failure: `handle_conn` returns `Err` and `handle_backend` reconnects -/
def isFail (s : St) (e : Ev) : Bool := s.phase == .up && (step s e).1.phase == .connecting

/-- connection failures along a run -/
def fails : St → List Ev → Nat
  | _, [] => 0
  | s, e :: es => (if isFail s e then 1 else 0) + fails (step s e).1 es

/-- after every event of the run some task is still held -/
def HeldAlong : St → List Ev → Prop
  | _, [] => True
  | s, e :: es => held (step s e).1 ≠ [] ∧ HeldAlong (step s e).1 es

theorem connErr_lvl (s : St) (to : Option Nat) (k : WErr) (hh : held (connErr s to k).1 ≠ []) :
    lvl (connErr s to k).1 = to.getD 0 + 1 := by
  by_cases he : s.tasks = []
  · simp [connErr, he, held, retryTasks] at hh
  · by_cases hge : to.getD 0 ≥ MAX_BACKEND_RETRY
    · simp [connErr, he, hge, held, retryTasks] at hh
    · simp [connErr, he, hge, lvl]

theorem connErr_lvl_le (s : St) (to : Option Nat) (k : WErr) :
    lvl (connErr s to k).1 ≤ MAX_BACKEND_RETRY := by
  by_cases he : s.tasks = []
  · simp [connErr, he, lvl]
  · by_cases hge : to.getD 0 ≥ MAX_BACKEND_RETRY
    · simp [connErr, he, hge, lvl]
    · simp [connErr, he, hge, lvl]; omega

/-- one step: while something is still held afterwards, the level moved by exactly the failure -/
theorem step_lvl (s : St) (e : Ev) (h : WF s) (hh : held (step s e).1 ≠ []) :
    lvl (step s e).1 = lvl s + (if isFail s e then 1 else 0) := by
  obtain ⟨h1, h2c⟩ := h
  have h2 : s.phase = .up → s.retry = none := fun hp => h2c (by simp [hp])
  cases hph : s.phase with
  | up =>
    have hr := h2 hph
    cases e with
    | enqueue t => simp only [step, isFail]; split <;> simp [lvl, hph]
    | close => simp [step, isFail, lvl, hph]
    | connOk => simp [step, isFail, lvl, hph]
    | connFail => simp [step, isFail, lvl, hph]
    | waitDone => simp [step, isFail, lvl, hph]
    | poll =>
      by_cases hc : s.closed = true
      · simp [step, hph, drainUp, hc, held, retryTasks, hr] at hh
      · simp [step, isFail, hph, drainUp, hc, lvl]
    | write =>
      cases hpk : s.packets with
      | nil => simp [step, isFail, hph, hpk, lvl]
      | cons p ps =>
        by_cases hlt : s.tasks.length < ps.length + 1
        · simp only [step, hph, hpk, hlt, if_true] at hh ⊢
          rw [connErr_lvl _ _ _ hh]
          simp [isFail, step, hph, hpk, hlt, connErr_phase, lvl]
        · simp [step, isFail, hph, hpk, hlt, lvl]
    | writeErr k =>
      simp only [step, hph] at hh ⊢
      rw [connErr_lvl _ _ _ hh]
      simp [isFail, step, hph, connErr_phase, lvl]
    | peerClosed =>
      simp only [step, hph] at hh ⊢
      rw [connErr_lvl _ _ _ hh]
      simp [isFail, step, hph, connErr_phase, lvl]
    | item it =>
      cases hts : s.tasks with
      | nil =>
        simp only [step, hph, hts] at hh ⊢
        rw [connErr_lvl _ _ _ hh]
        simp [isFail, step, hph, hts, connErr_phase, lvl]
      | cons t rest =>
        cases rest with
        | nil => simp [step, hph, hts, held, retryTasks, hr] at hh
        | cons t2 rest2 => simp [step, isFail, hph, hts, lvl]
    | pollEnd tick =>
      by_cases htk : tick = true
      · by_cases hto : (!s.taskEmpty && !s.responseReceived) = true
        · simp only [step, hph, htk, hto, if_true] at hh
          by_cases he : s.tasks = [] <;> simp [connErr, he, held, retryTasks] at hh
        · simp [step, isFail, hph, htk, hto, lvl]
      · simp [step, isFail, hph, htk, lvl]
  | connecting =>
    have ht := h1 (by simp [hph])
    cases e with
    | connOk =>
      cases hr : s.retry with
      | none => simp [step, isFail, hph, hr, lvl]
      | some q => obtain ⟨n, ts⟩ := q; simp [step, isFail, hph, hr, lvl]
    | connFail =>
      exfalso; apply hh
      cases hr : s.retry with
      | none => by_cases hc : s.closed = true <;> simp [step, hph, hr, drainWaiting, hc, held, retryTasks, ht]
      | some q => by_cases hc : s.closed = true <;> simp [step, hph, hr, drainWaiting, hc, held, retryTasks, ht]
    | enqueue t => simp only [step, isFail]; split <;> simp [lvl, hph]
    | close => simp [step, isFail, lvl, hph]
    | waitDone => simp [step, isFail, lvl, hph]
    | poll => simp [step, isFail, lvl, hph]
    | write => simp [step, isFail, lvl, hph]
    | writeErr k => simp [step, isFail, lvl, hph]
    | peerClosed => simp [step, isFail, lvl, hph]
    | item it => simp [step, isFail, lvl, hph]
    | pollEnd tick => simp [step, isFail, lvl, hph]
  | waiting =>
    have ht := h1 (by simp [hph])
    have hr := h2c (by simp [hph])
    exfalso; apply hh
    cases e with
    | poll => by_cases hc : s.closed = true <;> simp [step, hph, drainWaiting, hc, held, retryTasks, ht, hr]
    | enqueue t => simp only [step]; split <;> simp [held, retryTasks, ht, hr]
    | close => simp [step, hph, held, retryTasks, ht, hr]
    | connOk => simp [step, hph, held, retryTasks, ht, hr]
    | connFail => simp [step, hph, held, retryTasks, ht, hr]
    | waitDone => simp [step, hph, held, retryTasks, ht, hr]
    | write => simp [step, hph, held, retryTasks, ht, hr]
    | writeErr k => simp [step, hph, held, retryTasks, ht, hr]
    | peerClosed => simp [step, hph, held, retryTasks, ht, hr]
    | item it => simp [step, hph, held, retryTasks, ht, hr]
    | pollEnd tick => simp [step, hph, held, retryTasks, ht, hr]
  | exited =>
    have ht := h1 (by simp [hph])
    have hr := h2c (by simp [hph])
    exfalso; apply hh
    cases e with
    | poll => simp [step, hph, held, retryTasks, ht, hr]
    | enqueue t => simp only [step]; split <;> simp [held, retryTasks, ht, hr]
    | close => simp [step, hph, held, retryTasks, ht, hr]
    | connOk => simp [step, hph, held, retryTasks, ht, hr]
    | connFail => simp [step, hph, held, retryTasks, ht, hr]
    | waitDone => simp [step, hph, held, retryTasks, ht, hr]
    | write => simp [step, hph, held, retryTasks, ht, hr]
    | writeErr k => simp [step, hph, held, retryTasks, ht, hr]
    | peerClosed => simp [step, hph, held, retryTasks, ht, hr]
    | item it => simp [step, hph, held, retryTasks, ht, hr]
    | pollEnd tick => simp [step, hph, held, retryTasks, ht, hr]

/-- the level is capped by `MAX_BACKEND_RETRY` -/
theorem step_lvl_le (s : St) (e : Ev) (h : WF s) (hl : lvl s ≤ MAX_BACKEND_RETRY) :
    lvl (step s e).1 ≤ MAX_BACKEND_RETRY := by
  obtain ⟨h1, h2c⟩ := h
  cases hph : s.phase with
  | up =>
    have hr : s.retry = none := h2c (by simp [hph])
    have hl' : s.retryTimes.getD 0 ≤ MAX_BACKEND_RETRY := by simpa [lvl, hph] using hl
    cases e with
    | enqueue t => simp only [step]; split <;> simpa [lvl, hph] using hl'
    | close => simpa [step, lvl, hph] using hl'
    | connOk => simpa [step, lvl, hph] using hl'
    | connFail => simpa [step, lvl, hph] using hl'
    | waitDone => simpa [step, lvl, hph] using hl'
    | poll =>
      by_cases hc : s.closed = true
      · simp [step, hph, drainUp, hc, lvl, hr]
      · simpa [step, hph, drainUp, hc, lvl] using hl'
    | write =>
      cases hpk : s.packets with
      | nil => simpa [step, hph, hpk, lvl] using hl'
      | cons p ps =>
        by_cases hlt : s.tasks.length < ps.length + 1
        · simp only [step, hph, hpk, hlt, if_true]; exact connErr_lvl_le _ _ _
        · simpa [step, hph, hpk, hlt, lvl] using hl'
    | writeErr k => simp only [step, hph]; exact connErr_lvl_le _ _ _
    | peerClosed => simp only [step, hph]; exact connErr_lvl_le _ _ _
    | item it =>
      cases hts : s.tasks with
      | nil => simp only [step, hph, hts]; exact connErr_lvl_le _ _ _
      | cons t rest =>
        cases rest with
        | nil => simp [step, hph, hts, lvl]
        | cons t2 r2 => simpa [step, hph, hts, lvl] using hl'
    | pollEnd tick =>
      by_cases htk : tick = true
      · by_cases hto : (!s.taskEmpty && !s.responseReceived) = true
        · simp only [step, hph, htk, hto, if_true]; exact connErr_lvl_le _ _ _
        · simpa [step, hph, htk, hto, lvl] using hl'
      · simpa [step, hph, htk, lvl] using hl'
  | connecting =>
    have hl' : (s.retry.map Prod.fst).getD 0 ≤ MAX_BACKEND_RETRY := by simpa [lvl, hph] using hl
    cases e with
    | connOk =>
      cases hr : s.retry with
      | none => simp [step, hph, hr, lvl]
      | some q => obtain ⟨n, ts⟩ := q; simpa [step, hph, hr, lvl] using hl'
    | connFail =>
      cases hr : s.retry with
      | none => by_cases hc : s.closed = true <;> simp [step, hph, hr, drainWaiting, hc, lvl]
      | some q => by_cases hc : s.closed = true <;> simp [step, hph, hr, drainWaiting, hc, lvl]
    | enqueue t => simp only [step]; split <;> simpa [lvl, hph] using hl'
    | close => simpa [step, lvl, hph] using hl'
    | waitDone => simpa [step, lvl, hph] using hl'
    | poll => simpa [step, lvl, hph] using hl'
    | write => simpa [step, lvl, hph] using hl'
    | writeErr k => simpa [step, lvl, hph] using hl'
    | peerClosed => simpa [step, lvl, hph] using hl'
    | item it => simpa [step, lvl, hph] using hl'
    | pollEnd tick => simpa [step, lvl, hph] using hl'
  | waiting =>
    have hr : s.retry = none := h2c (by simp [hph])
    cases e with
    | poll => by_cases hc : s.closed = true <;> simp [step, hph, drainWaiting, hc, lvl, hr]
    | enqueue t => simp only [step]; split <;> simp [lvl, hph, hr]
    | close => simp [step, lvl, hph, hr]
    | connOk => simp [step, lvl, hph, hr]
    | connFail => simp [step, lvl, hph, hr]
    | waitDone => simp [step, lvl, hph, hr]
    | write => simp [step, lvl, hph, hr]
    | writeErr k => simp [step, lvl, hph, hr]
    | peerClosed => simp [step, lvl, hph, hr]
    | item it => simp [step, lvl, hph, hr]
    | pollEnd tick => simp [step, lvl, hph, hr]
  | exited =>
    have hr : s.retry = none := h2c (by simp [hph])
    cases e with
    | poll => simp [step, lvl, hph, hr]
    | enqueue t => simp only [step]; split <;> simp [lvl, hph, hr]
    | close => simp [step, lvl, hph, hr]
    | connOk => simp [step, lvl, hph, hr]
    | connFail => simp [step, lvl, hph, hr]
    | waitDone => simp [step, lvl, hph, hr]
    | write => simp [step, lvl, hph, hr]
    | writeErr k => simp [step, lvl, hph, hr]
    | peerClosed => simp [step, lvl, hph, hr]
    | item it => simp [step, lvl, hph, hr]
    | pollEnd tick => simp [step, lvl, hph, hr]

theorem run_fst_cons (s : St) (e : Ev) (es : List Ev) : (run s (e :: es)).1 = (run (step s e).1 es).1 := by
  simp [run]

theorem run_wf_lvl : ∀ (evs : List Ev) (s : St), WF s → lvl s ≤ MAX_BACKEND_RETRY →
    WF (run s evs).1 ∧ lvl (run s evs).1 ≤ MAX_BACKEND_RETRY := by
  intro evs
  induction evs with
  | nil => intro s h hl; exact ⟨h, hl⟩
  | cons e es ih =>
    intro s h hl
    rw [run_fst_cons]
    exact ih _ (step_spec 0 s e h).2 (step_lvl_le s e h hl)

/-- along a run that always holds a task, the level counts the connection failures -/
theorem run_lvl : ∀ (evs : List Ev) (s : St), WF s → HeldAlong s evs →
    lvl (run s evs).1 = lvl s + fails s evs := by
  intro evs
  induction evs with
  | nil => intro s _ _; simp [run, fails]
  | cons e es ih =>
    intro s h hh
    obtain ⟨h1, h2⟩ := hh
    rw [run_fst_cons, ih _ (step_spec 0 s e h).2 h2, step_lvl s e h h1]
    simp only [fails]
    omega

theorem run_append_fst (s : St) (a b : List Ev) : (run s (a ++ b)).1 = (run (run s a).1 b).1 := by
  induction a generalizing s with
  | nil => simp [run]
  | cons e es ih => simp [run, ih]

end Um.BackendConn
