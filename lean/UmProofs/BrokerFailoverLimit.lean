import UmProofs.BrokerFailoverLift
/-!
# C06 — views cut by `limit_migration` (`migration_limit > 0`)

`limit_migration` rebuilds the migration lists from the stored entries looking only at their
ranges, direction and positions — never at role positions, addresses or epochs. Hence it commutes
with every entry map `f` that keeps those (`limitMigration_rel`), in particular with `tkEntry pos e`,
and it keeps every chunk's role and addresses (`limitMigration_frame`).
-/
namespace Um.Broker.C06
open Um Um.Slots Um.Gen.Chunk

/-- pointwise relation between two lists -/
inductive All2 {α β : Type} (R : α → β → Prop) : List α → List β → Prop where
  | nil : All2 R [] []
  | cons {a b l l'} : R a b → All2 R l l' → All2 R (a :: l) (b :: l')

namespace All2
variable {α β γ δ : Type} {R : α → β → Prop}

theorem length_eq {l : List α} {l' : List β} (h : All2 R l l') : l'.length = l.length := by
  induction h with
  | nil => rfl
  | cons _ _ ih => simp [ih]

theorem get {l : List α} {l' : List β} (h : All2 R l l') {i : Nat} {a : α} (ha : l[i]? = some a) :
    ∃ b, l'[i]? = some b ∧ R a b := by
  induction h generalizing i with
  | nil => simp at ha
  | cons hab _ ih =>
    cases i with
    | zero => simp at ha; subst ha; exact ⟨_, by simp, hab⟩
    | succ i => simpa using ih (by simpa using ha)

theorem get' {l : List α} {l' : List β} (h : All2 R l l') {i : Nat} {b : β} (hb : l'[i]? = some b) :
    ∃ a, l[i]? = some a ∧ R a b := by
  induction h generalizing i with
  | nil => simp at hb
  | cons hab _ ih =>
    cases i with
    | zero => simp at hb; subst hb; exact ⟨_, by simp, hab⟩
    | succ i => simpa using ih (by simpa using hb)

theorem set {l : List α} {l' : List β} (h : All2 R l l') (i : Nat) {a : α} {b : β} (hab : R a b) :
    All2 R (l.set i a) (l'.set i b) := by
  induction h generalizing i with
  | nil => exact All2.nil
  | cons hxy hl ih =>
    cases i with
    | zero => exact All2.cons hab hl
    | succ i => exact All2.cons hxy (ih i)

theorem set_right {l : List α} {l' : List β} (h : All2 R l l') (i : Nat) {b2 : β}
    (hstep : ∀ a b, l[i]? = some a → l'[i]? = some b → R a b → R a b2) : All2 R l (l'.set i b2) := by
  induction h generalizing i with
  | nil => exact All2.nil
  | cons hxy hl ih =>
    cases i with
    | zero => exact All2.cons (hstep _ _ (by simp) (by simp) hxy) hl
    | succ i => exact All2.cons hxy (ih i (fun a b ha hb => hstep a b (by simpa using ha) (by simpa using hb)))

theorem map {S : γ → δ → Prop} {g : α → γ} {g' : β → δ} (hg : ∀ a b, R a b → S (g a) (g' b))
    {l : List α} {l' : List β} (h : All2 R l l') : All2 S (l.map g) (l'.map g') := by
  induction h with
  | nil => exact All2.nil
  | cons hab _ ih => exact All2.cons (hg _ _ hab) ih

theorem mono {S : α → β → Prop} (hRS : ∀ a b, R a b → S a b) {l : List α} {l' : List β} (h : All2 R l l') :
    All2 S l l' := by
  induction h with
  | nil => exact All2.nil
  | cons hab _ ih => exact All2.cons (hRS _ _ hab) ih

theorem of_get {l : List α} {l' : List β} (hlen : l'.length = l.length)
    (h : ∀ (i : Nat) (a : α) (b : β), l[i]? = some a → l'[i]? = some b → R a b) : All2 R l l' := by
  induction l generalizing l' with
  | nil =>
    cases l' with
    | nil => exact All2.nil
    | cons _ _ => simp at hlen
  | cons a l ih =>
    cases l' with
    | nil => simp at hlen
    | cons b l' =>
      refine All2.cons (h 0 a b (by simp) (by simp)) (ih (by simpa using hlen) ?_)
      intro i x y hx hy
      exact h (i + 1) x y (by simpa using hx) (by simpa using hy)

theorem refl_of {R : α → α → Prop} (hR : ∀ a, R a a) (l : List α) : All2 R l l := by
  induction l with
  | nil => exact All2.nil
  | cons a l ih => exact All2.cons (hR a) ih

theorem trans {T : β → γ → Prop} {U : α → γ → Prop} (hc : ∀ a b c, R a b → T b c → U a c)
    {l : List α} {l' : List β} {l'' : List γ} (h : All2 R l l') (h' : All2 T l' l'') : All2 U l l'' := by
  induction h generalizing l'' with
  | nil => cases h'; exact All2.nil
  | cons hab _ ih =>
    cases h' with
    | cons hbc hl' => exact All2.cons (hc _ _ _ hab hbc) (ih hl')

end All2

/-! ## what `limit_migration` looks at -/

/-- an entry map that `limit_migration` cannot see: it keeps ranges, direction, positions, and
commutes with turning a migrating-out entry into its importing copy -/
structure Invisible (f : MigStore → MigStore) : Prop where
  ranges : ∀ m, (f m).ranges = m.ranges
  dir : ∀ m, (f m).isMigrating = m.isMigrating
  src : ∀ m, srcPos (f m) = srcPos m
  dst : ∀ m, dstPos (f m) = dstPos m
  imp : ∀ m, f { m with isMigrating := false } = { f m with isMigrating := false }

/-- same stable lists, entries mapped by `f`; role and addresses are not constrained -/
def RelC (f : MigStore → MigStore) (x y : Chunk) : Prop :=
  y.stable0 = x.stable0 ∧ y.stable1 = x.stable1 ∧ y.mig0 = x.mig0.map f ∧ y.mig1 = x.mig1.map f

/-- same role and addresses -/
def SameAddr (x y : Chunk) : Prop :=
  y.role = x.role ∧ y.proxy0 = x.proxy0 ∧ y.proxy1 = x.proxy1 ∧ y.host0 = x.host0 ∧ y.host1 = x.host1 ∧
  y.node0 = x.node0 ∧ y.node1 = x.node1 ∧ y.node2 = x.node2 ∧ y.node3 = x.node3

theorem updateChunk_eq_ok {cs r : List Chunk} {i : Nat} {g : Chunk → Option Chunk} {w : String}
    (h : updateChunk cs i g w = R.ok r) : ∃ c c', cs[i]? = some c ∧ g c = some c' ∧ r = cs.set i c' := by
  unfold updateChunk at h
  cases hc : cs[i]? with
  | none => rw [hc] at h; cases h
  | some c =>
    rw [hc] at h
    simp only [] at h
    cases hg : g c with
    | none => rw [hg] at h; cases h
    | some c' => rw [hg] at h; cases h; exact ⟨c, c', rfl, hg, rfl⟩

theorem updateChunk_of {cs : List Chunk} {i : Nat} {g : Chunk → Option Chunk} {w : String} {c c' : Chunk}
    (hc : cs[i]? = some c) (hg : g c = some c') : updateChunk cs i g w = R.ok (cs.set i c') := by
  unfold updateChunk; rw [hc]; simp only []; rw [hg]; rfl

theorem updateChunk_rel {Rl : Chunk → Chunk → Prop} {cs cs' r : List Chunk} {i : Nat} {g g' : Chunk → Option Chunk}
    {w : String} (hrel : All2 Rl cs cs')
    (hg : ∀ x y x2, Rl x y → g x = some x2 → ∃ y2, g' y = some y2 ∧ Rl x2 y2)
    (h : updateChunk cs i g w = R.ok r) : ∃ r', updateChunk cs' i g' w = R.ok r' ∧ All2 Rl r r' := by
  obtain ⟨c, c2, hc, hgc, rfl⟩ := updateChunk_eq_ok h
  obtain ⟨d, hd, hcd⟩ := hrel.get hc
  obtain ⟨d2, hgd, hr2⟩ := hg c d c2 hcd hgc
  exact ⟨_, updateChunk_of hd hgd, hrel.set i hr2⟩

theorem updateChunk_frame {cs0 cs r : List Chunk} {i : Nat} {g : Chunk → Option Chunk} {w : String}
    (hrel : All2 SameAddr cs0 cs) (hg : ∀ x x2, g x = some x2 → SameAddr x x2)
    (h : updateChunk cs i g w = R.ok r) : All2 SameAddr cs0 r := by
  obtain ⟨c, c2, hc, hgc, rfl⟩ := updateChunk_eq_ok h
  apply hrel.set_right i
  intro a b _ hb hab
  rw [hc] at hb; cases hb
  obtain ⟨a1, a2, a3, a4, a5, a6, a7, a8, a9⟩ := hab
  obtain ⟨b1, b2, b3, b4, b5, b6, b7, b8, b9⟩ := hg _ _ hgc
  exact ⟨b1.trans a1, b2.trans a2, b3.trans a3, b4.trans a4, b5.trans a5, b6.trans a6, b7.trans a7, b8.trans a8,
    b9.trans a9⟩

/-! ## the three chunk updates of `limit_entry` -/

theorem setStable_some {c c2 : Chunk} {p : Nat} {v : Option RangeList} (h : c.setStable p v = some c2) :
    (p = 0 ∧ c2 = { c with stable0 := v }) ∨ (p = 1 ∧ c2 = { c with stable1 := v }) := by
  unfold Chunk.setStable at h
  split at h
  · cases h; exact Or.inl ⟨rfl, rfl⟩
  · cases h; exact Or.inr ⟨rfl, rfl⟩
  · cases h

theorem setMig_some {c c2 : Chunk} {p : Nat} {v : List MigStore} (h : c.setMig p v = some c2) :
    (p = 0 ∧ c2 = { c with mig0 := v }) ∨ (p = 1 ∧ c2 = { c with mig1 := v }) := by
  unfold Chunk.setMig at h
  split at h
  · cases h; exact Or.inl ⟨rfl, rfl⟩
  · cases h; exact Or.inr ⟨rfl, rfl⟩
  · cases h

/-- the "defer" update: merge the ranges back into the stable list of the source part -/
def gDefer (p : Nat) (ranges : RangeList) (c : Chunk) : Option Chunk :=
  (c.stable p).bind fun cur => c.setStable p (some (mergeAnother (cur.getD []) ranges))

/-- the "accept" update: append an entry to a part list -/
def gAdd (p : Nat) (m : MigStore) (c : Chunk) : Option Chunk :=
  (c.mig p).bind fun l => c.setMig p (l ++ [m])

theorem gDefer_rel (f : MigStore → MigStore) (p : Nat) (ranges : RangeList) (x y x2 : Chunk) (hxy : RelC f x y)
    (h : gDefer p ranges x = some x2) : ∃ y2, gDefer p ranges y = some y2 ∧ RelC f x2 y2 := by
  obtain ⟨s0, s1, m0, m1⟩ := hxy
  unfold gDefer at *
  match p with
  | 0 =>
    simp only [Chunk.stable, Option.bind_some, Chunk.setStable, Option.some.injEq] at h ⊢
    subst h
    exact ⟨_, rfl, by rw [s0], s1, m0, m1⟩
  | 1 =>
    simp only [Chunk.stable, Option.bind_some, Chunk.setStable, Option.some.injEq] at h ⊢
    subst h
    exact ⟨_, rfl, s0, by rw [s1], m0, m1⟩
  | n + 2 => simp [Chunk.stable] at h

theorem gAdd_rel (f : MigStore → MigStore) (p : Nat) (m : MigStore) (x y x2 : Chunk) (hxy : RelC f x y)
    (h : gAdd p m x = some x2) : ∃ y2, gAdd p (f m) y = some y2 ∧ RelC f x2 y2 := by
  obtain ⟨s0, s1, m0, m1⟩ := hxy
  unfold gAdd at *
  match p with
  | 0 =>
    simp only [Chunk.mig, Option.bind_some, Chunk.setMig, Option.some.injEq] at h ⊢
    subst h
    exact ⟨_, rfl, s0, s1, by simp [m0], m1⟩
  | 1 =>
    simp only [Chunk.mig, Option.bind_some, Chunk.setMig, Option.some.injEq] at h ⊢
    subst h
    exact ⟨_, rfl, s0, s1, m0, by simp [m1]⟩
  | n + 2 => simp [Chunk.mig] at h

theorem gDefer_frame (p : Nat) (ranges : RangeList) (x x2 : Chunk) (h : gDefer p ranges x = some x2) :
    SameAddr x x2 := by
  unfold gDefer at h
  match p with
  | 0 => simp only [Chunk.stable, Option.bind_some, Chunk.setStable, Option.some.injEq] at h; subst h
         exact ⟨rfl, rfl, rfl, rfl, rfl, rfl, rfl, rfl, rfl⟩
  | 1 => simp only [Chunk.stable, Option.bind_some, Chunk.setStable, Option.some.injEq] at h; subst h
         exact ⟨rfl, rfl, rfl, rfl, rfl, rfl, rfl, rfl, rfl⟩
  | n + 2 => simp [Chunk.stable] at h

theorem gAdd_frame (p : Nat) (m : MigStore) (x x2 : Chunk) (h : gAdd p m x = some x2) : SameAddr x x2 := by
  unfold gAdd at h
  match p with
  | 0 => simp only [Chunk.mig, Option.bind_some, Chunk.setMig, Option.some.injEq] at h; subst h
         exact ⟨rfl, rfl, rfl, rfl, rfl, rfl, rfl, rfl, rfl⟩
  | 1 => simp only [Chunk.mig, Option.bind_some, Chunk.setMig, Option.some.injEq] at h; subst h
         exact ⟨rfl, rfl, rfl, rfl, rfl, rfl, rfl, rfl, rfl⟩
  | n + 2 => simp [Chunk.mig] at h

/-! ## `limit_entry` in normal form -/

def impCopy (m : MigStore) : MigStore := { m with isMigrating := false }

/-- `.entry(k).or_insert(0)` -/
def touchOut (st : LimSt) (k : Nat × Nat) : LimSt :=
  if st.out.any (·.1 == k) then st else { st with out := st.out ++ [(k, 0)] }

def deferP (limit : Nat) (st : LimSt) (k : Nat × Nat) : Bool :=
  decide (st.num ≥ limit) || decide (st.outCount k ≥ MAX_MIGRATING_OUT)

theorem limitEntry_cases (limit : Nat) (st : LimSt) (m : MigStore) :
    limitEntry limit st m =
      if (!m.isMigrating) = true then R.ok st else
      if deferP limit (touchOut st (srcPos m)) (srcPos m) = true then
        (updateChunk (touchOut st (srcPos m)).chunks (srcPos m).1 (gDefer (srcPos m).2 m.ranges) "limit_migration" >>=
          fun chunks => R.ok { touchOut st (srcPos m) with chunks := chunks })
      else
        (updateChunk (touchOut st (srcPos m)).chunks (srcPos m).1 (gAdd (srcPos m).2 m) "limit_migration" >>=
          fun chunks => updateChunk chunks (dstPos m).1 (gAdd (dstPos m).2 (impCopy m)) "limit_migration" >>=
          fun chunks => R.ok ({ touchOut st (srcPos m) with chunks := chunks,
                                                            num := (touchOut st (srcPos m)).num + 1 }.incOut (srcPos m))) := by
  unfold limitEntry
  rfl

/-- states related by `f` on the entries; counters equal -/
def RelSt (f : MigStore → MigStore) (st st' : LimSt) : Prop :=
  All2 (RelC f) st.chunks st'.chunks ∧ st'.num = st.num ∧ st'.out = st.out

theorem touchOut_rel {f : MigStore → MigStore} {st st' : LimSt} (h : RelSt f st st') (k : Nat × Nat) :
    RelSt f (touchOut st k) (touchOut st' k) := by
  obtain ⟨h1, h2, h3⟩ := h
  unfold touchOut
  rw [h3]
  split
  · exact ⟨h1, h2, h3⟩
  · exact ⟨h1, h2, by simp⟩

theorem deferP_rel {f : MigStore → MigStore} {st st' : LimSt} (h : RelSt f st st') (limit : Nat) (k : Nat × Nat) :
    deferP limit st' k = deferP limit st k := by
  obtain ⟨-, h2, h3⟩ := h
  unfold deferP LimSt.outCount
  rw [h2, h3]

theorem limitEntry_rel {f : MigStore → MigStore} (hf : Invisible f) {st st' st2 : LimSt} (hrel : RelSt f st st')
    (limit : Nat) (m : MigStore) (h : limitEntry limit st m = R.ok st2) :
    ∃ st2', limitEntry limit st' (f m) = R.ok st2' ∧ RelSt f st2 st2' := by
  rw [limitEntry_cases] at h ⊢
  rw [hf.dir m, hf.src m, hf.dst m, hf.ranges m]
  by_cases hmig : (!m.isMigrating) = true
  · rw [if_pos hmig] at h ⊢
    cases h
    exact ⟨st', rfl, hrel⟩
  · rw [if_neg hmig] at h ⊢
    have hto := touchOut_rel hrel (srcPos m)
    rw [deferP_rel hto]
    by_cases hd : deferP limit (touchOut st (srcPos m)) (srcPos m) = true
    · rw [if_pos hd] at h ⊢
      obtain ⟨chunks, hu, h⟩ := (bind_eq_ok _ _ _).1 h
      cases h
      obtain ⟨chunks', hu', hrel'⟩ := updateChunk_rel hto.1 (gDefer_rel f _ _) hu
      refine ⟨{ touchOut st' (srcPos m) with chunks := chunks' }, by rw [hu']; rfl, hrel', hto.2.1, hto.2.2⟩
    · rw [if_neg hd] at h ⊢
      obtain ⟨chunks, hu, h⟩ := (bind_eq_ok _ _ _).1 h
      obtain ⟨chunks2, hu2, h⟩ := (bind_eq_ok _ _ _).1 h
      cases h
      obtain ⟨chunks', hu', hrel'⟩ := updateChunk_rel (g' := gAdd (srcPos m).2 (f m)) hto.1 (gAdd_rel f _ _) hu
      have himp : impCopy (f m) = f (impCopy m) := (hf.imp m).symm
      obtain ⟨chunks2', hu2', hrel2'⟩ :=
        updateChunk_rel (g' := gAdd (dstPos m).2 (impCopy (f m))) hrel'
          (by rw [himp]; exact gAdd_rel f _ _) hu2
      refine ⟨({ touchOut st' (srcPos m) with chunks := chunks2',
                                               num := (touchOut st' (srcPos m)).num + 1 } : LimSt).incOut (srcPos m),
        by rw [hu']; simp only [ok_bind]; rw [hu2']; rfl, ?_⟩
      unfold LimSt.incOut
      simp only [hto.2.2, hto.2.1]
      split
      · exact ⟨hrel2', rfl, rfl⟩
      · exact ⟨hrel2', rfl, rfl⟩

theorem limitEntry_frame {cs0 : List Chunk} {st st2 : LimSt} (hrel : All2 SameAddr cs0 st.chunks)
    (limit : Nat) (m : MigStore) (h : limitEntry limit st m = R.ok st2) : All2 SameAddr cs0 st2.chunks := by
  rw [limitEntry_cases] at h
  have htc : (touchOut st (srcPos m)).chunks = st.chunks := by unfold touchOut; split <;> rfl
  by_cases hmig : (!m.isMigrating) = true
  · rw [if_pos hmig] at h; cases h; exact hrel
  · rw [if_neg hmig] at h
    by_cases hd : deferP limit (touchOut st (srcPos m)) (srcPos m) = true
    · rw [if_pos hd] at h
      obtain ⟨chunks, hu, h⟩ := (bind_eq_ok _ _ _).1 h
      cases h
      rw [htc] at hu
      exact updateChunk_frame hrel (gDefer_frame _ _) hu
    · rw [if_neg hd] at h
      obtain ⟨chunks, hu, h⟩ := (bind_eq_ok _ _ _).1 h
      obtain ⟨chunks2, hu2, h⟩ := (bind_eq_ok _ _ _).1 h
      cases h
      rw [htc] at hu
      have := updateChunk_frame (updateChunk_frame hrel (gAdd_frame _ _) hu) (gAdd_frame _ _) hu2
      unfold LimSt.incOut
      split <;> exact this

/-! ## the fold and `limit_migration` -/

theorem limitFold_rel {f : MigStore → MigStore} (hf : Invisible f) (limit : Nat) :
    ∀ (entries : List MigStore) (st st' st2 : LimSt), RelSt f st st' →
      entries.foldlM (limitEntry limit) st = R.ok st2 →
      ∃ st2', (entries.map f).foldlM (limitEntry limit) st' = R.ok st2' ∧ RelSt f st2 st2'
  | [], st, st', st2, hrel, h => by
    simp only [List.foldlM_nil, pure_eq_ok, R.ok.injEq] at h
    subst h
    exact ⟨st', rfl, hrel⟩
  | m :: rest, st, st', st2, hrel, h => by
    simp only [List.foldlM_cons] at h
    obtain ⟨st1, h1, h⟩ := (bind_eq_ok _ _ _).1 h
    obtain ⟨st1', h1', hrel1⟩ := limitEntry_rel hf hrel limit m h1
    obtain ⟨st2', h2', hrel2⟩ := limitFold_rel hf limit rest st1 st1' st2 hrel1 h
    refine ⟨st2', ?_, hrel2⟩
    simp only [List.map_cons, List.foldlM_cons, h1', ok_bind]
    exact h2'

theorem limitFold_frame {cs0 : List Chunk} (limit : Nat) :
    ∀ (entries : List MigStore) (st st2 : LimSt), All2 SameAddr cs0 st.chunks →
      entries.foldlM (limitEntry limit) st = R.ok st2 → All2 SameAddr cs0 st2.chunks
  | [], st, st2, hrel, h => by
    simp only [List.foldlM_nil, pure_eq_ok, R.ok.injEq] at h
    subst h; exact hrel
  | m :: rest, st, st2, hrel, h => by
    simp only [List.foldlM_cons] at h
    obtain ⟨st1, h1, h⟩ := (bind_eq_ok _ _ _).1 h
    exact limitFold_frame limit rest st1 st2 (limitEntry_frame hrel limit m h1) h

theorem entries_rel {f : MigStore → MigStore} {cs cs' : List Chunk} (h : All2 (RelC f) cs cs') :
    (cs'.flatMap fun c => c.mig0 ++ c.mig1) = (cs.flatMap fun c => c.mig0 ++ c.mig1).map f := by
  induction h with
  | nil => rfl
  | cons hab _ ih =>
    obtain ⟨-, -, m0, m1⟩ := hab
    simp only [List.flatMap_cons, List.map_append, ih, m0, m1]

theorem sameAddr_refl (x : Chunk) : SameAddr x x := ⟨rfl, rfl, rfl, rfl, rfl, rfl, rfl, rfl, rfl⟩

/-- **`limit_migration` commutes with invisible entry maps** (whatever roles and addresses are) -/
theorem limitMigration_rel {f : MigStore → MigStore} (hf : Invisible f) {cl cl' lc : Cluster} (limit : Nat)
    (hrel : All2 (RelC f) cl.chunks cl'.chunks) (h : limitMigration cl limit = R.ok lc) :
    ∃ lc', limitMigration cl' limit = R.ok lc' ∧ All2 (RelC f) lc.chunks lc'.chunks := by
  unfold limitMigration at h ⊢
  by_cases h0 : (limit == 0) = true
  · rw [if_pos h0] at h ⊢
    cases h
    exact ⟨cl', rfl, hrel⟩
  · rw [if_neg h0] at h ⊢
    obtain ⟨st2, hfold, h⟩ := (bind_eq_ok _ _ _).1 h
    cases h
    have hblank : All2 (RelC f) (cl.chunks.map fun c => { c with mig0 := [], mig1 := [] })
        (cl'.chunks.map fun c => { c with mig0 := [], mig1 := [] }) :=
      hrel.map (fun a b hab => ⟨hab.1, hab.2.1, rfl, rfl⟩)
    obtain ⟨st2', hfold', hrel2⟩ := limitFold_rel hf limit (cl.chunks.flatMap fun c => c.mig0 ++ c.mig1)
      { chunks := cl.chunks.map fun c => { c with mig0 := [], mig1 := [] }, num := 0, out := [] }
      { chunks := cl'.chunks.map fun c => { c with mig0 := [], mig1 := [] }, num := 0, out := [] } st2
      ⟨hblank, rfl, rfl⟩ hfold
    rw [entries_rel hrel]
    simp only [hfold', ok_bind, pure_eq_ok]
    exact ⟨{ cl' with chunks := st2'.chunks }, rfl, hrel2.1⟩

/-- `limit_migration` keeps every chunk's role position and addresses, the chunk count and the header -/
theorem limitMigration_frame {cl lc : Cluster} (limit : Nat) (h : limitMigration cl limit = R.ok lc) :
    All2 SameAddr cl.chunks lc.chunks ∧ lc.epoch = cl.epoch ∧ lc.name = cl.name ∧ lc.config = cl.config := by
  unfold limitMigration at h
  by_cases h0 : (limit == 0) = true
  · rw [if_pos h0] at h
    cases h
    exact ⟨All2.refl_of sameAddr_refl _, rfl, rfl, rfl⟩
  · rw [if_neg h0] at h
    obtain ⟨st2, hfold, h⟩ := (bind_eq_ok _ _ _).1 h
    cases h
    refine ⟨limitFold_frame limit _ _ st2 ?_ hfold, rfl, rfl, rfl⟩
    show All2 SameAddr cl.chunks (cl.chunks.map fun c => { c with mig0 := [], mig1 := [] })
    have := (All2.refl_of sameAddr_refl cl.chunks).map (g := id)
      (g' := fun c : Chunk => { c with mig0 := [], mig1 := [] }) (S := SameAddr)
      (fun a b hab => by obtain ⟨a1, a2, a3, a4, a5, a6, a7, a8, a9⟩ := hab; exact ⟨a1, a2, a3, a4, a5, a6, a7, a8, a9⟩)
    simpa using this

/-! ## where the entries of the limited cluster come from -/

/-- every entry of the chunk carries the meta of an entry of `E` -/
def FromE (E : List MigStore) (y : Chunk) : Prop := ∀ x ∈ y.mig0 ++ y.mig1, ∃ m ∈ E, x.mm = m.mm

theorem gDefer_from (E : List MigStore) (p : Nat) (ranges : RangeList) (x x2 : Chunk) (hx : FromE E x)
    (h : gDefer p ranges x = some x2) : FromE E x2 := by
  unfold gDefer at h
  match p with
  | 0 => simp only [Chunk.stable, Option.bind_some, Chunk.setStable, Option.some.injEq] at h; subst h; exact hx
  | 1 => simp only [Chunk.stable, Option.bind_some, Chunk.setStable, Option.some.injEq] at h; subst h; exact hx
  | n + 2 => simp [Chunk.stable] at h

theorem gAdd_from (E : List MigStore) (p : Nat) (m m0 : MigStore) (hm0 : m0 ∈ E) (hmm : m.mm = m0.mm)
    (x x2 : Chunk) (hx : FromE E x) (h : gAdd p m x = some x2) : FromE E x2 := by
  unfold gAdd at h
  match p with
  | 0 =>
    simp only [Chunk.mig, Option.bind_some, Chunk.setMig, Option.some.injEq] at h; subst h
    intro y hy
    simp only [List.mem_append, List.mem_singleton] at hy
    rcases hy with (hy | rfl) | hy
    · exact hx y (List.mem_append_left _ hy)
    · exact ⟨m0, hm0, hmm⟩
    · exact hx y (List.mem_append_right _ hy)
  | 1 =>
    simp only [Chunk.mig, Option.bind_some, Chunk.setMig, Option.some.injEq] at h; subst h
    intro y hy
    simp only [List.mem_append, List.mem_singleton] at hy
    rcases hy with hy | hy | rfl
    · exact hx y (List.mem_append_left _ hy)
    · exact hx y (List.mem_append_right _ hy)
    · exact ⟨m0, hm0, hmm⟩
  | n + 2 => simp [Chunk.mig] at h

theorem updateChunk_pred {P : Chunk → Prop} {cs r : List Chunk} {i : Nat} {g : Chunk → Option Chunk} {w : String}
    (hall : ∀ y ∈ cs, P y) (hg : ∀ x x2, P x → g x = some x2 → P x2)
    (h : updateChunk cs i g w = R.ok r) : ∀ y ∈ r, P y := by
  obtain ⟨c, c2, hc, hgc, rfl⟩ := updateChunk_eq_ok h
  intro y hy
  rcases List.mem_or_eq_of_mem_set hy with hy | rfl
  · exact hall y hy
  · exact hg c _ (hall c (List.mem_of_getElem? hc)) hgc

theorem limitEntry_from {E : List MigStore} {st st2 : LimSt} (hall : ∀ y ∈ st.chunks, FromE E y)
    (limit : Nat) (m : MigStore) (hm : m ∈ E) (h : limitEntry limit st m = R.ok st2) :
    ∀ y ∈ st2.chunks, FromE E y := by
  rw [limitEntry_cases] at h
  have htc : (touchOut st (srcPos m)).chunks = st.chunks := by unfold touchOut; split <;> rfl
  by_cases hmig : (!m.isMigrating) = true
  · rw [if_pos hmig] at h; cases h; exact hall
  · rw [if_neg hmig] at h
    by_cases hd : deferP limit (touchOut st (srcPos m)) (srcPos m) = true
    · rw [if_pos hd] at h
      obtain ⟨chunks, hu, h⟩ := (bind_eq_ok _ _ _).1 h
      cases h
      rw [htc] at hu
      exact updateChunk_pred hall (gDefer_from E _ _) hu
    · rw [if_neg hd] at h
      obtain ⟨chunks, hu, h⟩ := (bind_eq_ok _ _ _).1 h
      obtain ⟨chunks2, hu2, h⟩ := (bind_eq_ok _ _ _).1 h
      cases h
      rw [htc] at hu
      have := updateChunk_pred (updateChunk_pred hall (gAdd_from E _ m m hm rfl) hu)
        (gAdd_from E _ (impCopy m) m hm rfl) hu2
      unfold LimSt.incOut
      split <;> exact this

theorem limitFold_from {E : List MigStore} (limit : Nat) :
    ∀ (entries : List MigStore) (st st2 : LimSt), (∀ m ∈ entries, m ∈ E) → (∀ y ∈ st.chunks, FromE E y) →
      entries.foldlM (limitEntry limit) st = R.ok st2 → ∀ y ∈ st2.chunks, FromE E y
  | [], st, st2, _, hall, h => by
    simp only [List.foldlM_nil, pure_eq_ok, R.ok.injEq] at h
    subst h; exact hall
  | m :: rest, st, st2, hE, hall, h => by
    simp only [List.foldlM_cons] at h
    obtain ⟨st1, h1, h⟩ := (bind_eq_ok _ _ _).1 h
    exact limitFold_from limit rest st1 st2 (fun x hx => hE x (List.mem_cons_of_mem _ hx))
      (limitEntry_from hall limit m (hE m (by simp)) h1) h

/-- every entry of the limited cluster carries the meta of a stored entry -/
theorem limitMigration_from {cl lc : Cluster} (limit : Nat) (h : limitMigration cl limit = R.ok lc) :
    ∀ x ∈ lc.migs, ∃ m ∈ cl.migs, x.mm = m.mm := by
  have key : ∀ y ∈ lc.chunks, FromE cl.migs y := by
    unfold limitMigration at h
    by_cases h0 : (limit == 0) = true
    · rw [if_pos h0] at h
      cases h
      intro y hy x hx
      exact ⟨x, by unfold Cluster.migs; exact List.mem_flatMap.2 ⟨y, hy, hx⟩, rfl⟩
    · rw [if_neg h0] at h
      obtain ⟨st2, hfold, h⟩ := (bind_eq_ok _ _ _).1 h
      cases h
      refine limitFold_from limit _ _ st2 (fun m hm => hm) ?_ hfold
      intro y hy x hx
      simp only [List.mem_map] at hy
      obtain ⟨c, -, rfl⟩ := hy
      simp at hx
  intro x hx
  unfold Cluster.migs at hx
  obtain ⟨y, hy, hxy⟩ := List.mem_flatMap.1 hx
  exact key y hy x hxy

/-! ## served descriptors only depend on the meta and on roles/addresses -/

theorem specInfo_congr {m m' : MigStore} (h : m.mm = m'.mm) (chunks : List Chunk) :
    specInfo m chunks = specInfo m' chunks := by
  unfold specInfo; rw [h]

theorem half_sameAddr {x y : Chunk} (h : SameAddr x y) (q : Nat) :
    halfProxy y q = halfProxy x q ∧ halfNode y q = halfNode x q := by
  obtain ⟨a1, a2, a3, -, -, a6, a7, a8, a9⟩ := h
  have hP : y.proxyAt = x.proxyAt := by
    funext t
    match t with
    | 0 => simp [Chunk.proxyAt, a2]
    | 1 => simp [Chunk.proxyAt, a3]
    | n + 2 => rfl
  have hN : y.nodeAt = x.nodeAt := by
    funext t
    match t with
    | 0 => simp [Chunk.nodeAt, a6]
    | 1 => simp [Chunk.nodeAt, a7]
    | 2 => simp [Chunk.nodeAt, a8]
    | 3 => simp [Chunk.nodeAt, a9]
    | n + 4 => rfl
  unfold halfProxy halfNode
  rw [a1, hP, hN]
  exact ⟨rfl, rfl⟩

theorem getD_sameAddr {cs cs' : List Chunk} (h : All2 SameAddr cs cs') (i : Nat) :
    SameAddr ((cs[i]?).getD default) ((cs'[i]?).getD default) := by
  cases hx : cs[i]? with
  | some x =>
    obtain ⟨y, hy, hxy⟩ := h.get hx
    rw [hy]; exact hxy
  | none =>
    have : cs'[i]? = none := by
      rw [List.getElem?_eq_none_iff] at hx ⊢
      rw [h.length_eq]; exact hx
    rw [this]; exact sameAddr_refl _

theorem specInfo_frame {cs cs' : List Chunk} (h : All2 SameAddr cs cs') (m : MigStore) :
    specInfo m cs' = specInfo m cs := by
  unfold specInfo
  simp only [(half_sameAddr (getD_sameAddr h m.mm.srcChunk) _).1, (half_sameAddr (getD_sameAddr h m.mm.srcChunk) _).2,
    (half_sameAddr (getD_sameAddr h m.mm.dstChunk) _).1, (half_sameAddr (getD_sameAddr h m.mm.dstChunk) _).2]

end Um.Broker.C06
