import UmProofs.MigrationStepD
/-! C03 invariant preservation: the key lock is released (`entryNone`, `restoreDone`, `syncDone`). -/
namespace Um.Mig

theorem scan_locked_of_crit {s : Sys} {k : Crit} (hG : GInv s) (hk : s.crit = some k) (hne : k.pc ≠ .uSlow) :
    s.scan ≠ .idle → scanLocked s.scan = true := by
  intro h
  cases hl : scanLocked s.scan
  · obtain ⟨k', hk', hp⟩ := hG.b6b h hl
    rw [hk] at hk'; cases hk'; exact absurd hp hne
  · rfl

/-- the key-lock holder forwards its command and releases the lock (pull without entry, push after UMSYNC) -/
theorem step_unlock_fwd {s : Sys} {k : Crit} (hG : GInv s) (hO : OInv s) (_hW : WF s) (hk : s.crit = some k)
    (hpc : k.pc = .pEntryNone ∨ ∃ r, k.pc = .uSyncGot r ∧ r ≠ .err) :
    GInv (setPc { s with crit := none } k.id .pCmd) ∧ OInv (setPc { s with crit := none } k.id .pCmd) := by
  have hne : k.pc ≠ .uSlow := by rcases hpc with h | ⟨r, h, _⟩ <;> rw [h] <;> simp
  have hnt : k.pc ≠ .tail := by rcases hpc with h | ⟨r, h, _⟩ <;> rw [h] <;> simp
  have hpre : s.dstSt ≠ .preCheck := fun h => by have := (hG.b2 h).2.1; simp [hk] at this
  have hgone : s.src = none := hG.b5a k hk (by
    rcases hpc with h | ⟨r, h, hr⟩
    · rw [h]; rfl
    · rw [h]; cases r <;> first | rfl | exact absurd rfl hr)
  have hG1 : GInv { s with crit := none, auxDel := s.auxDel } :=
    ginv_unlock hG (scan_locked_of_crit hG hk hne) (fun h => ⟨hG.b4a h, hpre⟩)
  have hO1 : OInv { s with crit := none, auxDel := s.auxDel } :=
    oinv_eff hO rfl (Nat.le_refl _) (fun _ => id) id id (eff_refl s) (fun _ _ => by simp [critDump]) (fun _ h => h)
  constructor
  · exact ginv_ops hG1 (by intro k' hk'; cases hk')
  · intro o' ho'
    rw [mem_setPc] at ho'
    obtain ⟨a, ha, rfl⟩ := ho'
    have hoa := hO1 a ha
    by_cases hid : a.id = k.id
    · have hlt : a.id < s.nextId := hoa.1
      have hg8 := hG.g8 k hk hnt a ha hid
      simp only [hid, if_true]
      refine ⟨by rw [hid] at hlt; exact hlt, hoa.2.1, ?_⟩
      simp only [setPc, DstFlight, Moved, critDump]
      refine ⟨hpre, Or.inr hgone, fun _ => ⟨hgone, trivial, ?_⟩⟩
      rcases hpc with h | ⟨r, h, hr⟩
      · -- a pull never carries a deleting command
        rename_i hd
        have hnb := hg8.2 (by rw [h]; rfl)
        have := hoa.2.1 hd
        rw [hnb] at this; cases this
      · exact hG.b7 k hk (by rw [h]; cases r <;> first | rfl | exact absurd rfl hr)
    · simp only [hid, if_false]
      exact opOk_frame hoa (Nat.le_refl _) (fun _ => id) id id id id (fun _ h => h) (fun _ h => h)

theorem step_tau_unlock {s s' : Sys} {t : Tau} (hG : GInv s) (hO : OInv s) (hW : WF s)
    (ht : t = .entryNone ∨ t = .restoreDone ∨ t = .syncDone)
    (hs : stepTau s t = some s') :
    (GInv s' ∧ OInv s') ∧ logical s' = logical s := by
  rcases ht with rfl | rfl | rfl
  · simp only [stepTau] at hs
    split at hs
    · rename_i cid hk
      cases hs
      exact ⟨step_unlock_fwd hG hO hW hk (Or.inl rfl), rfl⟩
    · simp at hs
  · simp only [stepTau] at hs
    split at hs
    · rename_i cid hk
      cases hs
      have hpre : s.dstSt ≠ .preCheck := fun h => by have := (hG.b2 h).2.1; simp [hk] at this
      have hmv := hG.b4b _ hk rfl
      refine ⟨⟨?_, ?_⟩, rfl⟩
      · exact ginv_unlock hG (scan_locked_of_crit hG hk (by simp)) (fun _ => ⟨hmv, hpre⟩)
      · exact oinv_eff hO rfl (Nat.le_refl _) (fun _ => id) id id (eff_refl s) (fun _ _ => by simp [critDump]) (fun _ h => h)
    · simp at hs
  · simp only [stepTau] at hs
    split at hs
    · -- the source answered with an error: the command fails and is not forwarded
      rename_i cid hk
      cases hs
      have hpre : s.dstSt ≠ .preCheck := fun h => by have := (hG.b2 h).2.1; simp [hk] at this
      have hG1 : GInv { s with crit := none, auxDel := s.auxDel } :=
        ginv_unlock hG (scan_locked_of_crit hG hk (by simp)) (fun h => ⟨hG.b4a h, hpre⟩)
      have hO1 : OInv { s with crit := none, auxDel := s.auxDel } :=
        oinv_eff hO rfl (Nat.le_refl _) (fun _ => id) id id (eff_refl s) (fun _ _ => by simp [critDump]) (fun _ h => h)
      refine ⟨⟨ginv_ops hG1 (by intro k' hk'; cases hk'), ?_⟩, rfl⟩
      intro o' ho'
      rw [mem_setPc] at ho'
      obtain ⟨a, ha, rfl⟩ := ho'
      have hoa := hO1 a ha
      by_cases hid : a.id = cid
      · have hlt : a.id < s.nextId := hoa.1
        simp only [hid, if_true]
        exact ⟨by rw [hid] at hlt; exact hlt, hoa.2.1, trivial⟩
      · simp only [hid, if_false]
        exact opOk_frame hoa (Nat.le_refl _) (fun _ => id) id id id id (fun _ h => h) (fun _ h => h)
    · rename_i cid r hne hk
      cases hs
      exact ⟨step_unlock_fwd hG hO hW hk (Or.inr ⟨r, rfl, fun h => hne h⟩), rfl⟩
    · simp at hs

end Um.Mig
