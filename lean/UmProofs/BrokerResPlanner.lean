import UmProofs.BrokerResReach
import UmProofs.BrokerResMigDown
/-!
# C12 — no panic of the operations that run the migration planner, under the explicit size /
balance hypotheses `MigPre` / `DownPre` (see `BrokerResMig*.lean`).
-/
namespace Um.Broker
open Um Um.Slots

theorem autoScaleOutNodeNumber_noPanic (s : Store) (n : String) (k : Nat)
    (h : ∀ c, s.findCluster n = some c → MigPre c) : (autoScaleOutNodeNumber s n k).2.NoPanic := by
  unfold autoScaleOutNodeNumber
  split
  · exact R.noPanic_err _
  split
  · exact R.noPanic_err _
  split
  · exact migrateSlots_no_panic' s n h
  · exact R.noPanic_ok _

theorem autoChangeNodeNumber_noPanic {s : Store} (hx : RX s) (n : String) (k : Nat) (choice : List (String × String))
    (h : ∀ c, (autoDeleteFreeNodes s n).1.findCluster n = some c → k < c.chunks.length * 4 → DownPre c (k / 4)) :
    (autoChangeNodeNumber s n k choice).2.NoPanic := by
  unfold autoChangeNodeNumber
  split
  · exact R.noPanic_err _
  split
  · exact R.noPanic_err _
  split
  · exact R.noPanic_err _
  have h1 := rx_autoDeleteFreeNodes n hx
  have h0 := autoDeleteFreeNodes_noPanic s n
  generalize autoDeleteFreeNodes s n = r at h h1 h0
  obtain ⟨s1, r1⟩ := r
  simp only at h h1 h0 ⊢
  have hup := autoScaleUpNodes_noPanic h1 n k choice
  have key : (match s1.findCluster n with
      | none => (s1, (R.err Err.clusterNotFound : R Nat))
      | some cl1 =>
        have existing := cl1.chunks.length * 4
        if (existing == k) = true then (s1, R.ok 0)
        else if existing < k then
          match autoScaleUpNodes s1 n k choice with
          | (s2, R.ok ()) => (s2, R.ok 1)
          | (s2, R.err e) => (s2, R.err e)
          | (s2, R.panic w) => (s2, R.panic w)
          | (s2, R.badChoice w) => (s2, R.badChoice w)
        else
          match migrateSlotsToScaleDown s1 n k with
          | (s2, R.ok ()) => (s2, R.ok 2)
          | (s2, R.err e) => (s2, R.err e)
          | (s2, R.panic w) => (s2, R.panic w)
          | (s2, R.badChoice w) => (s2, R.badChoice w)).2.NoPanic := by
    split
    · exact R.noPanic_err _
    · rename_i cl1 hf1
      simp only
      split
      · exact R.noPanic_ok _
      · rename_i hne
        split
        · split
          · exact R.noPanic_ok _
          · exact R.noPanic_err _
          · rename_i s2 w heq; exact absurd (by rw [heq]) (hup w)
          · exact R.noPanic_bad _
        · rename_i hlt
          have hdown := migrateSlotsToScaleDown_no_panic' s1 n k (fun c hc => h c hc (by
            rw [hf1] at hc; cases hc
            have : cl1.chunks.length * 4 ≠ k := by simpa using hne
            omega))
          split
          · exact R.noPanic_ok _
          · exact R.noPanic_err _
          · rename_i s2 w heq; exact absurd (by rw [heq]) (hdown w)
          · exact R.noPanic_bad _
  split
  · exact key
  · exact key
  · exact R.noPanic_err _
  · rename_i w; exact absurd rfl (h0 w)
  · exact R.noPanic_bad _

end Um.Broker
