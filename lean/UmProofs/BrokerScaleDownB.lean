import UmProofs.BrokerScaleDownA
/-!
# C10 — the scale-down plan, part B: one iteration of the inner `while`, the loops

`downBody_step` is the one-iteration lemma (plain case analysis), lifted through `iterate` by
`iterate_spec`; `downChunks_spec` is the outer loop: every source master is drained completely,
no panic, fuel suffices, and the slots handed out equal the sources' total.
-/
namespace Um.Broker.Scale
open Um Um.Slots Um.Broker

theorem downBody_eq (P : DownParams) (c p : Nat) (rl : RangeList) (st : LoopSt) :
    downBody P c p (rl, st) =
      if st.dstIdx == P.dstMasterNum then R.ok (.done (rl, st)) else
      match P.existing[st.dstIdx]? with
      | none => R.panic "remove_slots_from_src_to_scale_down: get dst existing slots number"
      | some ex =>
        if downFinalOf P st.dstIdx < st.curNum + ex then
          R.panic "remove_slots_from_src_to_scale_down: need_num underflow" else
        if downFinalOf P st.dstIdx - st.curNum - ex == 0 then
          R.ok (.cont (rl, { st with dstIdx := st.dstIdx + 1, curNum := 0 })) else
        if slotsNum rl == 0 then R.ok (.done (rl, st)) else
        match rl with
        | [] => R.panic "remove_slots_from_src_to_scale_down: available_num > 0"
        | first :: rest =>
          if min (downFinalOf P st.dstIdx - st.curNum - ex) (slotsNum rl) < rangeNum first &&
              min (downFinalOf P st.dstIdx - st.curNum - ex) (slotsNum rl) + first.1 == 0 then
            R.panic "remove_slots_from_src_to_scale_down: remove_num + start - 1 underflow" else
          let t := cutFirst first rest st.curSlots st.curNum
            (min (downFinalOf P st.dstIdx - st.curNum - ex) (slotsNum rl))
          if decide (t.2.2 + ex ≥ downFinalOf P st.dstIdx) || (slotsNum t.1 == 0) then
            let st2 : LoopSt :=
              if t.2.2 + ex ≥ downFinalOf P st.dstIdx then
                ⟨st.dstIdx + 1, [], 0, st.out ++ [(DownParams.task P) c p st.dstIdx (rlNew t.2.1)]⟩
              else ⟨st.dstIdx, [], t.2.2, st.out ++ [(DownParams.task P) c p st.dstIdx (rlNew t.2.1)]⟩
            if slotsNum t.1 == 0 then R.ok (.done (t.1, st2)) else R.ok (.cont (t.1, st2))
          else R.ok (.cont (t.1, { st with curSlots := t.2.1, curNum := t.2.2 })) := by
  simp only [cutFirst_fst, cutFirst_snd_fst, cutFirst_snd_snd]
  rfl
/-- loop invariant of the inner scale-down `while` for source master `(c, p)` -/
structure DI (P : DownParams) (c p G0 : Nat) (out0 : List MigSlots) (d0 : Nat) (x : RangeList × LoopSt) : Prop where
  asc : Asc x.1
  inv : DStInv P x.2
  pieces : PiecesAbove x.1 x.2.curSlots
  csl : x.2.curSlots ≠ [] → 0 < slotsNum x.1
  cons : (DownParams.given P) x.2 + slotsNum x.1 = G0
  bud : G0 ≤ (DownParams.total P)
  outs : ∃ new, x.2.out = out0 ++ new ∧ ∀ ms ∈ new, ms.mm.srcChunk = c ∧ ms.mm.srcPart = p
  mono : d0 ≤ x.2.dstIdx

def DQ (P : DownParams) (c p G0 : Nat) (out0 : List MigSlots) (d0 : Nat) (x : RangeList × LoopSt) : Prop :=
  DI P c p G0 out0 d0 x ∧ slotsNum x.1 = 0 ∧ x.2.curSlots = []

def dMeasure (P : DownParams) (x : RangeList × LoopSt) : Nat := slotsNum x.1 + (P.dstMasterNum - x.2.dstIdx)

theorem DownParams.given_fin (P : DownParams) {st : LoopSt} (h : st.dstIdx = P.dstMasterNum) :
    (DownParams.total P) ≤ (DownParams.given P) st := by
  unfold DownParams.total DownParams.given; rw [h]; omega

theorem outs_snoc {c p : Nat} {out0 out : List MigSlots} (ms : MigSlots)
    (h : ∃ new, out = out0 ++ new ∧ ∀ ms ∈ new, ms.mm.srcChunk = c ∧ ms.mm.srcPart = p)
    (hc : ms.mm.srcChunk = c) (hp : ms.mm.srcPart = p) :
    ∃ new, out ++ [ms] = out0 ++ new ∧ ∀ ms ∈ new, ms.mm.srcChunk = c ∧ ms.mm.srcPart = p := by
  obtain ⟨new, h1, h2⟩ := h
  refine ⟨new ++ [ms], by rw [h1, List.append_assoc], ?_⟩
  intro x hx
  rcases List.mem_append.mp hx with hx | hx
  · exact h2 x hx
  · simp only [List.mem_singleton] at hx; subst hx; exact ⟨hc, hp⟩

theorem downBody_step (P : DownParams) (hok : (DownParams.Ok P)) (c p : Nat) (hp : p < 2) (G0 : Nat)
    (out0 : List MigSlots) (d0 : Nat) (x : RangeList × LoopSt) (hI : DI P c p G0 out0 d0 x) :
    (∃ x', downBody P c p x = R.ok (Iter.done x') ∧ DQ P c p G0 out0 d0 x') ∨
    (∃ x', downBody P c p x = R.ok (Iter.cont x') ∧ DI P c p G0 out0 d0 x' ∧ dMeasure P x' < dMeasure P x) := by
  obtain ⟨rl, st⟩ := x
  obtain ⟨hasc, hinv, hpieces, hcsl, hcons, hbud, houts, hmono⟩ := hI
  simp only at hasc hinv hpieces hcsl hcons houts hmono
  rw [downBody_eq]
  by_cases hD : st.dstIdx = P.dstMasterNum
  · have hD' : (st.dstIdx == P.dstMasterNum) = true := by simpa using hD
    rw [if_pos hD']
    have := (DownParams.given_fin P) hD
    exact Or.inl ⟨_, rfl, ⟨hasc, hinv, hpieces, hcsl, hcons, hbud, houts, hmono⟩, by simp only; omega,
      (hinv.fin hD).2⟩
  · have hD' : ¬ (st.dstIdx == P.dstMasterNum) = true := by simpa using hD
    rw [if_neg hD']
    have hlt : st.dstIdx < P.dstMasterNum := by have := hinv.le; omega
    have hexl : st.dstIdx < P.existing.length := by rw [hok.len]; exact hlt
    have hget : P.existing[st.dstIdx]? = some ((DownParams.ex P) st.dstIdx) := by
      unfold DownParams.ex
      rw [List.getElem?_eq_getElem hexl]; rfl
    rw [hget]
    simp only
    have hle := hok.le _ hlt
    have hdn : (DownParams.dneed P) st.dstIdx = downFinalOf P st.dstIdx - (DownParams.ex P) st.dstIdx := rfl
    have hcn : st.curNum ≤ (DownParams.dneed P) st.dstIdx := by
      rcases hinv.lt hlt with h | h <;> omega
    have h1 : ¬ downFinalOf P st.dstIdx < st.curNum + (DownParams.ex P) st.dstIdx := by omega
    rw [if_neg h1]
    by_cases hz : downFinalOf P st.dstIdx - st.curNum - (DownParams.ex P) st.dstIdx = 0
    · -- skip a destination that already owns its final count
      have hz' : (downFinalOf P st.dstIdx - st.curNum - (DownParams.ex P) st.dstIdx == 0) = true := by simpa using hz
      rw [if_pos hz']
      have hc0 : st.curNum = 0 := by rcases hinv.lt hlt with h | h <;> omega
      have hd0 : (DownParams.dneed P) st.dstIdx = 0 := by omega
      have hcs : st.curSlots = [] := by
        apply Classical.byContradiction
        intro hne; have := (hinv.cs hne).1; omega
      refine Or.inr ⟨_, rfl, ⟨hasc, ?_, by simp only; rw [hcs]; exact piecesAbove_nil rl,
        fun h => absurd hcs h, ?_, hbud, houts, by simp only; omega⟩, ?_⟩
      · refine ⟨by simp only; omega, fun _ => Or.inr rfl, fun _ => ⟨rfl, hcs⟩, fun h => absurd hcs h, ?_⟩
        refine ⟨?_, ?_, ?_, hinv.out.shape⟩
        · intro j hj
          simp only at hj
          by_cases hjd : j = st.dstIdx
          · subst hjd
            have := hinv.out.curr
            rw [hcs, hc0] at this
            rw [hd0]; simpa using this
          · exact hinv.out.done j (by omega)
        · simp only [hcs, slotsNum_nil, Nat.add_zero]
          exact hinv.out.later _ (by omega)
        · intro j hj; simp only at hj; exact hinv.out.later j (by omega)
      · simp only [DownParams.given, sumTo] at hcons ⊢
        omega
      · simp only [dMeasure]; omega
    · have hz' : ¬ (downFinalOf P st.dstIdx - st.curNum - (DownParams.ex P) st.dstIdx == 0) = true := by simpa using hz
      rw [if_neg hz']
      by_cases ha : slotsNum rl = 0
      · have ha' : (slotsNum rl == 0) = true := by simpa using ha
        rw [if_pos ha']
        refine Or.inl ⟨_, rfl, ⟨hasc, hinv, hpieces, hcsl, hcons, hbud, houts, hmono⟩, ha, ?_⟩
        apply Classical.byContradiction
        intro hne; have := hcsl hne; omega
      · have ha' : ¬ (slotsNum rl == 0) = true := by simpa using ha
        rw [if_neg ha']
        cases rl with
        | nil => exact absurd rfl ha
        | cons first rest =>
          simp only
          have hrem : 1 ≤ min (downFinalOf P st.dstIdx - st.curNum - (DownParams.ex P) st.dstIdx) (slotsNum (first :: rest)) := by
            omega
          have hnp : ¬ ((decide (min (downFinalOf P st.dstIdx - st.curNum - (DownParams.ex P) st.dstIdx) (slotsNum (first :: rest)) < rangeNum first) &&
              min (downFinalOf P st.dstIdx - st.curNum - (DownParams.ex P) st.dstIdx) (slotsNum (first :: rest)) + first.1 == 0) = true) := by
            simp only [Bool.and_eq_true, decide_eq_true_eq, beq_iff_eq, not_and]
            intro _; omega
          rw [if_neg hnp]
          obtain ⟨moved, hm1, hm2, ht3, ht1, ht2, htasc, htp⟩ :=
            cutFirst_spec st.curSlots st.curNum _ hasc hrem hpieces _ rfl
          generalize cutFirst first rest st.curSlots st.curNum
            (min (downFinalOf P st.dstIdx - st.curNum - (DownParams.ex P) st.dstIdx) (slotsNum (first :: rest))) = t at *
          obtain ⟨rl1, cur1, num1⟩ := t
          simp only at ht3 ht1 ht2 htasc htp ⊢
          subst ht3
          have hcnt : slotsNum (rlNew cur1) = slotsNum cur1 := slotsNum_rlNew htp.disjList
          have hcurr := hinv.out.curr
          have hgiv : (DownParams.given P) st = sumTo (DownParams.dneed P) st.dstIdx + st.curNum := rfl
          by_cases hA : st.curNum + moved + (DownParams.ex P) st.dstIdx ≥ downFinalOf P st.dstIdx
          · -- destination complete
            have hst2 : DStInv P ⟨st.dstIdx + 1, [], 0, st.out ++ [(DownParams.task P) c p st.dstIdx (rlNew cur1)]⟩ := by
              refine ⟨by simp only; omega, fun _ => Or.inr rfl, fun _ => ⟨rfl, rfl⟩, fun h => absurd rfl h, ?_⟩
              exact dOutInv_emit_done hinv.out hlt c p hp (rlNew cur1) (show compact (rlNew cur1) = rlNew cur1 from compact_of_normal (normal_compact cur1)) (by omega)
            have hI2 : DI P c p G0 out0 d0
                (rl1, ⟨st.dstIdx + 1, [], 0, st.out ++ [(DownParams.task P) c p st.dstIdx (rlNew cur1)]⟩) := by
              refine ⟨htasc, hst2, piecesAbove_nil rl1, fun h => absurd rfl h, ?_, hbud,
                outs_snoc _ houts rfl rfl, by simp only; omega⟩
              simp only [DownParams.given, sumTo]; omega
            simp only [hA, decide_true, Bool.true_or, if_true]
            by_cases hB : slotsNum rl1 = 0
            · have hB' : (slotsNum rl1 == 0) = true := by simpa using hB
              rw [if_pos hB']
              exact Or.inl ⟨_, rfl, hI2, hB, rfl⟩
            · have hB' : ¬ (slotsNum rl1 == 0) = true := by simpa using hB
              rw [if_neg hB']
              refine Or.inr ⟨_, rfl, hI2, ?_⟩
              simp only [dMeasure]; omega
          · have hA' : st.curNum + moved < (DownParams.dneed P) st.dstIdx := by omega
            by_cases hB : slotsNum rl1 = 0
            · have hB' : (slotsNum rl1 == 0) = true := by simpa using hB
              have hst2 : DStInv P ⟨st.dstIdx, [], st.curNum + moved, st.out ++ [(DownParams.task P) c p st.dstIdx (rlNew cur1)]⟩ := by
                refine ⟨hinv.le, fun _ => Or.inl hA', fun h => absurd h hD, fun h => absurd rfl h, ?_⟩
                exact dOutInv_emit_open hinv.out hlt c p hp (rlNew cur1) (show compact (rlNew cur1) = rlNew cur1 from compact_of_normal (normal_compact cur1)) _ (by omega)
              simp only [hA, hB', decide_false, Bool.false_or, if_true, if_false]
              refine Or.inl ⟨_, rfl, ⟨htasc, hst2, piecesAbove_nil rl1, fun h => absurd rfl h, ?_, hbud,
                outs_snoc _ houts rfl rfl, hmono⟩, hB, rfl⟩
              simp only [DownParams.given]; omega
            · have hB' : (slotsNum rl1 == 0) = false := by simpa using hB
              simp only [hA, hB', decide_false, Bool.false_or, Bool.false_eq_true, if_false]
              refine Or.inr ⟨_, rfl, ⟨htasc, ?_, htp, fun _ => Nat.pos_of_ne_zero hB, ?_, hbud, houts, hmono⟩, ?_⟩
              · refine ⟨hinv.le, fun _ => Or.inl hA', fun h => absurd h hD, fun _ => ⟨by simp only; omega, hA'⟩, ?_⟩
                exact ⟨hinv.out.done, by simp only; omega, hinv.out.later, hinv.out.shape⟩
              · simp only [DownParams.given]; omega
              · simp only [dMeasure]; omega


theorem downWhile_spec (P : DownParams) (hok : (DownParams.Ok P)) (c p : Nat) (hp : p < 2) (G0 : Nat)
    (out0 : List MigSlots) (d0 fuel : Nat) (rl : RangeList) (st : LoopSt)
    (hI : DI P c p G0 out0 d0 (rl, st)) (hfuel : dMeasure P (rl, st) < fuel) :
    ∃ x', downWhile P c p fuel rl st = R.ok x' ∧ DQ P c p G0 out0 d0 x' := by
  unfold downWhile
  exact iterate_spec (downBody P c p) (DI P c p G0 out0 d0) (DQ P c p G0 out0 d0) (dMeasure P)
    (fun x hx => downBody_step P hok c p hp G0 out0 d0 x hx) fuel (rl, st) hI hfuel

/-- the per-half body of the outer scale-down loop -/
def downHalf (P : DownParams) (i part : Nat) (o : Option RangeList) (st : LoopSt) : R LoopSt :=
  match o with
  | some rl => do let (_, st') ← downWhile P i part loopFuel rl st; pure st'
  | none => pure st

theorem downChunks_cons (P : DownParams) (ch : Chunk) (rest : List Chunk) (i : Nat) (st : LoopSt) :
    downChunks P (ch :: rest) i st =
      (downHalf P i 0 ch.stable0 st >>= fun a =>
        downHalf P i 1 ch.stable1 a >>= fun b =>
          downChunks P rest (i + 1) b >>= fun t =>
            pure ({ ch with stable0 := none, stable1 := none } :: t.1, t.2)) := by
  rw [downChunks]
  unfold downHalf
  cases ch.stable0 <;> cases ch.stable1 <;> simp only [bind_assoc, pure_bind]

def supplyChunks : List Chunk → Nat
  | [] => 0
  | ch :: rest => halfCount ch.stable0 + halfCount ch.stable1 + supplyChunks rest

/-- precondition on the source chunks of a scale-down -/
def DownSrcOk (l : List Chunk) : Prop :=
  ∀ ch ∈ l, (∀ rl, ch.stable0 = some rl → Asc rl ∧ slotsNum rl ≤ SLOT_NUM) ∧
    (∀ rl, ch.stable1 = some rl → Asc rl ∧ slotsNum rl ≤ SLOT_NUM)

structure DStepPost (P : DownParams) (st st' : LoopSt) (supply lo hi : Nat) : Prop where
  inv : DStInv P st'
  empty : st'.curSlots = []
  given : (DownParams.given P) st' = (DownParams.given P) st + supply
  mono : st.dstIdx ≤ st'.dstIdx
  outs : ∃ new, st'.out = st.out ++ new ∧ ∀ ms ∈ new, lo ≤ ms.mm.srcChunk ∧ ms.mm.srcChunk < hi

theorem downHalf_spec (P : DownParams) (hok : (DownParams.Ok P)) (hD : P.dstMasterNum ≤ SLOT_NUM) (i part : Nat)
    (hp : part < 2) (o : Option RangeList) (st : LoopSt)
    (ho : ∀ rl, o = some rl → Asc rl ∧ slotsNum rl ≤ SLOT_NUM) (hinv : DStInv P st)
    (hempty : st.curSlots = []) (hbud : (DownParams.given P) st + halfCount o ≤ (DownParams.total P)) :
    ∃ st', downHalf P i part o st = R.ok st' ∧ DStepPost P st st' (halfCount o) i (i + 1) := by
  cases o with
  | none =>
    exact ⟨st, rfl, hinv, hempty, by simp [halfCount], Nat.le_refl _, [], by simp, by simp⟩
  | some rl =>
    obtain ⟨hasc, hle⟩ := ho rl rfl
    simp only [halfCount] at hbud ⊢
    have hI : DI P i part ((DownParams.given P) st + slotsNum rl) st.out st.dstIdx (rl, st) :=
      ⟨hasc, hinv, hempty ▸ piecesAbove_nil rl, fun h => absurd hempty h, rfl, hbud, ⟨[], by simp, by simp⟩,
        Nat.le_refl _⟩
    have hfuel : dMeasure P (rl, st) < loopFuel := by
      simp only [dMeasure, loopFuel]; simp only [SLOT_NUM] at hle hD; omega
    obtain ⟨⟨rl', st'⟩, hr, hq, hz, he⟩ := downWhile_spec P hok i part hp _ _ _ loopFuel rl st hI hfuel
    simp only at hz he
    refine ⟨st', ?_, hq.inv, he, ?_, hq.mono, ?_⟩
    · simp only [downHalf]; rw [hr]; rfl
    · have := hq.cons; simp only at this; omega
    · obtain ⟨new, h1, h2⟩ := hq.outs
      exact ⟨new, h1, fun ms hms => by have := (h2 ms hms).1; omega⟩

theorem downChunks_spec (P : DownParams) (hok : (DownParams.Ok P)) (hD : P.dstMasterNum ≤ SLOT_NUM) :
    ∀ (chunks : List Chunk) (i : Nat) (st : LoopSt), DownSrcOk chunks → DStInv P st → st.curSlots = [] →
      (DownParams.given P) st + supplyChunks chunks ≤ (DownParams.total P) →
      ∃ st', downChunks P chunks i st =
          R.ok (chunks.map (fun ch => { ch with stable0 := none, stable1 := none }), st') ∧
        DStepPost P st st' (supplyChunks chunks) i (i + chunks.length) := by
  intro chunks
  induction chunks with
  | nil =>
    intro i st _ hinv hempty _
    exact ⟨st, rfl, hinv, hempty, by simp [supplyChunks], Nat.le_refl _, [], by simp, by simp⟩
  | cons ch rest ih =>
    intro i st hsrc hinv hempty hbud
    obtain ⟨h0, h1⟩ := hsrc ch (by simp)
    simp only [supplyChunks] at hbud ⊢
    obtain ⟨st0, hr0, hp0⟩ := downHalf_spec P hok hD i 0 (by omega) ch.stable0 st h0 hinv hempty (by omega)
    obtain ⟨st1, hr1, hp1⟩ := downHalf_spec P hok hD i 1 (by omega) ch.stable1 st0 h1 hp0.inv hp0.empty
      (by have := hp0.given; omega)
    obtain ⟨st2, hr2, hp2⟩ := ih (i + 1) st1 (fun c hc => hsrc c (by simp [hc])) hp1.inv hp1.empty
      (by have := hp0.given; have := hp1.given; omega)
    refine ⟨st2, ?_, hp2.inv, hp2.empty, ?_, ?_, ?_⟩
    · rw [downChunks_cons, hr0]
      show (downHalf P i 1 ch.stable1 st0 >>= _) = _
      rw [hr1]
      show (downChunks P rest (i + 1) st1 >>= _) = _
      rw [hr2]
      rfl
    · have := hp0.given; have := hp1.given; have := hp2.given; omega
    · have := hp0.mono; have := hp1.mono; have := hp2.mono; omega
    · obtain ⟨n0, e0, g0⟩ := hp0.outs
      obtain ⟨n1, e1, g1⟩ := hp1.outs
      obtain ⟨n2, e2, g2⟩ := hp2.outs
      refine ⟨n0 ++ n1 ++ n2, by rw [e2, e1, e0]; simp [List.append_assoc], ?_⟩
      intro ms hms
      simp only [List.length_cons]
      rcases List.mem_append.mp hms with hms | hms
      · rcases List.mem_append.mp hms with hms | hms
        · have := g0 ms hms; omega
        · have := g1 ms hms; omega
      · have := g2 ms hms; omega

end Um.Broker.Scale
