import UmProofs.RouteE2EExample
/-!
# C02, history layer: the installed state depends on the last accepted metadata only

A long-lived proxy applies the SETCLUSTERs of a whole broker history.  `setMeta_last_only`: after
an accepted `set_meta m` the routing snapshot (`cm`, `migCluster`, `migEmpty`, the set of task keys)
is what a fresh process would build from `m` alone (`installFresh`), whatever was installed before;
the only thing carried over is the *phase* of the tasks whose key is unchanged (every other task is
in `PreCheck`).  `route_last_only`: hence routing after any install sequence = routing of a fresh
install of the last accepted metadata given those phases (`installWith`).
In the code the same is `MigrationMap::update_from_old_task_map` computing `empty` from the whole
new task map: computing it from the newly created tasks only breaks `migEmpty` exactly when every
task is reused (a re-applied SETCLUSTER during a migration).
-/
namespace Um.E2E
open Um Um.Broker Um.Route Um.Slots

/-! ## where the tasks of `updateTasks` come from -/

theorem insertTask_mem (t : Task) : ∀ (acc : List Task) (x : Task), x ∈ insertTask t acc → x = t ∨ x ∈ acc := by
  intro acc
  induction acc with
  | nil => intro x hx; simp [insertTask] at hx; exact Or.inl hx
  | cons y r ih =>
    intro x hx
    unfold insertTask at hx
    split at hx
    · rcases List.mem_cons.mp hx with h | h
      · exact Or.inl h
      · exact Or.inr (List.mem_cons_of_mem _ h)
    · rcases List.mem_cons.mp hx with h | h
      · exact Or.inr (by rw [h]; simp)
      · rcases ih x h with h' | h'
        · exact Or.inl h'
        · exact Or.inr (List.mem_cons_of_mem _ h')

theorem keptFold_mem (old : List Task) : ∀ (K : List TaskKey) (acc : List Task) (t : Task),
    t ∈ keptFold old K acc → t ∈ acc ∨ t ∈ old := by
  intro K
  induction K with
  | nil => intro acc t h; exact Or.inl h
  | cons k0 ks ih =>
    intro acc t h
    unfold keptFold at h
    simp only [List.foldl_cons] at h
    cases hf : old.find? (fun t => t.key == k0) with
    | none =>
      rw [hf] at h
      exact ih acc t h
    | some o =>
      rw [hf] at h
      rcases ih (insertTask o acc) t h with h' | h'
      · rcases insertTask_mem o acc t h' with e | e
        · right; rw [e]; exact List.mem_of_find?_eq_some hf
        · exact Or.inl e
      · exact Or.inr h'

theorem keptFold_keys_mono (old : List Task) : ∀ (K : List TaskKey) (acc : List Task) (k : TaskKey),
    k ∈ acc.map (·.key) → k ∈ (keptFold old K acc).map (·.key) := by
  intro K
  induction K with
  | nil => intro acc k h; exact h
  | cons k0 ks ih =>
    intro acc k h
    unfold keptFold
    simp only [List.foldl_cons]
    cases hf : old.find? (fun t => t.key == k0) with
    | none => exact ih acc k h
    | some o => exact ih (insertTask o acc) k ((insertTask_keys o acc k).mpr (Or.inr h))

/-- every key of `K` that an old task carries is kept -/
theorem keptFold_covers (old : List Task) : ∀ (K : List TaskKey) (acc : List Task) (k : TaskKey),
    k ∈ K → (∃ o ∈ old, o.key = k) → k ∈ (keptFold old K acc).map (·.key) := by
  intro K
  induction K with
  | nil => intro acc k h; cases h
  | cons k0 ks ih =>
    intro acc k hk hex
    rcases List.mem_cons.mp hk with e | hk'
    · subst e
      obtain ⟨o, ho, hok⟩ := hex
      cases hf : old.find? (fun t => t.key == k) with
      | none =>
        have := List.find?_eq_none.mp hf o ho
        simp [hok] at this
      | some o' =>
        have hk' : o'.key = k := by
          have := List.find?_some hf
          simpa using this
        have hstep : keptFold old (k :: ks) acc = keptFold old ks (insertTask o' acc) := by
          unfold keptFold
          simp only [List.foldl_cons, hf]
        rw [hstep]
        apply keptFold_keys_mono
        rw [insertTask_keys]
        exact Or.inl hk'.symm
    · have hstep : ∃ acc', keptFold old (k0 :: ks) acc = keptFold old ks acc' := by
        unfold keptFold
        simp only [List.foldl_cons]
        exact ⟨_, rfl⟩
      obtain ⟨acc', e⟩ := hstep
      rw [e]
      exact ih acc' k hk' hex

theorem freshFold_mem : ∀ (K : List TaskKey) (acc : List Task), (acc.map (·.key)).Nodup → ∀ t : Task,
    t ∈ freshFold K acc → t ∈ acc ∨ (t.state = .preCheck ∧ t.key ∉ acc.map (·.key)) := by
  intro K
  induction K with
  | nil => intro acc _ t h; exact Or.inl h
  | cons k0 ks ih =>
    intro acc hnd t h
    unfold freshFold at h
    simp only [List.foldl_cons] at h
    by_cases hc : acc.any (fun t => t.key == k0) = true
    · rw [if_pos hc] at h
      exact ih acc hnd t h
    · rw [if_neg hc] at h
      have hnd' := insertTask_nodup ⟨k0, .preCheck⟩ acc hnd
      rcases ih _ hnd' t h with h' | ⟨h1, h2⟩
      · rcases insertTask_mem _ acc t h' with e | e
        · right
          rw [e]
          refine ⟨rfl, ?_⟩
          intro hk
          obtain ⟨x, hx, hxk⟩ := List.mem_map.mp hk
          exact hc (List.any_eq_true.mpr ⟨x, hx, by simpa using hxk⟩)
        · exact Or.inl e
      · right
        refine ⟨h1, fun hk => h2 ?_⟩
        rw [insertTask_keys]
        exact Or.inr hk

/-- **the phases after `update_from_old_task_map`**: a task is either an old task (same key, same
state) or in `PreCheck` with a key no old task had -/
theorem updateTasks_states (cluster : String) (old : List Task) (loc : SNodeMap) :
    ∀ t ∈ updateTasks cluster old loc,
      t ∈ old ∨ (t.state = .preCheck ∧ ∀ o ∈ old, o.key ≠ t.key) := by
  intro t ht
  rw [updateTasks_eq] at ht
  obtain ⟨k1, _⟩ := kept_inv old (taggedKeys cluster loc) [] (by simp)
  rcases freshFold_mem _ _ k1 t ht with h | ⟨h1, h2⟩
  · rcases keptFold_mem old _ [] t h with h' | h'
    · cases h'
    · exact Or.inl h'
  · right
    refine ⟨h1, ?_⟩
    intro o ho hok
    have hin : t.key ∈ taggedKeys cluster loc := by
      have := (updateTasks_keys cluster old loc).2 t.key
      rw [updateTasks_eq] at this
      exact this.mp (List.mem_map.mpr ⟨t, ht, rfl⟩)
    exact h2 (keptFold_covers old _ [] t.key hin ⟨o, ho, hok⟩)

/-! ## the installed state is a function of the last accepted metadata -/

/-- **installed state = fresh install of the last accepted metadata**, up to the visiting order of
the task map and the phases of the reused tasks -/
theorem setMeta_last_only (p0 : ProxyState) (m : EMeta) (p : ProxyState) (h : setMeta p0 m = (p, .ok)) :
    p.cfg = p0.cfg ∧ p.epoch = m.epoch ∧ p.cm = (installFresh p0.cfg m).cm ∧
    p.migCluster = (installFresh p0.cfg m).migCluster ∧ p.migEmpty = (installFresh p0.cfg m).migEmpty ∧
    (p.tasks.map (·.key)).Perm ((installFresh p0.cfg m).tasks.map (·.key)) ∧
    ∀ t ∈ p.tasks, t ∈ p0.tasks ∨ (t.state = .preCheck ∧ ∀ o ∈ p0.tasks, o.key ≠ t.key) := by
  have hi := setMeta_installed p0 m p h
  have hf := installFresh_installed p0.cfg m
  have hperm : (p.tasks.map (·.key)).Perm ((installFresh p0.cfg m).tasks.map (·.key)) := by
    rw [List.perm_ext_iff_of_nodup hi.keys_nodup hf.keys_nodup]
    intro k
    rw [hi.keys_mem, hf.keys_mem]
  unfold setMeta at h
  split at h
  · cases h
  · split at h
    · cases h
    · simp only [Prod.mk.injEq, and_true] at h
      subst h
      refine ⟨rfl, rfl, rfl, rfl, ?_, hperm, ?_⟩
      · show (updateTasks m.cluster p0.tasks m.loc).isEmpty = (updateTasks m.cluster [] m.loc).isEmpty
        have := hperm.length_eq
        simp only [List.length_map] at this
        cases h1 : updateTasks m.cluster p0.tasks m.loc <;> cases h2 : updateTasks m.cluster [] m.loc <;>
          simp_all [installFresh]
      · exact updateTasks_states m.cluster p0.tasks m.loc

/-- what a fresh process builds from `m` alone, with the tasks put into phases `st` and the nodes
`blk` blocking -/
def installWith (cfg : RouteCfg) (m : EMeta) (st : TaskKey → MigState) (blk : List Addr) : ProxyState :=
  { installFresh cfg m with
      tasks := (installFresh cfg m).tasks.map fun t => ⟨t.key, st t.key⟩
      blocking := blk }

theorem find?_perm_unique {α : Type} (P : α → Bool) {l l' : List α} (hp : l.Perm l')
    (hu : ∀ a ∈ l, ∀ b ∈ l, P a = true → P b = true → a = b) : l.find? P = l'.find? P := by
  cases h : l.find? P with
  | none =>
    symm
    rw [List.find?_eq_none] at h ⊢
    intro x hx
    exact h x (hp.mem_iff.mpr hx)
  | some a =>
    have ha := List.mem_of_find?_eq_some h
    have hpa := List.find?_some h
    cases h' : l'.find? P with
    | none =>
      have := List.find?_eq_none.mp h' a (hp.mem_iff.mp ha)
      exact absurd hpa this
    | some b =>
      have hb := hp.mem_iff.mpr (List.mem_of_find?_eq_some h')
      rw [hu a ha b hb hpa (List.find?_some h')]

theorem stateOf_of_mem {p : ProxyState} (hnd : (p.tasks.map (·.key)).Nodup) {t : Task} (ht : t ∈ p.tasks) :
    stateOf p t.key = some t.state := by
  obtain ⟨t', _, _, hs⟩ := find_task hnd (fun x => x.key == t.key) t.key ⟨t, ht, by simp⟩
    (fun x _ hx => by simpa using hx)
  unfold stateOf at hs ⊢
  cases hg : p.tasks.find? (fun x => x.key == t.key) with
  | none =>
    have := List.find?_eq_none.mp hg t ht
    simp at this
  | some t'' =>
    have h1 := List.mem_of_find?_eq_some hg
    have h2 : t''.key = t.key := by simpa using List.find?_some hg
    rw [eq_of_key_eq _ hnd t'' h1 t ht h2]
    rfl

/-- routing reads the task map only through the first task that contains the slot -/
theorem routeWithMigration_congr {p q : ProxyState} {s : Nat} (h1 : p.cfg = q.cfg) (h2 : p.cm = q.cm)
    (h3 : p.migEmpty = q.migEmpty) (h4 : p.migCluster = q.migCluster) (h5 : p.blocking = q.blocking)
    (h6 : p.tasks.find? (fun t => t.containsSlot s) = q.tasks.find? (fun t => t.containsSlot s)) :
    routeWithMigration p none (some s) = routeWithMigration q none (some s) := by
  unfold routeWithMigration migSend handleRedirection
  simp only [h1, h2, h3, h4, h5, h6]

/-- **routing after any install sequence = routing after installing the last accepted metadata on a
fresh proxy, given the phases of the tasks.**  (`huniq`: at most one task contains the slot — the
task map has no visiting order to speak of; true of every synced proxy of a `PartitionView`.) -/
theorem route_last_only (p0 : ProxyState) (m : EMeta) (p : ProxyState) (h : setMeta p0 m = (p, .ok)) (s : Nat)
    (huniq : ∀ t ∈ p.tasks, ∀ t' ∈ p.tasks, t.containsSlot s = true → t'.containsSlot s = true → t = t') :
    routeWithMigration p none (some s) =
      routeWithMigration (installWith p0.cfg m (fun k => (stateOf p k).getD .preCheck) p.blocking) none (some s) := by
  obtain ⟨a1, _, a3, a4, a5, a6, _⟩ := setMeta_last_only p0 m p h
  have hi := setMeta_installed p0 m p h
  -- the task list is, up to order, the fresh key list with the phases of `p`
  have hself : p.tasks = (p.tasks.map (·.key)).map fun k => (⟨k, (stateOf p k).getD .preCheck⟩ : Task) := by
    rw [List.map_map]
    conv => lhs; rw [← List.map_id p.tasks]
    apply List.map_congr_left
    intro t ht
    simp only [id, Function.comp_apply, stateOf_of_mem hi.keys_nodup ht, Option.getD_some]
  have hperm : p.tasks.Perm (installWith p0.cfg m (fun k => (stateOf p k).getD .preCheck) p.blocking).tasks := by
    show p.tasks.Perm ((installFresh p0.cfg m).tasks.map fun t => (⟨t.key, (stateOf p t.key).getD .preCheck⟩ : Task))
    have e : ((installFresh p0.cfg m).tasks.map fun t => (⟨t.key, (stateOf p t.key).getD .preCheck⟩ : Task)) =
        ((installFresh p0.cfg m).tasks.map (·.key)).map fun k => (⟨k, (stateOf p k).getD .preCheck⟩ : Task) := by
      rw [List.map_map]; rfl
    rw [e, hself]
    exact (a6.map _)
  apply routeWithMigration_congr
  · rw [a1]; rfl
  · rw [a3]; rfl
  · rw [a5]; rfl
  · rw [a4]; rfl
  · rfl
  · exact find?_perm_unique _ hperm (fun a ha b hb => huniq a ha b hb)

/-- iterating: after any sequence of accepted installs only the last metadata matters -/
theorem setMeta_seq_last_only (p0 : ProxyState) (ms : List EMeta) (m : EMeta) (p : ProxyState)
    (h : setMeta (ms.foldl (fun q x => (setMeta q x).1) p0) m = (p, .ok)) :
    p.cm = (installFresh p0.cfg m).cm ∧ p.migCluster = m.cluster ∧
    p.migEmpty = (installFresh p0.cfg m).migEmpty ∧
    (p.tasks.map (·.key)).Perm ((installFresh p0.cfg m).tasks.map (·.key)) := by
  have hcfg : ∀ (l : List EMeta) (q : ProxyState), (l.foldl (fun q x => (setMeta q x).1) q).cfg = q.cfg := by
    intro l
    induction l with
    | nil => intro q; rfl
    | cons x xs ih =>
      intro q
      rw [List.foldl_cons, ih]
      unfold setMeta
      split
      · rfl
      · split <;> rfl
  obtain ⟨_, _, a3, a4, a5, a6, _⟩ := setMeta_last_only _ m p h
  rw [hcfg ms p0] at a3 a4 a5 a6
  exact ⟨a3, a4, a5, a6⟩

/-- `set_meta` accepts metadata whose local nodes are on the proxy's host when the epoch grows (or
`FORCE` is given) -/
theorem setMeta_accepts (p : ProxyState) (m : EMeta) (hh : checkHosts p.announceHost m.loc = true)
    (he : p.epoch < m.epoch ∨ m.force = true) : ∃ p', setMeta p m = (p', .ok) := by
  unfold setMeta
  have hc : (decide (m.epoch ≤ p.epoch) && !m.force) = false := by
    rcases he with h | h
    · have : decide (m.epoch ≤ p.epoch) = false := by simp; omega
      rw [this]; rfl
    · rw [h]; simp
  simp only [hh, Bool.not_true, Bool.false_eq_true, if_false, hc]
  exact ⟨_, rfl⟩

end Um.E2E
