import UmModel.Resp
import UmProofs.Decimal
/-!
# C15 — basic lemmas: `memchr`, `parse_line`, slices, index shifting, `usize::to_string`
-/
namespace Um.Resp
open Um

/-! ## constants (by value from the generated table: a change of the source breaks these) -/

theorem LF_val : LF = 10 := rfl
theorem CR_val : CR = 13 := rfl
theorem crlf_val : crlf = [13, 10] := rfl
theorem tBulk_val : tBulk = 36 := rfl
theorem tSimple_val : tSimple = 43 := rfl
theorem tError_val : tError = 45 := rfl
theorem tInteger_val : tInteger = 58 := rfl
theorem tArr_val : tArr = 42 := rfl
theorem nilBulkEnc_val : nilBulkEnc = [36, 45, 49, 13, 10] := rfl
theorem nilArrEnc_val : nilArrEnc = [42, 45, 49, 13, 10] := rfl

/-! ## memchr -/

theorem memchr_lt {c : UInt8} {b : Bytes} {i : Nat} (h : memchr c b = some i) : i < b.length := by
  induction b generalizing i with
  | nil => simp [memchr] at h
  | cons x xs ih =>
    simp only [memchr] at h
    split at h
    · simp at h; subst h; simp
    · cases hm : memchr c xs with
      | none => simp [hm] at h
      | some j =>
        simp [hm] at h; subst h
        have := ih hm
        simp; omega

/-- decomposition at the first occurrence -/
theorem memchr_split {c : UInt8} {b : Bytes} {i : Nat} (h : memchr c b = some i) :
    b = b.take i ++ c :: b.drop (i + 1) ∧ c ∉ b.take i := by
  induction b generalizing i with
  | nil => simp [memchr] at h
  | cons x xs ih =>
    simp only [memchr] at h
    split at h
    · rename_i hx
      simp at h; subst h; subst hx; simp
    · rename_i hx
      cases hm : memchr c xs with
      | none => simp [hm] at h
      | some j =>
        simp [hm] at h; subst h
        obtain ⟨h1, h2⟩ := ih hm
        constructor
        · simp only [List.take_succ_cons, List.drop_succ_cons, List.cons_append]
          exact congrArg _ h1
        · simp only [List.take_succ_cons, List.mem_cons, not_or]
          exact ⟨fun h => hx h.symm, h2⟩

theorem memchr_append {c : UInt8} {b : Bytes} {i : Nat} (x : Bytes) (h : memchr c b = some i) :
    memchr c (b ++ x) = some i := by
  induction b generalizing i with
  | nil => simp [memchr] at h
  | cons y ys ih =>
    simp only [memchr, List.cons_append] at h ⊢
    split
    · rename_i hy; simpa [hy] using h
    · rename_i hy
      simp only [hy, if_false] at h
      cases hm : memchr c ys with
      | none => simp [hm] at h
      | some j => simp [hm] at h; subst h; simp [ih hm]

theorem memchr_of_not_mem {c : UInt8} (pre post : Bytes) (h : c ∉ pre) :
    memchr c (pre ++ c :: post) = some pre.length := by
  induction pre with
  | nil => simp [memchr]
  | cons y ys ih =>
    simp only [List.mem_cons, not_or] at h
    have hy : ¬ y = c := fun e => h.1 e.symm
    simp [memchr, hy, ih h.2]

theorem memchr_none_of_not_mem {c : UInt8} (b : Bytes) (h : c ∉ b) : memchr c b = none := by
  induction b with
  | nil => rfl
  | cons y ys ih =>
    simp only [List.mem_cons, not_or] at h
    have hy : ¬ y = c := fun e => h.1 e.symm
    simp [memchr, hy, ih h.2]

/-! ## sliceGet -/

theorem sliceGet_zero (b : Bytes) (e : Nat) (h : e ≤ b.length) : sliceGet b 0 e = some (b.take e) := by
  simp [sliceGet, h]

theorem sliceGet_append {d : Bytes} {s e : Nat} {x : Bytes} (y : Bytes) (h : sliceGet d s e = some x) :
    sliceGet (d ++ y) s e = some x := by
  unfold sliceGet at h ⊢
  split at h
  · rename_i hc
    have : s ≤ e ∧ e ≤ (d ++ y).length := ⟨hc.1, by simp; omega⟩
    simp only [this, and_self, if_true]
    simp only [Option.some.injEq] at h ⊢
    rw [← h]
    by_cases hs : s ≤ d.length
    · rw [List.drop_append_of_le_length hs, List.take_append_of_le_length (by simp; omega)]
    · omega
  · simp at h

theorem sliceGet_shift (d : Bytes) (c s e : Nat) (hc : c ≤ d.length) :
    sliceGet d (s + c) (e + c) = sliceGet (d.drop c) s e := by
  unfold sliceGet
  have hl : (d.drop c).length = d.length - c := List.length_drop
  have h1 : (s + c ≤ e + c ∧ e + c ≤ d.length) ↔ (s ≤ e ∧ e ≤ (d.drop c).length) := by
    rw [hl]; omega
  by_cases h : s ≤ e ∧ e ≤ (d.drop c).length
  · have h' := h1.mpr h
    simp only [h, h', and_self, if_true, List.drop_drop]
    have e1 : e + c - (s + c) = e - s := by omega
    rw [e1, Nat.add_comm s c]
  · have h' : ¬ (s + c ≤ e + c ∧ e + c ≤ d.length) := fun x => h (h1.mp x)
    simp only [h, h', if_false]

/-! ## parse_line -/

theorem parseLine_ok {s : Bool} {b : Bytes} {st e n : Nat} (h : parseLine s b = .ok ((st, e), n)) :
    st = 0 ∧ n = e + 2 ∧ n ≤ b.length ∧ memchr LF b = some (e + 1) ∧
      (s = true → b[e]? = some CR) := by
  unfold parseLine at h
  split at h
  · simp at h
  · rename_i lf hm
    have hlt := memchr_lt hm
    split at h
    · simp at h
    · rename_i hz
      split at h
      · simp at h
      · rename_i hs
        simp only [Except.ok.injEq, Prod.mk.injEq] at h
        obtain ⟨⟨h1, h2⟩, h3⟩ := h
        have he : lf = e + 1 := by omega
        subst he
        refine ⟨h1.symm, by omega, by omega, hm, ?_⟩
        intro hst
        subst hst
        simp at hs
        simpa using hs

/-- decomposition of an accepted line: payload, the byte in the place of CR, LF -/
theorem parseLine_decomp {s : Bool} {b : Bytes} {st e n : Nat} (h : parseLine s b = .ok ((st, e), n)) :
    ∃ ch, b.take n = b.take e ++ [ch, LF] ∧ LF ∉ b.take e ∧ ch ≠ LF ∧ (s = true → ch = CR) := by
  obtain ⟨_, hn, hle, hm, hs⟩ := parseLine_ok h
  obtain ⟨hsplit, hnot⟩ := memchr_split hm
  have hlt : e < b.length := by omega
  refine ⟨b[e], ?_, ?_, ?_, ?_⟩
  · subst hn
    have h1 : b.take (e + 2) = b.take (e + 1) ++ (b.drop (e + 1)).take 1 := by
      rw [show e + 2 = (e + 1) + 1 from rfl, List.take_add]
    have h2 : (b.drop (e + 1)).take 1 = [LF] := by
      have : b.drop (e + 1) = LF :: b.drop (e + 1 + 1) := by
        have := congrArg (List.drop (e + 1)) hsplit
        rw [List.drop_append_of_le_length (by simp; omega)] at this
        simp only [List.drop_take, Nat.sub_self, List.take_zero, List.nil_append] at this
        exact this
      rw [this]; rfl
    rw [h1, h2, List.take_succ_eq_append_getElem hlt, List.append_assoc]
    rfl
  · intro hin
    apply hnot
    rw [List.take_succ_eq_append_getElem hlt]
    exact List.mem_append_left _ hin
  · intro heq
    apply hnot
    rw [List.take_succ_eq_append_getElem hlt, heq]
    exact List.mem_append_right _ (List.mem_singleton.mpr rfl)
  · intro hst
    have := hs hst
    rw [List.getElem?_eq_getElem hlt] at this
    simpa using this

theorem parseLine_ext {s : Bool} {b : Bytes} (x : Bytes) {r : PR (DataIndex × Nat)}
    (h : parseLine s b = r) (hr : r ≠ .error .notEnough) : parseLine s (b ++ x) = r := by
  unfold parseLine at h ⊢
  cases hm : memchr LF b with
  | none => simp [hm] at h; exact absurd h.symm hr
  | some lf =>
    have hlt := memchr_lt hm
    rw [memchr_append x hm]
    simp only [hm] at h
    by_cases hz : lf = 0
    · simp only [hz, if_true] at h ⊢; exact h
    · simp only [hz, if_false] at h ⊢
      rw [List.getElem?_append_left (by omega)]
      exact h

theorem parseLine_complete (s : Bool) (L : Bytes) (ch : UInt8) (more : Bytes)
    (hL : LF ∉ L) (hch : ch ≠ LF) (hs : s = true → ch = CR) :
    parseLine s (L ++ ch :: LF :: more) = .ok ((0, L.length), L.length + 2) := by
  have hm : memchr LF (L ++ ch :: LF :: more) = some (L.length + 1) := by
    have := memchr_of_not_mem (c := LF) (L ++ [ch]) more (by simp [hL]; exact fun h => hch h.symm)
    simpa using this
  unfold parseLine
  rw [hm]
  simp only [Nat.add_eq_zero_iff, Nat.succ_ne_self, and_false, if_false, Nat.add_sub_cancel]
  have hget : (L ++ ch :: LF :: more)[L.length]? = some ch := by simp
  rw [hget]
  cases s with
  | false => simp
  | true => simp [hs rfl]

end Um.Resp
