import UmProofs.BackendConn
/-! The poisoned-request cycle used by `C08_retry_unbounded` (finding F08b): a request that is
written on a fresh connection which then breaks *after* its first poll circulates forever. -/
namespace Um.BackendConn

/-- one doomed exchange: connect, first poll writes the request and ends, peer closes in the
second poll -/
def cycle : List Ev := [.connOk, .poll, .write, .pollEnd true, .poll, .peerClosed]

def poison : Nat → List Ev
  | 0 => []
  | n + 1 => cycle ++ poison n

theorem run_append (s : St) (a b : List Ev) :
    run s (a ++ b) = ((run (run s a).1 b).1, (run s a).2 ++ (run (run s a).1 b).2) := by
  induction a generalizing s with
  | nil => simp [run]
  | cons e es ih => simp [run, ih, List.append_assoc]

theorem inOrder_append (s : St) (a b : List Ev) :
    InOrder s (a ++ b) ↔ InOrder s a ∧ InOrder (run s a).1 b := by
  induction a generalizing s with
  | nil => simp [InOrder, run]
  | cons e es ih => simp [InOrder, run, ih, and_assoc]

/-- the machine while a poisoned request circulates -/
def Circulating (s : St) : Prop :=
  s.phase = .connecting ∧ s.closed = false ∧ s.tasks = [] ∧
  ((s.retry = none ∧ s.chan = [.simple 1]) ∨ (∃ k, s.retry = some (k, [.simple 1]) ∧ k ≤ 1 ∧ s.chan = []))

theorem cycle_spec (s : St) (h : Circulating s) :
    Circulating (run s cycle).1 ∧ (run s cycle).2 = [] ∧ InOrder s cycle := by
  obtain ⟨hp, hc, _, hr⟩ := h
  have hmax : ¬ (MAX_BACKEND_RETRY ≤ 0) := by decide
  rcases hr with ⟨hr, hch⟩ | ⟨k, hr, hk, hch⟩
  · refine ⟨?_, ?_, ?_⟩ <;>
      simp [cycle, run, step, hp, hc, hr, hch, drainUp, connErr, Circulating, InOrder, EvOk, hmax]
  · refine ⟨?_, ?_, ?_⟩ <;>
      simp [cycle, run, step, hp, hc, hr, hch, drainUp, connErr, Circulating, InOrder, EvOk, hmax]

theorem poison_spec : ∀ (n : Nat) (s : St), Circulating s →
    Circulating (run s (poison n)).1 ∧ (run s (poison n)).2 = [] ∧ InOrder s (poison n) ∧
    (poison n).count .peerClosed = n := by
  intro n
  induction n with
  | zero => intro s h; simp [poison, run, h, InOrder]
  | succ n ih =>
    intro s h
    obtain ⟨h1, h2, h3⟩ := cycle_spec s h
    obtain ⟨h4, h5, h6, h7⟩ := ih _ h1
    refine ⟨?_, ?_, ?_, ?_⟩
    · simp only [poison, run_append]; exact h4
    · simp only [poison, run_append, h2, h5, List.append_nil]
    · simp only [poison, inOrder_append]; exact ⟨h3, h6⟩
    · simp only [poison, List.count_append, h7]
      have : cycle.count .peerClosed = 1 := by decide
      omega

end Um.BackendConn
