import UmModel.Route
import UmProofs.Crc16
/-!
`SlotMapData::new` / `get` (array filling, transliterated) = `lookup` (last listing node in visiting
order), and the consequences used by C09 / C02 / C14.
-/
namespace Um.Route
open Um Um.Crc16

/-! ## filling one range -/

theorem fillFrom_size (idx s fuel : Nat) (arr : Array (Option Nat)) :
    (fillFrom idx s fuel arr).size = arr.size := by
  induction fuel generalizing s arr with
  | zero => simp [fillFrom]
  | succ f ih =>
    unfold fillFrom
    split
    · rfl
    · rw [ih, Array.size_setIfInBounds]

theorem fillFrom_get (idx s fuel : Nat) (arr : Array (Option Nat)) (t : Nat) :
    (fillFrom idx s fuel arr)[t]? =
      if s ≤ t ∧ t < s + fuel ∧ t < SLOT_NUM ∧ t < arr.size then some (some idx) else arr[t]? := by
  induction fuel generalizing s arr with
  | zero =>
    have : ¬ (s ≤ t ∧ t < s + 0 ∧ t < SLOT_NUM ∧ t < arr.size) := by omega
    rw [if_neg this]; rfl
  | succ f ih =>
    unfold fillFrom
    by_cases hs : s ≥ SLOT_NUM
    · have : ¬ (s ≤ t ∧ t < s + (f + 1) ∧ t < SLOT_NUM ∧ t < arr.size) := by omega
      rw [if_neg this, if_pos hs]
    · rw [if_neg hs, ih, Array.size_setIfInBounds, Array.getElem?_setIfInBounds]
      by_cases hst : s = t
      · subst hst
        have h1 : ¬ (s + 1 ≤ s ∧ s < s + 1 + f ∧ s < SLOT_NUM ∧ s < arr.size) := by omega
        rw [if_neg h1, if_pos rfl]
        by_cases hsz : s < arr.size
        · have h2 : (s ≤ s ∧ s < s + (f + 1) ∧ s < SLOT_NUM ∧ s < arr.size) := by omega
          rw [if_pos h2, if_pos hsz]
        · have h2 : ¬ (s ≤ s ∧ s < s + (f + 1) ∧ s < SLOT_NUM ∧ s < arr.size) := by omega
          have h3 : arr[s]? = none := by simp; omega
          rw [if_neg h2, if_neg hsz, h3]
      · rw [if_neg hst]
        by_cases hc : s + 1 ≤ t ∧ t < s + 1 + f ∧ t < SLOT_NUM ∧ t < arr.size
        · have : s ≤ t ∧ t < s + (f + 1) ∧ t < SLOT_NUM ∧ t < arr.size := by omega
          rw [if_pos hc, if_pos this]
        · have : ¬ (s ≤ t ∧ t < s + (f + 1) ∧ t < SLOT_NUM ∧ t < arr.size) := by omega
          rw [if_neg hc, if_neg this]

theorem fillRange_size (idx : Nat) (arr : Array (Option Nat)) (r : Nat × Nat) :
    (fillRange idx arr r).size = arr.size := by
  unfold fillRange; split
  · rfl
  · exact fillFrom_size _ _ _ _

theorem fillRange_get (idx : Nat) (arr : Array (Option Nat)) (r : Nat × Nat) (t : Nat) :
    (fillRange idx arr r)[t]? =
      if (r.1 ≤ t ∧ t ≤ r.2) ∧ t < SLOT_NUM ∧ t < arr.size then some (some idx) else arr[t]? := by
  unfold fillRange
  by_cases h : r.1 > r.2
  · have : ¬ ((r.1 ≤ t ∧ t ≤ r.2) ∧ t < SLOT_NUM ∧ t < arr.size) := by omega
    rw [if_pos h, if_neg this]
  · rw [if_neg h, fillFrom_get]
    by_cases hc : r.1 ≤ t ∧ t < r.1 + (r.2 + 1 - r.1) ∧ t < SLOT_NUM ∧ t < arr.size
    · have : (r.1 ≤ t ∧ t ≤ r.2) ∧ t < SLOT_NUM ∧ t < arr.size := by omega
      rw [if_pos hc, if_pos this]
    · have : ¬ ((r.1 ≤ t ∧ t ≤ r.2) ∧ t < SLOT_NUM ∧ t < arr.size) := by omega
      rw [if_neg hc, if_neg this]

theorem covers_cons (r : Nat × Nat) (rs : RangeL) (t : Nat) :
    covers (r :: rs) t = ((decide (r.1 ≤ t) && decide (t ≤ r.2)) || covers rs t) := by
  simp [covers]

theorem foldl_fillRange_size (idx : Nat) (rs : RangeL) (arr : Array (Option Nat)) :
    (rs.foldl (fillRange idx) arr).size = arr.size := by
  induction rs generalizing arr with
  | nil => rfl
  | cons r rs ih => simp only [List.foldl_cons]; rw [ih, fillRange_size]

theorem foldl_fillRange_get (idx : Nat) (rs : RangeL) (arr : Array (Option Nat)) (t : Nat) :
    (rs.foldl (fillRange idx) arr)[t]? =
      if covers rs t = true ∧ t < SLOT_NUM ∧ t < arr.size then some (some idx) else arr[t]? := by
  induction rs generalizing arr with
  | nil =>
    have : ¬ (covers [] t = true ∧ t < SLOT_NUM ∧ t < arr.size) := by simp [covers]
    rw [if_neg this]; rfl
  | cons r rs ih =>
    simp only [List.foldl_cons]
    rw [ih, fillRange_size, fillRange_get, covers_cons]
    by_cases h1 : covers rs t = true ∧ t < SLOT_NUM ∧ t < arr.size
    · have : ((decide (r.1 ≤ t) && decide (t ≤ r.2)) || covers rs t) = true ∧ t < SLOT_NUM ∧ t < arr.size := by
        simp [h1.1, h1.2]
      rw [if_pos h1, if_pos this]
    · rw [if_neg h1]
      by_cases h2 : (r.1 ≤ t ∧ t ≤ r.2) ∧ t < SLOT_NUM ∧ t < arr.size
      · have : ((decide (r.1 ≤ t) && decide (t ≤ r.2)) || covers rs t) = true ∧ t < SLOT_NUM ∧ t < arr.size := by
          simp [h2.1.1, h2.1.2, h2.2]
        rw [if_pos h2, if_pos this]
      · have : ¬ (((decide (r.1 ≤ t) && decide (t ≤ r.2)) || covers rs t) = true ∧ t < SLOT_NUM ∧ t < arr.size) := by
          intro hh
          rcases hh with ⟨hc, hb⟩
          rcases (Bool.or_eq_true _ _).mp hc with e | e
          · simp only [Bool.and_eq_true, decide_eq_true_eq] at e
            exact h2 ⟨e, hb⟩
          · exact h1 ⟨e, hb⟩
        rw [if_neg h2, if_neg this]

/-! ## the whole map -/

/-- invariant of the fold of `SlotMapData::new` -/
structure NewInv (m : NodeRanges) (d : SlotMapData) : Prop where
  size : d.slotArr.size = SLOT_NUM
  addrs : d.addrs = (m.map (·.1)).toArray
  bound : ∀ (t i : Nat), d.slotArr[t]? = some (some i) → i < m.length
  get : ∀ t, d.get t = lookup m t

theorem lookup_nil (t : Nat) : lookup [] t = none := by simp [lookup]

theorem lookup_append_single (m : NodeRanges) (n : Addr × RangeL) (t : Nat) :
    lookup (m ++ [n]) t = if covers n.2 t = true ∧ t < SLOT_NUM then some n.1 else lookup m t := by
  unfold lookup
  by_cases ht : t < SLOT_NUM
  · simp only [ht, if_true, List.reverse_append, List.reverse_cons, List.reverse_nil, List.nil_append,
      List.cons_append, List.find?_cons, and_true]
    cases hc : covers n.2 t <;> simp
  · simp [ht]

theorem new_append_single (m : NodeRanges) (n : Addr × RangeL) :
    SlotMapData.new (m ++ [n]) = addNode (SlotMapData.new m) n := by
  simp [SlotMapData.new, List.foldl_append]

theorem newInv_nil : NewInv [] (SlotMapData.new []) := by
  refine ⟨by simp [SlotMapData.new], by simp [SlotMapData.new], ?_, ?_⟩
  · intro t i h
    simp only [SlotMapData.new, List.foldl_nil, Array.getElem?_replicate] at h
    split at h <;> simp at h
  · intro t
    simp only [SlotMapData.get, SlotMapData.new, List.foldl_nil, Array.getElem?_replicate, lookup_nil]
    split <;> simp_all

theorem newInv_step {m : NodeRanges} {d : SlotMapData} (h : NewInv m d) (n : Addr × RangeL) :
    NewInv (m ++ [n]) (addNode d n) := by
  have hsz : d.addrs.size = m.length := by rw [h.addrs]; simp
  have hidx : (d.addrs.push n.1).size - 1 = m.length := by simp [hsz]
  refine ⟨?_, ?_, ?_, ?_⟩
  · simp only [addNode]; rw [foldl_fillRange_size]; exact h.size
  · simp only [addNode]; rw [h.addrs]; simp
  · intro t i hti
    simp only [addNode, hidx] at hti
    rw [foldl_fillRange_get] at hti
    simp only [List.length_append, List.length_cons, List.length_nil]
    split at hti
    · simp only [Option.some.injEq] at hti; omega
    · have := h.bound t i hti; omega
  · intro t
    rw [lookup_append_single]
    simp only [SlotMapData.get, addNode, hidx]
    rw [foldl_fillRange_get, h.size]
    by_cases hc : covers n.2 t = true ∧ t < SLOT_NUM
    · have hc' : covers n.2 t = true ∧ t < SLOT_NUM ∧ t < SLOT_NUM := ⟨hc.1, hc.2, hc.2⟩
      simp only [hc', and_self, if_true]
      rw [← hsz]; simp
    · have hc' : ¬ (covers n.2 t = true ∧ t < SLOT_NUM ∧ t < SLOT_NUM) := fun x => hc ⟨x.1, x.2.1⟩
      simp only [hc', hc, if_false]
      rw [← h.get t]
      simp only [SlotMapData.get]
      cases hv : d.slotArr[t]? with
      | none => rfl
      | some o =>
        cases o with
        | none => rfl
        | some i =>
          have hb := h.bound t i hv
          simp only
          rw [Array.getElem?_push]
          have : ¬ i = d.addrs.size := by omega
          simp [this]

theorem newInv_reverse (r : NodeRanges) : NewInv r.reverse (SlotMapData.new r.reverse) := by
  induction r with
  | nil => exact newInv_nil
  | cons n r ih =>
    rw [List.reverse_cons, new_append_single]; exact newInv_step ih n

theorem newInv (m : NodeRanges) : NewInv m (SlotMapData.new m) := by
  have := newInv_reverse m.reverse
  rwa [List.reverse_reverse] at this

/-- **`SlotMap::get` characterised**: the array built by `SlotMapData::new` answers, for every slot,
the last node in visiting order that lists it -/
theorem get_new_eq_lookup (m : NodeRanges) (slot : Nat) : (SlotMapData.new m).get slot = lookup m slot :=
  (newInv m).get slot

/-! ## consequences of `lookup` -/

theorem lookup_some {m : NodeRanges} {slot : Nat} {a : Addr} (h : lookup m slot = some a) :
    slot < SLOT_NUM ∧ ∃ rs, (a, rs) ∈ m ∧ covers rs slot = true := by
  unfold lookup at h
  split at h
  · rename_i hlt
    refine ⟨hlt, ?_⟩
    simp only [Option.map_eq_some_iff] at h
    obtain ⟨n, hn, rfl⟩ := h
    have hp := List.find?_some hn
    have hm := List.mem_of_find?_eq_some hn
    exact ⟨n.2, by simpa using hm, hp⟩
  · cases h

theorem lookup_none {m : NodeRanges} {slot : Nat} (h : lookup m slot = none) :
    slot ≥ SLOT_NUM ∨ ∀ n ∈ m, covers n.2 slot = false := by
  unfold lookup at h
  split at h
  · right
    simp only [Option.map_eq_none_iff, List.find?_eq_none] at h
    intro n hn
    have := h n (by simpa using hn)
    simpa using this
  · left; omega

theorem lookup_isSome_iff (m : NodeRanges) (slot : Nat) :
    (lookup m slot).isSome = true ↔ slot < SLOT_NUM ∧ ∃ n ∈ m, covers n.2 slot = true := by
  constructor
  · intro h
    obtain ⟨a, ha⟩ := Option.isSome_iff_exists.mp h
    obtain ⟨hlt, rs, hm, hc⟩ := lookup_some ha
    exact ⟨hlt, (a, rs), hm, hc⟩
  · rintro ⟨hlt, n, hn, hc⟩
    cases h : lookup m slot with
    | some a => rfl
    | none =>
      rcases lookup_none h with h' | h'
      · omega
      · rw [h' n hn] at hc; cases hc

/-- if exactly the nodes named `a` list the slot, every visiting order answers `a` -/
theorem lookup_unique {m : NodeRanges} {slot : Nat} {a : Addr} (hlt : slot < SLOT_NUM)
    (hex : ∃ rs, (a, rs) ∈ m ∧ covers rs slot = true)
    (huniq : ∀ n ∈ m, covers n.2 slot = true → n.1 = a) : lookup m slot = some a := by
  obtain ⟨rs, hm, hc⟩ := hex
  cases h : lookup m slot with
  | none =>
    rcases lookup_none h with h' | h'
    · omega
    · have := h' (a, rs) hm; rw [hc] at this; cases this
  | some b =>
    obtain ⟨_, rs', hm', hc'⟩ := lookup_some h
    have := huniq (b, rs') hm' hc'
    simp at this; rw [this]

/-- being listed does not depend on the visiting order -/
theorem lookup_isSome_perm {m m' : NodeRanges} (hp : m.Perm m') (slot : Nat) :
    (lookup m slot).isSome = (lookup m' slot).isSome := by
  apply Bool.eq_iff_iff.mpr
  rw [lookup_isSome_iff, lookup_isSome_iff]
  constructor
  · rintro ⟨h, n, hn, hc⟩; exact ⟨h, n, hp.mem_iff.mp hn, hc⟩
  · rintro ⟨h, n, hn, hc⟩; exact ⟨h, n, hp.mem_iff.mpr hn, hc⟩

/-! ## `install` -/

theorem redirBudget_isSome (cfg : RouteCfg) (rt : Option Nat) : ∃ t, redirBudget cfg rt = some t := by
  unfold redirBudget; cases rt <;> exact ⟨_, rfl⟩

theorem sendRemoteDirectly_cases (cfg : RouteCfg) (cm : ClusterMap) (rt : Option Nat) (s : Nat) (a : Addr) :
    sendRemoteDirectly cfg cm rt s a = .errTooManyRedirections ∨
    (∃ w, sendRemoteDirectly cfg cm rt s a = .forward s a w) ∨
    sendRemoteDirectly cfg cm rt s a = .errNodeNotFound ∨
    sendRemoteDirectly cfg cm rt s a = .moved s a := by
  unfold sendRemoteDirectly
  generalize redirBudget cfg rt = times
  by_cases h0 : times = some 0
  · rw [if_pos h0]; exact Or.inl rfl
  · rw [if_neg h0]
    cases cm.remoteBackend with
    | none => exact Or.inr (Or.inr (Or.inr rfl))
    | some nodes =>
      simp only
      by_cases hc : nodes.contains a = true
      · rw [if_pos hc]; exact Or.inr (Or.inl ⟨_, rfl⟩)
      · rw [if_neg hc]; exact Or.inr (Or.inr (Or.inl rfl))

theorem sendRemoteDirectly_ne_exec (cfg : RouteCfg) (cm : ClusterMap) (rt : Option Nat) (s : Nat) (a n : Addr) :
    sendRemoteDirectly cfg cm rt s a ≠ .exec n := by
  intro h
  rcases sendRemoteDirectly_cases cfg cm rt s a with e | ⟨w, e⟩ | e | e <;> rw [e] at h <;> cases h

theorem sendRemoteDirectly_ne_notFound (cfg : RouteCfg) (cm : ClusterMap) (rt : Option Nat) (s : Nat) (a : Addr) :
    sendRemoteDirectly cfg cm rt s a ≠ .errClusterNotFound := by
  intro h
  rcases sendRemoteDirectly_cases cfg cm rt s a with e | ⟨w, e⟩ | e | e <;> rw [e] at h <;> cases h

/-- the redirection mark of a command (`UMFORWARD t`) is only consulted by `sendRemoteDirectly`: either
the decision does not depend on it at all, or the slot is peer-owned under active redirection and both
decisions are `sendRemoteDirectly` to the same peer (differing in the budget only) -/
theorem routeSlot_rt_cases (cfg : RouteCfg) (cm : ClusterMap) (rt : Option Nat) (slot : Option Nat) :
    routeSlot cfg cm rt slot = routeSlot cfg cm none slot ∨
    ∃ s a, slot = some s ∧ cm.peerMap.get s = some a ∧ cm.remoteBackend.isSome = true ∧
      routeSlot cfg cm rt slot = sendRemoteDirectly cfg cm rt s a ∧
      routeSlot cfg cm none slot = sendRemoteDirectly cfg cm none s a := by
  unfold routeSlot
  by_cases hn : cm.clusterName.isEmpty = true
  · rw [if_pos hn, if_pos hn]; exact Or.inl rfl
  · rw [if_neg hn, if_neg hn]
    cases slot with
    | none => exact Or.inl rfl
    | some s =>
      simp only
      cases hp : cm.peerMap.get s with
      | none => exact Or.inl rfl
      | some a =>
        cases hr : cm.remoteBackend.isSome with
        | false => exact Or.inl rfl
        | true =>
          simp only [if_true]
          cases hl : cm.localMap.get s with
          | none => exact Or.inr ⟨s, a, rfl, hp, trivial, rfl, rfl⟩
          | some n =>
            simp only
            cases hc : cm.localNodes.contains n with
            | true => exact Or.inl rfl
            | false => exact Or.inr ⟨s, a, rfl, hp, trivial, rfl, rfl⟩

/-- a command is executed locally iff it would be without the redirection mark -/
theorem routeSlot_exec_rt (cfg : RouteCfg) (cm : ClusterMap) (rt : Option Nat) (slot : Option Nat) (n : Addr) :
    routeSlot cfg cm rt slot = .exec n ↔ routeSlot cfg cm none slot = .exec n := by
  rcases routeSlot_rt_cases cfg cm rt slot with h | ⟨s, a, _, _, _, h1, h2⟩
  · rw [h]
  · rw [h1, h2]
    exact ⟨fun h => absurd h (sendRemoteDirectly_ne_exec _ _ _ _ _ _), fun h => absurd h (sendRemoteDirectly_ne_exec _ _ _ _ _ _)⟩

/-- without active redirection the mark is irrelevant (same `MOVED`, same errors) -/
theorem routeSlot_rt_no_remote (cfg : RouteCfg) (cm : ClusterMap) (rt : Option Nat) (slot : Option Nat)
    (h : cm.remoteBackend = none) : routeSlot cfg cm rt slot = routeSlot cfg cm none slot := by
  rcases routeSlot_rt_cases cfg cm rt slot with h' | ⟨_, _, _, _, hr, _, _⟩
  · exact h'
  · rw [h] at hr; cases hr

theorem install_localNodes_contains {cfg : RouteCfg} {name : String} {loc peer : NodeRanges} {s : Nat} {a : Addr}
    (h : (ClusterMap.install cfg name loc peer).localMap.get s = some a) :
    (ClusterMap.install cfg name loc peer).localNodes.contains a = true := by
  simp only [ClusterMap.install] at h ⊢
  rw [get_new_eq_lookup] at h
  obtain ⟨_, rs, hm, _⟩ := lookup_some h
  simp only [List.contains_eq_mem, List.mem_map, decide_eq_true_eq]
  exact ⟨(a, rs), hm, rfl⟩

end Um.Route
