import UmProofs.SetMetaConcInv
/-!
`Um.SetMetaConc`: `LInv` is preserved by every step (with the ghost update `logStep`), hence holds
along every execution from a state without callers.
-/
namespace Um.SetMetaConc
open Um Um.ProxyMeta

variable {C : Type}

theorem linv_spawn {announce : Bytes} {st0 : State C} {s s' : Sys C} {log : List (Entry C)}
    (m : Meta C) (b : Bool) (he : s'.epoch = s.epoch) (hsn : s'.snap = s.snap) (ho : s'.owner = s.owner)
    (hp : ∀ j, s'.callers[j]? = if j = s.callers.length then some ⟨m, b, .hosts⟩ else s.callers[j]?)
    (inv : LInv announce st0 s log) : LInv announce st0 s' log := by
  have keep : ∀ (j : Nat) (c : Caller C), s.callers[j]? = some c → s'.callers[j]? = some c := by
    intro j c hj
    have hlt := lt_of_getElem? hj
    rw [hp j]; simp [Nat.ne_of_lt hlt, hj]
  have back : ∀ (j : Nat) (c : Caller C), s'.callers[j]? = some c →
      (j = s.callers.length ∧ c = ⟨m, b, .hosts⟩) ∨ (j ≠ s.callers.length ∧ s.callers[j]? = some c) := by
    intro j c hj
    rw [hp j] at hj
    by_cases hjl : j = s.callers.length
    · left; simp [hjl] at hj; exact ⟨hjl, hj.symm⟩
    · right; simp [hjl] at hj; exact ⟨hjl, hj⟩
  have keepLog : ∀ t ∈ log, s'.callers[t.1]? = s.callers[t.1]? := by
    intro t ht
    obtain ⟨c, hc, _⟩ := inv.entries t ht
    rw [keep _ c hc, hc]
  refine ⟨inv.nodup, ?_, ?_, ?_, ?_, ?_⟩
  · intro t ht
    obtain ⟨c, hc, h2⟩ := inv.entries t ht
    exact ⟨c, keep _ c hc, h2⟩
  · intro j c hj
    rcases back j c hj with ⟨h1, h2⟩ | ⟨_, h2⟩
    · subst h2
      constructor
      · intro h; rcases h with (h | h | h | h) | h | h | h <;> cases h
      · intro hmem
        obtain ⟨t, ht, hti⟩ := List.mem_map.mp hmem
        obtain ⟨c, hc, _⟩ := inv.entries t ht
        have := lt_of_getElem? hc
        omega
    · exact inv.mem j c h2
  · intro j c hj
    rcases back j c hj with ⟨_, h2⟩ | ⟨_, h2⟩
    · subst h2
      refine ⟨?_, ?_, ?_⟩
      · intro h; rcases h with h | (h | h | h | h) | h | h | h <;> cases h
      · intro h; cases h
      · intro h; cases h
    · exact inv.hosts j c h2
  · intro hfree
    rw [ho] at hfree
    obtain ⟨h1, h2⟩ := inv.free hfree
    exact ⟨by rw [he, hsn]; exact h1, committed_keep h2 keepLog⟩
  · intro i hi
    rw [ho] at hi
    obtain ⟨pre, c, hlog, hc, hin, hcm, h1, h2, h3, h4⟩ := inv.held i hi
    refine ⟨pre, c, hlog, keep i c hc, hin, ?_, ?_, ?_, ?_, h4⟩
    · exact committed_keep hcm (fun t ht => keepLog t (by rw [hlog]; simp [ht]))
    · intro h; rw [he, hsn]; exact h1 h
    · intro h; rw [he, hsn]; exact h2 h
    · intro h; rw [he, hsn]; exact h3 h

/-- a step of a caller that is outside the critical section and does not take the lock -/
theorem linv_outside {announce : Bytes} {st0 : State C} {s s' : Sys C} {log : List (Entry C)}
    {i : Nat} {c c' : Caller C} (hci : s.callers[i]? = some c) (hpc : c.pc = .hosts)
    (hmsg : c'.msg = c.msg)
    (hpc' : (c'.pc = .lock ∧ checkHosts announce c.msg.locals = true) ∨
            (c'.pc = .done .notMyMeta ∧ checkHosts announce c.msg.locals = false))
    (he : s'.epoch = s.epoch) (hsn : s'.snap = s.snap) (ho : s'.owner = s.owner)
    (hp : ∀ j, s'.callers[j]? = if j = i then some c' else s.callers[j]?)
    (inv : LInv announce st0 s log) : LInv announce st0 s' log := by
  have notacq : ¬ acquired c.pc := by
    intro h; rcases h with (h | h | h | h) | h | h | h <;> rw [hpc] at h <;> cases h
  have hnotin : i ∉ log.map (·.1) := fun h => notacq ((inv.mem i c hci).mpr h)
  have notacq' : ¬ acquired c'.pc := by
    intro h
    rcases hpc' with ⟨h', _⟩ | ⟨h', _⟩ <;>
      rcases h with (h | h | h | h) | h | h | h <;> rw [h'] at h <;> cases h
  have keep : ∀ (j : Nat) (x : Caller C), s.callers[j]? = some x → j ≠ i → s'.callers[j]? = some x := by
    intro j x hj hji; rw [hp j]; simp [hji, hj]
  have back : ∀ (j : Nat) (x : Caller C), s'.callers[j]? = some x → (j = i ∧ x = c') ∨ (j ≠ i ∧ s.callers[j]? = some x) := by
    intro j x hj
    rw [hp j] at hj
    by_cases hji : j = i
    · left; simp [hji] at hj; exact ⟨hji, hj.symm⟩
    · right; simp [hji] at hj; exact ⟨hji, hj⟩
  have logne : ∀ t ∈ log, t.1 ≠ i := by
    intro t ht h; exact hnotin (List.mem_map.mpr ⟨t, ht, h⟩)
  have keepLog : ∀ t ∈ log, s'.callers[t.1]? = s.callers[t.1]? := by
    intro t ht; rw [hp t.1]; simp [logne t ht]
  refine ⟨inv.nodup, ?_, ?_, ?_, ?_, ?_⟩
  · intro t ht
    obtain ⟨x, hx, h2⟩ := inv.entries t ht
    exact ⟨x, keep _ x hx (logne t ht), h2⟩
  · intro j x hj
    rcases back j x hj with ⟨h1, h2⟩ | ⟨_, h2⟩
    · subst h1; subst h2
      exact ⟨fun h => absurd h notacq', fun h => absurd h hnotin⟩
    · exact inv.mem j x h2
  · intro j x hj
    rcases back j x hj with ⟨h1, h2⟩ | ⟨_, h2⟩
    · subst h2
      rw [hmsg]
      rcases hpc' with ⟨h', hh⟩ | ⟨h', hh⟩
      · refine ⟨fun _ => hh, ?_, ?_⟩
        · intro h; rw [h'] at h; cases h
        · intro h; rw [h'] at h; cases h
      · refine ⟨?_, fun _ => hh, ?_⟩
        · intro h
          rcases h with h | h
          · rw [h'] at h; cases h
          · exact absurd h notacq'
        · intro h; rw [h'] at h; cases h
    · exact inv.hosts j x h2
  · intro hfree
    rw [ho] at hfree
    obtain ⟨h1, h2⟩ := inv.free hfree
    exact ⟨by rw [he, hsn]; exact h1, committed_keep h2 keepLog⟩
  · intro o hoo
    rw [ho] at hoo
    obtain ⟨pre, co, hlog, hc, hin, hcm, h1, h2, h3, h4⟩ := inv.held o hoo
    have hoi : o ≠ i := by
      intro h; subst h; rw [hci] at hc; cases hc
      rcases hin with h | h | h | h <;> rw [hpc] at h <;> cases h
    refine ⟨pre, co, hlog, keep o co hc hoi, hin, ?_, ?_, ?_, ?_, h4⟩
    · exact committed_keep hcm (fun t ht => keepLog t (by rw [hlog]; simp [ht]))
    · intro h; rw [he, hsn]; exact h1 h
    · intro h; rw [he, hsn]; exact h2 h
    · intro h; rw [he, hsn]; exact h3 h

/-- the state clauses of `LInv.held` for the owner record `c` -/
def Clauses (announce : Bytes) (st0 : State C) (pre : List (Entry C)) (e : Nat) (sn : C) (c : Caller C) : Prop :=
  (c.pc = .test ∨ c.pc = .mapStore → (⟨e, sn⟩ : State C) = (seqRun announce st0 pre).1) ∧
  (c.pc = .epochStore → e = (seqRun announce st0 pre).1.epoch ∧ sn = c.msg.content) ∧
  (c.pc = .unlock → (⟨e, sn⟩ : State C) = installOf c.msg) ∧
  (c.pc ≠ .test → Accepts announce (seqRun announce st0 pre).1.epoch c.msg)

/-- taking the lock -/
theorem linv_lock {announce : Bytes} {st0 : State C} {s s' : Sys C} {log : List (Entry C)}
    {i : Nat} {c : Caller C} (hci : s.callers[i]? = some c) (hpc : c.pc = .lock) (hfree : s.owner = none)
    (he : s'.epoch = s.epoch) (hsn : s'.snap = s.snap) (ho : s'.owner = some i)
    (hp : ∀ j, s'.callers[j]? = if j = i then some { c with pc := .test } else s.callers[j]?)
    (inv : LInv announce st0 s log) : LInv announce st0 s' (log ++ [(i, c.msg, c.cfgOk)]) := by
  have notacq : ¬ acquired c.pc := by
    intro h; rcases h with (h | h | h | h) | h | h | h <;> rw [hpc] at h <;> cases h
  have hnotin : i ∉ log.map (·.1) := fun h => notacq ((inv.mem i c hci).mpr h)
  have self' : s'.callers[i]? = some { c with pc := .test } := by rw [hp i]; simp
  have keep : ∀ (j : Nat) (x : Caller C), s.callers[j]? = some x → j ≠ i → s'.callers[j]? = some x := by
    intro j x hj hji; rw [hp j]; simp [hji, hj]
  have back : ∀ (j : Nat) (x : Caller C), s'.callers[j]? = some x →
      (j = i ∧ x = { c with pc := .test }) ∨ (j ≠ i ∧ s.callers[j]? = some x) := by
    intro j x hj
    rw [hp j] at hj
    by_cases hji : j = i
    · left; simp [hji] at hj; exact ⟨hji, hj.symm⟩
    · right; simp [hji] at hj; exact ⟨hji, hj⟩
  have logne : ∀ t ∈ log, t.1 ≠ i := by
    intro t ht h; exact hnotin (List.mem_map.mpr ⟨t, ht, h⟩)
  have keepLog : ∀ t ∈ log, s'.callers[t.1]? = s.callers[t.1]? := by
    intro t ht; rw [hp t.1]; simp [logne t ht]
  obtain ⟨hst, hcm⟩ := inv.free hfree
  refine ⟨?_, ?_, ?_, ?_, ?_, ?_⟩
  · rw [List.map_append, List.nodup_append]
    refine ⟨inv.nodup, by simp, ?_⟩
    intro a ha b hb
    simp at hb; subst hb
    intro h; subst h; exact hnotin ha
  · intro t ht
    rw [List.mem_append] at ht
    rcases ht with ht | ht
    · obtain ⟨x, hx, h2⟩ := inv.entries t ht
      exact ⟨x, keep _ x hx (logne t ht), h2⟩
    · simp at ht; subst ht
      exact ⟨_, self', rfl, rfl⟩
  · intro j x hj
    rw [List.map_append, List.mem_append]
    rcases back j x hj with ⟨h1, h2⟩ | ⟨h1, h2⟩
    · subst h1; subst h2
      exact ⟨fun _ => Or.inr (by simp), fun _ => Or.inl (Or.inl rfl)⟩
    · constructor
      · intro h; exact Or.inl ((inv.mem j x h2).mp h)
      · intro h
        rcases h with h | h
        · exact (inv.mem j x h2).mpr h
        · simp at h; exact absurd h h1
  · intro j x hj
    rcases back j x hj with ⟨_, h2⟩ | ⟨_, h2⟩
    · subst h2
      have hh := (inv.hosts i c hci).1 (Or.inl hpc)
      refine ⟨fun _ => hh, ?_, ?_⟩
      · intro h; cases h
      · intro h; cases h
    · exact inv.hosts j x h2
  · intro h; rw [ho] at h; cases h
  · intro o hoo
    rw [ho] at hoo; cases hoo
    refine ⟨log, { c with pc := .test }, rfl, self', Or.inl rfl, committed_keep hcm keepLog, ?_, ?_, ?_, ?_⟩
    · intro _; rw [he, hsn]; exact hst
    · intro h; cases h
    · intro h; cases h
    · intro h; exact absurd rfl h

/-- a step of the lock owner that keeps the lock -/
theorem linv_owner_update {announce : Bytes} {st0 : State C} {s s' : Sys C} {log : List (Entry C)}
    {i : Nat} {c c' : Caller C} (hci : s.callers[i]? = some c) (hin : inside c.pc) (hin' : inside c'.pc)
    (hmsg : c'.msg = c.msg) (hcfg : c'.cfgOk = c.cfgOk) (ho : s'.owner = s.owner)
    (hp : ∀ j, s'.callers[j]? = if j = i then some c' else s.callers[j]?)
    (hcl : ∀ pre, Clauses announce st0 pre s.epoch s.snap c → Clauses announce st0 pre s'.epoch s'.snap c')
    (inv : LInv announce st0 s log) : LInv announce st0 s' log := by
  have hown := owner_of_inside inv hci hin
  obtain ⟨pre, co, hlog, hc, _, hcm, h1, h2, h3, h4⟩ := inv.held i hown
  rw [hci] at hc; cases hc
  have self' : s'.callers[i]? = some c' := by rw [hp i]; simp
  have keep : ∀ (j : Nat) (x : Caller C), s.callers[j]? = some x → j ≠ i → s'.callers[j]? = some x := by
    intro j x hj hji; rw [hp j]; simp [hji, hj]
  have back : ∀ (j : Nat) (x : Caller C), s'.callers[j]? = some x → (j = i ∧ x = c') ∨ (j ≠ i ∧ s.callers[j]? = some x) := by
    intro j x hj
    rw [hp j] at hj
    by_cases hji : j = i
    · left; simp [hji] at hj; exact ⟨hji, hj.symm⟩
    · right; simp [hji] at hj; exact ⟨hji, hj⟩
  have prene : ∀ t ∈ pre, t.1 ≠ i := by
    have := inv.nodup; rw [hlog] at this
    exact pre_ne_of_nodup this
  have keepPre : ∀ t ∈ pre, s'.callers[t.1]? = s.callers[t.1]? := by
    intro t ht; rw [hp t.1]; simp [prene t ht]
  have himem : i ∈ log.map (·.1) := (inv.mem i c hci).mp (Or.inl hin)
  refine ⟨inv.nodup, ?_, ?_, ?_, ?_, ?_⟩
  · intro t ht
    by_cases hti : t.1 = i
    · obtain ⟨x, hx, h5, h6⟩ := inv.entries t ht
      rw [hti, hci] at hx; cases hx
      exact ⟨c', by rw [hti]; exact self', by rw [hmsg]; exact h5, by rw [hcfg]; exact h6⟩
    · obtain ⟨x, hx, h5⟩ := inv.entries t ht
      exact ⟨x, keep _ x hx hti, h5⟩
  · intro j x hj
    rcases back j x hj with ⟨h5, h6⟩ | ⟨_, h6⟩
    · subst h5; subst h6
      exact ⟨fun _ => himem, fun _ => Or.inl hin'⟩
    · exact inv.mem j x h6
  · intro j x hj
    rcases back j x hj with ⟨_, h6⟩ | ⟨_, h6⟩
    · subst h6
      have hh := (inv.hosts i c hci).1 (Or.inr (Or.inl hin))
      rw [hmsg]
      refine ⟨fun _ => hh, ?_, ?_⟩
      · intro h; rcases hin' with h' | h' | h' | h' <;> rw [h] at h' <;> cases h'
      · intro h; rcases hin' with h' | h' | h' | h' <;> rw [h] at h' <;> cases h'
    · exact inv.hosts j x h6
  · intro h; rw [ho, hown] at h; cases h
  · intro o hoo
    rw [ho, hown] at hoo; cases hoo
    obtain ⟨g1, g2, g3, g4⟩ := hcl pre ⟨h1, h2, h3, h4⟩
    refine ⟨pre, c', by rw [hmsg, hcfg]; exact hlog, self', hin', committed_keep hcm keepPre, g1, g2, g3, g4⟩

/-- a step of the lock owner that releases the lock and returns `r` -/
theorem linv_release {announce : Bytes} {st0 : State C} {s s' : Sys C} {log : List (Entry C)}
    {i : Nat} {c c' : Caller C} {r : Reply} (hci : s.callers[i]? = some c) (hin : inside c.pc)
    (hpc' : c'.pc = .done r) (hr : r = .ok ∨ r = .warn ∨ r = .oldEpoch)
    (hmsg : c'.msg = c.msg) (hcfg : c'.cfgOk = c.cfgOk) (ho : s'.owner = none)
    (hp : ∀ j, s'.callers[j]? = if j = i then some c' else s.callers[j]?)
    (hcl : ∀ pre, Clauses announce st0 pre s.epoch s.snap c →
      checkHosts announce c.msg.locals = true →
      (⟨s'.epoch, s'.snap⟩ : State C) = (handle announce (seqRun announce st0 pre).1 (some (c.msg, c.cfgOk))).1 ∧
      (handle announce (seqRun announce st0 pre).1 (some (c.msg, c.cfgOk))).2 = r)
    (inv : LInv announce st0 s log) : LInv announce st0 s' log := by
  have hown := owner_of_inside inv hci hin
  obtain ⟨pre, co, hlog, hc, _, hcm, h1, h2, h3, h4⟩ := inv.held i hown
  rw [hci] at hc; cases hc
  have hh := (inv.hosts i c hci).1 (Or.inr (Or.inl hin))
  obtain ⟨gst, grep⟩ := hcl pre ⟨h1, h2, h3, h4⟩ hh
  have self' : s'.callers[i]? = some c' := by rw [hp i]; simp
  have keep : ∀ (j : Nat) (x : Caller C), s.callers[j]? = some x → j ≠ i → s'.callers[j]? = some x := by
    intro j x hj hji; rw [hp j]; simp [hji, hj]
  have back : ∀ (j : Nat) (x : Caller C), s'.callers[j]? = some x → (j = i ∧ x = c') ∨ (j ≠ i ∧ s.callers[j]? = some x) := by
    intro j x hj
    rw [hp j] at hj
    by_cases hji : j = i
    · left; simp [hji] at hj; exact ⟨hji, hj.symm⟩
    · right; simp [hji] at hj; exact ⟨hji, hj⟩
  have prene : ∀ t ∈ pre, t.1 ≠ i := by
    have := inv.nodup; rw [hlog] at this
    exact pre_ne_of_nodup this
  have keepPre : ∀ t ∈ pre, s'.callers[t.1]? = s.callers[t.1]? := by
    intro t ht; rw [hp t.1]; simp [prene t ht]
  have himem : i ∈ log.map (·.1) := (inv.mem i c hci).mp (Or.inl hin)
  have hacq' : acquired c'.pc := by
    rcases hr with h | h | h <;> subst h
    · exact Or.inr (Or.inl hpc')
    · exact Or.inr (Or.inr (Or.inl hpc'))
    · exact Or.inr (Or.inr (Or.inr hpc'))
  refine ⟨inv.nodup, ?_, ?_, ?_, ?_, ?_⟩
  · intro t ht
    by_cases hti : t.1 = i
    · obtain ⟨x, hx, h5, h6⟩ := inv.entries t ht
      rw [hti, hci] at hx; cases hx
      exact ⟨c', by rw [hti]; exact self', by rw [hmsg]; exact h5, by rw [hcfg]; exact h6⟩
    · obtain ⟨x, hx, h5⟩ := inv.entries t ht
      exact ⟨x, keep _ x hx hti, h5⟩
  · intro j x hj
    rcases back j x hj with ⟨h5, h6⟩ | ⟨_, h6⟩
    · subst h5; subst h6
      exact ⟨fun _ => himem, fun _ => hacq'⟩
    · exact inv.mem j x h6
  · intro j x hj
    rcases back j x hj with ⟨_, h6⟩ | ⟨_, h6⟩
    · subst h6
      rw [hmsg]
      refine ⟨fun _ => hh, ?_, ?_⟩
      · intro h; rw [hpc'] at h; cases h; rcases hr with h | h | h <;> cases h
      · intro h; rw [hpc'] at h; cases h; rcases hr with h | h | h <;> cases h
    · exact inv.hosts j x h6
  · intro _
    rw [hlog, seqRun_snoc]
    refine ⟨gst, ?_⟩
    have := committed_snoc (committed_keep hcm keepPre) i c.msg c.cfgOk c' r self' hpc' grep
    exact this
  · intro o hoo; rw [ho] at hoo; cases hoo

end Um.SetMetaConc
