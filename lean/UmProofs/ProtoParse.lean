import UmProofs.ProtoMeta
/-!
The section loop and `ProxyClusterMeta::{to_args, parse}` as a whole: round trip, invariant of
whatever is accepted, rejections.
-/
namespace Um.Proto
open Um Um.Gen.Proto

def WfMeta (m : Meta) : Prop :=
  m.version = SET_CLUSTER_API_VERSION ∧ m.epoch ≤ u64Max ∧ m.flags.compress = false ∧
    validClusterName m.cluster = true ∧ WfMap m.local ∧ WfMap m.peer ∧ WfCfg m.config

instance (m : Meta) : Decidable (WfMeta m) := by unfold WfMeta; infer_instance

/-- like `WfMeta` without any condition on the shape of the range lists -/
def BdMeta (m : Meta) : Prop :=
  m.version = SET_CLUSTER_API_VERSION ∧ m.epoch ≤ u64Max ∧ m.flags.compress = false ∧
    validClusterName m.cluster = true ∧ BdMap m.local ∧ BdMap m.peer ∧ WfCfg m.config

instance (m : Meta) : Decidable (BdMeta m) := by unfold BdMeta; infer_instance

/-- the value both wire forms denote: every range list compacted -/
def Meta.compacted (m : Meta) : Meta := { m with «local» := m.local.compacted, peer := m.peer.compacted }

theorem WfMeta.bd {m : Meta} (h : WfMeta m) : BdMeta m :=
  ⟨h.1, h.2.1, h.2.2.1, h.2.2.2.1, h.2.2.2.2.1.bd, h.2.2.2.2.2.1.bd, h.2.2.2.2.2.2⟩

theorem WfMeta.compacted {m : Meta} (h : WfMeta m) : m.compacted = m := by
  cases m
  simp only [Meta.compacted]
  congr
  · exact h.2.2.2.2.1.compacted
  · exact h.2.2.2.2.2.1.compacted

theorem peer_word : (upperA PEER_PREFIX == PEER_PREFIX) = true := by decide
theorem config_word_ne_peer : (upperA CONFIG_PREFIX == PEER_PREFIX) = false := by decide
theorem config_word : (upperA CONFIG_PREFIX == CONFIG_PREFIX) = true := by decide
theorem peer_section : isSectionWord PEER_PREFIX = true := by decide
theorem config_section : isSectionWord CONFIG_PREFIX = true := by decide

theorem toArgs_isEmpty (nm : NodeMap) (h : BdMap nm) : (NodeMap.toArgs nm).isEmpty = nm.isEmpty := by
  cases nm with
  | nil => rfl
  | cons p rest =>
    obtain ⟨a, srs⟩ := p
    have := (h.2 (a, srs) (List.mem_cons_self ..)).2.1
    cases srs with
    | nil => exact absurd rfl this
    | cons s ss => simp [NodeMap.toArgs]

/-- the tail of `to_args` after the local groups -/
def sectionArgs (order : List CfgField) (peer : NodeMap) (cfg : Config) : List Str :=
  (if (NodeMap.toArgs peer).isEmpty then [] else PEER_PREFIX :: NodeMap.toArgs peer)
    ++ (if (cfg.toArgs order).isEmpty then [] else CONFIG_PREFIX :: cfg.toArgs order)

theorem cfgArgs_nonempty (cfg : Config) (order : List CfgField) (ho : OrderOk order) :
    (cfg.toArgs order).isEmpty = false := by
  have := toArgs_cfg_length cfg order
  have h1 : order ≠ [] := by intro hh; have := ho .comp; simp [hh] at this
  cases hc : cfg.toArgs order with
  | nil => rw [hc] at this; cases order with
    | nil => exact absurd rfl h1
    | cons _ _ => simp at this
  | cons _ _ => rfl

theorem parseSections_config (f : Nat) (loc peer : NodeMap) (c0 : Config) (cfg : Config) (order : List CfgField)
    (hc : WfCfg cfg) (ho : OrderOk order) :
    parseSections (f + 2) loc peer c0 true (CONFIG_PREFIX :: cfg.toArgs order) = .ok (peer, cfg, true) := by
  rw [parseSections]
  simp only [config_word_ne_peer, config_word, Bool.false_eq_true, if_false, if_true]
  rw [Config.parse_rt cfg order hc ho]
  rfl

theorem parseSections_rt (f : Nat) (loc : NodeMap) (peer : NodeMap) (cfg : Config) (order : List CfgField)
    (hp : BdMap peer) (hc : WfCfg cfg) (ho : OrderOk order) :
    parseSections (f + 3) loc [] Config.default true (sectionArgs order peer cfg) = .ok (peer.compacted, cfg, true) := by
  unfold sectionArgs
  rw [cfgArgs_nonempty cfg order ho, toArgs_isEmpty peer hp]
  cases peer with
  | nil =>
    simp only [List.isEmpty_nil, if_true, List.nil_append, Bool.false_eq_true, if_false]
    exact parseSections_config (f + 1) loc [] _ cfg order hc ho
  | cons p ps =>
    simp only [List.isEmpty_cons, Bool.false_eq_true, if_false, List.cons_append]
    rw [parseSections]
    simp only [peer_word, if_true]
    rw [NodeMap.parse_rt_bd (p :: ps) _ hp (Or.inr ⟨_, _, rfl, config_section⟩)]
    exact parseSections_config f loc _ _ cfg order hc ho

theorem sectionArgs_stop (order : List CfgField) (peer : NodeMap) (cfg : Config) : Stop (sectionArgs order peer cfg) := by
  unfold sectionArgs
  split
  · split
    · exact Or.inl rfl
    · exact Or.inr ⟨_, _, rfl, config_section⟩
  · exact Or.inr ⟨_, _, rfl, peer_section⟩

theorem sectionArgs_length (order : List CfgField) (peer : NodeMap) (cfg : Config) (ho : OrderOk order) :
    2 ≤ (sectionArgs order peer cfg).length := by
  unfold sectionArgs
  rw [cfgArgs_nonempty cfg order ho]
  have := toArgs_cfg_length cfg order
  have h1 : 1 ≤ order.length := by
    cases order with
    | nil => have := ho .comp; simp at this
    | cons _ _ => simp
  simp only [Bool.false_eq_true, if_false, List.length_append, List.length_cons]
  omega

theorem toArgs_split (order : List CfgField) (m : Meta) :
    m.toArgs order = m.version :: decimal m.epoch :: m.flags.toArg :: m.cluster ::
      (NodeMap.toArgs m.local ++ sectionArgs order m.peer m.config) := by
  simp [Meta.toArgs, sectionArgs]

/-- **plain encoding, any range lists**: the argument vector of a meta decodes to that meta with
every range list compacted, for any decoder of the compressed form -/
theorem parseWith_toArgs_bd (dec : Str → Option MetaData) (order : List CfgField) (m : Meta)
    (h : BdMeta m) (ho : OrderOk order) : parseWith dec (m.toArgs order) = .ok (m.compacted, true) := by
  obtain ⟨hv, he, hf, hn, hl, hp, hc⟩ := h
  rw [toArgs_split]
  unfold parseWith
  simp only [hv, bne_self_eq_false, Bool.false_eq_true, if_false, parseUnsigned_decimal _ he, flags_rt, hf, hn,
    Bool.not_true]
  rw [NodeMap.parse_rt_bd m.local _ hl (sectionArgs_stop order m.peer m.config)]
  simp only
  have hlen := sectionArgs_length order m.peer m.config ho
  have : (sectionArgs order m.peer m.config).length + 1 = ((sectionArgs order m.peer m.config).length - 2) + 3 := by omega
  rw [this, parseSections_rt _ _ m.peer m.config order hp hc ho]
  simp only
  cases m
  simp_all [Meta.compacted]

/-- **cluster meta round trip** (plain encoding), for any decoder of the compressed form -/
theorem parseWith_toArgs (dec : Str → Option MetaData) (order : List CfgField) (m : Meta)
    (h : WfMeta m) (ho : OrderOk order) : parseWith dec (m.toArgs order) = .ok (m, true) := by
  rw [parseWith_toArgs_bd dec order m h.bd ho, h.compacted]

/-! ## whatever is accepted is well-formed -/

theorem parseSections_wf : ∀ (f : Nat) (loc peer : NodeMap) (cfg : Config) (ext : Bool) (ts : List Str)
    (p : NodeMap) (c : Config) (e : Bool), WfMap peer → WfCfg cfg →
    parseSections f loc peer cfg ext ts = .ok (p, c, e) → WfMap p ∧ WfCfg c := by
  intro f
  induction f with
  | zero => intro loc peer cfg ext ts p c e _ _ h; simp [parseSections] at h
  | succ f ih =>
    intro loc peer cfg ext ts p c e hp hc h
    cases ts with
    | nil =>
      simp only [parseSections, Except.ok.injEq, Prod.mk.injEq] at h
      obtain ⟨rfl, rfl, _⟩ := h
      exact ⟨hp, hc⟩
    | cons t ts =>
      simp only [parseSections] at h
      split at h
      · cases hn : NodeMap.parse ts with
        | error er => simp [hn] at h
        | ok q =>
          obtain ⟨p', rest⟩ := q
          simp only [hn] at h
          exact ih loc p' cfg ext rest p c e (NodeMap.parse_wf ts p' rest hn).1 hc h
      · split at h
        · cases hcp : Config.parse ts with
          | mk r rest =>
            cases r with
            | some c' =>
              simp only [hcp] at h
              have := (Config.parseAux_facts ts.length ts Config.default (some c') rest (Nat.le_refl _) wfCfg_default hcp).2 c' rfl
              exact ih loc peer c' ext rest p c e hp this h
            | none =>
              simp only [hcp] at h
              split at h
              · simp at h
              · exact ih loc peer cfg false rest p c e hp hc h
        · simp at h

/-- **no misparse, part 1**: whatever `parse` accepts is a well-formed value -/
theorem parse_wf (ts : List Str) (m : Meta) (ext : Bool) (h : parse ts = .ok (m, ext)) : WfMeta m := by
  unfold parse parseWith at h
  split at h
  · simp at h
  · rename_i version ts1
    split at h
    · simp at h
    · rename_i hv
      split at h
      · simp at h
      · rename_i e ts2
        cases he : parseUnsigned e with
        | none => simp [he] at h
        | some epoch =>
          simp only [he] at h
          split at h
          · simp at h
          · rename_i fl ts3
            split at h
            · split at h <;> simp at h
            · rename_i hcomp
              split at h
              · simp at h
              · rename_i name ts4
                split at h
                · simp at h
                · rename_i hname
                  cases hl : NodeMap.parse ts4 with
                  | error er => simp [hl] at h
                  | ok q =>
                    obtain ⟨loc, ts5⟩ := q
                    simp only [hl] at h
                    cases hsec : parseSections (ts5.length + 1) loc [] Config.default true ts5 with
                    | error er => simp [hsec] at h
                    | ok q2 =>
                      obtain ⟨peer, cfg, ext'⟩ := q2
                      simp only [hsec, Except.ok.injEq, Prod.mk.injEq] at h
                      obtain ⟨rfl, rfl⟩ := h
                      have h1 := NodeMap.parse_wf ts4 loc ts5 hl
                      have h2 := parseSections_wf _ loc [] Config.default true ts5 peer cfg ext' wfMap_nil wfCfg_default hsec
                      refine ⟨?_, parseUnsigned_le he, by simpa using hcomp, by simpa using hname, h1.1, h2.1, h2.2⟩
                      simpa using hv

/-! ## rejections -/

theorem parseWith_bad_epoch (dec : Str → Option MetaData) (v e : Str) (r : List Str) (h : parseUnsigned e = none) :
    ∃ er, parseWith dec (v :: e :: r) = .error er := by
  unfold parseWith
  simp only [h]
  split
  · exact ⟨_, rfl⟩
  · exact ⟨_, rfl⟩

/-- a token in count position that is neither a tag word nor a number (a bad tag, a corrupted
count) rejects the slot range -/
theorem SlotRange.reject_bad_count (t : Str) (ts : List Str) (h1 : (upperA t == MIGRATING_TAG) = false)
    (h2 : (upperA t == IMPORTING_TAG) = false) (h3 : parseUnsigned t = none) :
    SlotRange.fromStrings (t :: ts) = none := by
  simp [SlotRange.fromStrings, h1, h2, RangeList.parse, h3]

/-- a corrupted range token rejects the slot range -/
theorem parseRanges_bad_token : ∀ (n : Nat) (pre : List Range) (t : Str) (ts : List Str),
    (∀ r ∈ pre, r.s ≤ u64Max ∧ r.e ≤ u64Max) → pre.length < n → parseSlotRange t = none →
    parseRanges n (pre.map Range.toStr ++ t :: ts) = none := by
  intro n
  induction n with
  | zero => intro pre t ts _ h; omega
  | succ n ih =>
    intro pre t ts hb hl ht
    cases pre with
    | nil => simp [parseRanges, ht]
    | cons x xs =>
      have hx := hb x (List.mem_cons_self ..)
      simp only [List.map_cons, List.cons_append, parseRanges, parseSlotRange_toStr x hx.1 hx.2]
      rw [ih xs t ts (fun r hr => hb r (List.mem_cons_of_mem _ hr)) (by simp at hl; omega) ht]

theorem parseSections_unknown_word (f : Nat) (loc peer : NodeMap) (cfg : Config) (ext : Bool) (t : Str) (ts : List Str)
    (h1 : (upperA t == PEER_PREFIX) = false) (h2 : (upperA t == CONFIG_PREFIX) = false) :
    parseSections (f + 1) loc peer cfg ext (t :: ts) = .error .invalidArgs := by
  simp [parseSections, h1, h2]

/-- the header of a plain message -/
def header (m : Meta) : List Str := [m.version, decimal m.epoch, m.flags.toArg, m.cluster]

/-- **truncation inside a local group is rejected** -/
theorem parse_truncated_local (m : Meta) (h : WfMeta m) (a : Str) (sr : SlotRange) (k : Nat)
    (ha : isSectionWord a = false) (hsr : WfSR sr) (hk : k < sr.intoStrings.length) :
    parse (header m ++ NodeMap.toArgs m.local ++ a :: sr.intoStrings.take k) = .error .invalidArgs := by
  obtain ⟨hv, he, hf, hn, hl, hp, hc⟩ := h
  unfold parse parseWith header
  simp only [List.cons_append, List.nil_append, hv, bne_self_eq_false, Bool.false_eq_true, if_false,
    parseUnsigned_decimal _ he, flags_rt, hf, hn, Bool.not_true]
  rw [NodeMap.parse_truncated m.local a sr k hl ha hsr hk]

/-- **truncation inside a peer group is rejected** -/
theorem parse_truncated_peer (m : Meta) (h : WfMeta m) (a : Str) (sr : SlotRange) (k : Nat)
    (ha : isSectionWord a = false) (hsr : WfSR sr) (hk : k < sr.intoStrings.length) :
    parse (header m ++ NodeMap.toArgs m.local ++ PEER_PREFIX :: (NodeMap.toArgs m.peer ++ a :: sr.intoStrings.take k))
      = .error .invalidArgs := by
  obtain ⟨hv, he, hf, hn, hl, hp, hc⟩ := h
  unfold parse parseWith header
  simp only [List.cons_append, List.nil_append, hv, bne_self_eq_false, Bool.false_eq_true, if_false,
    parseUnsigned_decimal _ he, flags_rt, hf, hn, Bool.not_true]
  rw [NodeMap.parse_rt m.local _ hl (Or.inr ⟨_, _, rfl, peer_section⟩)]
  simp only [List.length_cons]
  rw [parseSections]
  simp only [peer_word, if_true]
  rw [NodeMap.parse_truncated m.peer a sr k hp ha hsr hk]

end Um.Proto
