import UmProofs.NodesParse
/-!
`parseSlots ∘ genClusterSlots`, and the owner lists of both parsed replies expressed over one list of
(address, range) pairs of the installed meta.
-/
namespace Um.Nodes
open Um Um.Route Um.RouteCmd

/-! ## `mapOpt` over concatenations -/

theorem mapOpt_append {α β : Type} (f : α → Option β) (a b : List α) (a' b' : List β)
    (ha : mapOpt f a = some a') (hb : mapOpt f b = some b') : mapOpt f (a ++ b) = some (a' ++ b') := by
  induction a generalizing a' with
  | nil =>
    simp only [mapOpt, Option.some.injEq] at ha
    subst ha; exact hb
  | cons x rest ih =>
    simp only [mapOpt] at ha
    cases hx : f x with
    | none => rw [hx] at ha; simp at ha
    | some y =>
      cases hr : mapOpt f rest with
      | none => rw [hx, hr] at ha; simp at ha
      | some ys =>
        rw [hx, hr] at ha
        simp only [Option.some.injEq] at ha
        subst ha
        simp only [List.cons_append, mapOpt]
        rw [hx, ih ys hr]

theorem mapOpt_flatMap {α β γ : Type} (f : β → Option γ) (g : α → List β) (k : α → List γ) (l : List α)
    (h : ∀ x ∈ l, mapOpt f (g x) = some (k x)) : mapOpt f (l.flatMap g) = some (l.flatMap k) := by
  induction l with
  | nil => rfl
  | cons x rest ih =>
    simp only [List.flatMap_cons]
    exact mapOpt_append f _ _ _ _ (h x (by simp)) (ih (fun y hy => h y (by simp [hy])))

/-! ## one node of SLOTS -/

theorem hostPort_oneColon (a : Addr) (h p : Bytes) (ha : bs a = h ++ 58 :: p) (hh : ∀ b ∈ h, b ≠ 58)
    (hp : ∀ b ∈ p, b ≠ 58) : hostPort a = some (h, p) := by
  unfold hostPort
  rw [ha, splitOn_append_sep 58 h p hh, splitOn_free 58 p hp]

/-- `host:port` pieces of an address with exactly one colon -/
theorem hostPort_of_oneColon (a : Addr) (ha : OneColon a) :
    ∃ h p, hostPort a = some (h, p) ∧ h ++ [58] ++ p = bs a := by
  obtain ⟨h, p, e, hh, hp⟩ := ha
  exact ⟨h, p, hostPort_oneColon a h p e hh hp, by rw [e]; simp⟩

def mkSlotsResp (ipPort : Resp) (r : Nat × Nat) : Resp :=
  .arr [.integer (decimal r.1), .integer (decimal r.2), ipPort]

/-- what `slotsOfNode` produces for an address `h:p` -/
theorem slotsOfNode_ok (name : String) (states : States) (n : Addr × List SlotRange) (h p : Bytes)
    (hhp : hostPort n.1 = some (h, p)) :
    slotsOfNode name states n =
      .ok ((visRanges states n.2).map (mkSlotsResp (.arr [.bulk h, .integer p, .bulk (genNodeId name n.1)]))) := by
  unfold slotsOfNode
  rw [hhp]
  simp only [visRanges, List.map_flatMap]
  rfl

def expSlotsEntry (name : String) (a : Addr) (h p : Bytes) (r : Nat × Nat) : SlotsEntry :=
  { start := r.1, fin := r.2, host := h, port := p, id := genNodeId name a }

theorem parseSlotsEntry_mk (name : String) (a : Addr) (h p : Bytes) (r : Nat × Nat) (h1 : r.1 < USIZE)
    (h2 : r.2 < USIZE) :
    parseSlotsEntry (mkSlotsResp (.arr [.bulk h, .integer p, .bulk (genNodeId name a)]) r) =
      some (expSlotsEntry name a h p r) := by
  simp only [mkSlotsResp, parseSlotsEntry, parseDec_decimal r.1 h1, parseDec_decimal r.2 h2, expSlotsEntry]

/-! ## the abstract list both replies are read against -/

/-- (address, range) for every range of every `SlotRange` that `should_ignore_slots` lets through -/
def visPairs (states : States) (ns : NodeSlots) : List (Addr × (Nat × Nat)) :=
  ns.flatMap fun n => (visRanges states n.2).map fun r => (n.1, r)

/-- the addresses advertising `slot`, one per listing range -/
def advList (vw : View) (states : States) (slot : Nat) : List Addr :=
  ((visPairs states (allNodes vw)).filter fun p => inRange p.2 slot).map (·.1)

theorem nodesOwners_cons (e : NodeEntry) (es : List NodeEntry) (s : Nat) :
    nodesOwners (e :: es) s = ((e.ranges.filter fun r => inRange r s).map fun _ => e.addr) ++ nodesOwners es s := by
  simp [nodesOwners]

theorem nodesOwners_expNode (name : String) (epoch : Nat) (states : States) (loc : Bool) (l : NodeSlots) (s : Nat) :
    nodesOwners (l.map (expNode name epoch states loc)) s =
      (((visPairs states l).filter fun p => inRange p.2 s).map (·.1)).map bs := by
  induction l with
  | nil => rfl
  | cons n rest ih =>
    rw [List.map_cons, nodesOwners_cons, ih]
    simp only [visPairs, List.flatMap_cons, List.filter_append, List.map_append, expNode, List.filter_map,
      List.map_map]
    congr 1

theorem nodesOwners_expNodes (vw : View) (states : States) (s : Nat) :
    nodesOwners (expNodes vw states) s = (advList vw states s).map bs := by
  have h1 := nodesOwners_expNode vw.name vw.epoch states true [(vw.me, localSlots vw)] s
  have h2 := nodesOwners_expNode vw.name vw.epoch states false vw.peer s
  unfold expNodes advList allNodes
  rw [nodesOwners_cons]
  simp only [List.map_cons, List.map_nil, nodesOwners_cons] at h1
  have h0 : nodesOwners [] s = [] := rfl
  rw [h0, List.append_nil] at h1
  rw [h1, h2]
  simp only [visPairs, List.flatMap_cons, List.flatMap_nil, List.append_nil, List.filter_append, List.map_append]

/-! ## the whole SLOTS reply -/

/-- parsed entries of the nodes `ns`, given the split of each address -/
def expSlots (name : String) (states : States) (hp : Addr → Bytes × Bytes) (ns : NodeSlots) : List SlotsEntry :=
  ns.flatMap fun n => (visRanges states n.2).map (expSlotsEntry name n.1 (hp n.1).1 (hp n.1).2)

theorem genClusterSlotsHelper_ok (name : String) (states : States) (hp : Addr → Bytes × Bytes) (ns : NodeSlots)
    (h : ∀ n ∈ ns, hostPort n.1 = some (hp n.1)) :
    genClusterSlotsHelper name states ns =
      .ok (ns.flatMap fun n => (visRanges states n.2).map
        (mkSlotsResp (.arr [.bulk (hp n.1).1, .integer (hp n.1).2, .bulk (genNodeId name n.1)]))) := by
  induction ns with
  | nil => rfl
  | cons n rest ih =>
    simp only [genClusterSlotsHelper]
    rw [slotsOfNode_ok name states n (hp n.1).1 (hp n.1).2 (h n (by simp)),
      ih (fun m hm => h m (by simp [hm]))]
    rfl

theorem slotsOwners_expSlots (name : String) (states : States) (hp : Addr → Bytes × Bytes) (ns : NodeSlots) (s : Nat)
    (h : ∀ n ∈ ns, (hp n.1).1 ++ [58] ++ (hp n.1).2 = bs n.1) :
    slotsOwners (expSlots name states hp ns) s =
      (((visPairs states ns).filter fun p => inRange p.2 s).map (·.1)).map bs := by
  induction ns with
  | nil => rfl
  | cons n rest ih =>
    have ih' := ih (fun m hm => h m (by simp [hm]))
    unfold slotsOwners at ih' ⊢
    simp only [expSlots, visPairs, List.flatMap_cons, List.filter_append, List.map_append] at ih' ⊢
    rw [ih']
    congr 1
    simp only [List.filter_map, List.map_map]
    have := h n (by simp)
    apply List.map_congr_left
    intro r _
    simpa [expSlotsEntry] using this

/-- every address of the view is `host:port` with exactly one colon -/
def ColonView (vw : View) : Prop := ∀ n ∈ allNodes vw, OneColon n.1

theorem parseSlots_gen (vw : View) (states : States) (hw : WfView vw) (hc : ColonView vw) :
    ∃ es, parseSlots (genClusterSlots vw states) = some es ∧
      ∀ s, slotsOwners es s = (advList vw states s).map bs := by
  -- choose the split of every address
  have hex : ∀ a : Addr, ∃ hp : Bytes × Bytes, OneColon a → (hostPort a = some hp ∧ hp.1 ++ [58] ++ hp.2 = bs a) := by
    intro a
    by_cases h : OneColon a
    · obtain ⟨h', p', e1, e2⟩ := hostPort_of_oneColon a h
      exact ⟨(h', p'), fun _ => ⟨e1, e2⟩⟩
    · exact ⟨([], []), fun h' => absurd h' h⟩
  let hp : Addr → Bytes × Bytes := fun a => Classical.choose (hex a)
  have hhp : ∀ n ∈ allNodes vw, hostPort n.1 = some (hp n.1) ∧ (hp n.1).1 ++ [58] ++ (hp n.1).2 = bs n.1 :=
    fun n hn => Classical.choose_spec (hex n.1) (hc n hn)
  have hme : (vw.me, localSlots vw) ∈ allNodes vw := by simp [allNodes]
  have hpeer : ∀ n ∈ vw.peer, n ∈ allNodes vw := fun n hn => by simp [allNodes, hn]
  have hl := genClusterSlotsHelper_ok vw.name states hp [(vw.me, localSlots vw)]
    (fun n hn => by simp only [List.mem_singleton] at hn; subst hn; exact (hhp _ hme).1)
  have hr := genClusterSlotsHelper_ok vw.name states hp vw.peer (fun n hn => (hhp n (hpeer n hn)).1)
  refine ⟨expSlots vw.name states hp (allNodes vw), ?_, ?_⟩
  · unfold genClusterSlots
    rw [hl, hr]
    simp only [parseSlots]
    rw [← List.flatMap_append]
    show mapOpt parseSlotsEntry ((allNodes vw).flatMap _) = _
    unfold expSlots
    apply mapOpt_flatMap
    intro n hn
    apply mapOpt_map
    intro r hr'
    have hb := visRanges_bounded states n.2 (hw.bounded n hn) r hr'
    exact parseSlotsEntry_mk vw.name n.1 _ _ r hb.1 hb.2
  · intro s
    rw [slotsOwners_expSlots vw.name states hp (allNodes vw) s (fun n hn => (hhp n hn).2)]
    rfl

end Um.Nodes
