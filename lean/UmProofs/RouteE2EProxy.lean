import UmProofs.RouteE2EMaps
import UmProps.C09
/-!
# C02, proxy layer: `set_meta`, the task map, and the routing decision of one synced proxy

`Installed cfg m p`: proxy state `p` serves from the maps `set_meta` builds out of the parsed meta
`m` (`setMeta_installed`); the task states and the blocking set are free (they are the phase data).
For a proxy `a` of a `PartitionView` that has `Installed` what the wire delivered of its own view:

* `route_stable_owner` / `route_stable_other`: stable slot — executed on (or queued for) the owner's
  node at the owner's proxy, `MOVED` to the owner's proxy elsewhere;
* `route_src` / `route_dst` / `route_bystander`: slot under migration — decision of the source
  proxy, the destination proxy and everybody else, as a function of the task state.
-/
namespace Um.E2E
open Um Um.Broker Um.Route Um.Slots

/-! ## the task map -/

theorem insertTask_keys (t : Task) : ∀ (acc : List Task) (k : TaskKey),
    k ∈ (insertTask t acc).map (·.key) ↔ k = t.key ∨ k ∈ acc.map (·.key) := by
  intro acc
  induction acc with
  | nil => intro k; simp [insertTask]
  | cons x r ih =>
    intro k
    unfold insertTask
    by_cases hx : (x.key == t.key) = true
    · rw [if_pos hx]
      have : x.key = t.key := beq_iff_eq.mp hx
      simp only [List.map_cons, List.mem_cons, this]
      constructor
      · rintro (h | h)
        · exact Or.inl h
        · exact Or.inr (Or.inr h)
      · rintro (h | h | h)
        · exact Or.inl h
        · exact Or.inl h
        · exact Or.inr h
    · rw [if_neg hx]
      simp only [List.map_cons, List.mem_cons, ih k]
      constructor
      · rintro (h | h | h)
        · exact Or.inr (Or.inl h)
        · exact Or.inl h
        · exact Or.inr (Or.inr h)
      · rintro (h | h | h)
        · exact Or.inr (Or.inl h)
        · exact Or.inl h
        · exact Or.inr (Or.inr h)

theorem insertTask_nodup (t : Task) : ∀ (acc : List Task),
    (acc.map (·.key)).Nodup → ((insertTask t acc).map (·.key)).Nodup := by
  intro acc
  induction acc with
  | nil => intro _; simp [insertTask]
  | cons x r ih =>
    intro h
    rw [List.map_cons, List.nodup_cons] at h
    unfold insertTask
    by_cases hx : (x.key == t.key) = true
    · rw [if_pos hx]
      have e : x.key = t.key := beq_iff_eq.mp hx
      rw [List.map_cons, List.nodup_cons, ← e]
      exact h
    · rw [if_neg hx]
      rw [List.map_cons, List.nodup_cons]
      refine ⟨?_, ih h.2⟩
      rw [insertTask_keys]
      rintro (e | e)
      · exact hx (beq_iff_eq.mpr e)
      · exact h.1 e

/-- first pass of `update_from_old_task_map` -/
def keptFold (old : List Task) (K : List TaskKey) (acc : List Task) : List Task :=
  K.foldl (fun acc k =>
    match old.find? (fun t => t.key == k) with
    | some t => insertTask t acc
    | none => acc) acc

/-- second pass -/
def freshFold (K : List TaskKey) (acc : List Task) : List Task :=
  K.foldl (fun acc k => if acc.any (fun t => t.key == k) then acc else insertTask ⟨k, .preCheck⟩ acc) acc

theorem updateTasks_eq (cluster : String) (old : List Task) (loc : SNodeMap) :
    updateTasks cluster old loc =
      freshFold (taggedKeys cluster loc) (keptFold old (taggedKeys cluster loc) []) := rfl

theorem kept_inv (old : List Task) : ∀ (K : List TaskKey) (acc : List Task),
    (acc.map (·.key)).Nodup →
    ((keptFold old K acc).map (·.key)).Nodup ∧
      ∀ k ∈ (keptFold old K acc).map (·.key), k ∈ K ∨ k ∈ acc.map (·.key) := by
  intro K
  induction K with
  | nil => intro acc h; exact ⟨h, fun k hk => Or.inr hk⟩
  | cons k0 ks ih =>
    intro acc h
    unfold keptFold
    simp only [List.foldl_cons]
    cases hf : old.find? (fun t => t.key == k0) with
    | none =>
      simp only
      obtain ⟨h1, h2⟩ := ih acc h
      refine ⟨h1, fun k hk => ?_⟩
      rcases h2 k hk with h' | h'
      · exact Or.inl (List.mem_cons_of_mem _ h')
      · exact Or.inr h'
    | some t =>
      simp only
      have hk0 : t.key = k0 := by
        have := List.find?_some hf
        exact beq_iff_eq.mp this
      obtain ⟨h1, h2⟩ := ih (insertTask t acc) (insertTask_nodup t acc h)
      refine ⟨h1, fun k hk => ?_⟩
      rcases h2 k hk with h' | h'
      · exact Or.inl (List.mem_cons_of_mem _ h')
      · rw [insertTask_keys] at h'
        rcases h' with e | e
        · left; rw [e, hk0]; simp
        · exact Or.inr e

theorem fresh_inv : ∀ (K : List TaskKey) (acc : List Task), (acc.map (·.key)).Nodup →
    ((freshFold K acc).map (·.key)).Nodup ∧
      ∀ k, k ∈ (freshFold K acc).map (·.key) ↔ (k ∈ K ∨ k ∈ acc.map (·.key)) := by
  intro K
  induction K with
  | nil => intro acc h; exact ⟨h, fun k => by simp [freshFold]⟩
  | cons k0 ks ih =>
    intro acc h
    unfold freshFold
    simp only [List.foldl_cons]
    by_cases hc : acc.any (fun t => t.key == k0) = true
    · rw [if_pos hc]
      obtain ⟨h1, h2⟩ := ih acc h
      refine ⟨h1, fun k => ?_⟩
      refine (h2 k).trans ?_
      have hk0 : k0 ∈ acc.map (·.key) := by
        obtain ⟨t, ht, he⟩ := List.any_eq_true.mp hc
        exact List.mem_map.mpr ⟨t, ht, beq_iff_eq.mp he⟩
      constructor
      · rintro (h' | h')
        · exact Or.inl (List.mem_cons_of_mem _ h')
        · exact Or.inr h'
      · rintro (h' | h')
        · rcases List.mem_cons.mp h' with e | e
          · right; rw [e]; exact hk0
          · exact Or.inl e
        · exact Or.inr h'
    · rw [if_neg hc]
      obtain ⟨h1, h2⟩ := ih _ (insertTask_nodup ⟨k0, .preCheck⟩ acc h)
      refine ⟨h1, fun k => ?_⟩
      refine (h2 k).trans ?_
      rw [insertTask_keys]
      simp only [List.mem_cons]
      constructor
      · rintro (h' | h' | h')
        · exact Or.inl (Or.inr h')
        · exact Or.inl (Or.inl h')
        · exact Or.inr h'
      · rintro ((h' | h') | h')
        · exact Or.inr (Or.inl h')
        · exact Or.inl h'
        · exact Or.inr (Or.inr h')

/-- `update_from_old_task_map` yields one task per distinct tagged local range -/
theorem updateTasks_keys (cluster : String) (old : List Task) (loc : SNodeMap) :
    ((updateTasks cluster old loc).map (·.key)).Nodup ∧
      ∀ k, k ∈ (updateTasks cluster old loc).map (·.key) ↔ k ∈ taggedKeys cluster loc := by
  rw [updateTasks_eq]
  obtain ⟨k1, k2⟩ := kept_inv old (taggedKeys cluster loc) [] (by simp)
  obtain ⟨f1, f2⟩ := fresh_inv (taggedKeys cluster loc) _ k1
  refine ⟨f1, fun k => (f2 k).trans ⟨?_, fun h => Or.inl h⟩⟩
  rintro (h | h)
  · exact h
  · rcases k2 k h with h' | h'
    · exact h'
    · simp at h'

/-! ## `Installed` -/

/-- `p` serves from what `set_meta` builds out of `m`; task states and the blocking set are free -/
structure Installed (cfg : RouteCfg) (m : EMeta) (p : ProxyState) : Prop where
  cfg_eq : p.cfg = cfg
  cm_eq : p.cm = ClusterMap.install cfg m.cluster (rangesOfMap m.loc) (rangesOfMap m.peer)
  migCluster_eq : p.migCluster = m.cluster
  migEmpty_eq : p.migEmpty = p.tasks.isEmpty
  keys_nodup : (p.tasks.map (·.key)).Nodup
  keys_mem : ∀ k, k ∈ p.tasks.map (·.key) ↔ k ∈ taggedKeys m.cluster m.loc

/-- an accepted `UMCTL SETCLUSTER` installs the meta, whatever the proxy served before -/
theorem setMeta_installed (p0 : ProxyState) (m : EMeta) (p : ProxyState)
    (h : setMeta p0 m = (p, .ok)) : Installed p0.cfg m p := by
  unfold setMeta at h
  split at h
  · cases h
  · split at h
    · cases h
    · simp only [Prod.mk.injEq, and_true] at h
      subst h
      obtain ⟨u1, u2⟩ := updateTasks_keys m.cluster p0.tasks m.loc
      exact ⟨rfl, rfl, rfl, rfl, u1, u2⟩

theorem setTaskState_keys (k : TaskKey) (st : MigState) (ts : List Task) :
    (setTaskState k st ts).map (·.key) = ts.map (·.key) := by
  unfold setTaskState
  rw [List.map_map]
  apply List.map_congr_left
  intro t _
  simp only [Function.comp_apply]
  split <;> rfl

/-- phase changes keep the installation -/
theorem Installed.setTaskState {cfg : RouteCfg} {m : EMeta} {p : ProxyState} (h : Installed cfg m p)
    (k : TaskKey) (st : MigState) (b : List Addr) :
    Installed cfg m { p with tasks := setTaskState k st p.tasks, blocking := b } := by
  refine ⟨h.cfg_eq, h.cm_eq, h.migCluster_eq, ?_, ?_, ?_⟩
  · show p.migEmpty = (E2E.setTaskState k st p.tasks).isEmpty
    rw [h.migEmpty_eq]
    unfold E2E.setTaskState
    cases p.tasks <;> rfl
  · show ((E2E.setTaskState k st p.tasks).map (·.key)).Nodup
    rw [setTaskState_keys]; exact h.keys_nodup
  · intro k'
    show k' ∈ (E2E.setTaskState k st p.tasks).map (·.key) ↔ _
    rw [setTaskState_keys]; exact h.keys_mem k'

/-- the state of the task with key `k` -/
def stateOf (p : ProxyState) (k : TaskKey) : Option MigState :=
  (p.tasks.find? fun t => t.key == k).map (·.state)

theorem eq_of_key_eq : ∀ (l : List Task), (l.map (·.key)).Nodup → ∀ t ∈ l, ∀ t' ∈ l, t.key = t'.key → t = t' := by
  intro l
  induction l with
  | nil => intro _ t ht; cases ht
  | cons x r ih =>
    intro h t ht t' ht' e
    rw [List.map_cons, List.nodup_cons] at h
    rcases List.mem_cons.mp ht with rfl | ht1
    · rcases List.mem_cons.mp ht' with rfl | ht2
      · rfl
      · exact absurd (List.mem_map.mpr ⟨t', ht2, e.symm⟩) h.1
    · rcases List.mem_cons.mp ht' with rfl | ht2
      · exact absurd (List.mem_map.mpr ⟨t, ht1, e⟩) h.1
      · exact ih h.2 t ht1 t' ht2 e

/-- the first task that satisfies `pred`, when all tasks satisfying it have key `K` -/
theorem find_task {p : ProxyState} (hnd : (p.tasks.map (·.key)).Nodup) (pred : Task → Bool) (K : TaskKey)
    (hex : ∃ t ∈ p.tasks, pred t = true) (hall : ∀ t ∈ p.tasks, pred t = true → t.key = K) :
    ∃ t, p.tasks.find? pred = some t ∧ t.key = K ∧ stateOf p K = some t.state := by
  cases hf : p.tasks.find? pred with
  | none =>
    obtain ⟨t, ht, hp⟩ := hex
    have := List.find?_eq_none.mp hf t ht
    exact absurd hp this
  | some t =>
    have htm := List.mem_of_find?_eq_some hf
    have htk := hall t htm (List.find?_some hf)
    refine ⟨t, rfl, htk, ?_⟩
    unfold stateOf
    cases hg : p.tasks.find? (fun t => t.key == K) with
    | none =>
      have := List.find?_eq_none.mp hg t htm
      simp [htk] at this
    | some t' =>
      have h1 := List.mem_of_find?_eq_some hg
      have h2 : t'.key = K := by
        have := List.find?_some hg
        simpa using this
      rw [eq_of_key_eq _ hnd t' h1 t htm (h2.trans htk.symm)]
      rfl

/-! ## `RangeMap` -/

theorem rangeMapContains_covers {rl : RangeList} {s : Nat} (h : rangeMapContains rl s = true) :
    covers rl s = true := by
  unfold rangeMapContains at h
  split at h
  · split at h
    · cases h
    · simp only [Bool.and_eq_true] at h; exact h.2
  · cases h

theorem normal_each : ∀ (l : RangeList), NormalRanges l → ∀ r ∈ l, r.1 ≤ r.2 := by
  intro l
  induction l with
  | nil => intro _ r hr; cases hr
  | cons f rest ih =>
    intro h r hr
    cases rest with
    | nil =>
      simp only [List.mem_cons, List.not_mem_nil, or_false] at hr
      subst hr; exact h
    | cons g gs =>
      obtain ⟨h1, _, h3⟩ := h
      rcases List.mem_cons.mp hr with rfl | hr'
      · exact h1
      · exact ih h3 r hr'

theorem normal_head_le : ∀ (rest : RangeList) (f : Range), NormalRanges (f :: rest) → ∀ r ∈ f :: rest, f.1 ≤ r.1 := by
  intro rest
  induction rest with
  | nil =>
    intro f _ r hr
    simp only [List.mem_cons, List.not_mem_nil, or_false] at hr
    subst hr; exact Nat.le_refl _
  | cons g gs ih =>
    intro f h r hr
    obtain ⟨h1, h2, h3⟩ := h
    rcases List.mem_cons.mp hr with rfl | hr'
    · exact Nat.le_refl _
    · have := ih g h3 r hr'
      omega

theorem normal_le_last : ∀ (l : RangeList), NormalRanges l → ∀ x, l.getLast? = some x → ∀ r ∈ l, r.2 ≤ x.2 := by
  intro l
  induction l with
  | nil => intro _ x hx; cases hx
  | cons f rest ih =>
    intro h x hx r hr
    cases rest with
    | nil =>
      simp only [List.getLast?_singleton, Option.some.injEq] at hx
      simp only [List.mem_cons, List.not_mem_nil, or_false] at hr
      subst hx; subst hr; exact Nat.le_refl _
    | cons g gs =>
      obtain ⟨h1, h2, h3⟩ := h
      have hx' : (g :: gs).getLast? = some x := by
        rw [List.getLast?_cons_cons] at hx; exact hx
      rcases List.mem_cons.mp hr with rfl | hr'
      · have hg := ih h3 x hx' g (by simp)
        have := normal_each _ h3 g (by simp)
        omega
      · exact ih h3 x hx' r hr'

/-- on a compacted range list below `SLOT_NUM` the bitmap window loses nothing -/
theorem covers_rangeMapContains {rl : RangeList} {s : Nat} (hn : NormalRanges rl)
    (hb : ∀ r ∈ rl, r.2 < SLOT_NUM) (h : covers rl s = true) : rangeMapContains rl s = true := by
  unfold covers at h
  obtain ⟨r, hr, hrs⟩ := List.any_eq_true.mp h
  simp only [Bool.and_eq_true, decide_eq_true_eq] at hrs
  cases rl with
  | nil => cases hr
  | cons f rest =>
    obtain ⟨x, hx⟩ : ∃ x, (f :: rest).getLast? = some x := ⟨_, List.getLast?_eq_some_getLast (by simp)⟩
    have hxm : x ∈ f :: rest := List.mem_of_getLast? hx
    have h1 := normal_head_le rest f hn r hr
    have h2 := normal_le_last _ hn x hx r hr
    have h3 := normal_each _ hn f (by simp)
    have h4 := hb f (by simp)
    have h5 := hb x hxm
    unfold rangeMapContains
    simp only [List.head?_cons, hx]
    have hc : ¬ (f.1 ≥ SLOT_NUM ∨ x.2 ≥ SLOT_NUM) := by omega
    simp only [ge_iff_le, Bool.or_eq_true, decide_eq_true_eq, hc, if_false, Bool.and_eq_true]
    refine ⟨⟨by omega, by omega⟩, ?_⟩
    exact h

/-! ## one synced proxy -/

/-- pending ranges of the view are compacted, non-wrapping and below `SLOT_NUM` (C01 `SlotInv`) -/
def PendingNormal (v : VCluster) : Prop :=
  ∀ n ∈ v.nodes, ∀ sr ∈ n.slots, SlotRange.tagged sr = true →
    NormalRanges sr.ranges ∧ ∀ r ∈ sr.ranges, r.2 < SLOT_NUM

/-- proxy `a` of view `v` serves what the wire delivered of its own current view -/
structure SyncedProxy (cfg : RouteCfg) (v : VCluster) (a : String) (p : ProxyState) : Prop where
  /-- which encoding was used and what the proxy parsed -/
  wire : ∃ c m', WireFaithful (encodeFor c (proxyOfView a v)) m' ∧ Installed cfg m' p

section OneProxy
variable {cfg : RouteCfg} {v : VCluster} {a : String} {p : ProxyState} {c : Bool} {m' : EMeta}

theorem lists_loc (hA : AddrOk v) (hw : WireFaithful (encodeFor c (proxyOfView a v)) m') (x : String) (s : Nat) :
    Lists m'.loc x s ↔ ∃ n sr, Cov v s n sr ∧ n.proxy = a ∧ n.address = x := by
  unfold Lists
  constructor
  · rintro ⟨sr, hr, hc⟩
    obtain ⟨n, h1, h2, h3, h4, h5⟩ := (hasRange_encodeFor_loc c v a hA x sr).mp ((hw.hasRange_loc x sr).mp hr)
    exact ⟨n, sr, ⟨h1, h3, h5, hc⟩, h2, h4⟩
  · rintro ⟨n, sr, hc, h2, h4⟩
    exact ⟨sr, (hw.hasRange_loc x sr).mpr ((hasRange_encodeFor_loc c v a hA x sr).mpr
      ⟨n, hc.node, h2, hc.master, h4, hc.range⟩), hc.covers⟩

theorem lists_peer (hA : AddrOk v) (hw : WireFaithful (encodeFor c (proxyOfView a v)) m') (b : String) (s : Nat) :
    Lists m'.peer b s ↔ b ≠ a ∧ ∃ n sr, Cov v s n sr ∧ n.proxy = b := by
  unfold Lists
  constructor
  · rintro ⟨sr, hr, hc⟩
    obtain ⟨hba, n, h1, h2, h3, h5⟩ := (hasRange_encodeFor_peer c v a hA b sr).mp ((hw.hasRange_peer b sr).mp hr)
    exact ⟨hba, n, sr, ⟨h1, h3, h5, hc⟩, h2⟩
  · rintro ⟨hba, n, sr, hc, h2⟩
    exact ⟨sr, (hw.hasRange_peer b sr).mpr ((hasRange_encodeFor_peer c v a hA b sr).mpr
      ⟨hba, n, hc.node, h2, hc.master, hc.range⟩), hc.covers⟩

theorem mem_taggedKeys (cluster : String) (M : SNodeMap) (k : TaskKey) :
    k ∈ taggedKeys cluster M ↔ k.cluster = cluster ∧ SlotRange.tagged k.range = true ∧ ∃ x, HasRange M x k.range := by
  unfold taggedKeys HasRange
  simp only [List.mem_flatMap, List.mem_map, List.mem_filter]
  constructor
  · rintro ⟨e, he, sr, ⟨hs, ht⟩, rfl⟩
    exact ⟨rfl, ht, e.1, e.2, he, hs⟩
  · rintro ⟨h1, h2, x, srs, hm, hs⟩
    refine ⟨(x, srs), hm, k.range, ⟨hs, h2⟩, ?_⟩
    cases k; simp only at h1; subst h1; rfl

/-- a task of the proxy that contains `s` is a pending range of a master on this proxy -/
theorem task_cov (hA : AddrOk v) (hw : WireFaithful (encodeFor c (proxyOfView a v)) m') (hi : Installed cfg m' p)
    {t : Task} (ht : t ∈ p.tasks) {s : Nat} (hc : t.containsSlot s = true) :
    t.key.cluster = v.name ∧ SlotRange.tagged t.key.range = true ∧ ∃ n, Cov v s n t.key.range ∧ n.proxy = a := by
  have hk := (hi.keys_mem t.key).mp (List.mem_map.mpr ⟨t, ht, rfl⟩)
  obtain ⟨h1, h2, x, hr⟩ := (mem_taggedKeys _ _ _).mp hk
  obtain ⟨n, n1, n2, n3, _, n5⟩ := (hasRange_encodeFor_loc c v a hA x _).mp ((hw.hasRange_loc x _).mp hr)
  refine ⟨by rw [h1, hw.cluster]; rfl, h2, n, ⟨n1, n3, n5, ?_⟩, n2⟩
  exact (covers_iff_mem _ _).mp (rangeMapContains_covers hc)

/-- a pending range of a master on this proxy that covers `s` has a task that contains `s` -/
theorem cov_task (hA : AddrOk v) (hN : PendingNormal v) (hw : WireFaithful (encodeFor c (proxyOfView a v)) m')
    (hi : Installed cfg m' p) {n : VNode} {sr : SlotRange} {s : Nat} (hc : Cov v s n sr) (hp : n.proxy = a)
    (ht : SlotRange.tagged sr = true) :
    ∃ t ∈ p.tasks, t.key = ⟨v.name, sr⟩ ∧ t.containsSlot s = true := by
  have hk : (⟨v.name, sr⟩ : TaskKey) ∈ taggedKeys m'.cluster m'.loc := by
    rw [mem_taggedKeys]
    refine ⟨by rw [hw.cluster]; rfl, ht, n.address, ?_⟩
    exact (hw.hasRange_loc _ _).mpr ((hasRange_encodeFor_loc c v a hA _ _).mpr
      ⟨n, hc.node, hp, hc.master, rfl, hc.range⟩)
  obtain ⟨t, htm, hte⟩ := List.mem_map.mp ((hi.keys_mem _).mpr hk)
  refine ⟨t, htm, hte, ?_⟩
  unfold Task.containsSlot
  rw [hte]
  obtain ⟨hn1, hn2⟩ := hN n hc.node sr hc.range ht
  exact covers_rangeMapContains hn1 hn2 ((covers_iff_mem _ _).mpr hc.covers)

theorem installed_name (hname : v.name ≠ "") (hw : WireFaithful (encodeFor c (proxyOfView a v)) m') :
    m'.cluster ≠ "" := by
  rw [hw.cluster]; exact hname

theorem migCluster_nonempty (hname : v.name ≠ "") (hw : WireFaithful (encodeFor c (proxyOfView a v)) m')
    (hi : Installed cfg m' p) : p.migCluster.isEmpty = false := by
  cases h : p.migCluster.isEmpty with
  | false => rfl
  | true =>
    have := String.isEmpty_iff.mp h
    rw [hi.migCluster_eq] at this
    exact absurd this (installed_name hname hw)

/-- the cluster-map half of `send_cmd_ctx` on an installed proxy, active redirection off -/
theorem routeSlot_installed (hname : v.name ≠ "") (har : cfg.activeRedirection = false)
    (hw : WireFaithful (encodeFor c (proxyOfView a v)) m') (hi : Installed cfg m' p) (s : Nat) :
    routeSlot p.cfg p.cm none (some s) =
      match lookup (rangesOfMap m'.loc) s with
      | some n => .exec n
      | none =>
        match lookup (rangesOfMap m'.peer) s with
        | some b => .moved s b
        | none => .errSlotNotCovered s := by
  rw [hi.cm_eq, hi.cfg_eq, Um.C09.routeSlot_install cfg m'.cluster _ _ none s (installed_name hname hw)]
  simp only [har, Bool.false_eq_true, if_false]
  rfl

/-- no task contains the slot: the migration map passes the command on -/
theorem migSend_none_of_no_task {s : Nat} (h : ∀ t ∈ p.tasks, t.containsSlot s = false) :
    migSend p none (some s) = none := by
  unfold migSend
  split
  · rfl
  · have : p.tasks.find? (fun t => t.containsSlot s) = none := by
      rw [List.find?_eq_none]
      intro t ht; rw [h t ht]; simp
    simp only [this]

/-- **stable slot, owner's proxy**: executed on (or queued for) the owner's node -/
theorem route_stable_owner (_hV : PartitionView v) (hA : AddrOk v) (hname : v.name ≠ "")
    (har : cfg.activeRedirection = false)
    (hw : WireFaithful (encodeFor c (proxyOfView a v)) m') (hi : Installed cfg m' p)
    {s : Nat} (hs : s < SLOT_NUM) (hp : ¬ PendingAt v s) {n₀ : VNode} {sr₀ : SlotRange}
    (hc₀ : Cov v s n₀ sr₀) (honly : ∀ n sr, Cov v s n sr → n = n₀ ∧ sr = sr₀) (hpa : n₀.proxy = a) :
    routeWithMigration p none (some s) = Outcome.ofRoute p.blocking (.exec n₀.address) := by
  have hnot : ∀ t ∈ p.tasks, t.containsSlot s = false := by
    intro t ht
    cases hcs : t.containsSlot s with
    | false => rfl
    | true =>
      obtain ⟨_, htag, n, hcov, _⟩ := task_cov hA hw hi ht hcs
      exact absurd ⟨n, hcov.node, _, hcov.range, htag, hcov.covers⟩ hp
  unfold routeWithMigration
  rw [migSend_none_of_no_task hnot, routeSlot_installed hname har hw hi s]
  have hl : lookup (rangesOfMap m'.loc) s = some n₀.address := by
    apply lookup_rangesOfMap_unique hs
    · exact (lists_loc hA hw _ _).mpr ⟨n₀, sr₀, hc₀, hpa, rfl⟩
    · intro y hy
      obtain ⟨n, sr, hcn, _, hy'⟩ := (lists_loc hA hw _ _).mp hy
      rw [← hy', (honly n sr hcn).1]
  simp only [hl]

/-- **stable slot, any other proxy**: `MOVED` to the owner's proxy -/
theorem route_stable_other (_hV : PartitionView v) (hA : AddrOk v) (hname : v.name ≠ "")
    (har : cfg.activeRedirection = false)
    (hw : WireFaithful (encodeFor c (proxyOfView a v)) m') (hi : Installed cfg m' p)
    {s : Nat} (hs : s < SLOT_NUM) (hp : ¬ PendingAt v s) {n₀ : VNode} {sr₀ : SlotRange}
    (hc₀ : Cov v s n₀ sr₀) (honly : ∀ n sr, Cov v s n sr → n = n₀ ∧ sr = sr₀) (hpa : n₀.proxy ≠ a) :
    routeWithMigration p none (some s) = .moved s n₀.proxy := by
  have hnot : ∀ t ∈ p.tasks, t.containsSlot s = false := by
    intro t ht
    cases hcs : t.containsSlot s with
    | false => rfl
    | true =>
      obtain ⟨_, htag, n, hcov, _⟩ := task_cov hA hw hi ht hcs
      exact absurd ⟨n, hcov.node, _, hcov.range, htag, hcov.covers⟩ hp
  unfold routeWithMigration
  rw [migSend_none_of_no_task hnot, routeSlot_installed hname har hw hi s]
  have hl : lookup (rangesOfMap m'.loc) s = none := by
    apply lookup_rangesOfMap_none
    intro y hy
    obtain ⟨n, sr, hcn, hna, _⟩ := (lists_loc hA hw _ _).mp hy
    rw [(honly n sr hcn).1] at hna
    exact hpa hna
  have hq : lookup (rangesOfMap m'.peer) s = some n₀.proxy := by
    apply lookup_rangesOfMap_unique hs
    · exact (lists_peer hA hw _ _).mpr ⟨hpa, n₀, sr₀, hc₀, rfl⟩
    · intro y hy
      obtain ⟨_, n, sr, hcn, hy'⟩ := (lists_peer hA hw _ _).mp hy
      rw [← hy', (honly n sr hcn).1]
  simp only [hl, hq]
  rfl

/-! ### slot under migration -/

variable {s : Nat} {nS nD : VNode} {srM srI : SlotRange} {info : MigInfo}

theorem tagged_of_migrating {sr : SlotRange} {i : MigInfo} (h : sr.tag = Tag.migrating i) : SlotRange.tagged sr = true := by
  unfold SlotRange.tagged; rw [h]

theorem tagged_of_importing {sr : SlotRange} {i : MigInfo} (h : sr.tag = Tag.importing i) : SlotRange.tagged sr = true := by
  unfold SlotRange.tagged; rw [h]

/-- **source proxy**: falls through to the source node before `Scanning`, redirects to the
destination proxy from `Scanning` on -/
theorem route_src (hA : AddrOk v) (hN : PendingNormal v) (hname : v.name ≠ "")
    (har : cfg.activeRedirection = false)
    (hw : WireFaithful (encodeFor c (proxyOfView a v)) m') (hi : Installed cfg m' p)
    (hs : s < SLOT_NUM) (hm : MigCov v s nS srM info nD srI) (hd : info.srcProxy ≠ info.dstProxy)
    (ha : a = info.srcProxy) :
    ∃ st, stateOf p ⟨v.name, srM⟩ = some st ∧
      routeWithMigration p none (some s) =
        match st with
        | .preCheck | .preBlocking | .preSwitch => Outcome.ofRoute p.blocking (.exec info.srcNode)
        | _ => .moved s info.dstProxy := by
  have hSa : nS.proxy = a := by rw [ha, hm.srcProxy]
  have hDa : nD.proxy ≠ a := by rw [hm.dstProxy, ha]; exact fun e => hd e.symm
  obtain ⟨t0, ht0, hk0, hc0⟩ := cov_task hA hN hw hi hm.src hSa (tagged_of_migrating hm.srcTag)
  have hall : ∀ t ∈ p.tasks, t.containsSlot s = true → t.key = ⟨v.name, srM⟩ := by
    intro t ht hcs
    obtain ⟨h1, _, n, hcov, hna⟩ := task_cov hA hw hi ht hcs
    rcases hm.only n _ hcov with ⟨_, e⟩ | ⟨e, _⟩
    · cases hk : t.key with
      | mk cl rg => rw [hk] at h1 e; simp only at h1 e; rw [h1, e]
    · rw [e] at hna; exact absurd hna hDa
  obtain ⟨t, hf, hk, hst⟩ := find_task hi.keys_nodup (fun t => t.containsSlot s) ⟨v.name, srM⟩ ⟨t0, ht0, hc0⟩ hall
  refine ⟨t.state, hst, ?_⟩
  have htag : t.key.range.tag = Tag.migrating info := by rw [hk]; exact hm.srcTag
  have hme : p.migEmpty = false := by
    rw [hi.migEmpty_eq]
    cases hts : p.tasks with
    | nil => rw [hts] at ht0; cases ht0
    | cons _ _ => rfl
  have hloc : lookup (rangesOfMap m'.loc) s = some info.srcNode := by
    apply lookup_rangesOfMap_unique hs
    · exact (lists_loc hA hw _ _).mpr ⟨nS, srM, hm.src, hSa, hm.srcNode.symm⟩
    · intro y hy
      obtain ⟨n, sr, hcn, hna, hy'⟩ := (lists_loc hA hw _ _).mp hy
      rcases hm.only n sr hcn with ⟨e, _⟩ | ⟨e, _⟩
      · rw [← hy', e, hm.srcNode]
      · rw [e] at hna; exact absurd hna hDa
  have hrs := routeSlot_installed hname har hw hi s
  rw [hloc] at hrs
  simp only at hrs
  unfold routeWithMigration migSend
  simp only [hme, migCluster_nonempty hname hw hi, Bool.or_self, Bool.false_eq_true, if_false, hf, htag]
  cases hstate : t.state
  · simp only [hrs]
  · simp only [hrs]
  · simp only [hrs]
  · simp only [handleRedirection, hi.cfg_eq, har, Bool.false_eq_true, if_false]
  · simp only [handleRedirection, hi.cfg_eq, har, Bool.false_eq_true, if_false]
  · simp only [handleRedirection, hi.cfg_eq, har, Bool.false_eq_true, if_false]

/-- **destination proxy**: redirects to the source proxy in `PreCheck`, serves from the
destination node afterwards -/
theorem route_dst (hA : AddrOk v) (hN : PendingNormal v) (hname : v.name ≠ "")
    (har : cfg.activeRedirection = false)
    (hw : WireFaithful (encodeFor c (proxyOfView a v)) m') (hi : Installed cfg m' p)
    (_hs : s < SLOT_NUM) (hm : MigCov v s nS srM info nD srI) (hd : info.srcProxy ≠ info.dstProxy)
    (ha : a = info.dstProxy) :
    ∃ st, stateOf p ⟨v.name, srI⟩ = some st ∧
      routeWithMigration p none (some s) =
        if st = .preCheck then .moved s info.srcProxy else .exec info.dstNode := by
  have hDa : nD.proxy = a := by rw [ha, hm.dstProxy]
  have hSa : nS.proxy ≠ a := by rw [← hm.srcProxy, ha]; exact hd
  obtain ⟨t0, ht0, hk0, hc0⟩ := cov_task hA hN hw hi hm.dst hDa (tagged_of_importing hm.dstTag)
  have hall : ∀ t ∈ p.tasks, t.containsSlot s = true → t.key = ⟨v.name, srI⟩ := by
    intro t ht hcs
    obtain ⟨h1, _, n, hcov, hna⟩ := task_cov hA hw hi ht hcs
    rcases hm.only n _ hcov with ⟨e, _⟩ | ⟨_, e⟩
    · rw [e] at hna; exact absurd hna hSa
    · cases hk : t.key with
      | mk cl rg => rw [hk] at h1 e; simp only at h1 e; rw [h1, e]
  obtain ⟨t, hf, hk, hst⟩ := find_task hi.keys_nodup (fun t => t.containsSlot s) ⟨v.name, srI⟩ ⟨t0, ht0, hc0⟩ hall
  refine ⟨t.state, hst, ?_⟩
  have htag : t.key.range.tag = Tag.importing info := by rw [hk]; exact hm.dstTag
  have hme : p.migEmpty = false := by
    rw [hi.migEmpty_eq]
    cases hts : p.tasks with
    | nil => rw [hts] at ht0; cases ht0
    | cons _ _ => rfl
  unfold routeWithMigration migSend
  simp only [hme, migCluster_nonempty hname hw hi, Bool.or_self, Bool.false_eq_true, if_false, hf, htag]
  by_cases hpc : t.state = .preCheck
  · simp only [hpc, beq_self_eq_true, if_true, handleRedirection, hi.cfg_eq, har, Bool.false_eq_true, if_false]
  · have : (t.state == MigState.preCheck) = false := by
      cases hb : (t.state == MigState.preCheck) with
      | false => rfl
      | true => exact absurd (beq_iff_eq.mp hb) hpc
    simp only [this, Bool.false_eq_true, if_false, hpc]

/-- **bystander**: `MOVED` to the source or to the destination proxy (whichever the peer slot map
resolved the overlap to) -/
theorem route_bystander (hA : AddrOk v) (hname : v.name ≠ "")
    (har : cfg.activeRedirection = false)
    (hw : WireFaithful (encodeFor c (proxyOfView a v)) m') (hi : Installed cfg m' p)
    (hs : s < SLOT_NUM) (hm : MigCov v s nS srM info nD srI)
    (ha1 : a ≠ info.srcProxy) (ha2 : a ≠ info.dstProxy) :
    routeWithMigration p none (some s) = .moved s info.srcProxy ∨
      routeWithMigration p none (some s) = .moved s info.dstProxy := by
  have hSa : nS.proxy ≠ a := by rw [← hm.srcProxy]; exact fun e => ha1 e.symm
  have hDa : nD.proxy ≠ a := by rw [hm.dstProxy]; exact fun e => ha2 e.symm
  have hnot : ∀ t ∈ p.tasks, t.containsSlot s = false := by
    intro t ht
    cases hcs : t.containsSlot s with
    | false => rfl
    | true =>
      obtain ⟨_, _, n, hcov, hna⟩ := task_cov hA hw hi ht hcs
      rcases hm.only n _ hcov with ⟨e, _⟩ | ⟨e, _⟩
      · rw [e] at hna; exact absurd hna hSa
      · rw [e] at hna; exact absurd hna hDa
  have hl : lookup (rangesOfMap m'.loc) s = none := by
    apply lookup_rangesOfMap_none
    intro y hy
    obtain ⟨n, sr, hcn, hna, _⟩ := (lists_loc hA hw _ _).mp hy
    rcases hm.only n sr hcn with ⟨e, _⟩ | ⟨e, _⟩
    · rw [e] at hna; exact hSa hna
    · rw [e] at hna; exact hDa hna
  unfold routeWithMigration
  rw [migSend_none_of_no_task hnot, routeSlot_installed hname har hw hi s]
  simp only [hl]
  cases hq : lookup (rangesOfMap m'.peer) s with
  | none =>
    exfalso
    rcases lookup_none hq with h' | h'
    · exact absurd hs (Nat.not_lt.mpr h')
    · have hex := (lists_iff m'.peer nS.proxy s).mpr ((lists_peer hA hw _ _).mpr ⟨hSa, nS, srM, hm.src, rfl⟩)
      obtain ⟨rs, hmem, hcv⟩ := hex
      have := h' _ hmem
      rw [hcv] at this; cases this
  | some b =>
    obtain ⟨_, n, sr, hcn, hb⟩ := (lists_peer hA hw _ _).mp (lookup_rangesOfMap_some hq)
    rcases hm.only n sr hcn with ⟨e, _⟩ | ⟨e, _⟩
    · left; simp only [Outcome.ofRoute]; rw [← hb, e, hm.srcProxy]
    · right; simp only [Outcome.ofRoute]; rw [← hb, e, hm.dstProxy]

end OneProxy

end Um.E2E
