import UmProofs.ProtoRt
/-!
`NodeMap::to_args` / `NodeMap::parse`: round trip, invariant of whatever is accepted, fuel.
-/
namespace Um.Proto
open Um Um.Gen.Proto

/-- where `NodeMap::parse` stops: end of input or a section word -/
def Stop (rest : List Str) : Prop := rest = [] ∨ ∃ t r, rest = t :: r ∧ isSectionWord t = true

/-- like `WfMap` without any condition on the shape of the range lists -/
def BdMap (nm : NodeMap) : Prop :=
  nm.keys.Nodup ∧ ∀ p ∈ nm, isSectionWord p.1 = false ∧ p.2 ≠ [] ∧ ∀ sr ∈ p.2, BdSR sr

instance (nm : NodeMap) : Decidable (BdMap nm) := by unfold BdMap; infer_instance

theorem WfMap.bd {nm : NodeMap} (h : WfMap nm) : BdMap nm :=
  ⟨h.1, fun p hp => ⟨(h.2 p hp).1, (h.2 p hp).2.1, fun sr hsr => ((h.2 p hp).2.2 sr hsr).bd⟩⟩

theorem WfMap.compacted {nm : NodeMap} (h : WfMap nm) : nm.compacted = nm := by
  unfold NodeMap.compacted
  have : ∀ p ∈ nm, (p.1, p.2.map SlotRange.compacted) = p := by
    intro p hp
    have : p.2.map SlotRange.compacted = p.2 := by
      rw [List.map_congr_left (fun sr hsr => ((h.2 p hp).2.2 sr hsr).compacted), List.map_id']
    rw [this]
  rw [List.map_congr_left this, List.map_id']

def flatGroups (nm : NodeMap) : List (Str × SlotRange) := nm.flatMap fun p => p.2.map fun sr => (p.1, sr)

def groupArgs (g : Str × SlotRange) : List Str := g.1 :: g.2.intoStrings

def pushG (acc : NodeMap) (g : Str × SlotRange) : NodeMap := NodeMap.push g.1 g.2 acc

theorem toArgs_eq (nm : NodeMap) : NodeMap.toArgs nm = (flatGroups nm).flatMap groupArgs := by
  unfold NodeMap.toArgs flatGroups
  induction nm with
  | nil => rfl
  | cons p rest ih =>
    obtain ⟨a, srs⟩ := p
    simp only [List.flatMap_cons, List.flatMap_append, ih]
    congr 1
    induction srs with
    | nil => rfl
    | cons s ss ih2 => simp [groupArgs, ih2]

theorem groupArgs_length (g : Str × SlotRange) : 1 ≤ (groupArgs g).length := by simp [groupArgs]

theorem flatMap_groupArgs_length (gs : List (Str × SlotRange)) : gs.length ≤ (gs.flatMap groupArgs).length := by
  induction gs with
  | nil => simp
  | cons g gs ih => have := groupArgs_length g; simp only [List.flatMap_cons, List.length_append, List.length_cons]; omega

/-! ## fuel -/

theorem parseAux_stop (f : Nat) (acc : NodeMap) (rest : List Str) (h : Stop rest) :
    NodeMap.parseAux (f + 1) acc rest = .ok (acc, rest) := by
  rcases h with rfl | ⟨t, r, rfl, ht⟩
  · rfl
  · simp [NodeMap.parseAux, ht]

theorem parseAux_fuel : ∀ (f f' : Nat) (acc : NodeMap) (ts : List Str), ts.length < f → ts.length < f' →
    NodeMap.parseAux f acc ts = NodeMap.parseAux f' acc ts := by
  intro f
  induction f with
  | zero => intro f' acc ts h; omega
  | succ f ih =>
    intro f' acc ts h h'
    cases f' with
    | zero => omega
    | succ f' =>
      cases ts with
      | nil => rfl
      | cons t ts =>
        simp only [NodeMap.parseAux]
        split
        · rfl
        · cases hs : SlotRange.fromStrings ts with
          | none => rfl
          | some p =>
            obtain ⟨sr, rest⟩ := p
            have := (SlotRange.fromStrings_facts ts sr rest hs).1
            simp only [List.length_cons] at h h'
            exact ih f' _ rest (by omega) (by omega)

/-- the recursion budget of the model is never what decides -/
theorem parseAux_ne_fuel : ∀ (f : Nat) (acc : NodeMap) (ts : List Str), ts.length < f →
    NodeMap.parseAux f acc ts ≠ .error .fuel := by
  intro f
  induction f with
  | zero => intro acc ts h; omega
  | succ f ih =>
    intro acc ts h
    cases ts with
    | nil => simp [NodeMap.parseAux]
    | cons t ts =>
      simp only [NodeMap.parseAux]
      split
      · simp
      · cases hs : SlotRange.fromStrings ts with
        | none => simp
        | some p =>
          obtain ⟨sr, rest⟩ := p
          have := (SlotRange.fromStrings_facts ts sr rest hs).1
          simp only [List.length_cons] at h
          exact ih _ rest (by omega)

/-! ## encoding then parsing -/

def compG (g : Str × SlotRange) : Str × SlotRange := (g.1, g.2.compacted)

theorem parseAux_groups : ∀ (gs : List (Str × SlotRange)) (acc : NodeMap) (rest : List Str) (f : Nat),
    (∀ g ∈ gs, isSectionWord g.1 = false ∧ BdSR g.2) → gs.length < f →
    NodeMap.parseAux f acc (gs.flatMap groupArgs ++ rest) =
      NodeMap.parseAux (f - gs.length) ((gs.map compG).foldl pushG acc) rest := by
  intro gs
  induction gs with
  | nil => intro acc rest f _ _; simp
  | cons g gs ih =>
    intro acc rest f hg hf
    cases f with
    | zero => simp at hf
    | succ f =>
      obtain ⟨h1, h2⟩ := hg g (List.mem_cons_self ..)
      simp only [List.flatMap_cons, groupArgs, List.cons_append, List.append_assoc, NodeMap.parseAux, h1]
      have := SlotRange.rt_bd g.2 (gs.flatMap groupArgs ++ rest) h2
      rw [this]
      simp only [Bool.false_eq_true, if_false, List.map_cons, List.foldl_cons, List.length_cons]
      rw [ih _ rest f (fun g' hg' => hg g' (List.mem_cons_of_mem _ hg')) (by simp at hf; omega)]
      have : f + 1 - (gs.length + 1) = f - gs.length := by omega
      rw [this]; rfl

theorem flatGroups_compacted (nm : NodeMap) : flatGroups nm.compacted = (flatGroups nm).map compG := by
  unfold flatGroups NodeMap.compacted
  induction nm with
  | nil => rfl
  | cons p rest ih =>
    simp only [List.map_cons, List.flatMap_cons, List.map_append, ih]
    congr 1
    simp [List.map_map, compG, Function.comp_def]

theorem keys_compacted (nm : NodeMap) : nm.compacted.keys = nm.keys := by
  simp [NodeMap.compacted, NodeMap.keys, List.map_map, Function.comp_def]

theorem push_not_mem (a : Str) (sr : SlotRange) (acc : NodeMap) (h : a ∉ acc.keys) :
    NodeMap.push a sr acc = acc ++ [(a, [sr])] := by
  induction acc with
  | nil => rfl
  | cons p rest ih =>
    obtain ⟨b, l⟩ := p
    have hb : (b == a) = false := by
      simp only [beq_eq_false_iff_ne, ne_eq]
      intro hh; subst hh; exact h (by simp [NodeMap.keys])
    have hr : a ∉ NodeMap.keys rest := fun hh => h (by simp [NodeMap.keys] at hh ⊢; exact Or.inr hh)
    simp [NodeMap.push, hb, ih hr]

theorem push_last (a : Str) (sr : SlotRange) (acc : NodeMap) (l : List SlotRange) (h : a ∉ acc.keys) :
    NodeMap.push a sr (acc ++ [(a, l)]) = acc ++ [(a, l ++ [sr])] := by
  induction acc with
  | nil => simp [NodeMap.push]
  | cons p rest ih =>
    obtain ⟨b, l'⟩ := p
    have hb : (b == a) = false := by
      simp only [beq_eq_false_iff_ne, ne_eq]
      intro hh; subst hh; exact h (by simp [NodeMap.keys])
    have hr : a ∉ NodeMap.keys rest := fun hh => h (by simp [NodeMap.keys] at hh ⊢; exact Or.inr hh)
    simp [NodeMap.push, hb, ih hr]

theorem foldl_group (a : Str) (acc : NodeMap) (h : a ∉ acc.keys) : ∀ (srs l : List SlotRange),
    (srs.map fun sr => (a, sr)).foldl pushG (acc ++ [(a, l)]) = acc ++ [(a, l ++ srs)] := by
  intro srs
  induction srs with
  | nil => intro l; simp
  | cons s ss ih =>
    intro l
    simp only [List.map_cons, List.foldl_cons, pushG]
    rw [push_last a s acc l h, ih (l ++ [s])]
    simp

theorem foldl_all : ∀ (nm acc : NodeMap), (acc ++ nm).keys.Nodup → (∀ p ∈ nm, p.2 ≠ []) →
    (flatGroups nm).foldl pushG acc = acc ++ nm := by
  intro nm
  induction nm with
  | nil => intro acc _ _; simp [flatGroups]
  | cons p rest ih =>
    intro acc hnd hne
    obtain ⟨a, srs⟩ := p
    have ha : a ∉ acc.keys := by
      simp only [NodeMap.keys, List.map_append, List.map_cons] at hnd ⊢
      rw [List.nodup_append] at hnd
      intro hh
      exact hnd.2.2 a hh a (List.mem_cons_self ..) rfl
    cases srs with
    | nil => exact absurd rfl (hne (a, []) (List.mem_cons_self ..))
    | cons s ss =>
      simp only [flatGroups, List.flatMap_cons, List.map_cons, List.foldl_append, List.foldl_cons, pushG]
      rw [push_not_mem a s acc ha]
      have := foldl_group a acc ha ss [s]
      rw [this]
      have h2 := ih (acc ++ [(a, s :: ss)]) (by simpa using hnd) (fun p hp => hne p (List.mem_cons_of_mem _ hp))
      simp only [flatGroups, List.cons_append, List.nil_append] at h2 ⊢
      rw [h2]; simp

theorem flatGroups_wf (nm : NodeMap) (h : BdMap nm) : ∀ g ∈ flatGroups nm, isSectionWord g.1 = false ∧ BdSR g.2 := by
  intro g hg
  simp only [flatGroups, List.mem_flatMap, List.mem_map] at hg
  obtain ⟨p, hp, sr, hsr, rfl⟩ := hg
  have := h.2 p hp
  exact ⟨this.1, this.2.2 sr hsr⟩

/-- **node map, any range lists**: the groups of a map, followed by the end of the input or a
section word, parse back to the same association list (same order) with every list compacted -/
theorem NodeMap.parse_rt_bd (nm : NodeMap) (rest : List Str) (h : BdMap nm) (hs : Stop rest) :
    NodeMap.parse (NodeMap.toArgs nm ++ rest) = .ok (nm.compacted, rest) := by
  unfold NodeMap.parse
  rw [toArgs_eq]
  have hlen := flatMap_groupArgs_length (flatGroups nm)
  rw [parseAux_groups (flatGroups nm) [] rest _ (flatGroups_wf nm h) (by simp only [List.length_append]; omega)]
  rw [← flatGroups_compacted, foldl_all nm.compacted [] (by simpa [keys_compacted] using h.1)
    (fun p hp => by
      simp only [NodeMap.compacted, List.mem_map] at hp
      obtain ⟨q, hq, rfl⟩ := hp
      have := (h.2 q hq).2.1
      simpa using this)]
  have : ((flatGroups nm).flatMap groupArgs ++ rest).length + 1 - (flatGroups nm).length =
      (((flatGroups nm).flatMap groupArgs ++ rest).length - (flatGroups nm).length) + 1 := by
    simp only [List.length_append]; omega
  rw [this, parseAux_stop _ _ rest hs]
  rfl

/-- **node map round trip** -/
theorem NodeMap.parse_rt (nm : NodeMap) (rest : List Str) (h : WfMap nm) (hs : Stop rest) :
    NodeMap.parse (NodeMap.toArgs nm ++ rest) = .ok (nm, rest) := by
  rw [NodeMap.parse_rt_bd nm rest h.bd hs, h.compacted]

/-- **truncation inside a group is rejected** -/
theorem NodeMap.parse_truncated (nm : NodeMap) (a : Str) (sr : SlotRange) (k : Nat) (h : WfMap nm)
    (ha : isSectionWord a = false) (hsr : WfSR sr) (hk : k < sr.intoStrings.length) :
    NodeMap.parse (NodeMap.toArgs nm ++ a :: sr.intoStrings.take k) = .error .invalidArgs := by
  unfold NodeMap.parse
  rw [toArgs_eq]
  have hlen := flatMap_groupArgs_length (flatGroups nm)
  rw [parseAux_groups (flatGroups nm) [] _ _ (flatGroups_wf nm h.bd) (by simp only [List.length_append]; omega)]
  have : ((flatGroups nm).flatMap groupArgs ++ a :: sr.intoStrings.take k).length + 1 - (flatGroups nm).length =
      (((flatGroups nm).flatMap groupArgs ++ a :: sr.intoStrings.take k).length - (flatGroups nm).length) + 1 := by
    simp only [List.length_append]; omega
  rw [this]
  simp [NodeMap.parseAux, ha, SlotRange.reject_truncated sr hsr k hk]

/-! ## whatever is accepted is well-formed -/

theorem keys_push (a : Str) (sr : SlotRange) (acc : NodeMap) :
    ∀ x ∈ (NodeMap.push a sr acc).keys, x = a ∨ x ∈ acc.keys := by
  induction acc with
  | nil => intro x hx; simp [NodeMap.push, NodeMap.keys] at hx; exact Or.inl hx
  | cons p rest ih =>
    obtain ⟨b, l⟩ := p
    intro x hx
    simp only [NodeMap.push] at hx
    split at hx
    · right; simpa [NodeMap.keys] using hx
    · simp only [NodeMap.keys, List.map_cons, List.mem_cons] at hx ⊢
      rcases hx with rfl | hx
      · exact Or.inr (Or.inl rfl)
      · rcases ih x hx with rfl | h
        · exact Or.inl rfl
        · exact Or.inr (Or.inr h)

theorem push_wf (a : Str) (sr : SlotRange) (acc : NodeMap) (h : WfMap acc) (ha : isSectionWord a = false)
    (hsr : WfSR sr) : WfMap (NodeMap.push a sr acc) := by
  induction acc with
  | nil =>
    refine ⟨by simp [NodeMap.push, NodeMap.keys], ?_⟩
    intro p hp
    simp only [NodeMap.push, List.mem_singleton] at hp
    subst hp
    exact ⟨ha, by simp, by intro s hs; simp at hs; subst hs; exact hsr⟩
  | cons p rest ih =>
    obtain ⟨b, l⟩ := p
    have hrest : WfMap rest := by
      refine ⟨?_, fun p hp => h.2 p (List.mem_cons_of_mem _ hp)⟩
      have := h.1
      simp only [NodeMap.keys, List.map_cons, List.nodup_cons] at this
      exact this.2
    have hb := h.2 (b, l) (List.mem_cons_self ..)
    simp only [NodeMap.push]
    split
    · rename_i heq
      refine ⟨by simpa [NodeMap.keys] using h.1, ?_⟩
      intro p hp
      rcases List.mem_cons.mp hp with rfl | hp
      · refine ⟨hb.1, by simp, ?_⟩
        intro s hs
        rcases List.mem_append.mp hs with hs | hs
        · exact hb.2.2 s hs
        · simp at hs; subst hs; exact hsr
      · exact h.2 p (List.mem_cons_of_mem _ hp)
    · rename_i hne
      have ih' := ih hrest
      refine ⟨?_, ?_⟩
      · simp only [NodeMap.keys, List.map_cons, List.nodup_cons]
        refine ⟨?_, ih'.1⟩
        intro hmem
        rcases keys_push a sr rest b hmem with rfl | hm
        · simp at hne
        · have := h.1
          simp only [NodeMap.keys, List.map_cons, List.nodup_cons] at this
          exact this.1 hm
      · intro p hp
        rcases List.mem_cons.mp hp with rfl | hp
        · exact hb
        · exact ih'.2 p hp

theorem parseAux_wf : ∀ (f : Nat) (acc : NodeMap) (ts : List Str) (nm : NodeMap) (rest : List Str),
    WfMap acc → NodeMap.parseAux f acc ts = .ok (nm, rest) → WfMap nm ∧ Stop rest ∧ rest.length ≤ ts.length := by
  intro f
  induction f with
  | zero => intro acc ts nm rest _ h; simp [NodeMap.parseAux] at h
  | succ f ih =>
    intro acc ts nm rest hacc h
    cases ts with
    | nil =>
      simp only [NodeMap.parseAux, Except.ok.injEq, Prod.mk.injEq] at h
      obtain ⟨rfl, rfl⟩ := h
      exact ⟨hacc, Or.inl rfl, Nat.le_refl _⟩
    | cons t ts =>
      simp only [NodeMap.parseAux] at h
      split at h
      · rename_i ht
        simp only [Except.ok.injEq, Prod.mk.injEq] at h
        obtain ⟨rfl, rfl⟩ := h
        exact ⟨hacc, Or.inr ⟨t, ts, rfl, ht⟩, Nat.le_refl _⟩
      · rename_i ht
        cases hs : SlotRange.fromStrings ts with
        | none => simp [hs] at h
        | some p =>
          obtain ⟨sr, r1⟩ := p
          simp only [hs] at h
          have hf := SlotRange.fromStrings_facts ts sr r1 hs
          have := ih _ r1 nm rest (push_wf t sr acc hacc (by simpa using ht) hf.2) h
          exact ⟨this.1, this.2.1, by simp only [List.length_cons]; omega⟩

theorem wfMap_nil : WfMap [] := ⟨by simp [NodeMap.keys], by intro p hp; cases hp⟩

theorem NodeMap.parse_wf (ts : List Str) (nm : NodeMap) (rest : List Str) (h : NodeMap.parse ts = .ok (nm, rest)) :
    WfMap nm ∧ Stop rest ∧ rest.length ≤ ts.length :=
  parseAux_wf _ [] ts nm rest wfMap_nil h

theorem NodeMap.parse_ne_fuel (ts : List Str) : NodeMap.parse ts ≠ .error .fuel :=
  parseAux_ne_fuel _ [] ts (Nat.lt_succ_self _)

end Um.Proto
