import UmProofs.ProtoMap
/-!
Config section, the section loop and `ProxyClusterMeta::{to_args, parse}` as a whole.
-/
namespace Um.Proto
open Um Um.Gen.Proto

/-! ## config fields -/

theorem comp_rt (k : Compression) : Compression.fromStr k.toStr = some k := by
  cases k <;> decide

theorem setField_comp (c' : Config) (k : Compression) :
    c'.setField CFG_COMPRESSION k.toStr = some { c' with comp := k } := by
  unfold Config.setField
  simp only [show (lowerA CFG_COMPRESSION == CFG_COMPRESSION) = true from by decide, if_true, comp_rt,
    Option.map_some]

theorem setField_mmt (c' : Config) (v : Str) :
    c'.setField CFG_MAX_MIGRATION_TIME v = (parseUnsigned v).map fun n => { c' with maxMigrationTime := n } := by
  unfold Config.setField
  simp only [show (lowerA CFG_MAX_MIGRATION_TIME == CFG_COMPRESSION) = false from by decide,
    show isPrefix CFG_MIGRATION_PREFIX (lowerA CFG_MAX_MIGRATION_TIME) = true from by decide,
    show splitOnce 95 (lowerA CFG_MAX_MIGRATION_TIME) = some ([109, 105, 103, 114, 97, 116, 105, 111, 110], MIG_MAX_MIGRATION_TIME) from by decide]
  unfold Config.setMigrationField
  simp only [show (lowerA MIG_MAX_MIGRATION_TIME == MIG_MAX_MIGRATION_TIME) = true from by decide]
  simp

theorem setField_mbt (c' : Config) (v : Str) :
    c'.setField CFG_MAX_BLOCKING_TIME v = (parseUnsigned v).map fun n => { c' with maxBlockingTime := n } := by
  unfold Config.setField
  simp only [show (lowerA CFG_MAX_BLOCKING_TIME == CFG_COMPRESSION) = false from by decide,
    show isPrefix CFG_MIGRATION_PREFIX (lowerA CFG_MAX_BLOCKING_TIME) = true from by decide,
    show splitOnce 95 (lowerA CFG_MAX_BLOCKING_TIME) = some ([109, 105, 103, 114, 97, 116, 105, 111, 110], MIG_MAX_BLOCKING_TIME) from by decide]
  unfold Config.setMigrationField
  simp only [show (lowerA MIG_MAX_BLOCKING_TIME == MIG_MAX_MIGRATION_TIME) = false from by decide,
    show (lowerA MIG_MAX_BLOCKING_TIME == MIG_MAX_BLOCKING_TIME) = true from by decide]
  simp

theorem setField_si (c' : Config) (v : Str) :
    c'.setField CFG_SCAN_INTERVAL v = (parseUnsigned v).map fun n => { c' with scanInterval := n } := by
  unfold Config.setField
  simp only [show (lowerA CFG_SCAN_INTERVAL == CFG_COMPRESSION) = false from by decide,
    show isPrefix CFG_MIGRATION_PREFIX (lowerA CFG_SCAN_INTERVAL) = true from by decide,
    show splitOnce 95 (lowerA CFG_SCAN_INTERVAL) = some ([109, 105, 103, 114, 97, 116, 105, 111, 110], MIG_SCAN_INTERVAL) from by decide]
  unfold Config.setMigrationField
  simp only [show (lowerA MIG_SCAN_INTERVAL == MIG_MAX_MIGRATION_TIME) = false from by decide,
    show (lowerA MIG_SCAN_INTERVAL == MIG_MAX_BLOCKING_TIME) = false from by decide,
    show (lowerA MIG_SCAN_INTERVAL == MIG_SCAN_INTERVAL) = true from by decide]
  simp

theorem setField_sc (c' : Config) (v : Str) :
    c'.setField CFG_SCAN_COUNT v =
      match parseUnsigned v with
      | none => none
      | some n => if n == 0 then none else some { c' with scanCount := n } := by
  unfold Config.setField
  simp only [show (lowerA CFG_SCAN_COUNT == CFG_COMPRESSION) = false from by decide,
    show isPrefix CFG_MIGRATION_PREFIX (lowerA CFG_SCAN_COUNT) = true from by decide,
    show splitOnce 95 (lowerA CFG_SCAN_COUNT) = some ([109, 105, 103, 114, 97, 116, 105, 111, 110], MIG_SCAN_COUNT) from by decide]
  unfold Config.setMigrationField
  simp only [show (lowerA MIG_SCAN_COUNT == MIG_MAX_MIGRATION_TIME) = false from by decide,
    show (lowerA MIG_SCAN_COUNT == MIG_MAX_BLOCKING_TIME) = false from by decide,
    show (lowerA MIG_SCAN_COUNT == MIG_SCAN_INTERVAL) = false from by decide,
    show (lowerA MIG_SCAN_COUNT == MIG_SCAN_COUNT) = true from by decide]
  cases parseUnsigned v <;> simp

/-- copy field `f` of `c` into `c'` -/
def Config.copy (c c' : Config) : CfgField → Config
  | .comp => { c' with comp := c.comp }
  | .maxMigrationTime => { c' with maxMigrationTime := c.maxMigrationTime }
  | .maxBlockingTime => { c' with maxBlockingTime := c.maxBlockingTime }
  | .scanInterval => { c' with scanInterval := c.scanInterval }
  | .scanCount => { c' with scanCount := c.scanCount }

theorem fieldName_not_section (c : Config) (f : CfgField) :
    ∃ n v, c.fieldArgs f = [n, v] ∧ isSectionWord n = false := by
  cases f
  · exact ⟨_, _, rfl, by decide⟩
  · exact ⟨_, _, rfl, by decide⟩
  · exact ⟨_, _, rfl, by decide⟩
  · exact ⟨_, _, rfl, by decide⟩
  · exact ⟨_, _, rfl, by decide⟩

theorem setField_fieldArgs (c c' : Config) (h : WfCfg c) (f : CfgField) :
    ∃ n v, c.fieldArgs f = [n, v] ∧ isSectionWord n = false ∧ c'.setField n v = some (c.copy c' f) := by
  obtain ⟨h1, h2, h3, h4, h5⟩ := h
  cases f
  · exact ⟨_, _, rfl, by decide, setField_comp c' c.comp⟩
  · exact ⟨_, _, rfl, by decide, by rw [setField_mmt, parseUnsigned_decimal _ h1]; rfl⟩
  · exact ⟨_, _, rfl, by decide, by rw [setField_mbt, parseUnsigned_decimal _ h2]; rfl⟩
  · exact ⟨_, _, rfl, by decide, by rw [setField_si, parseUnsigned_decimal _ h3]; rfl⟩
  · refine ⟨_, _, rfl, by decide, ?_⟩
    rw [setField_sc, parseUnsigned_decimal _ h4]
    have : (c.scanCount == 0) = false := by simpa using h5
    simp only [this]; rfl

theorem Config.parseAux_cons (c' : Config) (n v : Str) (rest : List Str) (hn : isSectionWord n = false) :
    Config.parseAux c' (n :: v :: rest) =
      match c'.setField n v with
      | none => (none, rest)
      | some c'' => Config.parseAux c'' rest := by
  rw [Config.parseAux]
  cases c'.setField n v <;> simp [hn]

theorem Config.parseAux_toArgs (c : Config) (h : WfCfg c) : ∀ (order : List CfgField) (c' : Config) (rest : List Str),
    Config.parseAux c' (c.toArgs order ++ rest) = Config.parseAux (order.foldl (Config.copy c) c') rest := by
  intro order
  induction order with
  | nil => intro c' rest; rfl
  | cons f fs ih =>
    intro c' rest
    obtain ⟨n, v, h1, h2, h3⟩ := setField_fieldArgs c c' h f
    have : c.toArgs (f :: fs) ++ rest = n :: v :: (c.toArgs fs ++ rest) := by
      simp [Config.toArgs, h1]
    rw [this, Config.parseAux_cons c' n v _ h2, h3]
    exact ih _ rest

theorem foldl_copy (c : Config) : ∀ (order : List CfgField) (c' : Config),
    (order.foldl (Config.copy c) c').comp = (if CfgField.comp ∈ order then c.comp else c'.comp) ∧
    (order.foldl (Config.copy c) c').maxMigrationTime = (if CfgField.maxMigrationTime ∈ order then c.maxMigrationTime else c'.maxMigrationTime) ∧
    (order.foldl (Config.copy c) c').maxBlockingTime = (if CfgField.maxBlockingTime ∈ order then c.maxBlockingTime else c'.maxBlockingTime) ∧
    (order.foldl (Config.copy c) c').scanInterval = (if CfgField.scanInterval ∈ order then c.scanInterval else c'.scanInterval) ∧
    (order.foldl (Config.copy c) c').scanCount = (if CfgField.scanCount ∈ order then c.scanCount else c'.scanCount) := by
  intro order
  induction order with
  | nil => intro c'; simp
  | cons f fs ih =>
    intro c'
    have := ih (c.copy c' f)
    simp only [List.foldl_cons]
    obtain ⟨a1, a2, a3, a4, a5⟩ := this
    rw [a1, a2, a3, a4, a5]
    cases f <;> simp [Config.copy] <;> (repeat' constructor) <;> split <;> rfl

/-- every field present (any order, repetitions allowed): the shape of `to_str_map()` iteration -/
def OrderOk (order : List CfgField) : Prop := ∀ f, f ∈ order

instance (order : List CfgField) : Decidable (OrderOk order) :=
  decidable_of_iff (CfgField.all.all (order.contains ·) = true) (by
    unfold OrderOk
    simp only [CfgField.all, List.all_cons, List.all_nil, Bool.and_true, Bool.and_eq_true, List.contains_iff_mem]
    constructor
    · intro ⟨h1, h2, h3, h4, h5⟩ f; cases f <;> assumption
    · intro h; exact ⟨h _, h _, h _, h _, h _⟩)

theorem foldl_copy_all (c c' : Config) (order : List CfgField) (h : OrderOk order) :
    order.foldl (Config.copy c) c' = c := by
  obtain ⟨a1, a2, a3, a4, a5⟩ := foldl_copy c order c'
  simp only [h _, if_true] at a1 a2 a3 a4 a5
  cases hc : order.foldl (Config.copy c) c'
  cases c
  simp_all

/-- **config round trip** -/
theorem Config.parse_rt (c : Config) (order : List CfgField) (h : WfCfg c) (ho : OrderOk order) :
    Config.parse (c.toArgs order) = (some c, []) := by
  unfold Config.parse
  have := Config.parseAux_toArgs c h order Config.default []
  rw [List.append_nil] at this
  rw [this, foldl_copy_all c _ order ho]
  rfl

theorem toArgs_cfg_length (c : Config) (order : List CfgField) : (c.toArgs order).length = 2 * order.length := by
  induction order with
  | nil => rfl
  | cons f fs ih =>
    obtain ⟨n, v, h1, _⟩ := fieldName_not_section c f
    simp only [Config.toArgs, List.flatMap_cons, List.length_append, h1, List.length_cons, List.length_nil] at ih ⊢
    omega

/-! ## config: whatever is accepted is well-formed -/

theorem wfCfg_default : WfCfg Config.default := by decide

theorem setMigrationField_wf (c c' : Config) (f v : Str) (h : WfCfg c) (hs : c.setMigrationField f v = some c') :
    WfCfg c' := by
  obtain ⟨h1, h2, h3, h4, h5⟩ := h
  unfold Config.setMigrationField at hs
  simp only at hs
  split at hs
  · cases hp : parseUnsigned v <;> simp [hp] at hs
    subst hs; exact ⟨parseUnsigned_le hp, h2, h3, h4, h5⟩
  · split at hs
    · cases hp : parseUnsigned v <;> simp [hp] at hs
      subst hs; exact ⟨h1, parseUnsigned_le hp, h3, h4, h5⟩
    · split at hs
      · cases hp : parseUnsigned v <;> simp [hp] at hs
        subst hs; exact ⟨h1, h2, parseUnsigned_le hp, h4, h5⟩
      · split at hs
        · cases hp : parseUnsigned v with
          | none => simp [hp] at hs
          | some n =>
            simp only [hp] at hs
            split at hs
            · simp at hs
            · rename_i hz
              simp only [Option.some.injEq] at hs
              subst hs
              exact ⟨h1, h2, h3, parseUnsigned_le hp, by simpa using hz⟩
        · simp at hs

theorem setField_wf (c c' : Config) (f v : Str) (h : WfCfg c) (hs : c.setField f v = some c') : WfCfg c' := by
  unfold Config.setField at hs
  simp only at hs
  split at hs
  · cases hp : Compression.fromStr v <;> simp [hp] at hs
    subst hs; exact h
  · split at hs
    · split at hs
      · simp at hs
      · exact setMigrationField_wf c c' _ v h hs
    · simp at hs

theorem Config.parseAux_facts : ∀ (n : Nat) (ts : List Str) (c : Config) (r : Option Config) (rest : List Str),
    ts.length ≤ n → WfCfg c → Config.parseAux c ts = (r, rest) →
    rest.length ≤ ts.length ∧ ∀ c', r = some c' → WfCfg c' := by
  intro n
  induction n with
  | zero =>
    intro ts c r rest hl hc h
    cases ts with
    | nil => simp [Config.parseAux] at h; obtain ⟨rfl, rfl⟩ := h; exact ⟨Nat.le_refl _, by intro c' hh; cases hh; exact hc⟩
    | cons _ _ => simp at hl
  | succ n ih =>
    intro ts c r rest hl hc h
    match ts, h with
    | [], h => simp [Config.parseAux] at h; obtain ⟨rfl, rfl⟩ := h; exact ⟨Nat.le_refl _, by intro c' hh; cases hh; exact hc⟩
    | [f], h =>
      simp only [Config.parseAux] at h
      split at h
      · simp only [Prod.mk.injEq] at h; obtain ⟨rfl, rfl⟩ := h
        exact ⟨Nat.le_refl _, by intro c' hh; cases hh; exact hc⟩
      · simp only [Prod.mk.injEq] at h; obtain ⟨rfl, rfl⟩ := h
        exact ⟨by simp, by intro c' hh; cases hh⟩
    | f :: v :: ts', h =>
      simp only [Config.parseAux] at h
      split at h
      · simp only [Prod.mk.injEq] at h; obtain ⟨rfl, rfl⟩ := h
        exact ⟨Nat.le_refl _, by intro c' hh; cases hh; exact hc⟩
      · cases hs : c.setField f v with
        | none =>
          simp only [hs, Prod.mk.injEq] at h; obtain ⟨rfl, rfl⟩ := h
          exact ⟨by simp; omega, by intro c' hh; cases hh⟩
        | some c'' =>
          simp only [hs] at h
          have := ih ts' c'' r rest (by simp at hl; omega) (setField_wf c c'' f v hc hs) h
          exact ⟨by simp; omega, this.2⟩

end Um.Proto
