import UmModel.BrokerOps
/-!
# Shared definitions for the broker proofs (C01 C04 C06 C10 C12 C13)

`Reachable s` = `s` is `run ops` for some operation list (any choices, any `now`).
The invariant packages are *definitions only* here; each property's proof files show
`Inv Store.init` and `Inv s → Inv (step s op)` and lift with `reachable_induction`.
-/
namespace Um.Broker
open Um Um.Slots

/-- every state the broker can reach from the empty store by any operation sequence -/
inductive Reachable : Store → Prop where
  | init : Reachable Store.init
  | step {s : Store} (op : Op) : Reachable s → Reachable (step s op)

theorem run_snoc (ops : List Op) (op : Op) : run (ops ++ [op]) = step (run ops) op := by
  simp [run, List.foldl_append]

theorem reachable_foldl (s : Store) (h : Reachable s) (ops : List Op) : Reachable (ops.foldl step s) := by
  induction ops generalizing s with
  | nil => exact h
  | cons op ops ih => exact ih _ (Reachable.step op h)

theorem reachable_run (ops : List Op) : Reachable (run ops) := reachable_foldl _ Reachable.init ops

theorem reachable_iff_run (s : Store) : Reachable s ↔ ∃ ops, s = run ops := by
  constructor
  · intro h
    induction h with
    | init => exact ⟨[], rfl⟩
    | step op _ ih =>
      obtain ⟨ops, rfl⟩ := ih
      exact ⟨ops ++ [op], (run_snoc ops op).symm⟩
  · rintro ⟨ops, rfl⟩; exact reachable_run ops

/-- lift a step-preserved predicate to all reachable states -/
theorem reachable_induction {P : Store → Prop} (h0 : P Store.init)
    (hstep : ∀ s op, Reachable s → P s → P (step s op)) : ∀ s, Reachable s → P s := by
  intro s h
  induction h with
  | init => exact h0
  | step op hr ih => exact hstep _ op hr ih

/-! ## components -/

def Chunk.migs (c : Chunk) : List MigStore := c.mig0 ++ c.mig1
def Cluster.migs (c : Cluster) : List MigStore := c.chunks.flatMap Chunk.migs
def Chunk.stables (c : Chunk) : List RangeList := c.stable0.toList ++ c.stable1.toList

/-- slots a cluster's masters own in the store: stable ranges and migrating-out ranges -/
def Cluster.ownedSlots (c : Cluster) : List Nat :=
  c.chunks.flatMap fun ch =>
    (ch.stables.flatMap slotsOf) ++ ((ch.migs.filter (·.isMigrating)).flatMap fun m => slotsOf m.ranges)

/-- a range list in the normal form `compact` produces: each `start ≤ end`, ascending, and
consecutive ranges separated by a gap (`prev.end + 1 < next.start`) -/
def NormalRanges : RangeList → Prop
  | [] => True
  | [r] => r.1 ≤ r.2
  | r :: r' :: rest => r.1 ≤ r.2 ∧ r.2 + 1 < r'.1 ∧ NormalRanges (r' :: rest)

/-! ## invariant packages -/

/-- epochs: cluster epochs never exceed the global epoch, migration epochs never exceed their
cluster's epoch -/
def EpochInv (s : Store) : Prop :=
  ∀ c ∈ s.clusters, c.epoch ≤ s.globalEpoch ∧ ∀ m ∈ c.migs, m.mm.epoch ≤ c.epoch

/-- resource accounting (this is `check_metadata` plus uniqueness of keys) -/
def ResInv (s : Store) : Prop :=
  (s.proxies.map (·.addr)).Nodup ∧
  (s.clusters.map (·.name)).Nodup ∧
  (s.clusters.flatMap Cluster.proxyAddrs).Nodup ∧
  (∀ c ∈ s.clusters, ∀ ch ∈ c.chunks,
      (∃ p ∈ s.proxies, p.addr = ch.proxy0 ∧ p.cluster = some c.name ∧ p.host = ch.host0 ∧
          p.node0 = ch.node0 ∧ p.node1 = ch.node1) ∧
      (∃ p ∈ s.proxies, p.addr = ch.proxy1 ∧ p.cluster = some c.name ∧ p.host = ch.host1 ∧
          p.node0 = ch.node2 ∧ p.node1 = ch.node3)) ∧
  (∀ p ∈ s.proxies, ∀ n, p.cluster = some n →
      ∃ c ∈ s.clusters, c.name = n ∧ p.addr ∈ c.proxyAddrs)

/-- positions: every stored migration entry sits at the chunk half its meta names (source for
migrating-out entries, destination for importing ones) and all indices are in range -/
def PosInv (c : Cluster) : Prop :=
  ∀ (i : Nat) (ch : Chunk), c.chunks[i]? = some ch →
    (∀ m ∈ ch.mig0, (if m.isMigrating then (m.mm.srcChunk, m.mm.srcPart) else (m.mm.dstChunk, m.mm.dstPart)) = (i, 0)) ∧
    (∀ m ∈ ch.mig1, (if m.isMigrating then (m.mm.srcChunk, m.mm.srcPart) else (m.mm.dstChunk, m.mm.dstPart)) = (i, 1)) ∧
    (∀ m ∈ ch.migs, m.mm.srcChunk < c.chunks.length ∧ m.mm.dstChunk < c.chunks.length ∧
        m.mm.srcPart < 2 ∧ m.mm.dstPart < 2)

/-- twins: the migrating-out entries and the importing entries of a cluster carry the same
`(ranges, meta)` pairs, and pending `(ranges, epoch)` pairs are pairwise distinct -/
def TwinInv (c : Cluster) : Prop :=
  ((c.migs.filter (·.isMigrating)).map fun m => (m.ranges, m.mm)).Perm
    ((c.migs.filter (fun m => !m.isMigrating)).map fun m => (m.ranges, m.mm)) ∧
  ((c.migs.filter (·.isMigrating)).map fun m => (m.ranges, m.mm.epoch)).Nodup

/-- slots: every stored range list is in normal form and below `SLOT_NUM`, pending entries are
non-empty, and the owned slots are exactly `0 … SLOT_NUM-1`, each once -/
def SlotInv (c : Cluster) : Prop :=
  (∀ ch ∈ c.chunks, (∀ rl ∈ ch.stables, NormalRanges rl) ∧ ∀ m ∈ ch.migs, NormalRanges m.ranges ∧ m.ranges ≠ []) ∧
  c.ownedSlots.Perm (List.range SLOT_NUM)

/-- the whole package for one store -/
def BrokerInv (s : Store) : Prop :=
  EpochInv s ∧ ResInv s ∧ ∀ c ∈ s.clusters, PosInv c ∧ TwinInv c ∧ SlotInv c

end Um.Broker
