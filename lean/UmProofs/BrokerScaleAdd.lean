import UmProofs.BrokerScaleCreate
import UmProofs.BrokerScaleCommitA
/-!
# C10 — `auto_add_nodes` appends whole empty chunks (the balanced shape is kept)
-/
namespace Um.Broker.Scale
open Um Um.Slots Um.Broker

theorem findCluster_of_clusters {s s' : Store} (h : s'.clusters = s.clusters) (n : String) :
    s'.findCluster n = s.findCluster n := by
  unfold Store.findCluster; rw [h]

/-- **`auto_add_nodes` appends whole empty chunks** -/
theorem autoAddNodes_shape {s s' : Store} {name : String} {num : Nat} {choice : List (String × String)}
    {cl : Cluster} (hf : s.findCluster name = some cl) (h : autoAddNodes s name num choice = (s', R.ok ())) :
    ∃ extra, s'.findCluster name = some { cl with chunks := cl.chunks ++ extra, epoch := s.globalEpoch + 1 } ∧
      EmptyChunks extra ∧ NoMigs extra ∧ extra.length * 4 = num := by
  unfold autoAddNodes at h
  split at h
  · cases h
  · simp only [hf] at h
    split at h
    · cases h
    · split at h
      · cases h
      · rename_i hmod
        split at h
        · cases h
        · rename_i hpn
          split at h
          · rename_i s'' hdo
            simp only [Prod.mk.injEq, and_true] at h
            subst h
            simp only [bind] at hdo
            split at hdo
            · rename_i arr harr
              split at hdo
              · rename_i chunks hchunks
                have hlen := allocChunks_length harr
                have hmod' : num % 4 = 0 := by simpa using hmod
                have hpn' : num / 2 ≠ 0 := by simpa using hpn
                unfold proxyResourceToChunkStore at hchunks
                simp only [Bool.false_eq_true, if_false, pure] at hchunks
                cases hchunks
                have hcl := tagProxies_clusters hdo
                refine ⟨arr.map fun (a, b) => mkChunk a b none none, ?_, ?_, ?_, ?_⟩
                · rw [findCluster_of_clusters hcl]
                  exact Store.findCluster_setCluster (s := s.bump) (cl := cl) hf rfl
                · intro ch hch
                  obtain ⟨ab, _, rfl⟩ := List.mem_map.mp hch
                  exact ⟨rfl, rfl⟩
                · intro ch hch
                  obtain ⟨ab, _, rfl⟩ := List.mem_map.mp hch
                  exact ⟨rfl, rfl⟩
                · rw [List.length_map]; omega
              all_goals cases hdo
            all_goals cases hdo
          all_goals cases h

theorem balancedShape_append_empty {chunks extra : List Chunk} {n : Nat} (h : BalancedShape chunks n)
    (he : EmptyChunks extra) : BalancedShape (chunks ++ extra) n := by
  obtain ⟨A, B, rfl, hA, hfull, hempty⟩ := h
  refine ⟨A, B ++ extra, by rw [List.append_assoc], hA, hfull, ?_⟩
  intro ch hch
  rcases List.mem_append.mp hch with h | h
  · exact hempty ch h
  · exact he ch h

end Um.Broker.Scale
