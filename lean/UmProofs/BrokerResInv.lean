import UmProofs.BrokerResPool
/-!
# C12 — preservation of `RPt` (the pointwise form of `ResInv`) by the operations that change the
resource skeleton: `add_cluster`, `auto_add_nodes`, `remove_cluster`, `auto_delete_free_nodes`,
`add_proxy`, `remove_proxy`. (`replace_failed_proxy` is in `BrokerResFailover`.)
-/
namespace Um.Broker
open Um Um.Slots

/-! ## helpers -/

theorem mem_tagAll_of_not_mem {ps : List ProxyRes} {A : List String} {v : Option String} {p : ProxyRes}
    (hp : p ∈ ps) (ha : p.addr ∉ A) : p ∈ tagAll ps A v :=
  mem_tagAll.mpr ⟨p, hp, by simp [ha]⟩

theorem mem_tagAll_of_mem {ps : List ProxyRes} {A : List String} {v : Option String} {p : ProxyRes}
    (hp : p ∈ ps) (ha : p.addr ∈ A) : { p with cluster := v } ∈ tagAll ps A v :=
  mem_tagAll.mpr ⟨p, hp, by simp [ha]⟩

theorem mem_setCluster {s : Store} {c' x : Cluster} :
    x ∈ (s.setCluster c').clusters ↔ ∃ y ∈ s.clusters, x = if y.name == c'.name then c' else y := by
  rw [Store.setCluster_clusters, List.mem_map]
  constructor
  · rintro ⟨y, hy, rfl⟩; exact ⟨y, hy, rfl⟩
  · rintro ⟨y, hy, rfl⟩; exact ⟨y, hy, rfl⟩

theorem setCluster_names (s : Store) (c' : Cluster) :
    (s.setCluster c').clusters.map (·.name) = s.clusters.map (·.name) := by
  rw [Store.setCluster_clusters, List.map_map]
  apply List.map_congr_left
  intro y _
  simp only [Function.comp]
  split
  · rename_i h; exact (by simpa using h : y.name = c'.name).symm
  · rfl

theorem mem_setCluster_self {s : Store} {n : String} {cl c' : Cluster} (hf : s.findCluster n = some cl)
    (hn : c'.name = cl.name) : c' ∈ (s.setCluster c').clusters := by
  obtain ⟨hm, _⟩ := Store.findCluster_some hf
  exact mem_setCluster.mpr ⟨cl, hm, by simp [hn]⟩

theorem mem_setCluster_other {s : Store} {c' y : Cluster} (hy : y ∈ s.clusters) (hne : y.name ≠ c'.name) :
    y ∈ (s.setCluster c').clusters :=
  mem_setCluster.mpr ⟨y, hy, by simp [hne]⟩

theorem NewChunks.free {s : Store} {new : List Chunk} (h : NewChunks s new) {a : String}
    (ha : a ∈ chunkAddrs new) : ∃ q ∈ s.proxies, q.addr = a ∧ q.cluster = none := by
  obtain ⟨ch, hch, hor⟩ := mem_chunkAddrs.mp ha
  obtain ⟨p0, hp0, p1, hp1, e0, _, _, _, e1, _⟩ := h.fromPool ch hch
  have f0 := Store.mem_freeProxies.mp hp0
  have f1 := Store.mem_freeProxies.mp hp1
  rcases hor with rfl | rfl
  · exact ⟨p0, f0.1, e0.symm, f0.2.1⟩
  · exact ⟨p1, f1.1, e1.symm, f1.2.1⟩

/-- an address of an existing chunk is never handed out -/
theorem NewChunks.not_old {s : Store} {new : List Chunk} (h : NewChunks s new) (hr : RPt s)
    {c : Cluster} (hc : c ∈ s.clusters) {a : String} (ha : a ∈ c.proxyAddrs) : a ∉ chunkAddrs new := by
  intro hn
  obtain ⟨q, hq, hqa, hqc⟩ := h.free hn
  obtain ⟨p, hp, hpa, hpc⟩ := hr.tag_of_mem hc ha
  have : p = q := res_nodup_map_inj hr.1 hp hq (hpa.trans hqa.symm)
  subst this
  rw [hqc] at hpc; cases hpc

/-- the two halves of the new chunk `ch` as tagged proxies -/
theorem NewChunks.tagged {s : Store} {new : List Chunk} (h : NewChunks s new) {A : List String}
    (hA : ∀ a ∈ chunkAddrs new, a ∈ A) {name : String} {ch : Chunk} (hch : ch ∈ new) :
    (∃ p ∈ tagAll s.proxies A (some name), p.addr = ch.proxy0 ∧ p.cluster = some name ∧ p.host = ch.host0 ∧
        p.node0 = ch.node0 ∧ p.node1 = ch.node1) ∧
    (∃ p ∈ tagAll s.proxies A (some name), p.addr = ch.proxy1 ∧ p.cluster = some name ∧ p.host = ch.host1 ∧
        p.node0 = ch.node2 ∧ p.node1 = ch.node3) := by
  obtain ⟨p0, hp0, p1, hp1, e0, e1, e2, e3, e4, e5, e6, e7, _⟩ := h.fromPool ch hch
  have f0 := Store.mem_freeProxies.mp hp0
  have f1 := Store.mem_freeProxies.mp hp1
  have m0 : p0.addr ∈ A := hA _ (mem_chunkAddrs.mpr ⟨ch, hch, Or.inl e0.symm⟩)
  have m1 : p1.addr ∈ A := hA _ (mem_chunkAddrs.mpr ⟨ch, hch, Or.inr e4.symm⟩)
  exact ⟨⟨_, mem_tagAll_of_mem f0.1 m0, e0.symm, rfl, e1.symm, e2.symm, e3.symm⟩,
         ⟨_, mem_tagAll_of_mem f1.1 m1, e4.symm, rfl, e5.symm, e6.symm, e7.symm⟩⟩

/-! ## add_cluster -/

theorem rpt_addCluster {s s' : Store} {cl : Cluster} (hr : RPt s) (hnone : s.findCluster cl.name = none)
    (hnew : NewChunks s cl.chunks)
    (hp : s'.proxies = tagAll s.proxies (chunkAddrs cl.chunks) (some cl.name))
    (hc : s'.clusters = s.clusters ++ [cl]) : RPt s' := by
  have hr' := hr
  obtain ⟨h1, h2, h3, h4, h5⟩ := hr
  refine ⟨?_, ?_, ?_, ?_, ?_⟩
  · rw [hp, tagAll_addrs]; exact h1
  · rw [hc, List.map_append, List.nodup_append]
    refine ⟨h2, by simp, ?_⟩
    intro a ha b hb
    simp only [List.map_cons, List.map_nil, List.mem_singleton] at hb
    subst hb
    obtain ⟨c, hcm, rfl⟩ := List.mem_map.mp ha
    exact Store.findCluster_none.mp hnone c hcm
  · intro c hcm
    rw [hc] at hcm
    rcases List.mem_append.mp hcm with h | h
    · exact h3 c h
    · simp only [List.mem_singleton] at h; subst h; exact hnew.nodup
  · intro c hcm ch hch
    rw [hc] at hcm
    rcases List.mem_append.mp hcm with h | h
    · obtain ⟨⟨p, hpm, e1, e2⟩, ⟨q, hqm, e3, e4⟩⟩ := h4 c h ch hch
      have n1 : p.addr ∉ chunkAddrs cl.chunks :=
        hnew.not_old hr' h (e1 ▸ Cluster.mem_proxyAddrs.mpr ⟨ch, hch, Or.inl rfl⟩)
      have n2 : q.addr ∉ chunkAddrs cl.chunks :=
        hnew.not_old hr' h (e3 ▸ Cluster.mem_proxyAddrs.mpr ⟨ch, hch, Or.inr rfl⟩)
      rw [hp]
      exact ⟨⟨p, mem_tagAll_of_not_mem hpm n1, e1, e2⟩, ⟨q, mem_tagAll_of_not_mem hqm n2, e3, e4⟩⟩
    · simp only [List.mem_singleton] at h; subst h
      rw [hp]
      exact hnew.tagged (fun a ha => ha) hch
  · intro p' hp' n hn
    rw [hp] at hp'
    obtain ⟨p, hpm, rfl⟩ := mem_tagAll.mp hp'
    rw [hc]
    by_cases hin : p.addr ∈ chunkAddrs cl.chunks
    · simp only [hin, if_true] at hn ⊢
      cases hn
      exact ⟨cl, by simp, rfl, hin⟩
    · simp only [hin, if_false] at hn ⊢
      obtain ⟨c, hcm, e1, e2⟩ := h5 p hpm n hn
      exact ⟨c, List.mem_append_left _ hcm, e1, e2⟩

/-! ## auto_add_nodes -/

theorem rpt_addNodes {s s' : Store} {cl cl' : Cluster} {new : List Chunk} (hr : RPt s)
    (hf : s.findCluster cl.name = some cl) (hnew : NewChunks s new)
    (hn : cl'.name = cl.name) (hch : cl'.chunks = cl.chunks ++ new)
    (hp : s'.proxies = tagAll s.proxies cl'.proxyAddrs (some cl.name))
    (hc : s'.clusters = (s.setCluster cl').clusters) : RPt s' := by
  have hr' := hr
  obtain ⟨h1, h2, h3, h4, h5⟩ := hr
  obtain ⟨hclm, _⟩ := Store.findCluster_some hf
  have haddrs : cl'.proxyAddrs = cl.proxyAddrs ++ chunkAddrs new := by
    rw [Cluster.proxyAddrs_eq, hch, chunkAddrs_append]; rfl
  refine ⟨?_, ?_, ?_, ?_, ?_⟩
  · rw [hp, tagAll_addrs]; exact h1
  · rw [hc, setCluster_names]; exact h2
  · intro c hcm
    rw [hc] at hcm
    obtain ⟨y, hy, rfl⟩ := mem_setCluster.mp hcm
    split
    · rw [haddrs, List.nodup_append]
      refine ⟨h3 cl hclm, hnew.nodup, ?_⟩
      intro a ha b hb hab
      subst hab
      exact hnew.not_old hr' hclm ha hb
    · exact h3 y hy
  · intro c hcm ch hchm
    rw [hc] at hcm
    obtain ⟨y, hy, rfl⟩ := mem_setCluster.mp hcm
    by_cases hyn : y.name = cl'.name
    · simp only [hyn, beq_self_eq_true, if_true] at hchm ⊢
      rw [hch] at hchm
      rw [hp, hn]
      rcases List.mem_append.mp hchm with hold | hnw
      · obtain ⟨⟨p, hpm, e1, e2, e3⟩, ⟨q, hqm, e4, e5, e6⟩⟩ := h4 cl hclm ch hold
        have m1 : p.addr ∈ cl'.proxyAddrs := by
          rw [haddrs, e1]; exact List.mem_append_left _ (Cluster.mem_proxyAddrs.mpr ⟨ch, hold, Or.inl rfl⟩)
        have m2 : q.addr ∈ cl'.proxyAddrs := by
          rw [haddrs, e4]; exact List.mem_append_left _ (Cluster.mem_proxyAddrs.mpr ⟨ch, hold, Or.inr rfl⟩)
        exact ⟨⟨_, mem_tagAll_of_mem hpm m1, e1, rfl, e3⟩, ⟨_, mem_tagAll_of_mem hqm m2, e4, rfl, e6⟩⟩
      · exact hnew.tagged (fun a ha => by rw [haddrs]; exact List.mem_append_right _ ha) hnw
    · have hyn' : (y.name == cl'.name) = false := by simpa using hyn
      simp only [hyn', Bool.false_eq_true, if_false] at hchm ⊢
      obtain ⟨⟨p, hpm, e1, e2⟩, ⟨q, hqm, e3, e4⟩⟩ := h4 y hy ch hchm
      have hne : y ≠ cl := fun e => hyn (by rw [e, hn])
      have n1 : p.addr ∉ cl'.proxyAddrs := by
        rw [haddrs, List.mem_append, not_or]
        have hin : p.addr ∈ y.proxyAddrs := e1 ▸ Cluster.mem_proxyAddrs.mpr ⟨ch, hchm, Or.inl rfl⟩
        exact ⟨fun h => hne (hr'.disjoint hy hclm hin h), hnew.not_old hr' hy hin⟩
      have n2 : q.addr ∉ cl'.proxyAddrs := by
        rw [haddrs, List.mem_append, not_or]
        have hin : q.addr ∈ y.proxyAddrs := e3 ▸ Cluster.mem_proxyAddrs.mpr ⟨ch, hchm, Or.inr rfl⟩
        exact ⟨fun h => hne (hr'.disjoint hy hclm hin h), hnew.not_old hr' hy hin⟩
      rw [hp]
      exact ⟨⟨p, mem_tagAll_of_not_mem hpm n1, e1, e2⟩, ⟨q, mem_tagAll_of_not_mem hqm n2, e3, e4⟩⟩
  · intro p' hp' n hnn
    rw [hp] at hp'
    obtain ⟨p, hpm, rfl⟩ := mem_tagAll.mp hp'
    rw [hc]
    by_cases hin : p.addr ∈ cl'.proxyAddrs
    · simp only [hin, if_true] at hnn ⊢
      cases hnn
      exact ⟨cl', mem_setCluster_self hf hn, hn, hin⟩
    · simp only [hin, if_false] at hnn ⊢
      obtain ⟨c, hcm, e1, e2⟩ := h5 p hpm n hnn
      have hne : c.name ≠ cl'.name := by
        intro e
        have : c = cl := res_nodup_map_inj h2 hcm hclm (e.trans hn)
        subst this
        exact hin (by rw [haddrs]; exact List.mem_append_left _ e2)
      exact ⟨c, mem_setCluster_other hcm hne, e1, e2⟩

/-! ## remove_cluster -/

theorem rpt_removeCluster {s s' : Store} {cl : Cluster} (hr : RPt s) (hclm : cl ∈ s.clusters)
    (hp : s'.proxies = tagAll s.proxies cl.proxyAddrs none)
    (hc : s'.clusters = s.clusters.filter (·.name != cl.name)) : RPt s' := by
  have hr' := hr
  obtain ⟨h1, h2, h3, h4, h5⟩ := hr
  refine ⟨?_, ?_, ?_, ?_, ?_⟩
  · rw [hp, tagAll_addrs]; exact h1
  · rw [hc]; exact (List.filter_sublist.map _).nodup h2
  · intro c hcm; rw [hc] at hcm; exact h3 c (List.mem_filter.mp hcm).1
  · intro c hcm ch hch
    rw [hc] at hcm
    obtain ⟨hcm, hne⟩ := List.mem_filter.mp hcm
    have hne' : c ≠ cl := fun e => by subst e; simp at hne
    obtain ⟨⟨p, hpm, e1, e2⟩, ⟨q, hqm, e3, e4⟩⟩ := h4 c hcm ch hch
    have n1 : p.addr ∉ cl.proxyAddrs := fun h =>
      hne' (hr'.disjoint hcm hclm (e1 ▸ Cluster.mem_proxyAddrs.mpr ⟨ch, hch, Or.inl rfl⟩) h)
    have n2 : q.addr ∉ cl.proxyAddrs := fun h =>
      hne' (hr'.disjoint hcm hclm (e3 ▸ Cluster.mem_proxyAddrs.mpr ⟨ch, hch, Or.inr rfl⟩) h)
    rw [hp]
    exact ⟨⟨p, mem_tagAll_of_not_mem hpm n1, e1, e2⟩, ⟨q, mem_tagAll_of_not_mem hqm n2, e3, e4⟩⟩
  · intro p' hp' n hn
    rw [hp] at hp'
    obtain ⟨p, hpm, rfl⟩ := mem_tagAll.mp hp'
    by_cases hin : p.addr ∈ cl.proxyAddrs
    · simp only [hin, if_true] at hn; cases hn
    · simp only [hin, if_false] at hn ⊢
      obtain ⟨c, hcm, e1, e2⟩ := h5 p hpm n hn
      refine ⟨c, ?_, e1, e2⟩
      rw [hc, List.mem_filter]
      refine ⟨hcm, ?_⟩
      simp only [bne_iff_ne, ne_eq]
      intro e
      have : c = cl := res_nodup_map_inj h2 hcm hclm e
      subst this
      exact hin e2

/-! ## auto_delete_free_nodes -/

theorem chunkAddrs_filter_split {l : List Chunk} {p : Chunk → Bool} {a : String} (h : a ∈ chunkAddrs l) :
    a ∈ chunkAddrs (l.filter p) ∨ a ∈ chunkAddrs (l.filter fun c => !p c) := by
  obtain ⟨ch, hch, hor⟩ := mem_chunkAddrs.mp h
  by_cases hp : p ch = true
  · exact Or.inl (mem_chunkAddrs.mpr ⟨ch, List.mem_filter.mpr ⟨hch, hp⟩, hor⟩)
  · exact Or.inr (mem_chunkAddrs.mpr ⟨ch, List.mem_filter.mpr ⟨hch, by simpa using hp⟩, hor⟩)

/-- in a duplicate-free chunk list an address determines its chunk -/
theorem chunkAddrs_nodup_chunk {l : List Chunk} (h : (chunkAddrs l).Nodup) {c1 c2 : Chunk}
    (h1 : c1 ∈ l) (h2 : c2 ∈ l) {a : String} (ha1 : a = c1.proxy0 ∨ a = c1.proxy1)
    (ha2 : a = c2.proxy0 ∨ a = c2.proxy1) : c1 = c2 := by
  have hp := (List.pairwise_flatMap.mp h).2
  have m1 : a ∈ [c1.proxy0, c1.proxy1] := by simpa using ha1
  have m2 : a ∈ [c2.proxy0, c2.proxy1] := by simpa using ha2
  rcases pairwise_mem_cases hp h1 h2 with e | e | e
  · exact e
  · exact absurd rfl (e a m1 a m2)
  · exact absurd rfl (e a m2 a m1)

theorem rpt_delFree {s s' : Store} {cl cl' : Cluster} {keep : Chunk → Bool} (hr : RPt s)
    (hf : s.findCluster cl.name = some cl)
    (hn : cl'.name = cl.name) (hch : cl'.chunks = cl.chunks.filter fun c => !keep c)
    (hp : s'.proxies = tagAll s.proxies (chunkAddrs (cl.chunks.filter keep)) none)
    (hc : s'.clusters = (s.setCluster cl').clusters) : RPt s' := by
  have hr' := hr
  obtain ⟨h1, h2, h3, h4, h5⟩ := hr
  obtain ⟨hclm, _⟩ := Store.findCluster_some hf
  have hsub : ∀ a, a ∈ chunkAddrs (cl.chunks.filter keep) → a ∈ cl.proxyAddrs := fun a ha =>
    (chunkAddrs_filter_sublist cl.chunks keep).subset ha
  refine ⟨?_, ?_, ?_, ?_, ?_⟩
  · rw [hp, tagAll_addrs]; exact h1
  · rw [hc, setCluster_names]; exact h2
  · intro c hcm
    rw [hc] at hcm
    obtain ⟨y, hy, rfl⟩ := mem_setCluster.mp hcm
    split
    · rw [Cluster.proxyAddrs_eq, hch]
      exact (chunkAddrs_filter_sublist cl.chunks _).nodup (h3 cl hclm)
    · exact h3 y hy
  · intro c hcm ch hchm
    rw [hc] at hcm
    obtain ⟨y, hy, rfl⟩ := mem_setCluster.mp hcm
    by_cases hyn : y.name = cl'.name
    · simp only [hyn, beq_self_eq_true, if_true] at hchm ⊢
      rw [hch] at hchm
      obtain ⟨hold, hk⟩ := List.mem_filter.mp hchm
      obtain ⟨⟨p, hpm, e1, e2⟩, ⟨q, hqm, e3, e4⟩⟩ := h4 cl hclm ch hold
      have n1 : p.addr ∉ chunkAddrs (cl.chunks.filter keep) := by
        intro hin
        obtain ⟨ch2, hch2, hor⟩ := mem_chunkAddrs.mp hin
        obtain ⟨hm2, hk2⟩ := List.mem_filter.mp hch2
        have : ch = ch2 := chunkAddrs_nodup_chunk (h3 cl hclm) hold hm2 (Or.inl e1) hor
        subst this; simp [hk2] at hk
      have n2 : q.addr ∉ chunkAddrs (cl.chunks.filter keep) := by
        intro hin
        obtain ⟨ch2, hch2, hor⟩ := mem_chunkAddrs.mp hin
        obtain ⟨hm2, hk2⟩ := List.mem_filter.mp hch2
        have : ch = ch2 := chunkAddrs_nodup_chunk (h3 cl hclm) hold hm2 (Or.inr e3) hor
        subst this; simp [hk2] at hk
      rw [hp, hn]
      exact ⟨⟨p, mem_tagAll_of_not_mem hpm n1, e1, e2⟩, ⟨q, mem_tagAll_of_not_mem hqm n2, e3, e4⟩⟩
    · have hyn' : (y.name == cl'.name) = false := by simpa using hyn
      simp only [hyn', Bool.false_eq_true, if_false] at hchm ⊢
      obtain ⟨⟨p, hpm, e1, e2⟩, ⟨q, hqm, e3, e4⟩⟩ := h4 y hy ch hchm
      have hne : y ≠ cl := fun e => hyn (by rw [e, hn])
      have n1 : p.addr ∉ chunkAddrs (cl.chunks.filter keep) := fun h =>
        hne (hr'.disjoint hy hclm (e1 ▸ Cluster.mem_proxyAddrs.mpr ⟨ch, hchm, Or.inl rfl⟩) (hsub _ h))
      have n2 : q.addr ∉ chunkAddrs (cl.chunks.filter keep) := fun h =>
        hne (hr'.disjoint hy hclm (e3 ▸ Cluster.mem_proxyAddrs.mpr ⟨ch, hchm, Or.inr rfl⟩) (hsub _ h))
      rw [hp]
      exact ⟨⟨p, mem_tagAll_of_not_mem hpm n1, e1, e2⟩, ⟨q, mem_tagAll_of_not_mem hqm n2, e3, e4⟩⟩
  · intro p' hp' n hnn
    rw [hp] at hp'
    obtain ⟨p, hpm, rfl⟩ := mem_tagAll.mp hp'
    rw [hc]
    by_cases hin : p.addr ∈ chunkAddrs (cl.chunks.filter keep)
    · simp only [hin, if_true] at hnn; cases hnn
    · simp only [hin, if_false] at hnn ⊢
      obtain ⟨c, hcm, e1, e2⟩ := h5 p hpm n hnn
      by_cases hcn : c.name = cl'.name
      · have : c = cl := res_nodup_map_inj h2 hcm hclm (hcn.trans hn)
        subst this
        refine ⟨cl', mem_setCluster_self hf hn, hcn.symm.trans e1, ?_⟩
        rw [Cluster.proxyAddrs_eq, hch]
        rcases chunkAddrs_filter_split (p := keep) e2 with h | h
        · exact absurd h hin
        · exact h
      · exact ⟨c, mem_setCluster_other hcm hcn, e1, e2⟩

/-! ## add_proxy / remove_proxy -/

theorem rpt_addProxy {s s' : Store} {np : ProxyRes} (hr : RPt s) (hfree : np.cluster = none)
    (hnew : ∀ p ∈ s.proxies, p.addr ≠ np.addr)
    (hp : s'.proxies = s.proxies ++ [np]) (hc : s'.clusters = s.clusters) : RPt s' := by
  obtain ⟨h1, h2, h3, h4, h5⟩ := hr
  refine ⟨?_, hc ▸ h2, hc ▸ h3, ?_, ?_⟩
  · rw [hp, List.map_append, List.nodup_append]
    refine ⟨h1, by simp, ?_⟩
    intro a ha b hb
    simp only [List.map_cons, List.map_nil, List.mem_singleton] at hb
    subst hb
    obtain ⟨p, hpm, rfl⟩ := List.mem_map.mp ha
    exact hnew p hpm
  · intro c hcm ch hch
    rw [hc] at hcm
    obtain ⟨⟨p, hpm, e⟩, ⟨q, hqm, e'⟩⟩ := h4 c hcm ch hch
    rw [hp]
    exact ⟨⟨p, List.mem_append_left _ hpm, e⟩, ⟨q, List.mem_append_left _ hqm, e'⟩⟩
  · intro p hpm n hn
    rw [hp] at hpm
    rw [hc]
    rcases List.mem_append.mp hpm with h | h
    · exact h5 p h n hn
    · simp only [List.mem_singleton] at h; subst h; rw [hfree] at hn; cases hn

theorem rpt_removeProxy {s s' : Store} {a : String} {p0 : ProxyRes} (hr : RPt s)
    (hf : s.findProxy a = some p0) (hfree : p0.cluster = none)
    (hp : s'.proxies = s.proxies.filter (·.addr != a)) (hc : s'.clusters = s.clusters) : RPt s' := by
  obtain ⟨h1, h2, h3, h4, h5⟩ := hr
  obtain ⟨hp0, hp0a⟩ := Store.findProxy_some hf
  refine ⟨?_, hc ▸ h2, hc ▸ h3, ?_, ?_⟩
  · rw [hp]; exact (List.filter_sublist.map _).nodup h1
  · intro c hcm ch hch
    rw [hc] at hcm
    obtain ⟨⟨p, hpm, e1, e2, e⟩, ⟨q, hqm, e3, e4, e'⟩⟩ := h4 c hcm ch hch
    have k : ∀ x ∈ s.proxies, x.cluster = some c.name → x ∈ s.proxies.filter (·.addr != a) := by
      intro x hx hxc
      refine List.mem_filter.mpr ⟨hx, ?_⟩
      simp only [bne_iff_ne, ne_eq]
      intro hxa
      have : x = p0 := res_nodup_map_inj h1 hx hp0 (hxa.trans hp0a.symm)
      subst this
      rw [hfree] at hxc; cases hxc
    rw [hp]
    exact ⟨⟨p, k p hpm e2, e1, e2, e⟩, ⟨q, k q hqm e4, e3, e4, e'⟩⟩
  · intro p hpm n hn
    rw [hp] at hpm
    rw [hc]
    exact h5 p (List.mem_filter.mp hpm).1 n hn

end Um.Broker
