import UmModel.Migration
import UmProofs.MigrationDefs
import UmProofs.MigrationBasic
/-!
# C03 — the invariant `MigInv`

`GInv`: facts about the shared state (both Redis nodes, task states, the key-lock holder `crit`,
the scan actor).  `OpOk`: what must hold for a client op outside the critical section.
-/
namespace Um.Mig

def srcRank : SrcSt → Nat
  | .preCheck => 0 | .preBlocking => 1 | .preSwitch => 2 | .scanning => 3 | .finalSwitch => 4
  | .switchCommitted => 5

def ScanPc.held : ScanPc → Option Val
  | .restore _ v => some v
  | _ => none

/-- the lock holder will still send (or has in flight) a DEL to the source -/
def CritPc.delPending : CritPc → Bool
  | .tail => true
  | .uFast .del => true
  | _ => false

def ScanPc.delPending : ScanPc → Bool
  | .del _ => true
  | _ => false

/-- control states that were entered after seeing (or making) the source empty -/
def CritPc.srcGone : CritPc → Bool
  | .pPttl none => true
  | .pEntryNone => true
  | .uFast (.dump false) => true
  | .uSyncGot .ok => true
  | .uSyncGot .finished => true
  | .uSyncGot .taskNotFound => true
  | _ => false

def ScanPc.srcGone : ScanPc → Bool
  | .dump _ false => true
  | .fin _ => true
  | _ => false

/-- UMSYNC answered with a reply that lets the command through (anything but an error) -/
def CritPc.isSyncGot : CritPc → Bool
  | .uSyncGot .ok => true
  | .uSyncGot .finished => true
  | .uSyncGot .taskNotFound => true
  | _ => false

def CritPc.isPull : CritPc → Bool
  | .pDump => true
  | .pPttl _ => true
  | .pEntryNone => true
  | .pRestore _ => true
  | _ => false

/-- the value is not only at the source any more: deleting the source copy loses nothing -/
def Moved (s : Sys) : Prop := s.dst.isSome = true ∨ s.src = none

/-- what a command in flight at the destination may rely on -/
def DstFlight (s : Sys) (c : Cmd) : Prop :=
  Moved s ∧ (c.deletes = true → s.src = none ∧ critDump s = none ∧ s.scan.held = none)

structure GInv (s : Sys) : Prop where
  a1 : s.dstSt ≠ .preCheck → 2 ≤ srcRank s.srcSt
  a2 : 3 ≤ srcRank s.srcSt → s.dstSt ≠ .preCheck
  a3a : s.dstSt = .switchCommitted → 4 ≤ srcRank s.srcSt
  a3b : s.srcSt = .switchCommitted → s.dstSt = .switchCommitted
  a4a : s.srcTask = false → s.srcSt = .switchCommitted
  a4b : s.dstTask = false → s.srcSt = .switchCommitted
  a5a : s.blocking = true → 1 ≤ srcRank s.srcSt ∧ srcRank s.srcSt ≤ 3
  a5b : s.srcSt = .preSwitch → s.blocking = true
  a6 : s.queueClosed = true → 4 ≤ srcRank s.srcSt
  b1 : 4 ≤ srcRank s.srcSt → s.src = none ∧ s.scan = .idle
  b2 : s.dstSt = .preCheck → s.dst = none ∧ s.crit = none ∧ s.auxDel = 0
  b2' : srcRank s.srcSt ≤ 2 → s.scan = .idle
  b3a : ∀ k v, s.crit = some k → k.pc.held = some v → s.src = some v ∨ s.dst.isSome = true
  b3b : ∀ v, s.scan.held = some v → s.src = some v ∨ s.dst.isSome = true
  b4a : 0 < s.auxDel → Moved s
  b4b : ∀ k, s.crit = some k → k.pc.delPending = true → Moved s
  b4c : s.scan.delPending = true → Moved s
  b5a : ∀ k, s.crit = some k → k.pc.srcGone = true → s.src = none
  b5b : s.scan.srcGone = true → s.src = none
  b6a : ∀ k, s.crit = some k → k.pc.isFast = true → s.scan = .idle
  b6b : s.scan ≠ .idle → scanLocked s.scan = false → ∃ k, s.crit = some k ∧ k.pc = .uSlow
  b7 : ∀ k, s.crit = some k → k.pc.isSyncGot = true → s.scan.held = none
  b8 : s.dstTask = false → critDump s = none
  g8 : ∀ k, s.crit = some k → k.pc ≠ .tail →
        ∀ o ∈ s.ops, o.id = k.id → o.pc = .inCrit ∧ (k.pc.isPull = true → o.cmd.blocking = false)
  g9 : ∀ k, s.crit = some k → k.id < s.nextId

def OpOk (s : Sys) (o : Op) : Prop :=
  o.id < s.nextId ∧ (o.cmd.deletes = true → o.cmd.blocking = true) ∧
  match o.pc with
  | .direct .src => srcRank s.srcSt ≤ 1
  | .direct .dst => s.dstTask = false ∧ DstFlight s o.cmd
  | .pExists => s.dstSt ≠ .preCheck ∧ o.cmd.blocking = false
  | .pExistsGot b => s.dstSt ≠ .preCheck ∧ o.cmd.blocking = false ∧ (b = true → Moved s)
  | .pCmd => s.dstSt ≠ .preCheck ∧ DstFlight s o.cmd
  | .uPending => s.dstSt ≠ .preCheck
  | _ => True

def OInv (s : Sys) : Prop := ∀ o ∈ s.ops, OpOk s o

def MigInv (s : Sys) : Prop := GInv s ∧ OInv s ∧ WF s

end Um.Mig

namespace Um.Mig

/-! ## helper lemmas -/

theorem mem_setPc {s : Sys} {id : OpId} {pc : Pc} {o' : Op} :
    o' ∈ (setPc s id pc).ops ↔ ∃ o ∈ s.ops, o' = (if o.id = id then { o with pc := pc } else o) := by
  simp only [setPc, List.mem_map, beq_iff_eq]
  constructor
  · rintro ⟨a, ha, rfl⟩; exact ⟨a, ha, rfl⟩
  · rintro ⟨a, ha, rfl⟩; exact ⟨a, ha, rfl⟩

theorem apply_keeps_some {c : Cmd} (h : c.deletes = false) (x : Option Val) :
    x.isSome = true → (c.apply x).1.isSome = true := by
  cases c <;> simp [Cmd.apply, Cmd.deletes] at *

theorem apply_deletes {c : Cmd} (h : c.deletes = true) (x : Option Val) : (c.apply x).1 = none := by
  cases c <;> simp [Cmd.apply, Cmd.deletes] at *

theorem apply_nondel_none {c : Cmd} (h : c.deletes = false) (x : Option Val) :
    (c.apply x).1 = none → x = none := by
  cases c <;> simp [Cmd.apply, Cmd.deletes] at *

theorem logical_of_moved {s : Sys} (h : Moved s) : logical s = s.dst := by
  unfold logical
  rcases h with h | h
  · cases hd : s.dst <;> simp [hd] at h ⊢
  · cases hd : s.dst <;> simp [h]

theorem logical_of_dst_none {s : Sys} (h : s.dst = none) : logical s = s.src := by
  simp [logical, h]

theorem isSome_or_none {α} (x : Option α) : x.isSome = true ∨ x = none := by
  cases x <;> simp

/-- `g8` survives a pc change of an op that is not the key-lock holder -/
theorem g8_setPc {s : Sys} {o : Op} {pc : Pc} {c : Option Crit} (hc : c = s.crit)
    (g8 : ∀ k, s.crit = some k → k.pc ≠ .tail →
        ∀ o ∈ s.ops, o.id = k.id → o.pc = .inCrit ∧ (k.pc.isPull = true → o.cmd.blocking = false))
    (ho : o ∈ s.ops) (hpc : o.pc ≠ .inCrit) :
    ∀ k, c = some k → k.pc ≠ .tail →
        ∀ o' ∈ (setPc s o.id pc).ops, o'.id = k.id → o'.pc = .inCrit ∧ (k.pc.isPull = true → o'.cmd.blocking = false) := by
  subst hc
  intro k hk ht o' ho' hid
  rw [mem_setPc] at ho'
  obtain ⟨a, ha, rfl⟩ := ho'
  by_cases h : a.id = o.id
  · simp only [h, if_true] at hid
    exact absurd (g8 k hk ht o ho hid).1 hpc
  · simp only [h, if_false] at hid ⊢
    exact g8 k hk ht a ha hid

/-- `OpOk` only looks at a few shared components -/
theorem opOk_frame {s s' : Sys} {o : Op} (h : OpOk s o)
    (hn : s.nextId ≤ s'.nextId) (hst : o.pc = .direct .src → srcRank s.srcSt ≤ 1 → srcRank s'.srcSt ≤ 1)
    (hdt : s.dstTask = false → s'.dstTask = false)
    (hds : s.dstSt ≠ .preCheck → s'.dstSt ≠ .preCheck)
    (hmv : Moved s → Moved s')
    (hsrc : s.src = none → s'.src = none)
    (hcd : s.src = none → critDump s = none → critDump s' = none)
    (hsd : s.src = none → s.scan.held = none → s'.scan.held = none) : OpOk s' o := by
  unfold OpOk at h ⊢
  obtain ⟨h1, h2, h3⟩ := h
  refine ⟨Nat.lt_of_lt_of_le h1 hn, h2, ?_⟩
  have key : ∀ c : Cmd, DstFlight s c → DstFlight s' c := by
    intro c hc
    refine ⟨hmv hc.1, ?_⟩
    intro hd
    have := hc.2 hd
    exact ⟨hsrc this.1, hcd this.1 this.2.1, hsd this.1 this.2.2⟩
  split
  · rename_i hpc; simp only [hpc] at h3; exact hst hpc h3
  · rename_i hpc; simp only [hpc] at h3; exact ⟨hdt h3.1, key _ h3.2⟩
  · rename_i hpc; simp only [hpc] at h3; exact ⟨hds h3.1, h3.2⟩
  · rename_i b hpc; simp only [hpc] at h3; exact ⟨hds h3.1, h3.2.1, fun hb => hmv (h3.2.2 hb)⟩
  · rename_i hpc; simp only [hpc] at h3; exact ⟨hds h3.1, key _ h3.2⟩
  · rename_i hpc; simp only [hpc] at h3; exact hds h3
  · trivial

theorem isSyncGot_srcGone (pc : CritPc) : pc.isSyncGot = true → pc.srcGone = true := by
  cases pc <;> simp [CritPc.isSyncGot, CritPc.srcGone]
  rename_i r; cases r <;> simp

/-- the automation used by the step lemmas -/
macro "mig_grind" : tactic =>
  `(tactic| grind [srcRank, CritPc.held, ScanPc.held, CritPc.delPending, ScanPc.delPending, CritPc.srcGone,
      ScanPc.srcGone, CritPc.isFast, CritPc.isSyncGot, CritPc.isPull, scanLocked])

end Um.Mig
