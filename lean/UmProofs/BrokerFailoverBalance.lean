import UmProofs.BrokerFailoverStore
/-!
# C06 (c) peer records in every view, (g) `balance_masters`
-/
namespace Um.Broker.C06
open Um Um.Slots Um.Gen.Chunk

/-! ## (c) every view, every role position -/

/-- node `j` of chunk `i` (`n`) and the node at its peer index (`np`) in the view of any cluster:
they sit on the two different proxies of the chunk, their peer records name each other, exactly
one of them is a replica, and the replica holds no slots -/
theorem view_peers (cl : Cluster) (i j : Nat) (hj : j < 4) {x : Chunk} (hx : cl.chunks[i]? = some x) :
    ∃ n np, vnode (specView cl) i j = some n ∧ vnode (specView cl) i (peerIdx j) = some np ∧
      n.address = nodeAtD x j ∧ n.proxy = proxyAtD x (j / 2) ∧
      np.address = nodeAtD x (peerIdx j) ∧ np.proxy = proxyAtD x (1 - j / 2) ∧
      n.peers = [(np.address, np.proxy)] ∧ np.peers = [(n.address, n.proxy)] ∧
      n.replica = isReplica x.role j ∧ np.replica = !n.replica ∧
      (n.replica = true → n.slots = []) := by
  obtain ⟨hp4, hinv, hhalf, -⟩ := peerIdx_facts j hj
  refine ⟨specNode x cl.chunks j, specNode x cl.chunks (peerIdx j), ?_, ?_, rfl, rfl, rfl, ?_, ?_, ?_, rfl, ?_, ?_⟩
  · rw [specView_node cl i j hj, hx]; rfl
  · rw [specView_node cl i _ hp4, hx]; rfl
  · simp only [specNode, hhalf]
  · simp only [specNode, hhalf]
  · simp only [specNode, hinv]
  · simp only [specNode]; exact isReplica_peer x.role j hj
  · intro hr
    simp only [specNode] at hr ⊢
    obtain ⟨h1, h2, -⟩ := slotIdx_master x.role
    have e1 : j ≠ (slotIdx x.role).1 := by intro e; rw [← e, hr] at h1; cases h1
    have e2 : j ≠ (slotIdx x.role).2 := by intro e; rw [← e, hr] at h2; cases h2
    simp [e1, e2]

/-- every chunk has exactly two masters (and two replicas) in every role position -/
theorem two_masters (r : RolePos) : ((List.range 4).filter fun j => !isReplica r j).length = 2 := by
  cases r <;> decide

/-- the address a migration tag gives for part `q` is the address of the node that holds the part -/
theorem tag_names_owner (x : Chunk) (chunks : List Chunk) :
    (specNode x chunks (slotIdx x.role).1).address = halfNode x 0 ∧
    (specNode x chunks (slotIdx x.role).1).proxy = halfProxy x 0 ∧
    (specNode x chunks (slotIdx x.role).2).address = halfNode x 1 ∧
    (specNode x chunks (slotIdx x.role).2).proxy = halfProxy x 1 := by
  obtain ⟨a, b, c, d⟩ := tables_consistent x.role
  simp [specNode, halfNode, halfProxy, a, b, c, d, nodeAtD, proxyAtD]

/-! ## (g) `balance_masters` -/

/-- the `failed_proxy_exists` test of `balance_masters` on one address -/
def badProxy (s : Store) (a : String) : Bool := s.failed.contains a || s.hasFailureKey a

def bmChunk (s : Store) (c : Chunk) : Chunk :=
  if badProxy s c.proxy0 || badProxy s c.proxy1 then c else { c with role := .normal }

theorem balanceMasters_eq {s : Store} {name : String} {cl : Cluster} (hv : validName name = true)
    (hcl : s.findCluster name = some cl) :
    balanceMasters s name =
      ((s.setCluster { cl with chunks := cl.chunks.map (bmChunk s), epoch := s.globalEpoch + 1 }).bump, R.ok ()) := by
  unfold balanceMasters
  simp only [hv, hcl]
  rfl

theorem balanceMasters_find {s : Store} {name : String} {cl : Cluster} (hv : validName name = true)
    (hcl : s.findCluster name = some cl) :
    (balanceMasters s name).1.findCluster name =
      some { cl with chunks := cl.chunks.map (bmChunk s), epoch := s.globalEpoch + 1 } := by
  rw [balanceMasters_eq hv hcl]
  exact findCluster_setCluster hcl rfl

/-- a chunk is reset only if none of its proxies is failed or reported; nothing but the role changes -/
theorem bmChunk_facts (s : Store) (c : Chunk) :
    ((bmChunk s c).role = c.role ∨
      ((bmChunk s c).role = .normal ∧ c.proxy0 ∉ s.failed ∧ c.proxy1 ∉ s.failed ∧
        s.hasFailureKey c.proxy0 = false ∧ s.hasFailureKey c.proxy1 = false)) ∧
    (badProxy s c.proxy0 = false → badProxy s c.proxy1 = false → (bmChunk s c).role = .normal) ∧
    bmChunk s c = { c with role := (bmChunk s c).role } := by
  unfold bmChunk
  by_cases hb : (badProxy s c.proxy0 || badProxy s c.proxy1) = true
  · rw [if_pos hb]
    refine ⟨Or.inl rfl, ?_, rfl⟩
    intro a b; rw [a, b] at hb; cases hb
  · rw [if_neg hb]
    refine ⟨Or.inr ⟨rfl, ?_⟩, fun _ _ => rfl, rfl⟩
    simp only [Bool.or_eq_true, not_or, Bool.not_eq_true] at hb
    obtain ⟨h0, h1⟩ := hb
    simp only [badProxy, Bool.or_eq_false_iff, List.contains_eq_mem, decide_eq_false_iff_not] at h0 h1
    exact ⟨h0.1, h1.1, h0.2, h1.2⟩

theorem bmChunks_get {s : Store} {chunks : List Chunk} {i : Nat} {x : Chunk} (hx : chunks[i]? = some x) :
    (chunks.map (bmChunk s))[i]? = some (bmChunk s x) := by
  rw [List.getElem?_map, hx]; rfl

/-- keys held by the two slot-holding nodes and by the others -/
theorem nk_slotIdx (r : RolePos) (K0 K1 : List Key) :
    nk r K0 K1 (slotIdx r).1 = K0 ∧ nk r K0 K1 (slotIdx r).2 = K1 := by
  obtain ⟨-, -, -, -, hne⟩ := slotIdx_master r
  unfold nk
  constructor
  · simp [hne]
  · have hne' : (slotIdx r).2 ≠ (slotIdx r).1 := fun e => hne e.symm
    simp [hne']

/-- **(g), ownership**: in the view after `balance_masters`, node `j` of chunk `i` (`n'`) has the same
addresses and peer record as before (`n`); if the chunk was reset it holds the keys of part 0
(those of the old first slot node `n0`) when `j = 0`, of part 1 (old second slot node `n1`) when
`j = 2`, nothing otherwise; if the chunk was not reset it holds what it held -/
theorem balance_owner (s : Store) (cl : Cluster) (i j : Nat) (hj : j < 4) {x : Chunk} (hx : cl.chunks[i]? = some x) :
    ∃ n n0 n1 n', vnode (specView cl) i j = some n ∧
      vnode (specView cl) i (slotIdx x.role).1 = some n0 ∧ vnode (specView cl) i (slotIdx x.role).2 = some n1 ∧
      vnode (specView { cl with chunks := cl.chunks.map (bmChunk s), epoch := s.globalEpoch + 1 }) i j = some n' ∧
      n'.address = n.address ∧ n'.proxy = n.proxy ∧ n'.peers = n.peers ∧
      n'.replica = isReplica (bmChunk s x).role j ∧
      n'.slots.map srKey =
        if (bmChunk s x).role = x.role then n.slots.map srKey
        else (if j = 0 then n0.slots.map srKey else []) ++ (if j = 2 then n1.slots.map srKey else []) := by
  obtain ⟨-, -, f4, s4, -⟩ := slotIdx_master x.role
  obtain ⟨hrole, -, hrec⟩ := bmChunk_facts s x
  refine ⟨specNode x cl.chunks j, specNode x cl.chunks (slotIdx x.role).1, specNode x cl.chunks (slotIdx x.role).2,
    specNode (bmChunk s x) (cl.chunks.map (bmChunk s)) j, ?_, ?_, ?_, ?_, ?_, ?_, ?_, rfl, ?_⟩
  · rw [specView_node cl i j hj, hx]; rfl
  · rw [specView_node cl i _ f4, hx]; rfl
  · rw [specView_node cl i _ s4, hx]; rfl
  · rw [specView_node _ i j hj]; simp only [bmChunks_get hx]; rfl
  · rw [hrec]; rfl
  · rw [hrec]; rfl
  · rw [hrec]; rfl
  · rw [specNode_keys, specNode_keys, specNode_keys, specNode_keys]
    by_cases he : (bmChunk s x).role = x.role
    · rw [if_pos he]
      unfold nodeKeys
      rw [he, hrec]
    · rw [if_neg he]
      have hn : (bmChunk s x).role = .normal := by
        rcases hrole with h | h
        · exact absurd h he
        · exact h.1
      obtain ⟨k0, k1⟩ := nk_slotIdx x.role (partKeys x.stable0 x.mig0) (partKeys x.stable1 x.mig1)
      unfold nodeKeys at *
      rw [k0, k1, hn, hrec]
      simp only [nk, slotIdx, slotIndexTab, RolePos.idx]
      rfl

/-- `balance_masters` keeps every stored migration entry as it is (epochs included) -/
theorem bmChunk_migs (s : Store) (c : Chunk) :
    (bmChunk s c).mig0 = c.mig0 ∧ (bmChunk s c).mig1 = c.mig1 ∧
    (bmChunk s c).stable0 = c.stable0 ∧ (bmChunk s c).stable1 = c.stable1 := by
  unfold bmChunk; split <;> exact ⟨rfl, rfl, rfl, rfl⟩

end Um.Broker.C06
