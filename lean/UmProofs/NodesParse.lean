import UmProofs.NodesText
/-!
`parseNodes ∘ genClusterNodes` and `parseSlots ∘ genClusterSlots`: the replies parse back to the
ranges that `should_ignore_slots` lets through, under the address they are generated for.
-/
namespace Um.Nodes
open Um Um.Route Um.RouteCmd

/-- not hidden by `should_ignore_slots` -/
def visible (states : States) (sr : SlotRange) : Bool := !shouldIgnore sr.tag (states sr.ranges)

/-- the ranges a node line / a node's SLOTS entries carry -/
def visRanges (states : States) (srs : List SlotRange) : RangeL :=
  (srs.filter (visible states)).flatMap (·.ranges)

theorem nodeTokens_eq (states : States) (srs : List SlotRange) :
    nodeTokens states srs = (visRanges states srs).map rangeToken := by
  unfold nodeTokens visRanges
  induction srs with
  | nil => rfl
  | cons sr rest ih =>
    simp only [List.flatMap_cons, List.filter_cons, visible]
    rw [ih]
    by_cases h : shouldIgnore sr.tag (states sr.ranges) = true
    · simp [h]
    · simp [h]

/-! ## well-formedness of what is rendered -/

def RangesBounded (rs : RangeL) : Prop := ∀ r ∈ rs, r.1 < USIZE ∧ r.2 < USIZE

def SlotsBounded (srs : List SlotRange) : Prop := ∀ sr ∈ srs, RangesBounded sr.ranges

/-- no blank, newline or `@` in an address -/
def AddrClean (a : Addr) : Prop := ∀ b ∈ bs a, b ≠ 32 ∧ b ≠ 10 ∧ b ≠ 64

/-- `host:port` with exactly one `:` -/
def OneColon (a : Addr) : Prop :=
  ∃ h p, bs a = h ++ 58 :: p ∧ (∀ b ∈ h, b ≠ 58) ∧ (∀ b ∈ p, b ≠ 58)

theorem visRanges_bounded (states : States) (srs : List SlotRange) (h : SlotsBounded srs) :
    RangesBounded (visRanges states srs) := by
  intro r hr
  unfold visRanges at hr
  rw [List.mem_flatMap] at hr
  obtain ⟨sr, hsr, hr⟩ := hr
  exact h sr (List.mem_filter.mp hsr).1 r hr

/-! ## one NODES line -/

def lineFlags (loc : Bool) : Bytes := if loc then Um.Gen.Nodes.flagsLocal else Um.Gen.Nodes.flagsPeer

/-- the eight fixed fields of a line -/
def lineHead (name : String) (epoch : Nat) (loc : Bool) (v : Version) (a : Addr) : List Bytes :=
  [genNodeId name a, addressField v a, lineFlags loc, Um.Gen.Nodes.fieldMaster, Um.Gen.Nodes.fieldPingSent,
   Um.Gen.Nodes.fieldPongRecv, decimal epoch, Um.Gen.Nodes.fieldLinkState]

theorem lineHead_join (name : String) (epoch : Nat) (loc : Bool) (v : Version) (a : Addr) :
    joinWith [32] (lineHead name epoch loc v a) =
      genNodeId name a ++ [32] ++ addressField v a ++ [32] ++ lineFlags loc ++ [32] ++ Um.Gen.Nodes.fieldMaster ++ [32] ++
      Um.Gen.Nodes.fieldPingSent ++ [32] ++ Um.Gen.Nodes.fieldPongRecv ++ [32] ++ decimal epoch ++ [32] ++
      Um.Gen.Nodes.fieldLinkState := by
  simp only [lineHead, joinWith, List.append_assoc]

/-- a generated line is its fields joined by blanks, terminated by a newline -/
theorem nodeLine_eq (name : String) (epoch : Nat) (states : States) (loc : Bool) (v : Version)
    (n : Addr × List SlotRange) (hb : SlotsBounded n.2) :
    nodeLine name epoch states loc v n =
      joinWith [32] (lineHead name epoch loc v n.1 ++ (visRanges states n.2).map rangeToken) ++ [10] := by
  unfold nodeLine
  rw [nodeTokens_eq]
  have hvb := visRanges_bounded states n.2 hb
  cases hv : visRanges states n.2 with
  | nil =>
    simp only [List.map_nil, List.append_nil, joinWith, List.isEmpty_nil, Bool.not_true, Bool.false_eq_true, if_false]
    rw [lineHead_join]; rfl
  | cons r rs =>
    have hne : joinWith [32] ((r :: rs).map rangeToken) ≠ [] := by
      apply joinWith_eq_nil
      · simp
      · intro p hp
        rw [List.mem_map] at hp
        obtain ⟨r', hr', rfl⟩ := hp
        exact rangeToken_ne_nil r' (hvb r' (by rw [hv]; exact hr')).1
    have hemp : (joinWith [32] ((r :: rs).map rangeToken)).isEmpty = false := by
      cases hj : joinWith [32] ((r :: rs).map rangeToken) with
      | nil => exact absurd hj hne
      | cons _ _ => rfl
    simp only [hemp, Bool.not_false, if_true]
    rw [joinWith_append [32] _ _ (by simp [lineHead]) (by simp), lineHead_join]
    simp only [lineFlags, List.append_assoc]

/-- what a generated line parses back to -/
def expNode (name : String) (epoch : Nat) (states : States) (loc : Bool) (n : Addr × List SlotRange) : NodeEntry :=
  { id := genNodeId name n.1, addr := bs n.1, flags := lineFlags loc, epoch := epoch,
    ranges := visRanges states n.2 }

theorem addressField_parse (v : Version) (a : Addr) (ha : AddrClean a) :
    stripCport (addressField v a) = some (bs a) := by
  have h64 : ∀ b ∈ bs a, b ≠ 64 := fun b hb => (ha b hb).2.2
  unfold stripCport
  cases v with
  | v1 =>
    show (match splitOn 64 (bs a) with | [x] => some x | [x, _] => some x | _ => none) = _
    rw [splitOn_free 64 _ h64]
  | v2 =>
    show (match splitOn 64 (bs a ++ [64] ++ decimal Um.Gen.Nodes.CLUSTER_NODES_CPORT) with
      | [x] => some x | [x, _] => some x | _ => none) = _
    have : bs a ++ [64] ++ decimal Um.Gen.Nodes.CLUSTER_NODES_CPORT = bs a ++ 64 :: decimal Um.Gen.Nodes.CLUSTER_NODES_CPORT := by simp
    rw [this, splitOn_append_sep 64 _ _ h64,
      splitOn_free 64 _ (isDigits_ne _ (decimal_isDigits _ (by decide)) 64 (by decide))]

theorem addressField_noSep (v : Version) (a : Addr) (ha : AddrClean a) : NoSep (addressField v a) := by
  have h0 : NoSep (bs a) := fun b hb => ⟨(ha b hb).1, (ha b hb).2.1⟩
  cases v with
  | v1 => exact h0
  | v2 =>
    intro b hb
    show b ≠ 32 ∧ b ≠ 10
    have hb' : b ∈ bs a ++ [64] ++ decimal Um.Gen.Nodes.CLUSTER_NODES_CPORT := hb
    simp only [List.mem_append, List.mem_singleton] at hb'
    have hd := decimal_isDigits Um.Gen.Nodes.CLUSTER_NODES_CPORT (by decide)
    rcases hb' with (h | h) | h
    · exact h0 b h
    · subst h; decide
    · exact ⟨isDigits_ne _ hd 32 (by decide) b h, isDigits_ne _ hd 10 (by decide) b h⟩

theorem decimal_noSep (n : Nat) (h : n < USIZE) : NoSep (decimal n) := by
  have hd := decimal_isDigits n h
  exact fun b hb => ⟨isDigits_ne _ hd 32 (by decide) b hb, isDigits_ne _ hd 10 (by decide) b hb⟩

theorem rangeToken_noSep (r : Nat × Nat) (h1 : r.1 < USIZE) (h2 : r.2 < USIZE) : NoSep (rangeToken r) :=
  fun b hb => ⟨rangeToken_free r h1 h2 32 (by decide) b hb, rangeToken_free r h1 h2 10 (by decide) b hb⟩

/-- every field of a generated line is free of blanks and newlines -/
theorem lineFields_noSep (name : String) (epoch : Nat) (states : States) (loc : Bool) (v : Version)
    (n : Addr × List SlotRange) (hn : NoSep (bs name)) (ha : AddrClean n.1) (he : epoch < USIZE)
    (hb : SlotsBounded n.2) :
    ∀ p ∈ lineHead name epoch loc v n.1 ++ (visRanges states n.2).map rangeToken, NoSep p := by
  intro p hp
  rw [List.mem_append] at hp
  rcases hp with hp | hp
  · simp only [lineHead, List.mem_cons, List.not_mem_nil, or_false] at hp
    rcases hp with rfl | rfl | rfl | rfl | rfl | rfl | rfl | rfl
    · exact genNodeId_noSep name n.1 hn
    · exact addressField_noSep v n.1 ha
    · cases loc <;> (intro b hb; revert b; decide)
    · intro b hb; revert b; decide
    · intro b hb; revert b; decide
    · intro b hb; revert b; decide
    · exact decimal_noSep epoch he
    · intro b hb; revert b; decide
  · rw [List.mem_map] at hp
    obtain ⟨r, hr, rfl⟩ := hp
    have := visRanges_bounded states n.2 hb r hr
    exact rangeToken_noSep r this.1 this.2

theorem parseNodeLine_body (name : String) (epoch : Nat) (states : States) (loc : Bool) (v : Version)
    (n : Addr × List SlotRange) (hn : NoSep (bs name)) (ha : AddrClean n.1) (he : epoch < USIZE)
    (hb : SlotsBounded n.2) :
    parseNodeLine (joinWith [32] (lineHead name epoch loc v n.1 ++ (visRanges states n.2).map rangeToken)) =
      some (expNode name epoch states loc n) := by
  have hsep := lineFields_noSep name epoch states loc v n hn ha he hb
  unfold parseNodeLine
  rw [splitOn_joinWith 32 _ (by simp [lineHead]) (fun p hp b hb' => (hsep p hp b hb').1)]
  simp only [lineHead, List.cons_append, List.nil_append]
  rw [addressField_parse v n.1 ha, parseDec_decimal epoch he,
    mapOpt_map parseRangeToken rangeToken id (visRanges states n.2)
      (fun r hr => by
        have := visRanges_bounded states n.2 hb r hr
        exact parseRangeToken_rangeToken r this.1 this.2)]
  simp only [expNode, List.map_id]

/-! ## the whole NODES reply -/

/-- line bodies (without the terminating newline) -/
def lineBody (name : String) (epoch : Nat) (states : States) (loc : Bool) (v : Version)
    (n : Addr × List SlotRange) : Bytes :=
  joinWith [32] (lineHead name epoch loc v n.1 ++ (visRanges states n.2).map rangeToken)

theorem lineBody_noNl (name : String) (epoch : Nat) (states : States) (loc : Bool) (v : Version)
    (n : Addr × List SlotRange) (hn : NoSep (bs name)) (ha : AddrClean n.1) (he : epoch < USIZE)
    (hb : SlotsBounded n.2) : ∀ b ∈ lineBody name epoch states loc v n, b ≠ 10 := by
  -- the body is `joinWith [32]` of newline-free fields
  have hsep := lineFields_noSep name epoch states loc v n hn ha he hb
  unfold lineBody
  generalize lineHead name epoch loc v n.1 ++ (visRanges states n.2).map rangeToken = parts at hsep
  induction parts with
  | nil => intro b hb'; cases hb'
  | cons x rest ih =>
    cases rest with
    | nil => exact fun b hb' => (hsep x (by simp) b hb').2
    | cons y r =>
      rw [joinWith_cons_cons]
      intro b hb'
      simp only [List.mem_append, List.mem_singleton] at hb'
      rcases hb' with (h | h) | h
      · exact (hsep x (by simp) b h).2
      · subst h; decide
      · exact ih (fun p hp => hsep p (by simp [hp])) b h

theorem flatMap_congr' {α β : Type} (f g : α → List β) (l : List α) (h : ∀ x ∈ l, f x = g x) :
    l.flatMap f = l.flatMap g := by
  induction l with
  | nil => rfl
  | cons x rest ih =>
    simp only [List.flatMap_cons]
    rw [h x (by simp), ih (fun y hy => h y (by simp [hy]))]

/-- the nodes of a view: the proxy itself with all its local `SlotRange`s, then the peers -/
def allNodes (vw : View) : NodeSlots := (vw.me, localSlots vw) :: vw.peer

/-- everything `CLUSTER NODES` / `CLUSTER SLOTS` render is a machine integer and the names / addresses
do not contain the separators of the NODES text -/
structure WfView (vw : View) : Prop where
  name : NoSep (bs vw.name)
  epoch : vw.epoch < USIZE
  addrs : ∀ n ∈ allNodes vw, AddrClean n.1
  bounded : ∀ n ∈ allNodes vw, SlotsBounded n.2

/-- the parsed form of the generated NODES reply -/
def expNodes (vw : View) (states : States) : List NodeEntry :=
  expNode vw.name vw.epoch states true (vw.me, localSlots vw) ::
    vw.peer.map (expNode vw.name vw.epoch states false)

theorem parseNodes_gen (vw : View) (states : States) (v : Version) (hw : WfView vw) :
    parseNodes (genClusterNodes vw states v) = some (expNodes vw states) := by
  let lines : List Bytes :=
    lineBody vw.name vw.epoch states true v (vw.me, localSlots vw) ::
      vw.peer.map (lineBody vw.name vw.epoch states false v)
  have hme : (vw.me, localSlots vw) ∈ allNodes vw := by simp [allNodes]
  have hpeer : ∀ n ∈ vw.peer, n ∈ allNodes vw := fun n hn => by simp [allNodes, hn]
  have htext : genClusterNodes vw states v = lines.flatMap fun l => l ++ [10] := by
    unfold genClusterNodes genClusterNodesHelper
    simp only [lines, List.flatMap_cons, List.flatMap_nil, List.append_nil]
    rw [nodeLine_eq _ _ _ _ _ _ (hw.bounded _ hme)]
    congr 1
    rw [List.flatMap_map]
    apply flatMap_congr'
    intro n hn
    rw [nodeLine_eq _ _ _ _ _ _ (hw.bounded _ (hpeer n hn))]
    rfl
  have hnl : ∀ l ∈ lines, ∀ b ∈ l, b ≠ 10 := by
    intro l hl
    simp only [lines, List.mem_cons, List.mem_map] at hl
    rcases hl with rfl | ⟨n, hn, rfl⟩
    · exact lineBody_noNl _ _ _ _ _ _ hw.name (hw.addrs _ hme) hw.epoch (hw.bounded _ hme)
    · exact lineBody_noNl _ _ _ _ _ _ hw.name (hw.addrs _ (hpeer n hn)) hw.epoch (hw.bounded _ (hpeer n hn))
  unfold parseNodes
  rw [htext, splitOn_lines lines hnl]
  simp only [List.reverse_append, List.reverse_cons, List.reverse_nil, List.nil_append, List.singleton_append,
    List.reverse_reverse]
  simp only [lines, expNodes]
  apply mapOpt_cons_some
  · exact parseNodeLine_body _ _ _ _ _ _ hw.name (hw.addrs _ hme) hw.epoch (hw.bounded _ hme)
  · exact mapOpt_map _ _ _ _ (fun n hn =>
      parseNodeLine_body _ _ _ _ _ _ hw.name (hw.addrs _ (hpeer n hn)) hw.epoch (hw.bounded _ (hpeer n hn)))

end Um.Nodes
