import UmModel.RouteCmd
import UmProofs.Crc16
import UmProofs.Route
import UmProofs.Decimal
/-!
Lemmas about the multi-key handlers (`UmModel/RouteCmd.lean`): refusal under the same-slot guards,
every dispatched sub-command is routed by `routeSlot`, and accepted multi-key commands send all
their sub-commands to one place.
-/
namespace Um.RouteCmd
open Um Um.Crc16 Um.Route

/-! ## table facts (generated tables, checked by evaluation) -/

theorem dataCmdTypeOf_cons (name : Bytes) (rest : Cmd) :
    dataCmdTypeOf (some name :: rest) = lookupName Um.Gen.dataCmdTypeTable Um.Gen.dataCmdTypeDefault name := rfl

theorem cmdTypeOf_cons (name : Bytes) (rest : Cmd) :
    cmdTypeOf (some name :: rest) = lookupName Um.Gen.cmdTypeTable Um.Gen.cmdTypeDefault name := rfl

theorem slotOfCmd_of_index1 (name k : Bytes) (rest : Cmd)
    (h : keyIndexOf (lookupName Um.Gen.dataCmdTypeTable Um.Gen.dataCmdTypeDefault name) = 1) :
    slotOfCmd (some name :: some k :: rest) = some (slotOf k) := by
  simp only [slotOfCmd, keyOf, dataCmdTypeOf_cons, h]
  rfl

theorem slotOfCmd_get (k : Bytes) : slotOfCmd [some GET, some k] = some (slotOf k) :=
  slotOfCmd_of_index1 GET k [] (by decide)

theorem slotOfCmd_set (k v : Bytes) : slotOfCmd [some SET, some k, some v] = some (slotOf k) :=
  slotOfCmd_of_index1 SET k [some v] (by decide)

theorem slotOfCmd_msetnx (k : Bytes) (rest : Cmd) : slotOfCmd (some MSETNX :: some k :: rest) = some (slotOf k) :=
  slotOfCmd_of_index1 MSETNX k rest (by decide)

/-- the sub-command names of `handle_multi_int_cmd` in the generated dispatch table -/
def DEL : Bytes := [68, 69, 76]
def EXISTS : Bytes := [69, 88, 73, 83, 84, 83]

theorem multiInt_names : ∀ r ∈ Um.Gen.dataHandlerTable, r.2.1 = "handle_multi_int_cmd" → r.2.2.2 = DEL ∨ r.2.2.2 = EXISTS := by
  decide

theorem slotOfCmd_multiInt {name : Bytes} (hn : name = DEL ∨ name = EXISTS) (k : Bytes) :
    slotOfCmd [some name, some k] = some (slotOf k) := by
  rcases hn with rfl | rfl
  · exact slotOfCmd_of_index1 DEL k [] (by decide)
  · exact slotOfCmd_of_index1 EXISTS k [] (by decide)

/-- a data command type without a row in the dispatch table is handled as a single-key command -/
theorem handlerOf_default (c : Cmd) (h : ∀ r ∈ Um.Gen.dataHandlerTable, (r.1 == dataCmdTypeOf c) = false) :
    handlerOf c = (Um.Gen.dataHandlerDefault, []) := by
  unfold handlerOf
  simp only
  split
  · rename_i r heq
    have hp := List.find?_some heq
    have hm := List.mem_of_find?_eq_some heq
    rw [h r hm] at hp
    simp at hp
  · rfl

theorem single_guardless :
    ¬ (Um.Gen.dataHandlerDefault = "handle_mget" ∨ Um.Gen.dataHandlerDefault = "handle_multi_int_cmd") ∧
    ¬ (Um.Gen.dataHandlerDefault = "handle_mset" ∨ Um.Gen.dataHandlerDefault = "handle_msetnx") ∧
    ¬ (Um.Gen.dataHandlerDefault = "handle_blocking_commands") ∧
    ¬ (Um.Gen.dataHandlerDefault = "handle_eval_cmd") := by decide

/-! ## key lists -/

theorem leadingKeys_mem {l : List Arg} {k : Bytes} (h : k ∈ leadingKeys l) : some k ∈ l := by
  induction l with
  | nil => simp [leadingKeys] at h
  | cons a rest ih =>
    cases a with
    | none => simp [leadingKeys] at h
    | some x =>
      simp only [leadingKeys, List.mem_cons] at h
      rcases h with rfl | h
      · simp
      · exact List.mem_cons_of_mem _ (ih h)

theorem elem_eq {c : Cmd} {i : Nat} {k : Bytes} (h : c[i]? = some (some k)) : elem c i = some k := by
  simp [elem, h]

theorem mem_mgetGuardKeys {c : Cmd} {k : Bytes} (h : some k ∈ c.drop 1) : k ∈ mgetGuardKeys c := by
  obtain ⟨i, hi⟩ := List.getElem?_of_mem h
  rw [List.getElem?_drop] at hi
  have hlt : 1 + i < c.length := by
    rcases Nat.lt_or_ge (1 + i) c.length with h' | h'
    · exact h'
    · rw [List.getElem?_eq_none h'] at hi; cases hi
  unfold mgetGuardKeys
  rw [List.mem_filterMap]
  refine ⟨1 + i, ?_, elem_eq hi⟩
  rw [List.mem_range']
  exact ⟨i, by omega, by omega⟩

theorem msetPairs_mem {l : List Arg} {k v : Bytes} (h : (k, v) ∈ (msetPairs l).1) :
    ∃ j, l[2 * j]? = some (some k) ∧ 2 * j + 1 < l.length := by
  induction l using msetPairs.induct with
  | case1 k' v' rest ih =>
    simp only [msetPairs, List.mem_cons, Prod.mk.injEq] at h
    rcases h with ⟨rfl, rfl⟩ | h
    · exact ⟨0, by simp, by simp⟩
    · obtain ⟨j, hj, hlt⟩ := ih h
      refine ⟨j + 1, ?_, by simp; omega⟩
      have : 2 * (j + 1) = 2 * j + 1 + 1 := by omega
      rw [this]; simpa using hj
  | case2 l hne => simp [msetPairs] at h
  | case3 l h1 h2 =>
    unfold msetPairs at h
    split at h
    · rename_i k' v' rest; exact absurd rfl (h1 k' v' rest)
    · simp at h
    · simp at h

theorem mem_msetGuardKeys {c : Cmd} {k v : Bytes} (h : (k, v) ∈ (msetPairs (c.drop 1)).1) : k ∈ msetGuardKeys c := by
  obtain ⟨j, hj, hlt⟩ := msetPairs_mem h
  rw [List.getElem?_drop] at hj
  simp only [List.length_drop] at hlt
  unfold msetGuardKeys
  rw [List.mem_filterMap]
  refine ⟨j, ?_, ?_⟩
  · rw [List.mem_range]; omega
  · apply elem_eq; rw [← hj]; congr 1; omega

/-! ## routed dispatches -/

/-- `d` went through `MetaManager::send` as a fresh client-side (sub-)command -/
def Routed (cfg : RouteCfg) (cm : ClusterMap) (rt : Option Nat) (d : Dispatch) : Prop :=
  d.outcome = routeSlot cfg cm rt (slotOfCmd d.cmd)

theorem sendOne_routed (cfg : RouteCfg) (cm : ClusterMap) (rt : Option Nat) (c : Cmd) :
    Routed cfg cm rt (sendOne cfg cm rt c) := rfl

theorem runSubs_routed {cfg : RouteCfg} {cm : ClusterMap} {subs : List Cmd} {d : Dispatch}
    (h : d ∈ runSubs cfg cm subs) : Routed cfg cm none d ∧ d.cmd ∈ subs := by
  simp only [runSubs, List.mem_map] at h
  obtain ⟨c, hc, rfl⟩ := h
  exact ⟨rfl, hc⟩

/-! ## refusals -/
section
variable (cfg : RouteCfg) (cm : ClusterMap) (backend : Addr → Cmd → Resp)

def refused : Handled := { reply := notSameSlot, dispatched := [] }

theorem handleMget_refused (c : Cmd) (har : cfg.activeRedirection = false)
    (h : sameSlot (mgetGuardKeys c) = false) : handleMget cfg cm backend c = refused := by
  simp [handleMget, har, h, refused]

theorem handleMset_refused (c : Cmd) (har : cfg.activeRedirection = false)
    (h : sameSlot (msetGuardKeys c) = false) : handleMset cfg cm backend c = refused := by
  simp [handleMset, har, h, refused]

theorem handleMsetnx_refused (rt : Option Nat) (c : Cmd) (har : cfg.activeRedirection = false)
    (h : sameSlot (msetGuardKeys c) = false) : handleMsetnx cfg cm backend rt c = refused := by
  simp [handleMsetnx, har, h, refused]

theorem handleMultiInt_refused (name : Bytes) (c : Cmd) (har : cfg.activeRedirection = false)
    (h : sameSlot (mgetGuardKeys c) = false) : handleMultiInt cfg cm backend name c = refused := by
  simp [handleMultiInt, har, h, refused]

/-- the blocking handler validates name, argument count and timeout first; whatever it answers
then, nothing is dispatched and the reply is an error -/
theorem handleBlocking_refused (dt : String) (c : Cmd) (har : cfg.activeRedirection = false)
    (h : sameSlot (blockingGuardKeys c) = false) :
    (handleBlocking cfg cm backend dt c).dispatched = [] ∧ ∃ e, (handleBlocking cfg cm backend dt c).reply = .error e := by
  unfold handleBlocking
  simp only [har, h, Bool.not_false, Bool.and_self, if_true]
  repeat' split
  all_goals exact ⟨rfl, _, rfl⟩

/-- EVAL with `numkeys ≠ 1` whose listed keys are not in one slot: refused in both modes -/
theorem handleEval_refused (rt : Option Nat) (c : Cmd) (kn : Bytes) (n : Nat) (h2 : elem c 2 = some kn)
    (hn : btoiU u64Max kn = some n) (hle : n ≤ c.length) (h1 : n ≠ 1) (h : sameSlot (evalKeys n c) = false) :
    handleEval cfg cm backend rt c = refused := by
  have : ¬ n > c.length := by omega
  simp [handleEval, h2, hn, h1, h, refused, this]

/-- `numkeys` beyond the argument count (/repo 2c9766f): refused before anything else -/
theorem handleEval_too_many (rt : Option Nat) (c : Cmd) (kn : Bytes) (n : Nat) (h2 : elem c 2 = some kn)
    (hn : btoiU u64Max kn = some n) (hgt : n > c.length) :
    (handleEval cfg cm backend rt c).dispatched = [] ∧ ∃ e, (handleEval cfg cm backend rt c).reply = .error e := by
  simp [handleEval, h2, hn, hgt]

/-! ## every dispatched (sub-)command is routed -/

theorem blockingPass_routed (dt : String) (b : Bool) (subs : List (Bytes × Cmd)) (acc : List Dispatch)
    (hacc : ∀ d ∈ acc, Routed cfg cm none d) :
    ∀ d ∈ (blockingPass cfg cm backend dt b subs acc).dispatched, Routed cfg cm none d := by
  induction subs generalizing acc with
  | nil =>
    intro d hd
    simp only [blockingPass, List.mem_reverse] at hd
    exact hacc d hd
  | cons s rest ih =>
    obtain ⟨key, sub⟩ := s
    unfold blockingPass
    simp only
    split
    · apply ih
      intro d hd
      rcases List.mem_cons.mp hd with rfl | hd
      · exact sendOne_routed _ _ _ _
      · exact hacc d hd
    · intro d hd
      simp only [List.mem_reverse, List.mem_cons] at hd
      rcases hd with rfl | hd
      · exact sendOne_routed _ _ _ _
      · exact hacc d hd

theorem handleMget_routed (c : Cmd) : ∀ d ∈ (handleMget cfg cm backend c).dispatched, Routed cfg cm none d := by
  intro d hd
  simp only [handleMget] at hd
  repeat' split at hd
  all_goals first | exact (runSubs_routed hd).1 | simp at hd

theorem handleMset_routed (c : Cmd) : ∀ d ∈ (handleMset cfg cm backend c).dispatched, Routed cfg cm none d := by
  intro d hd
  simp only [handleMset] at hd
  repeat' split at hd
  all_goals first | exact (runSubs_routed hd).1 | simp at hd

theorem handleMsetnx_routed (rt : Option Nat) (c : Cmd) :
    ∀ d ∈ (handleMsetnx cfg cm backend rt c).dispatched, Routed cfg cm rt d := by
  intro d hd
  simp only [handleMsetnx] at hd
  repeat' split at hd
  all_goals first
    | (simp only [List.mem_map] at hd; obtain ⟨x, _, rfl⟩ := hd; exact sendOne_routed _ _ _ _)
    | simp at hd

theorem handleMultiInt_routed (name : Bytes) (c : Cmd) :
    ∀ d ∈ (handleMultiInt cfg cm backend name c).dispatched, Routed cfg cm none d := by
  intro d hd
  simp only [handleMultiInt] at hd
  repeat' split at hd
  all_goals first | exact (runSubs_routed hd).1 | simp at hd

theorem handleBlocking_routed (dt : String) (c : Cmd) :
    ∀ d ∈ (handleBlocking cfg cm backend dt c).dispatched, Routed cfg cm none d := by
  intro d hd
  simp only [handleBlocking] at hd
  repeat' split at hd
  all_goals first
    | exact blockingPass_routed cfg cm backend _ _ _ [] (by simp) d hd
    | simp at hd

theorem handleEval_routed (rt : Option Nat) (c : Cmd) :
    ∀ d ∈ (handleEval cfg cm backend rt c).dispatched, Routed cfg cm rt d := by
  intro d hd
  simp only [handleEval] at hd
  repeat' split at hd
  all_goals first
    | (simp only [List.mem_singleton] at hd; subst hd; exact sendOne_routed _ _ _ _)
    | simp at hd

theorem handleData_routed (c : Cmd) :
    ∀ d ∈ (handleData cfg cm backend none c).dispatched, Routed cfg cm none d := by
  intro d hd
  unfold handleData at hd
  simp only at hd
  repeat' split at hd
  · exact handleMget_routed cfg cm backend c d hd
  · exact handleMset_routed cfg cm backend c d hd
  · exact handleMsetnx_routed cfg cm backend none c d hd
  · exact handleMultiInt_routed cfg cm backend _ c d hd
  · exact handleBlocking_routed cfg cm backend _ c d hd
  · exact handleEval_routed cfg cm backend none c d hd
  · simp only [List.mem_singleton] at hd; subst hd; exact sendOne_routed _ _ _ _

/-- with a redirection mark (a command unwrapped from `UMFORWARD t`): the sub-commands the handlers
build are routed as fresh commands, the command itself (single-key, EVAL/EVALSHA, the MSETNX groups)
with the mark -/
theorem handleData_routed_rt (rt : Option Nat) (c : Cmd) :
    ∀ d ∈ (handleData cfg cm backend rt c).dispatched, Routed cfg cm none d ∨ Routed cfg cm rt d := by
  intro d hd
  unfold handleData at hd
  simp only at hd
  repeat' split at hd
  · exact Or.inl (handleMget_routed cfg cm backend c d hd)
  · exact Or.inl (handleMset_routed cfg cm backend c d hd)
  · exact Or.inr (handleMsetnx_routed cfg cm backend rt c d hd)
  · exact Or.inl (handleMultiInt_routed cfg cm backend _ c d hd)
  · exact Or.inl (handleBlocking_routed cfg cm backend _ c d hd)
  · exact Or.inr (handleEval_routed cfg cm backend rt c d hd)
  · simp only [List.mem_singleton] at hd; subst hd; exact Or.inr (sendOne_routed _ _ _ _)

/-- `handle_umforward` on a well-formed wrapper is `handle_data_cmd` on the inner command with the
redirection mark -/
theorem handleUmforward_unwrap (name ts : Bytes) (t : Nat) (c : Cmd)
    (hutf : validUtf8 ts = true) (ht : parseUsize ts = some t) (hc : c ≠ []) :
    handleUmforward cfg cm backend (some name :: some ts :: c) = handleData cfg cm backend (some t) c := by
  have e1 : elem (some name :: some ts :: c) 1 = some ts := rfl
  have hd : (some name :: some ts :: c).drop 2 = c := rfl
  have he : c.isEmpty = false := by cases c with
    | nil => exact absurd rfl hc
    | cons _ _ => rfl
  unfold handleUmforward
  simp only [e1, hutf, ht, hd, he, Bool.not_true, Bool.false_eq_true, if_false]

/-! ## accepted multi-key commands: one target for every sub-command (active redirection off) -/

theorem handleMget_same_target (c : Cmd) (har : cfg.activeRedirection = false)
    (hs : sameSlot (mgetGuardKeys c) = true) (k0 : Bytes) (hk0 : k0 ∈ mgetGuardKeys c) :
    ∀ d ∈ (handleMget cfg cm backend c).dispatched, d.outcome = routeSlot cfg cm none (some (slotOf k0)) := by
  intro d hd
  unfold handleMget at hd
  simp only [har, hs] at hd
  simp only [Bool.not_false, Bool.not_true, Bool.and_false, Bool.false_eq_true, if_false] at hd
  have key : ∀ d ∈ runSubs cfg cm ((leadingKeys (c.drop 1)).map fun k => [some GET, some k]),
      d.outcome = routeSlot cfg cm none (some (slotOf k0)) := by
    intro d hd
    obtain ⟨hr, hm⟩ := runSubs_routed hd
    simp only [List.mem_map] at hm
    obtain ⟨k, hk, hc⟩ := hm
    rw [hr, ← hc, slotOfCmd_get]
    rw [sameSlot_all_eq hs (mem_mgetGuardKeys (leadingKeys_mem hk)) hk0]
  repeat' split at hd
  all_goals first | exact key d hd | simp at hd

theorem handleMultiInt_same_target (name : Bytes) (hn : name = DEL ∨ name = EXISTS) (c : Cmd)
    (har : cfg.activeRedirection = false)
    (hs : sameSlot (mgetGuardKeys c) = true) (k0 : Bytes) (hk0 : k0 ∈ mgetGuardKeys c) :
    ∀ d ∈ (handleMultiInt cfg cm backend name c).dispatched, d.outcome = routeSlot cfg cm none (some (slotOf k0)) := by
  intro d hd
  unfold handleMultiInt at hd
  simp only [har, hs] at hd
  simp only [Bool.not_false, Bool.not_true, Bool.and_false, Bool.false_eq_true, if_false] at hd
  split at hd
  · simp at hd
  · obtain ⟨hr, hm⟩ := runSubs_routed hd
    simp only [List.mem_map] at hm
    obtain ⟨k, hk, hc⟩ := hm
    rw [hr, ← hc, slotOfCmd_multiInt hn]
    rw [sameSlot_all_eq hs (mem_mgetGuardKeys (leadingKeys_mem hk)) hk0]

theorem handleMset_same_target (c : Cmd) (har : cfg.activeRedirection = false)
    (hs : sameSlot (msetGuardKeys c) = true) (k0 : Bytes) (hk0 : k0 ∈ msetGuardKeys c) :
    ∀ d ∈ (handleMset cfg cm backend c).dispatched, d.outcome = routeSlot cfg cm none (some (slotOf k0)) := by
  intro d hd
  unfold handleMset at hd
  simp only [har, hs] at hd
  simp only [Bool.not_false, Bool.not_true, Bool.and_false, Bool.false_eq_true, if_false] at hd
  have key : ∀ d ∈ runSubs cfg cm (((msetPairs (c.drop 1)).1).map fun kv => [some SET, some kv.1, some kv.2]),
      d.outcome = routeSlot cfg cm none (some (slotOf k0)) := by
    intro d hd
    obtain ⟨hr, hm⟩ := runSubs_routed hd
    simp only [List.mem_map] at hm
    obtain ⟨kv, hk, hc⟩ := hm
    rw [hr, ← hc, slotOfCmd_set]
    rw [sameSlot_all_eq hs (mem_msetGuardKeys (k := kv.1) (v := kv.2) hk) hk0]
  repeat' split at hd
  all_goals exact key d hd

end
end Um.RouteCmd

/-! ## `decimal` is the canonical decimal rendering -/
namespace Um.RouteCmd
open Um

theorem decimalAux_eq (f n : Nat) (acc : Bytes) (hf : 0 < f) (h : n < 10 ^ f) :
    decimalAux f n acc = natDigits n ++ acc := by
  induction f generalizing n acc with
  | zero => omega
  | succ f ih =>
    unfold decimalAux
    by_cases hlt : n < 10
    · rw [if_pos hlt]; unfold natDigits; simp [hlt]
    · rw [if_neg hlt]
      have hf' : 0 < f := by
        cases f with
        | zero => simp at h; omega
        | succ g => omega
      have hdiv : n / 10 < 10 ^ f := by
        rw [Nat.pow_succ] at h
        exact Nat.div_lt_of_lt_mul (by omega)
      rw [ih (n / 10) _ hf' hdiv]
      conv => rhs; unfold natDigits
      simp [hlt]

/-- for every `usize` the model's `decimal` is `natDigits` (`UmProofs/Decimal.lean`), the rendering
`to_string()` produces -/
theorem decimal_eq_natDigits (n : Nat) (h : n < 10 ^ 20) : decimal n = natDigits n := by
  unfold decimal; rw [decimalAux_eq 20 n [] (by decide) h]; simp

end Um.RouteCmd
