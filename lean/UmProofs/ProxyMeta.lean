import UmModel.ProxyMeta
/-!
Lemmas about `Um.ProxyMeta` (C05, sequential part): single-call characterisation of `set_meta`,
composition over message lists, and the micro-step (two stores) trace with ghost sequence numbers.
-/
namespace Um.ProxyMeta
open Um

variable {C : Type}

/-- the acceptance condition of the property text -/
def Accepts (announce : Bytes) (installed : Nat) (m : Meta C) : Prop :=
  checkHosts announce m.locals = true ∧ (m.force = true ∨ m.epoch > installed)

instance (announce : Bytes) (installed : Nat) (m : Meta C) : Decidable (Accepts announce installed m) := by
  unfold Accepts; exact inferInstance

/-- what an accepted message leaves installed -/
def installOf (m : Meta C) : State C := ⟨m.epoch, m.content⟩

theorem notNewer_iff (e i : Nat) : notNewer e i = true ↔ e ≤ i := by
  simp [notNewer, Um.Gen.Meta.setMetaRejectsEqual]

theorem stores_eq (m : Meta C) : stores m = [.map m.content, .epoch m.epoch] := by
  simp [stores, Um.Gen.Meta.setMetaMapFirst]

theorem foldl_stores (s : State C) (m : Meta C) : (stores m).foldl State.apply s = installOf m := by
  simp [stores_eq, State.apply, installOf]

/-- `set_meta`, one call -/
theorem setMeta_eq (announce : Bytes) (s : State C) (m : Meta C) :
    setMeta announce s m =
      if checkHosts announce m.locals = false then (s, .error .notMyMeta)
      else if m.force = false ∧ m.epoch ≤ s.epoch then (s, .error .oldEpoch)
      else (installOf m, .ok ()) := by
  unfold setMeta
  rw [foldl_stores]
  cases hh : checkHosts announce m.locals <;> cases hf : m.force <;>
    by_cases he : m.epoch ≤ s.epoch <;> simp [(notNewer_iff m.epoch s.epoch).mpr, he, notNewer_iff]

theorem setMeta_accepts (announce : Bytes) (s : State C) (m : Meta C) (h : Accepts announce s.epoch m) :
    setMeta announce s m = (installOf m, .ok ()) := by
  rw [setMeta_eq]
  obtain ⟨h1, h2⟩ := h
  have : ¬ (m.force = false ∧ m.epoch ≤ s.epoch) := by
    rintro ⟨a, b⟩; rcases h2 with h2 | h2
    · rw [a] at h2; cases h2
    · omega
  simp [h1, this]

theorem setMeta_rejects (announce : Bytes) (s : State C) (m : Meta C) (h : ¬ Accepts announce s.epoch m) :
    (setMeta announce s m).1 = s ∧ (setMeta announce s m).2 ≠ .ok () := by
  rw [setMeta_eq]
  by_cases h1 : checkHosts announce m.locals = false
  · simp [h1]
  · have h1' : checkHosts announce m.locals = true := by simpa using h1
    have : m.force = false ∧ m.epoch ≤ s.epoch := by
      constructor
      · cases hf : m.force
        · rfl
        · exact absurd ⟨h1', Or.inl hf⟩ h
      · rcases Nat.lt_or_ge s.epoch m.epoch with hlt | hge
        · exact absurd ⟨h1', Or.inr hlt⟩ h
        · exact hge
    simp [h1', this]

/-- `handle` on a parsed message -/
theorem handle_some (announce : Bytes) (s : State C) (m : Meta C) (cfgOk : Bool) :
    handle announce s (some (m, cfgOk)) =
      if checkHosts announce m.locals = false then (s, .notMyMeta)
      else if m.force = false ∧ m.epoch ≤ s.epoch then (s, .oldEpoch)
      else (installOf m, if cfgOk then .ok else .warn) := by
  simp only [handle]
  rw [setMeta_eq]
  by_cases h1 : checkHosts announce m.locals = false
  · simp [h1]
  · by_cases h2 : m.force = false ∧ m.epoch ≤ s.epoch
    · simp [h1, h2]
    · simp [h1, h2]

theorem run_append (announce : Bytes) (s : State C) (xs ys : List (Option (Meta C × Bool))) :
    run announce s (xs ++ ys) =
      ((run announce (run announce s xs).1 ys).1, (run announce s xs).2 ++ (run announce (run announce s xs).1 ys).2) := by
  induction xs generalizing s with
  | nil => simp [run]
  | cons p ps ih => simp [run, ih]

theorem run_length (announce : Bytes) (s : State C) (xs : List (Option (Meta C × Bool))) :
    (run announce s xs).2.length = xs.length := by
  induction xs generalizing s with
  | nil => simp [run]
  | cons p ps ih => simp [run, ih]

/-- the state left by one command in terms of the property's acceptance predicate -/
theorem handle_state (announce : Bytes) (s : State C) (p : Option (Meta C × Bool)) :
    (handle announce s p).1 =
      match p with
      | none => s
      | some (m, _) => if Accepts announce s.epoch m then installOf m else s := by
  cases p with
  | none => rfl
  | some mb =>
    obtain ⟨m, b⟩ := mb
    by_cases h : Accepts announce s.epoch m
    · simp [handle, setMeta_accepts announce s m h, h]
    · have := setMeta_rejects announce s m h
      simp only [h, if_false]
      unfold handle
      rcases hsm : setMeta announce s m with ⟨s', r⟩
      rw [hsm] at this
      rcases r with e | u
      · cases e <;> simp_all
      · cases u; simp_all

/-- epochs do not decrease over a command that is not forced -/
theorem handle_epoch_mono (announce : Bytes) (s : State C) (p : Option (Meta C × Bool))
    (hnf : ∀ m b, p = some (m, b) → m.force = false) : s.epoch ≤ (handle announce s p).1.epoch := by
  rw [handle_state]
  cases p with
  | none => exact Nat.le_refl _
  | some mb =>
    obtain ⟨m, b⟩ := mb
    have hf := hnf m b rfl
    by_cases h : Accepts announce s.epoch m
    · simp only [h, if_true, installOf]
      rcases h.2 with h2 | h2
      · rw [hf] at h2; cases h2
      · omega
    · simp [h]

theorem run_epoch_mono (announce : Bytes) (s : State C) (xs : List (Option (Meta C × Bool)))
    (hnf : ∀ p ∈ xs, ∀ m b, p = some (m, b) → m.force = false) : s.epoch ≤ (run announce s xs).1.epoch := by
  induction xs generalizing s with
  | nil => simp [run]
  | cons p ps ih =>
    simp only [run]
    have h1 := handle_epoch_mono announce s p (hnf p (by simp))
    have h2 := ih (handle announce s p).1 (fun q hq => hnf q (by simp [hq]))
    omega

/-! ## the accepted message the installed state comes from -/

/-- the epoch installed after `cur` was accepted (`e0` before any) -/
def curEpoch (e0 : Nat) : Option (Meta C) → Nat
  | some c => c.epoch
  | none => e0

def curState (s0 : State C) : Option (Meta C) → State C
  | some c => installOf c
  | none => s0

/-- the last message of the list that the property says must be applied, tracking the installed
epoch by the property's rule alone (`cur` = the last accepted one so far, `e0` = the epoch installed
before the list) -/
def lastAccepted (announce : Bytes) (e0 : Nat) : Option (Meta C) → List (Option (Meta C × Bool)) → Option (Meta C)
  | cur, [] => cur
  | cur, none :: ps => lastAccepted announce e0 cur ps
  | cur, some (m, _) :: ps =>
    if Accepts announce (curEpoch e0 cur) m
    then lastAccepted announce e0 (some m) ps else lastAccepted announce e0 cur ps

theorem curState_epoch (s0 : State C) (cur : Option (Meta C)) :
    (curState s0 cur).epoch = curEpoch s0.epoch cur := by
  cases cur <;> rfl

theorem run_state_lastAccepted (announce : Bytes) (s0 : State C) (cur : Option (Meta C))
    (xs : List (Option (Meta C × Bool))) :
    (run announce (curState s0 cur) xs).1 = curState s0 (lastAccepted announce s0.epoch cur xs) := by
  induction xs generalizing cur with
  | nil => simp [run, lastAccepted]
  | cons p ps ih =>
    simp only [run]
    cases p with
    | none =>
      simp only [lastAccepted]
      exact ih cur
    | some mb =>
      obtain ⟨m, b⟩ := mb
      simp only [lastAccepted]
      rw [handle_state]
      simp only [curState_epoch]
      by_cases h : Accepts announce (curEpoch s0.epoch cur) m
      · simp only [h, if_true]
        exact ih (some m)
      · simp only [h, if_false]
        exact ih cur

theorem lastAccepted_mem (announce : Bytes) (e0 : Nat) (cur : Option (Meta C))
    (xs : List (Option (Meta C × Bool))) (m : Meta C)
    (h : lastAccepted announce e0 cur xs = some m) : cur = some m ∨ ∃ b, some (m, b) ∈ xs := by
  induction xs generalizing cur with
  | nil => left; simpa [lastAccepted] using h
  | cons p ps ih =>
    cases p with
    | none =>
      rcases ih cur (by simpa [lastAccepted] using h) with h1 | ⟨b, hb⟩
      · exact Or.inl h1
      · exact Or.inr ⟨b, by simp [hb]⟩
    | some mb =>
      obtain ⟨m', b'⟩ := mb
      simp only [lastAccepted] at h
      by_cases hacc : Accepts announce (curEpoch e0 cur) m'
      · simp only [hacc, if_true] at h
        rcases ih (some m') h with h1 | ⟨b, hb⟩
        · right; exact ⟨b', by simp at h1; simp [h1]⟩
        · exact Or.inr ⟨b, by simp [hb]⟩
      · simp only [hacc, if_false] at h
        rcases ih cur h with h1 | ⟨b, hb⟩
        · exact Or.inl h1
        · exact Or.inr ⟨b, by simp [hb]⟩

/-! ## micro-steps: the two stores, with ghost sequence numbers -/

/-- a state between any two stores; `eSeq` / `mSeq` = index (1-based, 0 = initial) of the accepted
message whose store wrote the epoch / the snapshot last -/
structure GState (C : Type) where
  st : State C
  eSeq : Nat
  mSeq : Nat

def GState.step (g : GState C) (k : Nat) : Store C → GState C
  | .map c => ⟨g.st.apply (.map c), g.eSeq, k⟩
  | .epoch e => ⟨g.st.apply (.epoch e), k, g.mSeq⟩

/-- the states after each store of message number `k` -/
def midStates (g : GState C) (k : Nat) : List (Store C) → List (GState C)
  | [] => []
  | w :: ws => g.step k w :: midStates (g.step k w) k ws

def lastOr (g : GState C) : List (GState C) → GState C
  | [] => g
  | [x] => x
  | _ :: x :: xs => lastOr g (x :: xs)

/-- every state the shared pair `(epoch, meta_map)` goes through while the commands `xs` are
handled one after the other (`k` = number of messages accepted so far) -/
def microTrace (announce : Bytes) (g : GState C) (k : Nat) : List (Option (Meta C × Bool)) → List (GState C)
  | [] => []
  | none :: ps => microTrace announce g k ps
  | some (m, _) :: ps =>
    if Accepts announce g.st.epoch m then
      let mids := midStates g (k + 1) (stores m)
      mids ++ microTrace announce (lastOr g mids) (k + 1) ps
    else microTrace announce g k ps

/-- at a point where no store is in flight -/
def GState.Settled (g : GState C) (k : Nat) : Prop := g.eSeq = k ∧ g.mSeq = k

theorem midStates_stores (g : GState C) (k : Nat) (m : Meta C) :
    midStates g k (stores m) =
      [⟨⟨g.st.epoch, m.content⟩, g.eSeq, k⟩, ⟨⟨m.epoch, m.content⟩, k, k⟩] := by
  simp [stores_eq, midStates, GState.step, State.apply]

/-- main invariant of the trace: the snapshot is never older than the epoch, at most one message
ahead, and sequence numbers only grow -/
theorem microTrace_inv (announce : Bytes) (g : GState C) (k : Nat) (hg : g.Settled k)
    (xs : List (Option (Meta C × Bool))) :
    List.Pairwise (fun a b => a.eSeq ≤ b.mSeq) (g :: microTrace announce g k xs) ∧
    (∀ t ∈ microTrace announce g k xs, k ≤ t.eSeq ∧ t.eSeq ≤ t.mSeq ∧ t.mSeq ≤ t.eSeq + 1) := by
  induction xs generalizing g k with
  | nil => simp [microTrace]
  | cons p ps ih =>
    cases p with
    | none => simpa [microTrace] using ih g k hg
    | some mb =>
      obtain ⟨m, b⟩ := mb
      simp only [microTrace]
      split
      · rw [midStates_stores]
        simp only [lastOr]
        have hs : GState.Settled (⟨⟨m.epoch, m.content⟩, k + 1, k + 1⟩ : GState C) (k + 1) := ⟨rfl, rfl⟩
        obtain ⟨ih1, ih2⟩ := ih _ (k + 1) hs
        obtain ⟨he, hm⟩ := hg
        rw [List.pairwise_cons] at ih1
        refine ⟨?_, ?_⟩
        · simp only [List.cons_append, List.nil_append, List.pairwise_cons, List.mem_cons]
          refine ⟨?_, ?_, ih1.1, ih1.2⟩
          · rintro b (rfl | rfl | hb)
            · simp [he]
            · simp [he]
            · have := ih2 b hb; omega
          · rintro b (rfl | hb)
            · simp [he]
            · have := ih2 b hb; simp [he]; omega
        · intro t ht
          simp only [List.cons_append, List.nil_append, List.mem_cons] at ht
          rcases ht with rfl | rfl | ht
          · simp [he]
          · simp
          · have := ih2 t ht; omega
      · exact ih g k hg

end Um.ProxyMeta
