import UmModel.ReplProto
import UmProofs.ProtoTask
/-!
`encode_repl_meta` / `parse_repl_meta`: round trip and invariant of whatever is accepted.
-/
namespace Um.Proto
open Um Um.Gen.Proto

def WfEntry (e : ReplEntry) : Prop := validClusterName e.cluster = true ∧ e.peers.length ≤ u64Max

def WfRepl (m : ReplMeta) : Prop :=
  m.epoch ≤ u64Max ∧ (∀ e ∈ m.masters, WfEntry e) ∧ (∀ e ∈ m.replicas, WfEntry e)

instance (e : ReplEntry) : Decidable (WfEntry e) := by unfold WfEntry; infer_instance
instance (m : ReplMeta) : Decidable (WfRepl m) := by unfold WfRepl; infer_instance

theorem parsePeers_rt (ps : List ReplPeer) (rest : List Str) :
    parsePeers ps.length ((ps.flatMap fun p => [p.node, p.proxy]) ++ rest) = some (ps, rest) := by
  induction ps with
  | nil => rfl
  | cons p ps ih =>
    simp only [List.length_cons, List.flatMap_cons, List.cons_append, List.nil_append, parsePeers, ih]

theorem parsePeers_length : ∀ (n : Nat) (ts : List Str) (ps : List ReplPeer) (rest : List Str),
    parsePeers n ts = some (ps, rest) → ps.length = n ∧ rest.length ≤ ts.length := by
  intro n
  induction n with
  | zero => intro ts ps rest h; simp [parsePeers] at h; obtain ⟨rfl, rfl⟩ := h; simp
  | succ n ih =>
    intro ts ps rest h
    match ts, h with
    | [], h => simp [parsePeers] at h
    | [_], h => simp [parsePeers] at h
    | a :: b :: ts, h =>
      simp only [parsePeers] at h
      cases hp : parsePeers n ts with
      | none => simp [hp] at h
      | some q =>
        obtain ⟨ps', rest'⟩ := q
        simp only [hp, Option.some.injEq, Prod.mk.injEq] at h
        obtain ⟨rfl, rfl⟩ := h
        have := ih ts ps' rest' hp
        simp; omega

theorem master_word : (upperA ROLE_MASTER_ENC == ROLE_MASTER_UPPER) = true := by decide
theorem replica_word_ne : (upperA ROLE_REPLICA_ENC == ROLE_MASTER_UPPER) = false := by decide
theorem replica_word : (upperA ROLE_REPLICA_ENC == ROLE_REPLICA_UPPER) = true := by decide

theorem parseReplEntries_master (f : Nat) (ms rs : List ReplEntry) (e : ReplEntry) (rest : List Str) (h : WfEntry e) :
    parseReplEntries (f + 1) ms rs (e.encode ROLE_MASTER_ENC ++ rest) = parseReplEntries f (ms ++ [e]) rs rest := by
  simp only [ReplEntry.encode, List.cons_append, parseReplEntries, h.1, Bool.not_true, Bool.false_eq_true, if_false,
    parseUnsigned_decimal _ h.2, parsePeers_rt, master_word, if_true]

theorem parseReplEntries_replica (f : Nat) (ms rs : List ReplEntry) (e : ReplEntry) (rest : List Str) (h : WfEntry e) :
    parseReplEntries (f + 1) ms rs (e.encode ROLE_REPLICA_ENC ++ rest) = parseReplEntries f ms (rs ++ [e]) rest := by
  simp only [ReplEntry.encode, List.cons_append, parseReplEntries, h.1, Bool.not_true, Bool.false_eq_true, if_false,
    parseUnsigned_decimal _ h.2, parsePeers_rt, replica_word_ne, replica_word, if_true]

theorem parseReplEntries_masters : ∀ (es : List ReplEntry) (f : Nat) (ms rs : List ReplEntry) (rest : List Str),
    (∀ e ∈ es, WfEntry e) → es.length ≤ f →
    parseReplEntries f ms rs (es.flatMap (ReplEntry.encode ROLE_MASTER_ENC) ++ rest) =
      parseReplEntries (f - es.length) (ms ++ es) rs rest := by
  intro es
  induction es with
  | nil => intro f ms rs rest _ _; simp
  | cons e es ih =>
    intro f ms rs rest h hf
    cases f with
    | zero => simp at hf
    | succ f =>
      simp only [List.flatMap_cons, List.append_assoc]
      rw [parseReplEntries_master f ms rs e _ (h e (List.mem_cons_self ..))]
      rw [ih f _ rs rest (fun x hx => h x (List.mem_cons_of_mem _ hx)) (by simp at hf; omega)]
      simp only [List.length_cons, List.append_assoc, List.cons_append, List.nil_append]
      congr 1; omega

theorem parseReplEntries_replicas : ∀ (es : List ReplEntry) (f : Nat) (ms rs : List ReplEntry) (rest : List Str),
    (∀ e ∈ es, WfEntry e) → es.length ≤ f →
    parseReplEntries f ms rs (es.flatMap (ReplEntry.encode ROLE_REPLICA_ENC) ++ rest) =
      parseReplEntries (f - es.length) ms (rs ++ es) rest := by
  intro es
  induction es with
  | nil => intro f ms rs rest _ _; simp
  | cons e es ih =>
    intro f ms rs rest h hf
    cases f with
    | zero => simp at hf
    | succ f =>
      simp only [List.flatMap_cons, List.append_assoc]
      rw [parseReplEntries_replica f ms rs e _ (h e (List.mem_cons_self ..))]
      rw [ih f ms _ rest (fun x hx => h x (List.mem_cons_of_mem _ hx)) (by simp at hf; omega)]
      simp only [List.length_cons, List.append_assoc, List.cons_append, List.nil_append]
      congr 1; omega

theorem encode_length (role : Str) (e : ReplEntry) : 1 ≤ (e.encode role).length := by simp [ReplEntry.encode]

theorem flatMap_encode_length (role : Str) (es : List ReplEntry) :
    es.length ≤ (es.flatMap (ReplEntry.encode role)).length := by
  induction es with
  | nil => simp
  | cons e es ih =>
    have := encode_length role e
    simp only [List.flatMap_cons, List.length_append, List.length_cons]; omega

/-- **replication meta round trip** on the string tokens -/
theorem parseReplTokens_encode (m : ReplMeta) (h : WfRepl m) : parseReplTokens m.encode = .ok m := by
  obtain ⟨he, hm, hr⟩ := h
  unfold parseReplTokens ReplMeta.encode
  simp only [parseUnsigned_decimal _ he]
  have h1 := flatMap_encode_length ROLE_MASTER_ENC m.masters
  have h2 := flatMap_encode_length ROLE_REPLICA_ENC m.replicas
  rw [parseReplEntries_masters m.masters _ [] [] _ hm (by simp only [List.length_append]; omega)]
  have h3 := parseReplEntries_replicas m.replicas
    ((m.masters.flatMap (ReplEntry.encode ROLE_MASTER_ENC) ++ m.replicas.flatMap (ReplEntry.encode ROLE_REPLICA_ENC)).length + 1 - m.masters.length)
    ([] ++ m.masters) [] [] hr (by simp only [List.length_append]; omega)
  rw [List.append_nil] at h3
  rw [h3]
  have : (m.masters.flatMap (ReplEntry.encode ROLE_MASTER_ENC) ++ m.replicas.flatMap (ReplEntry.encode ROLE_REPLICA_ENC)).length + 1
      - m.masters.length - m.replicas.length =
      ((m.masters.flatMap (ReplEntry.encode ROLE_MASTER_ENC) ++ m.replicas.flatMap (ReplEntry.encode ROLE_REPLICA_ENC)).length
      - m.masters.length - m.replicas.length) + 1 := by
    simp only [List.length_append]; omega
  rw [this]
  simp only [parseReplEntries, List.nil_append, flags_rt]

/-- whatever the entry loop accepts consists of well-formed entries -/
theorem parseReplEntries_wf : ∀ (f : Nat) (ms rs : List ReplEntry) (ts : List Str) (ms' rs' : List ReplEntry),
    (∀ e ∈ ms, WfEntry e) → (∀ e ∈ rs, WfEntry e) → parseReplEntries f ms rs ts = .ok (ms', rs') →
    (∀ e ∈ ms', WfEntry e) ∧ (∀ e ∈ rs', WfEntry e) := by
  intro f
  induction f with
  | zero => intro ms rs ts ms' rs' _ _ h; simp [parseReplEntries] at h
  | succ f ih =>
    intro ms rs ts ms' rs' hm hr h
    cases ts with
    | nil => simp only [parseReplEntries, Except.ok.injEq, Prod.mk.injEq] at h; obtain ⟨rfl, rfl⟩ := h; exact ⟨hm, hr⟩
    | cons role ts =>
      simp only [parseReplEntries] at h
      split at h
      · simp at h
      · rename_i name ts1
        split at h
        · simp at h
        · rename_i hname
          split at h
          · simp at h
          · rename_i node ts2
            split at h
            · simp at h
            · rename_i cnt ts3
              cases hc : parseUnsigned cnt with
              | none => simp [hc] at h
              | some n =>
                simp only [hc] at h
                cases hp : parsePeers n ts3 with
                | none => simp [hp] at h
                | some q =>
                  obtain ⟨peers, rest⟩ := q
                  simp only [hp] at h
                  have hw : WfEntry ⟨name, node, peers⟩ := by
                    refine ⟨by simpa using hname, ?_⟩
                    have := (parsePeers_length n ts3 peers rest hp).1
                    have := parseUnsigned_le hc
                    simp only; omega
                  split at h
                  · refine ih _ rs rest ms' rs' ?_ hr h
                    intro e he
                    rcases List.mem_append.mp he with he | he
                    · exact hm e he
                    · simp at he; subst he; exact hw
                  · split at h
                    · refine ih ms _ rest ms' rs' hm ?_ h
                      intro e he
                      rcases List.mem_append.mp he with he | he
                      · exact hr e he
                      · simp at he; subst he; exact hw
                    · simp at h

theorem parseReplTokens_wf (ts : List Str) (m : ReplMeta) (h : parseReplTokens ts = .ok m) : WfRepl m := by
  unfold parseReplTokens at h
  split at h
  · simp at h
  · rename_i e ts1
    cases he : parseUnsigned e with
    | none => simp [he] at h
    | some epoch =>
      simp only [he] at h
      split at h
      · simp at h
      · rename_i fl ts2
        cases hp : parseReplEntries (ts2.length + 1) [] [] ts2 with
        | error er => simp [hp] at h
        | ok q =>
          obtain ⟨ms, rs⟩ := q
          simp only [hp, Except.ok.injEq] at h
          subst h
          have := parseReplEntries_wf _ [] [] ts2 ms rs (by intro e he; cases he) (by intro e he; cases he) hp
          exact ⟨parseUnsigned_le he, this.1, this.2⟩

end Um.Proto
