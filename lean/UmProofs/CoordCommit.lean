import UmProofs.BrokerScaleCommitD
import UmProofs.CoordBasic
/-!
# C07 — a migration task is committed at most once

Built on the description of a successful commit proved for C10 (`commitCore_pending`,
`commitRes_inv`, `commitCore_unknown`): under `CommitInv` (positions, twins, compacted ranges) a
successful `commit_migration` removes the one pending entry with that `(ranges, epoch)`, so the same
descriptor is answered `MIGRATION_TASK_NOT_FOUND` afterwards and the store is left untouched.
-/
namespace Um.Coord
open Um Um.Broker Um.Broker.Scale Um.Slots

/-- `(ranges, epoch)` names a pending (migrating-out) entry of cluster `name` -/
def PendingIn (s : Store) (name : String) (ranges : RangeList) (epoch : Nat) : Prop :=
  ∃ c, s.findCluster name = some c ∧ ∃ m ∈ c.migs, m.isMigrating = true ∧ m.ranges = ranges ∧ m.mm.epoch = epoch

/-- what a successful commit leaves behind -/
theorem commitCore_ok_spec {s s1 : Store} {name : String} {c : Cluster} (hf : s.findCluster name = some c)
    (hinv : CommitInv c) {ranges : RangeList} {epoch : Nat}
    (h : commitMigrationCore s name ranges epoch false = (s1, R.ok ())) :
    ∃ c1 m, s1.findCluster name = some c1 ∧ CommitInv c1 ∧ m ∈ c.migs ∧ m.isMigrating = true ∧
      m.ranges = ranges ∧ m.mm.epoch = epoch ∧ (Cluster.pending c).Perm (m :: Cluster.pending c1) ∧
      s1.proxies = s.proxies ∧ s1.failed = s.failed ∧ s1.failures = s.failures := by
  by_cases hex : ∃ m ∈ c.migs, m.isMigrating = true ∧ m.ranges = ranges ∧ m.mm.epoch = epoch
  · obtain ⟨m, hm, hmig, rfl, rfl⟩ := hex
    obtain ⟨A, dch, B, t, hdec, hlen, htm, htr, htmm, hpart, hcore⟩ := commitCore_pending (s := s) hf hinv hm hmig
    obtain ⟨hinv', hperm⟩ := commitRes_inv hinv hm hmig hdec htm htr htmm hpart (s.globalEpoch + 1)
    rw [hcore] at h
    simp only [Prod.mk.injEq, and_true] at h
    subst h
    refine ⟨_, m, ?_, hinv', hm, hmig, rfl, rfl, hperm, rfl, rfl, rfl⟩
    rw [Store.findCluster_bump]
    exact Store.findCluster_setCluster hf rfl
  · exfalso
    have hno : ∀ m ∈ c.migs, m.isMigrating = true → ¬ (m.ranges = ranges ∧ m.mm.epoch = epoch) := by
      intro m hm hmig hre
      exact hex ⟨m, hm, hmig, hre.1, hre.2⟩
    rw [commitCore_unknown (s := s) hf ranges epoch hno] at h
    simp at h

/-- **a second commit of the same task is `MIGRATION_TASK_NOT_FOUND` and changes nothing** -/
theorem commitCore_twice {s s1 : Store} {name : String} {c : Cluster} (hf : s.findCluster name = some c)
    (hinv : CommitInv c) {ranges : RangeList} {epoch : Nat}
    (h : commitMigrationCore s name ranges epoch false = (s1, R.ok ())) :
    commitMigrationCore s1 name ranges epoch false = (s1, R.err Err.migrationTaskNotFound) ∧
    ¬ PendingIn s1 name ranges epoch := by
  obtain ⟨c1, m, hf1, hinv1, hm, hmig, hr, he, hperm, _⟩ := commitCore_ok_spec hf hinv h
  have hnd : ((m :: Cluster.pending c1).map fun x : MigStore => (x.ranges, x.mm.epoch)).Nodup :=
    (List.Perm.nodup_iff (hperm.map _)).mp hinv.twin.2
  rw [List.map_cons, List.nodup_cons] at hnd
  have hno : ∀ x ∈ c1.migs, x.isMigrating = true → ¬ (x.ranges = ranges ∧ x.mm.epoch = epoch) := by
    intro x hx hxm hre
    apply hnd.1
    have hxp : x ∈ Cluster.pending c1 := List.mem_filter.mpr ⟨hx, hxm⟩
    have := List.mem_map_of_mem (f := fun y : MigStore => (y.ranges, y.mm.epoch)) hxp
    simpa [hre.1, hre.2, hr, he] using this
  refine ⟨commitCore_unknown (s := s1) hf1 ranges epoch hno, ?_⟩
  rintro ⟨c', hf', x, hx, hxm, hxr, hxe⟩
  rw [hf1] at hf'; cases hf'
  exact hno x hx hxm ⟨hxr, hxe⟩

end Um.Coord
