import UmProofs.MigrationStepC
/-! C03 invariant preservation: internal decisions of the importing proxy (`Tau`, op-related). -/
namespace Um.Mig

/-- an op that is not the key-lock holder changes its pc -/
theorem ginv_setPc_other {s : Sys} {o : Op} (pc : Pc) (hG : GInv s) (ho : o ∈ s.ops) (hpc : o.pc ≠ .inCrit) :
    GInv (setPc s o.id pc) :=
  ginv_ops hG (g8_setPc rfl hG.g8 ho hpc)

/-- OInv when one op changes its pc and nothing else changes -/
theorem oinv_setPc {s : Sys} {o : Op} {pc : Pc} (hO : OInv s) (hW : WF s) (ho : o ∈ s.ops)
    (hnew : OpOk s { o with pc := pc }) : OInv (setPc s o.id pc) := by
  intro o' ho'
  rw [mem_setPc] at ho'
  obtain ⟨a, ha, rfl⟩ := ho'
  by_cases hid : a.id = o.id
  · have : a = o := eq_of_id_eq hW ha ho hid
    subst this
    simp only [if_true]
    exact opOk_frame hnew (Nat.le_refl _) (fun _ => id) id id id id (fun _ h => h) (fun _ h => h)
  · simp only [hid, if_false]
    exact opOk_frame (hO a ha) (Nat.le_refl _) (fun _ => id) id id id id (fun _ h => h) (fun _ h => h)

theorem nondel_of_nonblocking {s : Sys} {o : Op} (h : OpOk s o) (hb : o.cmd.blocking = false) : o.cmd.deletes = false := by
  cases hd : o.cmd.deletes
  · rfl
  · have := h.2.1 hd; rw [hb] at this; cases this

/-- the key lock is taken by op `o` -/
theorem ginv_lock {s : Sys} {o : Op} {pc : CritPc} (hG : GInv s) (hO : OInv s) (hW : WF s) (ho : o ∈ s.ops)
    (hnone : s.crit = none) (hpre : s.dstSt ≠ .preCheck)
    (hpc : pc = .pDump ∨ pc = .uSync) (hcmd : pc = .pDump → o.cmd.blocking = false) :
    GInv (setPc (setCrit s o.id pc) o.id .inCrit) := by
  have hlt := (hO o ho).1
  have hg8 : ∀ k, (setPc (setCrit s o.id pc) o.id .inCrit).crit = some k → k.pc ≠ .tail →
      ∀ o' ∈ (setPc (setCrit s o.id pc) o.id .inCrit).ops, o'.id = k.id →
        o'.pc = .inCrit ∧ (k.pc.isPull = true → o'.cmd.blocking = false) := by
    intro k hk _ o' ho' hid
    simp only [setCrit, setPc] at hk
    cases hk
    rw [mem_setPc] at ho'
    obtain ⟨a, ha, rfl⟩ := ho'
    by_cases h : a.id = o.id
    · have : a = o := eq_of_id_eq hW ha ho h
      subst this
      simp only [if_true]
      refine ⟨trivial, ?_⟩
      intro hp
      rcases hpc with rfl | rfl
      · exact hcmd rfl
      · simp [CritPc.isPull] at hp
    · simp only [h, if_false] at hid
  obtain ⟨a1, a2, a3a, a3b, a4a, a4b, a5a, a5b, a6, b1, b2, b2', b3a, b3b, b4a, b4b, b4c, b5a, b5b, b6a, b6b, b7, b8, g8, g9⟩ := hG
  rcases hpc with rfl | rfl <;>
  constructor <;> first
    | exact hg8
    | (simp only [setCrit, setPc, critDump, Moved] at * ; mig_grind)

theorem step_tau_ops {s s' : Sys} {t : Tau} (hG : GInv s) (hO : OInv s) (hW : WF s)
    (ht : (∃ id, t = .existsKeyThere id) ∨ (∃ id, t = .existsLock id) ∨ (∃ id, t = .existsRetry id) ∨
          (∃ id, t = .pendingLock id) ∨ (∃ id, t = .pendingTimeout id))
    (hs : stepTau s t = some s') :
    (GInv s' ∧ OInv s') ∧ logical s' = logical s := by
  rcases ht with ⟨id, rfl⟩ | ⟨id, rfl⟩ | ⟨id, rfl⟩ | ⟨id, rfl⟩ | ⟨id, rfl⟩
  all_goals
    simp only [stepTau, bind, Option.bind] at hs
    split at hs
    · simp at hs
    rename_i o hf
    obtain ⟨ho, hid⟩ := findOp_some hf
    subst hid
    obtain ⟨hg, rfl⟩ := guard_some hs
    have hoo := hO o ho
  · -- EXISTS = 1: forward
    simp only [beq_iff_eq] at hg
    simp only [OpOk, hg] at hoo
    refine ⟨⟨ginv_setPc_other _ hG ho (by rw [hg]; simp), ?_⟩, rfl⟩
    refine oinv_setPc hO hW ho ?_
    have hnd := nondel_of_nonblocking (hO o ho) hoo.2.2.2.1
    simp only [OpOk, DstFlight]
    exact ⟨hoo.1, hoo.2.1, hoo.2.2.1, hoo.2.2.2.2 trivial, fun h => by rw [hnd] at h; cases h⟩
  · -- EXISTS = 0, lock free
    simp only [Bool.and_eq_true, beq_iff_eq, Option.isNone_iff_eq_none] at hg
    simp only [OpOk, hg.1] at hoo
    refine ⟨⟨ginv_lock hG hO hW ho hg.2 hoo.2.2.1 (Or.inl rfl) (fun _ => hoo.2.2.2.1), ?_⟩, rfl⟩
    have hO1 : OInv (setCrit s o.id .pDump) :=
      oinv_eff hO rfl (Nat.le_refl _) (fun _ => id) id id (eff_refl s) (fun _ _ => by simp [critDump, setCrit, CritPc.held]) (fun _ h => h)
    have hW1 : WF (setCrit s o.id .pDump) := hW
    refine oinv_setPc hO1 hW1 ho ?_
    simp only [OpOk]
    exact ⟨hoo.1, hoo.2.1, trivial⟩
  · -- EXISTS = 0, lock busy: again
    simp only [Bool.and_eq_true, beq_iff_eq] at hg
    simp only [OpOk, hg.1] at hoo
    refine ⟨⟨ginv_setPc_other _ hG ho (by rw [hg.1]; simp), ?_⟩, rfl⟩
    refine oinv_setPc hO hW ho ?_
    simp only [OpOk]
    exact ⟨hoo.1, hoo.2.1, hoo.2.2.1, hoo.2.2.2.1⟩
  · -- pending UMSYNC gets the lock
    simp only [Bool.and_eq_true, beq_iff_eq, Option.isNone_iff_eq_none] at hg
    simp only [OpOk, hg.1] at hoo
    refine ⟨⟨ginv_lock hG hO hW ho hg.2 hoo.2.2 (Or.inr rfl) (fun h => by cases h), ?_⟩, rfl⟩
    have hO1 : OInv (setCrit s o.id .uSync) :=
      oinv_eff hO rfl (Nat.le_refl _) (fun _ => id) id id (eff_refl s) (fun _ _ => by simp [critDump, setCrit, CritPc.held]) (fun _ h => h)
    have hW1 : WF (setCrit s o.id .uSync) := hW
    refine oinv_setPc hO1 hW1 ho ?_
    simp only [OpOk]
    exact ⟨hoo.1, hoo.2.1, trivial⟩
  · -- pending UMSYNC gives up
    simp only [Bool.and_eq_true, beq_iff_eq] at hg
    simp only [OpOk, hg.1] at hoo
    refine ⟨⟨ginv_setPc_other _ hG ho (by rw [hg.1]; simp), ?_⟩, rfl⟩
    refine oinv_setPc hO hW ho ?_
    simp only [OpOk]
    exact ⟨hoo.1, hoo.2.1, trivial⟩

end Um.Mig
