import UmProofs.SetMetaConcBasic
/-!
`Um.SetMetaConc`: linearizability of concurrent `set_meta` at lock acquisition.

`LInv s log` relates a state of the interleaving semantics with the ghost log of lock
acquisitions: while the lock is free the shared pair is exactly what the *sequential* machine
`Um.ProxyMeta.run` leaves after the commands of the log, and every logged caller has returned with
the reply the sequential machine gives at its position; while caller `i` holds the lock the log ends
with `i`, everything before it is committed, and the shared pair is a well-defined intermediate
state of `i`'s critical section.
-/
namespace Um.SetMetaConc
open Um Um.ProxyMeta

variable {C : Type}

/-- inside the critical section -/
abbrev inside (pc : Pc) : Prop := pc = .test ∨ pc = .mapStore ∨ pc = .epochStore ∨ pc = .unlock

/-- has taken the lock at some time -/
abbrev acquired (pc : Pc) : Prop := inside pc ∨ pc = .done .ok ∨ pc = .done .warn ∨ pc = .done .oldEpoch

/-- every caller of `log` has returned with the reply of the sequential run at its position -/
def Committed (announce : Bytes) (st0 : State C) (s : Sys C) (log : List (Entry C)) : Prop :=
  ∀ (k : Nat) (t : Entry C), log[k]? = some t →
    ∃ (c : Caller C) (r : Reply), s.callers[t.1]? = some c ∧ c.pc = .done r ∧ (seqRun announce st0 log).2[k]? = some r

structure LInv (announce : Bytes) (st0 : State C) (s : Sys C) (log : List (Entry C)) : Prop where
  nodup : (log.map (·.1)).Nodup
  entries : ∀ t ∈ log, ∃ c : Caller C, s.callers[t.1]? = some c ∧ c.msg = t.2.1 ∧ c.cfgOk = t.2.2
  mem : ∀ (i : Nat) (c : Caller C), s.callers[i]? = some c → (acquired c.pc ↔ i ∈ log.map (·.1))
  hosts : ∀ (i : Nat) (c : Caller C), s.callers[i]? = some c →
    ((c.pc = .lock ∨ acquired c.pc) → checkHosts announce c.msg.locals = true) ∧
    (c.pc = .done .notMyMeta → checkHosts announce c.msg.locals = false) ∧ c.pc ≠ .done .parseErr
  free : s.owner = none →
    (⟨s.epoch, s.snap⟩ : State C) = (seqRun announce st0 log).1 ∧ Committed announce st0 s log
  held : ∀ i : Nat, s.owner = some i → ∃ (pre : List (Entry C)) (c : Caller C),
    log = pre ++ [(i, c.msg, c.cfgOk)] ∧ s.callers[i]? = some c ∧ inside c.pc ∧ Committed announce st0 s pre ∧
    (c.pc = .test ∨ c.pc = .mapStore → (⟨s.epoch, s.snap⟩ : State C) = (seqRun announce st0 pre).1) ∧
    (c.pc = .epochStore → s.epoch = (seqRun announce st0 pre).1.epoch ∧ s.snap = c.msg.content) ∧
    (c.pc = .unlock → (⟨s.epoch, s.snap⟩ : State C) = installOf c.msg) ∧
    (c.pc ≠ .test → Accepts announce (seqRun announce st0 pre).1.epoch c.msg)

theorem lt_of_getElem? {α : Type} {l : List α} {j : Nat} {a : α} (h : l[j]? = some a) : j < l.length := by
  obtain ⟨h, _⟩ := List.getElem?_eq_some_iff.mp h; exact h

theorem committed_keep {announce : Bytes} {st0 : State C} {s s' : Sys C} {log : List (Entry C)}
    (h : Committed announce st0 s log) (hk : ∀ t ∈ log, s'.callers[t.1]? = s.callers[t.1]?) :
    Committed announce st0 s' log := by
  intro k t hkt
  obtain ⟨c, r, h1, h2, h3⟩ := h k t hkt
  exact ⟨c, r, by rw [hk t (List.mem_of_getElem? hkt)]; exact h1, h2, h3⟩

theorem committed_snoc {announce : Bytes} {st0 : State C} {s' : Sys C} {pre : List (Entry C)}
    (h : Committed announce st0 s' pre) (i : Nat) (m : Meta C) (b : Bool) (c' : Caller C) (r : Reply)
    (hc : s'.callers[i]? = some c') (hpc : c'.pc = .done r)
    (hr : (handle announce (seqRun announce st0 pre).1 (some (m, b))).2 = r) :
    Committed announce st0 s' (pre ++ [(i, m, b)]) := by
  intro k t hkt
  have hlen := seqRun_length announce st0 pre
  rw [seqRun_snoc]
  simp only
  rcases Nat.lt_or_ge k pre.length with hlt | hge
  · rw [List.getElem?_append_left hlt] at hkt
    obtain ⟨c, r', h1, h2, h3⟩ := h k t hkt
    refine ⟨c, r', h1, h2, ?_⟩
    rw [List.getElem?_append_left (by omega)]
    exact h3
  · rw [List.getElem?_append_right hge] at hkt
    cases hk : k - pre.length with
    | zero =>
      simp only [hk, List.getElem?_cons_zero, Option.some.injEq] at hkt
      subst hkt
      refine ⟨c', r, hc, hpc, ?_⟩
      rw [List.getElem?_append_right (by omega)]
      have : k - (seqRun announce st0 pre).2.length = 0 := by omega
      simp [this, hr]
    | succ n => simp [hk] at hkt

/-- a caller inside the critical section is the lock owner, and the invariant's `held` clause is about it -/
theorem owner_of_inside {announce : Bytes} {st0 : State C} {s : Sys C} {log : List (Entry C)}
    (inv : LInv announce st0 s log) {i : Nat} {c : Caller C} (hc : s.callers[i]? = some c) (hin : inside c.pc) :
    s.owner = some i := by
  have himem : i ∈ log.map (·.1) := (inv.mem i c hc).mp (Or.inl hin)
  have notdone : ∀ r, c.pc ≠ .done r := by
    intro r h; rcases hin with h' | h' | h' | h' <;> rw [h] at h' <;> cases h'
  cases ho : s.owner with
  | none =>
    obtain ⟨_, hcm⟩ := inv.free ho
    obtain ⟨t, ht, hti⟩ := List.mem_map.mp himem
    obtain ⟨k, hk⟩ := List.mem_iff_getElem?.mp ht
    obtain ⟨c2, r, h1, h2, _⟩ := hcm k t hk
    rw [hti, hc] at h1; cases h1
    exact absurd h2 (notdone r)
  | some o =>
    by_cases hoi : o = i
    · rw [hoi]
    · obtain ⟨pre, co, hlog, _, _, hcm, _⟩ := inv.held o ho
      rw [hlog, List.map_append, List.mem_append] at himem
      rcases himem with hp | hl
      · obtain ⟨t, ht, hti⟩ := List.mem_map.mp hp
        obtain ⟨k, hk⟩ := List.mem_iff_getElem?.mp ht
        obtain ⟨c2, r, h1, h2, _⟩ := hcm k t hk
        rw [hti, hc] at h1; cases h1
        exact absurd h2 (notdone r)
      · simp at hl; exact absurd hl.symm hoi

/-- indices of committed entries differ from the owner's -/
theorem pre_ne_of_nodup {pre : List (Entry C)} {x : Entry C} (h : ((pre ++ [x]).map (·.1)).Nodup) :
    ∀ t ∈ pre, t.1 ≠ x.1 := by
  intro t ht heq
  rw [List.map_append, List.nodup_append] at h
  exact h.2.2 t.1 (List.mem_map.mpr ⟨t, ht, rfl⟩) x.1 (by simp) heq

end Um.SetMetaConc
