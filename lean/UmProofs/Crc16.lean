import UmModel.Crc16
/-!
Lemmas about `get_hash_tag`, `generate_slot`, `same_slot` (C09; reusable by C02/C14).
-/
namespace Um.Crc16
open Um

/-! ## `position` -/

theorem position_eq_none {c : UInt8} {l : Bytes} : position c l = none ↔ c ∉ l := by
  induction l with
  | nil => simp [position]
  | cons b bs ih =>
    unfold position
    by_cases h : b = c
    · simp [h]
    · have h' : ¬ c = b := fun e => h e.symm
      simp [h, h', ih]

/-- `position c l = some i` iff `l` splits as `pre ++ c :: post` with `c ∉ pre`, `|pre| = i` -/
theorem position_eq_some {c : UInt8} {l : Bytes} {i : Nat} :
    position c l = some i ↔ ∃ pre post, l = pre ++ c :: post ∧ c ∉ pre ∧ pre.length = i := by
  induction l generalizing i with
  | nil => simp [position]
  | cons b bs ih =>
    unfold position
    by_cases h : b = c
    · subst h
      simp only [if_true, Option.some.injEq]
      constructor
      · intro hi; subst hi; exact ⟨[], bs, rfl, by simp, rfl⟩
      · rintro ⟨pre, post, hl, hn, hlen⟩
        cases pre with
        | nil => simpa using hlen
        | cons p ps =>
          simp only [List.cons_append, List.cons.injEq] at hl
          exact absurd (by simp [hl.1]) hn
    · simp only [h, if_false, Option.map_eq_some_iff]
      constructor
      · rintro ⟨j, hj, rfl⟩
        obtain ⟨pre, post, hl, hn, hlen⟩ := ih.mp hj
        refine ⟨b :: pre, post, by simp [hl], ?_, by simp [hlen]⟩
        intro hm
        rcases List.mem_cons.mp hm with e | e
        · exact h e.symm
        · exact hn e
      · rintro ⟨pre, post, hl, hn, hlen⟩
        cases pre with
        | nil => simp at hl; exact absurd hl.1 h
        | cons p ps =>
          simp only [List.cons_append, List.cons.injEq] at hl
          refine ⟨ps.length, ih.mpr ⟨ps, post, hl.2, fun hm => hn (List.mem_cons_of_mem _ hm), rfl⟩, ?_⟩
          simpa using hlen

/-! ## `get_hash_tag` characterisation -/

/-- no `{` at all -/
theorem getHashTag_no_open {key : Bytes} (h : LBRACE ∉ key) : getHashTag key = key := by
  unfold getHashTag
  rw [position_eq_none.mpr h]

/-- a first `{` but no `}` after it -/
theorem getHashTag_no_close {pre rest : Bytes} (hp : LBRACE ∉ pre) (hr : RBRACE ∉ rest) :
    getHashTag (pre ++ LBRACE :: rest) = pre ++ LBRACE :: rest := by
  unfold getHashTag
  rw [position_eq_some.mpr ⟨pre, rest, rfl, hp, rfl⟩]
  simp only
  have : (pre ++ LBRACE :: rest).drop (pre.length + 1) = rest := by
    rw [show pre ++ LBRACE :: rest = (pre ++ [LBRACE]) ++ rest by simp]
    rw [List.drop_left' (by simp)]
  rw [this, position_eq_none.mpr hr]

/-- first `{`, then the first `}`: the bytes strictly in between if there are any, else the key -/
theorem getHashTag_tag {pre tag post : Bytes} (hp : LBRACE ∉ pre) (ht : RBRACE ∉ tag) :
    getHashTag (pre ++ LBRACE :: (tag ++ RBRACE :: post)) =
      if tag = [] then pre ++ LBRACE :: (tag ++ RBRACE :: post) else tag := by
  unfold getHashTag
  rw [position_eq_some.mpr ⟨pre, tag ++ RBRACE :: post, rfl, hp, rfl⟩]
  simp only
  have : (pre ++ LBRACE :: (tag ++ RBRACE :: post)).drop (pre.length + 1) = tag ++ RBRACE :: post := by
    rw [show pre ++ LBRACE :: (tag ++ RBRACE :: post) = (pre ++ [LBRACE]) ++ (tag ++ RBRACE :: post) by simp]
    rw [List.drop_left' (by simp)]
  rw [this, position_eq_some.mpr ⟨tag, post, rfl, ht, rfl⟩]
  simp only
  by_cases h : tag = []
  · simp [h]
  · have : tag.length ≠ 0 := by simpa using h
    simp [h, this]

/-- every key falls in exactly one of the three shapes -/
theorem key_shapes (key : Bytes) :
    LBRACE ∉ key ∨
    (∃ pre rest, key = pre ++ LBRACE :: rest ∧ LBRACE ∉ pre ∧ RBRACE ∉ rest) ∨
    (∃ pre tag post, key = pre ++ LBRACE :: (tag ++ RBRACE :: post) ∧ LBRACE ∉ pre ∧ RBRACE ∉ tag) := by
  cases h : position LBRACE key with
  | none => exact Or.inl (position_eq_none.mp h)
  | some i =>
    obtain ⟨pre, rest, hk, hp, _⟩ := position_eq_some.mp h
    cases h2 : position RBRACE rest with
    | none => exact Or.inr (Or.inl ⟨pre, rest, hk, hp, position_eq_none.mp h2⟩)
    | some j =>
      obtain ⟨tag, post, hr, ht, _⟩ := position_eq_some.mp h2
      exact Or.inr (Or.inr ⟨pre, tag, post, by rw [hk, hr], hp, ht⟩)

/-! ## slots -/

theorem SLOT_NUM_eq : SLOT_NUM = 16384 := rfl

theorem slotOf_lt (key : Bytes) : slotOf key < 16384 := by
  unfold slotOf
  rw [SLOT_NUM_eq]
  exact Nat.mod_lt _ (by decide)

theorem lockSlotOf_lt (key : Bytes) : lockSlotOf key < 16384 := by
  unfold lockSlotOf
  rw [SLOT_NUM_eq]
  exact Nat.mod_lt _ (by decide)

/-- keys with the same (non-empty) hash tag share a slot -/
theorem slotOf_eq_of_hashTag_eq {a b : Bytes} (h : getHashTag a = getHashTag b) : slotOf a = slotOf b := by
  unfold slotOf; rw [h]

/-! ## `same_slot` -/

theorem sameSlot_iff (ks : List Bytes) :
    sameSlot ks = true ↔ ∃ k rest, ks = k :: rest ∧ ∀ k' ∈ rest, slotOf k' = slotOf k := by
  cases ks with
  | nil => simp [sameSlot]
  | cons k rest =>
    simp only [sameSlot, List.all_eq_true, beq_iff_eq]
    constructor
    · intro h; exact ⟨k, rest, rfl, h⟩
    · rintro ⟨k', r', hk, h⟩
      injection hk with h1 h2
      subst h1; subst h2; exact h

/-- two keys in different slots make `same_slot` false (the refusal condition of the guards) -/
theorem sameSlot_false_of_ne {ks : List Bytes} {a b : Bytes} (ha : a ∈ ks) (hb : b ∈ ks)
    (h : slotOf a ≠ slotOf b) : sameSlot ks = false := by
  cases hs : sameSlot ks with
  | false => rfl
  | true =>
    obtain ⟨k, rest, hk, hall⟩ := (sameSlot_iff ks).mp hs
    subst hk
    have e : ∀ x ∈ k :: rest, slotOf x = slotOf k := by
      intro x hx
      rcases List.mem_cons.mp hx with e | e
      · rw [e]
      · exact hall x e
    exact absurd ((e a ha).trans (e b hb).symm) h

/-- when `same_slot` holds every key has the slot of the first one -/
theorem sameSlot_all_eq {ks : List Bytes} (hs : sameSlot ks = true) {a b : Bytes} (ha : a ∈ ks) (hb : b ∈ ks) :
    slotOf a = slotOf b := by
  cases h : decide (slotOf a = slotOf b) with
  | true => exact of_decide_eq_true h
  | false =>
    have := sameSlot_false_of_ne ha hb (of_decide_eq_false h)
    rw [hs] at this; cases this

end Um.Crc16
