import UmProofs.BrokerFailoverAlloc1
/-!
# C06 (allocation part): every chunk-list transformer of the model keeps the proxy pairs
-/
namespace Um.Broker.C06.Alloc
open Um Um.Slots

theorem srcChunks_pp (P : OutParams) : ∀ (l : List Chunk) (i : Nat) (st : LoopSt) (out : List Chunk) (st' : LoopSt),
    srcChunks P l i st = R.ok (out, st') → pp out = pp l
  | [], _, _, out, st', h => by
    simp only [srcChunks, pure_eq_ok, R.ok.injEq, Prod.mk.injEq] at h
    rw [← h.1]
  | ch :: rest, i, st, out, st', h => by
    unfold srcChunks at h
    cases h0 : ch.stable0 <;> cases h1 : ch.stable1 <;>
      simp only [h0, h1, bind_ok_iff, pure_eq_ok, ok_bind, Prod.exists, R.ok.injEq, Prod.mk.injEq] at h
    · obtain ⟨tl, _, h3, rfl, _⟩ := h
      simp [srcChunks_pp P rest _ _ _ _ h3]
    · obtain ⟨_, _, _, tl, _, h3, rfl, _⟩ := h
      simp [srcChunks_pp P rest _ _ _ _ h3]
    · obtain ⟨_, _, _, tl, _, h3, rfl, _⟩ := h
      simp [srcChunks_pp P rest _ _ _ _ h3]
    · obtain ⟨_, _, _, _, _, _, tl, _, h3, rfl, _⟩ := h
      simp [srcChunks_pp P rest _ _ _ _ h3]

theorem removeSlotsFromSrc_pp {cl : Cluster} {e : Nat} {chunks : List Chunk} {ms : List MigSlots}
    (h : removeSlotsFromSrc cl e = R.ok (chunks, ms)) : pp chunks = pp cl.chunks := by
  unfold removeSlotsFromSrc at h
  simp only [] at h
  split at h
  · exact absurd h (by simp)
  · obtain ⟨⟨c, st⟩, h1, h⟩ := bind_eq_ok h
    simp only [pure_eq_ok, R.ok.injEq, Prod.mk.injEq] at h
    obtain ⟨rfl, _⟩ := h
    exact srcChunks_pp _ _ _ _ _ _ h1

theorem downChunks_pp (P : DownParams) : ∀ (l : List Chunk) (i : Nat) (st : LoopSt) (out : List Chunk) (st' : LoopSt),
    downChunks P l i st = R.ok (out, st') → pp out = pp l
  | [], _, _, out, st', h => by
    simp only [downChunks, pure_eq_ok, R.ok.injEq, Prod.mk.injEq] at h
    rw [← h.1]
  | ch :: rest, i, st, out, st', h => by
    unfold downChunks at h
    cases h0 : ch.stable0 <;> cases h1 : ch.stable1 <;>
      simp only [h0, h1, bind_ok_iff, pure_eq_ok, ok_bind, Prod.exists, R.ok.injEq, Prod.mk.injEq] at h
    · obtain ⟨tl, _, h3, rfl, _⟩ := h
      simp [downChunks_pp P rest _ _ _ _ h3]
    · obtain ⟨_, _, _, tl, _, h3, rfl, _⟩ := h
      simp [downChunks_pp P rest _ _ _ _ h3]
    · obtain ⟨_, _, _, tl, _, h3, rfl, _⟩ := h
      simp [downChunks_pp P rest _ _ _ _ h3]
    · obtain ⟨_, _, _, _, _, _, tl, _, h3, rfl, _⟩ := h
      simp [downChunks_pp P rest _ _ _ _ h3]

theorem removeSlotsToScaleDown_pp {cl : Cluster} {e n : Nat} {chunks : List Chunk} {ms : List MigSlots}
    (h : removeSlotsToScaleDown cl e n = R.ok (chunks, ms)) : pp chunks = pp cl.chunks := by
  unfold removeSlotsToScaleDown at h
  simp only [] at h
  split at h
  · exact absurd h (by simp)
  · obtain ⟨⟨c, st⟩, h1, h⟩ := bind_eq_ok h
    simp only [pure_eq_ok, R.ok.injEq, Prod.mk.injEq] at h
    obtain ⟨rfl, _⟩ := h
    rw [pp_append, downChunks_pp _ _ _ _ _ _ h1, ← pp_append, List.take_append_drop]

theorem setMig_proxy {c c' : Chunk} {p : Nat} {v : List MigStore} (h : c.setMig p v = some c') :
    c'.proxy0 = c.proxy0 ∧ c'.proxy1 = c.proxy1 := by
  unfold Chunk.setMig at h
  split at h
  · simp only [Option.some.injEq] at h; subst h; exact ⟨rfl, rfl⟩
  · simp only [Option.some.injEq] at h; subst h; exact ⟨rfl, rfl⟩
  · exact absurd h (by simp)

theorem updateChunk_pp {chunks chunks' : List Chunk} {i : Nat} {f : Chunk → Option Chunk} {w : String}
    (hf : ∀ c c', f c = some c' → c'.proxy0 = c.proxy0 ∧ c'.proxy1 = c.proxy1)
    (h : updateChunk chunks i f w = R.ok chunks') : pp chunks' = pp chunks := by
  unfold updateChunk at h
  split at h
  · exact absurd h (by simp)
  · rename_i c hc
    split at h
    · exact absurd h (by simp)
    · rename_i c' hc'
      simp only [pure_eq_ok, R.ok.injEq] at h
      subst h
      exact pp_set hc (hf _ _ hc').1 (hf _ _ hc').2

theorem compactSlots_pp (l : List Chunk) : pp (compactSlots l) = pp l := by
  unfold compactSlots
  apply pp_map
  intro c
  exact ⟨rfl, rfl⟩

theorem migBind_proxy {c c' : Chunk} {p : Nat} {g : List MigStore → List MigStore}
    (h : ((c.mig p).bind fun l => c.setMig p (g l)) = some c') :
    c'.proxy0 = c.proxy0 ∧ c'.proxy1 = c.proxy1 := by
  cases hm : c.mig p with
  | none => rw [hm] at h; exact absurd h (by simp)
  | some l => rw [hm] at h; exact setMig_proxy h

theorem assignLoop_pp (F : List Chunk → MigSlots → R (List Chunk))
    (hF : ∀ l m l', F l m = R.ok l' → pp l' = pp l) :
    ∀ (ms : List MigSlots) (l l' : List Chunk), ms.foldlM F l = R.ok l' → pp l' = pp l
  | [], l, l', h => by
    simp only [List.foldlM_nil, pure_eq_ok, R.ok.injEq] at h
    rw [h]
  | m :: ms, l, l', h => by
    simp only [List.foldlM_cons] at h
    obtain ⟨l1, h1, h⟩ := bind_eq_ok h
    rw [assignLoop_pp F hF ms _ _ h, hF _ _ _ h1]

theorem assignDstSlots_pp {chunks chunks' : List Chunk} {ms : List MigSlots}
    (h : assignDstSlots chunks ms = R.ok chunks') : pp chunks' = pp chunks := by
  unfold assignDstSlots at h
  obtain ⟨l1, h1, h⟩ := bind_eq_ok h
  simp only [pure_eq_ok, R.ok.injEq] at h
  subst h
  rw [compactSlots_pp]
  refine assignLoop_pp _ ?_ _ _ _ h1
  intro l m l' hl
  obtain ⟨l2, h2, hl⟩ := bind_eq_ok hl
  rw [updateChunk_pp (fun c c' hc => migBind_proxy hc) hl, updateChunk_pp (fun c c' hc => migBind_proxy hc) h2]

theorem commitDst_pp (ranges : RangeList) (mm : MigMeta) : ∀ l : List Chunk, pp (commitDst ranges mm l) = pp l
  | [] => rfl
  | c :: rest => by
    unfold commitDst
    split
    · rfl
    · split
      · rfl
      · simp [commitDst_pp ranges mm rest]

theorem takeoverFirst_pp (failed : String) (e : Nat) : ∀ (l out : List Chunk) (pos : List (Nat × Nat)),
    takeoverFirst failed e l = some (out, pos) → pp out = pp l
  | [], out, pos, h => by
    simp only [takeoverFirst, Option.some.injEq, Prod.mk.injEq] at h
    rw [← h.1]
  | c :: rest, out, pos, h => by
    unfold takeoverFirst at h
    split at h
    · split at h
      · exact absurd h (by simp)
      · split at h <;>
        · simp only [Option.some.injEq, Prod.mk.injEq] at h
          rw [← h.1]; rfl
    · split at h
      · split at h
        · exact absurd h (by simp)
        · split at h <;>
          · simp only [Option.some.injEq, Prod.mk.injEq] at h
            rw [← h.1]; rfl
      · split at h
        · exact absurd h (by simp)
        · rename_i tl pos' htl
          simp only [Option.some.injEq, Prod.mk.injEq] at h
          rw [← h.1]
          simp [takeoverFirst_pp failed e rest _ _ htl]

theorem mem_replaceInChunks (failed : String) (np : ProxyRes) {a : String} : ∀ l : List Chunk,
    a ∈ addrsOf (pp (replaceInChunks failed np l)) → a ∈ addrsOf (pp l) ∨ a = np.addr
  | [], h => Or.inl h
  | c :: rest, h => by
    unfold replaceInChunks at h
    simp only [mem_addrsOf] at h ⊢
    split at h
    · simp only [pp_cons, List.mem_cons] at h ⊢
      obtain ⟨x, hx | hx, ha⟩ := h
      · subst hx
        rcases ha with ha | ha
        · exact Or.inr ha
        · exact Or.inl ⟨_, Or.inl rfl, Or.inr ha⟩
      · exact Or.inl ⟨x, Or.inr hx, ha⟩
    · split at h
      · simp only [pp_cons, List.mem_cons] at h ⊢
        obtain ⟨x, hx | hx, ha⟩ := h
        · subst hx
          rcases ha with ha | ha
          · exact Or.inl ⟨_, Or.inl rfl, Or.inl ha⟩
          · exact Or.inr ha
        · exact Or.inl ⟨x, Or.inr hx, ha⟩
      · simp only [pp_cons, List.mem_cons] at h ⊢
        obtain ⟨x, hx | hx, ha⟩ := h
        · exact Or.inl ⟨x, Or.inl hx, ha⟩
        · have := mem_replaceInChunks failed np rest (mem_addrsOf.2 ⟨x, hx, ha⟩)
          rcases this with h' | h'
          · obtain ⟨y, hy, hay⟩ := mem_addrsOf.1 h'
            exact Or.inl ⟨y, Or.inr hy, hay⟩
          · exact Or.inr h'

/-! ## chunk construction -/

def pairAddrs (arr : List (ProxyRes × ProxyRes)) : List (String × String) := arr.map fun x => (x.1.addr, x.2.addr)

theorem pairAddrs_cons (x : ProxyRes × ProxyRes) (l : List (ProxyRes × ProxyRes)) :
    pairAddrs (x :: l) = (x.1.addr, x.2.addr) :: pairAddrs l := rfl

theorem toChunksWithSlots_pp (av rem : Nat) : ∀ (arr : List (ProxyRes × ProxyRes)) (i curr : Nat) (out : List Chunk),
    toChunksWithSlots av rem arr i curr = R.ok out → pp out = pairAddrs arr
  | [], _, _, out, h => by
    simp only [toChunksWithSlots, pure_eq_ok, R.ok.injEq] at h
    rw [← h]; rfl
  | (a, b) :: rest, i, curr, out, h => by
    unfold toChunksWithSlots at h
    obtain ⟨⟨s0, c1⟩, _, h⟩ := bind_eq_ok h
    obtain ⟨⟨s1, c2⟩, _, h⟩ := bind_eq_ok h
    obtain ⟨tl, h3, h⟩ := bind_eq_ok h
    simp only [pure_eq_ok, R.ok.injEq] at h
    subst h
    rw [pp_cons, pairAddrs_cons, toChunksWithSlots_pp av rem rest _ _ _ h3]
    rfl

theorem proxyResourceToChunkStore_pp {arr : List (ProxyRes × ProxyRes)} {b : Bool} {out : List Chunk}
    (h : proxyResourceToChunkStore arr b = R.ok out) : pp out = pairAddrs arr := by
  unfold proxyResourceToChunkStore at h
  split at h
  · simp only [] at h
    split at h
    · exact absurd h (by simp)
    · exact toChunksWithSlots_pp _ _ _ _ _ _ h
  · simp only [pure_eq_ok, R.ok.injEq] at h
    subst h
    simp [pp, pairAddrs, mkChunk]

end Um.Broker.C06.Alloc
