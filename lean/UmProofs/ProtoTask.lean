import UmProofs.ProtoParse
/-!
Task descriptors (`MigrationTaskMeta`), the INFOMGR join/split journey, `SwitchArg`, the RESP
element filter, and the compressed path over an abstract `Codec`.
-/
namespace Um.Proto
open Um Um.Gen.Proto

/-! ## task descriptor and switch argument -/

def WfTask (t : TaskMeta) : Prop := validClusterName t.cluster = true ∧ WfSR t.slotRange

instance (t : TaskMeta) : Decidable (WfTask t) := by unfold WfTask; infer_instance

theorem TaskMeta.rt (t : TaskMeta) (rest : List Str) (h : WfTask t) :
    TaskMeta.fromStrings (t.intoStrings ++ rest) = some (t, rest) := by
  simp [TaskMeta.intoStrings, TaskMeta.fromStrings, h.1, SlotRange.rt t.slotRange rest h.2]

theorem TaskMeta.fromStrings_wf (ts : List Str) (t : TaskMeta) (rest : List Str)
    (h : TaskMeta.fromStrings ts = some (t, rest)) : WfTask t := by
  cases ts with
  | nil => simp [TaskMeta.fromStrings] at h
  | cons c ts =>
    simp only [TaskMeta.fromStrings] at h
    split at h
    · rename_i hc
      cases hs : SlotRange.fromStrings ts with
      | none => simp [hs] at h
      | some p =>
        obtain ⟨sr, r⟩ := p
        simp only [hs, Option.some.injEq, Prod.mk.injEq] at h
        obtain ⟨rfl, rfl⟩ := h
        exact ⟨hc, (SlotRange.fromStrings_facts ts sr r hs).2⟩
    · simp at h

theorem SwitchArg.rt (a : SwitchArg) (rest : List Str) (h : WfTask a.task) :
    SwitchArg.fromStrings (a.intoStrings ++ rest) = some (a, rest) := by
  simp [SwitchArg.intoStrings, SwitchArg.fromStrings, TaskMeta.rt a.task rest h]

/-- no token of the descriptor contains a space: the only free-form tokens are the four
addresses of the migration meta -/
def Tag.SpaceFree : Tag → Prop
  | .none => True
  | .migrating m => 32 ∉ m.srcProxy ∧ 32 ∉ m.srcNode ∧ 32 ∉ m.dstProxy ∧ 32 ∉ m.dstNode
  | .importing m => 32 ∉ m.srcProxy ∧ 32 ∉ m.srcNode ∧ 32 ∉ m.dstProxy ∧ 32 ∉ m.dstNode

instance (t : Tag) : Decidable t.SpaceFree := by cases t <;> unfold Tag.SpaceFree <;> infer_instance

theorem space_not_mem_decimal (n : Nat) : (32 : UInt8) ∉ decimal n := by
  intro h
  have := decimal_digits n 32 h
  simp at this

theorem space_not_mem_range (r : Range) : (32 : UInt8) ∉ r.toStr := by
  unfold Range.toStr
  intro h
  rcases List.mem_append.mp h with h | h
  · exact space_not_mem_decimal _ h
  · rcases List.mem_cons.mp h with h | h
    · simp at h
    · exact space_not_mem_decimal _ h

theorem space_not_mem_name (s : Str) (h : validClusterName s = true) : (32 : UInt8) ∉ s := by
  intro hm
  unfold validClusterName at h
  simp only [Bool.and_eq_true, List.all_eq_true] at h
  have := h.1 32 hm
  revert this; decide

theorem space_free_rangeStrings (l : RangeList) : ∀ t ∈ RangeList.toStrings l, (32 : UInt8) ∉ t := by
  intro t ht
  unfold RangeList.toStrings at ht
  rcases List.mem_cons.mp ht with rfl | ht
  · exact space_not_mem_decimal _
  · rw [List.mem_map] at ht
    obtain ⟨r, _, rfl⟩ := ht
    exact space_not_mem_range r

theorem space_free_mig (m : MigrationMeta) (h : 32 ∉ m.srcProxy ∧ 32 ∉ m.srcNode ∧ 32 ∉ m.dstProxy ∧ 32 ∉ m.dstNode) :
    ∀ t ∈ m.intoStrings, (32 : UInt8) ∉ t := by
  intro t ht
  simp only [MigrationMeta.intoStrings, List.mem_cons, List.not_mem_nil, or_false] at ht
  rcases ht with rfl | rfl | rfl | rfl | rfl
  · exact space_not_mem_decimal _
  · exact h.1
  · exact h.2.1
  · exact h.2.2.1
  · exact h.2.2.2

theorem space_free_task (t : TaskMeta) (h : WfTask t) (hs : t.slotRange.tag.SpaceFree) :
    ∀ tok ∈ t.intoStrings, (32 : UInt8) ∉ tok := by
  obtain ⟨c, ⟨rl, tag⟩⟩ := t
  intro tok ht
  unfold TaskMeta.intoStrings at ht
  rcases List.mem_cons.mp ht with rfl | ht
  · exact space_not_mem_name _ h.1
  · cases tag with
    | none => exact space_free_rangeStrings rl tok ht
    | migrating m =>
      simp only [SlotRange.intoStrings] at ht
      rcases List.mem_cons.mp ht with rfl | ht
      · decide
      · rcases List.mem_append.mp ht with ht | ht
        · exact space_free_rangeStrings rl tok ht
        · exact space_free_mig m hs tok ht
    | importing m =>
      simp only [SlotRange.intoStrings] at ht
      rcases List.mem_cons.mp ht with rfl | ht
      · decide
      · rcases List.mem_append.mp ht with ht | ht
        · exact space_free_rangeStrings rl tok ht
        · exact space_free_mig m hs tok ht

/-- **the INFOMGR journey**: `join(" ")` on the proxy, `split(' ')` + `from_strings` on the
coordinator -/
theorem infoMgr_rt (t : TaskMeta) (h : WfTask t) (hs : t.slotRange.tag.SpaceFree) :
    infoMgrDecode (infoMgrEncode t) = some t := by
  unfold infoMgrDecode infoMgrEncode
  rw [splitOn_joinWith 32 t.intoStrings (by simp [TaskMeta.intoStrings]) (space_free_task t h hs)]
  have := TaskMeta.rt t [] h
  rw [List.append_nil] at this
  rw [this]; rfl

/-! ## the RESP element filter -/

theorem filterElems_bulk (strict : Bool) (ts : List Str) (h : ∀ t ∈ ts, validUtf8 t = true) :
    filterElems strict (ts.map Elem.bulk) = some ts := by
  induction ts with
  | nil => rfl
  | cons t ts ih =>
    simp only [List.map_cons, filterElems, h t (List.mem_cons_self ..), if_true]
    rw [ih (fun x hx => h x (List.mem_cons_of_mem _ hx))]; rfl

/-- an element that is not a UTF-8 bulk string -/
def Elem.Invalid : Elem → Prop
  | .bulk b => validUtf8 b = false
  | _ => True

instance (e : Elem) : Decidable e.Invalid := by cases e <;> unfold Elem.Invalid <;> infer_instance

theorem filterElems_strict_invalid (es : List Elem) (h : ∃ e ∈ es, e.Invalid) : filterElems true es = none := by
  induction es with
  | nil => obtain ⟨e, he, _⟩ := h; cases he
  | cons x xs ih =>
    obtain ⟨e, he, hinv⟩ := h
    rcases List.mem_cons.mp he with rfl | he
    · cases e with
      | bulk b => simp only [Elem.Invalid] at hinv; simp [filterElems, hinv]
      | simple b => simp [filterElems]
      | other => simp [filterElems]
    · have := ih ⟨e, he, hinv⟩
      cases x with
      | bulk b =>
        simp only [filterElems]
        split
        · simp [this]
        · rfl
      | simple b => simp [filterElems]
      | other => simp [filterElems]

theorem strictStrings_bulk (ts : List Str) (h : ∀ t ∈ ts, validUtf8 t = true) :
    strictStrings (ts.map Elem.bulk) = some ts := by
  induction ts with
  | nil => rfl
  | cons t ts ih =>
    simp only [List.map_cons, strictStrings, h t (List.mem_cons_self ..), if_true]
    rw [ih (fun x hx => h x (List.mem_cons_of_mem _ hx))]; rfl

theorem strictStrings_invalid (es : List Elem) (h : ∃ e ∈ es, e.Invalid ∧ ∀ b, e ≠ .simple b ∨ validUtf8 b = false) :
    strictStrings es = none := by
  induction es with
  | nil => obtain ⟨e, he, _⟩ := h; cases he
  | cons x xs ih =>
    obtain ⟨e, he, hinv, hs⟩ := h
    rcases List.mem_cons.mp he with rfl | he
    · cases e with
      | bulk b => simp only [Elem.Invalid] at hinv; simp [strictStrings, hinv]
      | simple b =>
        rcases hs b with hh | hh
        · exact absurd rfl hh
        · simp [strictStrings, hh]
      | other => simp [strictStrings]
    · have := ih ⟨e, he, hinv, hs⟩
      cases x with
      | bulk b => simp only [strictStrings]; split <;> simp [this]
      | simple b => simp only [strictStrings]; split <;> simp [this]
      | other => simp [strictStrings]

/-! ## compressed path -/

def ReprSR (sr : SlotRange) : Prop := (∀ r ∈ sr.ranges, r.s ≤ u64Max ∧ r.e ≤ u64Max) ∧ sr.tag.EpochOk

def ReprMap (nm : NodeMap) : Prop := nm.keys.Nodup ∧ ∀ p ∈ nm, ∀ sr ∈ p.2, ReprSR sr

/-- a value the Rust type `ProxyClusterMetaData` can hold -/
def ReprData (d : MetaData) : Prop :=
  validClusterName d.cluster = true ∧ ReprMap d.local ∧ ReprMap d.peer ∧
    d.config.maxMigrationTime ≤ u64Max ∧ d.config.maxBlockingTime ≤ u64Max ∧
    d.config.scanInterval ≤ u64Max ∧ d.config.scanCount ≤ u64Max

/-- equality of `ProxyClusterMetaData` as Rust sees it: `HashMap`s have no order -/
def DataEquiv (a b : MetaData) : Prop :=
  a.cluster = b.cluster ∧ a.local.Perm b.local ∧ a.peer.Perm b.peer ∧ a.config = b.config

/-- equality of `ProxyClusterMeta` up to the order of the node groups (DESIGN §2.3) -/
def MetaEquiv (a b : Meta) : Prop :=
  a.version = b.version ∧ a.epoch = b.epoch ∧ a.flags = b.flags ∧ a.cluster = b.cluster ∧
    a.local.Perm b.local ∧ a.peer.Perm b.peer ∧ a.config = b.config

theorem MetaEquiv.refl (a : Meta) : MetaEquiv a a := ⟨rfl, rfl, rfl, rfl, List.Perm.refl _, List.Perm.refl _, rfl⟩

/-- JSON ∘ gzip ∘ base64 as an abstract lossless codec: a *hypothesis* (structure field), sampled
against the real crates by the correspondence on every run — never an axiom -/
structure Codec where
  enc : MetaData → Str
  dec : Str → Option MetaData
  dec_enc : ∀ d, ReprData d → ∃ d', dec (enc d) = some d' ∧ DataEquiv d' d

theorem wfMap_repr (nm : NodeMap) (h : WfMap nm) : ReprMap nm :=
  ⟨h.1, fun p hp sr hsr => ⟨((h.2 p hp).2.2 sr hsr).1.2.2, ((h.2 p hp).2.2 sr hsr).2⟩⟩

theorem wfMeta_repr (m : Meta) (h : WfMeta m) : ReprData m.data :=
  ⟨h.2.2.2.1, wfMap_repr _ h.2.2.2.2.1, wfMap_repr _ h.2.2.2.2.2.1, h.2.2.2.2.2.2.1, h.2.2.2.2.2.2.2.1,
    h.2.2.2.2.2.2.2.2.1, h.2.2.2.2.2.2.2.2.2.1⟩

theorem compress_flag (f : Bool) : (Flags.fromArg (Flags.toArg ⟨f, true⟩)).compress = true := by
  cases f <;> decide

/-- **compressed encoding, any range lists**, for any codec: the blob decodes to the meta with
every range list compacted (up to the order of the groups) -/
theorem parseWith_compressed (c : Codec) (m : Meta) (hv : m.version = SET_CLUSTER_API_VERSION)
    (he : m.epoch ≤ u64Max) (hf : m.flags.compress = true) (hr : ReprData m.data) :
    ∃ m', parseWith c.dec (m.toCompressedArgs c.enc) = .ok (m', true) ∧ MetaEquiv m' m.compacted := by
  obtain ⟨d', hd, hc, hl, hp, hcfg⟩ := c.dec_enc m.data hr
  refine ⟨⟨m.version, m.epoch, m.flags, d'.cluster, d'.local.compacted, d'.peer.compacted, d'.config⟩, ?_,
    rfl, rfl, rfl, hc, hl.map _, hp.map _, hcfg⟩
  unfold parseWith Meta.toCompressedArgs
  have hfl : Flags.fromArg m.flags.toArg = m.flags := flags_rt _
  simp only [hv, bne_self_eq_false, Bool.false_eq_true, if_false, parseUnsigned_decimal _ he, hfl, hf, if_true, hd]

/-- what `BdMeta` gives the codec hypothesis -/
theorem bdMap_repr (nm : NodeMap) (h : BdMap nm) : ReprMap nm :=
  ⟨h.1, fun p hp sr hsr => ⟨((h.2 p hp).2.2 sr hsr).1.2, ((h.2 p hp).2.2 sr hsr).2⟩⟩

theorem bdMeta_repr (m : Meta) (h : BdMeta m) : ReprData m.data :=
  ⟨h.2.2.2.1, bdMap_repr _ h.2.2.2.2.1, bdMap_repr _ h.2.2.2.2.2.1, h.2.2.2.2.2.2.1, h.2.2.2.2.2.2.2.1,
    h.2.2.2.2.2.2.2.2.1, h.2.2.2.2.2.2.2.2.2.1⟩

end Um.Proto
