import UmProofs.BrokerViewPartA
/-!
# C01, view layer, part B: `PartitionView` and the shape of `viewP`

`PartitionView v` is the property C01 asks of a served whole-cluster view. This file defines it
and shows how the nodes of `viewP cl` decompose: per chunk, two master nodes (one per chunk
half, carrying that half's stable and pending ranges) and two replica nodes without slots.
-/
namespace Um.Broker
open Um Um.Slots

/-! ## the property -/

/-- a slot range that makes its node the owner of the slots: stable or migrating-out -/
def SlotRange.isOwned (s : SlotRange) : Bool :=
  match s.tag with
  | .importing _ => false
  | _ => true

def VNode.ownedSlots (n : VNode) : List Nat :=
  (n.slots.filter SlotRange.isOwned).flatMap fun s => slotsOf s.ranges

/-- all slots owned by master nodes, with multiplicity -/
def VCluster.ownedSlots (v : VCluster) : List Nat :=
  (v.nodes.filter fun n => !n.replica).flatMap VNode.ownedSlots

/-- every (node, slot range) occurrence in the view whose slot range satisfies `p` -/
def VCluster.occ (v : VCluster) (p : SlotRange → Bool) : List (VNode × SlotRange) :=
  v.nodes.flatMap fun n => (n.slots.filter p).map fun s => (n, s)

/-- `s` is an importing range with range list `rl` and migration meta `info` -/
def isImportingOf (rl : RangeList) (info : MigInfo) (s : SlotRange) : Bool :=
  s.ranges == rl && s.tag == Tag.importing info

/-- `s` is a migrating-out range with range list `rl` and migration meta `info` -/
def isMigratingOf (rl : RangeList) (info : MigInfo) (s : SlotRange) : Bool :=
  s.ranges == rl && s.tag == Tag.migrating info

/-- **C01 for one served whole-cluster view.**
(1) the slots of the stable and migrating-out ranges of the master nodes are exactly
`0 … SLOT_NUM-1`, each once; (2) replicas own nothing; (3) a migrating-out range sits on the
master named by its meta's source, and the view contains exactly one importing range with the
same range list and the same meta (epoch and all four addresses), on a master whose address
and proxy are the meta's destination; (4) the mirror image for importing ranges. -/
structure PartitionView (v : VCluster) : Prop where
  owned : v.ownedSlots.Perm (List.range SLOT_NUM)
  replicas : ∀ n ∈ v.nodes, n.replica = true → n.slots = []
  migrating : ∀ n ∈ v.nodes, ∀ sr ∈ n.slots, ∀ info, sr.tag = Tag.migrating info →
    info.srcNode = n.address ∧ info.srcProxy = n.proxy ∧ n.replica = false ∧
    ∃ n' s', v.occ (isImportingOf sr.ranges info) = [(n', s')] ∧
      n'.address = info.dstNode ∧ n'.proxy = info.dstProxy ∧ n'.replica = false
  importing : ∀ n ∈ v.nodes, ∀ sr ∈ n.slots, ∀ info, sr.tag = Tag.importing info →
    info.dstNode = n.address ∧ info.dstProxy = n.proxy ∧ n.replica = false ∧
    ∃ n' s', v.occ (isMigratingOf sr.ranges info) = [(n', s')] ∧
      n'.address = info.srcNode ∧ n'.proxy = info.srcProxy ∧ n'.replica = false

/-! ## masters and replicas of a chunk -/

def stableD (c : Chunk) (part : Nat) : Option RangeList := if part = 0 then c.stable0 else c.stable1
def migD (c : Chunk) (part : Nat) : List MigStore := if part = 0 then c.mig0 else c.mig1

/-- the master node of chunk half `part` -/
def masterNode (c : Chunk) (chunks : List Chunk) (part : Nat) : VNode :=
  { address := halfNode c part
    proxy := halfProxy c part
    slots := partSlotsP chunks (stableD c part) (migD c part)
    replica := false
    peers := [(nodeD c (3 - nodeIdx part c.role), proxyD c ((3 - nodeIdx part c.role) / 2))] }

/-- node `i` of a chunk when it is a replica -/
def replicaNode (c : Chunk) (i : Nat) : VNode :=
  { address := nodeD c i
    proxy := proxyD c (i / 2)
    slots := []
    replica := true
    peers := [(nodeD c (3 - i), proxyD c ((3 - i) / 2))] }

/-- the two replica node indices per role position -/
def repIdx : RolePos → Nat × Nat
  | .normal => (1, 3)
  | .first => (2, 3)
  | .second => (0, 1)

/-- the four nodes of a chunk in view order, by role position -/
theorem chunkNodesP_eq (c : Chunk) (chunks : List Chunk) :
    chunkNodesP c chunks =
      match c.role with
      | .normal => [masterNode c chunks 0, replicaNode c 1, masterNode c chunks 1, replicaNode c 3]
      | .first => [masterNode c chunks 0, masterNode c chunks 1, replicaNode c 2, replicaNode c 3]
      | .second => [replicaNode c 0, replicaNode c 1, masterNode c chunks 1, masterNode c chunks 0] := by
  have h4 : List.range Um.Gen.Chunk.CHUNK_NODE_NUM = [0, 1, 2, 3] := by decide
  unfold chunkNodesP
  rw [h4]
  rcases hr : c.role with _ | _ | _ <;>
    simp [chunkNodeP, masterNode, replicaNode, hr, halfNode, halfProxy, stableD, migD,
      show nodeIdx 0 RolePos.normal = 0 from rfl, show nodeIdx 1 RolePos.normal = 2 from rfl,
      show nodeIdx 0 RolePos.first = 0 from rfl, show nodeIdx 1 RolePos.first = 1 from rfl,
      show nodeIdx 0 RolePos.second = 3 from rfl, show nodeIdx 1 RolePos.second = 2 from rfl,
      show replicaD RolePos.normal 0 = false from rfl, show replicaD RolePos.normal 1 = true from rfl,
      show replicaD RolePos.normal 2 = false from rfl, show replicaD RolePos.normal 3 = true from rfl,
      show replicaD RolePos.first 0 = false from rfl, show replicaD RolePos.first 1 = false from rfl,
      show replicaD RolePos.first 2 = true from rfl, show replicaD RolePos.first 3 = true from rfl,
      show replicaD RolePos.second 0 = true from rfl, show replicaD RolePos.second 1 = true from rfl,
      show replicaD RolePos.second 2 = false from rfl, show replicaD RolePos.second 3 = false from rfl]

/-- up to order, a chunk contributes its two masters and two replicas -/
theorem chunkNodesP_perm (c : Chunk) (chunks : List Chunk) :
    (chunkNodesP c chunks).Perm
      [masterNode c chunks 0, masterNode c chunks 1, replicaNode c (repIdx c.role).1, replicaNode c (repIdx c.role).2] := by
  rw [chunkNodesP_eq]
  rcases hr : c.role with _ | _ | _ <;> simp only [repIdx]
  · exact List.Perm.cons _ (List.Perm.swap _ _ _)
  · exact List.Perm.refl _
  · -- [r0, r1, m1, m0] ~ [m0, m1, r0, r1]
    have h1 : [replicaNode c 0, replicaNode c 1, masterNode c chunks 1, masterNode c chunks 0].Perm
        ([masterNode c chunks 1, masterNode c chunks 0] ++ [replicaNode c 0, replicaNode c 1]) :=
      List.perm_append_comm (l₁ := [replicaNode c 0, replicaNode c 1])
    exact h1.trans (List.Perm.swap _ _ _)

theorem mem_chunkNodesP (c : Chunk) (chunks : List Chunk) (n : VNode) (h : n ∈ chunkNodesP c chunks) :
    n = masterNode c chunks 0 ∨ n = masterNode c chunks 1 ∨ ∃ i, n = replicaNode c i := by
  have := (chunkNodesP_perm c chunks).mem_iff.mp h
  simp only [List.mem_cons, List.not_mem_nil, or_false] at this
  rcases this with h | h | h | h
  · exact Or.inl h
  · exact Or.inr (Or.inl h)
  · exact Or.inr (Or.inr ⟨_, h⟩)
  · exact Or.inr (Or.inr ⟨_, h⟩)

theorem masterNode_mem (c : Chunk) (chunks : List Chunk) (part : Nat) (h : part < 2) :
    masterNode c chunks part ∈ chunkNodesP c chunks := by
  apply (chunkNodesP_perm c chunks).mem_iff.mpr
  have : part = 0 ∨ part = 1 := by omega
  rcases this with rfl | rfl <;> simp

theorem bv_perm_flatMap_left {α β} (l : List α) (f g : α → List β) (h : ∀ a ∈ l, (f a).Perm (g a)) :
    (l.flatMap f).Perm (l.flatMap g) := by
  induction l with
  | nil => exact List.Perm.refl _
  | cons a as ih =>
    simp only [List.flatMap_cons]
    exact (h a (by simp)).append (ih fun x hx => h x (by simp [hx]))

/-- **flattening the view**: for any per-node quantity that vanishes on slot-less replicas, summing
it over the view's nodes is, up to order, summing it over the two masters of every chunk -/
theorem flatMap_nodes_perm {β} (cl : Cluster) (f : VNode → List β) (hf : ∀ c i, f (replicaNode c i) = []) :
    ((viewP cl).nodes.flatMap f).Perm
      (cl.chunks.flatMap fun c => f (masterNode c cl.chunks 0) ++ f (masterNode c cl.chunks 1)) := by
  simp only [viewP, List.flatMap_assoc]
  apply bv_perm_flatMap_left
  intro c _
  have := (chunkNodesP_perm c cl.chunks).flatMap_right f
  simpa [hf] using this

/-- where a slot range of the view comes from -/
theorem mem_view_slots (cl : Cluster) (n : VNode) (sr : SlotRange)
    (hn : n ∈ (viewP cl).nodes) (hs : sr ∈ n.slots) :
    ∃ (i : Nat) (c : Chunk) (part : Nat), cl.chunks[i]? = some c ∧ part < 2 ∧ n = masterNode c cl.chunks part ∧
      (sr ∈ stableSR (stableD c part) ∨ ∃ m ∈ migD c part, sr = toSlotRangeP cl.chunks m) := by
  simp only [viewP, List.mem_flatMap] at hn
  obtain ⟨c, hc, hn⟩ := hn
  obtain ⟨i, hi, hget⟩ := List.getElem_of_mem hc
  have hget' : cl.chunks[i]? = some c := by rw [List.getElem?_eq_getElem hi, hget]
  have hsplit : ∀ part, part < 2 → n = masterNode c cl.chunks part →
      (sr ∈ stableSR (stableD c part) ∨ ∃ m ∈ migD c part, sr = toSlotRangeP cl.chunks m) := by
    intro part _ hnp
    rw [hnp] at hs
    simp only [masterNode, partSlotsP, List.mem_append, List.mem_map] at hs
    rcases hs with hs | ⟨m, hm, rfl⟩
    · exact Or.inl hs
    · exact Or.inr ⟨m, hm, rfl⟩
  rcases mem_chunkNodesP c cl.chunks n hn with h | h | ⟨j, h⟩
  · exact ⟨i, c, 0, hget', by omega, h, hsplit 0 (by omega) h⟩
  · exact ⟨i, c, 1, hget', by omega, h, hsplit 1 (by omega) h⟩
  · rw [h] at hs; simp [replicaNode] at hs

theorem mem_view_nodes (cl : Cluster) (n : VNode) (hn : n ∈ (viewP cl).nodes) :
    ∃ c ∈ cl.chunks, n = masterNode c cl.chunks 0 ∨ n = masterNode c cl.chunks 1 ∨ ∃ i, n = replicaNode c i := by
  simp only [viewP, List.mem_flatMap] at hn
  obtain ⟨c, hc, hn⟩ := hn
  exact ⟨c, hc, mem_chunkNodesP c cl.chunks n hn⟩

end Um.Broker
