import UmProofs.BrokerDefs
/-!
# `migrate_slots` never panics (C12, migration planner part)

`migrateSlots_no_panic`: under the size hypothesis `MigPre` on the cluster found by name, no
`expect`/index/underflow/fuel panic of the planner (`removeSlotsFromSrc`, `srcWhile`,
`assignDstSlots`, `updateChunk`) is reachable.
-/
namespace Um.Broker
open Um Um.Slots

/-- size hypothesis: at most SLOT_NUM masters, every stable range list counts at most SLOT_NUM slots -/
def MigPre (c : Cluster) : Prop :=
  c.chunks.length * 2 ≤ SLOT_NUM ∧ ∀ ch ∈ c.chunks, ∀ rl ∈ ch.stables, slotsNum rl ≤ SLOT_NUM

namespace Mig

/-! ## `R` monad and range-count helpers -/

theorem ok_bind {α β} (a : α) (f : α → R β) : (R.ok a >>= f) = f a := rfl
theorem pure_eq {α} (a : α) : (pure a : R α) = R.ok a := rfl

theorem rangeNum_pos (r : Range) : 1 ≤ rangeNum r := by unfold rangeNum; omega

theorem slotsNum_nil : slotsNum [] = 0 := rfl
theorem slotsNum_cons (r : Range) (l : RangeList) : slotsNum (r :: l) = rangeNum r + slotsNum l := by
  simp [slotsNum]
theorem slotsNum_snoc (l : RangeList) (r : Range) : slotsNum (l ++ [r]) = slotsNum l + rangeNum r := by
  simp [slotsNum]

theorem slotsNum_getLast (l : RangeList) (last : Range) (h : l.getLast? = some last) :
    slotsNum l = slotsNum l.dropLast + rangeNum last := by
  have hne : l ≠ [] := by intro h0; simp [h0] at h
  have hl : l.getLast hne = last := by
    rw [List.getLast?_eq_some_getLast hne] at h; exact Option.some.inj h
  have := List.dropLast_concat_getLast hne
  rw [hl] at this
  rw [← slotsNum_snoc, this]

/-- every planned migration names existing chunk halves of a cluster with `n` chunks -/
def Good (n : Nat) (m : MigSlots) : Prop :=
  m.mm.srcChunk < n ∧ m.mm.srcPart < 2 ∧ m.mm.dstChunk < n ∧ m.mm.dstPart < 2

/-! ## the inner loop -/

/-- loop invariant of `remove_slots_from_src` -/
def SrcInv (P : OutParams) (n : Nat) (st : LoopSt) : Prop :=
  st.dstIdx ≤ P.dstMasterNum ∧
  st.curNum ≤ P.average + (if P.srcMasterNum + st.dstIdx < P.remainder then 1 else 0) ∧
  ∀ m ∈ st.out, Good n m

/-- the result is `ok a` with `Q a` -/
def OkWith {α} (r : R α) (Q : α → Prop) : Prop := ∃ a, r = .ok a ∧ Q a

theorem okWith_ok {α} (a : α) (Q : α → Prop) (h : Q a) : OkWith (R.ok a) Q := ⟨a, rfl, h⟩
theorem okWith_pure {α} (a : α) (Q : α → Prop) (h : Q a) : OkWith (pure a : R α) Q := ⟨a, rfl, h⟩
theorem okWith_bind {α β} (x : R α) (f : α → R β) (Q : β → Prop)
    (h : OkWith x (fun a => OkWith (f a) Q)) : OkWith (x >>= f) Q := by
  obtain ⟨a, rfl, h⟩ := h; exact h
theorem okWith_mono {α} (r : R α) (Q Q' : α → Prop) (h : OkWith r Q) (hq : ∀ a, Q a → Q' a) :
    OkWith r Q' := by
  obtain ⟨a, rfl, h⟩ := h; exact ⟨a, rfl, hq a h⟩

/-- the `MigrationSlots` record the loop emits -/
def srcMs (P : OutParams) (i part : Nat) (st : LoopSt) (cur' : List Range) : MigSlots :=
  { ranges := rlNew cur',
    mm := { epoch := P.epoch, srcChunk := i, srcPart := part,
            dstChunk := P.srcChunkNum + st.dstIdx / 2, dstPart := st.dstIdx % 2 } }

theorem good_srcMs (P : OutParams) (n i part : Nat) (hi : i < n) (hp : part < 2)
    (hP : 2 * P.srcChunkNum + P.dstMasterNum ≤ 2 * n) (st : LoopSt) (cur' : List Range)
    (hlt : st.dstIdx < P.dstMasterNum) : Good n (srcMs P i part st cur') := by
  unfold Good srcMs
  simp only
  omega

theorem good_snoc (n : Nat) (l : List MigSlots) (m : MigSlots) (hl : ∀ x ∈ l, Good n x) (hm : Good n m) :
    ∀ x ∈ l ++ [m], Good n x := by
  intro x hx
  rcases List.mem_append.mp hx with h | h
  · exact hl x h
  · rw [List.mem_singleton.mp h]; exact hm

/-! ## the generic fuel loop -/

/-- outcome of one loop body: `done` or `cont` with the invariant kept, `cont` below the bound `m` -/
def StepRes {α} (r : R (Iter α)) (Inv : α → Prop) (μ : α → Nat) (m : Nat) : Prop :=
  (∃ a', r = .ok (.done a') ∧ Inv a') ∨ (∃ a', r = .ok (.cont a') ∧ Inv a' ∧ μ a' < m)

theorem stepRes_done {α} (a' : α) (Inv : α → Prop) (μ : α → Nat) (m : Nat) (h : Inv a') :
    StepRes (R.ok (Iter.done a')) Inv μ m := Or.inl ⟨a', rfl, h⟩
theorem stepRes_cont {α} (a' : α) (Inv : α → Prop) (μ : α → Nat) (m : Nat) (h : Inv a') (hm : μ a' < m) :
    StepRes (R.ok (Iter.cont a')) Inv μ m := Or.inr ⟨a', rfl, h, hm⟩

/-- a body that keeps `Inv` and strictly decreases `μ` on `cont` makes `iterate` succeed whenever
the fuel exceeds the measure -/
theorem iterate_ok {α} (f : α → R (Iter α)) (Inv : α → Prop) (μ : α → Nat)
    (hstep : ∀ a, Inv a → StepRes (f a) Inv μ (μ a)) :
    ∀ (fuel : Nat) (a : α), Inv a → μ a < fuel → OkWith (iterate f fuel a) Inv := by
  intro fuel
  induction fuel with
  | zero => intro a _ h; omega
  | succ k ih =>
    intro a ha hm
    unfold iterate
    rcases hstep a ha with ⟨a', h, hi⟩ | ⟨a', h, hi, hlt⟩
    · rw [h]; exact ⟨a', rfl, hi⟩
    · rw [h]; exact ih a' hi (by omega)

/-! ## the inner loop -/

/-- decreasing measure of both inner loops -/
def loopMu (dstMasterNum : Nat) (x : RangeList × LoopSt) : Nat :=
  slotsNum x.1 + (dstMasterNum - x.2.dstIdx)

/-- the part of one iteration after the slots have been taken from the last range -/
theorem src_tail (P : OutParams) (n i part : Nat) (hi : i < n) (hp : part < 2)
    (hP : 2 * P.srcChunkNum + P.dstMasterNum ≤ 2 * n) (m : Nat)
    (st : LoopSt) (srcFinal dstFinal : Nat)
    (e3 : dstFinal = P.average + if P.srcMasterNum + st.dstIdx < P.remainder then 1 else 0)
    (rl' : RangeList) (cur' : List Range) (curNum' : Nat)
    (hlt : st.dstIdx < P.dstMasterNum) (h3 : ∀ m ∈ st.out, Good n m)
    (hc : curNum' ≤ dstFinal)
    (hm : slotsNum rl' + (P.dstMasterNum - st.dstIdx) < m ∨
          (slotsNum rl' + (P.dstMasterNum - st.dstIdx) ≤ m ∧ dstFinal ≤ curNum')) :
    StepRes
      (if (decide (curNum' ≥ dstFinal) || decide (slotsNum rl' ≤ srcFinal)) = true then
        if slotsNum rl' ≤ srcFinal then
          R.ok (Iter.done (rl',
            if curNum' ≥ dstFinal then
              { dstIdx := st.dstIdx + 1, curSlots := [], curNum := 0, out := st.out ++ [srcMs P i part st cur'] }
            else { dstIdx := st.dstIdx, curSlots := [], curNum := curNum', out := st.out ++ [srcMs P i part st cur'] }))
        else
          R.ok (Iter.cont (rl',
            if curNum' ≥ dstFinal then
              { dstIdx := st.dstIdx + 1, curSlots := [], curNum := 0, out := st.out ++ [srcMs P i part st cur'] }
            else { dstIdx := st.dstIdx, curSlots := [], curNum := curNum', out := st.out ++ [srcMs P i part st cur'] }))
      else
        R.ok (Iter.cont (rl', { dstIdx := st.dstIdx, curSlots := cur', curNum := curNum', out := st.out })))
      (fun x : RangeList × LoopSt => SrcInv P n x.2) (loopMu P.dstMasterNum) m := by
  have hg := good_snoc n st.out _ h3 (good_srcMs P n i part hi hp hP st cur' hlt)
  by_cases a : curNum' ≥ dstFinal
  · have inv2 : SrcInv P n (LoopSt.mk (st.dstIdx + 1) [] 0 (st.out ++ [srcMs P i part st cur'])) := ⟨by simp only; omega, by simp only; omega, hg⟩
    by_cases b : slotsNum rl' ≤ srcFinal
    · simp only [a, b, decide_true, Bool.or_self, if_true]
      exact stepRes_done _ _ _ _ inv2
    · simp only [a, b, decide_true, decide_false, Bool.or_false, if_true, if_false]
      exact stepRes_cont _ _ _ _ inv2 (by simp only [loopMu]; omega)
  · have inv2 : SrcInv P n (LoopSt.mk st.dstIdx [] curNum' (st.out ++ [srcMs P i part st cur'])) := ⟨by simp only; omega, by simp only; omega, hg⟩
    by_cases b : slotsNum rl' ≤ srcFinal
    · simp only [a, b, decide_true, decide_false, Bool.false_or, if_true, if_false]
      exact stepRes_done _ _ _ _ inv2
    · simp only [a, b, decide_false, Bool.or_self, if_false]
      exact stepRes_cont _ _ _ _ ⟨by simp only; omega, by simp only; omega, h3⟩ (by simp only [loopMu]; omega)

/-- one iteration of the loop body: no panic, invariant kept, measure decreases on `cont` -/
theorem srcBody_step (P : OutParams) (n i part : Nat) (hi : i < n) (hp : part < 2)
    (hP : 2 * P.srcChunkNum + P.dstMasterNum ≤ 2 * n) (rl : RangeList) (st : LoopSt)
    (hinv : SrcInv P n st) :
    StepRes (srcBody P i part (rl, st)) (fun x : RangeList × LoopSt => SrcInv P n x.2)
      (loopMu P.dstMasterNum) (loopMu P.dstMasterNum (rl, st)) := by
  obtain ⟨h1, h2, h3⟩ := hinv
  show StepRes _ _ _ (slotsNum rl + (P.dstMasterNum - st.dstIdx))
  generalize hmv : slotsNum rl + (P.dstMasterNum - st.dstIdx) = m
  unfold srcBody
  extract_lets rl0 st0 srcFinal dstFinal removeNum
  have e0 : rl0 = rl := rfl
  have e1 : st0 = st := rfl
  have e3 : dstFinal = P.average + if P.srcMasterNum + st0.dstIdx < P.remainder then 1 else 0 := rfl
  have e6 : removeNum = min (dstFinal - st0.curNum) (slotsNum rl0 - srcFinal) := rfl
  clear_value removeNum dstFinal srcFinal st0 rl0
  subst e0 e1
  split
  · exact stepRes_done _ _ _ _ ⟨h1, h2, h3⟩
  · rename_i hne
    have hlt : st0.dstIdx < P.dstMasterNum := by simp at hne; omega
    split
    · exact stepRes_done _ _ _ _ ⟨h1, h2, h3⟩
    · split
      · omega
      · rename_i hs hd
        split
        · rename_i hl
          rw [List.getLast?_eq_none_iff] at hl
          subst hl
          simp only [slotsNum_nil] at hs
          omega
        · rename_i last hl
          extract_lets num rl' cur' curNum'
          have e7 : num = rangeNum last := rfl
          have hsum := slotsNum_getLast rl0 last hl
          have hpos := rangeNum_pos last
          have hfacts : curNum' ≤ dstFinal ∧
              (slotsNum rl' + (P.dstMasterNum - st0.dstIdx) < m ∨
                (slotsNum rl' + (P.dstMasterNum - st0.dstIdx) ≤ m ∧ dstFinal ≤ curNum')) := by
            by_cases hr : removeNum ≥ num
            · have er : rl' = rl0.dropLast := if_pos hr
              have ec : curNum' = st0.curNum + num := if_pos hr
              rw [er, ec]
              omega
            · have er : rl' = rl0.dropLast ++ [(last.1, last.2 - removeNum)] := if_neg hr
              have ec : curNum' = st0.curNum + removeNum := if_neg hr
              rw [er, ec, slotsNum_snoc]
              have : rangeNum (last.1, last.2 - removeNum) = num - removeNum := by
                unfold rangeNum at *; simp only; omega
              omega
          clear_value curNum' cur' rl' num
          exact src_tail P n i part hi hp hP m st0 srcFinal dstFinal e3 rl' cur' curNum' hlt h3
            hfacts.1 hfacts.2

theorem srcWhile_ok (P : OutParams) (n i part : Nat) (hi : i < n) (hp : part < 2)
    (hP : 2 * P.srcChunkNum + P.dstMasterNum ≤ 2 * n)
    (fuel : Nat) (rl : RangeList) (st : LoopSt) (hinv : SrcInv P n st)
    (hm : slotsNum rl + (P.dstMasterNum - st.dstIdx) < fuel) :
    OkWith (srcWhile P i part fuel rl st) (fun p => SrcInv P n p.2) :=
  iterate_ok (srcBody P i part) (fun x : RangeList × LoopSt => SrcInv P n x.2) (loopMu P.dstMasterNum)
    (fun a ha => srcBody_step P n i part hi hp hP a.1 a.2 ha) fuel (rl, st) hinv hm

/-! ## the outer loops -/

theorem mem_stables0 (ch : Chunk) (rl : RangeList) (h : ch.stable0 = some rl) : rl ∈ ch.stables := by
  simp [Chunk.stables, h]
theorem mem_stables1 (ch : Chunk) (rl : RangeList) (h : ch.stable1 = some rl) : rl ∈ ch.stables := by
  simp [Chunk.stables, h]

theorem srcChunks_ok (P : OutParams) (n : Nat) (hP : 2 * P.srcChunkNum + P.dstMasterNum ≤ 2 * n)
    (hn : n * 2 ≤ SLOT_NUM) :
    ∀ (chunks : List Chunk) (i : Nat) (st : LoopSt), i + chunks.length ≤ n →
      (∀ ch ∈ chunks, ∀ rl ∈ ch.stables, slotsNum rl ≤ SLOT_NUM) → SrcInv P n st →
      OkWith (srcChunks P chunks i st) (fun p => p.1.length = chunks.length ∧ SrcInv P n p.2) := by
  intro chunks
  induction chunks with
  | nil => intro i st _ _ hinv; exact okWith_pure _ _ ⟨rfl, hinv⟩
  | cons ch rest ih =>
    intro i st hi hsz hinv
    have hfuel : ∀ (rl : RangeList) (st : LoopSt), rl ∈ ch.stables →
        slotsNum rl + (P.dstMasterNum - st.dstIdx) < loopFuel := by
      intro rl st hrl
      have := hsz ch (by simp) rl hrl
      unfold loopFuel
      unfold SLOT_NUM at *
      omega
    have hi' : i < n := by simp only [List.length_cons] at hi; omega
    unfold srcChunks
    extract_lets jp0
    have hjp0 : ∀ p : Option RangeList × LoopSt, SrcInv P n p.2 →
        OkWith (jp0 p) (fun p => p.1.length = (ch :: rest).length ∧ SrcInv P n p.2) := by
      intro p0 hinv0
      obtain ⟨s0, st0⟩ := p0
      simp only [jp0]
      have hrest : ∀ (s1 : Option RangeList) (st1 : LoopSt), SrcInv P n st1 →
          OkWith (do
            let x ← srcChunks P rest (i + 1) st1
            pure ({ ch with stable0 := s0, stable1 := s1 } :: x.1, x.2))
            (fun p => p.1.length = (ch :: rest).length ∧ SrcInv P n p.2) := by
        intro s1 st1 hinv1
        apply okWith_bind
        refine okWith_mono _ _ _ (ih (i + 1) st1 (by simp only [List.length_cons] at hi; omega)
          (fun c hc => hsz c (by simp [hc])) hinv1) ?_
        intro p2 h2
        exact okWith_pure _ _ ⟨by simp only [List.length_cons]; rw [h2.1], h2.2⟩
      split
      · rename_i rl h1
        apply okWith_bind
        refine okWith_mono _ _ _ (srcWhile_ok P n i 1 hi' (by omega) hP _ rl st0 hinv0
          (hfuel rl st0 (mem_stables1 ch rl h1))) ?_
        intro a ha
        exact hrest (some a.1) a.2 ha
      · exact hrest none st0 hinv0
    clear_value jp0
    split
    · rename_i rl h0
      apply okWith_bind
      refine okWith_mono _ _ _ (srcWhile_ok P n i 0 hi' (by omega) hP _ rl st hinv
        (hfuel rl st (mem_stables0 ch rl h0))) ?_
      intro a ha
      obtain ⟨rl', st'⟩ := a
      exact hjp0 (some rl', st') ha
    · exact hjp0 (none, st) hinv

theorem removeSlotsFromSrc_ok (cl : Cluster) (epoch : Nat) (hne : cl.chunks ≠ []) (hpre : MigPre cl) :
    OkWith (removeSlotsFromSrc cl epoch)
      (fun p => p.1.length = cl.chunks.length ∧ ∀ m ∈ p.2, Good cl.chunks.length m) := by
  unfold removeSlotsFromSrc
  extract_lets dstChunkNum masterNum srcChunkNum average P
  have hd : dstChunkNum ≤ cl.chunks.length := List.length_filter_le _ _
  have hlen : 0 < cl.chunks.length := List.length_pos_iff.mpr hne
  have hm : masterNum = cl.chunks.length * 2 := rfl
  split
  · rename_i h0; simp at h0; omega
  · have hs : srcChunkNum = cl.chunks.length - dstChunkNum := rfl
    have hP1 : P.srcChunkNum = srcChunkNum := rfl
    have hP2 : P.dstMasterNum = dstChunkNum * 2 := rfl
    clear_value P average srcChunkNum masterNum dstChunkNum
    apply okWith_bind
    refine okWith_mono _ _ _ (srcChunks_ok P cl.chunks.length (by omega) hpre.1 cl.chunks 0
      { dstIdx := 0, curSlots := [], curNum := 0, out := [] } (by omega) hpre.2
      ⟨by simp only; omega, by simp only; omega, by simp⟩) ?_
    intro p hp
    exact okWith_pure _ _ ⟨hp.1, hp.2.2.2⟩

/-! ## `assign_dst_slots` -/

theorem updateChunk_ok (chunks : List Chunk) (i part : Nat) (hi : i < chunks.length) (hp : part < 2)
    (e : MigStore) (what : String) :
    OkWith (updateChunk chunks i (fun c => (c.mig part).bind fun l => c.setMig part (l ++ [e])) what)
      (fun r => r.length = chunks.length) := by
  unfold updateChunk
  rw [List.getElem?_eq_getElem hi]
  simp only
  have hp' : part = 0 ∨ part = 1 := by omega
  rcases hp' with rfl | rfl
  · exact okWith_pure _ _ (by simp)
  · exact okWith_pure _ _ (by simp)

theorem assignFold_ok (n : Nat) (ms : List MigSlots) (hms : ∀ m ∈ ms, Good n m) :
    ∀ chunks : List Chunk, chunks.length = n →
    OkWith (ms.foldlM (fun chunks m => do
      let chunks ← updateChunk chunks m.mm.srcChunk (fun c =>
        (c.mig m.mm.srcPart).bind fun l =>
          c.setMig m.mm.srcPart (l ++ [{ ranges := m.ranges, isMigrating := true, mm := m.mm }])) "assign_dst_slots"
      updateChunk chunks m.mm.dstChunk (fun c =>
        (c.mig m.mm.dstPart).bind fun l =>
          c.setMig m.mm.dstPart (l ++ [{ ranges := m.ranges, isMigrating := false, mm := m.mm }])) "assign_dst_slots")
      chunks) (fun r => r.length = n) := by
  induction ms with
  | nil => intro chunks h; exact okWith_pure _ _ h
  | cons m rest ih =>
    intro chunks h
    obtain ⟨g1, g2, g3, g4⟩ := hms m (by simp)
    rw [List.foldlM_cons]
    apply okWith_bind
    apply okWith_bind
    refine okWith_mono _ _ _ (updateChunk_ok chunks _ _ (by omega) g2 _ _) ?_
    intro c1 h1
    refine okWith_mono _ _ _ (updateChunk_ok c1 _ _ (by omega) g4 _ _) ?_
    intro c2 h2
    exact ih (fun x hx => hms x (by simp [hx])) c2 (by omega)

theorem assignDstSlots_ok (chunks : List Chunk) (ms : List MigSlots)
    (hms : ∀ m ∈ ms, Good chunks.length m) :
    OkWith (assignDstSlots chunks ms) (fun r => r.length = chunks.length) := by
  unfold assignDstSlots
  apply okWith_bind
  refine okWith_mono _ _ _ (assignFold_ok chunks.length ms hms chunks rfl) ?_
  intro r hr
  exact okWith_pure _ _ (by simp [compactSlots, hr])

/-- planning and assignment together -/
theorem plan_ok (cl : Cluster) (epoch : Nat) (hne : cl.chunks ≠ []) (hpre : MigPre cl) :
    OkWith (do
      let (chunks, ms) ← removeSlotsFromSrc cl epoch
      assignDstSlots chunks ms : R (List Chunk)) (fun r => r.length = cl.chunks.length) := by
  apply okWith_bind
  refine okWith_mono _ _ _ (removeSlotsFromSrc_ok cl epoch hne hpre) ?_
  intro p hp
  obtain ⟨chunks, ms⟩ := p
  refine okWith_mono _ _ _ (assignDstSlots_ok chunks ms (by rw [hp.1]; exact hp.2)) ?_
  intro r hr
  rw [hr]; exact hp.1

theorem findCluster_bump (s : Store) (name : String) : s.bump.findCluster name = s.findCluster name := rfl

end Mig

open Mig in
/-- `migrate_slots` never panics when the cluster found by name satisfies the size hypothesis -/
theorem migrateSlots_no_panic' (s : Store) (name : String)
    (h : ∀ c, s.findCluster name = some c → MigPre c) :
    ∀ w, (migrateSlots s name).2 ≠ R.panic w := by
  intro w
  unfold migrateSlots
  split
  · simp
  · simp only [findCluster_bump]
    split
    · simp
    · rename_i cl hcl
      split
      · simp
      · rename_i hany
        split
        · simp
        · have hne : cl.chunks ≠ [] := by
            intro h0; simp [h0] at hany
          obtain ⟨r, hr, _⟩ := plan_ok cl s.bump.globalEpoch hne (h cl hcl)
          rw [hr]
          simp

theorem migrateSlots_no_panic (s : Store) (name : String) (h : ∀ c ∈ s.clusters, MigPre c) :
    ∀ w, (migrateSlots s name).2 ≠ R.panic w :=
  migrateSlots_no_panic' s name (fun c hc => h c (List.mem_of_find?_eq_some hc))

/-! ## `MigPre` from the slot invariant -/

namespace Mig

theorem normal_wf : ∀ (l : RangeList), NormalRanges l → ∀ r ∈ l, r.1 ≤ r.2
  | [], _ => by simp
  | [a], h => by
    intro r hr
    rw [List.mem_singleton.mp hr]; exact h
  | a :: b :: rest, h => by
    intro r hr
    rcases List.mem_cons.mp hr with rfl | hr'
    · exact h.1
    · exact normal_wf (b :: rest) h.2.2 r hr'

theorem slotsNum_eq_length (l : RangeList) (h : ∀ r ∈ l, r.1 ≤ r.2) : slotsNum l = (slotsOf l).length := by
  induction l with
  | nil => rfl
  | cons r rs ih =>
    have hr := h r (by simp)
    have e : slotsOf (r :: rs) = rangeSlots r ++ slotsOf rs := by simp [slotsOf]
    rw [slotsNum_cons, e, List.length_append, ih (fun x hx => h x (by simp [hx]))]
    unfold rangeNum rangeSlots
    rw [List.length_range']
    omega

theorem length_le_flatMap {α β} (f : α → List β) (l : List α) (a : α) (h : a ∈ l) :
    (f a).length ≤ (l.flatMap f).length := by
  have : List.Sublist (f a) (l.map f).flatten := List.sublist_flatten_of_mem (List.mem_map_of_mem h)
  rw [List.flatMap_def]
  exact this.length_le

end Mig

open Mig in
theorem MigPre_of_SlotInv (c : Cluster) (h : SlotInv c) (hn : c.chunks.length * 2 ≤ SLOT_NUM) : MigPre c := by
  refine ⟨hn, ?_⟩
  intro ch hch rl hrl
  rw [slotsNum_eq_length rl (normal_wf rl ((h.1 ch hch).1 rl hrl))]
  have h1 : (slotsOf rl).length ≤ (ch.stables.flatMap slotsOf).length := length_le_flatMap _ _ _ hrl
  have h2 := length_le_flatMap (fun ch : Chunk =>
    (ch.stables.flatMap slotsOf) ++ ((ch.migs.filter (·.isMigrating)).flatMap fun m => slotsOf m.ranges))
    c.chunks ch hch
  have h3 : c.ownedSlots.length = SLOT_NUM := by rw [h.2.length_eq, List.length_range]
  unfold Cluster.ownedSlots at h3
  rw [List.length_append] at h2
  omega

end Um.Broker
