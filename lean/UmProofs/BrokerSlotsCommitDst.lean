import UmProofs.BrokerSlotsCommitBase
/-!
# C01, `commit_migration`: the three passes separately

* `findEntry` is sound (what it returns is a position holding a matching entry; `none` means no
  entry matches);
* the first loop (`filter keep` on every list) filters `migsOf`;
* the second loop `commitDst` replaces exactly one chunk: the first one holding an importing entry
  with the given `(ranges, meta)`; on `migsOf` it is `eraseP`.
-/
namespace Um.Broker
open Um Um.Slots

/-! ## findEntry -/

/-- the test `findEntry` applies to a stored entry -/
def hitE (ranges : RangeList) (epoch : Nat) (b : Bool) (m : MigStore) : Bool :=
  m.ranges == ranges && m.mm.epoch == epoch && m.isMigrating == b

theorem hitE_iff {ranges : RangeList} {epoch : Nat} {b : Bool} {m : MigStore} :
    hitE ranges epoch b m = true ↔ m.ranges = ranges ∧ m.mm.epoch = epoch ∧ m.isMigrating = b := by
  simp [hitE, and_assoc]

theorem findEntryGo_some (r : RangeList) (e : Nat) (b : Bool) (cs : List Chunk) (i0 i p : Nat)
    (h : findEntry.go r e b cs i0 = some (i, p)) :
    ∃ c, i0 ≤ i ∧ cs[i - i0]? = some c ∧
      ((p = 0 ∧ ∃ m ∈ c.mig0, hitE r e b m = true) ∨ (p = 1 ∧ ∃ m ∈ c.mig1, hitE r e b m = true)) := by
  induction cs generalizing i0 with
  | nil => simp [findEntry.go] at h
  | cons c rest ih =>
    unfold findEntry.go at h
    simp only at h
    split at h
    · next hh =>
      injection h with h; injection h with h1 h2; subst h1; subst h2
      refine ⟨c, Nat.le_refl _, by simp, Or.inl ⟨rfl, ?_⟩⟩
      simpa [hitE] using hh
    · split at h
      · next hh =>
        injection h with h; injection h with h1 h2; subst h1; subst h2
        refine ⟨c, Nat.le_refl _, by simp, Or.inr ⟨rfl, ?_⟩⟩
        simpa [hitE] using hh
      · obtain ⟨c', h1, h2, h3⟩ := ih (i0 + 1) h
        refine ⟨c', by omega, ?_, h3⟩
        have : i - i0 = (i - (i0 + 1)) + 1 := by omega
        rw [this, List.getElem?_cons_succ]; exact h2

theorem findEntryGo_none (r : RangeList) (e : Nat) (b : Bool) (cs : List Chunk) (i0 : Nat)
    (h : findEntry.go r e b cs i0 = none) : ∀ m ∈ migsOf cs, hitE r e b m = false := by
  induction cs generalizing i0 with
  | nil => intro m hm; cases hm
  | cons c rest ih =>
    unfold findEntry.go at h
    simp only at h
    split at h
    · cases h
    · next h0 =>
      split at h
      · cases h
      · next h1 =>
        intro m hm
        rw [migsOf_cons, List.mem_append, Chunk.mem_migs] at hm
        rcases hm with (hm | hm) | hm
        · have h0' : ∀ x ∈ c.mig0, x.ranges = r → x.mm.epoch = e → ¬ x.isMigrating = b := by simpa using h0
          cases hh : hitE r e b m with
          | false => rfl
          | true => obtain ⟨a1, a2, a3⟩ := hitE_iff.mp hh; exact absurd a3 (h0' m hm a1 a2)
        · have h1' : ∀ x ∈ c.mig1, x.ranges = r → x.mm.epoch = e → ¬ x.isMigrating = b := by simpa using h1
          cases hh : hitE r e b m with
          | false => rfl
          | true => obtain ⟨a1, a2, a3⟩ := hitE_iff.mp hh; exact absurd a3 (h1' m hm a1 a2)
        · exact ih (i0 + 1) h m hm

/-- mig list of a chunk half -/
def Chunk.migAt (c : Chunk) (p : Nat) : List MigStore := if p = 0 then c.mig0 else c.mig1

/-- soundness of `findEntry`, success -/
theorem findEntry_some {cs : List Chunk} {r : RangeList} {e : Nat} {b : Bool} {i p : Nat}
    (h : findEntry cs r e b = some (i, p)) :
    ∃ c m, cs[i]? = some c ∧ p < 2 ∧ m ∈ c.migAt p ∧ m.ranges = r ∧ m.mm.epoch = e ∧ m.isMigrating = b := by
  obtain ⟨c, _, h2, h3⟩ := findEntryGo_some r e b cs 0 i p h
  rcases h3 with ⟨hp, m, hm, hh⟩ | ⟨hp, m, hm, hh⟩
  · subst hp
    exact ⟨c, m, by simpa using h2, by omega, by simpa [Chunk.migAt] using hm, hitE_iff.mp hh⟩
  · subst hp
    exact ⟨c, m, by simpa using h2, by omega, by simpa [Chunk.migAt] using hm, hitE_iff.mp hh⟩

/-- soundness of `findEntry`, failure -/
theorem findEntry_none {cs : List Chunk} {r : RangeList} {e : Nat} {b : Bool}
    (h : findEntry cs r e b = none) :
    ∀ m ∈ migsOf cs, ¬ (m.ranges = r ∧ m.mm.epoch = e ∧ m.isMigrating = b) := by
  intro m hm hh
  have := findEntryGo_none r e b cs 0 h m hm
  rw [hitE_iff.mpr hh] at this
  cases this

/-! ## first loop: drop the migrating entry everywhere -/

/-- the `retain` predicate of the first loop of `commit_migration` -/
def keepE (ranges : RangeList) (mm : MigMeta) (m : MigStore) : Bool :=
  !(m.isMigrating && m.ranges == ranges && m.mm == mm)

/-- the first loop of `commit_migration` -/
def dropSrc (ranges : RangeList) (mm : MigMeta) (cs : List Chunk) : List Chunk :=
  cs.map fun c => { c with mig0 := c.mig0.filter (keepE ranges mm), mig1 := c.mig1.filter (keepE ranges mm) }

theorem migsOf_dropSrc (r : RangeList) (mm : MigMeta) (cs : List Chunk) :
    migsOf (dropSrc r mm cs) = (migsOf cs).filter (keepE r mm) := by
  induction cs with
  | nil => rfl
  | cons c t ih =>
    have ih' : migsOf (dropSrc r mm t) = (migsOf t).filter (keepE r mm) := ih
    show migsOf (_ :: dropSrc r mm t) = _
    rw [migsOf_cons, migsOf_cons, ih', List.filter_append]
    simp [Chunk.migs]

theorem stableSlotsOf_dropSrc (r : RangeList) (mm : MigMeta) (cs : List Chunk) :
    stableSlotsOf (dropSrc r mm cs) = stableSlotsOf cs := by
  induction cs with
  | nil => rfl
  | cons c t ih =>
    have ih' : stableSlotsOf (dropSrc r mm t) = stableSlotsOf t := ih
    show stableSlotsOf (_ :: dropSrc r mm t) = _
    rw [stableSlotsOf_cons, stableSlotsOf_cons, ih']
    rfl

theorem length_dropSrc (r : RangeList) (mm : MigMeta) (cs : List Chunk) :
    (dropSrc r mm cs).length = cs.length := by simp [dropSrc]

theorem PosL.dropSrc {cs : List Chunk} (h : PosL cs) (r : RangeList) (mm : MigMeta) :
    PosL (dropSrc r mm cs) := by
  refine h.of_sub (length_dropSrc r mm cs) ?_
  intro i c c' hc hc'
  simp only [Um.Broker.dropSrc, List.getElem?_map, hc, Option.map_some, Option.some.injEq] at hc'
  subst hc'
  exact ⟨fun m hm => (List.mem_filter.mp hm).1, fun m hm => (List.mem_filter.mp hm).1⟩

theorem NormL.dropSrc {cs : List Chunk} (h : NormL cs) (r : RangeList) (mm : MigMeta) :
    NormL (dropSrc r mm cs) := by
  intro c' hc'
  obtain ⟨c, hc, rfl⟩ := List.mem_map.mp hc'
  refine ⟨(h c hc).1, ?_⟩
  intro m hm
  apply (h c hc).2 m
  rcases Chunk.mem_migs.mp hm with hm | hm
  · exact Chunk.mem_migs.mpr (Or.inl (List.mem_filter.mp hm).1)
  · exact Chunk.mem_migs.mpr (Or.inr (List.mem_filter.mp hm).1)

/-! ## second loop: `commitDst` -/

/-- the importing twin the second loop looks for -/
def isTwinOf (ranges : RangeList) (mm : MigMeta) (m : MigStore) : Bool :=
  !m.isMigrating && m.mm == mm && m.ranges == ranges

theorem isTwinOf_iff {ranges : RangeList} {mm : MigMeta} {m : MigStore} :
    isTwinOf ranges mm m = true ↔ m.isMigrating = false ∧ m.key = (ranges, mm) := by
  simp only [isTwinOf, MigStore.key, Bool.and_eq_true, Bool.not_eq_true', beq_iff_eq, Prod.mk.injEq]
  constructor
  · rintro ⟨⟨h1, h2⟩, h3⟩; exact ⟨h1, h3, h2⟩
  · rintro ⟨h1, h3, h2⟩; exact ⟨⟨h1, h2⟩, h3⟩

theorem removeFirstImporting_eq_eraseP (l : List MigStore) (r : RangeList) (mm : MigMeta) :
    removeFirstImporting l r mm = if l.any (isTwinOf r mm) then some (l.eraseP (isTwinOf r mm)) else none := by
  unfold removeFirstImporting
  have hP : (fun m : MigStore => !m.isMigrating && m.mm == mm && m.ranges == r) = isTwinOf r mm := rfl
  rw [hP, List.eraseP_eq_eraseIdx]
  cases h : l.findIdx? (isTwinOf r mm) with
  | none =>
    have := List.findIdx?_eq_none_iff.mp h
    have hany : l.any (isTwinOf r mm) = false := List.any_eq_false.mpr (fun x hx => by simp [this x hx])
    simp [hany]
  | some i =>
    cases hany : l.any (isTwinOf r mm) with
    | false =>
      have := List.any_eq_false.mp hany
      have h2 : l.findIdx? (isTwinOf r mm) = none :=
        List.findIdx?_eq_none_iff.mpr (fun x hx => by simpa using this x hx)
      rw [h2] at h; cases h
    | true => simp

/-- what the second loop stores in the half that held the twin -/
def mergeSt (st : Option RangeList) (r : RangeList) : Option RangeList :=
  match st with
  | some rl => some (mergeAnother rl r)
  | none => some r

/-- the chunk the second loop rewrites -/
def CommitChunk (r : RangeList) (mm : MigMeta) (c c' : Chunk) : Prop :=
  (c.mig0.any (isTwinOf r mm) = true ∧
    c' = { c with mig0 := c.mig0.eraseP (isTwinOf r mm), stable0 := mergeSt c.stable0 r }) ∨
  (c.mig0.any (isTwinOf r mm) = false ∧ c.mig1.any (isTwinOf r mm) = true ∧
    c' = { c with mig1 := c.mig1.eraseP (isTwinOf r mm), stable1 := mergeSt c.stable1 r })

/-- `commitDst` rewrites exactly the first chunk holding a twin (or nothing) -/
theorem commitDst_spec (r : RangeList) (mm : MigMeta) (cs : List Chunk) :
    ((∀ m ∈ migsOf cs, isTwinOf r mm m = false) ∧ commitDst r mm cs = cs) ∨
    (∃ pre c post c', cs = pre ++ c :: post ∧ commitDst r mm cs = pre ++ c' :: post ∧
      (∀ m ∈ migsOf pre, isTwinOf r mm m = false) ∧ CommitChunk r mm c c') := by
  induction cs with
  | nil => exact Or.inl ⟨fun m hm => (by simp at hm), rfl⟩
  | cons c rest ih =>
    unfold commitDst
    rw [removeFirstImporting_eq_eraseP, removeFirstImporting_eq_eraseP]
    cases h0 : c.mig0.any (isTwinOf r mm) with
    | true =>
      refine Or.inr ⟨[], c, rest, _, rfl, ?_, fun m hm => (by simp at hm), Or.inl ⟨h0, rfl⟩⟩
      simp only [if_true, List.nil_append]
      cases c.stable0 <;> rfl
    | false =>
      cases h1 : c.mig1.any (isTwinOf r mm) with
      | true =>
        refine Or.inr ⟨[], c, rest, _, rfl, ?_, fun m hm => (by simp at hm), Or.inr ⟨h0, h1, rfl⟩⟩
        simp only [if_true, List.nil_append]
        cases c.stable1 <;> rfl
      | false =>
        simp only [Bool.false_eq_true, if_false]
        have hc : ∀ m ∈ c.migs, isTwinOf r mm m = false := by
          intro m hm
          rcases Chunk.mem_migs.mp hm with hm | hm
          · simpa using List.any_eq_false.mp h0 m hm
          · simpa using List.any_eq_false.mp h1 m hm
        rcases ih with ⟨h2, h3⟩ | ⟨pre, c0, post, c', h2, h3, h4, h5⟩
        · refine Or.inl ⟨?_, by rw [h3]⟩
          intro m hm
          rw [migsOf_cons, List.mem_append] at hm
          rcases hm with hm | hm
          · exact hc m hm
          · exact h2 m hm
        · refine Or.inr ⟨c :: pre, c0, post, c', by rw [h2]; rfl, by rw [h3]; rfl, ?_, h5⟩
          intro m hm
          rw [migsOf_cons, List.mem_append] at hm
          rcases hm with hm | hm
          · exact hc m hm
          · exact h4 m hm

theorem CommitChunk.migs {r : RangeList} {mm : MigMeta} {c c' : Chunk} (h : CommitChunk r mm c c') :
    c'.migs = c.migs.eraseP (isTwinOf r mm) ∧ c.migs.any (isTwinOf r mm) = true := by
  rcases h with ⟨h0, rfl⟩ | ⟨h0, h1, rfl⟩
  · simp [Chunk.migs, List.eraseP_append, h0]
  · simp [Chunk.migs, List.eraseP_append, h0, h1]

/-- on the entry list the second loop erases the first twin -/
theorem migsOf_commitDst (r : RangeList) (mm : MigMeta) (cs : List Chunk) :
    migsOf (commitDst r mm cs) = (migsOf cs).eraseP (isTwinOf r mm) := by
  rcases commitDst_spec r mm cs with ⟨h1, h2⟩ | ⟨pre, c, post, c', h1, h2, h3, h4⟩
  · rw [h2, List.eraseP_of_forall_not (fun a ha => by simp [h1 a ha])]
  · rw [h2, h1]
    have hpre : (migsOf pre).any (isTwinOf r mm) = false :=
      List.any_eq_false.mpr (fun x hx => by simp [h3 x hx])
    simp only [migsOf_append, migsOf_cons]
    rw [List.eraseP_append, hpre, List.eraseP_append, h4.migs.2, h4.migs.1]
    simp

theorem outs_eraseP_twin (r : RangeList) (mm : MigMeta) (l : List MigStore) :
    outs (l.eraseP (isTwinOf r mm)) = outs l := by
  induction l with
  | nil => rfl
  | cons x t ih =>
    rw [List.eraseP_cons]
    cases h : isTwinOf r mm x with
    | true =>
      have := (isTwinOf_iff.mp h).1
      simp [outs_cons, this]
    | false => simp [outs_cons, ih]

theorem keys_ins_eraseP_twin (r : RangeList) (mm : MigMeta) (l : List MigStore) :
    keys (ins (l.eraseP (isTwinOf r mm))) = (keys (ins l)).erase (r, mm) := by
  induction l with
  | nil => rfl
  | cons x t ih =>
    rw [List.eraseP_cons]
    cases h : isTwinOf r mm x with
    | true =>
      have h1 := isTwinOf_iff.mp h
      simp [ins_cons, h1.1, keys, h1.2]
    | false =>
      simp only [cond_false, ins_cons]
      cases hx : x.isMigrating with
      | true => simpa using ih
      | false =>
        have hk : x.key ≠ (r, mm) := by
          intro hk
          have := isTwinOf_iff.mpr ⟨hx, hk⟩
          rw [h] at this; cases this
        simp only [Bool.false_eq_true, if_false, keys, List.map_cons]
        rw [List.erase_cons]
        have : (x.key == (r, mm)) = false := by simpa using hk
        rw [this]
        simp only [Bool.false_eq_true, if_false]
        congr 1

end Um.Broker
